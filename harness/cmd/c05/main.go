// c05 drives the real martian.Proxy with MITM enabled: a client opens a
// CONNECT tunnel (or connects to a transparent TLS listener), optionally
// starts TLS inside it, and sends N requests of various target forms.  A
// recording request modifier logs what the proxy presents; a TLS origin and a
// cleartext origin log how each request was forwarded; a hijacking modifier
// writes a marker through the connection it was handed.
//
// IN tokens:  L<p|s|t|x> T<t|p|n>[b|c] [A<n|1|2><u|a|d>] [Z] req*
//
//	L  listener: p plain TCP, s traffic-shaped, t transparent TLS (no CONNECT; T must be n),
//	   x transparent TLS wrapped by a traffic-shaping listener (no CONNECT; T must be n)
//	T  what the client does inside the tunnel: t TLS handshake, p plain HTTP, n no tunnel;
//	   optional timing of the first tunnel bytes (ClientHello / first plain request) relative to the
//	   CONNECT response: default the client waits for the 200; b it sends them in the SAME write as the
//	   CONNECT head; c it sends the CONNECT head plus the first few of those bytes in one write and
//	   the rest in a second write
//	A  TLS configuration of the tunnel (default Anu): what the client offers by ALPN: n nothing,
//	   1 http/1.1, 2 h2 and http/1.1; and mitm.Config.SetH2Config: u unset, a set with a filter that
//	   allows the host, d set with a filter that allows no host.  A2a (h2 is negotiated and the
//	   connection goes to the HTTP/2 relay) is not a case of this property: INVALID.
//	Z  the client PIPELINES: it writes the first two or three requests (up to a hijacking or
//	   host-less one) in one write, before reading the first response, then reads the responses in order
//	req = <form>[H][I|M|V]
//	  form o origin-form, Host: example.com | a absolute http://other.test/.. | s absolute https://other.test/..
//	       n origin-form, HTTP/1.0, no Host header (closes the connection)
//	  H    the request modifier hijacks the session on this request and writes a marker
//	  I / M / V  after looking at the request the modifier calls the public session mutators
//	       Session.MarkInsecure() / Session.MarkSecure() / Session.Set (and every later modifier
//	       call checks Session.Get returns the last value set: a miss is reported as session 98)
//
// OUT: one token per request, 0 = the CONNECT (when there is one), then 1..N:
//
//	R,i,scheme,host,secure,tls,sess,up,status,hk,mk
//	  scheme/host = req.URL.Scheme / req.URL.Host seen by the request modifier (- = empty)
//	  secure = Session().IsSecure(), sess = session ID (first-occurrence index)
//	  (in the CONNECT exchange the request modifier stores a value with Session().Set; every later
//	   exchange must read it back with Session().Get: a miss is reported as session 97)
//	  tls = 0 req.TLS is nil | 1 req.TLS is non-nil and, when the client speaks TLS on this connection,
//	        HandshakeComplete with the version, cipher suite and server name (SNI) the CLIENT side of that
//	        very connection negotiated | 2 non-nil but not that state (incomplete / empty / different)
//	  up = tls | plain | none : which origin received it
//	  status = status the client read on its current (TLS or plain) connection, - none
//	  hk = kind of net.Conn Session.Hijack returned: r raw, sr shaped raw, t *tls.Conn, st shaped over *tls.Conn, - no hijack
//	  mk = ok the marker written through that conn arrived on the client's current connection, no it did not, - no hijack
//	N,i   the request modifier never saw request i
package main

import (
	"bufio"
	"crypto/tls"
	"fmt"
	"io"
	"net"
	"net/http"
	"net/http/httptest"
	"os"
	"strconv"
	"strings"
	"sync"
	"sync/atomic"
	"time"

	martian "github.com/google/martian/v3"
	"github.com/google/martian/v3/h2"
	mlog "github.com/google/martian/v3/log"
	"github.com/google/martian/v3/trafficshape"
	"verifharness/hx"
	"verifharness/p2x"
)

var (
	upMu   sync.Mutex
	upSeen = map[string]string{} // X-Tok -> tls|plain
	caseNo int64
	tlsOri *httptest.Server
	plnOri *httptest.Server
)

func originHandler(kind string) http.Handler {
	return http.HandlerFunc(func(w http.ResponseWriter, r *http.Request) {
		if t := r.Header.Get("X-Tok"); t != "" {
			upMu.Lock()
			if old, ok := upSeen[t]; ok && old != kind {
				upSeen[t] = "both"
			} else {
				upSeen[t] = kind
			}
			upMu.Unlock()
		}
		w.Header().Set("X-Origin", kind)
		w.Header().Set("Content-Type", "text/plain")
		io.WriteString(w, kind)
	})
}

// earlyConn sends the CONNECT head together with the first bytes the client
// writes into the tunnel (in one Write; with split, the head plus a few of
// those bytes, then the rest), and consumes the proxy's answer to the CONNECT
// before handing tunnel bytes to the reader.
type earlyConn struct {
	net.Conn
	head   []byte
	split  bool
	br     *bufio.Reader
	status int
	got    bool
}

func (c *earlyConn) Write(b []byte) (int, error) {
	if c.head == nil {
		return c.Conn.Write(b)
	}
	head := c.head
	c.head = nil
	k := len(b)
	if c.split {
		k = len(b) / 2
		if k > 10 {
			k = 10
		}
	}
	if _, err := c.Conn.Write(append(append([]byte(nil), head...), b[:k]...)); err != nil {
		return 0, err
	}
	if k < len(b) {
		if _, err := c.Conn.Write(b[k:]); err != nil {
			return k, err
		}
	}
	return len(b), nil
}

func (c *earlyConn) Read(b []byte) (int, error) {
	if !c.got {
		res, err := http.ReadResponse(c.br, &http.Request{Method: "CONNECT"})
		if err != nil {
			return 0, err
		}
		c.got, c.status = true, res.StatusCode
		if res.StatusCode != 200 {
			return 0, fmt.Errorf("CONNECT answered %d", res.StatusCode)
		}
	}
	return c.br.Read(b)
}

type reqTok struct {
	form   byte
	hijack bool
	mut    byte // 0, 'I', 'M', 'V'
}

// what the request modifier found in req.TLS
type tlsSeen struct {
	present, complete bool
	version, cipher   uint16
	sni               string
}

type rec struct {
	mu    sync.Mutex
	tls   map[int]tlsSeen
	ids   map[string]int
	q     map[int]string // i -> scheme,host,secure,tls,sess
	hk    map[int]string
	ntoks map[int]reqTok
	lastV int // index of the last request whose modifier called Session.Set
	// the CONNECT exchange's modifier stored a value in the session
	setAtConnect bool
	pref         string
}

func (e *rec) idx(id string) int {
	if v, ok := e.ids[id]; ok {
		return v
	}
	v := len(e.ids)
	e.ids[id] = v
	return v
}

func kindOf(c net.Conn) string {
	switch v := c.(type) {
	case *tls.Conn:
		return "t"
	case *trafficshape.Conn:
		if _, ok := v.GetWrappedConn().(*tls.Conn); ok {
			return "st"
		}
		return "sr"
	case nil:
		return "nil"
	}
	return "r"
}

func dash(s string) string {
	if s == "" {
		return "-"
	}
	return s
}

func b01(b bool) string {
	if b {
		return "1"
	}
	return "0"
}

func (e *rec) ModifyRequest(req *http.Request) error {
	t := req.Header.Get("X-Tok")
	if !strings.HasPrefix(t, e.pref) {
		return nil
	}
	i, err := strconv.Atoi(t[len(e.pref):])
	if err != nil {
		return nil
	}
	ctx := martian.NewContext(req)
	sec, sid := "x", 99
	if ctx != nil && ctx.Session() != nil {
		sec = b01(ctx.Session().IsSecure())
		e.mu.Lock()
		sid = e.idx(ctx.Session().ID())
		e.mu.Unlock()
	}
	if ctx != nil && ctx.Session() != nil {
		if req.Method == "CONNECT" {
			ctx.Session().Set("verif-connect", e.pref)
			e.mu.Lock()
			e.setAtConnect = true
			e.mu.Unlock()
		} else {
			e.mu.Lock()
			if e.setAtConnect {
				if v, ok := ctx.Session().Get("verif-connect"); !ok || v != e.pref {
					sid = 97
				}
			}
			e.mu.Unlock()
		}
		e.mu.Lock()
		if e.lastV > 0 {
			if v, ok := ctx.Session().Get("verif"); !ok || v != e.lastV {
				sid = 98
			}
		}
		e.mu.Unlock()
	}
	e.mu.Lock()
	if _, dup := e.q[i]; dup {
		e.q[i] += "!dup"
	} else {
		e.q[i] = fmt.Sprintf("%s,%s,%s,TLS,%d", dash(req.URL.Scheme), dash(req.URL.Host), sec, sid)
		if cs := req.TLS; cs != nil {
			e.tls[i] = tlsSeen{true, cs.HandshakeComplete, cs.Version, cs.CipherSuite, cs.ServerName}
		}
	}
	tok, ok := e.ntoks[i]
	e.mu.Unlock()
	if ok && ctx != nil && ctx.Session() != nil {
		switch tok.mut {
		case 'I':
			ctx.Session().MarkInsecure()
		case 'M':
			ctx.Session().MarkSecure()
		case 'V':
			ctx.Session().Set("verif", i)
			e.mu.Lock()
			e.lastV = i
			e.mu.Unlock()
		}
	}
	if ok && tok.hijack && ctx != nil {
		conn, _, err := ctx.Session().Hijack()
		if err == nil {
			e.mu.Lock()
			e.hk[i] = kindOf(conn)
			e.mu.Unlock()
			if conn != nil {
				conn.SetDeadline(time.Now().Add(3 * time.Second))
				fmt.Fprintf(conn, "HTTP/1.1 299 Hijacked\r\nContent-Length: 0\r\nX-Marker: %s\r\n\r\n", t)
			}
		}
	}
	return nil
}

func (e *rec) ModifyResponse(res *http.Response) error { return nil }

// generous; shortened once several responses went missing in this run (see cmd/c02)
var (
	missing int
	ioWait  = 4 * time.Second
)

// closeWait bounds the wait for Proxy.Close; shortened like ioWait once the
// tree under test has shown several missing responses.
func closeWait() time.Duration {
	if missing >= 3 {
		return 300 * time.Millisecond
	}
	return 6 * time.Second
}

func noteMissing(err error) {
	if ne, ok := err.(net.Error); ok && ne.Timeout() {
		missing++
		if missing >= 3 {
			ioWait = 400 * time.Millisecond
		}
	}
}

func runCase(in []string) (out []string) {
	if len(in) < 2 || len(in[0]) != 2 || in[0][0] != 'L' || len(in[1]) < 2 || len(in[1]) > 3 || in[1][0] != 'T' {
		return []string{"BADCASE"}
	}
	lk, tk := in[0][1], in[1][1]
	timing := byte('a')
	if len(in[1]) == 3 {
		timing = in[1][2]
		if (timing != 'b' && timing != 'c') || tk == 'n' {
			return []string{"BADCASE"}
		}
	}
	if !strings.ContainsRune("pstx", rune(lk)) || !strings.ContainsRune("tpn", rune(tk)) || (lk == 't' || lk == 'x') != (tk == 'n') {
		return []string{"INVALID"}
	}
	alpn, h2m := byte('n'), byte('u')
	rest := in[2:]
	if len(rest) > 0 && len(rest[0]) == 3 && rest[0][0] == 'A' {
		alpn, h2m = rest[0][1], rest[0][2]
		rest = rest[1:]
		if !strings.ContainsRune("n12", rune(alpn)) || !strings.ContainsRune("uad", rune(h2m)) {
			return []string{"BADCASE"}
		}
		if alpn == '2' && h2m == 'a' {
			return []string{"INVALID"}
		}
	}
	pipeline := false
	if len(rest) > 0 && rest[0] == "Z" {
		pipeline, rest = true, rest[1:]
	}
	var toks []reqTok
	for _, t := range rest {
		if len(t) < 1 || len(t) > 3 || !strings.ContainsRune("oasn", rune(t[0])) {
			return []string{"BADCASE"}
		}
		rt := reqTok{form: t[0]}
		for _, c := range t[1:] {
			switch {
			case c == 'H' && !rt.hijack:
				rt.hijack = true
			case strings.ContainsRune("IMV", c) && rt.mut == 0:
				rt.mut = byte(c)
			default:
				return []string{"BADCASE"}
			}
		}
		toks = append(toks, rt)
	}
	pref := fmt.Sprintf("c%d-", atomic.AddInt64(&caseNo, 1))
	e := &rec{tls: map[int]tlsSeen{}, ids: map[string]int{}, q: map[int]string{}, hk: map[int]string{}, ntoks: map[int]reqTok{}, pref: pref}
	for i, t := range toks {
		e.ntoks[i+1] = t
	}

	mc, roots, err := p2x.MITM()
	if err != nil {
		return []string{"MITMERR"}
	}
	p := martian.NewProxy()
	p.SetTimeout(20 * time.Second)
	tr := &http.Transport{
		TLSClientConfig:    &tls.Config{InsecureSkipVerify: true},
		DisableCompression: true,
	}
	defer tr.CloseIdleConnections()
	p.SetRoundTripper(tr)
	p.SetDial(func(network, addr string) (net.Conn, error) {
		_, port, _ := net.SplitHostPort(addr)
		target := plnOri.Listener.Addr().String()
		if port == "443" {
			target = tlsOri.Listener.Addr().String()
		}
		return net.DialTimeout("tcp", target, 5*time.Second)
	})
	switch h2m {
	case 'a':
		mc.SetH2Config(&h2.Config{AllowedHostsFilter: func(string) bool { return true }, RootCAs: roots})
	case 'd':
		mc.SetH2Config(&h2.Config{AllowedHostsFilter: func(string) bool { return false }, RootCAs: roots})
	}
	defer mc.SetH2Config(nil) // the MITM configuration is shared by all cases of the run
	p.SetMITM(mc)
	p.SetRequestModifier(e)
	p.SetResponseModifier(e)

	l, err := net.Listen("tcp", "127.0.0.1:0")
	if err != nil {
		return []string{"LISTENERR"}
	}
	var sl net.Listener = l
	switch lk {
	case 's':
		sl = trafficshape.NewListener(l)
	case 't':
		sl = tls.NewListener(l, mc.TLS())
	case 'x':
		sl = trafficshape.NewListener(tls.NewListener(l, mc.TLS()))
	}
	go p.Serve(sl)
	defer func() {
		done := make(chan struct{})
		go func() { p.Close(); close(done) }()
		select {
		case <-done:
		case <-time.After(closeWait()):
			out = append(out, "STUCK")
		}
	}()

	ccfg := p2x.ClientTLS(roots, "example.com")
	switch alpn {
	case '1':
		ccfg.NextProtos = []string{"http/1.1"}
	case '2':
		ccfg.NextProtos = []string{"h2", "http/1.1"}
	}
	status := map[int]string{}
	marker := map[int]string{}
	raw, err := net.DialTimeout("tcp", l.Addr().String(), 5*time.Second)
	if err != nil {
		return []string{"DIALERR"}
	}
	defer raw.Close()
	var cur net.Conn = raw
	br := bufio.NewReader(cur)
	dead := false
	first := 1
	var cstate *tls.ConnectionState // what the client side of this connection negotiated
	var ec *earlyConn
	if lk == 't' || lk == 'x' {
		raw.SetDeadline(time.Now().Add(ioWait))
		tc := tls.Client(raw, ccfg)
		if err := tc.Handshake(); err != nil {
			dead = true
		} else {
			cs := tc.ConnectionState()
			cstate = &cs
		}
		cur, br = tc, bufio.NewReader(tc)
	} else if head := fmt.Sprintf("CONNECT example.com:443 HTTP/1.1\r\nHost: example.com:443\r\nX-Tok: %s0\r\n\r\n", pref); timing != 'a' && (tk == 't' || len(toks) > 0) {
		// the first tunnel bytes travel with the CONNECT head, before the 200 is read
		first = 0
		raw.SetDeadline(time.Now().Add(ioWait))
		ec = &earlyConn{Conn: raw, head: []byte(head), split: timing == 'c', br: bufio.NewReader(raw)}
		if tk == 't' {
			tc := tls.Client(ec, ccfg)
			if err := tc.Handshake(); err != nil {
				noteMissing(err)
				dead = true
			} else {
				cs := tc.ConnectionState()
				cstate = &cs
			}
			cur, br = tc, bufio.NewReader(tc)
		} else {
			cur, br = ec, bufio.NewReader(ec)
		}
	} else {
		first = 0
		raw.SetDeadline(time.Now().Add(ioWait))
		fmt.Fprintf(raw, "CONNECT example.com:443 HTTP/1.1\r\nHost: example.com:443\r\nX-Tok: %s0\r\n\r\n", pref)
		res, err := http.ReadResponse(br, &http.Request{Method: "CONNECT"})
		if err != nil {
			dead = true
		} else {
			status[0] = strconv.Itoa(res.StatusCode)
			if res.StatusCode != 200 {
				dead = true
			}
		}
		if !dead && tk == 't' {
			tc := tls.Client(raw, ccfg)
			if err := tc.Handshake(); err != nil {
				dead = true
			} else {
				cs := tc.ConnectionState()
				cstate = &cs
			}
			cur, br = tc, bufio.NewReader(tc)
		}
	}
	reqText := func(i int, t reqTok) string {
		var sb strings.Builder
		switch t.form {
		case 'o':
			fmt.Fprintf(&sb, "GET /r%d HTTP/1.1\r\nHost: example.com\r\n", i)
		case 'a':
			fmt.Fprintf(&sb, "GET http://other.test/r%d HTTP/1.1\r\nHost: other.test\r\n", i)
		case 's':
			fmt.Fprintf(&sb, "GET https://other.test/r%d HTTP/1.1\r\nHost: other.test\r\n", i)
		case 'n':
			fmt.Fprintf(&sb, "GET /r%d HTTP/1.0\r\n", i)
		}
		fmt.Fprintf(&sb, "X-Tok: %s%d\r\n\r\n", pref, i)
		return sb.String()
	}
	// pipelining: the leading group of requests goes out in one write
	group := 1
	if pipeline {
		for group = 0; group < len(toks) && group < 3 && !toks[group].hijack && toks[group].form != 'n'; group++ {
		}
		if group < 1 {
			group = 1
		}
	}
	written := 0
	for k, t := range toks {
		i := k + 1
		if dead {
			break
		}
		if k >= written {
			text, upto := "", k+1
			if k == 0 && group > 1 {
				upto = group
			}
			for j := k; j < upto; j++ {
				text += reqText(j+1, toks[j])
			}
			written = upto
			cur.SetDeadline(time.Now().Add(ioWait))
			if _, err := io.WriteString(cur, text); err != nil {
				dead = true
				break
			}
		}
		res, err := http.ReadResponse(br, &http.Request{Method: "GET"})
		if err != nil {
			noteMissing(err)
			if t.hijack {
				marker[i] = "no"
			}
			dead = true
			break
		}
		io.Copy(io.Discard, res.Body)
		res.Body.Close()
		if t.hijack {
			if res.StatusCode == 299 && res.Header.Get("X-Marker") == pref+strconv.Itoa(i) {
				marker[i] = "ok"
			} else {
				marker[i] = "no"
			}
			dead = true // the hijacker owns the connection; nothing more is sent
			break
		}
		status[i] = strconv.Itoa(res.StatusCode)
		if res.Close {
			dead = true
		}
	}
	cur.Close()
	if ec != nil && ec.status != 0 {
		status[0] = strconv.Itoa(ec.status)
	}

	upMu.Lock()
	e.mu.Lock()
	for i := first; i <= len(toks); i++ {
		q, ok := e.q[i]
		if !ok {
			out = append(out, "N,"+strconv.Itoa(i))
			continue
		}
		tf := "0"
		if ts := e.tls[i]; ts.present {
			tf = "1"
			// request 0 is the CONNECT, read before any TLS inside the tunnel
			if cstate != nil && i >= first && !(first == 0 && i == 0) {
				if !ts.complete || ts.version == 0 || ts.version != cstate.Version || ts.cipher != cstate.CipherSuite || ts.sni != ccfg.ServerName {
					tf = "2"
				}
			}
		}
		q = strings.Replace(q, ",TLS,", ","+tf+",", 1)
		up := upSeen[pref+strconv.Itoa(i)]
		if up == "" {
			up = "none"
		}
		out = append(out, fmt.Sprintf("R,%d,%s,%s,%s,%s,%s", i, q, up, dash(status[i]), dash(e.hk[i]), dash(marker[i])))
	}
	for k := range upSeen {
		if strings.HasPrefix(k, pref) {
			delete(upSeen, k)
		}
	}
	e.mu.Unlock()
	upMu.Unlock()
	return out
}

func main() {
	mlog.SetLevel(mlog.Silent)
	cfg := hx.ParseFlags()
	defer cfg.Close()
	tlsOri = httptest.NewTLSServer(originHandler("tls"))
	plnOri = httptest.NewServer(originHandler("plain"))
	defer tlsOri.Close()
	defer plnOri.Close()
	n := 0
	emit := func(kind string, in []string) {
		n++
		cfg.Emit(hx.Case{Name: fmt.Sprintf("%s%d", kind, n), In: in, Out: runCase(in)})
		cfg.Count("listener=" + in[0])
		cfg.Count("tunnel=" + in[1])
		rq := in[2:]
		if len(rq) > 0 && strings.HasPrefix(rq[0], "A") {
			cfg.Count("alpn_h2config=" + rq[0][1:])
			rq = rq[1:]
		}
		if len(rq) > 0 && rq[0] == "Z" {
			cfg.Count("pipelined=1")
			rq = rq[1:]
		}
		cfg.Count(fmt.Sprintf("requests=%d", len(rq)))
		for _, t := range rq {
			cfg.Count("form=" + t[:1])
			if strings.Contains(t, "H") {
				cfg.Count("hijack=1")
			}
			if strings.ContainsAny(t, "IMV") {
				cfg.Count("session_mutator=" + strings.Trim(t, "oasnH"))
			}
		}
	}
	pre, replayOnly := cfg.Inputs()
	for _, c := range pre {
		cfg.Emit(hx.Case{Name: c.Name, In: c.In, Out: runCase(c.In)})
	}
	if replayOnly {
		return
	}
	if v := os.Getenv("VERIF_C05_ONLY"); v != "" {
		emit("one", strings.Fields(v))
		return
	}
	rng := hx.NewRNG(cfg.Seed)
	modes := [][2]string{{"Lp", "Tt"}, {"Ls", "Tt"}, {"Lt", "Tn"}, {"Lx", "Tn"}, {"Lp", "Tp"}, {"Ls", "Tp"}}
	forms := []string{"o", "a", "s"}
	// 1. every listener/tunnel kind x every sequence of <= L keep-alive forms,
	//    each also with a hijack on its last request and with a host-less last request
	L := 3
	if cfg.Thorough() {
		L = 4
	}
	rot := 0
	var seqs [][]string
	var gen func(cur []string)
	gen = func(cur []string) {
		seqs = append(seqs, append([]string(nil), cur...))
		if len(cur) == L {
			return
		}
		for _, f := range forms {
			gen(append(cur, f))
		}
	}
	gen(nil)
	// the same tunnels with the first tunnel bytes pipelined behind / split around the CONNECT head
	// (sequences up to length 2; the longer ones do not add to the timing dimension)
	for _, tm := range []string{"b", "c"} {
		for _, m := range [][2]string{{"Lp", "Tt"}, {"Ls", "Tt"}, {"Lp", "Tp"}, {"Ls", "Tp"}} {
			for _, s := range seqs {
				if len(s) > 2 {
					continue
				}
				emit("early", append([]string{m[0], m[1] + tm}, s...))
				if len(s) > 0 {
					h := append([]string(nil), s...)
					h[len(h)-1] += "H"
					emit("earlyH", append([]string{m[0], m[1] + tm}, h...))
					x := append([]string(nil), s...)
					x[0] += "I"
					emit("earlyM", append([]string{m[0], m[1] + tm}, x...))
				}
			}
		}
	}
	// client ALPN offer x H2Config set/unset: HTTP/1.1 traffic is handled by the HTTP/1 path in
	// every combination in which h2 is not negotiated
	for _, a := range []string{"Ana", "And", "A1u", "A1a", "A1d", "A2u", "A2d"} {
		for _, m := range [][2]string{{"Lp", "Tt"}, {"Ls", "Tt"}, {"Lp", "Ttb"}, {"Lt", "Tn"}, {"Lx", "Tn"}, {"Lp", "Tp"}} {
			for _, s := range seqs {
				if len(s) == 0 || len(s) > 2 {
					continue
				}
				emit("alpn", append([]string{m[0], m[1], a}, s...))
			}
			emit("alpnH", []string{m[0], m[1], a, "o", "aH"})
			emit("alpnV", []string{m[0], m[1], a, "oV", "sI", "o"})
		}
	}
	// pipelined requests inside every kind of tunnel / listener (sequences of 2 and 3 requests,
	// also followed by a hijack and with the early ClientHello)
	for _, m := range [][2]string{{"Lp", "Tt"}, {"Ls", "Tt"}, {"Lt", "Tn"}, {"Lx", "Tn"}, {"Lp", "Tp"}, {"Ls", "Tp"}, {"Lp", "Ttb"}, {"Ls", "Tpc"}} {
		for _, s := range seqs {
			if len(s) < 2 {
				continue
			}
			emit("pipe", append([]string{m[0], m[1], "Z"}, s...))
			if len(s) == 2 {
				emit("pipeH", append(append([]string{m[0], m[1], "Z"}, s...), "oH"))
				emit("pipeM", append([]string{m[0], m[1], "Z"}, s[0]+"I", s[1]+"V", "o", "a"))
			}
		}
	}
	for _, m := range modes {
		for _, s := range seqs {
			emit("exh", append([]string{m[0], m[1]}, s...))
			if len(s) > 0 {
				h := append([]string(nil), s...)
				h[len(h)-1] += "H"
				emit("exhH", append([]string{m[0], m[1]}, h...))
			}
			if len(s) < L {
				emit("exhN", append(append([]string{m[0], m[1]}, s...), "n"))
			}
			// public session mutators called by the modifier at a rotating index
			if len(s) > 0 {
				rot++
				muts := "IV"
				if m[1] != "Tp" {
					muts = "IVM" // MarkSecure by a modifier is only meaningful on a decrypted connection
				}
				for _, mu := range muts {
					x := append([]string(nil), s...)
					x[rot%len(x)] += string(mu)
					emit("exhM", append([]string{m[0], m[1]}, x...))
				}
				if len(s) >= 2 {
					x := append([]string(nil), s...)
					x[0] += "V"
					for k := 1; k < len(x); k++ {
						x[k] += "I"
					}
					emit("exhM", append([]string{m[0], m[1]}, x...))
				}
			}
		}
	}
	// 2. longer random sequences
	nr, maxLen := 60, 8
	if cfg.Thorough() {
		nr, maxLen = 1500, 12
	}
	for k := 0; k < nr; k++ {
		r := rng.Fork()
		m := modes[r.Intn(len(modes))]
		in := []string{m[0], m[1]}
		if m[1] != "Tn" {
			in[1] += []string{"", "", "b", "c"}[r.Intn(4)]
		}
		if r.Chance(1, 2) {
			in = append(in, []string{"Ana", "And", "A1u", "A1a", "A1d", "A2u", "A2d"}[r.Intn(7)])
		}
		if r.Chance(1, 3) {
			in = append(in, "Z")
		}
		ln := r.Range(1, maxLen)
		for i := 0; i < ln; i++ {
			t := forms[r.Intn(3)]
			switch r.Intn(8) {
			case 0:
				t += "I"
			case 1:
				t += "V"
			case 2:
				if !strings.HasPrefix(in[1], "Tp") {
					t += "M"
				}
			}
			in = append(in, t)
		}
		switch r.Intn(4) {
		case 0:
			in[len(in)-1] = in[len(in)-1][:1] + "H"
		case 1:
			in = append(in, "n")
		}
		emit("rnd", in)
	}
}
