// c03 throws upstream failures and malformed client bytes at a real martian
// proxy running as a CHILD PROCESS (so that a panic or exit is observable),
// with a response modifier installed that stamps every response it sees.
//
// IN tokens:   UF <seq|pipe> <exchange>*        upstream-failure script on one client connection
//
//	exchange  Y:<id>:<G|P|H>:<rc>:<v10>:<outcome>:<status>:<framing>:<bodylen>:<sc>:<H>
//	  id        marker (request path /r<id>, response header X-Ex: <id>)
//	  G|P|H|C   GET / POST with a 5+ byte body / HEAD / CONNECT (no MITM; after a 200 the client sends GET /r<id> through the tunnel)
//	  rc        1: the client asks to close (Connection: close, or HTTP/1.0 without keep-alive)
//	  v10       1: the request is HTTP/1.0
//	  outcome   ok | ref (dial refused) | tmo (dial times out) | dns (no such host) |
//	            cut<k> (origin writes the first k bytes of its response, then closes) | gar<n> (non-HTTP bytes)
//	  framing   c | k<s1>.<s2>... (chunk sizes 1..15, cycled) | x (close-delimited) | n (no body: 204/304/HEAD)
//	  sc        1: the origin's response says Connection: close
//	  H         length of the response head in bytes (derived; checked on replay)
//	  [:d<ms>]  the dial error is reported / the origin answers only after ms milliseconds
//	  [:q<c|k|r|j>]  the request carries a body: opaque by Content-Length / chunked, or one that reads like a complete
//	            HTTP request by Content-Length / chunked (also for CONNECT)
//
//	       tseq | tpipe: the script runs INSIDE a CONNECT tunnel through the MITM-enabled proxy after a TLS handshake
//	       (origins speak TLS); hseq | hpipe: inside such a tunnel in plain HTTP (the proxy's non-TLS branch)
//	       lseq | lpipe: through a plain proxy whose modifier chain starts with the body-snapshotting HAR logger
//	       lead<g|p|h|s>: sequential, but the LAST request shares its segment with a follower that never completes (garbage /
//	       half a request / half a request then the client's half-close / a request to an origin that stays silent for 4 s);
//	       the response to the last exchange must arrive within 2 s all the same
//	modes: seq | pipe through the plain proxy; mseq | mpipe through the MITM-enabled one; sseq | spipe through a plain
//	proxy with SetTimeout(1.5 s)
//
//	MAL <hex client bytes> <0|1 close after writing>   malformed client stream, followed by a liveness probe
//
// OUT tokens:  R:<status>:<X-Ex values>:<modifier stamp>:<Warning values hex,hex.. or ->:<framing seen>:<hex body>:<ok|incomplete|err-..>
//
//	T:<status>:<X-Ex values>:<hex body>:<state>   the origin's answer read through an established CONNECT tunnel
//
//	END:<open|closed|stuck-..>   DEAD:<hex>  (the proxy process exited)   ALIVE (liveness probe after the case succeeded)
package main

import (
	"bufio"
	"bytes"
	"crypto/tls"
	"crypto/x509"
	"fmt"
	"io"
	"net"
	"net/http"
	"os"
	"os/exec"
	"strconv"
	"strings"
	"sync"
	"sync/atomic"
	"syscall"
	"time"

	martian "github.com/google/martian/v3"
	"github.com/google/martian/v3/fifo"
	"github.com/google/martian/v3/h2"
	"github.com/google/martian/v3/har"
	mlog "github.com/google/martian/v3/log"
	"github.com/google/martian/v3/mitm"
	"verifharness/hx"
	"verifharness/p1x"
)

// ---------------------------------------------------------------- the child: the proxy under test

type stamp struct{}

func (stamp) ModifyResponse(res *http.Response) error {
	res.Header.Set("X-Verif-Resmod", fmt.Sprintf("%dw%d", res.StatusCode, len(res.Header["Warning"])))
	return nil
}

func proxyChild(withMITM, short, longTimeout, withH2, withLogger bool) {
	mlog.SetLevel(mlog.Silent)
	l, err := net.Listen("tcp", "127.0.0.1:0")
	if err != nil {
		fmt.Println("ERR", err)
		os.Exit(3)
	}
	p := martian.NewProxy()
	p.SetResponseModifier(stamp{})
	// dial outcomes that need no network: an already expired deadline gives a
	// net.Error with Timeout() == true, a DNSError stands for an unknown host
	d := &net.Dialer{Timeout: 30 * time.Second, KeepAlive: 30 * time.Second}
	p.SetDial(func(network, addr string) (net.Conn, error) {
		// delay<ms>.<ref|tmo|dns>.invalid: the same failures, reported after a delay
		if strings.HasPrefix(addr, "delay") {
			if f := strings.SplitN(addr, ".", 3); len(f) == 3 {
				ms, _ := strconv.Atoi(f[0][5:])
				time.Sleep(time.Duration(ms) * time.Millisecond)
				switch {
				case strings.HasPrefix(f[1], "ref"):
					return nil, &net.OpError{Op: "dial", Net: network, Err: os.NewSyscallError("connect", syscall.ECONNREFUSED)}
				case strings.HasPrefix(f[1], "tmo"):
					addr = "timeout.invalid:80"
				default:
					addr = "nohost.invalid:80"
				}
			}
		}
		switch {
		case strings.HasPrefix(addr, "timeout.invalid:"):
			return (&net.Dialer{Deadline: time.Unix(1, 0)}).Dial("tcp", "127.0.0.1:9")
		case strings.HasPrefix(addr, "nohost.invalid:"):
			return nil, &net.OpError{Op: "dial", Net: network, Err: &net.DNSError{Err: "no such host", Name: "nohost.invalid", IsNotFound: true}}
		}
		return d.Dial(network, addr)
	})
	if withMITM {
		// the same proxy with TLS interception of CONNECT switched on, and a
		// short per-request timeout so that "silence" is over quickly
		ca, priv, err := mitm.NewAuthority("verif", "verif", time.Hour)
		if err != nil {
			fmt.Println("ERR", err)
			os.Exit(3)
		}
		mc, err := mitm.NewConfig(ca, priv)
		if err != nil {
			fmt.Println("ERR", err)
			os.Exit(3)
		}
		if withH2 {
			// ALPN h2 inside a MITM'd tunnel is handed to h2.Config.Proxy, which
			// dials the origin itself (tls.Dial, not the proxy's dialer) and
			// trusts only the certificate the harness names
			pool := x509.NewCertPool()
			if pemf := os.Getenv("VERIF_C03_ORIGIN_CA"); pemf != "" {
				if b, err := os.ReadFile(pemf); err == nil {
					pool.AppendCertsFromPEM(b)
				}
			}
			mc.SetH2Config(&h2.Config{AllowedHostsFilter: func(string) bool { return true }, RootCAs: pool})
		}
		p.SetMITM(mc)
		if !longTimeout {
			p.SetTimeout(mitmTimeout)
		}
		// requests inside a decrypted tunnel go to the origin over TLS; the
		// harness's origins use a throw-away certificate
		if tr, ok := p.GetRoundTripper().(*http.Transport); ok {
			tr.TLSClientConfig = &tls.Config{InsecureSkipVerify: true}
		}
	}
	if short {
		p.SetTimeout(shortTimeout)
	}
	if withLogger {
		// a modifier that snapshots every body (the HAR logger) behind the
		// stamping modifier: reading the body early must not change what
		// the client gets when the origin's body ends early
		logger := har.NewLogger()
		grp := fifo.NewGroup()
		grp.AddResponseModifier(stamp{})
		grp.AddResponseModifier(logger)
		p.SetRequestModifier(logger)
		p.SetResponseModifier(grp)
	}
	fmt.Println("ADDR", l.Addr().String())
	go func() { // exit when the parent goes away
		io.Copy(io.Discard, os.Stdin)
		os.Exit(0)
	}()
	p.Serve(l)
}

type child struct {
	kind string
	mu   sync.Mutex
	cmd  *exec.Cmd
	addr string
	gen  int
	dead string // non-empty: how the last child died
	last string // how the child before this one died
	errb *bytes.Buffer
	in   io.WriteCloser
}

// two proxies under test: plain, and MITM-enabled
var plainChild = &child{kind: "proxy-child"}
var mitmChild = &child{kind: "proxy-child-mitm"}

// MITM-enabled with the default (5 min) timeout: for the failure scripts, where
// a short timeout would close a connection that the proxy wrongly kept open
// and so hide exactly what is being looked for
var mitmLongChild = &child{kind: "proxy-child-mitml"}

// MITM-enabled with an h2.Config: a client that negotiates ALPN h2 inside the
// tunnel is handed to h2.Config.Proxy (3 s timeout like the MITM child)
var h2Child = &child{kind: "proxy-child-h2"}

// a plain proxy whose response modifier chain begins with a body-snapshotting logger
var harChild = &child{kind: "proxy-child-har"}

// a plain proxy with a short per-request timeout, for connections that live
// longer than it although no single exchange comes near it
var shortChild = &child{kind: "proxy-child-short"}

const shortTimeout = 1500 * time.Millisecond

var ch = plainChild

const mitmTimeout = 3 * time.Second

func childFor(m bool) *child {
	if m {
		return mitmChild
	}
	return plainChild
}

func (c *child) start() error {
	cmd := exec.Command(os.Args[0], "-extra", c.kind)
	cmd.Env = append(os.Environ(), "GOTRACEBACK=single", "VERIF_C03_ORIGIN_CA="+originCAFile)
	in, _ := cmd.StdinPipe()
	out, _ := cmd.StdoutPipe()
	errb := &bytes.Buffer{}
	cmd.Stderr = errb
	if err := cmd.Start(); err != nil {
		return err
	}
	br := bufio.NewReader(out)
	line, err := br.ReadString('\n')
	if err != nil || !strings.HasPrefix(line, "ADDR ") {
		return fmt.Errorf("child did not start: %q %v", line, err)
	}
	c.cmd, c.addr, c.errb, c.in = cmd, strings.TrimSpace(line[5:]), errb, in
	c.gen++
	gen := c.gen
	go func() {
		err := cmd.Wait()
		c.mu.Lock()
		defer c.mu.Unlock()
		if c.gen == gen && c.in != nil {
			msg := fmt.Sprint(err)
			s := errb.String()
			if i := strings.Index(s, "panic:"); i >= 0 {
				s = s[i:]
			}
			if len(s) > 300 {
				s = s[:300]
			}
			c.dead = msg + " " + strings.Join(strings.Fields(s), "_")
		}
	}()
	return nil
}

// get returns the address of a live child (restarting it if it died) and its generation.
func (c *child) get() (string, int) {
	c.mu.Lock()
	defer c.mu.Unlock()
	if c.cmd == nil || c.dead != "" {
		if c.dead != "" {
			c.last = c.dead
		}
		c.dead = ""
		if err := c.start(); err != nil {
			fmt.Fprintln(os.Stderr, "cannot start proxy child:", err)
			os.Exit(2)
		}
	}
	return c.addr, c.gen
}

// diedSince reports whether the child of generation gen has exited.
func (c *child) diedSince(gen int) (string, bool) {
	c.mu.Lock()
	defer c.mu.Unlock()
	if c.gen != gen {
		return "restarted-after:" + c.last, true
	}
	if c.dead != "" {
		return c.dead, true
	}
	return "", false
}

func (c *child) stop() {
	c.mu.Lock()
	defer c.mu.Unlock()
	if c.in != nil {
		in := c.in
		c.in = nil
		in.Close()
	}
}

// ---------------------------------------------------------------- scripts

type exch struct {
	ID      int
	Meth    byte // G P H
	RC, V10 bool
	Outcome string // ok ref cut gar
	K       int    // cut offset / garbage index
	Status  int
	Framing string // c k x n
	Sizes   []int
	BodyLen int
	SC      bool
	H       int
	Delay   int // ms before the failure (dial error) or the origin's answer
	// ReqBody: what the request carries as a body - "" (nothing; POST: a short
	// Content-Length body), "c"/"k": an opaque body by Content-Length / chunked,
	// "r"/"j": the same framings with a body that reads like a complete HTTP
	// request (if it were left in the connection it would be executed)
	ReqBody string
}

var garbage = [][]byte{
	[]byte("\x16\x03\x01\x02\x00\x01\x00\x01\xfc\x03\x03"),
	[]byte("SSH-2.0-OpenSSH_8.9\r\n"),
	[]byte("HTTP/1.1 abc OK\r\nContent-Length: 0\r\n\r\n"),
	[]byte("HTTP/1.1 200 OK\r\nContent-Length: xyz\r\n\r\nhello"),
	[]byte("HTTP/1.1 200 OK\r\nthis is not a header line\r\n\r\n"),
	[]byte("\r\n\r\n"),
	[]byte("HTTP/1.1 200 OK\r\nContent-Length: 3\r\nContent-Length: 4\r\n\r\nabcd"),
	[]byte("\x00\xff\xfe\x80 random \x01\x02 bytes \r\n\r\n more"),
	[]byte("ICY 200 OK\r\n\r\n"),
	[]byte("HTTP/1.1 200 OK\r\nTransfer-Encoding: bogus\r\n\r\nabc"),
	// bytes that Go's transport echoes into its error text: quotes, backslashes, control bytes
	[]byte("HTTP/1.1 200 OK\r\nX-\x00Nul\x01\x7f: v\r\n\r\n"),
	[]byte("HTTP/1.1 2\"0\\0 OK\r\n\r\n"),
	[]byte("HT\"TP\\/1.1 200 OK\r\n\r\n"),
	[]byte("HTTP/1.1 200 OK\r\nContent-Length: \"1\\2\"\r\n\r\n"),
	[]byte("\"quoted\" \\back\\ \x01\x02\x7f\x00 end\r\n\r\n"),
	[]byte("HTTP/1.1 200 OK\r\nTransfer-Encoding: \"x\\y\"\r\n\r\nabc"),
	[]byte("HTTP/1.1 200 OK\r\nBad\rLine\x0b: \"x\"\r\n\r\n"),
	[]byte("HTTP/1.1 200 \"OK\"\r\nno colon \"here\" \\ \x1f\r\n\r\n"),
}

func (e *exch) body() []byte {
	b := make([]byte, e.BodyLen)
	for j := range b {
		b[j] = byte('a' + (e.ID*7+j)%26)
	}
	return b
}

func (e *exch) head() []byte {
	var b bytes.Buffer
	txt := http.StatusText(e.Status)
	if txt == "" {
		txt = "Status"
	}
	fmt.Fprintf(&b, "HTTP/1.1 %d %s\r\nX-Ex: %d\r\n", e.Status, txt, e.ID)
	if e.SC {
		b.WriteString("Connection: close\r\n")
	}
	switch e.Framing {
	case "c":
		fmt.Fprintf(&b, "Content-Length: %d\r\n", e.BodyLen)
	case "k":
		b.WriteString("Transfer-Encoding: chunked\r\n")
	case "n":
		if e.Meth == 'H' {
			fmt.Fprintf(&b, "Content-Length: %d\r\n", e.BodyLen)
		}
	}
	b.WriteString("\r\n")
	return b.Bytes()
}

func (e *exch) bodyWire() []byte {
	switch e.Framing {
	case "c", "x":
		return e.body()
	case "k":
		return p1x.ChunkEncode(e.body(), e.Sizes)
	}
	return nil
}

func (e *exch) token() string {
	oc := e.Outcome
	if oc == "cut" || oc == "gar" {
		oc += strconv.Itoa(e.K)
	}
	fr := e.Framing
	if fr == "k" {
		var ss []string
		for _, s := range e.Sizes {
			ss = append(ss, strconv.Itoa(s))
		}
		fr += strings.Join(ss, ".")
	}
	d := ""
	if e.Delay > 0 {
		d = fmt.Sprintf(":d%d", e.Delay)
	}
	if e.ReqBody != "" {
		d += ":q" + e.ReqBody
	}
	return fmt.Sprintf("Y:%d:%c:%d:%d:%s:%d:%s:%d:%d:%d", e.ID, e.Meth, b2i(e.RC), b2i(e.V10), oc, e.Status, fr, e.BodyLen, b2i(e.SC), len(e.head())) + d
}

func b2i(b bool) int {
	if b {
		return 1
	}
	return 0
}

func parseExch(t string) (*exch, error) {
	f := strings.Split(t, ":")
	if len(f) < 11 || len(f) > 13 || f[0] != "Y" || len(f[2]) != 1 {
		return nil, fmt.Errorf("bad exchange token")
	}
	e := &exch{Meth: f[2][0], RC: f[3] == "1", V10: f[4] == "1", SC: f[9] == "1"}
	for _, opt := range f[11:] {
		switch {
		case strings.HasPrefix(opt, "d"):
			d, err := strconv.Atoi(opt[1:])
			if err != nil || d < 0 || d > 5000 {
				return nil, fmt.Errorf("bad delay")
			}
			e.Delay = d
		case opt == "qc" || opt == "qk" || opt == "qr" || opt == "qj":
			e.ReqBody = opt[1:]
		default:
			return nil, fmt.Errorf("bad option")
		}
	}
	var err error
	if e.ID, err = strconv.Atoi(f[1]); err != nil {
		return nil, err
	}
	switch {
	case f[5] == "ok" || f[5] == "ref" || f[5] == "tmo" || f[5] == "dns":
		e.Outcome = f[5]
	case strings.HasPrefix(f[5], "cut") || strings.HasPrefix(f[5], "gar"):
		e.Outcome = f[5][:3]
		if e.K, err = strconv.Atoi(f[5][3:]); err != nil || e.K < 0 {
			return nil, fmt.Errorf("bad outcome")
		}
		if e.Outcome == "gar" && e.K >= len(garbage) {
			return nil, fmt.Errorf("bad garbage index")
		}
	default:
		return nil, fmt.Errorf("bad outcome")
	}
	e.Status, _ = strconv.Atoi(f[6])
	if f[7] == "" {
		return nil, fmt.Errorf("bad framing")
	}
	e.Framing = f[7][:1]
	if e.Framing == "k" {
		for _, s := range strings.Split(f[7][1:], ".") {
			n, err := strconv.Atoi(s)
			if err != nil || n < 1 || n > 15 {
				return nil, fmt.Errorf("bad chunk size")
			}
			e.Sizes = append(e.Sizes, n)
		}
	}
	e.BodyLen, _ = strconv.Atoi(f[8])
	if e.BodyLen < 0 || e.BodyLen > 4096 {
		return nil, fmt.Errorf("bad body length")
	}
	e.H, _ = strconv.Atoi(f[10])
	if e.H != len(e.head()) {
		return nil, fmt.Errorf("head length %d in token, %d real", e.H, len(e.head()))
	}
	return e, nil
}

// deadAddr is an address that refuses connections: a bound socket that never listens.
// originTLS: the certificate of the origins behind decrypted tunnels (the h2
// child trusts it); originTLSUntrusted: one that nobody trusts
var originTLS, originTLSUntrusted *tls.Config
var originCAFile string

var deadAddr string

func makeDead() {
	fd, err := syscall.Socket(syscall.AF_INET, syscall.SOCK_STREAM, 0)
	if err == nil {
		err = syscall.Bind(fd, &syscall.SockaddrInet4{Port: 0, Addr: [4]byte{127, 0, 0, 1}})
	}
	if err == nil {
		if sa, e2 := syscall.Getsockname(fd); e2 == nil {
			deadAddr = fmt.Sprintf("127.0.0.1:%d", sa.(*syscall.SockaddrInet4).Port)
			return
		}
	}
	l, _ := net.Listen("tcp", "127.0.0.1:0")
	deadAddr = l.Addr().String()
	l.Close()
}

func (e *exch) request(origin string, inTunnel bool) []byte {
	target := origin
	switch e.Outcome {
	case "ref":
		target = deadAddr
	case "tmo":
		target = "timeout.invalid:80"
	case "dns":
		target = "nohost.invalid:80"
	}
	if e.Delay > 0 && (e.Outcome == "ref" || e.Outcome == "tmo" || e.Outcome == "dns") {
		target = fmt.Sprintf("delay%d.%s.invalid:80", e.Delay, e.Outcome)
	}
	if e.Meth == 'C' {
		return append([]byte(fmt.Sprintf("CONNECT %s HTTP/1.1\r\nHost: %s\r\nUser-Agent: verif\r\n", target, target)), e.reqBodyWire(origin)...)
	}
	m := map[byte]string{'G': "GET", 'P': "POST", 'H': "HEAD"}[e.Meth]
	v := "1.1"
	if e.V10 {
		v = "1.0"
	}
	var b bytes.Buffer
	if inTunnel { // origin-form inside a CONNECT tunnel
		fmt.Fprintf(&b, "%s /r%d HTTP/%s\r\nHost: %s\r\nAccept-Encoding: identity\r\nUser-Agent: verif\r\n", m, e.ID, v, target)
	} else {
		fmt.Fprintf(&b, "%s http://%s/r%d HTTP/%s\r\nHost: %s\r\nAccept-Encoding: identity\r\nUser-Agent: verif\r\n", m, target, e.ID, v, target)
	}
	switch {
	case e.RC && !e.V10:
		b.WriteString("Connection: close\r\n")
	case !e.RC && e.V10:
		b.WriteString("Connection: keep-alive\r\n")
	}
	b.Write(e.reqBodyWire(origin))
	return b.Bytes()
}

// reqBody: the body the request carries (nil: none).
func (e *exch) reqBody(origin string) []byte {
	switch e.ReqBody {
	case "c", "k":
		return []byte(fmt.Sprintf("opaque-body-%d-hello", e.ID))
	case "r", "j":
		// a complete request for an exchange nobody scripted: executed, it
		// shifts every later answer by one
		return []byte(fmt.Sprintf("GET http://%s/r9999 HTTP/1.1\r\nHost: %s\r\nAccept-Encoding: identity\r\n\r\n", origin, origin))
	}
	if e.Meth == 'P' {
		return []byte(fmt.Sprintf("data-%d", e.ID))
	}
	return nil
}

// reqBodyWire: framing header, end of head, body.
func (e *exch) reqBodyWire(origin string) []byte {
	body := e.reqBody(origin)
	switch {
	case body == nil:
		return []byte("\r\n")
	case e.ReqBody == "k" || e.ReqBody == "j":
		return append([]byte("Transfer-Encoding: chunked\r\n\r\n"), p1x.ChunkEncode(body, []int{7, 300})...)
	}
	return append([]byte(fmt.Sprintf("Content-Length: %d\r\n\r\n", len(body))), body...)
}

const sentinel = "/__verif_sentinel"

var idle = 8 * time.Second
var stuck int32

func idleNow() time.Duration {
	if atomic.LoadInt32(&stuck) > 16 {
		return idle / 8
	}
	return idle
}

// hostOf: the Host header of a request the origin received (its own address).
func hostOf(m *p1x.Msg) string {
	if v := p1x.Vals(m.Hdrs, "Host"); len(v) > 0 {
		return v[0]
	}
	return ""
}

func methodName(m byte) string {
	return map[byte]string{'G': "GET", 'P': "POST", 'H': "HEAD", 'C': "CONNECT"}[m]
}

func fmtResp(m *p1x.Msg) string {
	st := "ok"
	if m.Err != "" {
		st = "err-" + m.Err
	} else if !m.Complete {
		st = "incomplete"
	} else if m.Stray > 0 {
		st = "err-stray-crlf-before-status-line"
	}
	xex := strings.Join(p1x.Vals(m.Hdrs, "X-Ex"), ".")
	if xex == "" {
		xex = "-"
	}
	stampv := strings.Join(p1x.Vals(m.Hdrs, "X-Verif-Resmod"), ".")
	if stampv == "" {
		stampv = "-"
	}
	fr := m.Framing
	if fr == "" {
		fr = "?"
	}
	body := m.Body
	if len(body) > 6000 {
		body = body[:6000]
	}
	var ws []string
	for _, w := range p1x.Vals(m.Hdrs, "Warning") {
		ws = append(ws, hx.HexS(w)[1:])
	}
	warn := strings.Join(ws, ",")
	if len(ws) == 0 {
		warn = "-"
	}
	return fmt.Sprintf("R:%d:%s:%s:%s:%s:%s:%s", m.Status, xex, stampv, warn, fr, hx.Hex(body)[1:], st)
}

func runUF(in []string) (out []string) {
	mode := in[1]
	ch := plainChild
	// carrier of the script: the client connection itself, or a CONNECT tunnel
	// through the MITM-enabled proxy - decrypted TLS ("t") or plain HTTP ("h")
	carrier := ""
	if strings.HasPrefix(mode, "t") || strings.HasPrefix(mode, "h") {
		carrier, ch, mode = mode[:1], mitmLongChild, mode[1:]
	} else if strings.HasPrefix(mode, "m") { // mseq / mpipe: through the MITM-enabled proxy
		ch, mode = mitmLongChild, mode[1:]
	} else if strings.HasPrefix(mode, "lead") {
		// lead<g|p|h|s>: sequential; the LAST request is written together with a
		// follower that never completes (see below)
	} else if mode == "lseq" || mode == "lpipe" { // through the proxy with the HAR logger in its modifier chain
		ch, mode = harChild, mode[1:]
	} else if mode == "sseq" || mode == "spipe" { // through the proxy with the short timeout
		ch, mode = shortChild, mode[1:]
	}
	var exs []*exch
	byID := map[int]*exch{}
	for _, t := range in[2:] {
		e, err := parseExch(t)
		if err != nil {
			return []string{"BADCASE:" + hx.HexS(err.Error())[1:]}
		}
		exs = append(exs, e)
		byID[e.ID] = e
	}
	// An origin that closes silently after a COMPLETE response (cut at the very
	// end) leaves a dead connection in the transport's pool; whether the next
	// request trips over it is a race outside anybody's control. Exchanges after
	// such a one talk to a fresh origin (another port, another pool entry).
	handler := func(idx int, m *p1x.Msg) p1x.Action {
		if strings.HasSuffix(m.Target, sentinel) {
			return p1x.Action{Bytes: []byte("HTTP/1.1 200 OK\r\nContent-Length: 2\r\nConnection: close\r\n\r\nok"), Close: true}
		}
		i := strings.LastIndex(m.Target, "/r")
		id := -1
		if i >= 0 {
			id, _ = strconv.Atoi(m.Target[i+2:])
		}
		e := byID[id]
		if e == nil || i < 0 {
			return p1x.Action{Bytes: []byte("HTTP/1.1 500 Unexpected\r\nContent-Length: 0\r\nConnection: close\r\n\r\n"), Close: true}
		}
		// the origin must get the request the client wrote for this marker: its
		// method and its body, not a neighbour's leftovers
		wantMeth := methodName(e.Meth)
		if e.Meth == 'C' {
			wantMeth = "GET" // the request sent through an established tunnel
		}
		if m.Method != wantMeth || (e.Meth != 'C' && !bytes.Equal(m.Body, e.reqBody(hostOf(m)))) {
			return p1x.Action{Bytes: []byte("HTTP/1.1 500 Unexpected Request\r\nContent-Length: 0\r\nConnection: close\r\n\r\n"), Close: true}
		}
		if e.Delay > 0 {
			time.Sleep(time.Duration(e.Delay) * time.Millisecond)
		}
		full := append(e.head(), e.bodyWire()...)
		switch e.Outcome {
		case "cut":
			k := e.K
			if k > len(full) {
				k = len(full)
			}
			return p1x.Action{Bytes: full[:k], Close: true}
		case "gar":
			return p1x.Action{Bytes: garbage[e.K], Close: true}
		}
		return p1x.Action{Bytes: full, Close: e.SC || e.Framing == "x"}
	}
	var origins []*p1x.Origin
	defer func() {
		for _, o := range origins {
			o.Close()
		}
	}()
	newOrigin := func() *p1x.Origin {
		o, err := p1x.NewOrigin(true, nil)
		if err != nil {
			return nil
		}
		o.SetHandler(handler)
		if carrier == "t" {
			o.TLS = originTLS
		}
		origins = append(origins, o)
		return o
	}
	origin := newOrigin()
	if origin == nil {
		return []string{"ENV:listen"}
	}
	originOf := make([]*p1x.Origin, len(exs))
	for i, e := range exs {
		originOf[i] = origin
		if e.Outcome == "cut" && e.K >= fullLen(e) {
			if origin = newOrigin(); origin == nil {
				return []string{"ENV:listen"}
			}
		}
	}
	addr, gen := ch.get()
	conn, err := net.Dial("tcp", addr)
	if err != nil {
		if msg, dead := ch.diedSince(gen); dead {
			return []string{"DEAD:" + hx.HexS(msg)[1:]}
		}
		return []string{"ENV:dial"}
	}
	defer func() { conn.Close() }()
	br := bufio.NewReaderSize(conn, 64*1024)
	if carrier != "" {
		// set the tunnel up: CONNECT, 200, and for "t" a TLS handshake with the proxy
		conn.SetDeadline(time.Now().Add(idleNow()))
		fmt.Fprintf(conn, "CONNECT %s HTTP/1.1\r\nHost: %s\r\n\r\n", originOf[0].Addr, originOf[0].Addr)
		m := p1x.ReadResponse(br, "CONNECT", true)
		if m == nil || m.Status != 200 {
			return []string{"TUNNEL-SETUP-FAILED"}
		}
		if carrier == "t" {
			tc := tls.Client(&bufConn{Conn: conn, r: br}, &tls.Config{InsecureSkipVerify: true, ServerName: "verif.invalid"})
			if err := tc.Handshake(); err != nil {
				return []string{"TUNNEL-SETUP-FAILED:tls"}
			}
			conn = tc
			br = bufio.NewReaderSize(tc, 64*1024)
		}
	}
	end := ""
	record := func(m *p1x.Msg) bool {
		if m == nil {
			end = "closed"
			return false
		}
		out = append(out, fmtResp(m))
		if m.Err != "" {
			end = "stuck-" + m.Err
			return false
		}
		if m.EOF {
			end = "closed"
			return false
		}
		return m.Complete
	}
	// tunnel: after a 200 to CONNECT the connection is a blind tunnel to the
	// origin; one request through it, then the client hangs up.
	tunnel := func(e *exch) {
		conn.SetDeadline(time.Now().Add(idleNow()))
		fmt.Fprintf(conn, "GET /r%d HTTP/1.1\r\nHost: %s\r\nAccept-Encoding: identity\r\n\r\n", e.ID, origin.Addr)
		m := p1x.ReadResponse(br, "GET", true)
		if m == nil {
			out = append(out, "T:0:-::closed")
		} else {
			st := "ok"
			if m.Err != "" {
				st = "err-" + m.Err
			} else if !m.Complete {
				st = "incomplete"
			}
			xex := strings.Join(p1x.Vals(m.Hdrs, "X-Ex"), ".")
			if xex == "" {
				xex = "-"
			}
			out = append(out, fmt.Sprintf("T:%d:%s:%s:%s", m.Status, xex, hx.Hex(m.Body)[1:], st))
		}
		end = "tunnel"
	}
	if mode == "pipe" {
		var all bytes.Buffer
		for i, e := range exs {
			all.Write(e.request(originOf[i].Addr, carrier != ""))
		}
		go conn.Write(all.Bytes())
		for _, e := range exs {
			conn.SetReadDeadline(time.Now().Add(idleNow()))
			m := p1x.ReadResponse(br, methodName(e.Meth), true)
			if !record(m) {
				break
			}
			if e.Meth == 'C' && m.Status/100 == 2 {
				tunnel(e)
				break
			}
		}
	} else {
		for i, e := range exs {
			conn.SetWriteDeadline(time.Now().Add(30 * time.Second))
			req := e.request(originOf[i].Addr, carrier != "")
			bound := idleNow()
			if strings.HasPrefix(mode, "lead") && i == len(exs)-1 {
				// The response to this exchange must not wait for whatever follows it
				// in the same segment: garbage, half a request (then nothing, or the
				// client's half-close), or a request to an origin that stays silent.
				var follower []byte
				switch mode[4:] {
				case "g":
					follower = []byte("\x00\x01 not http \xff\r\n\r\n")
				case "p", "h":
					follower = []byte("GET http://" + originOf[i].Addr + "/r9999 HT")
				default:
					if sl, err := net.Listen("tcp", "127.0.0.1:0"); err == nil {
						defer sl.Close()
						go func() {
							if c, err := sl.Accept(); err == nil {
								time.Sleep(4 * time.Second)
								c.Close()
							}
						}()
						follower = []byte(fmt.Sprintf("GET http://%s/silent HTTP/1.1\r\nHost: %s\r\n\r\n", sl.Addr(), sl.Addr()))
					}
				}
				conn.Write(append(append([]byte{}, req...), follower...))
				if mode[4:] == "h" {
					if tc, ok := conn.(*net.TCPConn); ok {
						tc.CloseWrite()
					}
				}
				if bound > 2*time.Second {
					bound = 2 * time.Second
				}
				conn.SetReadDeadline(time.Now().Add(bound))
				record(p1x.ReadResponse(br, methodName(e.Meth), true))
				if end == "" {
					end = "lead"
				}
				break
			}
			conn.Write(req)
			conn.SetReadDeadline(time.Now().Add(bound))
			m := p1x.ReadResponse(br, methodName(e.Meth), true)
			if !record(m) {
				break
			}
			if e.Meth == 'C' && m.Status/100 == 2 {
				tunnel(e)
				break
			}
		}
	}
	if end == "" {
		conn.SetDeadline(time.Now().Add(idleNow()))
		if carrier != "" {
			fmt.Fprintf(conn, "GET %s HTTP/1.1\r\nHost: %s\r\nAccept-Encoding: identity\r\nConnection: close\r\n\r\n", sentinel, origin.Addr)
		} else {
			fmt.Fprintf(conn, "GET http://%s%s HTTP/1.1\r\nHost: %s\r\nAccept-Encoding: identity\r\nConnection: close\r\n\r\n", origin.Addr, sentinel, origin.Addr)
		}
		m := p1x.ReadResponse(br, "GET", true)
		switch {
		case m == nil:
			end = "closed"
		case m.Err == "" && m.Status == 200 && string(m.Body) == "ok":
			end = "open"
		default:
			end = "stuck-sentinel-" + m.Err
		}
	}
	out = append(out, "END:"+end)
	if msg, dead := ch.diedSince(gen); dead {
		out = append(out, "DEAD:"+hx.HexS(msg)[1:])
	}
	return out
}

// probe: one plain exchange through the proxy on a fresh connection.
func probe(ch *child) bool {
	origin, err := p1x.NewOrigin(false, nil)
	if err != nil {
		return false
	}
	defer origin.Close()
	origin.SetHandler(func(idx int, m *p1x.Msg) p1x.Action {
		return p1x.Action{Bytes: []byte("HTTP/1.1 200 OK\r\nContent-Length: 5\r\nConnection: close\r\n\r\nalive"), Close: true}
	})
	for try := 0; try < 2; try++ {
		addr, _ := ch.get()
		conn, err := net.Dial("tcp", addr)
		if err != nil {
			continue
		}
		conn.SetDeadline(time.Now().Add(idle))
		fmt.Fprintf(conn, "GET http://%s/probe HTTP/1.1\r\nHost: %s\r\nAccept-Encoding: identity\r\nConnection: close\r\n\r\n", origin.Addr, origin.Addr)
		m := p1x.ReadResponse(bufio.NewReader(conn), "GET", true)
		conn.Close()
		if m != nil && m.Status == 200 && string(m.Body) == "alive" {
			return true
		}
	}
	return false
}

func runMAL(in []string) (out []string) {
	if len(in) != 3 && len(in) != 4 {
		return []string{"BADCASE"}
	}
	ch := childFor(len(in) == 4 && in[3] == "m")
	data, err := hx.UnHex(in[1])
	if err != nil {
		return []string{"BADCASE"}
	}
	addr, gen := ch.get()
	conn, err := net.Dial("tcp", addr)
	if err != nil {
		return []string{"ENV:dial"}
	}
	conn.SetDeadline(time.Now().Add(5 * time.Second))
	conn.Write(data)
	if in[2] == "1" {
		if tc, ok := conn.(*net.TCPConn); ok {
			tc.CloseWrite()
		}
	}
	conn.SetReadDeadline(time.Now().Add(250 * time.Millisecond))
	buf := make([]byte, 4096)
	n, rerr := io.ReadFull(conn, buf)
	conn.Close()
	switch {
	case n >= 12 && bytes.HasPrefix(buf, []byte("HTTP/1.")):
		out = append(out, "mal:resp"+string(buf[9:12]))
	case n > 0:
		out = append(out, "mal:bytes")
	case rerr == io.EOF:
		out = append(out, "mal:closed")
	default:
		out = append(out, "mal:silent")
	}
	if msg, dead := ch.diedSince(gen); dead {
		out = append(out, "DEAD:"+hx.HexS(msg)[1:])
		return out
	}
	if probe(ch) {
		out = append(out, "ALIVE")
	} else if msg, dead := ch.diedSince(gen); dead {
		out = append(out, "DEAD:"+hx.HexS(msg)[1:])
	} else {
		out = append(out, "UNRESPONSIVE")
	}
	return out
}

// runCST: a client stream built around a CONNECT.
//
//	CST <p|m|g> <step>*   p: plain proxy, m: MITM-enabled proxy, g: MITM-enabled with an h2.Config
//	       connect-dead / connect-tls / connect-tlsu: CONNECT for a port that refuses / a TLS origin with a certificate the
//	       h2 proxy trusts / does not trust; tlsh2: TLS handshake offering ALPN h2
//	steps: connect (send CONNECT for the origin, read the answer) | close | half (shutdown of the write side) |
//	       wait<ms> | raw:<hex> | tls (client handshake, certificate not verified) | tlsraw:<hex> | read (until idle / EOF)
//
// OUT: cst:<what was seen, step by step>  then DEAD:… or ALIVE / UNRESPONSIVE from a probe on a fresh connection.
func runCST(in []string) (out []string) {
	ch := childFor(in[1] == "m")
	if in[1] == "g" {
		ch = h2Child
	}
	origin, err := p1x.NewOrigin(false, nil)
	if err != nil {
		return []string{"ENV:listen"}
	}
	defer origin.Close()
	origin.SetHandler(func(idx int, m *p1x.Msg) p1x.Action {
		return p1x.Action{Bytes: []byte("HTTP/1.1 200 OK\r\nContent-Length: 6\r\nConnection: close\r\n\r\ntunnel"), Close: true}
	})
	addr, gen := ch.get()
	conn, err := net.Dial("tcp", addr)
	if err != nil {
		return []string{"ENV:dial"}
	}
	defer conn.Close()
	var c net.Conn = conn
	br := bufio.NewReader(conn)
	var seen []string
	closed := false
	readSome := func(r io.Reader, d time.Duration) string {
		c.SetReadDeadline(time.Now().Add(d))
		buf := make([]byte, 4096)
		n, err := r.Read(buf)
		switch {
		case n >= 12 && bytes.HasPrefix(buf, []byte("HTTP/1.")):
			return "resp" + string(buf[9:12])
		case n > 0:
			return "bytes"
		case err == io.EOF || (err != nil && strings.Contains(err.Error(), "reset")):
			return "eof"
		default:
			return "idle"
		}
	}
	for _, st := range in[2:] {
		if closed {
			break
		}
		c.SetWriteDeadline(time.Now().Add(5 * time.Second))
		switch {
		case st == "connect" || strings.HasPrefix(st, "connect-"):
			// the CONNECT target: the plain origin, a port that refuses, or a TLS
			// origin whose certificate the h2 child trusts / does not trust
			target := origin.Addr
			switch st {
			case "connect-dead":
				target = deadAddr
			case "connect-tls", "connect-tlsu":
				o2, err := p1x.NewOrigin(false, nil)
				if err != nil {
					return []string{"ENV:listen"}
				}
				defer o2.Close()
				o2.TLS = originTLS
				if st == "connect-tlsu" {
					o2.TLS = originTLSUntrusted
				}
				o2.SetHandler(func(idx int, m *p1x.Msg) p1x.Action {
					return p1x.Action{Bytes: []byte("HTTP/1.1 200 OK\r\nContent-Length: 3\r\nConnection: close\r\n\r\ntls"), Close: true}
				})
				target = o2.Addr
			}
			fmt.Fprintf(conn, "CONNECT %s HTTP/1.1\r\nHost: %s\r\n\r\n", target, target)
			conn.SetReadDeadline(time.Now().Add(idleNow()))
			m := p1x.ReadResponse(br, "CONNECT", true)
			if m == nil {
				seen = append(seen, "connect-eof")
			} else {
				seen = append(seen, fmt.Sprintf("connect%d", m.Status))
			}
		case st == "close":
			conn.Close()
			closed = true
			seen = append(seen, "closed")
		case st == "half":
			if tc, ok := conn.(*net.TCPConn); ok {
				tc.CloseWrite()
			}
			seen = append(seen, "half")
		case strings.HasPrefix(st, "wait"):
			ms, _ := strconv.Atoi(st[4:])
			if ms > 10000 {
				ms = 10000
			}
			time.Sleep(time.Duration(ms) * time.Millisecond)
		case strings.HasPrefix(st, "raw:"):
			b, _ := hx.UnHex("x" + st[4:])
			conn.Write(b)
		case st == "tls" || st == "tlsh2":
			cfg := &tls.Config{InsecureSkipVerify: true, ServerName: "verif.invalid"}
			if st == "tlsh2" {
				cfg.NextProtos = []string{"h2"}
			}
			tc := tls.Client(&bufConn{Conn: conn, r: br}, cfg)
			tc.SetDeadline(time.Now().Add(1500 * time.Millisecond))
			if err := tc.Handshake(); err != nil {
				seen = append(seen, "tls-failed")
			} else {
				seen = append(seen, "tls-ok"+tc.ConnectionState().NegotiatedProtocol)
				c = tc
			}
		case strings.HasPrefix(st, "tlsraw:"):
			b, _ := hx.UnHex("x" + st[7:])
			c.Write(b)
		case st == "read":
			var r io.Reader = br
			if c != net.Conn(conn) {
				r = c
			}
			seen = append(seen, readSome(r, 400*time.Millisecond))
		}
	}
	if !closed {
		conn.Close()
	}
	out = append(out, "cst:"+strings.Join(seen, ","))
	if msg, dead := ch.diedSince(gen); dead {
		return append(out, "DEAD:"+hx.HexS(msg)[1:])
	}
	// give the proxy's goroutine the time to trip over what we left behind
	time.Sleep(50 * time.Millisecond)
	if probe(ch) {
		out = append(out, "ALIVE")
	} else if msg, dead := ch.diedSince(gen); dead {
		out = append(out, "DEAD:"+hx.HexS(msg)[1:])
	} else {
		out = append(out, "UNRESPONSIVE")
	}
	if msg, dead := ch.diedSince(gen); dead && out[len(out)-1] == "ALIVE" {
		out[len(out)-1] = "DEAD:" + hx.HexS(msg)[1:]
	}
	return out
}

// bufConn reads through the bufio.Reader that may already hold bytes.
type bufConn struct {
	net.Conn
	r *bufio.Reader
}

func (b *bufConn) Read(p []byte) (int, error) { return b.r.Read(p) }

func runCase(in []string) (out []string) {
	defer func() {
		if r := recover(); r != nil {
			out = append(out, "HARNESSPANIC:"+hx.HexS(fmt.Sprint(r))[1:])
		}
	}()
	if len(in) >= 2 && in[0] == "UF" {
		return runUF(in)
	}
	if len(in) >= 1 && in[0] == "MAL" {
		return runMAL(in)
	}
	if len(in) >= 2 && in[0] == "CST" {
		return runCST(in)
	}
	return []string{"BADCASE"}
}

func runRobust(in []string) []string {
	out := runCase(in)
	if len(in) > 1 && in[0] == "UF" && (in[1] == "sseq" || in[1] == "spipe") {
		// scripts for the short-timeout proxy carry no close signal: anything
		// but "every exchange answered, connection open" is the defect or a
		// stalled machine; once more before it is reported
		n := 0
		for _, t := range out {
			if strings.HasPrefix(t, "R:") {
				n++
			}
		}
		if n != len(in)-2 || out[len(out)-1] != "END:open" {
			return runCase(in)
		}
	}
	for _, t := range out {
		if strings.Contains(t, "timeout") || strings.HasPrefix(t, "ENV:") {
			if atomic.AddInt32(&stuck, 1) > 16 {
				return out
			}
			return runCase(in)
		}
	}
	return out
}

func main() {
	mlog.SetLevel(mlog.Silent)
	for i, a := range os.Args {
		if a == "-extra" && i+1 < len(os.Args) && strings.HasPrefix(os.Args[i+1], "proxy-child") {
			k := os.Args[i+1]
			proxyChild(k == "proxy-child-mitm" || k == "proxy-child-mitml" || k == "proxy-child-h2", k == "proxy-child-short", k == "proxy-child-mitml", k == "proxy-child-h2", k == "proxy-child-har")
			return
		}
	}
	cfg := hx.ParseFlags()
	defer cfg.Close()
	makeDead()
	if c, err := p1x.SelfSigned(); err == nil {
		originTLS = c
		originTLSUntrusted, _ = p1x.SelfSigned()
		if f, err := os.CreateTemp("", "verif-c03-ca-*.pem"); err == nil {
			f.Write(p1x.CertPEM(c))
			f.Close()
			originCAFile = f.Name()
			defer os.Remove(originCAFile)
		}
	} else {
		fmt.Fprintln(os.Stderr, "cannot make an origin certificate:", err)
		os.Exit(2)
	}
	if cfg.Extra == "mkcorpus" {
		for _, c := range corpus() {
			cfg.Emit(c)
		}
		return
	}
	defer plainChild.stop()
	defer mitmChild.stop()
	defer shortChild.stop()
	defer mitmLongChild.stop()
	defer h2Child.stop()
	defer harChild.stop()
	var cases []hx.Case
	pre, replayOnly := cfg.Inputs()
	cases = append(cases, pre...)
	if !replayOnly {
		cases = append(cases, generate(cfg)...)
	}
	outs := make([][]string, len(cases))
	runParallel := func(idxs []int) {
		var wg sync.WaitGroup
		next := make(chan int)
		for w := 0; w < 12; w++ {
			wg.Add(1)
			go func() {
				defer wg.Done()
				for i := range next {
					outs[i] = runRobust(cases[i].In)
				}
			}()
		}
		for _, i := range idxs {
			next <- i
		}
		close(next)
		wg.Wait()
	}
	isDead := func(i int) bool {
		for _, t := range outs[i] {
			if strings.HasPrefix(t, "DEAD:") {
				return true
			}
		}
		return false
	}
	all := make([]int, len(cases))
	for i := range all {
		all[i] = i
	}
	runParallel(all)
	// The proxy process is shared by the cases that run in parallel: when it
	// dies, every case in flight suffers. Who did it? Each suspect once more,
	// alone; then everything else once more without the culprits.
	culprit := map[int]bool{}
	for i := range cases {
		if isDead(i) {
			time.Sleep(100 * time.Millisecond)
			plainChild.get()
			mitmChild.get()
			mitmLongChild.get()
			h2Child.get()
			harChild.get()
			outs[i] = runRobust(cases[i].In)
			if isDead(i) {
				culprit[i] = true
			}
		}
	}
	if len(culprit) > 0 {
		var rest []int
		for i := range cases {
			if !culprit[i] {
				rest = append(rest, i)
			}
		}
		plainChild.get()
		mitmChild.get()
		mitmLongChild.get()
		runParallel(rest)
	}
	for i, c := range cases {
		cfg.Emit(hx.Case{Name: c.Name, In: c.In, Out: outs[i]})
	}
	// the proxy process must have survived everything
	if !replayOnly {
		for _, m := range []bool{false, true} {
			out := []string{"ALIVE"}
			if !probe(childFor(m)) {
				out = []string{"UNRESPONSIVE"}
			}
			in := []string{"MAL", "x", "0"}
			if m {
				in = append(in, "m")
			}
			cfg.Emit(hx.Case{Name: fmt.Sprintf("final-liveness-mitm-%v", m), In: in, Out: append([]string{"mal:none"}, out...)})
		}
	}
}
