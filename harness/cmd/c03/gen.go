package main

import (
	"bytes"
	"fmt"
	"strings"

	"verifharness/hx"
)

func caseOf(name, mode string, exs []*exch) hx.Case {
	in := []string{"UF", mode}
	for _, e := range exs {
		in = append(in, e.token())
	}
	return hx.Case{Name: name, In: in}
}

func okEx(id int, meth byte, framing string, n int, sizes []int) *exch {
	e := &exch{ID: id, Meth: meth, Outcome: "ok", Status: 200, Framing: framing, BodyLen: n, Sizes: sizes}
	if meth == 'H' {
		e.Framing = "n"
	}
	if e.Framing == "n" && meth != 'H' {
		e.Status, e.BodyLen = 204, 0
	}
	return e
}

func fullLen(e *exch) int { return len(e.head()) + len(e.bodyWire()) }

// cutPoints: every offset (thorough) or the boundary offsets plus a sample (quick).
func cutPoints(r *hx.RNG, e *exch, all bool) []int {
	n, h := fullLen(e), len(e.head())
	if all {
		ks := make([]int, 0, n+1)
		for k := 0; k <= n; k++ {
			ks = append(ks, k)
		}
		return ks
	}
	set := map[int]bool{}
	for _, k := range []int{0, 1, 9, 17, h - 4, h - 2, h - 1, h, h + 1, h + 2, h + 3, h + 4, h + 5, (h + n) / 2, n - 5, n - 3, n - 2, n - 1, n} {
		if k >= 0 && k <= n {
			set[k] = true
		}
	}
	for i := 0; i < 3; i++ {
		set[r.Intn(n+1)] = true
	}
	var ks []int
	for k := 0; k <= n; k++ {
		if set[k] {
			ks = append(ks, k)
		}
	}
	return ks
}

func generate(cfg *hx.Config) []hx.Case {
	rng := hx.NewRNG(cfg.Seed)
	var cases []hx.Case
	n := 0
	add := func(kind, mode string, in ...*exch) {
		n++
		// markers must be distinct within one connection
		seen := map[int]bool{}
		var exs []*exch
		for _, e := range in {
			c := *e
			for seen[c.ID] {
				c.ID = (c.ID + 1) % 100
			}
			seen[c.ID] = true
			exs = append(exs, &c)
		}
		// every third script without a CONNECT goes through the MITM-enabled proxy
		hasConnect := false
		for _, e := range exs {
			hasConnect = hasConnect || e.Meth == 'C'
		}
		if !hasConnect && (mode == "seq" || mode == "pipe") {
			switch n % 6 {
			case 0, 3: // through the MITM-enabled proxy, outside any tunnel
				mode = "m" + mode
			case 1: // inside a decrypted CONNECT tunnel
				mode = "t" + mode
			case 4: // inside a CONNECT tunnel, plain HTTP
				mode = "h" + mode
			case 2: // a body-snapshotting logger in the modifier chain
				mode = "l" + mode
			}
		}
		cfg.Count("carrier=" + map[byte]string{'s': "client-connection", 'p': "client-connection", 'm': "client-connection(mitm proxy)", 't': "tls-tunnel", 'h': "plain-tunnel", 'l': "client-connection(har logger)"}[mode[0]])
		cases = append(cases, caseOf(fmt.Sprintf("%s%d", kind, n), mode, exs))
		cfg.Count("kind=" + kind)
		cfg.Count("mode=" + mode)
		for _, e := range exs {
			cfg.Count("outcome=" + e.Outcome)
			cfg.Count("method=" + methodName(e.Meth))
			if e.Outcome == "cut" {
				switch {
				case e.K < len(e.head()):
					cfg.Count("cut=before-head-complete")
				case e.K < fullLen(e):
					cfg.Count("cut=inside-body-" + e.Framing)
				default:
					cfg.Count("cut=at-end")
				}
			}
		}
	}
	type shape struct {
		meth    byte
		framing string
		n       int
		sizes   []int
		status  int
	}
	shapes := []shape{
		{'G', "c", 10, nil, 200}, {'G', "c", 0, nil, 200}, {'G', "c", 1, nil, 404}, {'P', "c", 33, nil, 500},
		{'G', "k", 10, []int{4}, 200}, {'G', "k", 7, []int{1, 2, 3}, 200}, {'P', "k", 30, []int{15, 9}, 201}, {'G', "k", 0, []int{1}, 200},
		{'G', "n", 0, nil, 204}, {'H', "n", 10, nil, 200},
	}
	if cfg.Thorough() {
		shapes = append(shapes, shape{'G', "c", 100, nil, 200}, shape{'G', "k", 64, []int{7, 15, 1}, 200}, shape{'P', "c", 5, nil, 403}, shape{'G', "k", 12, []int{12}, 503})
	}
	id := func(r *hx.RNG) int { return r.Range(1, 99) }
	for si, s := range shapes {
		r := rng.Fork()
		base := &exch{ID: 10 + si, Meth: s.meth, Outcome: "cut", Status: s.status, Framing: s.framing, BodyLen: s.n, Sizes: s.sizes}
		for _, k := range cutPoints(r, base, cfg.Thorough()) {
			e := *base
			e.K = k
			e.ID = 10 + si
			// variation of the surroundings, cycling deterministically with k
			v := (k + si) % 6
			next := okEx(50+si, "GGPH"[(k/2)%4], []string{"c", "k", "c", "n"}[k%4], 5+k%7, []int{3})
			switch v {
			case 0:
				add("cut", "seq", &e, next)
			case 1: // upstream connection already in use: the transport may retry idempotent requests
				add("cut", "seq", okEx(40+si, 'G', "c", 3, nil), &e, next)
			case 2:
				add("cut", "pipe", &e, next)
			case 3: // client asked to close on the failing exchange
				e.RC = true
				add("cut", "seq", &e, next)
			case 4: // HTTP/1.0 client with keep-alive
				e.V10 = true
				add("cut", "seq", &e, next)
			default: // two failures in a row, then a good exchange
				e2 := e
				e2.ID = 30 + si
				e2.K = (k * 7) % (fullLen(&e2) + 1)
				add("cut", "seq", &e, &e2, next)
			}
		}
	}
	// dial refused and non-HTTP answers
	reps := 2
	if cfg.Thorough() {
		reps = 12
	}
	for rep := 0; rep < reps; rep++ {
		for _, m := range []byte{'G', 'P', 'H'} {
			r := rng.Fork()
			ref := &exch{ID: id(r), Meth: m, Outcome: "ref", Status: 200, Framing: "c", BodyLen: 4}
			add("ref", pick(r, "seq", "pipe"), ref, okEx(id(r), 'G', "c", 6, nil))
			ref2 := *ref
			ref2.RC = true
			add("ref", "seq", okEx(id(r), 'G', "k", 6, []int{2}), &ref2, okEx(id(r), 'G', "c", 6, nil))
			ref3 := *ref
			ref3.V10 = r.Bool()
			add("ref", "seq", &ref3, &ref3, okEx(id(r), 'P', "c", 6, nil))
			for g := range garbage {
				ge := &exch{ID: id(r), Meth: m, Outcome: "gar", K: g, Status: 200, Framing: "c", BodyLen: 4, V10: r.Chance(1, 6), RC: r.Chance(1, 6)}
				if r.Bool() {
					add("gar", pick(r, "seq", "pipe"), ge, okEx(id(r), 'G', pick(r, "c", "k"), 9, []int{4}))
				} else {
					add("gar", "seq", okEx(id(r), 'G', "c", 2, nil), ge, okEx(id(r), 'G', "c", 9, nil))
				}
			}
		}
	}
	// every dial outcome, for CONNECT (no MITM) and for plain requests, each
	// followed by a good exchange on the same client connection
	for rep := 0; rep < reps; rep++ {
		for _, oc := range []string{"ref", "tmo", "dns"} {
			for _, m := range []byte{'C', 'G', 'P', 'H'} {
				r := rng.Fork()
				f := &exch{ID: id(r), Meth: m, Outcome: oc, Status: 200, Framing: "c", BodyLen: 4}
				if m == 'H' {
					f.Framing = "n"
				}
				add("dial", pick(r, "seq", "pipe"), f, okEx(id(r), 'G', "c", 6, nil))
				add("dial", "seq", okEx(id(r), 'G', "k", 6, []int{2}), f, f, okEx(id(r), 'P', "c", 6, nil))
				if m != 'C' {
					f2 := *f
					f2.RC = true
					add("dial", "seq", &f2, okEx(id(r), 'G', "c", 6, nil))
					f3 := *f
					f3.V10 = true
					add("dial", "seq", &f3, okEx(id(r), 'G', "c", 6, nil))
				}
			}
		}
		// CONNECT whose dial succeeds: 200 through the modifier, then a blind tunnel
		r := rng.Fork()
		add("dial", "seq", &exch{ID: id(r), Meth: 'C', Outcome: "ok", Status: 200, Framing: "c", BodyLen: 9})
		add("dial", "seq", okEx(id(r), 'G', "c", 3, nil), &exch{ID: id(r), Meth: 'C', Outcome: "tmo", Status: 200, Framing: "c", BodyLen: 4},
			&exch{ID: id(r), Meth: 'C', Outcome: "ok", Status: 200, Framing: "k", BodyLen: 9, Sizes: []int{4}}, okEx(id(r), 'G', "c", 3, nil))
	}
	// every failure kind x position of the failing exchange x carrier: the first
	// request inside a MITM'd tunnel is served by a nested call from
	// handleConnectRequest (one for TLS, one for plain HTTP), later ones by the
	// loop; always followed by a good exchange so that a desync shows
	{
		r := rng.Fork()
		base := &exch{ID: 10, Meth: 'G', Status: 200, Framing: "c", BodyLen: 12}
		kbase := &exch{ID: 10, Meth: 'G', Status: 200, Framing: "k", BodyLen: 12, Sizes: []int{5}}
		hl, khl := len(base.head()), len(kbase.head())
		type fail struct {
			e *exch
			k int
		}
		mk := func(b *exch, oc string, k int) *exch {
			c := *b
			c.Outcome, c.K = oc, k
			return &c
		}
		fails := []*exch{
			mk(base, "cut", hl+5), mk(base, "cut", hl), mk(base, "cut", fullLen(base)-1), // short Content-Length body
			mk(kbase, "cut", khl+5), mk(kbase, "cut", khl+9), mk(kbase, "cut", fullLen(kbase)-2), // broken chunking
			mk(base, "cut", hl/2), mk(base, "cut", 0), // close inside / before the head
			mk(base, "ref", 0), mk(base, "tmo", 0), mk(base, "gar", 1), mk(base, "gar", 12),
		}
		for ci, car := range []string{"", "m", "t", "h", "t", "h", "l"} {
			for pos := 0; pos < 3; pos++ {
				for fi, f := range fails {
					var exs []*exch
					for j := 0; j < pos; j++ {
						exs = append(exs, okEx(40+j, "GP"[j%2], []string{"c", "k"}[(j+fi)%2], 4+j, []int{3}))
					}
					fe := *f
					fe.Meth = "GPG"[(fi+pos)%3]
					exs = append(exs, &fe, okEx(60, 'G', "c", 5, nil), okEx(61, 'P', "k", 6, []int{4}))
					mode := car + "seq"
					if ci == 4 || ci == 5 || ((ci < 2 || ci == 6) && (fi+pos)%4 == 3) { // both tunnels: once sequential, once pipelined
						mode = car + "pipe"
					}
					n++
					cases = append(cases, caseOf(fmt.Sprintf("pos%d", n), mode, exs))
					cfg.Count("kind=position-x-carrier")
					cfg.Count("carrier=" + map[string]string{"": "client-connection", "m": "client-connection(mitm proxy)", "t": "tls-tunnel", "h": "plain-tunnel", "l": "client-connection(har logger)"}[car])
				}
			}
		}
		_ = r
	}
	// request BODIES: a request whose round trip / CONNECT fails carries a body
	// (Content-Length or chunked; opaque, or reading like a complete request);
	// whatever happens to the exchange, the body must be gone from the
	// connection when the next request is read
	{
		k := 0
		for _, q := range []string{"c", "k", "r", "j"} {
			type fk struct {
				meth byte
				oc   string
				k    int
			}
			for _, f := range []fk{{'C', "ref", 0}, {'C', "tmo", 0}, {'C', "dns", 0},
				{'P', "ref", 0}, {'P', "tmo", 0}, {'G', "ref", 0}, {'P', "gar", 1}, {'P', "gar", 12}, {'P', "cut", 0}, {'P', "cut", 20}, {'G', "gar", 2}} {
				fe := &exch{ID: 10, Meth: f.meth, Outcome: f.oc, K: f.k, Status: 200, Framing: "c", BodyLen: 4, ReqBody: q}
				ok1 := okEx(60, 'G', "c", 5, nil)
				ok2 := okEx(61, 'P', "k", 6, []int{4})
				ok2.ReqBody = []string{"", "c", "k"}[k%3]
				mode := []string{"seq", "pipe", "seq"}[k%3]
				switch k % 4 {
				case 0:
					add("reqbody", mode, fe, ok1, ok2)
				case 1:
					add("reqbody", mode, okEx(40, 'G', "c", 3, nil), fe, ok1)
				case 2:
					fe2 := *fe
					fe2.ID = 11
					add("reqbody", mode, fe, &fe2, ok2, ok1)
				default:
					pre := okEx(41, 'P', "c", 3, nil)
					pre.ReqBody = q
					add("reqbody", mode, pre, fe, ok2)
				}
				k++
			}
		}
	}
	// followers that never complete: the answer to an exchange must not be held
	// back by what is already in the proxy's read buffer behind it
	{
		k := 0
		for _, kind := range []string{"g", "p", "h", "s"} {
			for _, oc := range []string{"ref", "tmo", "gar", "cut", "ok"} {
				for pre := 0; pre < 2; pre++ {
					last := &exch{ID: 10, Meth: "GP"[k%2], Outcome: oc, K: 3, Status: 200, Framing: []string{"c", "k"}[k%2], BodyLen: 6, Sizes: []int{4}}
					var exs []*exch
					if pre == 1 {
						exs = append(exs, okEx(40, 'G', "c", 3, nil))
					}
					n++
					cases = append(cases, caseOf(fmt.Sprintf("lead%d", n), "lead"+kind, append(exs, last)))
					cfg.Count("kind=follower-never-completes")
					k++
				}
			}
		}
	}
	// slow failures on the proxy with the short timeout: the connection lives
	// longer than SetTimeout although every exchange stays far below it
	ns := 8
	if cfg.Thorough() {
		ns = 40
	}
	for k := 0; k < ns; k++ {
		r := rng.Fork()
		var exs []*exch
		for i := 0; i < r.Range(5, 6); i++ {
			e := &exch{ID: i*15 + r.Intn(15), Meth: "GGPH"[r.Intn(4)], Status: 200, Framing: "c", BodyLen: r.Range(0, 20), Delay: 400}
			if e.Meth == 'H' {
				e.Framing = "n"
			}
			switch r.Intn(7) {
			case 0, 1:
				e.Outcome = pick(r, "ref", "tmo", "dns")
				if r.Chance(1, 3) {
					e.Meth, e.Framing = 'C', "c"
				}
			case 2:
				e.Outcome = "ref"
			case 3:
				e.Outcome, e.K = "gar", r.Intn(len(garbage))
			case 4:
				e.Outcome, e.K = "cut", r.Intn(len(e.head()))
			default:
				e.Outcome = "ok"
			}
			if k < 2 { // the plainest shape: dial failures only
				e.Meth, e.Framing, e.Outcome = 'G', "c", []string{"ref", "tmo"}[k]
			}
			exs = append(exs, e)
		}
		add("slow", "sseq", exs...)
	}
	// random mixtures
	nr := 60
	if cfg.Thorough() {
		nr = 1500
	}
	for k := 0; k < nr; k++ {
		r := rng.Fork()
		ne := r.Range(2, 4)
		var exs []*exch
		for i := 0; i < ne; i++ {
			e := &exch{ID: i*20 + r.Intn(20), Meth: "GGPH"[r.Intn(4)], Status: []int{200, 201, 404, 500}[r.Intn(4)],
				Framing: pick(r, "c", "c", "k", "k", "n"), BodyLen: r.Range(0, 40)}
			if e.Framing == "k" {
				for j := r.Range(1, 3); j > 0; j-- {
					e.Sizes = append(e.Sizes, r.Range(1, 15))
				}
			}
			if e.Meth == 'H' {
				e.Framing = "n"
			}
			if e.Framing == "n" && e.Meth != 'H' {
				e.Status, e.BodyLen = 204, 0
			}
			switch r.Intn(6) {
			case 0:
				e.Outcome = pick(r, "ref", "tmo", "dns")
				if r.Chance(1, 3) {
					e.Meth, e.Framing = 'C', "c"
				}
			case 1:
				e.Outcome, e.K = "gar", r.Intn(len(garbage))
			case 2, 3:
				e.Outcome, e.K = "cut", r.Intn(fullLen(e)+1)
			default:
				e.Outcome = "ok"
				if r.Chance(1, 8) {
					e.SC = true
				}
				if r.Chance(1, 10) && e.Framing == "c" {
					e.Framing = "x"
				}
			}
			e.RC = r.Chance(1, 10)
			e.V10 = r.Chance(1, 10)
			if e.Meth == 'C' {
				e.RC, e.V10 = false, false
			}
			if (e.Meth == 'C' && e.Outcome != "ok") || e.Meth == 'P' || e.Meth == 'G' {
				if r.Chance(1, 3) {
					e.ReqBody = pick(r, "c", "k", "r", "j")
				}
			}
			if e.V10 && (e.ReqBody == "k" || e.ReqBody == "j") {
				e.ReqBody = "c"
			}
			exs = append(exs, e)
		}
		add("mix", pick(r, "seq", "seq", "pipe"), exs...)
	}
	cases = append(cases, malformed(cfg, rng)...)
	cases = append(cases, connectStreams(cfg, rng)...)
	return cases
}

func pick(r *hx.RNG, xs ...string) string { return xs[r.Intn(len(xs))] }

// malformed client byte streams
func malformed(cfg *hx.Config, rng *hx.RNG) []hx.Case {
	var cases []hx.Case
	n := 0
	add := func(kind string, b []byte, closeAfter bool) {
		n++
		c := "0"
		if closeAfter {
			c = "1"
		}
		cases = append(cases, hx.Case{Name: fmt.Sprintf("mal-%s%d", kind, n), In: []string{"MAL", hx.Hex(b), c}})
		cfg.Count("malformed=" + kind)
	}
	valid := "POST http://" + deadAddr + "/x?y=1 HTTP/1.1\r\nHost: " + deadAddr + "\r\nContent-Length: 5\r\nX-A: b\r\n\r\nhello"
	fixed := []string{
		"", "\r\n", "\r\n\r\n", "GET", "GET / HTTP/1.1\r\n", "GET / HTTP/1.1\r\n\r\n", "GET / HTTP/1.1\r\nHost:\r\n\r\n",
		"GET http://[::1 HTTP/1.1\r\nHost: x\r\n\r\n", "GET http://%zz/ HTTP/1.1\r\nHost: x\r\n\r\n", "GET / HTTP/9.9\r\nHost: x\r\n\r\n",
		"GET / HTTP/1.1\r\nHost: a\r\nHost: b\r\n\r\n", "GET  /  HTTP/1.1\r\nHost: x\r\n\r\n", " GET / HTTP/1.1\r\nHost: x\r\n\r\n",
		"GET / HTTP/1.1\r\nHost: " + deadAddr + "\r\nContent-Length: -1\r\n\r\n", "GET / HTTP/1.1\r\nHost: " + deadAddr + "\r\nContent-Length: 99999999999999999999\r\n\r\n",
		"POST / HTTP/1.1\r\nHost: " + deadAddr + "\r\nContent-Length: 100\r\n\r\nshort",
		"POST / HTTP/1.1\r\nHost: " + deadAddr + "\r\nTransfer-Encoding: chunked\r\n\r\nzz\r\nabc\r\n0\r\n\r\n",
		"POST / HTTP/1.1\r\nHost: " + deadAddr + "\r\nTransfer-Encoding: chunked\r\n\r\nffffffffffffffffff\r\nabc",
		"POST / HTTP/1.1\r\nHost: " + deadAddr + "\r\nTransfer-Encoding: chunked\r\nContent-Length: 3\r\n\r\n3\r\nabc\r\n0\r\n\r\n",
		"POST / HTTP/1.1\r\nHost: " + deadAddr + "\r\nTransfer-Encoding: gzip\r\n\r\nabc",
		"GET / HTTP/1.1\r\nHost: " + deadAddr + "\r\nX-Bad: a\x01b\r\n\r\n", "GET / HTTP/1.1\r\nHost: " + deadAddr + "\r\nX Bad: v\r\n\r\n",
		"GET / HTTP/1.1\r\nHost: " + deadAddr + "\r\n: novalue\r\n\r\n", "GET / HTTP/1.1\r\nHost: " + deadAddr + "\r\nno colon here\r\n\r\n",
		"GET / HTTP/1.1\r\nHost: " + deadAddr + "\r\n continuation\r\n\r\n", "GET / HTTP/1.1\nHost: " + deadAddr + "\n\n",
		"PRI * HTTP/2.0\r\n\r\nSM\r\n\r\n", "OPTIONS * HTTP/1.1\r\nHost: " + deadAddr + "\r\n\r\n", "CONNECT " + deadAddr + " HTTP/1.1\r\nHost: " + deadAddr + "\r\n\r\n",
		"CONNECT / HTTP/1.1\r\nHost: x\r\n\r\n", "CONNECT HTTP/1.1\r\n\r\n", "GET http:// HTTP/1.1\r\nHost: \r\n\r\n", "GET http://:0/ HTTP/1.1\r\nHost: :0\r\n\r\n",
		"GET http://" + deadAddr + "/ HTTP/1.1\r\nHost: " + deadAddr + "\r\nExpect: 100-continue\r\nContent-Length: 5\r\n\r\n",
		"GET http://" + deadAddr + "/ HTTP/1.1\r\nHost: " + deadAddr + "\r\nUpgrade: websocket\r\nConnection: Upgrade\r\n\r\n",
		"GET http://" + deadAddr + "/ HTTP/1.1\r\nHost: " + deadAddr + "\r\nRange: bytes=5-1\r\nTrailer: X\r\nTE: gzip\r\n\r\n",
		"GET ftp://" + deadAddr + "/ HTTP/1.1\r\nHost: " + deadAddr + "\r\n\r\n", "GET //" + deadAddr + "/ HTTP/1.1\r\nHost: " + deadAddr + "\r\n\r\n",
		"\x16\x03\x01\x02\x00\x01\x00\x01\xfc\x03\x03", "\x00\x00\x00\x00", strings.Repeat("\r\n", 3000), "GET /" + strings.Repeat("a", 200000) + " HTTP/1.1\r\nHost: x\r\n\r\n",
		"GET / HTTP/1.1\r\nHost: x\r\nX-Big: " + strings.Repeat("b", 1100000) + "\r\n\r\n",
		"GET / HTTP/1.1\r\nHost: " + deadAddr + "\r\n" + strings.Repeat("X-H: v\r\n", 6000) + "\r\n",
	}
	for i, f := range fixed {
		add("fixed", []byte(f), i%2 == 0)
	}
	nr := 50
	if cfg.Thorough() {
		nr = 800
	}
	for k := 0; k < nr; k++ {
		r := rng.Fork()
		switch r.Intn(4) {
		case 0: // random bytes
			add("random", r.Bytes(r.Range(1, 300)), r.Bool())
		case 1: // truncated valid request
			add("truncated", []byte(valid[:r.Intn(len(valid))]), r.Bool())
		case 2: // byte flips in a valid request
			b := []byte(valid)
			for j := r.Range(1, 4); j > 0; j-- {
				b[r.Intn(len(b))] = byte(r.Uint64())
			}
			add("flipped", b, r.Bool())
		default: // spliced: a piece of a valid request inside another
			a, c := r.Intn(len(valid)), r.Intn(len(valid))
			var b bytes.Buffer
			b.WriteString(valid[:a])
			b.WriteString(valid[c:])
			b.WriteString(valid)
			add("spliced", b.Bytes(), r.Bool())
		}
	}
	return cases
}

func hexs(s string) string { return hx.HexS(s)[1:] }

// cstVariants: what a client may do around one CONNECT, for the plain (m = false)
// and the MITM-enabled proxy.
func cstVariants(m bool) [][]string {
	silence := []string{"connect", "wait300", "close"}
	tlsSilence := []string{"connect", "tls", "wait300", "close"}
	if m { // until the proxy's own (short) timeout has fired
		silence = []string{"connect", fmt.Sprintf("wait%d", int(mitmTimeout.Milliseconds())+500), "read"}
		tlsSilence = []string{"connect", "tls", fmt.Sprintf("wait%d", int(mitmTimeout.Milliseconds())+500), "read"}
	}
	get := "GET / HTTP/1.1\r\nHost: nohost.invalid\r\n\r\n"
	hello := "\x16\x03\x01\x02\x00\x01\x00\x01\xfc\x03\x03" + strings.Repeat("\x5a", 50)
	return [][]string{
		{"connect", "close"},
		{"connect", "half", "read"},
		silence,
		{"connect", "raw:00", "wait100", "close"},
		{"connect", "raw:00", "read"},
		{"connect", "raw:ff", "half", "read"},
		{"connect", "raw:16", "close"},
		{"connect", "raw:16", "half", "read"},
		{"connect", "raw:1603010200", "close"},
		{"connect", "raw:1603010200", "read"},
		{"connect", "raw:" + hexs(hello), "wait100", "close"},
		{"connect", "raw:" + hexs(hello), "half", "read"},
		{"connect", "raw:16030100051234567890", "read"},
		{"connect", "raw:" + hexs(get), "read"},
		{"connect", "raw:" + hexs("GET / HT"), "close"},
		{"connect", "raw:" + hexs("GET / HT"), "half", "read"},
		{"connect", "raw:" + hexs("POST / HTTP/1.1\r\nHost: nohost.invalid\r\nContent-Length: 100\r\n\r\nshort"), "half", "read"},
		{"connect", "raw:" + hexs("CONNECT nohost.invalid:443 HTTP/1.1\r\nHost: nohost.invalid:443\r\n\r\n"), "read"},
		{"connect", "tls", "close"},
		{"connect", "tls", "half", "read"},
		tlsSilence,
		{"connect", "tls", "tlsraw:" + hexs("\x00\x01garbage\xff\r\n\r\n"), "read"},
		{"connect", "tls", "tlsraw:" + hexs(get), "read"},
		{"connect", "tls", "tlsraw:" + hexs("GET / HT"), "close"},
		{"connect", "tls", "tlsraw:" + hexs("POST / HTTP/1.1\r\nHost: nohost.invalid\r\nContent-Length: 100\r\n\r\nshort"), "close"},
		{"connect", "tls", "tlsraw:" + hexs("CONNECT nohost.invalid:443 HTTP/1.1\r\nHost: nohost.invalid:443\r\n\r\n"), "read"},
		{"raw:" + hexs("CONNECT"), "close"},
		{"raw:" + hexs("CONNECT nohost.invalid:443 HTTP/1.1\r\n"), "half", "read"},
		{"connect", "connect", "read"},
	}
}

func connectStreams(cfg *hx.Config, rng *hx.RNG) []hx.Case {
	var cases []hx.Case
	n := 0
	add := func(m bool, steps []string) {
		n++
		k := "p"
		if m {
			k = "m"
		}
		cases = append(cases, hx.Case{Name: fmt.Sprintf("cst-%s%d", k, n), In: append([]string{"CST", k}, steps...)})
		cfg.Count("connect-stream=" + map[bool]string{false: "plain", true: "mitm"}[m])
	}
	for _, m := range []bool{false, true} {
		for _, v := range cstVariants(m) {
			add(m, v)
		}
	}
	// ALPN h2 inside a MITM'd tunnel: h2.Config.Proxy dials the origin itself;
	// every outcome of that dial, then the process must still serve
	preface := hexs("PRI * HTTP/2.0\r\n\r\nSM\r\n\r\n\x00\x00\x00\x04\x00\x00\x00\x00\x00")
	for _, target := range []string{"connect-dead", "connect", "connect-tlsu", "connect-tls"} {
		for _, rest := range [][]string{{"read"}, {"close"}, {"tlsraw:" + preface, "read"}, {"half", "read"}} {
			n++
			cases = append(cases, hx.Case{Name: fmt.Sprintf("cst-g%d", n), In: append([]string{"CST", "g", target, "tlsh2"}, rest...)})
			cfg.Count("connect-stream=mitm+h2:" + target)
		}
		// the same proxy, a client that does not offer h2
		n++
		cases = append(cases, hx.Case{Name: fmt.Sprintf("cst-g%d", n), In: []string{"CST", "g", target, "tls", "tlsraw:" + hexs("GET / HTTP/1.1\r\nHost: nohost.invalid\r\n\r\n"), "read"}})
	}
	nr := 30
	if cfg.Thorough() {
		nr = 400
	}
	for k := 0; k < nr; k++ {
		r := rng.Fork()
		steps := []string{"connect"}
		if r.Chance(1, 3) {
			steps = append(steps, "tls")
		}
		b := r.Bytes(r.Range(1, 120))
		if r.Chance(1, 3) {
			b[0] = 0x16
		}
		if steps[len(steps)-1] == "tls" {
			steps = append(steps, "tlsraw:"+hx.Hex(b)[1:])
		} else {
			steps = append(steps, "raw:"+hx.Hex(b)[1:])
		}
		steps = append(steps, pick(r, "close", "read", "half"))
		if steps[len(steps)-1] == "half" {
			steps = append(steps, "read")
		}
		add(r.Chance(2, 3), steps)
	}
	return cases
}

func corpus() []hx.Case {
	var cs []hx.Case
	add := func(name, mode string, exs ...*exch) { cs = append(cs, caseOf(name, mode, exs)) }
	d2 := &exch{ID: 1, Meth: 'G', Outcome: "cut", Status: 200, Framing: "c", BodyLen: 10}
	d2.K = len(d2.head()) + 3
	add("d2-content-length-10-cut-after-3-body-bytes", "seq", d2, okEx(2, 'G', "c", 5, nil))
	d2p := *d2
	add("d2-same-pipelined", "pipe", &d2p, okEx(2, 'G', "c", 5, nil))
	d2k := &exch{ID: 3, Meth: 'G', Outcome: "cut", Status: 200, Framing: "k", BodyLen: 10, Sizes: []int{4}}
	d2k.K = len(d2k.head()) + 9 // "4\r\nabcd\r\n" complete, nothing of the second chunk
	add("d2-chunked-cut-after-first-chunk", "seq", d2k, okEx(4, 'G', "c", 5, nil))
	d2m := *d2k
	d2m.K = len(d2k.head()) + 5 // inside the first chunk's data
	add("d2-chunked-cut-inside-chunk", "seq", &d2m, okEx(4, 'G', "c", 5, nil))
	h0 := *d2
	h0.K = 0
	add("cut-at-0-on-reused-upstream-connection", "seq", okEx(5, 'G', "c", 3, nil), &h0, okEx(6, 'G', "c", 5, nil))
	h1 := *d2
	h1.K = len(d2.head()) - 1
	add("cut-one-byte-before-head-end", "seq", &h1, okEx(6, 'P', "k", 5, []int{2}))
	h2 := *d2
	h2.K = len(d2.head())
	add("cut-exactly-after-head", "seq", &h2, okEx(6, 'G', "c", 5, nil))
	add("dial-refused-then-ok", "seq", &exch{ID: 7, Meth: 'G', Outcome: "ref", Status: 200, Framing: "c", BodyLen: 4}, okEx(8, 'G', "c", 5, nil))
	for _, oc := range []string{"ref", "tmo", "dns"} {
		add("connect-dial-"+oc+"-then-get", "seq", &exch{ID: 11, Meth: 'C', Outcome: oc, Status: 200, Framing: "c", BodyLen: 4}, okEx(12, 'G', "c", 5, nil))
	}
	add("get-dial-timeout-then-get", "seq", &exch{ID: 13, Meth: 'G', Outcome: "tmo", Status: 200, Framing: "c", BodyLen: 4}, okEx(12, 'G', "c", 5, nil))
	add("connect-ok-tunnel", "seq", okEx(14, 'G', "c", 3, nil), &exch{ID: 15, Meth: 'C', Outcome: "ok", Status: 200, Framing: "c", BodyLen: 9})
	for g := 10; g < len(garbage); g++ {
		add(fmt.Sprintf("garbage-echoed-into-warning-%d", g), "seq", &exch{ID: 16, Meth: 'G', Outcome: "gar", K: g, Status: 200, Framing: "c", BodyLen: 4}, okEx(17, 'G', "c", 5, nil))
	}
	for _, car := range []string{"t", "h"} {
		for pos := 0; pos < 2; pos++ {
			var exs []*exch
			if pos == 1 {
				exs = append(exs, okEx(30, 'G', "c", 3, nil))
			}
			c := *d2
			k := *d2k
			add(fmt.Sprintf("tunnel-%s-request-%d-content-length-cut-mid-body", car, pos+1), car+"seq", append(append([]*exch{}, exs...), &c, okEx(2, 'G', "c", 5, nil))...)
			add(fmt.Sprintf("tunnel-%s-request-%d-chunked-cut-mid-body", car, pos+1), car+"seq", append(append([]*exch{}, exs...), &k, okEx(4, 'G', "c", 5, nil))...)
		}
	}
	for _, q := range []string{"c", "k", "r", "j"} {
		add("connect-with-body-"+q+"-refused-then-requests", "seq", &exch{ID: 18, Meth: 'C', Outcome: "ref", Status: 200, Framing: "c", BodyLen: 4, ReqBody: q}, okEx(19, 'G', "c", 5, nil), okEx(20, 'P', "c", 5, nil))
	}
	add("post-with-request-looking-body-refused-then-requests", "pipe", &exch{ID: 21, Meth: 'P', Outcome: "ref", Status: 200, Framing: "c", BodyLen: 4, ReqBody: "j"}, okEx(19, 'G', "c", 5, nil), okEx(20, 'P', "c", 5, nil))
	for _, kind := range []string{"g", "h", "s"} {
		add("refused-then-follower-"+kind+"-in-the-same-segment", "lead"+kind, &exch{ID: 22, Meth: 'G', Outcome: "ref", Status: 200, Framing: "c", BodyLen: 4})
	}
	var slow []*exch
	for i := 0; i < 5; i++ {
		slow = append(slow, &exch{ID: 20 + i, Meth: 'G', Outcome: []string{"ref", "tmo", "ref", "dns", "ref"}[i], Status: 200, Framing: "c", BodyLen: 4, Delay: 400})
	}
	add("slow-dial-failures-outlive-the-proxy-timeout", "sseq", slow...)
	cs = append(cs,
		hx.Case{Name: "mitm-connect-then-close", In: []string{"CST", "m", "connect", "close"}},
		hx.Case{Name: "mitm-connect-then-silence", In: []string{"CST", "m", "connect", fmt.Sprintf("wait%d", int(mitmTimeout.Milliseconds())+500), "read"}},
		hx.Case{Name: "mitm-connect-one-garbage-byte", In: []string{"CST", "m", "connect", "raw:00", "wait100", "close"}},
		hx.Case{Name: "mitm-connect-tls-record-header-only", In: []string{"CST", "m", "connect", "raw:1603010200", "close"}},
		hx.Case{Name: "mitm-connect-tls-then-truncated-request", In: []string{"CST", "m", "connect", "tls", "tlsraw:" + hexs("GET / HT"), "close"}},
		hx.Case{Name: "plain-connect-then-close", In: []string{"CST", "p", "connect", "close"}},
		hx.Case{Name: "h2-tunnel-upstream-dial-refused", In: []string{"CST", "g", "connect-dead", "tlsh2", "read"}},
		hx.Case{Name: "h2-tunnel-upstream-not-tls", In: []string{"CST", "g", "connect", "tlsh2", "read"}},
		hx.Case{Name: "h2-tunnel-upstream-untrusted-certificate", In: []string{"CST", "g", "connect-tlsu", "tlsh2", "read"}},
		hx.Case{Name: "h2-tunnel-upstream-tls-but-not-h2", In: []string{"CST", "g", "connect-tls", "tlsh2", "read"}})
	add("garbage-then-ok", "seq", &exch{ID: 9, Meth: 'P', Outcome: "gar", K: 1, Status: 200, Framing: "c", BodyLen: 4}, okEx(8, 'G', "k", 5, []int{5}))
	return cs
}
