// c15 runs the real messageview / har / marbl / martianlog code on generated
// HTTP messages and records what the message looks like afterwards.
//
// For every case the raw message bytes are built from the IN tokens and
// parsed several times with http.ReadRequest / http.ReadResponse so that
// independent, identical twins exist: one is left alone (the message that
// would have been forwarded without logging), the others go through the
// logger.  OUT holds: the original message fields (o.*), the fields after
// logging (a.*), whether Write() of the logged twin produced the same bytes
// as Write() of the unlogged twin (fwd=), the view sections (s.*, snapshot
// cases), the re-parse of the snapshot (r.*), the number of log records
// (rec=) and whether the logger failed (err=).
//
// IN tokens: REQ|RES  lg=<logger>  skip=0|1  then message tokens in any order:
//
//	M<method> S<status> V10 Q<request-method-of-response> P<hex request-target> NH (no Host)
//	R<hex reason phrase> (default: http.StatusText)  O<hex Host header value> (default example.com)
//	H<hexkey>:<hexval>   header line (wire order)
//	Fcl | Fch | Fnone    framing: Content-Length, chunked, neither
//	B<hex>               entity bytes as sent (before chunking)
//	G<len>:<seed>:<enc>  generated entity: <len> plain bytes from <seed>, coded id|gzip|deflate|form or, undecodable:
//	                     gzbad (bad gzip header), gztrunc (tail cut), gzcrc (bad CRC), gzpad (zero padding after the
//	                     member), gzjunk (garbage after the member), zlib (RFC 1950 wrapper, for Content-Encoding: deflate)
//	E<kind>:<pos>        body source script: the parsed message's Body is replaced by a reader that hands out the entity in
//	                     pieces of <= 512 bytes and after <pos> bytes fails with kind ueof|net|custom (error in a call of its
//	                     own) or ueof+|net+|custom+ (error returned together with the last piece); eof+ = no failure, the
//	                     last piece comes with io.EOF in the same call
//	W | Ws               the request is handed to the logger as martian.Proxy.handle presents it to modifiers:
//	                     URL.Scheme = http (Ws: https, a secure session), URL.Host filled from Host when empty;
//	                     the re-parsed snapshot gets the same treatment before it is compared
//	Z<k>:<once|ever>     failing log sink (marbl: the io.Writer of the stream): its k-th Write fails, once or from then on.
//	                     Every case runs under a watchdog: OUT is the single token STALL when the exchange (logging,
//	                     reading the body, Write, and a later exchange through the same modifier) does not finish
//	C<n>                 run n variants of the case (body seeds +1..+n) concurrently; fwd=0 unless each equals its sequential run
//	K<n>                 chunk size used on the wire (default: one chunk)
//	T<hexkey>:<hexval>   trailer field sent; D<hexkey> trailer declared only; U: do not declare sent trailers
//
// loggers: snap:<skipBody>:<cts|->  har:on|off|only:<cts>|skipct:<cts>  marbl  text:<headersOnly>:<decode>
package main

import (
	"bufio"
	"bytes"
	"compress/flate"
	"compress/gzip"
	"compress/zlib"
	"crypto/sha256"
	"encoding/hex"
	"errors"
	"fmt"
	"io"
	"net"
	"net/http"
	"net/http/httputil"
	"sort"
	"strconv"
	"strings"
	"sync"
	"time"

	"github.com/google/martian/v3"
	"github.com/google/martian/v3/har"
	mlog "github.com/google/martian/v3/log"
	"github.com/google/martian/v3/marbl"
	"github.com/google/martian/v3/martianlog"
	"github.com/google/martian/v3/messageview"
	"verifharness/hx"
)

const inlineMax = 64 << 10 // bodies above this are projected to SHA-256 + length

// ---------------------------------------------------------------- message spec

type kv struct{ k, v string }

type spec struct {
	isReq      bool
	method     string
	status     int
	http10     bool
	reqMethod  string
	path       string
	noHost     bool
	hostHdr    *string // Host header value (default example.com)
	reason     *string // reason phrase (default http.StatusText)
	hdrs       []kv
	framing    string // cl ch none
	entity     []byte
	chunk      int
	trailers   []kv
	declared   []string
	undeclared bool
	logger     string
	skip       bool
	bad        string
	conc       int
	srcKind    string
	srcPos     int
	presented  string // "", "http", "https"
	sinkFail   int    // k-th write of the log sink fails (0: never)
	sinkEver   bool
}

func genBody(n int, seed uint64, enc string) []byte {
	r := hx.NewRNG(seed)
	plain := make([]byte, n)
	switch enc {
	case "form":
		// a=b&c=d... valid urlencoded text of about n bytes
		var sb strings.Builder
		for i := 0; sb.Len() < n; i++ {
			if i > 0 {
				sb.WriteByte('&')
			}
			fmt.Fprintf(&sb, "k%d=v%d", i, r.Intn(1000))
		}
		return []byte(sb.String())
	default:
		// half compressible text, half noise, so that gzip output is non-trivial
		words := []string{"alpha ", "beta ", "gamma\n", "delta\r\n", "0\r\n\r\n", "\x00\xff", "épsilon "}
		i := 0
		for i < n {
			if r.Chance(1, 3) {
				plain[i] = byte(r.Uint64())
				i++
				continue
			}
			w := words[r.Intn(len(words))]
			i += copy(plain[i:], w)
		}
	}
	switch enc {
	case "gzip", "gzbad", "gztrunc", "gzcrc", "gzpad", "gzjunk":
		var b bytes.Buffer
		zw := gzip.NewWriter(&b)
		zw.Write(plain)
		zw.Close()
		out := b.Bytes()
		switch enc {
		case "gzbad":
			out[0] ^= 0x55 // not a gzip stream any more
		case "gztrunc":
			if len(out) > 12 {
				out = out[:len(out)-9]
			}
		case "gzcrc":
			out[len(out)-8] ^= 0xff // CRC-32 of the member
		case "gzpad":
			out = append(out, make([]byte, 16)...)
		case "gzjunk":
			out = append(out, []byte("trailing garbage")...)
		}
		return out
	case "zlib":
		var b bytes.Buffer
		zw := zlib.NewWriter(&b)
		zw.Write(plain)
		zw.Close()
		return b.Bytes()
	case "deflate":
		var b bytes.Buffer
		zw, _ := flate.NewWriter(&b, flate.DefaultCompression)
		zw.Write(plain)
		zw.Close()
		return b.Bytes()
	}
	return plain
}

func parseKV(s string) (kv, bool) {
	p := strings.SplitN(s, ":", 2)
	if len(p) != 2 {
		return kv{}, false
	}
	k, e1 := hx.UnHex(p[0])
	v, e2 := hx.UnHex(p[1])
	if e1 != nil || e2 != nil {
		return kv{}, false
	}
	return kv{string(k), string(v)}, true
}

func parseSpec(in []string) *spec {
	s := &spec{method: "GET", status: 200, reqMethod: "GET", path: "/", framing: "", logger: "snap:0:-"}
	if len(in) == 0 {
		s.bad = "empty"
		return s
	}
	switch in[0] {
	case "REQ":
		s.isReq = true
	case "RES":
	default:
		s.bad = "kind"
		return s
	}
	for _, t := range in[1:] {
		switch {
		case strings.HasPrefix(t, "lg="):
			s.logger = t[3:]
		case strings.HasPrefix(t, "skip="):
			s.skip = t[5:] == "1"
		case t == "V10":
			s.http10 = true
		case t == "NH":
			s.noHost = true
		case t == "U":
			s.undeclared = true
		case t[0] == 'Z':
			p := strings.SplitN(t[1:], ":", 2)
			s.sinkFail, _ = strconv.Atoi(p[0])
			s.sinkEver = len(p) == 2 && p[1] == "ever"
			if s.sinkFail <= 0 {
				s.bad = "Z"
			}
		case t == "W":
			s.presented = "http"
		case t == "Ws":
			s.presented = "https"
		case t[0] == 'R':
			b, err := hx.UnHex(t[1:])
			if err != nil {
				s.bad = "R"
			}
			v := string(b)
			s.reason = &v
		case t[0] == 'O':
			b, err := hx.UnHex(t[1:])
			if err != nil {
				s.bad = "O"
			}
			v := string(b)
			s.hostHdr = &v
		case t == "Fcl" || t == "Fch" || t == "Fnone":
			s.framing = t[1:]
		case t[0] == 'M':
			s.method = t[1:]
		case t[0] == 'S':
			s.status, _ = strconv.Atoi(t[1:])
		case t[0] == 'Q':
			s.reqMethod = t[1:]
		case t[0] == 'P':
			b, err := hx.UnHex(t[1:])
			if err != nil {
				s.bad = "P"
			}
			s.path = string(b)
		case t[0] == 'H':
			h, ok := parseKV(t[1:])
			if !ok {
				s.bad = "H"
			}
			s.hdrs = append(s.hdrs, h)
		case t[0] == 'T':
			h, ok := parseKV(t[1:])
			if !ok {
				s.bad = "T"
			}
			s.trailers = append(s.trailers, h)
		case t[0] == 'D':
			b, err := hx.UnHex(t[1:])
			if err != nil {
				s.bad = "D"
			}
			s.declared = append(s.declared, string(b))
		case t[0] == 'B':
			b, err := hx.UnHex(t[1:])
			if err != nil {
				s.bad = "B"
			}
			s.entity = b
		case t[0] == 'G':
			p := strings.Split(t[1:], ":")
			if len(p) != 3 {
				s.bad = "G"
				break
			}
			n, _ := strconv.Atoi(p[0])
			seed, _ := strconv.ParseUint(p[1], 10, 64)
			if n < 0 || n > 8<<20 {
				s.bad = "G"
				break
			}
			s.entity = genBody(n, seed, p[2])
		case t[0] == 'K':
			s.chunk, _ = strconv.Atoi(t[1:])
		case t[0] == 'E':
			p := strings.SplitN(t[1:], ":", 2)
			if len(p) != 2 {
				s.bad = "E"
				break
			}
			s.srcKind = p[0]
			s.srcPos, _ = strconv.Atoi(p[1])
			switch strings.TrimSuffix(s.srcKind, "+") {
			case "ueof", "net", "custom", "eof":
			default:
				s.bad = "E"
			}
		case t[0] == 'C':
			s.conc, _ = strconv.Atoi(t[1:])
			if s.conc < 0 || s.conc > 64 {
				s.bad = "C"
			}
		default:
			s.bad = "tok:" + t
		}
	}
	if s.framing == "" {
		if len(s.entity) > 0 || len(s.trailers) > 0 {
			s.framing = "cl"
			if len(s.trailers) > 0 {
				s.framing = "ch"
			}
		} else {
			s.framing = "none"
		}
	}
	return s
}

func (s *spec) raw() []byte {
	var b bytes.Buffer
	ver := "HTTP/1.1"
	if s.http10 {
		ver = "HTTP/1.0"
	}
	if s.isReq {
		fmt.Fprintf(&b, "%s %s %s\r\n", s.method, s.path, ver)
		if !s.noHost {
			h := "example.com"
			if s.hostHdr != nil {
				h = *s.hostHdr
			}
			fmt.Fprintf(&b, "Host: %s\r\n", h)
		}
	} else {
		rs := reason(s.status)
		if s.reason != nil {
			rs = *s.reason
		}
		fmt.Fprintf(&b, "%s %03d %s\r\n", ver, s.status, rs)
	}
	for _, h := range s.hdrs {
		fmt.Fprintf(&b, "%s: %s\r\n", h.k, h.v)
	}
	switch s.framing {
	case "cl":
		fmt.Fprintf(&b, "Content-Length: %d\r\n", len(s.entity))
	case "ch":
		b.WriteString("Transfer-Encoding: chunked\r\n")
		var decl []string
		decl = append(decl, s.declared...)
		if !s.undeclared {
			for _, t := range s.trailers {
				decl = append(decl, t.k)
			}
		}
		if len(decl) > 0 {
			fmt.Fprintf(&b, "Trailer: %s\r\n", strings.Join(decl, ", "))
		}
	}
	b.WriteString("\r\n")
	switch s.framing {
	case "cl":
		b.Write(s.entity)
	case "none":
		if !s.isReq {
			b.Write(s.entity)
		}
	case "ch":
		e := s.entity
		step := s.chunk
		if step <= 0 {
			step = len(e)
		}
		for len(e) > 0 {
			n := step
			if n > len(e) {
				n = len(e)
			}
			fmt.Fprintf(&b, "%x\r\n", n)
			b.Write(e[:n])
			b.WriteString("\r\n")
			e = e[n:]
		}
		b.WriteString("0\r\n")
		for _, t := range s.trailers {
			fmt.Fprintf(&b, "%s: %s\r\n", t.k, t.v)
		}
		b.WriteString("\r\n")
	}
	return b.Bytes()
}

// decodedEntity is the body a modifier sees (what the o.* twin yielded).
func (s *spec) decodedEntity(_ *message) []byte {
	m, err := s.parse(s.raw())
	if err != nil || m.body() == nil {
		return nil
	}
	b, _ := io.ReadAll(m.body())
	return b
}

func reason(code int) string {
	if t := http.StatusText(code); t != "" {
		return t
	}
	return "Status"
}

// ---------------------------------------------------------------- body sources

var errCustom = errors.New("c15: upstream went away")

type scriptBody struct {
	data   []byte
	off    int
	limit  int
	err    error
	with   bool // the final error comes together with the last piece
	closed bool
}

func newScriptBody(data []byte, kind string, pos int) *scriptBody {
	b := &scriptBody{data: data, limit: len(data), err: io.EOF, with: strings.HasSuffix(kind, "+")}
	switch strings.TrimSuffix(kind, "+") {
	case "ueof":
		b.err = io.ErrUnexpectedEOF
	case "net":
		b.err = &net.OpError{Op: "read", Net: "tcp", Err: errors.New("connection reset by peer")}
	case "custom":
		b.err = errCustom
	}
	if b.err != io.EOF {
		if pos < 0 {
			pos = 0
		}
		if pos > len(data) {
			pos = len(data)
		}
		b.limit = pos
	}
	return b
}

func (b *scriptBody) Read(p []byte) (int, error) {
	if b.off >= b.limit {
		return 0, b.err
	}
	if len(p) > 512 {
		p = p[:512]
	}
	n := copy(p, b.data[b.off:b.limit])
	b.off += n
	if b.off == b.limit && b.with {
		return n, b.err
	}
	return n, nil
}

func (b *scriptBody) Close() error { b.closed = true; return nil }

// ---------------------------------------------------------------- twins

type message struct {
	req *http.Request
	res *http.Response
}

func (s *spec) parse(raw []byte) (*message, error) {
	br := bufio.NewReaderSize(bytes.NewReader(raw), 4096)
	if s.isReq {
		r, err := http.ReadRequest(br)
		if err != nil {
			return nil, err
		}
		if s.presented != "" {
			// what (*martian.Proxy).handle does to every request, CONNECT included,
			// before the request modifiers run (proxy.go)
			r.URL.Scheme = s.presented
			if r.URL.Host == "" {
				r.URL.Host = r.Host
			}
		}
		return &message{req: r}, nil
	}
	rq, _ := http.NewRequest(s.reqMethod, "http://example.com/", nil)
	r, err := http.ReadResponse(br, rq)
	if err != nil {
		return nil, err
	}
	return &message{res: r}, nil
}

func (m *message) request() *http.Request {
	if m.req != nil {
		return m.req
	}
	return m.res.Request
}

func (m *message) body() io.ReadCloser {
	if m.req != nil {
		return m.req.Body
	}
	return m.res.Body
}

func bodyTok(b []byte) string {
	if len(b) > inlineMax {
		h := sha256.Sum256(b)
		return "#" + hex.EncodeToString(h[:]) + ":" + strconv.Itoa(len(b))
	}
	return hx.Hex(b)
}

// fields reads the message to its end and returns its canonical tokens.
func (m *message) fields(p string) (out []string) {
	defer func() {
		if r := recover(); r != nil {
			out = append(out, p+".panic")
		}
	}()
	var start, host string
	var te []string
	var cl int64
	var hd, tr http.Header
	if m.req != nil {
		r := m.req
		// the request line of the message: method, request-target, protocol.
		// CONNECT carries the authority-form (net/http's Write applies the same rule).
		target := r.URL.String()
		if r.Method == "CONNECT" && r.URL.Path == "" {
			target = r.URL.Host
		} else if r.URL.Path == "*" {
			target = "*" // asterisk-form: no URL, whatever scheme/host the proxy filled in
		}
		start = fmt.Sprintf("%s %s HTTP/%d.%d", r.Method, target, r.ProtoMajor, r.ProtoMinor)
		host, te, cl, hd = r.Host, r.TransferEncoding, r.ContentLength, r.Header
	} else {
		r := m.res
		start = fmt.Sprintf("HTTP/%d.%d %s", r.ProtoMajor, r.ProtoMinor, r.Status)
		te, cl, hd = r.TransferEncoding, r.ContentLength, r.Header
	}
	// Request.Write looks at the identity of http.NoBody (outgoingLength);
	// Response.Write probes the body by reading, so for responses the identity
	// is not part of the forwarded message and is projected away.
	nb := "0"
	if m.req != nil && m.body() == http.NoBody {
		nb = "1"
	}
	var data []byte
	berr := ""
	if m.body() == nil {
		nb = "nil"
	} else {
		var err error
		data, err = io.ReadAll(m.body())
		if err != nil {
			berr = "!" + errEnum(err)
		}
	}
	if m.req != nil {
		tr = m.req.Trailer
	} else {
		tr = m.res.Trailer
	}
	tes := "0"
	if len(te) == 1 && te[0] == "chunked" {
		tes = "1"
	} else if len(te) > 0 {
		tes = "other:" + hx.HexS(strings.Join(te, ","))
	}
	out = append(out, p+".st="+hx.HexS(start), p+".ho="+hx.HexS(host), p+".te="+tes,
		p+".cl="+strconv.FormatInt(cl, 10), p+".nb="+nb, p+".bd="+bodyTok(data)+berr)
	out = append(out, hdrToks(p+".h=", hd)...)
	if tr == nil {
		out = append(out, p+".tr=nil")
	} else {
		out = append(out, p+".tr=set")
		// declared keys without a value are kept as a separate projection
		var decl []string
		for k, vs := range tr {
			if len(vs) == 0 {
				decl = append(decl, k)
			}
		}
		sort.Strings(decl)
		for _, k := range decl {
			out = append(out, p+".td="+hx.HexS(k))
		}
		out = append(out, hdrToks(p+".t=", tr)...)
	}
	return out
}

func hdrToks(prefix string, h http.Header) []string {
	keys := make([]string, 0, len(h))
	for k := range h {
		keys = append(keys, k)
	}
	sort.Strings(keys)
	var out []string
	for _, k := range keys {
		for _, v := range h[k] {
			out = append(out, prefix+hx.HexS(k)+":"+hx.HexS(v))
		}
	}
	return out
}

func errEnum(err error) string {
	if err == nil {
		return "none"
	}
	s := err.Error()
	switch {
	case errors.Is(err, errCustom):
		return "custom"
	case strings.Contains(s, "connection reset by peer"):
		return "net"
	case strings.Contains(s, "unexpected EOF"):
		return "unexpected-eof"
	case strings.Contains(s, "suspiciously long trailer"):
		return "long-trailer"
	case strings.Contains(s, "gzip"):
		return "gzip"
	case strings.Contains(s, "flate"):
		return "flate"
	case strings.Contains(s, "malformed"):
		return "malformed"
	case strings.Contains(s, "invalid URL escape"), strings.Contains(s, "invalid semicolon"):
		return "form"
	case strings.Contains(s, "multipart"):
		return "multipart"
	}
	return "other"
}

// wire serialises the message the way the proxy forwards it.
func (m *message) wire() (out []byte, trailerTok string, errs string) {
	defer func() {
		if r := recover(); r != nil {
			errs = "panic"
		}
	}()
	var b bytes.Buffer
	var err error
	if m.req != nil {
		err = m.req.Write(&b)
	} else {
		err = m.res.Write(&b)
	}
	return b.Bytes(), "", errEnum(err)
}

// sameWire compares two serialised messages: the head (start line, headers,
// blank line) byte for byte; a chunked body by payload and trailer section,
// because where a writer cuts chunks depends on the sizes its Reader returns
// and is not part of the message; any other body byte for byte.
func sameWire(a, b []byte) bool {
	ha, ba, oka := splitWire(a)
	hb, bb, okb := splitWire(b)
	if !oka || !okb {
		return bytes.Equal(a, b)
	}
	if !bytes.Equal(ha, hb) {
		return false
	}
	if !bytes.Contains(ha, []byte("\r\nTransfer-Encoding: chunked\r\n")) {
		return bytes.Equal(ba, bb)
	}
	pa, ta, ea := dechunkWire(ba)
	pb, tb, eb := dechunkWire(bb)
	return ea == eb && bytes.Equal(pa, pb) && bytes.Equal(ta, tb)
}

func sameFailedWire(u, l []byte) bool {
	hu, bu, oku := splitWire(u)
	hl, bl, okl := splitWire(l)
	if !oku || !okl {
		return bytes.HasPrefix(u, l)
	}
	if !bytes.Equal(hu, hl) {
		return false
	}
	if !bytes.Contains(hu, []byte("\r\nTransfer-Encoding: chunked\r\n")) {
		return bytes.HasPrefix(bu, bl)
	}
	pu, _, eu := dechunkWire(bu)
	pl, _, el := dechunkWire(bl)
	// eu/el == "none" would mean the last-chunk was written: a complete message
	return eu == el && bytes.HasPrefix(pu, pl)
}

// complete says whether serialised bytes form a complete chunked message (1),
// an incomplete one (0) or are not chunked (-).
func complete(w []byte) string {
	h, b, ok := splitWire(w)
	if !ok || !bytes.Contains(h, []byte("\r\nTransfer-Encoding: chunked\r\n")) {
		return "-"
	}
	if _, _, e := dechunkWire(b); e == "none" {
		return "1"
	}
	return "0"
}

func splitWire(w []byte) (head, rest []byte, ok bool) {
	i := bytes.Index(w, []byte("\r\n\r\n"))
	if i < 0 {
		return nil, nil, false
	}
	return w[:i+4], w[i+4:], true
}

func dechunkWire(b []byte) (payload, trailer []byte, errs string) {
	br := bufio.NewReader(bytes.NewReader(b))
	p, err := io.ReadAll(httputil.NewChunkedReader(br))
	t, _ := io.ReadAll(br)
	return p, t, errEnum(err)
}

// framing describes how the forwarded bytes are framed.
func framing(w []byte) string {
	i := bytes.Index(w, []byte("\r\n\r\n"))
	if i < 0 {
		return "?"
	}
	head := string(w[:i+2])
	if strings.Contains(head, "\r\nTransfer-Encoding: chunked\r\n") {
		return "ch"
	}
	if j := strings.Index(head, "\r\nContent-Length: "); j >= 0 {
		rest := head[j+18:]
		return "cl" + rest[:strings.Index(rest, "\r\n")]
	}
	return "none"
}

// ---------------------------------------------------------------- loggers

type syncBuf struct {
	mu       sync.Mutex
	frames   [][]byte // every frame handed to the sink, also those whose Write failed
	writes   int
	failAt   int
	failEver bool
}

func (s *syncBuf) Write(p []byte) (int, error) {
	s.mu.Lock()
	defer s.mu.Unlock()
	s.frames = append(s.frames, append([]byte(nil), p...))
	s.writes++
	if s.failAt > 0 && (s.writes == s.failAt || (s.failEver && s.writes > s.failAt)) {
		return 0, errors.New("c15: log sink failed (disk full)")
	}
	return len(p), nil
}

func (s *syncBuf) countID(id string) int {
	s.mu.Lock()
	defer s.mu.Unlock()
	n := 0
	for _, f := range s.frames {
		if len(f) >= 10 && len(id) >= 8 && string(f[2:10]) == id[:8] {
			n++
		}
	}
	return n
}

type runner struct {
	kind string
	// captured reports whether the HAR entry holds the body: "1", "0" or "?" (cannot tell)
	captured func() string
	// results
	records func() int
	text    *string
	mv      *messageview.MessageView
	apply   func(m *message) error
	flush   func()
}

func cts(s string) []string {
	if s == "-" || s == "" {
		return nil
	}
	return strings.Split(s, ",")
}

// newRunner builds a fresh logger of the requested kind; apply runs it on a message.
func newRunner(lg string, isReq bool, sink ...int) (*runner, string) {
	p := strings.Split(lg, ":")
	r := &runner{kind: p[0], records: func() int { return 0 }, flush: func() {}}
	switch p[0] {
	case "snap":
		if len(p) != 3 {
			return nil, "lg"
		}
		mv := messageview.New()
		if p[1] == "1" {
			if c := cts(p[2]); c != nil {
				mv.SkipBodyUnlessContentType(c...)
			} else {
				mv.SkipBody(true)
			}
		}
		r.mv = mv
		r.apply = func(m *message) error {
			if m.req != nil {
				return mv.SnapshotRequest(m.req)
			}
			return mv.SnapshotResponse(m.res)
		}
	case "har":
		l := har.NewLogger()
		if len(p) < 2 {
			return nil, "lg"
		}
		var c []string
		if len(p) > 2 {
			c = cts(p[2])
		}
		switch p[1] {
		case "on":
			l.SetOption(har.BodyLogging(true), har.PostDataLogging(true))
		case "off":
			l.SetOption(har.BodyLogging(false), har.PostDataLogging(false))
		case "only":
			l.SetOption(har.BodyLoggingForContentTypes(c...), har.PostDataLoggingForContentTypes(c...))
		case "skipct":
			l.SetOption(har.SkipBodyLoggingForContentTypes(c...), har.SkipPostDataLoggingForContentTypes(c...))
		default:
			return nil, "lg"
		}
		r.apply = func(m *message) error {
			if m.req != nil {
				return l.ModifyRequest(m.req)
			}
			// the entry exists (recorded through the API that does not look at
			// the skip flag); ModifyResponse decides whether a response is attached
			ctx := martian.NewContext(m.res.Request)
			if err := l.RecordRequest(ctx.ID(), m.res.Request); err != nil {
				return err
			}
			return l.ModifyResponse(m.res)
		}
		r.records = func() int {
			n := 0
			for _, e := range l.Export().Log.Entries {
				if isReq || e.Response != nil {
					n++
				}
			}
			return n
		}
		r.captured = func() string {
			es := l.Export().Log.Entries
			if len(es) != 1 {
				return "?"
			}
			e := es[0]
			if isReq {
				if e.Request == nil || e.Request.PostData == nil {
					return "0"
				}
				if e.Request.PostData.Text != "" || len(e.Request.PostData.Params) > 0 {
					return "1"
				}
				return "?" // an empty body and a body not captured look the same
			}
			if e.Response == nil || e.Response.Content == nil {
				return "?"
			}
			if e.Response.Content.Text != nil {
				return "1"
			}
			return "0"
		}
	case "marbl":
		sb := &syncBuf{}
		if len(sink) == 2 {
			sb.failAt, sb.failEver = sink[0], sink[1] == 1
		}
		mod := marbl.NewModifier(sb)
		var id string
		r.apply = func(m *message) error {
			id = martian.NewContext(m.request()).ID()
			if m.req != nil {
				return mod.ModifyRequest(m.req)
			}
			return mod.ModifyResponse(m.res)
		}
		r.flush = func() {
			// frames are handed to the writer goroutine one at a time: once a
			// sentinel message has been logged every earlier frame is written
			sreq, _ := http.NewRequest("GET", "http://sentinel.invalid/", nil)
			_, rm, err := martian.TestContext(sreq, nil, nil)
			if err == nil {
				mod.ModifyRequest(sreq)
				mod.ModifyRequest(sreq)
				rm()
			}
		}
		r.records = func() int {
			if sb.countID(id) > 0 {
				return 1
			}
			return 0
		}
	case "text":
		if len(p) != 3 {
			return nil, "lg"
		}
		l := martianlog.NewLogger()
		l.SetHeadersOnly(p[1] == "1")
		l.SetDecode(p[2] == "1")
		n := 0
		var last string
		l.SetLogFunc(func(line string) { n++; last = line })
		r.text = &last
		r.records = func() int { return n }
		r.apply = func(m *message) error {
			if m.req != nil {
				return l.ModifyRequest(m.req)
			}
			return l.ModifyResponse(m.res)
		}
	default:
		return nil, "lg"
	}
	return r, ""
}

func (r *runner) run(m *message) (errTok string) {
	defer func() {
		if x := recover(); x != nil {
			errTok = "panic"
		}
	}()
	if err := r.apply(m); err != nil {
		return errEnum(err)
	}
	return "0"
}

func readAllTok(rd io.Reader, err error) ([]byte, string) {
	if err != nil {
		return nil, "!" + errEnum(err)
	}
	b, err := io.ReadAll(rd)
	if err != nil {
		return b, "!" + errEnum(err)
	}
	return b, ""
}

// ---------------------------------------------------------------- one case

// runCase runs one case; with a C<n> token also n variants concurrently.
func runCase(in []string) []string {
	s := parseSpec(in)
	if s.bad != "" {
		return []string{"badcase:" + s.bad}
	}
	var base []string
	for _, t := range in {
		if t[0] != 'C' {
			base = append(base, t)
		}
	}
	out := runOne(base)
	if s.conc == 0 {
		return out
	}
	variants := make([][]string, s.conc)
	seq := make([][]string, s.conc)
	for i := range variants {
		v := append([]string(nil), base...)
		for j, t := range v {
			if t[0] == 'G' {
				p := strings.Split(t[1:], ":")
				if len(p) == 3 {
					seed, _ := strconv.Atoi(p[1])
					v[j] = fmt.Sprintf("G%s:%d:%s", p[0], seed+1+i, p[2])
				}
			}
		}
		variants[i] = v
		seq[i] = runOne(v)
	}
	same := true
	for round := 0; round < 3 && same; round++ {
		got := make([][]string, s.conc)
		var wg sync.WaitGroup
		start := make(chan struct{})
		for i := range variants {
			wg.Add(1)
			go func(i int) {
				defer wg.Done()
				<-start
				got[i] = runOne(variants[i])
			}(i)
		}
		close(start)
		wg.Wait()
		for i := range got {
			if strings.Join(got[i], " ") != strings.Join(seq[i], " ") {
				same = false
			}
		}
	}
	if !same {
		for i, t := range out {
			if t == "fwd=1" {
				out[i] = "fwd=0"
			}
		}
		out = append(out, "conc=0")
	} else {
		out = append(out, "conc=1")
	}
	return out
}

// runOne runs a case under a watchdog: an exchange that a logger stalls (for
// example a sender blocked for ever on a log stream nobody drains) is
// reported as STALL instead of hanging the harness.
func runOne(in []string) []string {
	limit := 60 * time.Second
	for _, t := range in {
		if t[0] == 'Z' {
			limit = 1500 * time.Millisecond // nothing in these small cases takes long
		}
	}
	done := make(chan []string, 1)
	go func() { done <- runOneInner(in) }()
	select {
	case out := <-done:
		return out
	case <-time.After(limit):
		return []string{"STALL"}
	}
}

func runOneInner(in []string) (out []string) {
	defer func() {
		if r := recover(); r != nil {
			out = append(out, "PANIC")
		}
	}()
	s := parseSpec(in)
	if s.bad != "" {
		return []string{"badcase:" + s.bad}
	}
	raw := s.raw()

	// twins: o (original fields), u (unlogged, forwarded), l1 (logged, fields), l2 (logged, forwarded)
	var tw [4]*message
	var removes []func()
	defer func() {
		for _, f := range removes {
			f()
		}
	}()
	for i := range tw {
		m, err := s.parse(raw)
		if err != nil {
			return []string{"perr=" + errEnum(err)}
		}
		ctx, rm, err := martian.TestContext(m.request(), nil, nil)
		if err != nil {
			return []string{"ctxerr"}
		}
		removes = append(removes, rm)
		if s.skip && i >= 2 {
			ctx.SkipLogging()
		}
		if s.srcKind != "" {
			sb := newScriptBody(s.entity, s.srcKind, s.srcPos)
			if m.req != nil {
				m.req.Body = sb
			} else {
				m.res.Body = sb
			}
		}
		tw[i] = m
	}
	out = append(out, tw[0].fields("o")...)
	uw, _, uerr := tw[1].wire()

	ever := 0
	if s.sinkEver {
		ever = 1
	}
	r1, bad := newRunner(s.logger, s.isReq, s.sinkFail, ever)
	if bad != "" {
		return []string{"badcase:" + bad}
	}
	e1 := r1.run(tw[2])
	disturb(s.logger, len(s.entity))
	out = append(out, tw[2].fields("a")...)
	r1.flush()
	rec := r1.records()

	r2, _ := newRunner(s.logger, s.isReq, s.sinkFail, ever)
	e2 := r2.run(tw[3])
	disturb(s.logger, len(s.entity))
	lw, _, lerr := tw[3].wire()
	r2.flush()
	if rec2 := r2.records(); rec2 > rec {
		rec = rec2
	}
	fwd := "1"
	srcFailed := s.srcKind != "" && strings.TrimSuffix(s.srcKind, "+") != "eof"
	if srcFailed {
		// a failing body source: Write must fail the same way on both twins, no
		// twin may look complete, and the logged twin must not have emitted body
		// bytes the unlogged one did not (a logger that already consumed part
		// of the doomed body emits a prefix)
		if !sameFailedWire(uw, lw) || uerr != lerr {
			fwd = "0"
		}
	} else if !sameWire(uw, lw) || uerr != lerr {
		fwd = "0"
	}
	out = append(out, "fwd="+fwd, "ufr="+framing(uw), "lfr="+framing(lw), "rec="+strconv.Itoa(rec))
	if srcFailed {
		out = append(out, "srcfail=1", "uwerr="+uerr, "lwerr="+lerr, "ucomplete="+complete(uw), "lcomplete="+complete(lw))
	}
	if r1.captured != nil && e1 == "0" {
		out = append(out, "cap="+r1.captured())
	}
	if e1 != e2 {
		e1 = e1 + "/" + e2
	}
	out = append(out, "err="+e1)
	{
		var hd http.Header
		if tw[1].req != nil {
			hd = tw[1].req.Header
		} else {
			hd = tw[1].res.Header
		}
		out = append(out, "dc="+decodeClass(hd.Get("Content-Encoding"), s.decodedEntity(tw[1])))
	}

	// reference start line: what Write sends for the unlogged twin (responses);
	// the request line as received (requests: Write always sends HTTP/1.1 and
	// the origin-form, whatever arrived)
	refLine := firstLine(uw)
	if s.isReq {
		refLine = firstLine(raw)
		if s.presented != "" && (strings.HasPrefix(s.path, "/") || strings.Contains(s.path, "://")) {
			// origin-form and absolute-form requests are presented with an absolute
			// URL whose scheme the proxy decides (https inside a secure session); the
			// snapshot shows that absolute-form of the same target.  The authority
			// form (CONNECT) and the asterisk form keep the line the client sent.
			u := *tw[1].req.URL
			refLine = []byte(fmt.Sprintf("%s %s HTTP/%d.%d", tw[1].req.Method, u.String(), tw[1].req.ProtoMajor, tw[1].req.ProtoMinor))
		}
	}
	if r1.text != nil && rec > 0 {
		t := *r1.text
		dash := strings.Repeat("-", 80)
		var pre string
		if s.isReq {
			pre = "\n" + dash + "\n" + fmt.Sprintf("Request to %s\n", tw[2].req.URL) + dash + "\n"
		} else {
			pre = "\n" + dash + "\n" + fmt.Sprintf("Response from %s\n", tw[2].res.Request.URL) + dash + "\n"
		}
		suf := "\n" + dash + "\n"
		if strings.HasPrefix(t, pre) && strings.HasSuffix(t, suf) && len(t) >= len(pre)+len(suf) {
			out = append(out, "text="+bodyTok([]byte(t[len(pre):len(t)-len(suf)])))
			out = append(out, "sl="+hx.Hex(firstLine([]byte(t[len(pre):len(t)-len(suf)])))+":"+hx.Hex(refLine))
		} else {
			out = append(out, "text=!shape")
		}
	}

	if r1.mv != nil && e1 == "0" {
		mv := r1.mv
		hb, he := readAllTok(mv.HeaderReader(), nil)
		br, berr := mv.BodyReader()
		bb, be := readAllTok(br, berr)
		tb, te := readAllTok(mv.TrailerReader(), nil)
		fr, ferr := mv.Reader()
		fb, fe := readAllTok(fr, ferr)
		if len(fb) > inlineMax && len(hb)+len(tb) <= len(fb) && len(hb)+len(tb) < inlineMax {
			// projection of a big message: head bytes | SHA-256 of the middle | tail
			// bytes, cut where the header and trailer sections say
			mid := fb[len(hb) : len(fb)-len(tb)]
			out = append(out, "s.h="+hx.Hex(hb)+he, "s.b="+bodyTok(bb)+be, "s.t="+hx.Hex(tb)+te,
				"s.full="+hx.Hex(fb[:len(hb)])+"|"+bodyTok(mid)+"|"+hx.Hex(fb[len(fb)-len(tb):])+fe)
		} else {
			out = append(out, "s.h="+hx.Hex(hb)+he, "s.b="+hx.Hex(bb)+be, "s.t="+hx.Hex(tb)+te, "s.full="+hx.Hex(fb)+fe)
		}
		out = append(out, "sl="+hx.Hex(firstLine(fb))+":"+hx.Hex(refLine))
		// decoded body (de-chunked, de-compressed) for the record
		dr, derr := mv.BodyReader(messageview.Decode())
		db, de := readAllTok(dr, derr)
		out = append(out, "s.dec="+bodyTok(db)+de)
		// the snapshot as an HTTP message
		rp, err := s.parse(fb)
		if err != nil {
			out = append(out, "r.err="+errEnum(err))
		} else {
			f := rp.fields("r")
			out = append(out, f...)
		}
	}
	return out
}

// decodeClass says how Go's decoders behave on an entity announced with the
// given Content-Encoding: ok, open (reader construction fails), read (fails
// while reading).  Independent of martian.
func decodeClass(ce string, entity []byte) string {
	switch ce {
	case "gzip":
		zr, err := gzip.NewReader(bytes.NewReader(entity))
		if err != nil {
			return "open"
		}
		if _, err := io.Copy(io.Discard, zr); err != nil {
			return "read"
		}
	case "deflate":
		if _, err := io.Copy(io.Discard, flate.NewReader(bytes.NewReader(entity))); err != nil {
			return "read"
		}
	}
	return "ok"
}

// disturb snapshots / logs other messages with bodies of the same and of
// other sizes: a logger that lets two exchanges share a buffer shows up when
// the first message is serialised only afterwards.
func disturb(lg string, n int) {
	defer func() { recover() }()
	for _, sz := range []int{n, n, n + 1, 2*n + 7, 64} {
		fill := bytes.Repeat([]byte{0xEE}, sz)
		for _, isReq := range []bool{true, false} {
			r, bad := newRunner(lg, isReq)
			if bad != "" {
				return
			}
			var m *message
			if isReq {
				rq, _ := http.NewRequest("POST", "http://disturb.invalid/", bytes.NewReader(fill))
				rq.Header.Set("Content-Type", "text/plain")
				m = &message{req: rq}
			} else {
				rq, _ := http.NewRequest("GET", "http://disturb.invalid/", nil)
				m = &message{res: &http.Response{Status: "200 OK", StatusCode: 200, Proto: "HTTP/1.1", ProtoMajor: 1, ProtoMinor: 1,
					Header: http.Header{"Content-Type": {"text/plain"}}, Body: io.NopCloser(bytes.NewReader(fill)),
					ContentLength: int64(sz), Request: rq}}
			}
			_, rm, err := martian.TestContext(m.request(), nil, nil)
			if err != nil {
				return
			}
			r.run(m)
			if m.body() != nil {
				io.Copy(io.Discard, m.body())
			}
			r.flush()
			rm()
		}
	}
}

func firstLine(b []byte) []byte {
	if i := bytes.Index(b, []byte("\r\n")); i >= 0 {
		return b[:i]
	}
	return b
}

// ---------------------------------------------------------------- generators

var loggers = []string{
	"snap:0:-", "snap:1:-", "snap:1:text/", "snap:1:application/json,image/",
	"har:on", "har:off", "har:only:text/,application/json", "har:skipct:IMAGE/,application/octet",
	"marbl", "text:0:0", "text:0:1", "text:1:0", "text:1:1",
}

var ctypes = []string{"", "text/plain", "text/html; charset=utf-8", "application/json", "application/octet-stream", "image/png", "Text/Plain"}

func hkv(k, v string) string { return "H" + hx.HexS(k) + ":" + hx.HexS(v) }
func tkv(k, v string) string { return "T" + hx.HexS(k) + ":" + hx.HexS(v) }

func main() {
	mlog.SetLevel(mlog.Silent)
	cfg := hx.ParseFlags()
	defer cfg.Close()
	n := 0
	emit := func(kind string, in []string) {
		n++
		out := runCase(in)
		cfg.Emit(hx.Case{Name: fmt.Sprintf("%s%d", kind, n), In: in, Out: out})
		cfg.Count("kind=" + in[0])
		for _, t := range in {
			switch {
			case strings.HasPrefix(t, "lg="):
				cfg.Count("logger=" + strings.SplitN(t[3:], ":", 2)[0])
			case strings.HasPrefix(t, "skip="), t == "Fcl", t == "Fch", t == "Fnone":
				cfg.Count(t)
			case t[0] == 'G':
				p := strings.Split(t[1:], ":")
				cfg.Count("enc=" + p[2])
				sz, _ := strconv.Atoi(p[0])
				switch {
				case sz == 0:
					cfg.Count("size=0")
				case sz <= 4096:
					cfg.Count("size<=4KiB")
				case sz <= 65536:
					cfg.Count("size<=64KiB")
				case sz <= 1<<20:
					cfg.Count("size<=1MiB")
				default:
					cfg.Count("size>1MiB")
				}
			case t[0] == 'T':
				cfg.Count("trailers=sent")
			}
		}
	}
	pre, replayOnly := cfg.Inputs()
	for _, c := range pre {
		cfg.Emit(hx.Case{Name: c.Name, In: c.In, Out: runCase(c.In)})
	}
	if replayOnly {
		return
	}
	rng := hx.NewRNG(cfg.Seed)

	// 1. systematic: kind x framing x size x logger x skip
	sizes := []int{0, 1, 5, 17, 255, 4096}
	if cfg.Thorough() {
		sizes = []int{0, 1, 2, 5, 15, 16, 17, 255, 256, 4095, 4096, 4097, 65535}
	}
	for _, kind := range []string{"REQ", "RES"} {
		for _, fr := range []string{"cl", "ch", "cht", "none"} {
			for _, sz := range sizes {
				if fr == "none" && kind == "REQ" && sz > 0 {
					continue
				}
				for _, lg := range loggers {
					for _, skip := range []string{"0", "1"} {
						if skip == "1" && strings.HasPrefix(lg, "snap") {
							continue
						}
						in := []string{kind, "lg=" + lg, "skip=" + skip}
						if kind == "REQ" {
							in = append(in, "MPOST")
						}
						in = append(in, hkv("Content-Type", "text/plain"), hkv("Accept", "*/*"), hkv("Accept", "text/x"))
						switch fr {
						case "cht":
							in = append(in, "Fch", tkv("X-Checksum", "abc"), tkv("A-Trailer", "1"))
						default:
							in = append(in, "F"+fr)
						}
						in = append(in, fmt.Sprintf("G%d:%d:id", sz, rng.Intn(1000)))
						emit("sys", in)
					}
				}
			}
		}
	}

	// 2. random: methods, statuses, encodings, content types, chunkings, trailers
	nr := 900
	if cfg.Thorough() {
		nr = 50000
	}
	methods := []string{"GET", "POST", "PUT", "DELETE", "PATCH", "OPTIONS", "HEAD", "PROPFIND", "M-SEARCH", "get", "QUERY"}
	statuses := []int{200, 201, 204, 206, 301, 304, 404, 500, 100, 101, 299, 418, 520, 999}
	reasons := []string{"Alright", "", "Origin Error", "Not  Found  twice", "OK", "ok", "Tr\xe8s bien", "200 OK"}
	targets := []string{"/a/b%20c?x=1&y=%2F", "/a%2fb/%7Euser;p=1?q=a+b&r=%26", "/%E2%82%AC?x=%41", "//double//slash", "/path?",
		"/p?a=b?c", "http://other.example:8080/x?y=1", "http://example.com", "/"}
	hosts := []string{"example.com:8080", "EXAMPLE.com", "[::1]:80", "other.example"}
	encs := []string{"id", "id", "gzip", "deflate", "br"}
	bsizes := []int{0, 0, 1, 2, 3, 10, 100, 1000, 4095, 4096, 4097, 10000}
	for k := 0; k < nr; k++ {
		r := rng.Fork()
		kind := "REQ"
		if r.Bool() {
			kind = "RES"
		}
		in := []string{kind, "lg=" + loggers[r.Intn(len(loggers))], "skip=" + strconv.Itoa(r.Intn(4)/3)}
		if kind == "REQ" {
			in = append(in, "M"+methods[r.Intn(len(methods))])
			if r.Chance(1, 3) {
				in = append(in, "P"+hx.HexS(targets[r.Intn(len(targets))]))
			}
			if r.Chance(1, 6) {
				in = append(in, "O"+hx.HexS(hosts[r.Intn(len(hosts))]))
			}
			if r.Chance(1, 3) {
				in = append(in, []string{"W", "Ws"}[r.Intn(2)])
			}
		} else {
			in = append(in, "S"+strconv.Itoa(statuses[r.Intn(len(statuses))]))
			if r.Chance(1, 3) {
				in = append(in, "R"+hx.HexS(reasons[r.Intn(len(reasons))]))
			}
			if r.Chance(1, 10) {
				in = append(in, "QHEAD")
			}
		}
		v10 := r.Chance(1, 12)
		if v10 {
			in = append(in, "V10")
		}
		if ct := ctypes[r.Intn(len(ctypes))]; ct != "" {
			in = append(in, hkv("Content-Type", ct))
		}
		nh := r.Intn(4)
		for i := 0; i < nh; i++ {
			keys := []string{"X-A", "Accept", "Zeta", "Cookie", "Set-Cookie", "X-Forwarded-For", "Location"}
			vals := []string{"1", "a, b", "v=1; w=2", "http://x/y", "", "with  two spaces", "col:on"}
			in = append(in, hkv(keys[r.Intn(len(keys))], vals[r.Intn(len(vals))]))
		}
		enc := encs[r.Intn(len(encs))]
		genc := enc
		if enc != "id" {
			in = append(in, hkv("Content-Encoding", enc))
		}
		if enc == "br" {
			genc = "id"
		}
		sz := bsizes[r.Intn(len(bsizes))]
		fr := []string{"cl", "cl", "ch", "ch", "none"}[r.Intn(5)]
		if kind == "REQ" && in[1] == "lg=marbl" && r.Chance(7, 8) {
			// marbl + body-less request is known finding C15-K3: mostly give it a body
			if sz == 0 {
				sz = 1 + r.Intn(5000)
			}
			if fr == "none" {
				fr = "cl"
			}
		}
		if v10 && fr == "ch" {
			// HTTP/1.0 has no chunked coding (net/http ignores the header and the
			// chunk framing would become the body)
			fr = "cl"
		}
		in = append(in, "F"+fr)
		if !(kind == "REQ" && fr == "none") {
			in = append(in, fmt.Sprintf("G%d:%d:%s", sz, r.Intn(1<<20), genc))
		}
		if fr == "ch" {
			if r.Chance(1, 2) {
				in = append(in, "K"+strconv.Itoa(r.Range(1, 700)))
			}
			switch r.Intn(5) {
			case 0:
				in = append(in, tkv("X-T", "v"))
			case 1:
				in = append(in, tkv("X-T", "v"), tkv("X-T", "w"), tkv("Another", "x y"))
			case 2:
				in = append(in, "D"+hx.HexS("X-Declared-Only"))
			case 3:
				// undeclared trailers are known finding C15-K2: keep them rare so
				// that the known cases do not crowd the report
				if r.Chance(1, 8) {
					in = append(in, tkv("X-Undeclared", "u"), "U")
				}
			}
		}
		emit("rnd", in)
	}

	// 2b. start lines: every component varied, against the loggers that print them
	for _, lg := range []string{"snap:0:-", "snap:1:-", "text:0:0", "text:1:1", "har:on", "marbl"} {
		for _, v10 := range []bool{false, true} {
			ver := []string{}
			if v10 {
				ver = []string{"V10"}
			}
			for _, code := range []int{100, 200, 204, 299, 304, 404, 520, 999} {
				for _, rs := range []string{"-", "", "Alright", "Origin Error", "not  canonical ", "OK"} {
					in := append([]string{"RES", "lg=" + lg, "skip=0", "S" + strconv.Itoa(code)}, ver...)
					if rs != "-" {
						in = append(in, "R"+hx.HexS(rs))
					}
					in = append(in, hkv("Content-Type", "text/plain"), "Fcl", "Bx6869")
					emit("stl", in)
				}
			}
			for _, mt := range [][2]string{{"GET", "/"}, {"GET", "/a%2fb/%7Euser;p=1?q=a+b&r=%26"}, {"GET", "http://other.example:8080/x?y=1"},
				{"GET", "http://example.com"}, {"OPTIONS", "*"}, {"OPTIONS", "/"}, {"PROPFIND", "//double//slash"}, {"M-SEARCH", "/path?"},
				{"get", "/%E2%82%AC?x=%41"}, {"POST", "/p?a=b?c"}, {"DELETE", "/x;y"}, {"QUERY", "/"}} {
				for _, host := range []string{"-", "example.com:8080", "EXAMPLE.com", "other.example", "NH"} {
					in := append([]string{"REQ", "lg=" + lg, "skip=0", "M" + mt[0], "P" + hx.HexS(mt[1])}, ver...)
					switch host {
					case "-":
					case "NH":
						if !v10 && !strings.HasPrefix(mt[1], "http") {
							continue // HTTP/1.1 needs a Host
						}
						in = append(in, "NH")
					default:
						in = append(in, "O"+hx.HexS(host))
					}
					if mt[0] == "POST" || mt[0] == "QUERY" {
						in = append(in, hkv("Content-Type", "text/plain"), "Fcl", "Bx6869")
					}
					emit("stl", in)
					if host != "NH" {
						emit("stl", append(append([]string{}, in...), "W"))
						emit("stl", append(append([]string{}, in...), "Ws"))
					}
				}
			}
		}
		// CONNECT: authority-form, bare and as the proxy presents it
		for _, w := range []string{"", "W", "Ws"} {
			in := []string{"REQ", "lg=" + lg, "skip=0", "MCONNECT", "P" + hx.HexS("example.com:443"), "O" + hx.HexS("example.com:443")}
			if w != "" {
				in = append(in, w)
			}
			emit("stl", in)
			in2 := []string{"REQ", "lg=" + lg, "skip=0", "MCONNECT", "P" + hx.HexS("[::1]:8443"), "O" + hx.HexS("[::1]:8443"), "V10"}
			if w != "" {
				in2 = append(in2, w)
			}
			emit("stl", in2)
		}
	}

	// 2c. header section: ordering, duplicates, non-canonical keys, padded values, Host/TE/CL overlay
	for _, kind := range []string{"REQ", "RES"} {
		for _, lg := range []string{"snap:0:-", "text:0:0", "har:on", "marbl"} {
			base := []string{kind, "lg=" + lg, "skip=0"}
			if kind == "REQ" {
				base = append(base, "MPOST")
			}
			sets := [][]string{
				{hkv("Zeta", "1"), hkv("alpha", "2"), hkv("Mid-Dle", "3"), hkv("Zeta", "4"), hkv("ALPHA", "5"), hkv("alpha", "6")},
				{hkv("x-lower", "v"), hkv("ETag", "\"a\""), hkv("WWW-Authenticate", "Basic"), hkv("X-Pad", "  padded  "), hkv("X-Empty", "")},
				{hkv("Set-Cookie", "a=1"), hkv("Set-Cookie", "b=2"), hkv("Set-Cookie", "a=1"), hkv("Cookie", "c=3")},
				{hkv("Content-Length", "2"), "Fch"},
				{hkv("Content-Length", "2"), hkv("Content-Length", "2")},
				{hkv("Transfer-Encoding", "chunked"), "Fch"},
				{hkv("Host", "inner.example"), hkv("Connection", "keep-alive"), hkv("Trailer", "X-Late")},
				{hkv("A", "1"), hkv("B", "2"), hkv("AA", "3"), hkv("A-", "4"), hkv("a0", "5"), hkv("A_", "6")},
			}
			for _, hs := range sets {
				in := append(append([]string{}, base...), hs...)
				hasF := false
				for _, t := range hs {
					if t == "Fch" {
						hasF = true
					}
				}
				if !hasF {
					in = append(in, "Fcl")
				}
				in = append(in, "Bx6869")
				emit("hdr", in)
			}
		}
	}

	// 3. form bodies for the HAR post-data parser
	for k := 0; k < 30; k++ {
		r := rng.Fork()
		in := []string{"REQ", "lg=" + []string{"har:on", "har:only:application/x-www", "text:0:1"}[k%3], "skip=0", "MPOST",
			hkv("Content-Type", "application/x-www-form-urlencoded"), "F" + []string{"cl", "ch"}[r.Intn(2)],
			fmt.Sprintf("G%d:%d:form", r.Range(0, 300), r.Intn(1000))}
		emit("form", in)
	}

	// 4. large bodies
	big := []int{65536, 65537, 1 << 20}
	reps := 1
	if cfg.Thorough() {
		big = []int{65536, 65537, 1<<20 - 1, 1 << 20, 1<<20 + 1, 3 << 20}
		reps = 4
	}
	for rep := 0; rep < reps; rep++ {
		for _, sz := range big {
			for _, lg := range []string{"snap:0:-", "har:on", "marbl", "text:0:0", "text:0:1"} {
				for _, kind := range []string{"REQ", "RES"} {
					r := rng.Fork()
					fr := []string{"cl", "ch", "none"}[r.Intn(3)]
					if kind == "REQ" && fr == "none" {
						fr = "ch"
					}
					enc := []string{"id", "gzip", "deflate"}[r.Intn(3)]
					in := []string{kind, "lg=" + lg, "skip=0"}
					if kind == "REQ" {
						in = append(in, "MPUT")
					}
					in = append(in, hkv("Content-Type", "application/octet-stream"))
					if enc != "id" {
						in = append(in, hkv("Content-Encoding", enc))
					}
					in = append(in, "F"+fr, fmt.Sprintf("G%d:%d:%s", sz, r.Intn(1000), enc))
					if fr == "ch" {
						in = append(in, "K"+strconv.Itoa(r.Range(1000, 70000)))
						if r.Bool() {
							in = append(in, tkv("X-Sum", "1"))
						}
					}
					emit("big", in)
				}
			}
		}
	}

	// 6. empty entities that announce a content coding (HEAD, 304, empty uploads)
	for _, kind := range []string{"REQ", "RES"} {
		for _, fr := range []string{"cl", "ch", "none"} {
			for _, enc := range []string{"gzip", "deflate"} {
				for _, lg := range []string{"har:on", "text:0:1", "text:1:1", "snap:0:-", "marbl"} {
					for _, head := range []bool{false, true} {
						if head && kind == "REQ" {
							continue
						}
						in := []string{kind, "lg=" + lg, "skip=0"}
						if kind == "REQ" {
							in = append(in, "MPOST")
						} else if head {
							in = append(in, "QHEAD")
						}
						in = append(in, hkv("Content-Encoding", enc), "F"+fr)
						emit("emp", in)
					}
				}
			}
		}
	}

	// 5. undecodable bodies: every logger configuration x failure class
	for _, cls := range [][2]string{{"gzip", "gzbad"}, {"gzip", "gztrunc"}, {"gzip", "gzcrc"}, {"gzip", "gzpad"}, {"gzip", "gzjunk"}, {"deflate", "zlib"}} {
		for _, lg := range loggers {
			for _, kind := range []string{"REQ", "RES"} {
				r := rng.Fork()
				in := []string{kind, "lg=" + lg, "skip=0"}
				if kind == "REQ" {
					in = append(in, "MPOST")
				}
				in = append(in, hkv("Content-Type", "text/plain"), hkv("Content-Encoding", cls[0]),
					"F"+[]string{"cl", "ch"}[r.Intn(2)], fmt.Sprintf("G%d:%d:%s", r.Range(20, 400), r.Intn(1000), cls[1]))
				emit("mal", in)
			}
		}
	}

	// 8. body sources that fail: every logger x kind x position; and EOF delivered with the last piece
	for _, lg := range loggers {
		for _, kind := range []string{"REQ", "RES"} {
			for _, fr := range []string{"cl", "ch"} {
				for _, ek := range []string{"ueof", "net", "custom", "ueof+", "custom+", "eof+"} {
					for _, pos := range []int{0, 1, 700, 1499, 1500} {
						if ek == "eof+" && pos != 0 {
							continue
						}
						in := []string{kind, "lg=" + lg, "skip=" + []string{"0", "0", "1"}[rng.Intn(3)]}
						if strings.HasPrefix(lg, "snap") {
							in[2] = "skip=0"
						}
						if kind == "REQ" {
							in = append(in, "MPOST")
						}
						in = append(in, hkv("Content-Type", "text/plain"), "F"+fr, fmt.Sprintf("G1500:%d:id", rng.Intn(1000)),
							fmt.Sprintf("E%s:%d", ek, pos))
						emit("src", in)
					}
				}
			}
		}
	}

	// 9. failing log sinks: the exchange in flight and the next one through the same modifier must still be delivered
	for _, kind := range []string{"REQ", "RES"} {
		for _, fr := range []string{"cl", "ch"} {
			for _, k := range []int{1, 5, 12} {
				for _, mode := range []string{"once", "ever"} {
					in := []string{kind, "lg=marbl", "skip=0"}
					if kind == "REQ" {
						in = append(in, "MPOST")
					}
					in = append(in, hkv("Content-Type", "text/plain"), "F"+fr, fmt.Sprintf("G1500:%d:id", rng.Intn(1000)),
						fmt.Sprintf("Z%d:%s", k, mode))
					emit("sink", in)
				}
			}
		}
	}

	// 7. concurrent exchanges through loggers of the same kind
	nconc := 2
	if cfg.Thorough() {
		nconc = 6
	}
	for k := 0; k < nconc; k++ {
		for _, lg := range []string{"snap:0:-", "har:on", "marbl", "text:0:0", "text:0:1"} {
			for _, kind := range []string{"REQ", "RES"} {
				r := rng.Fork()
				in := []string{kind, "lg=" + lg, "skip=0"}
				if kind == "REQ" {
					in = append(in, "MPOST")
				}
				in = append(in, hkv("Content-Type", "text/plain"), "F"+[]string{"cl", "ch"}[r.Intn(2)],
					fmt.Sprintf("G%d:%d:id", []int{64, 1000, 4096, 20000}[r.Intn(4)], r.Intn(1000)), "C8")
				emit("conc", in)
			}
		}
	}
}
