// c17 drives the real har.Logger through operation histories and records what
// each operation returned.
//
// IN tokens:  SEQ|HTTP op*            sequential history (HTTP: exports/resets go through the handlers)
//
//	CONC (T op*)+ F op*     concurrent threads, then ops after join
//
// ops: Q<id> RecordRequest, S<id>:<resp> RecordResponse (status code), E Export,
// X ExportAndReset, Z Reset.
// OUT tokens: d (nil/no result), u (duplicate-ID error), L<id>:<resp|->,... ;
// for CONC the same T/F separators are repeated.
package main

import (
	"encoding/json"
	"fmt"
	"io"
	"net/http"
	"net/http/httptest"
	"os"
	"strconv"
	"strings"
	"sync"
	"time"

	martian "github.com/google/martian/v3"
	"github.com/google/martian/v3/har"
	mlog "github.com/google/martian/v3/log"
	"verifharness/hx"
)

func mkReq(id string) *http.Request {
	r, _ := http.NewRequest("GET", "http://example.com/"+id, nil)
	return r
}

func mkRes(status int, req *http.Request) *http.Response {
	return &http.Response{
		StatusCode: status, Proto: "HTTP/1.1", ProtoMajor: 1, ProtoMinor: 1,
		Header: http.Header{}, Body: http.NoBody, Request: req,
	}
}

func fmtList(es []*har.Entry) string {
	var sb strings.Builder
	sb.WriteString("L")
	for i, e := range es {
		if i > 0 {
			sb.WriteByte(',')
		}
		if e == nil {
			sb.WriteString("nil:-")
			continue
		}
		sb.WriteString(e.ID)
		sb.WriteByte(':')
		if e.Response == nil {
			sb.WriteByte('-')
		} else {
			sb.WriteString(strconv.Itoa(e.Response.Status))
		}
		// the entry's request must be the one recorded under that ID
		if e.Request == nil || !strings.HasSuffix(e.Request.URL, "/"+e.ID) {
			sb.WriteString("!badreq")
		}
	}
	return sb.String()
}

type driver struct {
	l       *har.Logger
	viaHTTP bool
	exportH http.Handler
	resetH  http.Handler
	// what Export / ExportAndReset handed out, kept until the end of the case:
	// an export is a snapshot, later operations must not change it
	kept []keptExport
	nop  int
	conc bool // concurrent case: several goroutines call do(); nothing is retained
	// MOD cases: the log is driven through ModifyRequest / ModifyResponse with
	// real martian contexts (IDs are the contexts' own)
	mod  bool
	exch map[string]*exchange
	byID map[string]string
}

type keptExport struct {
	at   int
	h    *har.HAR
	then string
}

type exchange struct {
	req    *http.Request
	ctx    *martian.Context
	remove func()
}

// exchange k of a MOD case, created on first mention; flags: l = the context
// skips logging, r = the context skips the round trip (must not matter).
func (d *driver) exchangeOf(spec string) *exchange {
	k := strings.TrimRight(spec, "lr")
	if e, ok := d.exch[k]; ok {
		return e
	}
	req := mkReq(k)
	ctx, remove, err := martian.TestContext(req, nil, nil)
	if err != nil {
		panic(err)
	}
	if strings.Contains(spec[len(k):], "l") {
		ctx.SkipLogging()
	}
	if strings.Contains(spec[len(k):], "r") {
		ctx.SkipRoundTrip()
	}
	e := &exchange{req: req, ctx: ctx, remove: remove}
	d.exch[k] = e
	d.byID[ctx.ID()] = k
	return e
}

func (d *driver) list(es []*har.Entry) string {
	if !d.mod {
		return fmtList(es)
	}
	// rename the context IDs to the exchange numbers of the case
	cp := make([]*har.Entry, len(es))
	for i, e := range es {
		if e == nil {
			continue
		}
		c := *e
		if k, ok := d.byID[e.ID]; ok {
			c.ID = k
		} else {
			c.ID = "0" // an ID no exchange of this case has
		}
		cp[i] = &c
	}
	return fmtList(cp)
}

func (d *driver) keep(h *har.HAR, s string) string {
	if d.conc {
		return s
	}
	d.kept = append(d.kept, keptExport{at: d.nop, h: h, then: s})
	return s
}

// finish re-reads every retained export: one that no longer reads as it did
// when it was handed out is marked.
func (d *driver) finish(out []string) {
	for _, k := range d.kept {
		if now := d.list(k.h.Log.Entries); now != k.then && k.at < len(out) {
			out[k.at] = out[k.at] + "!mutated"
		}
	}
	for _, e := range d.exch {
		e.remove()
	}
}

func newDriver(viaHTTP bool) *driver {
	l := har.NewLogger()
	return &driver{l: l, viaHTTP: viaHTTP, exportH: har.NewExportHandler(l), resetH: har.NewResetHandler(l)}
}

func decodeHAR(rec *httptest.ResponseRecorder) string {
	var h har.HAR
	if err := json.Unmarshal(rec.Body.Bytes(), &h); err != nil || h.Log == nil {
		return "Lnil:-!badjson"
	}
	return fmtList(h.Log.Entries)
}

func (d *driver) do(op string) (out string) {
	defer func() {
		if !d.conc {
			d.nop++
		}
		if r := recover(); r != nil {
			out = "PANIC"
		}
	}()
	if d.mod && (op[0] == 'Q' || op[0] == 'S') {
		if op[0] == 'Q' {
			e := d.exchangeOf(op[1:])
			if err := d.l.ModifyRequest(e.req); err != nil {
				return "u"
			}
			return "d"
		}
		p := strings.SplitN(op[1:], ":", 2)
		st, _ := strconv.Atoi(p[1])
		e := d.exchangeOf(p[0])
		if err := d.l.ModifyResponse(mkRes(st, e.req)); err != nil {
			return "err"
		}
		return "d"
	}
	switch op {
	case "Zb": // reset with a malformed `return` parameter: 400, log untouched
		rec := httptest.NewRecorder()
		d.resetH.ServeHTTP(rec, httptest.NewRequest("DELETE", "/logs/reset?return=yes", nil))
		return fmt.Sprintf("h%d", rec.Code)
	case "Zm": // reset handler with a method it does not allow: 405, log untouched
		rec := httptest.NewRecorder()
		d.resetH.ServeHTTP(rec, httptest.NewRequest("GET", "/logs/reset?return=true", nil))
		return fmt.Sprintf("h%d", rec.Code)
	case "Em": // export handler with a method it does not allow: 405, log untouched
		rec := httptest.NewRecorder()
		d.exportH.ServeHTTP(rec, httptest.NewRequest("POST", "/logs", nil))
		return fmt.Sprintf("h%d", rec.Code)
	case "Zp": // POST (not DELETE) reset returning the completed entries
		rec := httptest.NewRecorder()
		d.resetH.ServeHTTP(rec, httptest.NewRequest("POST", "/logs/reset?return=1", nil))
		return decodeHAR(rec)
	}
	switch op[0] {
	case 'Q':
		id := op[1:]
		if err := d.l.RecordRequest(id, mkReq(id)); err != nil {
			return "u"
		}
		return "d"
	case 'S':
		p := strings.SplitN(op[1:], ":", 2)
		st, _ := strconv.Atoi(p[1])
		if err := d.l.RecordResponse(p[0], mkRes(st, mkReq(p[0]))); err != nil {
			return "err"
		}
		return "d"
	case 'E':
		if d.viaHTTP {
			rec := httptest.NewRecorder()
			d.exportH.ServeHTTP(rec, httptest.NewRequest("GET", "/logs", nil))
			return decodeHAR(rec)
		}
		h := d.l.Export()
		return d.keep(h, d.list(h.Log.Entries))
	case 'X':
		if d.viaHTTP {
			rec := httptest.NewRecorder()
			d.resetH.ServeHTTP(rec, httptest.NewRequest("DELETE", "/logs/reset?return=true", nil))
			return decodeHAR(rec)
		}
		h := d.l.ExportAndReset()
		return d.keep(h, d.list(h.Log.Entries))
	case 'Z':
		if d.viaHTTP {
			rec := httptest.NewRecorder()
			d.resetH.ServeHTTP(rec, httptest.NewRequest("DELETE", "/logs/reset", nil))
			if rec.Code != http.StatusNoContent {
				return "err"
			}
			return "d"
		}
		d.l.Reset()
		return "d"
	}
	return "badop"
}

func runCase(in []string) []string {
	if len(in) == 0 {
		return nil
	}
	switch in[0] {
	case "SEQ", "HTTP", "MOD":
		d := newDriver(in[0] == "HTTP")
		if in[0] == "MOD" {
			d.mod, d.exch, d.byID = true, map[string]*exchange{}, map[string]string{}
		}
		out := make([]string, 0, len(in)-1)
		for _, op := range in[1:] {
			out = append(out, d.do(op))
		}
		d.finish(out)
		return out
	case "SLOW":
		// SLOW pre... B<id>:<st> during... R after...
		// B starts RecordResponse for <id> on its own goroutine with a body
		// that is still streaming; every operation up to R must complete (not
		// wait for that body); R ends the body and joins.  The response counts
		// as recorded at R.
		d := newDriver(false)
		d.conc = true
		out := make([]string, 0, len(in)-1)
		var pw *io.PipeWriter
		var joined chan string
		for _, op := range in[1:] {
			switch {
			case op[0] == 'B':
				p := strings.SplitN(op[1:], ":", 2)
				st, _ := strconv.Atoi(p[1])
				var pr *io.PipeReader
				pr, pw = io.Pipe()
				res := mkRes(st, mkReq(p[0]))
				res.Body = pr
				res.ContentLength = -1
				joined = make(chan string, 1)
				go func(id string) {
					if err := d.l.RecordResponse(id, res); err != nil {
						joined <- "err"
						return
					}
					joined <- "d"
				}(p[0])
				pw.Write([]byte("first part of a body that is still streaming"))
				time.Sleep(20 * time.Millisecond)
				out = append(out, "b")
			case op == "R":
				if pw == nil {
					out = append(out, "badop")
					continue
				}
				pw.Close()
				select {
				case x := <-joined:
					out = append(out, x)
				case <-time.After(5 * time.Second):
					out = append(out, "BLOCKED")
				}
				pw = nil
			default:
				done := make(chan string, 1)
				go func(op string) { done <- d.do(op) }(op)
				select {
				case x := <-done:
					out = append(out, x)
				case <-time.After(2 * time.Second):
					out = append(out, "BLOCKED")
					if pw != nil { // let it through so that the case can finish
						pw.Close()
						out2 := <-done
						_ = out2
					}
				}
			}
		}
		if pw != nil {
			pw.Close()
		}
		return out
	case "CONC":
		d := newDriver(false)
		d.conc = true
		var threads [][]string
		var fin []string
		inFin := false
		for _, t := range in[1:] {
			switch {
			case t == "T":
				threads = append(threads, nil)
			case t == "F":
				inFin = true
			case inFin:
				fin = append(fin, t)
			default:
				threads[len(threads)-1] = append(threads[len(threads)-1], t)
			}
		}
		outs := make([][]string, len(threads))
		var wg sync.WaitGroup
		start := make(chan struct{})
		for i := range threads {
			wg.Add(1)
			go func(i int) {
				defer wg.Done()
				<-start
				for _, op := range threads[i] {
					outs[i] = append(outs[i], d.do(op))
				}
			}(i)
		}
		close(start)
		wg.Wait()
		var out []string
		for i := range threads {
			out = append(out, "T")
			out = append(out, outs[i]...)
		}
		out = append(out, "F")
		for _, op := range fin {
			out = append(out, d.do(op))
		}
		return out
	}
	return []string{"badcase"}
}

var ids = []string{"1", "2", "3", "4"}

func alphabet(nids int) []string {
	var a []string
	for i := 0; i < nids; i++ {
		a = append(a, "Q"+ids[i])
	}
	for i := 0; i < nids; i++ {
		a = append(a, "S"+ids[i])
	}
	return append(a, "E", "X", "Z")
}

// stamp gives every RecordResponse its own status code (200 + position) so
// that "attached to its own request" and "latest response" are observable.
func stamp(ops []string) []string {
	o := make([]string, len(ops))
	for i, op := range ops {
		if op[0] == 'S' && !strings.Contains(op, ":") {
			st := 200 + i
			// every status is a response: 1xx (101 Switching Protocols is final),
			// 204/304, 4xx/5xx and out-of-range codes are recorded like any other
			if i%7 == 3 {
				st = []int{101, 100, 199, 204, 304, 404, 500, 599, 999, 1}[(i/7)%10]
			}
			o[i] = fmt.Sprintf("%s:%d", op, st)
		} else {
			o[i] = op
		}
	}
	return o
}

func randOp(r *hx.RNG, nids int) string {
	id := ids[r.Intn(nids)]
	switch k := r.Intn(20); {
	case k < 7:
		return "Q" + id
	case k < 13:
		return "S" + id
	case k < 16:
		return "E"
	case k < 19:
		return "X"
	default:
		return "Z"
	}
}

func main() {
	mlog.SetLevel(mlog.Silent)
	cfg := hx.ParseFlags()
	defer cfg.Close()
	n := 0
	emit := func(kind string, in []string) {
		n++
		cfg.Emit(hx.Case{Name: fmt.Sprintf("%s%d", kind, n), In: in, Out: runCase(in)})
		cfg.Count("kind=" + in[0])
		cfg.Count(fmt.Sprintf("len=%d", (len(in)-1)/8*8))
	}
	pre, replayOnly := cfg.Inputs()
	for _, c := range pre {
		cfg.Emit(hx.Case{Name: c.Name, In: c.In, Out: runCase(c.In)})
	}
	if replayOnly {
		return
	}
	rng := hx.NewRNG(cfg.Seed)

	concOnly := cfg.Extra == "conconly"
	// 1. exhaustive histories of length L over 3 IDs (all shorter ones are prefixes)
	L := 6
	if cfg.Thorough() {
		L = 7
	}
	if v := os.Getenv("VERIF_C17_EXH"); v != "" {
		L, _ = strconv.Atoi(v)
	}
	alpha := alphabet(3)
	idx := make([]int, L)
	for !concOnly {
		ops := make([]string, L)
		for i, k := range idx {
			ops[i] = alpha[k]
		}
		emit("exh", append([]string{"SEQ"}, stamp(ops)...))
		i := L - 1
		for ; i >= 0; i-- {
			idx[i]++
			if idx[i] < len(alpha) {
				break
			}
			idx[i] = 0
		}
		if i < 0 {
			break
		}
	}

	// 2. random long histories, direct and through the HTTP handlers
	nr, rl := 300, 40
	if cfg.Thorough() {
		nr, rl = 3000, 300
	}
	if concOnly {
		nr = 0
	}
	for k := 0; k < nr; k++ {
		r := rng.Fork()
		ln := r.Range(rl/2, rl)
		ops := make([]string, ln)
		nids := r.Range(2, 4)
		for i := range ops {
			ops[i] = randOp(r, nids)
		}
		kind := "SEQ"
		if k%3 == 2 {
			kind = "HTTP"
			// refused handler calls (malformed parameter, wrong method) must leave the log alone
			for i := range ops {
				switch r.Intn(12) {
				case 0:
					ops[i] = "Zb"
				case 1:
					ops[i] = "Zm"
				case 2:
					ops[i] = "Em"
				case 3:
					if ops[i] == "X" {
						ops[i] = "Zp"
					}
				}
			}
		}
		emit("rnd", append([]string{kind}, stamp(ops)...))
	}

	// 2b. histories driven through ModifyRequest / ModifyResponse with real
	// martian contexts: exchanges that skip logging leave no trace, skipping the
	// round trip changes nothing; the same exchange may be offered twice.
	nm := 150
	if cfg.Thorough() {
		nm = 2000
	}
	if concOnly {
		nm = 0
	}
	for k := 0; k < nm; k++ {
		r := rng.Fork()
		ln := r.Range(8, 30)
		nx := r.Range(2, 6)
		flags := make([]string, nx)
		for i := range flags {
			switch r.Intn(6) {
			case 0:
				flags[i] = "l"
			case 1, 2:
				flags[i] = "r"
			case 3:
				if r.Chance(1, 3) {
					flags[i] = "lr"
				}
			}
		}
		ops := make([]string, ln)
		for i := range ops {
			x := r.Intn(nx)
			id := strconv.Itoa(x+1) + flags[x]
			switch c := r.Intn(20); {
			case c < 7:
				ops[i] = "Q" + id
			case c < 13:
				st := 200 + i
				if i%5 == 2 {
					st = []int{101, 100, 199, 204, 304, 500}[(i/5)%6]
				}
				ops[i] = fmt.Sprintf("S%s:%d", id, st)
			case c < 16:
				ops[i] = "E"
			case c < 19:
				ops[i] = "X"
			default:
				ops[i] = "Z"
			}
		}
		emit("mod", append([]string{"MOD"}, ops...))
	}

	// 2c. a response whose body is still streaming must not hold up the log:
	// other connections' records and the exports go on meanwhile.
	ns := 12
	if cfg.Thorough() {
		ns = 150
	}
	if concOnly {
		ns = 0
	}
	for k := 0; k < ns; k++ {
		r := rng.Fork()
		in := []string{"SLOW", "Q1"}
		for j := r.Intn(3); j > 0; j-- {
			in = append(in, randOp(r, 3))
		}
		in = append(in, "Q1") // make sure 1 is in the log (a duplicate is fine)
		in = append(in, fmt.Sprintf("B1:%d", 200+k))
		for j := r.Range(2, 5); j > 0; j-- {
			op := randOp(r, 3)
			if op == "S1" || op == "Z" {
				op = "E"
			}
			in = append(in, op)
		}
		in = append(in, "R")
		for j := r.Range(1, 3); j > 0; j-- {
			in = append(in, randOp(r, 3))
		}
		in = append(in, "E", "X", "E")
		emit("slow", append([]string{"SLOW"}, stamp(in[1:])...))
	}

	// 3. concurrent batches: 2..3 threads x <=4 ops on overlapping IDs
	nc := 400
	if cfg.Thorough() {
		nc = 6000
	}
	for k := 0; k < nc; k++ {
		r := rng.Fork()
		in := []string{"CONC"}
		pos := 0
		nt := r.Range(2, 3)
		for t := 0; t < nt; t++ {
			in = append(in, "T")
			no := r.Range(1, 4)
			for j := 0; j < no; j++ {
				op := randOp(r, 3)
				if op == "Z" && r.Chance(2, 3) {
					op = "X"
				}
				if op[0] == 'S' {
					op = fmt.Sprintf("%s:%d", op, 200+pos)
				}
				pos++
				in = append(in, op)
			}
		}
		in = append(in, "F", "E", "X", "E")
		emit("conc", in)
	}
}
