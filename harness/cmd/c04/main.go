// c04 drives real martian proxies (no MITM) with raw TCP clients and raw TCP
// targets through blind CONNECT tunnels and records what each end observed.
//
// IN tokens
//
//	TUN <via> e<early> b<banner> <phase>*
//	    via    D  proxy dials the target directly
//	           M  proxy CONNECTs through a second real martian proxy (SetDownstreamProxy)
//	           F  proxy CONNECTs through a scripted downstream proxy that answers
//	              "HTTP/1.1 200 OK" and the first <banner> target bytes in ONE write
//	           F<code>[c|r]  the scripted downstream proxy answers with that status (any 2xx
//	              announces the tunnel, RFC 7231 4.3.6); c adds "Content-Length: 0", r uses the
//	              reason phrase "Connection established" and a Proxy-Agent header
//	           a suffix +s or +w selects the proxy's client-facing listener: +s tls.NewListener
//	              (the client speaks TLS to the proxy, CONNECT inside), +w a wrapper whose
//	              connections implement net.Conn only (no ReadFrom/WriteTo/CloseWrite; the proxy
//	              cannot half-close such a connection: when the target shuts it closes it, which
//	              ends the client's direction too — scripts and expectations account for that)
//	              +t<B> a trafficshape.Listener with a shape for http://<origin>/shaped that closes the
//	              connection at byte B (count unlimited) — only exchanges with that URL are shaped;
//	              like +w the connection cannot be half-closed
//	    G<n>   (any number, right after b<banner>, vias D and M) BEFORE the CONNECT the client does a
//	           plain proxy exchange on the SAME kept-alive connection: GET http://<origin>/shaped/<n>,
//	           answered with n bytes and a Content-Length; nothing of it may leak into the tunnel
//	    Zc|Zt|Zb (right after b<banner>) the client's / target's / both ends' reader is SLOW: 32 KiB
//	           reads with 2 ms in between, so that megabytes are still queued when the sender closes
//	    Kp|Kt  (right after b<banner>) the proxies dial plain *net.TCPConn / through the close-recording
//	           wrapper, instead of the default choice by hash
//	    early  number of client payload bytes written in the SAME write as the CONNECT head;
//	           e<n>h: the client also half-closes right then, before the CONNECT response
//	           (= an implicit first phase "ch/t", which gets its own checkpoint)
//	    banner number of target bytes written before anything is read (D, M: right after
//	           accept; F: in the same write as the downstream proxy's 200 head)
//	    phase  c<writes>[h|f]/t<writes>[h|f]   both sides run concurrently, then a checkpoint
//	           writes = comma separated <size>[x<count>][~<pause_ms>]
//	           a write entry I = stay idle for 2.5 x the grace period of this run, L = stay idle for
//	           11 s (a long-lived tunnel: longer than any 10 s set-up deadline someone may leave armed)
//	           a side may also be the single letter S: it streams (32 KiB writes) until a write
//	           fails or the grace period is over, while the other side aborts (a) in that phase
//	           h = CloseWrite after the writes, f = full Close after the writes,
//	           a = abortive close (SetLinger(0); Close -> RST), u = stop reading, let the
//	           other side's writes of this phase arrive, then Close with that data unread
//	           (kernel answers RST).  a/u: this side writes nothing in that phase;
//	           u: the other side writes 1..65536 bytes in that phase
//	    a last token Pq or Pr = post-mortem probe, for scripts in which the target end is
//	           gone for good (f, a or u) while the client never shut: the client keeps
//	           writing into the former tunnel every 40 ms — Pq a well-formed proxy request
//	           "GET http://<canary>/from-dead-tunnel", Pr raw bytes without a newline — until a
//	           write fails (the proxy closed the client connection) or the grace period ends;
//	           a canary origin records whether anything reached it
//	MULTI <via> ( "|" e<early> b<banner> <phase>* )+   2..4 tunnels at once through ONE proxy and ONE
//	             client-facing listener (vias D, M with any listener suffix); every tunnel is run and judged
//	             as a TUN case of its own (OUT: the tunnels' outputs separated by "|"; R is not taken, the
//	             proxy is shared; K is per tunnel): no tunnel may depend on another tunnel's progress
//	DOWN <code><b|c|n>  the scripted downstream proxy refuses: status <code> with a 13-byte body
//	             and Content-Length (b), with Content-Length: 0 (c), or with neither (n), then
//	             closes.  OUT s<status> B<body bytes the client got> E1|E0 (client saw the end)
//	FAIL <via>   CONNECT to a port nobody listens on (D direct, M through a real downstream
//	             martian, X the downstream proxy itself is unreachable)
//
// OUT tokens
//
//	TUN:  s<status> then per phase  t<n><+|!><-|E|X>/c<n><+|!><-|E|X>  (n bytes received so
//	      far, + = they equal the first n bytes the other side sent, E = clean end of stream
//	      seen, X = read error (acceptable instead of E only once the other end aborted),
//	      '#' alone = this end closed its socket), finally R1|R0|R-
//	      (both proxies' handlers returned within the grace period; R- = not applicable
//	      because an end never shut); with a probe, before R: W1|W0 (a client write failed =
//	      the proxy closed the client connection, within the grace period) and Q0|Q1 (the
//	      canary origin was contacted: bytes written into the dead tunnel were taken for HTTP)
//	      then K1|K0|K- : the proxies dial through a wrapper that records Close(): K1 = every
//	      connection the proxies dialled had Close() called within the grace period after the
//	      tunnel's end, K- = the tunnel has not ended or (one case in four, chosen by a hash of IN)
//	      the proxies dialled plain *net.TCPConn so that the kernel fast paths stay covered.
//	      g<status>:<n> per G token comes first.  A streaming side adds S1|S0 after that phase's
//	      token (its write failed within the grace period / it was still writing)
//	FAIL: s<status> W1|W0
//
// Timing: a checkpoint waits until everything an ideal tunnel would have delivered has
// arrived, or until nothing changed for the grace period (VERIF_C04_GRACE_MS, default
// 2000); then 25 ms more to catch surplus events.  A deviating observation that is only a
// "did not arrive in time" is re-run once with a doubled grace period.
package main

import (
	"bufio"
	"bytes"
	"crypto/ecdsa"
	"crypto/elliptic"
	"crypto/rand"
	"crypto/tls"
	"crypto/x509"
	"crypto/x509/pkix"
	"fmt"
	"hash/fnv"
	"io"
	"math/big"
	"net"
	"net/http"
	"net/http/httptest"
	"net/url"
	"os"
	"strconv"
	"strings"
	"sync"
	"sync/atomic"
	"time"

	"github.com/google/martian/v3"
	mlog "github.com/google/martian/v3/log"
	"github.com/google/martian/v3/trafficshape"
	"verifharness/hx"
)

// ---------------------------------------------------------------- script

type wr struct {
	size, count, pause int
	idle, long         bool
}

type side struct {
	ws     []wr
	shut   byte // 0, 'h', 'f', 'a', 'u'
	stream bool // S: write until it fails
}

func (s side) total() int {
	n := 0
	for _, w := range s.ws {
		n += w.size * w.count
	}
	return n
}

type phase struct{ c, t side }

type tcase struct {
	via           string // D, M, F
	lkind         byte   // 'p' plain TCP, 's' TLS, 'w' net.Conn-only wrapper, 't' trafficshape.Listener
	fcode         int    // status the scripted downstream proxy answers with
	fvar          byte   // 0, 'c', 'r'
	early, banner int
	earlyShut     bool
	probe         byte  // 0, 'q', 'r'
	shapeAt       int   // +t<B>
	pre           []int // G<n>
	tracked       bool
	slowC, slowT  bool
	multi         bool // one of several tunnels through a shared proxy: no R
	phases        []phase
}

func parseSide(s string) (side, error) {
	var sd side
	if s == "S" {
		sd.stream = true
		return sd, nil
	}
	if n := len(s); n > 0 && strings.IndexByte("hfau", s[n-1]) >= 0 {
		sd.shut = s[n-1]
		s = s[:n-1]
	}
	if s == "" {
		return sd, nil
	}
	for _, p := range strings.Split(s, ",") {
		if p == "I" {
			sd.ws = append(sd.ws, wr{idle: true})
			continue
		}
		if p == "L" {
			sd.ws = append(sd.ws, wr{idle: true, long: true})
			continue
		}
		w := wr{count: 1}
		if i := strings.IndexByte(p, '~'); i >= 0 {
			v, err := strconv.Atoi(p[i+1:])
			if err != nil || v < 0 || v > 2000 {
				return sd, fmt.Errorf("bad pause %q", p)
			}
			w.pause = v
			p = p[:i]
		}
		if i := strings.IndexByte(p, 'x'); i >= 0 {
			v, err := strconv.Atoi(p[i+1:])
			if err != nil || v < 1 || v > 1<<20 {
				return sd, fmt.Errorf("bad count %q", p)
			}
			w.count = v
			p = p[:i]
		}
		v, err := strconv.Atoi(p)
		if err != nil || v < 0 || v > 1<<26 {
			return sd, fmt.Errorf("bad size %q", p)
		}
		w.size = v
		sd.ws = append(sd.ws, w)
	}
	return sd, nil
}

func parseTun(in []string) (*tcase, error) {
	if len(in) < 4 || in[0] != "TUN" {
		return nil, fmt.Errorf("short")
	}
	tc := &tcase{via: in[1], lkind: 'p', fcode: 200}
	if i := strings.IndexByte(tc.via, '+'); i >= 0 {
		if lk := tc.via[i+1:]; lk == "s" || lk == "w" {
			tc.lkind = lk[0]
		} else if len(lk) > 1 && lk[0] == 't' {
			b, err := strconv.Atoi(lk[1:])
			if err != nil || b < 1 {
				return nil, fmt.Errorf("shape offset")
			}
			tc.lkind, tc.shapeAt = 't', b
		} else {
			return nil, fmt.Errorf("listener kind")
		}
		tc.via = tc.via[:i]
	}
	if strings.HasPrefix(tc.via, "F") && len(tc.via) > 1 {
		rest := tc.via[1:]
		if n := len(rest); rest[n-1] == 'c' || rest[n-1] == 'r' {
			tc.fvar = rest[n-1]
			rest = rest[:n-1]
		}
		code, err := strconv.Atoi(rest)
		if err != nil || code < 200 || code > 299 {
			return nil, fmt.Errorf("downstream status")
		}
		tc.fcode = code
		tc.via = "F"
	}
	if tc.via != "D" && tc.via != "M" && tc.via != "F" {
		return nil, fmt.Errorf("via")
	}
	var err error
	if len(in[2]) < 2 || in[2][0] != 'e' || len(in[3]) < 2 || in[3][0] != 'b' {
		return nil, fmt.Errorf("e/b")
	}
	if strings.HasSuffix(in[2], "h") {
		tc.earlyShut = true
		in = append([]string{in[0], in[1], strings.TrimSuffix(in[2], "h"), in[3], "ch/t"}, in[4:]...)
	}
	if tc.early, err = strconv.Atoi(in[2][1:]); err != nil || tc.early < 0 || tc.early > 1<<20 {
		return nil, fmt.Errorf("early")
	}
	if tc.banner, err = strconv.Atoi(in[3][1:]); err != nil || tc.banner < 0 || tc.banner > 1<<20 {
		return nil, fmt.Errorf("banner")
	}
	h := fnv.New32a()
	h.Write([]byte(strings.Join(in, " ")))
	tc.tracked = h.Sum32()%4 != 0
	for len(in) > 4 && (in[4] == "Zc" || in[4] == "Zt" || in[4] == "Zb" || in[4] == "Kp" || in[4] == "Kt") {
		switch in[4] {
		case "Zc":
			tc.slowC = true
		case "Zt":
			tc.slowT = true
		case "Zb":
			tc.slowC, tc.slowT = true, true
		case "Kp":
			tc.tracked = false
		case "Kt":
			tc.tracked = true
		}
		in = append(append([]string{}, in[:4]...), in[5:]...)
	}
	for len(in) > 4 && len(in[4]) > 1 && in[4][0] == 'G' {
		n, err := strconv.Atoi(in[4][1:])
		if err != nil || n < 0 || n > 1<<22 || tc.via == "F" || tc.lkind == 's' {
			return nil, fmt.Errorf("pre-exchange")
		}
		tc.pre = append(tc.pre, n)
		in = append(append([]string{}, in[:4]...), in[5:]...)
	}
	if n := len(in); n > 4 && (in[n-1] == "Pq" || in[n-1] == "Pr") {
		tc.probe = in[n-1][1]
		in = in[:n-1]
	}
	cshut, tshut := false, false
	tgone := false
	for _, tok := range in[4:] {
		i := strings.IndexByte(tok, '/')
		if i < 1 || tok[0] != 'c' || i+1 >= len(tok) || tok[i+1] != 't' {
			return nil, fmt.Errorf("phase %q", tok)
		}
		var ph phase
		if ph.c, err = parseSide(tok[1:i]); err != nil {
			return nil, err
		}
		if ph.t, err = parseSide(tok[i+2:]); err != nil {
			return nil, err
		}
		// an end that has shut does nothing more
		if cshut && (len(ph.c.ws) > 0 || ph.c.shut != 0 || ph.c.stream) || tshut && (len(ph.t.ws) > 0 || ph.t.shut != 0 || ph.t.stream) {
			return nil, fmt.Errorf("action after shut")
		}
		for _, pr := range [][2]side{{ph.c, ph.t}, {ph.t, ph.c}} {
			me, other := pr[0], pr[1]
			if (me.shut == 'a' || me.shut == 'u') && len(me.ws) > 0 {
				return nil, fmt.Errorf("abort with writes")
			}
			if me.stream && other.shut != 'a' {
				return nil, fmt.Errorf("S needs the other side to abort in that phase")
			}
			if me.shut == 'u' && (other.total() < 1 || other.total() > 65536 || other.shut != 0) {
				return nil, fmt.Errorf("u needs 1..65536 bytes from the other side")
			}
		}
		cshut = cshut || ph.c.shut != 0 || ph.c.stream
		tshut = tshut || ph.t.shut != 0 || ph.t.stream
		tgone = tgone || ph.t.shut == 'f' || ph.t.shut == 'a' || ph.t.shut == 'u'
		tc.phases = append(tc.phases, ph)
	}
	if tc.probe != 0 && (cshut || !tgone) {
		return nil, fmt.Errorf("probe needs an open client and a target that is gone")
	}
	return tc, nil
}

// ------------------------------------------------------------------ data

// stream byte i of direction d; position dependent so that loss, duplication
// and reordering all show up as a mismatch.
func fill(b []byte, d uint32) {
	for i := range b {
		x := (uint32(i)+d)*0x9E3779B1 + d
		b[i] = byte(x>>24) ^ byte(x>>11) ^ byte(i)
	}
}

// --------------------------------------------------------------- one end

type end struct {
	n      int64 // bytes received
	bad    int32 // 1 = received bytes are not the expected prefix
	eof    int32 // 0 none, 1 clean EOF, 2 error
	local  int32 // 1 = we closed the socket ourselves
	wdone  int64 // bytes written so far by this end's writer
	idling int32 // 1 while this end's writer sits out a scripted idle period
	sfail  int32 // streaming: 1 = a write failed, 2 = still writing when the grace period ended
}

func (e *end) reader(r io.Reader, want []byte, wg *sync.WaitGroup, slow bool) {
	defer wg.Done()
	buf := make([]byte, 64<<10)
	if slow {
		buf = buf[:32<<10]
	}
	for {
		k, err := r.Read(buf)
		if slow && k > 0 {
			time.Sleep(2 * time.Millisecond)
		}
		if k > 0 {
			n := int(atomic.LoadInt64(&e.n))
			if n+k > len(want) || !bytes.Equal(buf[:k], want[n:n+k]) {
				atomic.StoreInt32(&e.bad, 1)
			}
			atomic.AddInt64(&e.n, int64(k))
		}
		if err != nil {
			if atomic.LoadInt32(&e.local) == 1 {
				return
			}
			if err == io.EOF {
				atomic.StoreInt32(&e.eof, 1)
			} else {
				atomic.StoreInt32(&e.eof, 2)
			}
			return
		}
	}
}

type snap struct {
	n        int64
	bad, eof int32
	local    int32
	wdone    int64
}

func (e *end) snap() snap {
	return snap{atomic.LoadInt64(&e.n), atomic.LoadInt32(&e.bad), atomic.LoadInt32(&e.eof), atomic.LoadInt32(&e.local), atomic.LoadInt64(&e.wdone)}
}

func (s snap) tok(pfx string) string {
	if s.local == 1 {
		return pfx + "#"
	}
	ok := "+"
	if s.bad != 0 {
		ok = "!"
	}
	ef := "-"
	if s.eof == 1 {
		ef = "E"
	} else if s.eof == 2 {
		ef = "X"
	}
	return fmt.Sprintf("%s%d%s%s", pfx, s.n, ok, ef)
}

type halfCloser interface{ CloseWrite() error }

// writer performs one side's actions of one phase.  mine is closed when this
// side's writes are done, others when the other side's are.
func writer(conn net.Conn, e *end, data []byte, off int, sd side, wg *sync.WaitGroup, mine chan<- struct{}, others <-chan struct{}, streamFor time.Duration) {
	defer wg.Done()
	if sd.shut == 'u' {
		// stop reading now, so that what the other side sends stays unread
		atomic.StoreInt32(&e.local, 1)
		conn.SetReadDeadline(time.Now())
	}
	if sd.stream {
		atomic.StoreInt32(&e.local, 1) // this end is not observed any more
		// keep writing until the proxy tears the connection down (the other side aborts)
		chunk := make([]byte, 32<<10)
		res := int32(2)
		for end := time.Now().Add(streamFor); time.Now().Before(end); {
			conn.SetWriteDeadline(time.Now().Add(200 * time.Millisecond))
			if _, err := conn.Write(chunk); err != nil {
				if ne, ok := err.(net.Error); ok && ne.Timeout() {
					continue // blocked: buffers full, nobody reads; keep trying until the bound
				}
				res = 1
				break
			}
			atomic.AddInt64(&e.wdone, int64(len(chunk)))
		}
		atomic.StoreInt32(&e.sfail, res)
		atomic.StoreInt32(&e.local, 1)
		close(mine)
		conn.Close()
		return
	}
	writeAll(conn, e, data, off, sd, streamFor)
	close(mine)
	switch sd.shut {
	case 'h':
		conn.(halfCloser).CloseWrite()
	case 'f':
		atomic.StoreInt32(&e.local, 1)
		conn.Close()
	case 'a':
		atomic.StoreInt32(&e.local, 1)
		if tc, ok := rawOf(conn).(*net.TCPConn); ok {
			tc.SetLinger(0)
		}
		conn.Close()
	case 'u':
		select {
		case <-others:
		case <-time.After(25 * time.Second):
		}
		time.Sleep(40 * time.Millisecond)
		conn.Close()
	}
}

func writeAll(conn net.Conn, e *end, data []byte, off int, sd side, grace time.Duration) {
	for _, w := range sd.ws {
		if w.idle {
			atomic.StoreInt32(&e.idling, 1)
			if w.long {
				time.Sleep(11 * time.Second)
			} else {
				time.Sleep(grace * 5 / 2)
			}
			atomic.StoreInt32(&e.idling, 0)
			continue
		}
		for i := 0; i < w.count; i++ {
			if w.size > 0 {
				conn.SetWriteDeadline(time.Now().Add(20 * time.Second))
				if _, err := conn.Write(data[off : off+w.size]); err != nil {
					return
				}
				off += w.size
				atomic.AddInt64(&e.wdone, int64(w.size))
			}
			if w.pause > 0 {
				time.Sleep(time.Duration(w.pause) * time.Millisecond)
			}
		}
	}
}

func rawOf(c net.Conn) net.Conn {
	if t, ok := c.(*tls.Conn); ok {
		return t.NetConn()
	}
	return c
}

// preExchange: one plain proxy exchange on the client connection before the CONNECT.
func preExchange(c net.Conn, br *bufio.Reader, origin string, n int, wait time.Duration) string {
	req := fmt.Sprintf("GET http://%s/shaped/%d HTTP/1.1\r\nHost: %s\r\n\r\n", origin, n, origin)
	c.SetDeadline(time.Now().Add(wait))
	defer c.SetDeadline(time.Time{})
	if _, err := c.Write([]byte(req)); err != nil {
		return "gwriteerr"
	}
	lines, err := readHead(br)
	if err != nil {
		if ne, ok := err.(net.Error); ok && ne.Timeout() {
			return "gtimeout"
		}
		return "gnohead"
	}
	st, _ := statusOf(lines)
	cl := -1
	for _, l := range lines[1:] {
		if i := strings.IndexByte(l, ':'); i > 0 && strings.EqualFold(strings.TrimSpace(l[:i]), "Content-Length") {
			cl, _ = strconv.Atoi(strings.TrimSpace(l[i+1:]))
		}
	}
	if cl < 0 {
		return fmt.Sprintf("g%d:nolength", st)
	}
	body := make([]byte, cl)
	if _, err := io.ReadFull(br, body); err != nil {
		return fmt.Sprintf("g%d:short", st)
	}
	want := make([]byte, n)
	fill(want, 0x5151515)
	if !bytes.Equal(body, want) {
		return fmt.Sprintf("g%d:%d!", st, cl)
	}
	return fmt.Sprintf("g%d:%d", st, cl)
}

// bareListener hands out connections that implement net.Conn and nothing else.
type bareListener struct{ net.Listener }

type bareConn struct{ net.Conn }

func (l bareListener) Accept() (net.Conn, error) {
	c, err := l.Listener.Accept()
	if err != nil {
		return nil, err
	}
	return bareConn{c}, nil
}

var (
	tlsOnce sync.Once
	tlsCfg  *tls.Config
)

func serverTLS() *tls.Config {
	tlsOnce.Do(func() {
		key, err := ecdsa.GenerateKey(elliptic.P256(), rand.Reader)
		if err != nil {
			panic(err)
		}
		tmpl := &x509.Certificate{
			SerialNumber: big.NewInt(1), Subject: pkix.Name{CommonName: "c04-proxy"},
			NotBefore: time.Now().Add(-time.Hour), NotAfter: time.Now().Add(24 * time.Hour),
			KeyUsage: x509.KeyUsageDigitalSignature, ExtKeyUsage: []x509.ExtKeyUsage{x509.ExtKeyUsageServerAuth},
			DNSNames: []string{"localhost"},
		}
		der, err := x509.CreateCertificate(rand.Reader, tmpl, tmpl, &key.PublicKey, key)
		if err != nil {
			panic(err)
		}
		tlsCfg = &tls.Config{Certificates: []tls.Certificate{{Certificate: [][]byte{der}, PrivateKey: key}}}
	})
	return tlsCfg
}

func downstreamHead(code int, v byte) string {
	switch v {
	case 'c':
		return fmt.Sprintf("HTTP/1.1 %d %s\r\nContent-Length: 0\r\n\r\n", code, statusText(code))
	case 'r':
		return fmt.Sprintf("HTTP/1.1 %d Connection established\r\nProxy-Agent: scripted\r\n\r\n", code)
	}
	return fmt.Sprintf("HTTP/1.1 %d %s\r\n\r\n", code, statusText(code))
}

func statusText(code int) string {
	if t := http.StatusText(code); t != "" {
		return t
	}
	return "Status"
}

const refusal = "downstream-no"

// runDown: the scripted downstream proxy refuses the CONNECT.
func runDown(arg string, grace time.Duration) []string {
	if len(arg) < 4 {
		return []string{"badscript"}
	}
	v := arg[len(arg)-1]
	code, err := strconv.Atoi(arg[:len(arg)-1])
	if err != nil || code < 300 || code > 599 || strings.IndexByte("bcn", v) < 0 {
		return []string{"badscript"}
	}
	dl := listen()
	defer dl.Close()
	pl := listen()
	defer pl.Close()
	p := martian.NewProxy()
	defer func() { go p.Close() }()
	p.SetDownstreamProxy(&url.URL{Host: dl.Addr().String()})
	go p.Serve(pl)
	go func() {
		c, err := dl.Accept()
		if err != nil {
			return
		}
		defer c.Close()
		c.SetDeadline(time.Now().Add(10 * time.Second))
		if _, err := readHead(bufio.NewReader(c)); err != nil {
			return
		}
		h := fmt.Sprintf("HTTP/1.1 %d %s\r\n", code, statusText(code))
		switch v {
		case 'b':
			h += fmt.Sprintf("Content-Length: %d\r\n\r\n%s", len(refusal), refusal)
		case 'c':
			h += "Content-Length: 0\r\n\r\n"
		default:
			h += "\r\n"
		}
		c.Write([]byte(h))
	}()
	c, err := net.DialTimeout("tcp", pl.Addr().String(), 5*time.Second)
	if err != nil {
		return []string{"dialerr"}
	}
	defer c.Close()
	if _, err := c.Write([]byte("CONNECT 127.0.0.1:1 HTTP/1.1\r\nHost: 127.0.0.1:1\r\n\r\n")); err != nil {
		return []string{"writeerr"}
	}
	br := bufio.NewReader(c)
	c.SetReadDeadline(time.Now().Add(3 * grace))
	lines, err := readHead(br)
	if err != nil {
		return []string{"noresponse"}
	}
	st, _ := statusOf(lines)
	c.SetReadDeadline(time.Now().Add(grace))
	body, rerr := io.ReadAll(br)
	e := "E1"
	if ne, ok := rerr.(net.Error); ok && ne.Timeout() {
		e = "E0"
	}
	ok := "+"
	if len(body) > len(refusal) || string(body) != refusal[:len(body)] {
		ok = "!"
	}
	return []string{fmt.Sprintf("s%d", st), fmt.Sprintf("B%d%s", len(body), ok), e}
}

// ------------------------------------------------------------ the tunnel

var graceMS = 2000

// tracker makes the proxies dial through a wrapper that records Close(), per
// address (only connections to watched addresses belong to a tunnel).
type tcount struct{ dialed, closed int32 }

type tracker struct {
	mu    sync.Mutex
	addrs map[string]*tcount
}

func (t *tracker) watch(addr string) {
	t.mu.Lock()
	if t.addrs == nil {
		t.addrs = map[string]*tcount{}
	}
	if t.addrs[addr] == nil {
		t.addrs[addr] = &tcount{}
	}
	t.mu.Unlock()
}

type trackedConn struct {
	*net.TCPConn
	c    *tcount
	once sync.Once
}

func (c *trackedConn) Close() error {
	c.once.Do(func() { atomic.AddInt32(&c.c.closed, 1) })
	return c.TCPConn.Close()
}

func (t *tracker) dial(network, addr string) (net.Conn, error) {
	c, err := (&net.Dialer{Timeout: 30 * time.Second, KeepAlive: 30 * time.Second}).Dial(network, addr)
	if err != nil {
		return nil, err
	}
	tc, ok := c.(*net.TCPConn)
	t.mu.Lock()
	cnt := t.addrs[addr]
	t.mu.Unlock()
	if !ok || cnt == nil {
		return c, nil
	}
	atomic.AddInt32(&cnt.dialed, 1)
	return &trackedConn{TCPConn: tc, c: cnt}, nil
}

func (t *tracker) allClosedWithin(d time.Duration, addrs []string) bool {
	for end := time.Now().Add(d); ; {
		ok := true
		t.mu.Lock()
		for _, a := range addrs {
			c := t.addrs[a]
			if c == nil || atomic.LoadInt32(&c.dialed) == 0 || atomic.LoadInt32(&c.closed) != atomic.LoadInt32(&c.dialed) {
				ok = false
			}
		}
		t.mu.Unlock()
		if ok {
			return true
		}
		if time.Now().After(end) {
			return false
		}
		time.Sleep(2 * time.Millisecond)
	}
}

func listen() net.Listener {
	l, err := net.Listen("tcp", "127.0.0.1:0")
	if err != nil {
		panic(err)
	}
	return l
}

func closeWithin(ps []*martian.Proxy, d time.Duration) bool {
	done := make(chan struct{})
	go func() {
		for _, p := range ps {
			p.Close()
		}
		close(done)
	}()
	select {
	case <-done:
		return true
	case <-time.After(d):
		return false
	}
}

// readHead reads an HTTP head (up to the empty line) without consuming more
// than the bufio.Reader happens to buffer; returns the lines.
func readHead(br *bufio.Reader) ([]string, error) {
	var lines []string
	for {
		l, err := br.ReadString('\n')
		if err != nil {
			return lines, err
		}
		l = strings.TrimRight(l, "\r\n")
		if l == "" {
			return lines, nil
		}
		lines = append(lines, l)
		if len(lines) > 100 {
			return lines, fmt.Errorf("head too long")
		}
	}
}

func statusOf(lines []string) (int, bool) {
	if len(lines) == 0 {
		return 0, false
	}
	f := strings.Fields(lines[0])
	if len(f) < 2 {
		return 0, false
	}
	st, _ := strconv.Atoi(f[1])
	warn := false
	for _, l := range lines[1:] {
		if i := strings.IndexByte(l, ':'); i > 0 && strings.EqualFold(strings.TrimSpace(l[:i]), "Warning") && strings.TrimSpace(l[i+1:]) != "" {
			warn = true
		}
	}
	return st, warn
}

// env is one proxy (or a chain of two) behind one client-facing listener.
type env struct {
	pl      net.Listener
	proxies []*martian.Proxy
	trk     *tracker
	origin  string
	dlAddr  string
	closers []func()
}

func (e *env) close() {
	for i := len(e.closers) - 1; i >= 0; i-- {
		e.closers[i]()
	}
}

// newEnv builds the environment tc asks for; faddr is the scripted downstream proxy (via F).
func newEnv(tc *tcase, faddr string, needOrigin bool) (*env, string) {
	e := &env{trk: &tracker{}}
	pl := listen()
	e.pl = pl
	e.closers = append(e.closers, func() { pl.Close() })
	p := martian.NewProxy()
	e.proxies = []*martian.Proxy{p}
	if tc.tracked {
		p.SetDial(e.trk.dial)
	}
	switch tc.via {
	case "M":
		dl := listen()
		e.closers = append(e.closers, func() { dl.Close() })
		e.dlAddr = dl.Addr().String()
		dp := martian.NewProxy()
		if tc.tracked {
			dp.SetDial(e.trk.dial)
		}
		go dp.Serve(dl)
		e.proxies = append(e.proxies, dp)
		p.SetDownstreamProxy(&url.URL{Host: dl.Addr().String()})
	case "F":
		p.SetDownstreamProxy(&url.URL{Host: faddr})
	}
	var cl net.Listener = pl
	switch tc.lkind {
	case 's':
		cl = tls.NewListener(pl, serverTLS())
	case 'w':
		cl = bareListener{pl}
	}
	// origin for the plain exchanges that precede the CONNECT on the same connection
	if needOrigin || len(tc.pre) > 0 || tc.lkind == 't' {
		ol := listen()
		e.origin = ol.Addr().String()
		osrv := &http.Server{Handler: http.HandlerFunc(func(rw http.ResponseWriter, req *http.Request) {
			n, _ := strconv.Atoi(strings.TrimPrefix(req.URL.Path, "/shaped/"))
			body := make([]byte, n)
			fill(body, 0x5151515)
			rw.Header().Set("Content-Length", strconv.Itoa(n))
			rw.Header().Set("Content-Type", "application/octet-stream")
			rw.Write(body)
		})}
		go osrv.Serve(ol)
		e.closers = append(e.closers, func() { osrv.Close(); ol.Close() })
	}
	if tc.lkind == 't' {
		tsl := trafficshape.NewListener(pl)
		cfgJSON := fmt.Sprintf(`{"trafficshape":{"shapes":[{"url_regex":"http://%s/shaped","close_connections":[{"byte":%d,"count":1000000}]}]}}`, e.origin, tc.shapeAt)
		rec := httptest.NewRecorder()
		req, _ := http.NewRequest("POST", "/shape-traffic", strings.NewReader(cfgJSON))
		trafficshape.NewHandler(tsl).ServeHTTP(rec, req)
		if rec.Code != 200 {
			e.close()
			return nil, "shapeconfig"
		}
		cl = tsl
	}
	go p.Serve(cl)
	return e, ""
}

func parseMulti(in []string) ([]*tcase, error) {
	if len(in) < 4 || in[0] != "MULTI" || in[2] != "|" {
		return nil, fmt.Errorf("multi")
	}
	h := fnv.New32a()
	h.Write([]byte(strings.Join(in, " ")))
	tracked := h.Sum32()%4 != 0
	var tcs []*tcase
	var cur []string
	flush := func() error {
		tc, err := parseTun(append([]string{"TUN", in[1]}, cur...))
		if err != nil {
			return err
		}
		if tc.via == "F" {
			return fmt.Errorf("multi via")
		}
		explicit := false
		for _, t := range cur {
			explicit = explicit || t == "Kp" || t == "Kt"
		}
		if !explicit {
			tc.tracked = tracked
		}
		tc.multi = true
		tcs = append(tcs, tc)
		cur = nil
		return nil
	}
	for _, t := range in[3:] {
		if t == "|" {
			if err := flush(); err != nil {
				return nil, err
			}
			continue
		}
		cur = append(cur, t)
	}
	if err := flush(); err != nil {
		return nil, err
	}
	if len(tcs) < 2 || len(tcs) > 4 {
		return nil, fmt.Errorf("multi count")
	}
	for _, tc := range tcs {
		tc.tracked = tcs[0].tracked // one proxy, one dialer
	}
	return tcs, nil
}

// runMulti: several tunnels at once through one proxy and one listener.
func runMulti(tcs []*tcase, grace, headWait time.Duration) ([]string, bool) {
	ev, tok := newEnv(tcs[0], "", true)
	if ev == nil {
		return []string{tok}, false
	}
	defer ev.close()
	defer func() {
		go func() {
			for _, q := range ev.proxies {
				q.Close()
			}
		}()
	}()
	outs := make([][]string, len(tcs))
	timings := make([]bool, len(tcs))
	var wg sync.WaitGroup
	for i := range tcs {
		wg.Add(1)
		go func(i int) {
			defer wg.Done()
			time.Sleep(time.Duration(i) * 40 * time.Millisecond) // tunnel 0 is established first
			outs[i], timings[i] = runTun(tcs[i], grace, headWait, ev)
		}(i)
	}
	wg.Wait()
	var out []string
	timing := false
	for i := range tcs {
		if i > 0 {
			out = append(out, "|")
		}
		out = append(out, outs[i]...)
		timing = timing || timings[i]
	}
	return out, timing
}

func runTun(tc *tcase, grace, headWait time.Duration, shared *env) (out []string, timingOnly bool) {
	defer func() {
		if r := recover(); r != nil {
			out = append(out, "PANIC")
			timingOnly = false
		}
	}()
	ctot, ttot := tc.early, tc.banner
	for _, ph := range tc.phases {
		ctot += ph.c.total()
		ttot += ph.t.total()
	}
	cdata, tdata := make([]byte, ctot), make([]byte, ttot)
	fill(cdata, 0x1234567)
	fill(tdata, 0x89abcde)

	tl := listen()
	defer tl.Close()
	ev := shared
	if ev == nil {
		var tok string
		ev, tok = newEnv(tc, tl.Addr().String(), false)
		if ev == nil {
			return []string{tok}, false
		}
		defer ev.close()
	}
	pl, proxies, trk, origin := ev.pl, ev.proxies, ev.trk, ev.origin
	trk.watch(tl.Addr().String())
	mine := []string{tl.Addr().String()}
	if ev.dlAddr != "" && len(tc.pre) == 0 && shared == nil {
		trk.watch(ev.dlAddr) // with pre-exchanges the transport keeps an idle connection to it
		mine = append(mine, ev.dlAddr)
	}
	released := false
	defer func() {
		if !released && shared == nil {
			go func() {
				for _, q := range proxies {
					q.Close()
				}
			}()
		}
	}()

	// target side: accept one connection
	type acc struct {
		c   net.Conn
		err error
	}
	accc := make(chan acc, 1)
	go func() {
		c, err := tl.Accept()
		accc <- acc{c, err}
	}()

	rawc, err := net.DialTimeout("tcp", pl.Addr().String(), 5*time.Second)
	if err != nil {
		return []string{"dialerr"}, false
	}
	defer rawc.Close()
	cconn := rawc
	if tc.lkind == 's' {
		tcl := tls.Client(rawc, &tls.Config{InsecureSkipVerify: true})
		rawc.SetDeadline(time.Now().Add(10 * time.Second))
		if err := tcl.Handshake(); err != nil {
			return []string{"tlshandshake"}, false
		}
		rawc.SetDeadline(time.Time{})
		cconn = tcl
	}
	cbr := bufio.NewReaderSize(cconn, 64<<10)
	for _, n := range tc.pre {
		tok := preExchange(cconn, cbr, origin, n, headWait)
		out = append(out, tok)
		if tok != fmt.Sprintf("g200:%d", n) {
			return out, strings.HasSuffix(tok, "timeout")
		}
	}
	thost := tl.Addr().String()
	head := "CONNECT " + thost + " HTTP/1.1\r\nHost: " + thost + "\r\n\r\n"
	first := append([]byte(head), cdata[:tc.early]...)
	if _, err := cconn.Write(first); err != nil {
		return []string{"writeerr"}, false
	}
	if tc.earlyShut {
		cconn.(halfCloser).CloseWrite()
	}

	var tconn net.Conn
	select {
	case a := <-accc:
		if a.err != nil {
			return []string{"accepterr"}, false
		}
		tconn = a.c
	case <-time.After(10 * time.Second):
		return []string{"noaccept"}, false
	}
	defer tconn.Close()
	tbr := bufio.NewReaderSize(tconn, 64<<10)
	if tc.via == "F" {
		tconn.SetReadDeadline(time.Now().Add(10 * time.Second))
		lines, err := readHead(tbr)
		tconn.SetReadDeadline(time.Time{})
		if err != nil || len(lines) == 0 || !strings.HasPrefix(lines[0], "CONNECT "+thost+" ") {
			return []string{"badconnecthead"}, false
		}
		if _, err := tconn.Write(append([]byte(downstreamHead(tc.fcode, tc.fvar)), tdata[:tc.banner]...)); err != nil {
			return []string{"twriteerr"}, false
		}
	} else if tc.banner > 0 {
		if _, err := tconn.Write(tdata[:tc.banner]); err != nil {
			return []string{"twriteerr"}, false
		}
	}

	cconn.SetReadDeadline(time.Now().Add(headWait))
	lines, err := readHead(cbr)
	cconn.SetReadDeadline(time.Time{})
	if err != nil {
		return append(out, "noresponse"), true
	}
	st, _ := statusOf(lines)
	out = append(out, fmt.Sprintf("s%d", st))
	if st/100 != 2 {
		return out, false
	}

	var ce, te end
	var rwg sync.WaitGroup
	rwg.Add(2)
	go ce.reader(cbr, tdata, &rwg, tc.slowC)
	go te.reader(tbr, cdata, &rwg, tc.slowT)

	coff, toff := tc.early, tc.banner
	cshut, tshut := false, false
	var cfull, tfull bool
	for _, ph := range tc.phases {
		var wwg sync.WaitGroup
		wwg.Add(2)
		cw, tw := make(chan struct{}), make(chan struct{})
		go writer(cconn, &ce, cdata, coff, ph.c, &wwg, cw, tw, grace)
		go writer(tconn, &te, tdata, toff, ph.t, &wwg, tw, cw, grace)
		wdone := make(chan struct{})
		go func() { wwg.Wait(); close(wdone) }()
		coff += ph.c.total()
		toff += ph.t.total()
		cshut = cshut || ph.c.shut != 0 || ph.c.stream
		tshut = tshut || ph.t.shut != 0 || ph.t.stream
		cfull = cfull || strings.IndexByte("fau", ph.c.shut) >= 0 && ph.c.shut != 0 || ph.c.stream
		tfull = tfull || strings.IndexByte("fau", ph.t.shut) >= 0 && ph.t.shut != 0 || ph.t.stream
		if (tc.lkind == 'w' || tc.lkind == 't') && tshut {
			cshut = true // the proxy can only close the client connection: both directions end
		}

		// checkpoint
		met := func(cs, ts snap, wd bool) bool {
			if !wd {
				return false
			}
			if !tfull && (ts.n < int64(coff) || (cshut && ts.eof == 0)) {
				return false
			}
			if !cfull && (cs.n < int64(toff) || (tshut && cs.eof == 0)) {
				return false
			}
			return true
		}
		last := time.Now()
		pcs, pts := ce.snap(), te.snap()
		wd := false
		for {
			select {
			case <-wdone:
				wd = true
			default:
			}
			cs, ts := ce.snap(), te.snap()
			if atomic.LoadInt32(&ce.idling) == 1 || atomic.LoadInt32(&te.idling) == 1 {
				last = time.Now() // a scripted idle period is not a stall
			}
			if cs != pcs || ts != pts {
				last = time.Now()
				pcs, pts = cs, ts
			}
			if met(cs, ts, wd) {
				break
			}
			if time.Since(last) > grace {
				timingOnly = true
				break
			}
			time.Sleep(time.Millisecond)
		}
		time.Sleep(25 * time.Millisecond)
		cs, ts := ce.snap(), te.snap()
		out = append(out, ts.tok("t")+"/"+cs.tok("c"))
		if !wd {
			out = append(out, "BLOCKED")
			return out, timingOnly
		}
		for _, pr := range []struct {
			sd side
			e  *end
		}{{ph.c, &ce}, {ph.t, &te}} {
			if pr.sd.stream {
				if atomic.LoadInt32(&pr.e.sfail) == 1 {
					out = append(out, "S1")
				} else {
					out = append(out, "S0")
					timingOnly = true
				}
			}
		}
	}
	if tc.probe != 0 {
		// the tunnel is dead but the client keeps its connection and goes on writing
		cl := listen()
		var hits int32
		go func() {
			for {
				c, err := cl.Accept()
				if err != nil {
					return
				}
				atomic.AddInt32(&hits, 1)
				go func() {
					c.SetDeadline(time.Now().Add(2 * time.Second))
					readHead(bufio.NewReader(c))
					c.Write([]byte("HTTP/1.1 200 OK\r\nContent-Length: 0\r\n\r\n"))
					c.Close()
				}()
			}
		}()
		msg := []byte("ZZZZZZZZ")
		if tc.probe == 'q' {
			h := cl.Addr().String()
			msg = []byte("GET http://" + h + "/from-dead-tunnel HTTP/1.1\r\nHost: " + h + "\r\n\r\n")
		}
		wfail := false
		for end := time.Now().Add(grace); time.Now().Before(end); {
			cconn.SetWriteDeadline(time.Now().Add(time.Second))
			if _, err := cconn.Write(msg); err != nil {
				wfail = true
				break
			}
			time.Sleep(40 * time.Millisecond)
		}
		time.Sleep(100 * time.Millisecond)
		cl.Close()
		if wfail {
			out = append(out, "W1")
		} else {
			out = append(out, "W0")
			timingOnly = true
		}
		if atomic.LoadInt32(&hits) == 0 {
			out = append(out, "Q0")
		} else {
			out = append(out, "Q1")
		}
	}
	if cshut && tshut && shared == nil {
		if closeWithin(proxies, grace) {
			out = append(out, "R1")
		} else {
			out = append(out, "R0")
			timingOnly = true
		}
		released = true
	} else {
		out = append(out, "R-")
	}
	if tc.tracked && (cshut && tshut || tc.probe != 0) {
		if trk.allClosedWithin(grace, mine) {
			out = append(out, "K1")
		} else {
			out = append(out, "K0")
			timingOnly = true
		}
	} else {
		out = append(out, "K-")
	}
	atomic.StoreInt32(&ce.local, 1)
	atomic.StoreInt32(&te.local, 1)
	cconn.Close()
	tconn.Close()
	rwg.Wait()
	return out, timingOnly
}

// ideal is what a perfect tunnel shows; used ONLY to decide whether a case
// that timed out somewhere deserves one retry (the verdict is the driver's).
func ideal(tc *tcase) []string {
	var out []string
	for _, n := range tc.pre {
		out = append(out, fmt.Sprintf("g200:%d", n))
	}
	out = append(out, fmt.Sprintf("s%d", tc.fcode))
	cn, tn := tc.early, tc.banner
	cshut, tshut, cfull, tfull := false, false, false, false
	for _, ph := range tc.phases {
		cn += ph.c.total()
		tn += ph.t.total()
		cshut = cshut || ph.c.shut != 0 || ph.c.stream
		tshut = tshut || ph.t.shut != 0 || ph.t.stream
		cfull = cfull || strings.IndexByte("fau", ph.c.shut) >= 0 && ph.c.shut != 0 || ph.c.stream
		tfull = tfull || strings.IndexByte("fau", ph.t.shut) >= 0 && ph.t.shut != 0 || ph.t.stream
		if (tc.lkind == 'w' || tc.lkind == 't') && tshut {
			cshut = true
		}
		ef := func(b bool) int32 {
			if b {
				return 1
			}
			return 0
		}
		b2 := func(b bool) int32 { return ef(b) }
		ts := snap{n: int64(cn), eof: ef(cshut), local: b2(tfull)}
		cs := snap{n: int64(tn), eof: ef(tshut), local: b2(cfull)}
		out = append(out, ts.tok("t")+"/"+cs.tok("c"))
		if ph.c.stream {
			out = append(out, "S1")
		}
		if ph.t.stream {
			out = append(out, "S1")
		}
	}
	if tc.probe != 0 {
		out = append(out, "W1", "Q0")
	}
	if cshut && tshut && !tc.multi {
		out = append(out, "R1")
	} else {
		out = append(out, "R-")
	}
	if tc.tracked && (cshut && tshut || tc.probe != 0) {
		out = append(out, "K1")
	} else {
		out = append(out, "K-")
	}
	return out
}

func runFail(via string) []string {
	pl := listen()
	defer pl.Close()
	p := martian.NewProxy()
	defer func() { go p.Close() }()
	const dead = "127.0.0.1:1"
	switch via {
	case "M":
		dl := listen()
		defer dl.Close()
		dp := martian.NewProxy()
		go dp.Serve(dl)
		defer func() { go dp.Close() }()
		p.SetDownstreamProxy(&url.URL{Host: dl.Addr().String()})
	case "X":
		p.SetDownstreamProxy(&url.URL{Host: dead})
	case "D":
	default:
		return []string{"badvia"}
	}
	go p.Serve(pl)
	c, err := net.DialTimeout("tcp", pl.Addr().String(), 5*time.Second)
	if err != nil {
		return []string{"dialerr"}
	}
	defer c.Close()
	if _, err := c.Write([]byte("CONNECT " + dead + " HTTP/1.1\r\nHost: " + dead + "\r\n\r\n")); err != nil {
		return []string{"writeerr"}
	}
	c.SetReadDeadline(time.Now().Add(15 * time.Second))
	lines, err := readHead(bufio.NewReader(c))
	if err != nil {
		return []string{"noresponse"}
	}
	st, warn := statusOf(lines)
	w := "W0"
	if warn {
		w = "W1"
	}
	return []string{fmt.Sprintf("s%d", st), w}
}

func eq(a, b []string) bool {
	if len(a) != len(b) {
		return false
	}
	for i := range a {
		if strings.ReplaceAll(a[i], "X", "E") != b[i] {
			return false
		}
	}
	return true
}

var retried, persisted int64

// After this many deviations survived their retry the tree evidently
// misbehaves for reasons other than scheduling noise: stop retrying and use
// short waits so that a broken tree is reported quickly.  Never reached on a
// tree whose tunnels work.
const persistLimit = 6

func runCase(in []string) []string {
	if len(in) == 0 {
		return []string{"badcase"}
	}
	switch in[0] {
	case "TUN":
		tc, err := parseTun(in)
		if err != nil {
			return []string{"badscript"}
		}
		grace := time.Duration(graceMS) * time.Millisecond
		if atomic.LoadInt64(&persisted) >= persistLimit {
			out, _ := runTun(tc, grace/5, grace/2, nil)
			return out
		}
		out, timing := runTun(tc, grace, 3*grace, nil)
		if timing && !eq(out, ideal(tc)) {
			atomic.AddInt64(&retried, 1)
			out, timing = runTun(tc, 2*grace, 4*grace, nil)
			if timing && !eq(out, ideal(tc)) {
				atomic.AddInt64(&persisted, 1)
			}
		}
		return out
	case "MULTI":
		tcs, err := parseMulti(in)
		if err != nil {
			return []string{"badscript"}
		}
		var want []string
		for i, tc := range tcs {
			if i > 0 {
				want = append(want, "|")
			}
			want = append(want, ideal(tc)...)
		}
		grace := time.Duration(graceMS) * time.Millisecond
		if atomic.LoadInt64(&persisted) >= persistLimit {
			out, _ := runMulti(tcs, grace/5, grace/2)
			return out
		}
		out, timing := runMulti(tcs, grace, 3*grace)
		if timing && !eq(out, want) {
			atomic.AddInt64(&retried, 1)
			out, timing = runMulti(tcs, 2*grace, 4*grace)
			if timing && !eq(out, want) {
				atomic.AddInt64(&persisted, 1)
			}
		}
		return out
	case "FAIL":
		if len(in) != 2 {
			return []string{"badscript"}
		}
		return runFail(in[1])
	case "DOWN":
		if len(in) != 2 {
			return []string{"badscript"}
		}
		return runDown(in[1], time.Duration(graceMS)*time.Millisecond)
	}
	return []string{"badcase"}
}

func main() {
	mlog.SetLevel(mlog.Silent)
	if v := os.Getenv("VERIF_C04_GRACE_MS"); v != "" {
		if k, err := strconv.Atoi(v); err == nil && k > 0 {
			graceMS = k
		}
	}
	cfg := hx.ParseFlags()
	defer cfg.Close()

	var cases []hx.Case
	pre, replayOnly := cfg.Inputs()
	cases = append(cases, pre...)
	if !replayOnly {
		cases = append(cases, generate(cfg)...)
	}
	workers := 16
	if v := os.Getenv("VERIF_C04_WORKERS"); v != "" {
		if k, err := strconv.Atoi(v); err == nil && k > 0 {
			workers = k
		}
	}
	outs := make([][]string, len(cases))
	var wg sync.WaitGroup
	next := int64(-1)
	for w := 0; w < workers; w++ {
		wg.Add(1)
		go func() {
			defer wg.Done()
			for {
				i := int(atomic.AddInt64(&next, 1))
				if i >= len(cases) {
					return
				}
				outs[i] = runCase(cases[i].In)
			}
		}()
	}
	wg.Wait()
	for i, c := range cases {
		cfg.Emit(hx.Case{Name: c.Name, In: c.In, Out: outs[i]})
	}
	cfg.CountN("retried_after_timeout", int(retried))
	cfg.CountN("deviation_persisted_after_retry", int(persisted))
}
