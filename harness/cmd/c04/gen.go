package main

import (
	"fmt"
	"strings"

	"verifharness/hx"
)

// Script generator.  Valid scripts only (an end that has shut does nothing
// more); a full Close ('f') is only generated at a point where nothing is in
// flight toward the closing end and the other end sends nothing afterwards,
// so that no TCP reset can legitimately destroy data.  Abortive closes ('a':
// SO_LINGER 0; 'u': close with unread received data) come after a checkpoint
// (everything the aborting end sent has been received) and the aborting end
// writes nothing in that phase; the other end is idle or busy sending, and
// afterwards sends some more or not, then shuts, closes or aborts itself.

var smallSizes = []int{1, 2, 7, 64, 100, 999, 1000, 4095, 4096, 4097}
var midSizes = []int{8191, 8192, 16384, 32768, 65535, 65536, 100000}

func writes(r *hx.RNG, big bool) (string, int) {
	n := r.Range(1, 3)
	var parts []string
	total := 0
	for i := 0; i < n; i++ {
		var sz, cnt int
		switch k := r.Intn(10); {
		case k < 6 || !big:
			sz = smallSizes[r.Intn(len(smallSizes))]
			cnt = 1
			if r.Chance(1, 3) {
				cnt = r.Range(2, 5)
			}
		default:
			sz = midSizes[r.Intn(len(midSizes))]
			cnt = r.Range(1, 3)
		}
		if r.Chance(1, 8) {
			sz = r.Range(1, 5000)
		}
		p := fmt.Sprintf("%d", sz)
		if cnt > 1 {
			p += fmt.Sprintf("x%d", cnt)
		}
		if r.Chance(1, 4) {
			p += fmt.Sprintf("~%d", r.Range(1, 4))
		}
		parts = append(parts, p)
		total += sz * cnt
	}
	return strings.Join(parts, ","), total
}

func maybeWrites(r *hx.RNG, big bool, num, den int) string {
	if r.Chance(num, den) {
		s, _ := writes(r, big)
		return s
	}
	return ""
}

// ending appends the phases in which the two ends shut.
func ending(r *hx.RNG, big bool) []string {
	var ph []string
	first, second := "c", "t"
	if r.Bool() {
		first, second = "t", "c"
	}
	mk := func(who, acts, other string) string {
		if who == "c" {
			return "c" + acts + "/t" + other
		}
		return "c" + other + "/t" + acts
	}
	switch k := r.Intn(10); {
	case k < 1: // nobody shuts: the tunnel must stay up
	case k < 2: // only one end shuts (half close, the rest stays usable)
		ph = append(ph, mk(first, maybeWrites(r, big, 1, 2)+"h", maybeWrites(r, big, 1, 2)))
		ph = append(ph, mk(second, maybeWrites(r, big, 2, 3), ""))
	case k < 3: // both in the same phase
		ph = append(ph, "c"+maybeWrites(r, big, 1, 2)+"h/t"+maybeWrites(r, big, 1, 2)+"h")
	case k < 7: // first half-closes (maybe with last data), other may go on sending, then shuts
		ph = append(ph, mk(first, maybeWrites(r, big, 1, 2)+"h", maybeWrites(r, big, 1, 3)))
		if r.Chance(1, 2) {
			ph = append(ph, mk(second, maybeWrites(r, big, 3, 4), ""))
		}
		sh := "h"
		if r.Chance(1, 3) {
			sh = "f"
		}
		ph = append(ph, mk(second, maybeWrites(r, big, 1, 3)+sh, ""))
	case k < 8: // first closes fully while nothing is in flight toward it; other only shuts
		ph = append(ph, "c/t") // checkpoint: everything delivered
		ph = append(ph, mk(first, "f", ""))
		sh := "h"
		if r.Bool() {
			sh = "f"
		}
		ph = append(ph, mk(second, sh, ""))
	default: // first aborts (RST); other idle or busy; then other goes on or not, and ends somehow
		ph = append(ph, "c/t") // checkpoint: everything delivered
		switch r.Intn(3) {
		case 0: // SO_LINGER 0, other side idle
			ph = append(ph, mk(first, "a", ""))
		case 1: // SO_LINGER 0 while the other side is sending
			w, _ := writes(r, false)
			ph = append(ph, mk(first, "a", w))
		default: // close with unread received data
			ph = append(ph, mk(first, "u", fmt.Sprintf("%d", r.Range(1, 20000))))
		}
		if r.Chance(1, 3) {
			w, _ := writes(r, false)
			ph = append(ph, mk(second, w, "")) // lost, but must not wedge anything
		}
		ph = append(ph, mk(second, []string{"h", "f", "a"}[r.Intn(3)], ""))
	}
	return ph
}

var earlies = []int{0, 0, 0, 1, 2, 10, 100, 517, 1000, 3000, 4000, 4040, 4050, 4060, 4095, 4096, 4097, 5000}
var banners = []int{0, 0, 0, 1, 7, 100, 4000, 4090, 4096, 5000}

func generate(cfg *hx.Config) []hx.Case {
	rng := hx.NewRNG(cfg.Seed)
	var cases []hx.Case
	add := func(kind string, in []string) {
		cases = append(cases, hx.Case{Name: fmt.Sprintf("%s%d", kind, len(cases)+1), In: in})
		cfg.Count("kind=" + kind)
		if in[0] == "MULTI" {
			cfg.Count("multi-tunnel")
		}
		if in[0] == "TUN" {
			for _, t := range in {
				if t == "Zc" || t == "Zt" || t == "Zb" {
					cfg.Count("slow-reader")
				}
			}
			cfg.Count("via=" + in[1])
			if i := strings.IndexByte(in[1], '+'); i >= 0 {
				cfg.Count("listener=" + in[1][i:])
			}
			if in[2] != "e0" {
				cfg.Count("early>0")
			}
			if in[3] != "b0" {
				cfg.Count("banner>0")
			}
			if len(in) > 4 && in[4][0] == 'G' {
				cfg.Count("previous-exchange-on-connection")
			}
			if l := in[len(in)-1]; l == "Pq" || l == "Pr" {
				cfg.Count("post-mortem-probe")
			}
			cfg.Count(fmt.Sprintf("phases=%d", len(in)-4))
			for _, t := range in[4:] {
				if strings.Contains(t, "f") {
					cfg.Count("fullclose")
					break
				}
			}
			for _, t := range in[4:] {
				if strings.ContainsAny(t, "au") {
					cfg.Count("abortive-close")
					break
				}
			}
		}
	}
	vias := []string{"D", "M", "F"}

	// 0. CONNECT failure
	for _, v := range []string{"D", "M", "X"} {
		add("fail", []string{"FAIL", v})
	}

	// 1. small matrix: via x early x banner x closing pattern, tiny payloads
	endings := [][]string{
		{"c5/t6"},
		{"c5/t6", "ch/t", "c/th"},
		{"c5/t6", "c/th", "ch/t"},
		{"c5/t6", "ch/th"},
		{"c5/t6", "c3h/t", "c/t9", "c/t2h"},
		{"c5/t6", "c/t3h", "c9/t", "c2h/t"},
		{"c5/t6", "cf/t", "c/th"},
		{"c5/t6", "c/tf", "ch/t"},
		{"c5/t6", "cf/t", "c/tf"},
		{"ch/t", "c/t7h"},
		{"c/th", "c7h/t"},
		// abortive closes: SO_LINGER 0 / close with unread data, other end idle / busy
		{"c5/t6", "ca/t", "c/th"},
		{"c5/t6", "c/ta", "ch/t"},
		{"c5/t6", "ca/t", "c/t3", "c/tf"},
		{"c5/t6", "c/ta", "c3/t", "cf/t"},
		{"c5/t6", "ca/t100x5~1", "c/th"},
		{"c5/t6", "c100x5~1/ta", "ch/t"},
		{"c5/t6", "cu/t100", "c/th"},
		{"c5/t6", "c100/tu", "ch/t"},
		{"c5/t6", "ca/t", "c/ta"},
		{"ca/t", "c/th"},
		{"c/ta", "ch/t"},
		{"c5/t6", "ch/t", "c/ta"},
		{"c5/t6", "c/th", "ca/t"},
		{"c5/t6", "ca/ta"},
		// orderly full close while the other end is still sending
		{"c5/t6", "cf/t100x5~1", "c/th"},
		{"c5/t6", "c100x5~1/tf", "ch/t"},
	}
	for _, v := range vias {
		for _, e := range []int{0, 1, 10} {
			for _, b := range []int{0, 7} {
				for _, en := range endings {
					add("mat", append([]string{"TUN", v, fmt.Sprintf("e%d", e), fmt.Sprintf("b%d", b)}, en...))
				}
			}
		}
	}

	// 1b. the client half-closes in the same instant as the CONNECT head
	for _, v := range vias {
		for _, e := range []int{0, 1, 10, 4060, 5000} {
			add("eshut", []string{"TUN", v, fmt.Sprintf("e%dh", e), "b0", "c/t9", "c/t3h"})
			add("eshut", []string{"TUN", v, fmt.Sprintf("e%dh", e), "b7", "c/th"})
		}
	}

	// 1c. the target is gone for good while the client keeps its connection and goes on
	// writing into the former tunnel (raw bytes / a well-formed proxy request)
	gone := [][]string{
		{"c5/t6", "c/tf"},
		{"c5/t6", "c/ta"},
		{"c5/t6", "c100/tu"},
		{"c5/t6", "c100x5~1/ta"},
		{"c5/t6", "c100x5~1/tf"},
		{"c/ta"},
		{"c5/t6", "c7/t8", "c/tf"},
	}
	for _, v := range vias {
		for _, g := range gone {
			for _, pr := range []string{"Pq", "Pr"} {
				add("probe", append(append([]string{"TUN", v, "e0", "b0"}, g...), pr))
			}
		}
	}

	// 1d. client-facing listener kinds: TLS (+s) and connections that are net.Conn only (+w);
	// byte-exact delivery and EOS ordering in both directions, sizes around multiples of 4096
	lsizes := []int{1, 1000, 4095, 4096, 4097, 8191, 8192, 8193, 10000}
	for _, v := range []string{"D", "M", "F"} {
		for _, lk := range []string{"+s", "+w"} {
			for i, sz := range lsizes {
				e := []int{0, 10, 4060}[i%3]
				// target sends sz and shuts at once; (client then shuts: nothing left to do on +w)
				add("lsn", []string{"TUN", v + lk, fmt.Sprintf("e%d", e), "b0", "c5/t6", fmt.Sprintf("c/t%dh", sz), "ch/t"})
				// target sends sz and waits: must arrive without the tunnel ending; client answers, shuts first
				add("lsn", []string{"TUN", v + lk, fmt.Sprintf("e%d", e), "b7", fmt.Sprintf("c/t%d", sz), fmt.Sprintf("c%d/t", sz), "ch/t", fmt.Sprintf("c/t%dh", sz)})
			}
			for _, en := range [][]string{
				{"c5/t6", "ch/t", "c/t9", "c/th"},
				{"c5/t6", "c/th"},
				{"c5/t6", "ca/t", "c/th"},
				{"c5/t6", "c/ta"},
				{"c5/t6", "cu/t100", "c/th"},
				{"c5/t6", "cf/t", "c/tf"},
				{"c5/t6", "c/tf", "Pq"},
				{"c5/t6", "c/ta", "Pr"},
			} {
				add("lsn", append([]string{"TUN", v + lk, "e1", "b0"}, en...))
			}
		}
	}
	add("lsn", []string{"TUN", "D+s", "e0", "b0", "c65536x8/t4097x100", "c100h/t", "c/t100h"})
	add("lsn", []string{"TUN", "D+w", "e0", "b0", "c65536x8/t4097x100", "c100h/t", "c/t100h"})
	for _, en := range [][]string{{"c5/t6", "c/t3h", "c9/t", "c2h/t"}, {"c5/t6", "c/t4097h", "c4097h/t"}} {
		add("lsn", append([]string{"TUN", "D+s", "e0", "b0"}, en...)) // half close by the target first: TLS can
	}

	// 1e. the downstream proxy's answer: every 2xx announces the tunnel; refusals are relayed
	for _, f := range []string{"F201", "F202r", "F299", "F204", "F200c", "F226c", "F200r"} {
		for _, e := range []int{0, 10} {
			for _, b := range []int{0, 7} {
				add("dst", []string{"TUN", f, fmt.Sprintf("e%d", e), fmt.Sprintf("b%d", b), "c5/t6", "ch/th"})
			}
		}
		add("dst", []string{"TUN", f, "e4060", "b4090", "c4097/t4095", "c/t3h", "c9/t", "c2h/t"})
		add("dst", []string{"TUN", f + "+s", "e1", "b7", "c5/t6", "c/th", "ch/t"})
	}
	for _, d := range []string{"407b", "403c", "502n", "302c", "500b", "404n", "503c"} {
		add("down", []string{"DOWN", d})
	}

	// 1f. state of a PREVIOUS exchange on the same kept-alive client connection must not reach
	// the tunnel: plain proxy exchanges (matching the shaped URL, different lengths, all ending
	// short of the shape's action) before the CONNECT, on plain, wrapped and traffic-shaped
	// listeners whose close_connections offset falls inside the tunnel's byte range
	for _, v := range []string{"D", "M"} {
		for _, lk := range []string{"", "+w", "+t100", "+t2000", "+t4096", "+t9000"} {
			lim := 1 << 30
			if strings.HasPrefix(lk, "+t") {
				fmt.Sscanf(lk[2:], "%d", &lim)
			}
			for _, pre := range [][]int{{0}, {1}, {99}, {1500}, {1862}, {1999}, {100, 1500}, {4000, 95, 1}, {8999}} {
				ok := true
				var toks []string
				for _, n := range pre {
					ok = ok && n < lim
					toks = append(toks, fmt.Sprintf("G%d", n))
				}
				if !ok {
					continue
				}
				in := append([]string{"TUN", v + lk, "e0", "b0"}, toks...)
				add("prev", append(append([]string{}, in...), "c5/t6", "c/t8192", "c8192/t", "ch/t", "c/t4097h"))
				in[2] = "e10"
				add("prev", append(append([]string{}, in...), "c1/t", "c/t12000h"))
			}
		}
	}

	// 1g. an end keeps streaming while its peer aborts: its write must fail (the proxy closes
	// the connection it holds to it) — with the release of the dialled connection recorded
	for _, v := range []string{"D", "M", "F"} {
		for _, lk := range []string{"", "+s", "+w"} {
			add("strm", []string{"TUN", v + lk, "e0", "b0", "c5/t6", "ca/tS"})
			add("strm", []string{"TUN", v + lk, "e1", "b7", "c5/t6", "cS/ta"})
		}
	}

	// 1h. SLOW-reading peers and transfers larger than the socket buffers at the moment of
	// close, both directions, plain and recorded dial: the reader must get every byte and then a
	// clean end-of-stream (an abortive close by the PROXY when nobody aborted is a violation)
	slowSz := []int{1 << 20, 3000000}
	if cfg.Thorough() {
		slowSz = append(slowSz, 4<<20, 6000000)
	}
	for i, sz := range slowSz {
		for _, dialk := range []string{"Kp", "Kt"} {
			for j, v := range []string{"D", "M", "F", "D+s", "D+w"} {
				if !cfg.Thorough() && (i+j)%2 == 1 && dialk == "Kt" {
					continue
				}
				if v == "D+w" {
					// cannot half-close the client side: the target's shut ends the client's direction,
					// so the upload comes first
					add("slow", []string{"TUN", v, "e0", "b0", "Zt", dialk, fmt.Sprintf("c%dh/t", sz), "c/th"})
					add("slow", []string{"TUN", v, "e0", "b7", "Zc", dialk, "ch/t", fmt.Sprintf("c/t%dh", sz)})
					continue
				}
				// the other direction has finished before; the sender closes right after its last byte
				add("slow", []string{"TUN", v, "e0", "b0", "Zt", dialk, "c/th", fmt.Sprintf("c%dh/t", sz)})
				add("slow", []string{"TUN", v, "e10", "b0", "Zt", dialk, "c/th", fmt.Sprintf("c%df/t", sz)})
				if v != "D+w" {
					add("slow", []string{"TUN", v, "e0", "b7", "Zc", dialk, "ch/t", fmt.Sprintf("c/t%dh", sz)})
					add("slow", []string{"TUN", v, "e0", "b0", "Zb", dialk, fmt.Sprintf("c%dh/t%dh", sz, sz)})
				}
			}
		}
	}

	// 1i. SEVERAL tunnels at once through one proxy and one listener (the shaped listener in
	// particular): some idle, others transferring; every tunnel judged on its own with the
	// usual bounded wait — no tunnel may depend on another tunnel's progress
	for _, v := range []string{"D+t2000", "D", "M+t4096", "D+w", "D+s", "M"} {
		add("multi", []string{"MULTI", v, "|", "e0", "b0", "cI/t", "ch/th", "|", "e0", "b0", "c31/t", "c/t5", "ch/th"})
		add("multi", []string{"MULTI", v, "|", "e0", "b0", "c/tI", "ch/th", "|", "e3", "b0", "c31/t5", "c100000/t70000", "ch/th", "|", "e0", "b7", "c5/t6", "ca/t", "c/th"})
	}
	add("multi", []string{"MULTI", "D+t2000", "|", "e0", "b0", "cI/t", "ch/th", "|", "e0", "b0", "cI/t", "ch/th", "|", "e0", "b0", "c31/t", "c/th", "ch/t", "|", "e1", "b0", "c4097/t4095", "ch/th"})

	// 1j. (thorough only: 11 s each) a long-lived tunnel: idle longer than any set-up deadline,
	// then traffic both ways — byte transparency holds for ANY timing of writes
	if cfg.Thorough() {
		for _, v := range []string{"D", "M", "F", "F201", "M+s"} {
			add("long", []string{"TUN", v, "e3", "b0", "c5/t6", "cL/t", "c31/t37", "c4097/t5000", "ch/t", "c/t9h"})
		}
	}

	// 2. early data / banner boundaries around the 4096-byte bufio buffers
	for _, v := range vias {
		for _, e := range earlies[3:] {
			add("early", []string{"TUN", v, fmt.Sprintf("e%d", e), "b0", "c/t", "c1/t1", "c4096/t", "ch/th"})
		}
		for _, b := range banners[3:] {
			add("banner", []string{"TUN", v, "e0", fmt.Sprintf("b%d", b), "c/t", "c1/t1", "c/t4096", "ch/th"})
		}
	}

	// 3. random scripts, both directions at once
	nr := 150
	if cfg.Thorough() {
		nr = 3000
	}
	for k := 0; k < nr; k++ {
		r := rng.Fork()
		big := r.Chance(1, 4)
		via := vias[r.Intn(3)]
		if via == "F" && r.Chance(1, 2) {
			via = []string{"F201", "F202r", "F299", "F204", "F200c"}[r.Intn(5)]
		}
		if r.Chance(1, 4) {
			via += "+s"
		}
		in := []string{"TUN", via, fmt.Sprintf("e%d", earlies[r.Intn(len(earlies))]), fmt.Sprintf("b%d", banners[r.Intn(len(banners))])}
		np := r.Range(1, 4)
		for i := 0; i < np; i++ {
			in = append(in, "c"+maybeWrites(r, big, 3, 4)+"/t"+maybeWrites(r, big, 3, 4))
		}
		if r.Chance(1, 8) {
			// the target goes away, the client stays and keeps writing
			in = append(in, "c/t", "c/t"+[]string{"f", "a"}[r.Intn(2)], []string{"Pq", "Pr"}[r.Intn(2)])
		} else {
			in = append(in, ending(r, big)...)
		}
		add("rnd", in)
	}

	// 4. bulk: up to 4 MiB each way at once, various chunkings
	type bulk struct{ c, t string }
	bulks := []bulk{
		{"65536x16", "65536x16"},
		{"4097x256", "1000x1000"},
		{"1048576", "1x3000~0"},
	}
	if cfg.Thorough() {
		bulks = append(bulks,
			bulk{"65536x64", "65536x64"}, bulk{"4194304", "4194304"}, bulk{"4095x1024", "4097x1023"},
			bulk{"1x20000", "1048576x4"}, bulk{"32768x128", ""}, bulk{"", "32768x128"},
			bulk{"1000000x4", "999999x4"}, bulk{"100x40000", "7x100000"})
	}
	for i, b := range bulks {
		v := vias[i%3]
		e := []int{0, 10, 4060}[i%3]
		add("bulk", []string{"TUN", v, fmt.Sprintf("e%d", e), "b0", "c" + b.c + "/t" + b.t, "c100h/t", "c/t100h"})
	}
	return cases
}
