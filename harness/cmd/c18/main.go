// c18 drives the real trafficshape package (and the proxy on a shaped
// listener) and records what reached the client side.
//
// Configuration tokens (one POST body), shared by all case kinds:
//
//	D:<up>:<down>:<latency>          "default" object (absent: no default)
//	S:<regexhex>:<max_global_bw>     starts a shape
//	T:<byteshex>:<bandwidth>         throttle of the current shape
//	H:<byte>:<duration>:<count>      halt
//	C:<byte>:<count>                 close_connection
//	J:<hex>                          raw request body instead (malformed stream)
//
// Case kinds (first IN token):
//
//	U cfg* | script*     unit: Listener + handler + GetTrafficShapedConn over a recording conn
//	   a<c> accept conn c; o<c>:<shape>:<rs>:<hl> set the write context exactly as proxy.go 531-568
//	   (shape = index of the S token whose regex is used); n<c> unshaped context; w<c>:<hex> Write;
//	   P re-POST the configuration; x<c> Close
//	L (P{ cfg* } | a | x<id> | v<id>:<regexhex> | q)*   handler/listener history with goroutine accounting
//	I cfg* | u:<urlhex> rs:<n> len:<n> b:<seed> ch:<0|1>   proxy on a shaped listener, raw client
//	K cfg* | q:<urlhex>:<rs>:<len>:<seed>+   several requests on ONE keep-alive connection through the proxy
//	X cfg* | u:<urlhex> f:<urlhex> d:<ms>   a halt in progress x a configuration POST x an unrelated new connection
//	R cfg* | n:<bytes> c:<conns>     rate: n body bytes through a "0-" throttle; elapsed lower bound
//
// OUT tokens are described next to the code that emits them.
package main

import (
	"bufio"
	"bytes"
	"crypto/tls"
	"errors"
	"encoding/json"
	"fmt"
	"io"
	"math/big"
	"net"
	"net/http"
	"net/http/httptest"
	"net/http/httputil"
	"os"
	"regexp"
	"runtime"
	"sort"
	"strconv"
	"strings"
	"sync"
	"time"

	martian "github.com/google/martian/v3"
	mlog "github.com/google/martian/v3/log"
	"github.com/google/martian/v3/mitm"
	"github.com/google/martian/v3/proxyutil"
	"github.com/google/martian/v3/trafficshape"
	"verifharness/hx"
)

// ---------------------------------------------------------------- config

type shapeTok struct {
	regex string
}

// buildJSON turns configuration tokens into the POST body.  Returns the
// body and the regexes of the S tokens in order.
func buildJSON(toks []string) (string, []string) {
	var regs []string
	type thr struct {
		Bytes     string `json:"bytes"`
		Bandwidth int64  `json:"bandwidth"`
	}
	type halt struct {
		Byte     int64 `json:"byte"`
		Duration int64 `json:"duration"`
		Count    int64 `json:"count"`
	}
	type cls struct {
		Byte  int64 `json:"byte"`
		Count int64 `json:"count"`
	}
	type shape struct {
		URLRegex string `json:"url_regex"`
		Max      int64  `json:"max_global_bandwidth"`
		Thr      []thr  `json:"throttles"`
		Halts    []halt `json:"halts"`
		Closes   []cls  `json:"close_connections"`
	}
	type bw struct {
		Up   int64 `json:"up"`
		Down int64 `json:"down"`
	}
	type def struct {
		Bandwidth bw    `json:"bandwidth"`
		Latency   int64 `json:"latency"`
	}
	type ts struct {
		Default *def     `json:"default,omitempty"`
		Shapes  []*shape `json:"shapes"`
	}
	t := &ts{Shapes: []*shape{}}
	var cur *shape
	atoi := func(s string) int64 { v, _ := strconv.ParseInt(s, 10, 64); return v }
	for _, tok := range toks {
		p := strings.Split(tok, ":")
		switch p[0] {
		case "J":
			return string(hx.MustUnHex(p[1])), nil
		case "D":
			t.Default = &def{Bandwidth: bw{Up: atoi(p[1]), Down: atoi(p[2])}, Latency: atoi(p[3])}
		case "S":
			cur = &shape{URLRegex: string(hx.MustUnHex(p[1])), Max: atoi(p[2])}
			regs = append(regs, cur.URLRegex)
			t.Shapes = append(t.Shapes, cur)
		case "T":
			if cur != nil {
				cur.Thr = append(cur.Thr, thr{Bytes: string(hx.MustUnHex(p[1])), Bandwidth: atoi(p[2])})
			}
		case "H":
			if cur != nil {
				cur.Halts = append(cur.Halts, halt{atoi(p[1]), atoi(p[2]), atoi(p[3])})
			}
		case "C":
			if cur != nil {
				cur.Closes = append(cur.Closes, cls{atoi(p[1]), atoi(p[2])})
			}
		}
	}
	b, _ := json.Marshal(map[string]interface{}{"trafficshape": t})
	return string(b), regs
}

func rxBits(regs []string) string {
	s := "rx"
	for _, r := range regs {
		if _, err := regexp.Compile(r); err == nil {
			s += "1"
		} else {
			s += "0"
		}
	}
	return s
}

func post(h http.Handler, body string) int {
	req, _ := http.NewRequest("POST", "test", bytes.NewBufferString(body))
	rw := httptest.NewRecorder()
	h.ServeHTTP(rw, req)
	return rw.Code
}

func splitBar(toks []string) (a, b []string) {
	for i, t := range toks {
		if t == "|" {
			return toks[:i], toks[i+1:]
		}
	}
	return toks, nil
}

// ------------------------------------------------------- recording conn

type chunk struct {
	n   int
	cap int64
	gap time.Duration
}

// recConn is the inner net.Conn: it keeps every byte written to it, the size
// of each Write call, the pause since the previous observation point and the
// capacity of the context's local write bucket at that moment.
type recConn struct {
	mu     sync.Mutex
	data   []byte
	chunks []chunk
	last   time.Time
	ts     *trafficshape.Conn
	closed bool
	// failing underlying connection: Close returns an error (as a tls.Conn that
	// cannot send close_notify after a reset does), Write fails
	closeErr bool
	writeErr bool
}

func (r *recConn) Write(b []byte) (int, error) {
	if r.writeErr {
		return 0, errors.New("write on a reset connection")
	}
	now := time.Now()
	r.mu.Lock()
	defer r.mu.Unlock()
	if len(b) > 0 {
		var c int64 = -1
		if r.ts != nil && r.ts.Context != nil && r.ts.Context.Buckets != nil {
			c = r.ts.Context.Buckets.WriteBucket.Capacity()
		}
		r.chunks = append(r.chunks, chunk{len(b), c, now.Sub(r.last)})
		r.data = append(r.data, b...)
		r.last = time.Now()
	}
	return len(b), nil
}
func (r *recConn) Read(b []byte) (int, error)         { return 0, io.EOF }
func (r *recConn) Close() error {
	r.closed = true
	if r.closeErr {
		return errors.New("close: connection reset by peer")
	}
	return nil
}
func (r *recConn) LocalAddr() net.Addr                { return &net.TCPAddr{} }
func (r *recConn) RemoteAddr() net.Addr               { return &net.TCPAddr{} }
func (r *recConn) SetDeadline(t time.Time) error      { return nil }
func (r *recConn) SetReadDeadline(t time.Time) error  { return nil }
func (r *recConn) SetWriteDeadline(t time.Time) error { return nil }

type nullListener struct{}

func (nullListener) Accept() (net.Conn, error) { select {} }
func (nullListener) Close() error              { return nil }
func (nullListener) Addr() net.Addr            { return &net.TCPAddr{} }

// setContext replicates proxy.go 531-568 for a response whose URL matched
// regex, with range start rs and a dumped head of hl bytes, using the same
// exported methods.
func setContext(c *trafficshape.Conn, regex string, rs, hl int64) {
	c.Context = &trafficshape.Context{}
	buckets, ok := c.LocalBuckets[regex]
	if !ok {
		return // the proxy loop ranges over LocalBuckets: nothing to match
	}
	if rs > -1 {
		c.Context = &trafficshape.Context{
			Shaping:            true,
			Buckets:            buckets,
			GlobalBucket:       c.GlobalBuckets[regex],
			URLRegex:           regex,
			RangeStart:         rs,
			ByteOffset:         rs,
			HeaderLen:          hl,
			HeaderBytesWritten: 0,
		}
		c.Context.NextActionInfo = c.GetNextActionFromByte(rs)
		c.Context.ThrottleContext = c.GetCurrentThrottle(rs)
		if c.Context.ThrottleContext.ThrottleNow {
			c.Context.Buckets.WriteBucket.SetCapacity(c.Context.ThrottleContext.Bandwidth)
		}
	}
}

func errTok(err error) string {
	if err == nil {
		return "ok"
	}
	if _, ok := err.(*trafficshape.ErrForceClose); ok {
		return "fc"
	}
	return "err"
}

func us(d time.Duration) int64 {
	if d < 0 {
		return 0
	}
	return int64(d / time.Microsecond)
}

// dumpActions canonicalises the active shape map.
func dumpActions(tsl *trafficshape.Listener) string {
	tsl.Shapes.RLock()
	defer tsl.Shapes.RUnlock()
	var keys []string
	for k := range tsl.Shapes.M {
		keys = append(keys, k)
	}
	sort.Strings(keys)
	var parts []string
	for _, k := range keys {
		var as []string
		for _, a := range tsl.Shapes.M[k].Shape.Actions {
			switch v := a.(type) {
			case *trafficshape.Halt:
				as = append(as, fmt.Sprintf("h%d.%d.%d", v.Byte, v.Duration, v.Count))
			case *trafficshape.CloseConnection:
				as = append(as, fmt.Sprintf("c%d.%d", v.Byte, v.Count))
			case *trafficshape.ChangeBandwidth:
				as = append(as, fmt.Sprintf("b%d.%d", v.Byte, v.Bandwidth))
			default:
				as = append(as, "nil")
			}
		}
		var ths []string
		for _, t := range tsl.Shapes.M[k].Shape.Throttles {
			ths = append(ths, fmt.Sprintf("%d.%d.%d", t.ByteStart, t.ByteEnd, t.Bandwidth))
		}
		parts = append(parts, hx.HexS(k)+"="+strings.Join(as, ";")+"/"+strings.Join(ths, ";")+
			"/"+strconv.FormatInt(tsl.Shapes.M[k].Shape.MaxBandwidth, 10))
	}
	if len(parts) == 0 {
		return "M-"
	}
	return "M" + strings.Join(parts, ",")
}

// ------------------------------------------------------------------ U

func runUnit(in []string) (out []string) {
	defer func() {
		if r := recover(); r != nil {
			out = append(out, "PANIC")
		}
	}()
	cfgToks, script := splitBar(in)
	body, regs := buildJSON(cfgToks)
	tsl := trafficshape.NewListener(nullListener{})
	defer tsl.Close()
	h := trafficshape.NewHandler(tsl)
	out = append(out, fmt.Sprintf("st%d", post(h, body)), rxBits(regs))
	conns := map[string]*trafficshape.Conn{}
	recs := map[string]*recConn{}
	defer func() {
		for _, c := range conns {
			c.Close()
		}
	}()
	for _, tok := range script {
		switch tok[0] {
		case 'a':
			id := tok[1:]
			rc := &recConn{last: time.Now()}
			c := tsl.GetTrafficShapedConn(rc)
			rc.ts = c
			conns[id], recs[id] = c, rc
			out = append(out, "a")
		case 'o':
			p := strings.Split(tok[1:], ":")
			c := conns[p[0]]
			si, _ := strconv.Atoi(p[1])
			rs, _ := strconv.ParseInt(p[2], 10, 64)
			hl, _ := strconv.ParseInt(p[3], 10, 64)
			setContext(c, regs[si], rs, hl)
			capv := int64(-1)
			if c.Context.Buckets != nil {
				capv = c.Context.Buckets.WriteBucket.Capacity()
			}
			na := "n-"
			if c.Context.NextActionInfo != nil && c.Context.NextActionInfo.ActionNext {
				na = fmt.Sprintf("n%d.%d", c.Context.NextActionInfo.Index, c.Context.NextActionInfo.ByteOffset)
			}
			sh := 0
			if c.Context.Shaping {
				sh = 1
			}
			out = append(out, fmt.Sprintf("o%d:%d:%s", sh, capv, na))
		case 'n':
			conns[tok[1:]].Context = &trafficshape.Context{}
			out = append(out, "n")
		case 'w':
			p := strings.SplitN(tok[1:], ":", 2)
			c, rc := conns[p[0]], recs[p[0]]
			b := hx.MustUnHex(p[1])
			rc.mu.Lock()
			rc.chunks, rc.data, rc.last = nil, nil, time.Now()
			rc.mu.Unlock()
			n, err := c.Write(b)
			end := time.Now()
			rc.mu.Lock()
			var cs []string
			for _, ch := range rc.chunks {
				cs = append(cs, fmt.Sprintf("%d.%d.%d", ch.n, ch.cap, us(ch.gap)))
			}
			if len(cs) == 0 {
				cs = []string{"-"}
			}
			out = append(out, fmt.Sprintf("r%d:%s:%s:%d:%s", n, errTok(err), strings.Join(cs, ","), us(end.Sub(rc.last)), hx.Hex(rc.data)))
			rc.mu.Unlock()
		case 'P':
			out = append(out, fmt.Sprintf("st%d", post(h, body)))
		case 'x':
			conns[tok[1:]].Close()
			out = append(out, "x")
		default:
			out = append(out, "badtok")
		}
	}
	out = append(out, dumpActions(tsl))
	return out
}

// ------------------------------------------------------------------ L

func settle() int {
	// goroutines started by `go` are counted at once; exits are asynchronous
	prev := runtime.NumGoroutine()
	stable := 0
	for i := 0; i < 400 && stable < 6; i++ {
		time.Sleep(500 * time.Microsecond)
		runtime.Gosched()
		n := runtime.NumGoroutine()
		if n == prev {
			stable++
		} else {
			stable, prev = 0, n
		}
	}
	return prev
}

func runListener(in []string) (out []string) {
	defer func() {
		if r := recover(); r != nil {
			out = append(out, "PANIC")
		}
	}()
	tsl := trafficshape.NewListener(nullListener{})
	defer tsl.Close()
	h := trafficshape.NewHandler(tsl)
	conns := map[int]*trafficshape.Conn{}
	next := 0
	connDelta := 0
	rejLeak := 0
	for i := 0; i < len(in); i++ {
		tok := in[i]
		switch {
		case tok == "P{":
			j := i + 1
			for j < len(in) && in[j] != "}" {
				j++
			}
			body, regs := buildJSON(in[i+1 : j])
			i = j
			g0 := settle()
			code := post(h, body)
			g1 := settle()
			if code != 200 {
				rejLeak += g1 - g0
			}
			out = append(out, fmt.Sprintf("st%d:%s:l%d:u%d:d%d", code, rxBits(regs), tsl.Latency()/time.Millisecond,
				tsl.WriteBucket.Capacity(), tsl.ReadBucket.Capacity()))
		case tok == "a" || tok == "A" || tok == "E":
			g0 := settle()
			// A: the inner Close returns an error; E: Close errors and Write fails
			c := tsl.GetTrafficShapedConn(&recConn{last: time.Now(), closeErr: tok != "a", writeErr: tok == "E"})
			conns[next] = c
			connDelta += settle() - g0
			out = append(out, fmt.Sprintf("c%d", next))
			next++
		case tok[0] == 'x':
			id, _ := strconv.Atoi(tok[1:])
			if c, ok := conns[id]; ok {
				g0 := settle()
				c.Close()
				connDelta += settle() - g0
				delete(conns, id)
			}
			out = append(out, "-")
		case tok[0] == 'w':
			id, _ := strconv.Atoi(tok[1:])
			if c, ok := conns[id]; ok {
				c.Write(make([]byte, 64))
			}
			out = append(out, "w")
		case tok[0] == 'v':
			p := strings.SplitN(tok[1:], ":", 2)
			id, _ := strconv.Atoi(p[0])
			c, ok := conns[id]
			if !ok {
				out = append(out, "v-")
				break
			}
			c.Shapes.RLock()
			v := c.CheckExistenceAndValidity(string(hx.MustUnHex(p[1])))
			c.Shapes.RUnlock()
			if v {
				out = append(out, fmt.Sprintf("v1:%d:%d", len(c.LocalBuckets), c.WriteBucket.Capacity()))
			} else {
				out = append(out, fmt.Sprintf("v0:%d:%d", len(c.LocalBuckets), c.WriteBucket.Capacity()))
			}
		case tok == "q":
			out = append(out, dumpActions(tsl))
		default:
			out = append(out, "badtok")
		}
	}
	out = append(out, fmt.Sprintf("leak%d", connDelta), fmt.Sprintf("rejleak%d", rejLeak))
	for _, c := range conns {
		c.Close()
	}
	return out
}

// ------------------------------------------------------------------ I

func bodyBytes(seed uint64, n int) []byte {
	r := hx.NewRNG(seed ^ 0xc18)
	b := make([]byte, n)
	for i := range b {
		b[i] = byte('a' + r.Intn(26))
	}
	return b
}

type originRT struct {
	total   []byte
	chunked bool
	// framing of the response handed to the proxy: 0 Content-Length, 1 chunked,
	// 2 unknown length (ContentLength -1, identity: ends with the connection),
	// 3 ContentLength 0 with a non-empty body (what proxyutil.NewResponse(code, body, req) builds)
	framing int
	// virtual resource: a Range request "bytes=<start>-" is answered 206 with exactly
	// the bytes of total and "Content-Range: bytes <start>-<start+len-1>/<tot>"
	// (start may be any int64 magnitude; tot a number or "*"); cr, when set, is sent
	// as the Content-Range verbatim (malformed values)
	virt  bool
	start string
	tot   string
	cr    string
	sent  string // the Content-Range that was sent
}

func (o *originRT) RoundTrip(req *http.Request) (*http.Response, error) {
	res := &http.Response{
		StatusCode: 200, Proto: "HTTP/1.1", ProtoMajor: 1, ProtoMinor: 1,
		Header: http.Header{"Content-Type": {"application/octet-stream"}}, Request: req,
	}
	body := o.total
	if o.virt {
		res.StatusCode = 206
		st, _ := new(big.Int).SetString(o.start, 10)
		end := new(big.Int).Add(st, big.NewInt(int64(len(body))-1))
		tot := o.tot
		if tot == "" {
			tot = new(big.Int).Add(end, big.NewInt(1+1000)).String()
		}
		cr := fmt.Sprintf("bytes %s-%s/%s", st.String(), end.String(), tot)
		if o.cr != "" {
			cr = o.cr
		}
		res.Header.Set("Content-Range", cr)
		o.sent = cr
	} else if rg := req.Header.Get("Range"); rg != "" {
		var s int
		if _, err := fmt.Sscanf(rg, "bytes=%d-", &s); err == nil && s >= 0 && s < len(o.total) {
			body = o.total[s:]
			res.StatusCode = 206
			res.Header.Set("Content-Range", fmt.Sprintf("bytes %d-%d/%d", s, len(o.total)-1, len(o.total)))
		}
	}
	res.Status = fmt.Sprintf("%d %s", res.StatusCode, http.StatusText(res.StatusCode))
	res.Body = io.NopCloser(bytes.NewReader(body))
	switch {
	case o.chunked || o.framing == 1:
		res.ContentLength = -1
		res.TransferEncoding = []string{"chunked"}
	case o.framing == 2:
		res.ContentLength = -1
	case o.framing == 3:
		res.ContentLength = 0
	default:
		res.ContentLength = int64(len(body))
	}
	return res, nil
}

func kv(toks []string) map[string]string {
	m := map[string]string{}
	for _, t := range toks {
		p := strings.SplitN(t, ":", 2)
		if len(p) == 2 {
			m[p[0]] = p[1]
		}
	}
	return m
}

func runIntegration(in []string) (out []string) {
	defer func() {
		if r := recover(); r != nil {
			out = append(out, "PANIC")
		}
	}()
	cfgToks, rest := splitBar(in)
	p := kv(rest)
	body, regs := buildJSON(cfgToks)
	url := string(hx.MustUnHex(p["u"]))
	rs, _ := strconv.Atoi(p["rs"])
	n, _ := strconv.Atoi(p["len"])
	seed, _ := strconv.ParseUint(p["b"], 10, 64)

	l, err := net.Listen("tcp", "127.0.0.1:0")
	if err != nil {
		return []string{"listen-failed"}
	}
	tsl := trafficshape.NewListener(l)
	h := trafficshape.NewHandler(tsl)
	code := post(h, body)
	out = append(out, fmt.Sprintf("st%d", code), rxBits(regs))
	m := "m"
	for _, r := range regs {
		if ok, _ := regexp.MatchString(r, url); ok {
			m += "1"
		} else {
			m += "0"
		}
	}
	out = append(out, m)

	px := martian.NewProxy()
	framing, _ := strconv.Atoi(p["ch"])
	org := &originRT{total: bodyBytes(seed, n), framing: framing}
	if p["virt"] == "1" {
		org.virt, org.start, org.tot = true, p["rs"], p["tot"]
		if org.tot == "star" {
			org.tot = "*"
		}
		if p["cr"] != "" {
			org.cr = string(hx.MustUnHex(p["cr"]))
		}
	}
	px.SetRoundTripper(org)
	px.SetTimeout(5 * time.Second)
	go px.Serve(tsl)
	defer func() {
		px.Close()
		tsl.Close()
	}()

	conn, err := net.Dial("tcp", l.Addr().String())
	if err != nil {
		return append(out, "dial-failed")
	}
	defer conn.Close()
	req, _ := http.NewRequest("GET", url, nil)
	if p["virt"] == "1" {
		req.Header.Set("Range", "bytes="+p["rs"]+"-")
	} else if rs >= 0 {
		req.Header.Set("Range", fmt.Sprintf("bytes=%d-", rs))
	}
	req.Header.Set("Connection", "close")
	t0 := time.Now()
	if err := req.WriteProxy(conn); err != nil {
		return append(out, "write-failed")
	}
	conn.SetReadDeadline(time.Now().Add(20 * time.Second))
	got, rerr := io.ReadAll(conn)
	el := time.Since(t0)
	eof := "eof"
	if rerr != nil {
		eof = "rderr"
	}
	hl := bytes.Index(got, []byte("\r\n\r\n"))
	if hl >= 0 {
		hl += 4
	}
	// independent parse of the delivered head
	status := 0
	if res, err := http.ReadResponse(bufio.NewReader(bytes.NewReader(got)), req); err == nil {
		status = res.StatusCode
		_ = proxyutil.GetRangeStart
		_ = httputil.DumpResponse
	}
	served := bodyBytes(seed, n)
	if p["virt"] != "1" && rs >= 0 && rs < n {
		served = served[rs:]
	}
	// the Content-Range the origin sent (empty: none), for the model's GetRangeStart
	crSent := org.sent
	if p["virt"] != "1" && rs >= 0 && rs < n {
		crSent = fmt.Sprintf("bytes %d-%d/%d", rs, n-1, n)
	}
	out = append(out, fmt.Sprintf("hs%d", status), fmt.Sprintf("hl%d", hl), eof, fmt.Sprintf("el%d", us(el)), "CR"+hx.HexS(crSent), "B"+hx.Hex(served), hx.Hex(got))
	return out
}


// ------------------------------------------------------------------ K

// teeConn records every byte read from the connection.
type teeConn struct {
	net.Conn
	buf []byte
}

func (t *teeConn) Read(b []byte) (int, error) {
	n, err := t.Conn.Read(b)
	t.buf = append(t.buf, b[:n]...)
	return n, err
}

// runKeepAlive: K cfg* | mode:<plain|connect|mitm> item*
//
//	q:<urlhex>:<rs>:<len>:<seed>   a GET (through the proxy, or inside the MITM'd tunnel)
//	t:<len>:<seed>                 (connect mode) after the blind CONNECT: ask the target for len bytes
//	qz:<urlhex>:<rs>:<len>:<seed>:<n>   GET, read only n bytes of the response, then abort with a TCP reset
//	end:rst                        leave with a TCP reset (SetLinger(0)) instead of a close
//
// One client connection to a martian proxy on a shaped listener; the items are
// run one after the other on that connection.  plain: proxy-form requests;
// connect: q items first, then a blind CONNECT to a local target, then t items
// through the tunnel; mitm: CONNECT, TLS handshake with the proxy's forged
// certificate, q items inside the tunnel.
// OUT: st rx, per q:  m<bits> hs<status> hl<n> ok|cut el<us> B<served hex> <delivered hex>,
// per CONNECT: c<status>, per t: tok|tcut el<us> B<hex> <hex>, "skip" once the
// connection is gone; then gl<goroutines alive after the client closed, relative
// to before it connected> and the final action counts.
func runKeepAlive(in []string) (out []string) {
	defer func() {
		if r := recover(); r != nil {
			out = append(out, "PANIC")
		}
	}()
	cfgToks, items := splitBar(in)
	mode := "plain"
	if len(items) > 0 && strings.HasPrefix(items[0], "mode:") {
		mode = items[0][5:]
		items = items[1:]
	}
	body, regs := buildJSON(cfgToks)
	l, err := net.Listen("tcp", "127.0.0.1:0")
	if err != nil {
		return []string{"listen-failed"}
	}
	tsl := trafficshape.NewListener(l)
	h := trafficshape.NewHandler(tsl)
	out = append(out, fmt.Sprintf("st%d", post(h, body)), rxBits(regs))
	origin := &multiOrigin{}
	px := martian.NewProxy()
	px.SetRoundTripper(origin)
	px.SetTimeout(5 * time.Second)
	if mode == "mitm" {
		mc := mitmConfig()
		if mc == nil {
			return append(out, "listen-failed")
		}
		px.SetMITM(mc)
	}
	var target net.Listener
	if mode == "connect" {
		target, err = net.Listen("tcp", "127.0.0.1:0")
		if err != nil {
			return append(out, "listen-failed")
		}
		go serveTarget(target)
	}
	go px.Serve(tsl)
	defer func() {
		px.Close()
		tsl.Close()
		if target != nil {
			target.Close()
		}
	}()
	time.Sleep(2 * time.Millisecond)
	base := settle()

	raw, err := net.Dial("tcp", l.Addr().String())
	if err != nil {
		return append(out, "dial-failed")
	}
	var cur net.Conn = raw // what requests are written to / responses read from
	tc := &teeConn{Conn: cur}
	br := bufio.NewReader(tc)
	dead := false
	tunnel := false
	reset := false

	connect := func(hostport string) string {
		req, _ := http.NewRequest("CONNECT", "//"+hostport, nil)
		req.Host = hostport
		if err := req.Write(raw); err != nil {
			dead = true
			return "c0"
		}
		raw.SetReadDeadline(time.Now().Add(10 * time.Second))
		res, err := http.ReadResponse(br, req)
		if err != nil {
			dead = true
			return "c0"
		}
		return fmt.Sprintf("c%d", res.StatusCode)
	}

	if mode == "mitm" {
		st := connect("example:443")
		out = append(out, st)
		if st == "c200" {
			tconn := tls.Client(raw, &tls.Config{InsecureSkipVerify: true, ServerName: "example", NextProtos: []string{"http/1.1"}})
			raw.SetDeadline(time.Now().Add(10 * time.Second))
			if err := tconn.Handshake(); err != nil {
				dead = true
				out = append(out, "handshake-failed")
			}
			raw.SetDeadline(time.Time{})
			cur = tconn
			tc = &teeConn{Conn: cur}
			br = bufio.NewReader(tc)
		} else {
			dead = true
		}
	}

	for _, it := range items {
		p := strings.Split(it, ":")
		switch {
		case p[0] == "q" && len(p) == 5:
			if dead {
				out = append(out, "skip")
				continue
			}
			url := string(hx.MustUnHex(p[1]))
			rs, _ := strconv.Atoi(p[2])
			n, _ := strconv.Atoi(p[3])
			seed, _ := strconv.ParseUint(p[4], 10, 64)
			total := bodyBytes(seed, n)
			origin.mu.Lock()
			origin.cur = total
			origin.mu.Unlock()
			m := "m"
			for _, r := range regs {
				if ok, _ := regexp.MatchString(r, url); ok {
					m += "1"
				} else {
					m += "0"
				}
			}
			req, _ := http.NewRequest("GET", url, nil)
			if rs >= 0 {
				req.Header.Set("Range", fmt.Sprintf("bytes=%d-", rs))
			}
			mark := len(tc.buf)
			t0 := time.Now()
			if mode == "mitm" {
				err = req.Write(cur)
			} else {
				err = req.WriteProxy(cur)
			}
			if err != nil {
				out = append(out, "skip")
				dead = true
				continue
			}
			raw.SetReadDeadline(time.Now().Add(15 * time.Second))
			state := "ok"
			status := 0
			res, err := http.ReadResponse(br, req)
			if err != nil {
				state = "cut"
			} else {
				status = res.StatusCode
				if _, err := io.ReadAll(res.Body); err != nil {
					state = "cut"
				}
				res.Body.Close()
			}
			el := time.Since(t0)
			got := append([]byte(nil), tc.buf[mark:]...)
			if state == "cut" {
				dead = true
			}
			hl := bytes.Index(got, []byte("\r\n\r\n"))
			if hl >= 0 {
				hl += 4
			}
			served := total
			if rs >= 0 && rs < n {
				served = total[rs:]
			}
			out = append(out, m, fmt.Sprintf("hs%d", status), fmt.Sprintf("hl%d", hl), state, fmt.Sprintf("el%d", us(el)),
				"B"+hx.Hex(served), hx.Hex(got))
		case p[0] == "t" && len(p) == 3:
			if dead {
				out = append(out, "skip")
				continue
			}
			if !tunnel {
				st := connect(target.Addr().String())
				out = append(out, st)
				if st != "c200" {
					dead = true
					out = append(out, "skip")
					continue
				}
				tunnel = true
			}
			n, _ := strconv.Atoi(p[1])
			seed, _ := strconv.ParseUint(p[2], 10, 64)
			want := bodyBytes(seed, n)
			t0 := time.Now()
			fmt.Fprintf(raw, "%d %d\n", n, seed)
			raw.SetReadDeadline(time.Now().Add(10 * time.Second))
			got := make([]byte, n)
			k, err := io.ReadFull(br, got)
			state := "tok"
			if err != nil {
				state = "tcut"
				dead = true
			}
			out = append(out, state, fmt.Sprintf("el%d", us(time.Since(t0))), "B"+hx.Hex(want), hx.Hex(got[:k]))
		case p[0] == "qz" && len(p) == 6:
			// request, read only p[5] bytes of the response, then abort with a TCP reset
			if dead {
				out = append(out, "skip")
				continue
			}
			url := string(hx.MustUnHex(p[1]))
			rs, _ := strconv.Atoi(p[2])
			n, _ := strconv.Atoi(p[3])
			seed, _ := strconv.ParseUint(p[4], 10, 64)
			rd, _ := strconv.Atoi(p[5])
			origin.mu.Lock()
			origin.cur = bodyBytes(seed, n)
			origin.mu.Unlock()
			req, _ := http.NewRequest("GET", url, nil)
			if rs >= 0 {
				req.Header.Set("Range", fmt.Sprintf("bytes=%d-", rs))
			}
			if mode == "mitm" {
				err = req.Write(cur)
			} else {
				err = req.WriteProxy(cur)
			}
			raw.SetReadDeadline(time.Now().Add(5 * time.Second))
			k, _ := io.ReadFull(br, make([]byte, rd))
			out = append(out, fmt.Sprintf("z%d", k))
			reset = true
			dead = true
		case it == "end:rst":
			reset = true
		default:
			out = append(out, "badtok")
		}
	}
	if reset {
		// the client leaves with a TCP reset: no close_notify, no FIN
		if t, ok := raw.(*net.TCPConn); ok {
			t.SetLinger(0)
		}
		raw.Close()
	} else {
		cur.Close()
		raw.Close()
	}
	// everything created for that connection has to go away
	left := 0
	for i := 0; i < 40; i++ {
		left = settle() - base
		if left <= 0 {
			break
		}
		time.Sleep(10 * time.Millisecond)
	}
	out = append(out, fmt.Sprintf("gl%d", left), dumpActions(tsl))
	return out
}

var (
	mitmOnce sync.Once
	mitmCfg  *mitm.Config
)

func mitmConfig() *mitm.Config {
	mitmOnce.Do(func() {
		ca, priv, err := mitm.NewAuthority("martian.proxy", "Martian Authority", time.Hour)
		if err != nil {
			return
		}
		mc, err := mitm.NewConfig(ca, priv)
		if err != nil {
			return
		}
		mitmCfg = mc
	})
	return mitmCfg
}

// serveTarget: the CONNECT target.  Per connection: lines "<len> <seed>\n", each
// answered with bodyBytes(seed, len).
func serveTarget(l net.Listener) {
	for {
		c, err := l.Accept()
		if err != nil {
			return
		}
		go func(c net.Conn) {
			defer c.Close()
			br := bufio.NewReader(c)
			for {
				line, err := br.ReadString('\n')
				if err != nil {
					return
				}
				var n int
				var seed uint64
				if _, err := fmt.Sscanf(line, "%d %d", &n, &seed); err != nil {
					return
				}
				if _, err := c.Write(bodyBytes(seed, n)); err != nil {
					return
				}
			}
		}(c)
	}
}

type multiOrigin struct {
	mu  sync.Mutex
	cur []byte
}

func (o *multiOrigin) RoundTrip(req *http.Request) (*http.Response, error) {
	o.mu.Lock()
	total := o.cur
	o.mu.Unlock()
	return (&originRT{total: total}).RoundTrip(req)
}

// ------------------------------------------------------------------ X

// runHaltInterleave: X cfg* | u:<matching url hex> f:<other url hex> d:<halt ms>
// A halt in progress on one connection x a configuration POST during it x an unrelated
// exchange on a NEW connection during it.  Connection A asks for the matching URL (the
// configuration has a halt of d ms near the start of the body); 150 ms later, while A
// sits in its halt, the same configuration is POSTed to the handler and, 30 ms after
// that, connection B is opened and asks for a URL that matches no shape.
// OUT: st rx, post<us>:<code>, fast<us>:<ok|err>:<bytes>, a<ok|err>:<bytes> (A's whole response).
func runHaltInterleave(in []string) (out []string) {
	defer func() {
		if r := recover(); r != nil {
			out = append(out, "PANIC")
		}
	}()
	cfgToks, rest := splitBar(in)
	p := kv(rest)
	body, regs := buildJSON(cfgToks)
	l, err := net.Listen("tcp", "127.0.0.1:0")
	if err != nil {
		return []string{"listen-failed"}
	}
	tsl := trafficshape.NewListener(l)
	h := trafficshape.NewHandler(tsl)
	out = append(out, fmt.Sprintf("st%d", post(h, body)), rxBits(regs))
	px := martian.NewProxy()
	px.SetRoundTripper(&originRT{total: bodyBytes(7, 300)})
	px.SetTimeout(10 * time.Second)
	go px.Serve(tsl)
	defer func() {
		px.Close()
		tsl.Close()
	}()
	get := func(url string) (int, error) {
		c, err := net.Dial("tcp", l.Addr().String())
		if err != nil {
			return 0, err
		}
		defer c.Close()
		req, _ := http.NewRequest("GET", url, nil)
		req.Header.Set("Connection", "close")
		if err := req.WriteProxy(c); err != nil {
			return 0, err
		}
		c.SetReadDeadline(time.Now().Add(8 * time.Second))
		b, err := io.ReadAll(c)
		return len(b), err
	}
	type res struct {
		n   int
		err error
		el  time.Duration
	}
	ac := make(chan res, 1)
	go func() {
		t0 := time.Now()
		n, err := get(string(hx.MustUnHex(p["u"])))
		ac <- res{n, err, time.Since(t0)}
	}()
	time.Sleep(150 * time.Millisecond) // A is in its halt now
	pc := make(chan res, 1)
	go func() {
		t0 := time.Now()
		code := post(h, body)
		pc <- res{code, nil, time.Since(t0)}
	}()
	time.Sleep(30 * time.Millisecond)
	t0 := time.Now()
	fn, ferr := get(string(hx.MustUnHex(p["f"])))
	fel := time.Since(t0)
	pr := <-pc
	ar := <-ac
	out = append(out, fmt.Sprintf("post%d:%d", us(pr.el), pr.n), fmt.Sprintf("fast%d:%s:%d", us(fel), errTok(ferr), fn),
		fmt.Sprintf("a%d:%s:%d", us(ar.el), errTok(ar.err), ar.n))
	return out
}

// ------------------------------------------------------------------ R

// runRate pushes n body bytes through the shaped Write path under a throttle
// and reports the elapsed time; c connections run concurrently sharing the
// shape (its global bucket and its action list) but each with its own local
// buckets.  rep:<k> repeats the concurrent start k times (a stress of the
// start-of-response / action-time locking; use a small n so that nothing waits
// for a drain).  A round that does not finish within 10 s is reported as HANG
// (the stuck goroutines are abandoned).
func runRate(in []string) (out []string) {
	defer func() {
		if r := recover(); r != nil {
			out = append(out, "PANIC")
		}
	}()
	cfgToks, rest := splitBar(in)
	p := kv(rest)
	body, regs := buildJSON(cfgToks)
	n, _ := strconv.Atoi(p["n"])
	nc, _ := strconv.Atoi(p["c"])
	if nc < 1 {
		nc = 1
	}
	rep, _ := strconv.Atoi(p["rep"])
	if rep < 1 {
		rep = 1
	}
	rs, _ := strconv.ParseInt(p["rs"], 10, 64) // range start of the response (absent: 0)
	tsl := trafficshape.NewListener(nullListener{})
	defer tsl.Close()
	h := trafficshape.NewHandler(tsl)
	out = append(out, fmt.Sprintf("st%d", post(h, body)), rxBits(regs))
	var res []string
	for round := 0; round < rep; round++ {
		res = make([]string, nc)
		done := make(chan struct{})
		var wg sync.WaitGroup
		for i := 0; i < nc; i++ {
			wg.Add(1)
			go func(i int) {
				defer wg.Done()
				rc := &recConn{last: time.Now()}
				c := tsl.GetTrafficShapedConn(rc)
				rc.ts = c
				defer c.Close()
				setContext(c, regs[0], rs, 0)
				data := bodyBytes(uint64(i), n)
				t0 := time.Now()
				w, err := c.Write(data)
				el := time.Since(t0)
				maxc := 0
				rc.mu.Lock()
				for _, ch := range rc.chunks {
					if ch.n > maxc {
						maxc = ch.n
					}
				}
				same := 0
				if bytes.Equal(rc.data, data) {
					same = 1
				}
				rc.mu.Unlock()
				res[i] = fmt.Sprintf("r%d:%s:el%d:mx%d:same%d", w, errTok(err), us(el), maxc, same)
			}(i)
		}
		go func() { wg.Wait(); close(done) }()
		select {
		case <-done:
		case <-time.After(10 * time.Second):
			return append(out, fmt.Sprintf("HANG%d", round))
		}
		for _, r := range res {
			if !strings.HasSuffix(r, "same1") || !strings.Contains(r, ":ok:") {
				return append(out, res...)
			}
		}
	}
	return append(out, res...)
}

func runCase(in []string) []string {
	if len(in) == 0 {
		return []string{"empty"}
	}
	switch in[0] {
	case "U":
		return runUnit(in[1:])
	case "L":
		return runListener(in[1:])
	case "I":
		return runIntegration(in[1:])
	case "R":
		return runRate(in[1:])
	case "K":
		return runKeepAlive(in[1:])
	case "X":
		return runHaltInterleave(in[1:])
	}
	return []string{"badkind"}
}

func main() {
	mlog.SetLevel(mlog.Silent)
	cfg := hx.ParseFlags()
	defer cfg.Close()
	n := 0
	trace := os.Getenv("VERIF_C18_TRACE") != ""
	emit := func(kind string, in []string) {
		n++
		if trace {
			fmt.Fprintf(os.Stderr, "start %s%d %s\n", kind, n, strings.Join(in, " "))
		}
		cfg.Emit(hx.Case{Name: fmt.Sprintf("%s%d", kind, n), In: in, Out: runCase(in)})
		cfg.Count("kind=" + in[0])
	}
	pre, replayOnly := cfg.Inputs()
	for _, c := range pre {
		cfg.Emit(hx.Case{Name: c.Name, In: c.In, Out: runCase(c.In)})
	}
	if replayOnly {
		return
	}
	generate(cfg, emit)
}
