package main

import (
	"fmt"
	"math/big"
	"os"
	"time"
	"strings"
	"sync"

	"verifharness/hx"
)

const rxA = "http://example/a.*"
const rxB = "http://example/b"

func i64(v int64) string { return fmt.Sprintf("%d", v) }

// genShape makes the tokens of one (mostly valid) shape over offsets in [0,span).
func genShape(r *hx.RNG, regex string, span int, bad int) []string {
	maxbw := int64(0)
	if r.Chance(1, 3) {
		maxbw = int64(r.Range(1000000, 9000000))
	}
	toks := []string{"S:" + hx.HexS(regex) + ":" + i64(maxbw)}
	// disjoint throttles, generated sorted then shuffled
	nt := r.Intn(4)
	pos := r.Intn(span/4 + 1)
	var thr []string
	for i := 0; i < nt && pos < span; i++ {
		st := pos
		en := st + 1 + r.Intn(span/3+1)
		bw := int64(r.Range(1000000, 5000000)) // never limiting: no drain waits in unit cases
		if i == nt-1 && r.Chance(1, 3) {
			thr = append(thr, fmt.Sprintf("T:%s:%d", hx.HexS(fmt.Sprintf("%d-", st)), bw))
			break
		}
		s := fmt.Sprintf("%d-%d", st, en)
		if st == 0 && r.Chance(1, 2) {
			s = fmt.Sprintf("-%d", en)
		}
		thr = append(thr, fmt.Sprintf("T:%s:%d", hx.HexS(s), bw))
		pos = en
		if !r.Chance(1, 3) { // adjacent throttles share the boundary
			pos += r.Intn(span/4 + 1)
		}
	}
	for i := len(thr) - 1; i > 0; i-- {
		j := r.Intn(i + 1)
		thr[i], thr[j] = thr[j], thr[i]
	}
	toks = append(toks, thr...)
	nh := r.Intn(4)
	for i := 0; i < nh; i++ {
		cnt := int64(r.Range(1, 2))
		if r.Chance(1, 5) {
			cnt = -1
		}
		toks = append(toks, fmt.Sprintf("H:%d:%d:%d", r.Intn(span), r.Range(1, 3), cnt))
	}
	nc := 0
	if r.Chance(2, 3) {
		nc = r.Range(1, 2)
	}
	for i := 0; i < nc; i++ {
		cnt := int64(r.Range(1, 2))
		if r.Chance(1, 6) {
			cnt = -1
		}
		toks = append(toks, fmt.Sprintf("C:%d:%d", r.Intn(span), cnt))
	}
	if bad > 0 {
		toks = append(toks, badToken(r, span)...)
	}
	return toks
}

// badToken returns tokens that make the enclosing shape invalid (or are
// edge cases that stay valid: the model decides).
func badToken(r *hx.RNG, span int) []string {
	switch r.Intn(16) {
	case 0:
		return []string{fmt.Sprintf("T:%s:%d", hx.HexS("10-5"), 1000000)}
	case 1:
		return []string{fmt.Sprintf("T:%s:%d", hx.HexS("7-7"), 1000000)}
	case 2:
		return []string{fmt.Sprintf("T:%s:%d", hx.HexS("5--9"), 1000000)}
	case 3:
		return []string{fmt.Sprintf("T:%s:%d", hx.HexS("abc-9"), 1000000)}
	case 4:
		return []string{fmt.Sprintf("T:%s:%d", hx.HexS("0-50"), 0)}
	case 5:
		return []string{fmt.Sprintf("T:%s:%d", hx.HexS("0-50"), -5)}
	case 6:
		return []string{fmt.Sprintf("H:%d:%d:%d", -1, 2, 1)}
	case 7:
		return []string{fmt.Sprintf("H:%d:%d:%d", 3, -2, 1)}
	case 8:
		return []string{fmt.Sprintf("H:%d:%d:%d", 3, 2, 0)}
	case 9:
		return []string{fmt.Sprintf("C:%d:%d", -4, 1)}
	case 10:
		return []string{fmt.Sprintf("C:%d:%d", 4, 0)}
	case 11: // overlap
		a := r.Intn(span)
		return []string{fmt.Sprintf("T:%s:%d", hx.HexS(fmt.Sprintf("%d-%d", a, a+20)), 1000000),
			fmt.Sprintf("T:%s:%d", hx.HexS(fmt.Sprintf("%d-%d", a+r.Intn(20), a+30)), 1000000)}
	case 12: // open-ended throttle that is not last
		return []string{fmt.Sprintf("T:%s:%d", hx.HexS("1-"), 1000000),
			fmt.Sprintf("T:%s:%d", hx.HexS(fmt.Sprintf("%d-%d", span*2, span*2+5)), 1000000)}
	case 13:
		return []string{fmt.Sprintf("T:%s:%d", hx.HexS("9223372036854775808-"), 1000000)}
	case 14:
		return []string{fmt.Sprintf("T:%s:%d", hx.HexS("+3-+9"), 1000000)} // accepted by ParseInt
	default:
		return []string{fmt.Sprintf("T:%s:%d", hx.HexS("-"), 1000000)} // whole body
	}
}

// regexes used by genCfg (the keep-alive generator switches to scheme-agnostic ones)
var cfgRegs = []string{rxA, rxB, "http://example/c[0-9]+"}

func genCfg(r *hx.RNG, span int, nshapes int, malformed bool) []string {
	var toks []string
	if r.Chance(1, 3) {
		up, down, lat := int64(r.Range(1000000, 2000000)), int64(r.Range(1000000, 2000000)), int64(r.Intn(3))
		if r.Chance(1, 4) {
			up = 0
		}
		if malformed && r.Chance(1, 4) {
			switch r.Intn(3) {
			case 0:
				up = -1
			case 1:
				down = -7
			default:
				lat = -1
			}
			malformed = false
		}
		toks = append(toks, fmt.Sprintf("D:%d:%d:%d", up, down, lat))
	}
	regs := cfgRegs
	badAt := -1
	if malformed {
		badAt = r.Intn(nshapes)
	}
	for i := 0; i < nshapes; i++ {
		rg := regs[i%len(regs)]
		if i >= len(regs) && r.Chance(1, 2) {
			rg = regs[r.Intn(len(regs))] // duplicate key: the later shape replaces the earlier
		}
		b := 0
		if i == badAt {
			b = 1
			switch r.Intn(6) {
			case 0:
				rg = ""
				b = 0
			case 1:
				rg = "http://example/(unclosed"
				b = 0
			}
		}
		sh := genShape(r, rg, span, b)
		if i == badAt && r.Chance(1, 8) {
			sh[0] = "S:" + hx.HexS(rg) + ":-5"
		}
		toks = append(toks, sh...)
	}
	return toks
}

func genUnit(r *hx.RNG, thorough bool) []string {
	span := []int{40, 200, 1200, 6000}[r.Intn(4)]
	cfg := genCfg(r, span, r.Range(1, 2), r.Chance(1, 10))
	in := append([]string{"U"}, cfg...)
	in = append(in, "|")
	nconn := 1
	if r.Chance(1, 4) {
		nconn = 2
	}
	for c := 0; c < nconn; c++ {
		in = append(in, fmt.Sprintf("a%d", c))
	}
	nresp := r.Range(1, 3)
	reposted := false
	for k := 0; k < nresp; k++ {
		c := r.Intn(nconn)
		if r.Chance(1, 10) {
			in = append(in, fmt.Sprintf("n%d", c))
		} else {
			rs := 0
			if r.Chance(1, 2) {
				rs = r.Intn(span)
			}
			if r.Chance(1, 25) {
				rs = -1
			}
			hl := []int{0, 1, 17, 90, 300}[r.Intn(5)]
			in = append(in, fmt.Sprintf("o%d:%d:%d:%d", c, 0, rs, hl))
		}
		nw := r.Range(1, 5)
		for j := 0; j < nw; j++ {
			var n int
			switch r.Intn(6) {
			case 0:
				n = r.Intn(3)
			case 1:
				n = r.Intn(span*2 + 1)
			case 2:
				n = 4096
			default:
				n = r.Intn(span/2 + 2)
			}
			if !reposted && r.Chance(1, 30) {
				in = append(in, "P")
				reposted = true
			}
			cc := c
			if nconn == 2 && r.Chance(1, 4) {
				cc = 1 - c // interleave the other connection (its own context must exist)
				in = append(in, fmt.Sprintf("o%d:%d:%d:%d", cc, 0, r.Intn(span), 5))
			}
			in = append(in, fmt.Sprintf("w%d:%s", cc, hx.Hex(r.Bytes(n))))
		}
	}
	return in
}

func genListener(r *hx.RNG) []string {
	in := []string{"L"}
	open := []int{}
	next := 0
	nops := r.Range(3, 12)
	regs := []string{rxA, rxB, "http://example/c[0-9]+"}
	for k := 0; k < nops; k++ {
		switch x := r.Intn(10); {
		case x < 3:
			in = append(in, "P{")
			if r.Chance(1, 8) {
				raw := []string{`{"trafficshape":`, `{}`, `{"trafficshape":{"shapes":[{"url_regex":"a","halts":[{"byte":"x"}]}]}}`,
					`{"trafficshape":{"shapes":[null]}}`, `{"trafficshape":{"shapes":[{"url_regex":"a","throttles":[null]}]}}`}[r.Intn(5)]
				in = append(in, "J:"+hx.HexS(raw))
			} else {
				in = append(in, genCfg(r, 300, r.Range(0, 4), r.Chance(1, 2))...)
			}
			in = append(in, "}", "q")
			for _, id := range open {
				in = append(in, fmt.Sprintf("v%d:%s", id, hx.HexS(regs[r.Intn(3)])))
			}
		case x < 7:
			acc := []string{"a", "a", "A", "E"}[r.Intn(4)]
			in = append(in, acc, fmt.Sprintf("v%d:%s", next, hx.HexS(regs[r.Intn(3)])))
			if r.Chance(1, 3) {
				in = append(in, fmt.Sprintf("w%d", next))
			}
			open = append(open, next)
			next++
		default:
			if len(open) > 0 {
				j := r.Intn(len(open))
				in = append(in, fmt.Sprintf("x%d", open[j]))
				open = append(open[:j], open[j+1:]...)
			}
		}
	}
	if r.Chance(2, 3) {
		for _, id := range open {
			in = append(in, fmt.Sprintf("x%d", id))
		}
	}
	return in
}

func genIntegration(r *hx.RNG) []string {
	span := []int{60, 500, 5000, 20000}[r.Intn(4)]
	cfg := genCfg(r, span, r.Range(1, 2), false)
	in := append([]string{"I"}, cfg...)
	url := "http://example/a" + fmt.Sprintf("%d", r.Intn(100))
	if r.Chance(1, 4) {
		url = "http://example/zzz" // matches nothing
	}
	rs := -1
	if r.Chance(1, 2) {
		rs = r.Intn(span)
	}
	ln := span + r.Intn(span)
	in = append(in, "|", "u:"+hx.HexS(url), fmt.Sprintf("rs:%d", rs), fmt.Sprintf("len:%d", ln),
		fmt.Sprintf("b:%d", r.Intn(1000000)),
		// framing of the origin's response: Content-Length (mostly), unknown length, ContentLength 0 with a body
		fmt.Sprintf("ch:%d", []int{0, 0, 0, 2, 3}[r.Intn(5)]))
	return in
}

// genKeepAlive: several exchanges on one client connection of a shaped listener,
// in one of three modes: plain proxy requests; plain requests followed by a
// blind CONNECT with transfers through the tunnel; a MITM'd CONNECT tunnel with
// several requests inside.  Matching (shape a or b) and non-matching URLs, with
// and without Range, bodies that end before and after the configured actions.
func genKeepAlive(r *hx.RNG) []string {
	span := []int{60, 400, 3000, 9000}[r.Intn(4)]
	saved := cfgRegs
	cfgRegs = []string{"://example/a.*", "://example/b", "://example/c[0-9]+"}
	cfg := genCfg(r, span, r.Range(1, 2), false)
	cfgRegs = saved
	if r.Chance(1, 2) {
		// make sure something is still armed after a short first response
		cfg = append(cfg, fmt.Sprintf("C:%d:%d", span/2+r.Intn(span/2), r.Range(1, 2)), fmt.Sprintf("H:%d:2:%d", span/3+r.Intn(span/3), r.Range(1, 2)))
	}
	mode := []string{"plain", "plain", "mitm", "mitm", "connect"}[r.Intn(5)]
	in := append([]string{"K"}, cfg...)
	in = append(in, "|", "mode:"+mode)
	scheme := "http"
	if mode == "mitm" {
		scheme = "https"
	}
	nreq := r.Range(2, 5)
	if mode == "connect" {
		nreq = r.Intn(4)
	}
	for k := 0; k < nreq; k++ {
		var url string
		switch x := r.Intn(10); {
		case x < 4:
			url = fmt.Sprintf("%s://example/a%d", scheme, r.Intn(100))
		case x < 6:
			url = fmt.Sprintf("%s://example/b%d", scheme, r.Intn(100))
		default:
			url = fmt.Sprintf("%s://example/zzz%d", scheme, r.Intn(100))
		}
		var ln int
		if r.Chance(1, 2) {
			ln = 1 + r.Intn(span/2+1) // ends before most actions
		} else {
			ln = span/2 + r.Intn(span+span/2)
		}
		rs := -1
		if r.Chance(1, 3) {
			rs = r.Intn(ln)
		}
		in = append(in, fmt.Sprintf("q:%s:%d:%d:%d", hx.HexS(url), rs, ln, r.Intn(1000000)))
	}
	if mode == "connect" {
		nt := r.Range(1, 3)
		for k := 0; k < nt; k++ {
			in = append(in, fmt.Sprintf("t:%d:%d", 1+r.Intn(2*span), r.Intn(1000000)))
		}
	}
	// how the client leaves: close, TCP reset after the last exchange, or reset in the middle of a response
	switch x := r.Intn(10); {
	case x < 3:
		in = append(in, "end:rst")
	case x < 5 && mode != "connect":
		url := fmt.Sprintf("%s://example/a%d", scheme, r.Intn(100))
		if r.Chance(1, 3) {
			url = fmt.Sprintf("%s://example/zzz%d", scheme, r.Intn(100))
		}
		ln := 20000 + r.Intn(200000)
		in = append(in, fmt.Sprintf("qz:%s:-1:%d:%d:%d", hx.HexS(url), ln, r.Intn(1000000), 1+r.Intn(3000)))
	}
	return in
}

// genRate: the bandwidth relation {no global, global < local, global = local,
// global > local} x {one connection, several concurrent connections sharing the
// shape's global bucket}.  Sizes are chosen so that a case waits for one or two
// drains of the limiting bucket (1 s ticker).
func genRate(r *hx.RNG, rel, conc int) []string {
	local := r.Range(300, 1500)
	global := 0
	switch rel {
	case 1:
		global = local/3 + r.Intn(local/3)
	case 2:
		global = local
	case 3:
		global = 2*local + r.Intn(local)
	}
	nc := 1
	if conc > 0 {
		nc = r.Range(3, 8)
	}
	eff := local
	if global > 0 && global < eff {
		eff = global
	}
	var n int
	if nc == 1 {
		k := 1
		if r.Chance(1, 3) {
			k = 2 // two drains: at least one full interval, the timing bound bites
		}
		n = eff*k + 1 + r.Intn(eff)
	} else if global > 0 {
		// together the connections overfill the shared bucket once
		n = global/nc + 1 + r.Intn(global/nc+1)
		if n > 2*local {
			n = 2 * local
		}
	} else {
		n = local + 1 + r.Intn(local)
	}
	start := "0-"
	if r.Chance(1, 2) {
		start = "1-" // the bandwidth is then set by a ChangeBandwidth action, not when the context is set
		n++
	}
	return []string{"R", fmt.Sprintf("S:%s:%d", hx.HexS(rxA), global), fmt.Sprintf("T:%s:%d", hx.HexS(start), local), "|",
		fmt.Sprintf("n:%d", n), fmt.Sprintf("c:%d", nc)}
}

// genRateFinite: the shape's last (or only) throttle has a FINITE end; the response
// starts before, at, or inside the throttle and has more than two intervals' worth
// of bytes inside it, so the minimum-delay oracle bites (>= 1 s).
func genRateFinite(r *hx.RNG, where int) []string {
	bw := r.Range(200, 600)
	a := r.Range(50, 400)
	inside := 2*bw + 1 + r.Intn(bw/2)
	b := a + inside + 1 + r.Intn(200)
	var rs, n int
	switch where {
	case 0: // starts before the throttle
		rs = r.Intn(a)
		n = (a - rs) + inside
	case 1: // starts exactly at its first byte
		rs = a
		n = inside
	default: // starts STRICTLY inside
		rs = a + 1 + r.Intn(b-a-inside)
		n = inside
	}
	toks := []string{"R", fmt.Sprintf("S:%s:0", hx.HexS(rxA))}
	if r.Chance(1, 2) { // an earlier throttle, so that the finite one is the last of several
		toks = append(toks, fmt.Sprintf("T:%s:%d", hx.HexS(fmt.Sprintf("0-%d", a/2)), 5000000))
		if rs < a/2 {
			rs = a / 2
			n = (a - rs) + inside
		}
	}
	toks = append(toks, fmt.Sprintf("T:%s:%d", hx.HexS(fmt.Sprintf("%d-%d", a, b)), bw), "|",
		fmt.Sprintf("n:%d", n), "c:1", fmt.Sprintf("rs:%d", rs))
	return toks
}

// boundary magnitudes of every number that enters the shaping decision
var bigStarts = []string{"0", "1000", "2147483647", "2147483648", "3000000000", "4294967295", "4294967296",
	"1099511627776", "4611686018427387904", "9223372036854774000"}

// genIntegrationBig: a real 206 through proxy.go whose Content-Range start (and with it
// the action offsets and throttle bounds of the shape) has a boundary magnitude; total
// length a number or "*"; malformed Content-Range values.
func genIntegrationBig(r *hx.RNG, k int) []string {
	st := bigStarts[k%len(bigStarts)]
	base, _ := new(big.Int).SetString(st, 10)
	off := func(d int) string { return new(big.Int).Add(base, big.NewInt(int64(d))).String() }
	toks := []string{"I", fmt.Sprintf("S:%s:0", hx.HexS(rxA)),
		fmt.Sprintf("T:%s:%d", hx.HexS(off(10)+"-"+off(300)), 3000000),
		fmt.Sprintf("H:%s:2:1", off(40+r.Intn(40))),
		fmt.Sprintf("C:%s:1", off(100+r.Intn(200)))}
	url := fmt.Sprintf("http://example/a%d", r.Intn(100))
	rest := []string{"|", "u:" + hx.HexS(url), "rs:" + st, "len:500", fmt.Sprintf("b:%d", r.Intn(1000000)), "ch:0", "virt:1"}
	switch x := r.Intn(10); {
	case x < 2:
		rest = append(rest, "tot:star")
	case x < 4:
		bad := []string{"bytes " + st + "-" + off(499), "bytes -" + off(499) + "/" + off(1000), "bytes=" + st + "-" + off(499) + "/" + off(1000),
			st + "-" + off(499) + "/" + off(1000), "bytes 18446744073709551616-18446744073709551700/18446744073709552000", ""}[r.Intn(6)]
		if bad == "" {
			bad = "none"
		}
		rest = append(rest, "cr:"+hx.HexS(bad))
	}
	return append(toks, rest...)
}

// genUnitThrottleEdge: where the range starts relative to a throttle: at its first byte,
// strictly inside, at its last byte, just past its end, one further -- for the last
// finite throttle, a non-last throttle, and an open-ended one (GetCurrentThrottle sets
// the initial bandwidth of such a response).
func genUnitThrottleEdge(r *hx.RNG, k int) []string {
	a1 := r.Range(5, 60)
	b1 := a1 + r.Range(3, 80)
	a2 := b1 + []int{0, 0, r.Range(1, 50)}[r.Intn(3)] // adjacent or with a gap
	b2 := a2 + r.Range(3, 120)
	bw1, bw2 := r.Range(1000000, 4000000), r.Range(4000001, 9000000)
	toks := []string{"U", fmt.Sprintf("S:%s:%d", hx.HexS(rxA), []int{0, 9500000}[r.Intn(2)])}
	var ta, tb int
	switch k % 3 {
	case 0: // the last throttle, finite end
		toks = append(toks, fmt.Sprintf("T:%s:%d", hx.HexS(fmt.Sprintf("%d-%d", a1, b1)), bw1), fmt.Sprintf("T:%s:%d", hx.HexS(fmt.Sprintf("%d-%d", a2, b2)), bw2))
		ta, tb = a2, b2
	case 1: // a throttle that is not the last
		toks = append(toks, fmt.Sprintf("T:%s:%d", hx.HexS(fmt.Sprintf("%d-%d", a2, b2)), bw2), fmt.Sprintf("T:%s:%d", hx.HexS(fmt.Sprintf("%d-%d", a1, b1)), bw1))
		ta, tb = a1, b1
	default: // the last throttle, open ended
		toks = append(toks, fmt.Sprintf("T:%s:%d", hx.HexS(fmt.Sprintf("%d-%d", a1, b1)), bw1), fmt.Sprintf("T:%s:%d", hx.HexS(fmt.Sprintf("%d-", a2)), bw2))
		ta, tb = a2, a2+r.Range(3, 120)
	}
	if k%4 == 0 { // the only throttle
		toks = []string{toks[0], toks[1], fmt.Sprintf("T:%s:%d", hx.HexS(fmt.Sprintf("%d-%d", a2, b2)), bw2)}
		ta, tb = a2, b2
	}
	rs := []int{ta, ta + 1 + r.Intn(tb-ta-1), tb - 1, tb, tb + 1, ta - 1}[(k/3)%6]
	toks = append(toks, fmt.Sprintf("H:%d:1:1", rs+r.Intn(20)), "|", "a0", fmt.Sprintf("o0:0:%d:%d", rs, []int{0, 7, 40}[r.Intn(3)]))
	for j := 0; j < 2; j++ {
		toks = append(toks, fmt.Sprintf("w0:%s", hx.Hex(r.Bytes(r.Range(1, 150)))))
	}
	return toks
}

// genIntegrationEdgeSlow: a real Range response through the proxy that starts STRICTLY inside
// the last (finite) throttle, with more than two intervals' worth of bytes inside it.
func genIntegrationEdgeSlow(r *hx.RNG) []string {
	bw := r.Range(200, 400)
	a := r.Range(50, 200)
	inside := 2*bw + 1 + r.Intn(bw/2)
	rs := a + 1 + r.Intn(100)
	b := rs + inside + r.Intn(100)
	ln := b + r.Intn(50) // total resource length; the response is [rs, ln)
	url := fmt.Sprintf("http://example/a%d", r.Intn(100))
	return []string{"I", fmt.Sprintf("S:%s:0", hx.HexS(rxA)), fmt.Sprintf("T:%s:%d", hx.HexS(fmt.Sprintf("%d-%d", a, b)), bw), "|",
		"u:" + hx.HexS(url), fmt.Sprintf("rs:%d", rs), fmt.Sprintf("len:%d", ln), fmt.Sprintf("b:%d", r.Intn(1000000)), "ch:0"}
}

// genIntegrationSlow: proxy on a shaped listener, the shape's global bucket is
// smaller than the throttle the response is in (or there is none): the body has
// to wait for a drain and must still arrive complete.
func genIntegrationSlow(r *hx.RNG, rel int) []string {
	local := r.Range(600, 1200)
	global := 0
	switch rel {
	case 1:
		global = local/4 + r.Intn(local/4)
	case 2:
		global = local
	case 3:
		global = 2 * local
	}
	eff := local
	if global > 0 && global < eff {
		eff = global
	}
	ln := eff + 1 + r.Intn(eff/2)
	url := fmt.Sprintf("http://example/a%d", r.Intn(100))
	return []string{"I", fmt.Sprintf("S:%s:%d", hx.HexS(rxA), global), fmt.Sprintf("T:%s:%d", hx.HexS("0-"), local), "|",
		"u:" + hx.HexS(url), "rs:-1", fmt.Sprintf("len:%d", ln), fmt.Sprintf("b:%d", r.Intn(1000000)), "ch:0"}
}

// slow unit case: a throttle small enough to limit chunks (each limited chunk waits for a drain)
func genSlowUnit(r *hx.RNG) []string {
	if r.Chance(1, 2) {
		return genSlowUnitGlobal(r)
	}
	bw := r.Range(50, 400)
	st := r.Intn(100)
	in := []string{"U", "S:" + hx.HexS(rxA) + ":0",
		fmt.Sprintf("T:%s:%d", hx.HexS(fmt.Sprintf("%d-%d", st, st+bw+r.Intn(bw))), bw),
		fmt.Sprintf("H:%d:2:1", st+r.Intn(bw)), fmt.Sprintf("C:%d:1", st+bw+bw+50), "|", "a0",
		fmt.Sprintf("o0:0:%d:%d", r.Intn(st+1), r.Intn(50))}
	for j := 0; j < 3; j++ {
		in = append(in, fmt.Sprintf("w0:%s", hx.Hex(r.Bytes(r.Range(bw/2, bw+100)))))
	}
	return in
}

// slow unit case with the shape's global bucket smaller than the throttle: the
// chunks are limited by the global grant
func genSlowUnitGlobal(r *hx.RNG) []string {
	bw := r.Range(200, 600)
	g := bw/3 + r.Intn(bw/3)
	in := []string{"U", fmt.Sprintf("S:%s:%d", hx.HexS(rxA), g), fmt.Sprintf("T:%s:%d", hx.HexS("0-"), bw),
		fmt.Sprintf("H:%d:2:1", r.Intn(g)), "|", "a0", fmt.Sprintf("o0:0:0:%d", r.Intn(40))}
	for j := 0; j < 3; j++ {
		in = append(in, fmt.Sprintf("w0:%s", hx.Hex(r.Bytes(r.Range(g/3, g/2+20)))))
	}
	return in
}

func generate(cfg *hx.Config, emit func(kind string, in []string)) {
	rng := hx.NewRNG(cfg.Seed)
	nl, nu, ni, nr, ns := 60, 500, 40, 8, 4
	if cfg.Thorough() {
		nl, nu, ni, nr, ns = 600, 8000, 500, 32, 16
	}
	// 1. handler / listener histories (sequential: goroutines are counted)
	for k := 0; k < nl; k++ {
		emit("lst", genListener(rng.Fork()))
	}
	// 2. unit cases
	for k := 0; k < nu; k++ {
		in := genUnit(rng.Fork(), cfg.Thorough())
		for _, t := range in {
			if strings.HasPrefix(t, "H:") {
				cfg.Count("unit-with-halt")
				break
			}
		}
		emit("unit", in)
	}
	// 2b. range start relative to a throttle (initial bandwidth of a range response)
	ne := 36
	if cfg.Thorough() {
		ne = 360
	}
	for k := 0; k < ne; k++ {
		emit("edge", genUnitThrottleEdge(rng.Fork(), k))
		cfg.Count("unit-throttle-edge")
	}
	// 3. proxy on a shaped listener
	for k := 0; k < ni; k++ {
		emit("int", genIntegration(rng.Fork()))
	}
	// 3a. boundary magnitudes of the range start / offsets, through the proxy
	nb := 20
	if cfg.Thorough() {
		nb = 200
	}
	for k := 0; k < nb; k++ {
		emit("big", genIntegrationBig(rng.Fork(), k))
		cfg.Count("integration-big-start")
	}
	// 3c. a halt in progress x a configuration POST x an unrelated exchange on a new connection
	nx := 1
	if cfg.Thorough() {
		nx = 6
	}
	for k := 0; k < nx; k++ {
		r := rng.Fork()
		d := r.Range(1500, 1900)
		emit("halt", []string{"X", fmt.Sprintf("S:%s:0", hx.HexS(rxA)), fmt.Sprintf("H:%d:%d:%d", r.Range(0, 40), d, []int{1, 2, -1}[r.Intn(3)]), "|",
			"u:" + hx.HexS(fmt.Sprintf("http://example/a%d", r.Intn(100))), "f:" + hx.HexS(fmt.Sprintf("http://other/fast%d", r.Intn(100))), fmt.Sprintf("d:%d", d)})
		cfg.Count("halt-interleaving")
	}
	// 3b. keep-alive connections with several responses
	nk := 90
	if cfg.Thorough() {
		nk = 800
	}
	for k := 0; k < nk; k++ {
		in := genKeepAlive(rng.Fork())
		for _, t := range in {
			if strings.HasPrefix(t, "mode:") {
				cfg.Count("keepalive-" + t)
			}
		}
		emit("ka", in)
	}
	// 4. cases that wait for bucket drains (1 s ticker): run 4 at a time
	var slow [][]string
	for k := 0; k < nr; k++ {
		// every bandwidth relation with one connection, then with several
		in := genRate(rng.Fork(), k%4, (k/4)%2)
		cfg.Count(fmt.Sprintf("rate-rel%d-conc%d", k%4, (k/4)%2))
		slow = append(slow, in)
	}
	// start-of-response vs action-time locking on a shared shape: many short concurrent rounds
	nst := 2
	if cfg.Thorough() {
		nst = 8
	}
	for k := 0; k < nst; k++ {
		r := rng.Fork()
		in := []string{"R", fmt.Sprintf("S:%s:0", hx.HexS(rxA)), fmt.Sprintf("T:%s:1000000", hx.HexS([]string{"0-", "3-"}[k%2])),
			fmt.Sprintf("H:%d:0:-1", r.Intn(8)), "|", fmt.Sprintf("n:%d", r.Range(8, 40)), fmt.Sprintf("c:%d", r.Range(6, 12)), "rep:300"}
		slow = append(slow, in)
		cfg.Count("rate-stress")
	}
	// finite-end last throttle, response starting before / at / inside it
	nfin := 3
	if cfg.Thorough() {
		nfin = 12
	}
	for k := 0; k < nfin; k++ {
		slow = append(slow, genRateFinite(rng.Fork(), k%3))
		cfg.Count(fmt.Sprintf("rate-finite-end-where%d", k%3))
	}
	for k := 0; k < 2; k++ {
		slow = append(slow, genIntegrationEdgeSlow(rng.Fork()))
		cfg.Count("integration-range-inside-throttle")
	}
	nis := 2
	if cfg.Thorough() {
		nis = 12
	}
	for k := 0; k < nis; k++ {
		slow = append(slow, genIntegrationSlow(rng.Fork(), []int{1, 0, 2, 3}[k%4]))
	}
	for k := 0; k < ns; k++ {
		slow = append(slow, genSlowUnit(rng.Fork()))
	}
	outs := make([][]string, len(slow))
	sem := make(chan struct{}, 4)
	var wg sync.WaitGroup
	for i := range slow {
		wg.Add(1)
		go func(i int) {
			defer wg.Done()
			sem <- struct{}{}
			t0 := time.Now()
			if os.Getenv("VERIF_C18_TRACE") != "" {
				fmt.Fprintf(os.Stderr, "slowstart%d %s\n", i, strings.Join(slow[i], " "))
			}
			outs[i] = runCase(slow[i])
			if os.Getenv("VERIF_C18_TRACE") != "" {
				fmt.Fprintf(os.Stderr, "slow%d took %s: %s\n", i, time.Since(t0), strings.Join(slow[i][:6], " "))
			}
			<-sem
		}(i)
	}
	wg.Wait()
	for i := range slow {
		cfg.Emit(hx.Case{Name: fmt.Sprintf("slow%d", i), In: slow[i], Out: outs[i]})
		cfg.Count("kind=" + slow[i][0] + "-slow")
	}
}
