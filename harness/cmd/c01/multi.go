package main

// Several client connections, one after the other, through ONE proxy (and so
// through one transport and its pool of origin connections), with an origin
// that takes its time: the proxy as a whole works for longer than its
// per-request timeout although no request comes near it.
//
//	H1 multi.<T>.<G> X X N X X N X ...    N starts a new client connection
//
// proxy.SetTimeout(T ms); the client pauses G ms before every request, the
// origin G/2 ms before every answer. OUT: the tokens of each connection as in
// the single-connection cases, separated by NEXT.

import (
	"bufio"
	"fmt"
	"net"
	"net/http"
	"strconv"
	"strings"
	"time"

	martian "github.com/google/martian/v3"
	"verifharness/hx"
	"verifharness/p1x"
)

func fmtQ(m *p1x.Msg, originAddr string) string {
	hs := make([]p1x.Hdr, len(m.Hdrs))
	for i, h := range m.Hdrs {
		hs[i] = p1x.Hdr{Name: h.Name, Value: strings.ReplaceAll(h.Value, originAddr, "ORIGIN")}
	}
	return fmt.Sprintf("Q:%s:%s:%s:%d.%d", m.Method, hx.HexS(strings.ReplaceAll(m.Target, originAddr, "ORIGIN"))[1:],
		p1x.HdrTok(hs, true), m.BodyLen, m.BodyDg)
}

func fmtR(m *p1x.Msg) string {
	st := "ok"
	if m.Err != "" {
		st = "err-" + m.Err
	} else if !m.Complete {
		st = "incomplete"
	} else if m.Stray > 0 {
		st = "stray-crlf-before-status-line"
	}
	fr := m.Framing
	if fr == "" {
		fr = "?"
	}
	return fmt.Sprintf("R:%d:%s:%d.%d:%s:%s", m.Status, p1x.HdrTok(m.Hdrs, true), m.BodyLen, m.BodyDg, fr, st)
}

func runMulti(in []string) (out []string) {
	defer func() {
		if r := recover(); r != nil {
			out = append(out, fmt.Sprintf("PANIC:%s", hx.HexS(fmt.Sprint(r))))
		}
	}()
	f := strings.Split(in[1], ".")
	if len(f) != 3 {
		return []string{"BADCASE"}
	}
	t, _ := strconv.Atoi(f[1])
	g, _ := strconv.Atoi(f[2])
	if t < 100 || g < 0 || g > 5000 {
		return []string{"BADCASE"}
	}
	gap := time.Duration(g) * time.Millisecond
	var segs [][]*exch
	var all []*exch
	cur := []*exch{}
	for _, tok := range in[2:] {
		if tok == "N" {
			segs = append(segs, cur)
			cur = []*exch{}
			continue
		}
		e, err := parseExch(tok)
		if err != nil {
			return []string{"BADCASE:" + hx.HexS(err.Error())}
		}
		cur = append(cur, e)
		all = append(all, e)
	}
	segs = append(segs, cur)

	served := 0
	origin, err := p1x.NewOrigin(false, nil)
	if err != nil {
		return []string{"ENV:listen"}
	}
	defer origin.Close()
	origin.SetHandler(func(idx int, m *p1x.Msg) p1x.Action {
		if m.Target == sentinel {
			return p1x.Action{Bytes: []byte("HTTP/1.1 200 OK\r\nContent-Length: 2\r\nConnection: close\r\n\r\nok"), Close: true}
		}
		j := served
		served++
		if j >= len(all) {
			return p1x.Action{Bytes: []byte("HTTP/1.1 500 Unexpected\r\nContent-Length: 0\r\nConnection: close\r\n\r\n"), Close: true}
		}
		time.Sleep(gap / 2)
		return all[j].originAction()
	})
	pl, err := net.Listen("tcp", "127.0.0.1:0")
	if err != nil {
		return []string{"ENV:listen"}
	}
	proxy := martian.NewProxy()
	proxy.SetTimeout(time.Duration(t) * time.Millisecond)
	go proxy.Serve(pl)
	defer func() {
		pl.Close()
		done := make(chan struct{})
		go func() { proxy.Close(); close(done) }()
		select {
		case <-done:
		case <-time.After(5 * time.Second):
		}
		if tr, ok := proxy.GetRoundTripper().(*http.Transport); ok {
			tr.CloseIdleConnections()
		}
	}()

	seenBefore := 0
	for si, seg := range segs {
		conn, err := net.Dial("tcp", pl.Addr().String())
		if err != nil {
			return append(out, "ENV:dial")
		}
		br := bufio.NewReaderSize(conn, 64*1024)
		var resps []*p1x.Msg
		end := ""
		for _, e := range seg {
			time.Sleep(gap)
			h, b := e.requestBytes(origin.Addr)
			conn.SetWriteDeadline(time.Now().Add(30 * time.Second))
			conn.Write(append(append([]byte{}, h...), b...))
			conn.SetReadDeadline(time.Now().Add(idleNow()))
			m := p1x.ReadResponse(br, e.Method, false)
			if m == nil {
				end = "closed"
				break
			}
			resps = append(resps, m)
			if m.Err != "" {
				end = "stuck-" + m.Err
				break
			}
			if m.EOF {
				end = "closed"
				break
			}
		}
		if end == "" {
			if si == len(segs)-1 {
				time.Sleep(gap)
				conn.SetDeadline(time.Now().Add(idleNow()))
				fmt.Fprintf(conn, "GET %s HTTP/1.1\r\nHost: %s\r\nConnection: close\r\n\r\n", sentinel, origin.Addr)
				m := p1x.ReadResponse(br, "GET", true)
				switch {
				case m == nil:
					end = "closed"
				case m.Err == "" && m.Status == 200 && string(m.Body) == "ok":
					end = "open"
				default:
					end = "stuck-sentinel-" + m.Err
				}
			} else {
				// no sentinel here: it would make the origin close the pooled
				// connection that the next client connection is meant to reuse
				end = "open"
			}
		}
		conn.Close()
		seen, _ := origin.Snapshot()
		for _, m := range seen[seenBefore:] {
			if m.Target != sentinel {
				out = append(out, fmtQ(m, origin.Addr))
			}
		}
		seenBefore = len(seen)
		for _, m := range resps {
			out = append(out, fmtR(m))
		}
		out = append(out, "END:"+end)
		if si < len(segs)-1 {
			out = append(out, "NEXT")
		}
	}
	_, oerrs := origin.Snapshot()
	for _, e := range oerrs {
		out = append(out, "OERR:"+hx.HexS(e)[1:])
	}
	return out
}
