package main

// The proxy under test runs inside a WORKER process (this binary started with
// `-extra worker`), so that a panic in one of martian's goroutines - which no
// recover() in the harness can catch - kills the worker and not the run: the
// parent sees which cases were in flight, re-runs those one at a time in fresh
// workers and reports the ones that kill the worker again as `PANIC:`.

import (
	"bufio"
	"bytes"
	"fmt"
	"io"
	"os"
	"os/exec"
	"strconv"
	"strings"
	"sync"

	"verifharness/hx"
)

// workerMain: reads "idx<TAB>tok tok ..." lines, writes "S idx" / "D idx tok ...".
func workerMain() {
	in := bufio.NewScanner(os.Stdin)
	in.Buffer(make([]byte, 1<<20), 1<<28)
	var mu sync.Mutex
	w := bufio.NewWriter(os.Stdout)
	say := func(s string) {
		mu.Lock()
		w.WriteString(s)
		w.WriteByte('\n')
		w.Flush()
		mu.Unlock()
	}
	jobs := make(chan [2]string)
	var wg sync.WaitGroup
	for k := 0; k < 12; k++ {
		wg.Add(1)
		go func() {
			defer wg.Done()
			for j := range jobs {
				say("S " + j[0])
				out := runRobust(strings.Fields(j[1]))
				say("D " + j[0] + " " + strings.Join(out, " "))
			}
		}()
	}
	for in.Scan() {
		p := strings.SplitN(in.Text(), "\t", 2)
		if len(p) == 2 {
			jobs <- [2]string{p[0], p[1]}
		}
	}
	close(jobs)
	wg.Wait()
}

// runBatch runs the cases idxs in one worker; returns the outputs of the
// finished ones, the indices that were in flight when the worker died, the
// indices never started, and the worker's last words.
func runBatch(cases []hx.Case, idxs []int) (done map[int][]string, inflight, notStarted []int, msg string) {
	done = map[int][]string{}
	cmd := exec.Command(os.Args[0], "-extra", "worker")
	cmd.Env = append(os.Environ(), "GOTRACEBACK=single")
	stdin, _ := cmd.StdinPipe()
	stdout, _ := cmd.StdoutPipe()
	var errb bytes.Buffer
	cmd.Stderr = &errb
	if err := cmd.Start(); err != nil {
		fmt.Fprintln(os.Stderr, "cannot start worker:", err)
		os.Exit(2)
	}
	go func() {
		w := bufio.NewWriter(stdin)
		for _, i := range idxs {
			fmt.Fprintf(w, "%d\t%s\n", i, strings.Join(cases[i].In, " "))
		}
		w.Flush()
		stdin.Close()
	}()
	started := map[int]bool{}
	sc := bufio.NewScanner(stdout)
	sc.Buffer(make([]byte, 1<<20), 1<<28)
	for sc.Scan() {
		f := strings.SplitN(sc.Text(), " ", 3)
		if len(f) < 2 {
			continue
		}
		i, err := strconv.Atoi(f[1])
		if err != nil {
			continue
		}
		switch f[0] {
		case "S":
			started[i] = true
		case "D":
			if len(f) == 3 {
				done[i] = strings.Fields(f[2])
			} else {
				done[i] = []string{}
			}
		}
	}
	io.Copy(io.Discard, stdout)
	werr := cmd.Wait()
	for _, i := range idxs {
		if _, ok := done[i]; ok {
			continue
		}
		if started[i] {
			inflight = append(inflight, i)
		} else {
			notStarted = append(notStarted, i)
		}
	}
	if werr != nil || len(inflight)+len(notStarted) > 0 {
		s := errb.String()
		if k := strings.Index(s, "panic:"); k >= 0 {
			s = s[k:]
		} else if k := strings.Index(s, "fatal error:"); k >= 0 {
			s = s[k:]
		}
		if k := strings.Index(s, "\n"); k >= 0 {
			s = s[:k]
		}
		if len(s) > 200 {
			s = s[:200]
		}
		msg = strings.Join(strings.Fields(fmt.Sprint(werr, " ", s)), "_")
	}
	return
}

func runAll(cases []hx.Case) [][]string {
	outs := make([][]string, len(cases))
	todo := make([]int, len(cases))
	for i := range todo {
		todo[i] = i
	}
	for round := 0; len(todo) > 0; round++ {
		done, inflight, rest, msg := runBatch(cases, todo)
		for i, o := range done {
			outs[i] = o
		}
		if len(inflight) == 0 && len(rest) > 0 && len(done) == 0 {
			fmt.Fprintln(os.Stderr, "worker makes no progress:", msg)
			os.Exit(2)
		}
		// who killed the worker? each suspect alone, in its own worker
		for _, i := range inflight {
			d, fl, _, m := runBatch(cases, []int{i})
			if o, ok := d[i]; ok && len(fl) == 0 {
				outs[i] = o
			} else {
				if m == "" {
					m = msg
				}
				outs[i] = []string{"PANIC:" + hx.HexS(m)[1:]}
			}
		}
		todo = rest
		if round > 200 {
			for _, i := range todo {
				outs[i] = []string{"PANIC:" + hx.HexS("worker-keeps-dying_" + msg)[1:]}
			}
			break
		}
	}
	return outs
}
