package main

import (
	"fmt"
	"strconv"
	"strings"

	"verifharness/hx"
	"verifharness/p1x"
)

var methods = []string{"GET", "GET", "GET", "HEAD", "POST", "POST", "PUT", "DELETE", "OPTIONS", "PATCH"}

var reqNames = []string{"Accept", "accept", "Accept-Language", "Content-Type", "Cookie", "cookie", "Authorization",
	"X-A", "x-a", "X-a", "X-Long-Header-Name-0123456789", "Cache-Control", "If-None-Match", "Referer",
	"Via", "X-Forwarded-For", "X-B", "Range", "If-Modified-Since", "x-trace-id"}

var resNames = []string{"Content-Type", "content-type", "Set-Cookie", "set-cookie", "ETag", "Cache-Control", "X-A", "x-a", "X-a",
	"Vary", "Server", "Date", "Location", "Content-Language", "X-B", "Last-Modified", "Via", "Warning", "x-long-response-header-name-0123456789"}

const valAlpha = "abcdefghijklmnopqrstuvwxyzABCDEFGHIJKLMNOPQRSTUVWXYZ0123456789-_.~!*'();/?@&=+$%#[]{}<>|^`\""

func genValue(r *hx.RNG) string {
	if r.Chance(1, 15) {
		return ""
	}
	n := r.Range(1, 24)
	if r.Chance(1, 12) {
		n = r.Range(200, 900)
	}
	b := make([]byte, n)
	for i := range b {
		switch k := r.Intn(30); {
		case k == 0 && i > 0 && i < n-1:
			b[i] = ' '
		case k == 1 && i > 0 && i < n-1:
			b[i] = ','
		case k == 2 && i > 0 && i < n-1:
			b[i] = '\t'
		case k == 3:
			b[i] = byte(0x80 + r.Intn(0x80))
		default:
			b[i] = valAlpha[r.Intn(len(valAlpha))]
		}
	}
	return string(b)
}

func genPath(r *hx.RNG) string {
	const pc = "abcdefghijklmnopqrstuvwxyzABCDEFGHIJKLMNOPQRSTUVWXYZ0123456789-._~!$&'()*+,;=:@"
	var sb strings.Builder
	segs := r.Range(1, 4)
	for s := 0; s < segs; s++ {
		sb.WriteByte('/')
		n := r.Range(0, 8)
		if s == 0 && n == 0 {
			n = 1 // "//x" would be read as an authority
		}
		for i := 0; i < n; i++ {
			switch r.Intn(12) {
			case 0:
				sb.WriteString([]string{"%2F", "%2f", "%20", "%7E", "%C3%A9", "%25", "%3F"}[r.Intn(7)])
			default:
				sb.WriteByte(pc[r.Intn(len(pc))])
			}
		}
	}
	if r.Chance(1, 2) {
		sb.WriteByte('?')
		const qc = pc + "/?%20"
		n := r.Range(0, 16)
		for i := 0; i < n; i++ {
			c := qc[r.Intn(len(qc))]
			if c == '%' {
				sb.WriteString("%41")
			} else {
				sb.WriteByte(c)
			}
		}
	}
	return sb.String()
}

var bodySizes = []int{0, 0, 1, 2, 17, 100, 1000, 4095, 4096, 4097, 8192, 32768, 65536, 65537}

func genSize(r *hx.RNG, thorough bool) int {
	switch k := r.Intn(20); {
	case k < 12:
		return bodySizes[r.Intn(len(bodySizes))]
	case k < 18:
		return r.Range(0, 12000)
	case k == 18:
		if thorough {
			return r.Range(1<<20, 3<<20)
		}
		return r.Range(100000, 300000)
	default:
		if thorough {
			return r.Range(200000, 1<<20)
		}
		return r.Range(20000, 100000)
	}
}

type genOpt struct {
	thorough bool
	last     bool // last exchange of the connection
	closing  int  // 0 no close signal allowed, 1 allowed
}

func genHeaders(r *hx.RNG, names []string, max int) []p1x.Hdr {
	n := r.Range(0, max)
	var hs []p1x.Hdr
	for i := 0; i < n; i++ {
		name := names[r.Intn(len(names))]
		v := genValue(r)
		if strings.EqualFold(name, "Range") {
			v = "bytes=0-9"
		}
		hs = append(hs, p1x.Hdr{Name: name, Value: v})
		if r.Chance(1, 4) { // a repeat of the same field, maybe in another case
			alt := name
			if r.Bool() {
				alt = strings.ToLower(name)
			}
			if !strings.EqualFold(name, "Range") {
				hs = append(hs, p1x.Hdr{Name: alt, Value: genValue(r)})
			}
		}
	}
	return hs
}

func insertAt(r *hx.RNG, hs []p1x.Hdr, h p1x.Hdr) []p1x.Hdr {
	i := r.Intn(len(hs) + 1)
	hs = append(hs, p1x.Hdr{})
	copy(hs[i+1:], hs[i:])
	hs[i] = h
	return hs
}

// genExchange draws one exchange. closeOK says whether this exchange may
// carry a close signal (Connection: close, HTTP/1.0 without keep-alive,
// close-delimited body).
func genExchange(r *hx.RNG, o genOpt, closeOK bool) *exch {
	e := &exch{Rd: -1, Fault: -1}
	e.Method = methods[r.Intn(len(methods))]
	e.Abs = r.Chance(3, 5)
	e.PQ = genPath(r)
	e.Hdrs = genHeaders(r, reqNames, 8)
	host := "ORIGIN"
	if e.Abs && r.Chance(1, 4) {
		host = "bogus.invalid" // RFC 7230 5.4: a proxy ignores Host when the target is absolute
	}
	e.Hdrs = insertAt(r, e.Hdrs, p1x.Hdr{Name: pick(r, "Host", "Host", "host", "HOST"), Value: host})
	if r.Chance(1, 2) {
		e.Hdrs = insertAt(r, e.Hdrs, p1x.Hdr{Name: pick(r, "User-Agent", "user-agent"), Value: "verif/1.0 (" + fmt.Sprint(r.Intn(1000)) + ")"})
		if r.Chance(1, 120) { // a second User-Agent field (known finding C01-K1)
			e.Hdrs = insertAt(r, e.Hdrs, p1x.Hdr{Name: pick(r, "User-Agent", "user-agent"), Value: "other/2.0"})
		}
	}
	if r.Chance(3, 5) {
		e.Hdrs = insertAt(r, e.Hdrs, p1x.Hdr{Name: pick(r, "Accept-Encoding", "accept-encoding"), Value: pick(r, "gzip", "gzip, deflate, br", "identity", "br", "gzip;q=0.5, *;q=0")})
	}
	// hop-by-hop noise that does not ask to close
	if r.Chance(1, 5) {
		e.Hdrs = insertAt(r, e.Hdrs, p1x.Hdr{Name: "Keep-Alive", Value: "timeout=5, max=100"})
	}
	if r.Chance(1, 6) {
		e.Hdrs = insertAt(r, e.Hdrs, p1x.Hdr{Name: "Proxy-Connection", Value: "keep-alive"})
	}
	if r.Chance(1, 8) {
		e.Hdrs = insertAt(r, e.Hdrs, p1x.Hdr{Name: "Proxy-Authorization", Value: "Basic dTpw"})
	}
	if r.Chance(1, 8) {
		e.Hdrs = insertAt(r, e.Hdrs, p1x.Hdr{Name: "TE", Value: "trailers"})
	}
	reqClose := closeOK && r.Chance(1, 3)
	e.V10 = r.Chance(1, 8)
	switch {
	case e.V10 && reqClose:
		if r.Bool() {
			e.Hdrs = insertAt(r, e.Hdrs, p1x.Hdr{Name: "Connection", Value: "close"})
		}
	case e.V10:
		e.Hdrs = insertAt(r, e.Hdrs, p1x.Hdr{Name: pick(r, "Connection", "connection"), Value: pick(r, "keep-alive", "Keep-Alive", "x-hop, keep-alive")})
	case reqClose:
		e.Hdrs = insertAt(r, e.Hdrs, p1x.Hdr{Name: pick(r, "Connection", "connection", "CONNECTION"), Value: pick(r, "close", "Close", "x-hop, close", "close, x-hop", "CLOSE")})
	default:
		if r.Chance(1, 3) {
			e.Hdrs = insertAt(r, e.Hdrs, p1x.Hdr{Name: "Connection", Value: pick(r, "keep-alive", "x-hop", "x-hop, keep-alive", "Keep-Alive")})
		}
	}
	if p1x.HasToken(e.Hdrs, "Connection", "x-hop") && r.Bool() {
		e.Hdrs = insertAt(r, e.Hdrs, p1x.Hdr{Name: "X-Hop", Value: genValue(r)})
	}
	// request body
	bodyful := e.Method == "POST" || e.Method == "PUT" || e.Method == "PATCH" || r.Chance(1, 6)
	if e.Method == "HEAD" {
		bodyful = false
	}
	e.BSeed = uint64(r.Intn(1 << 30))
	if bodyful {
		e.BLen = genSize(r, o.thorough)
		if !e.V10 && r.Chance(2, 5) {
			e.RqF = fmt.Sprintf("k%d", r.Intn(1<<30))
		} else {
			e.RqF = "c"
		}
	} else {
		e.RqF = "n"
		if r.Chance(1, 5) {
			e.RqF = "c" // explicit Content-Length: 0
		}
	}
	// how the origin reads the upload: all of it, or it answers early
	// (never together with a close signal: an origin or proxy that closes a
	// socket with unread upload bytes makes the kernel reset the connection,
	// which destroys the response on its way - nothing a relay can repair)
	if e.RqF == "c" && e.BLen > 0 && !closeOK && r.Chance(1, 3) {
		if r.Bool() { // large enough not to fit the (shrunk) socket buffers between proxy and origin
			e.BLen = r.Range(150000, 700000)
		}
		switch r.Intn(4) {
		case 0, 1:
			e.Rd = 0
		case 2:
			e.Rd = r.Intn(e.BLen)
		default:
			e.Rd = e.BLen - 1
		}
	}

	// origin fault: it takes the request and hangs up before a complete head.
	// Only where net/http's transport does not replay the request by itself
	// (it replays GET/HEAD/OPTIONS/TRACE without a body on a reused connection)
	// and never together with a close signal.
	nonReplayable := e.Method == "POST" || e.Method == "PUT" || e.Method == "PATCH" || e.Method == "DELETE"
	if nonReplayable && !closeOK && e.Rd < 0 && r.Chance(1, 10) {
		e.Fault = []int{0, 0, 9, 17, 40}[r.Intn(5)]
		if e.BLen > 70000 {
			e.BLen = 70000
		}
	}

	// response
	e.SHdrs = genHeaders(r, resNames, 8)
	e.SBSeed = uint64(r.Intn(1 << 30))
	statuses := []int{200, 200, 200, 201, 202, 203, 206, 301, 302, 400, 401, 403, 404, 500, 502, 503}
	e.Status = statuses[r.Intn(len(statuses))]
	e.SV10 = r.Chance(1, 10)
	resClose := closeOK && r.Chance(1, 3)
	switch {
	case e.Method == "HEAD":
		// what the origin says about the representation in answer to HEAD: a
		// length (not necessarily the GET body's), chunked, or nothing
		e.RsF = "n"
		switch r.Intn(12) {
		case 0, 1, 2, 3, 4, 5:
			e.SHdrs = insertAt(r, e.SHdrs, p1x.Hdr{Name: pick(r, "Content-Length", "content-length"), Value: fmt.Sprint(r.Intn(100000))})
		case 6: // known finding C01-K5
			if !e.SV10 {
				e.SHdrs = insertAt(r, e.SHdrs, p1x.Hdr{Name: "Transfer-Encoding", Value: "chunked"})
			}
		}
	case r.Chance(1, 8) && (!(e.Method == "POST" || e.Method == "PUT" || e.Method == "PATCH") || r.Chance(1, 8)):
		// (a bodiless answer to POST/PUT/PATCH is known finding C01-K4: kept rare so that
		// the rest of such scripts is still judged)
		e.RsF = "n"
		e.Status = []int{204, 304}[r.Intn(2)]
		if e.Status == 304 && r.Chance(1, 6) { // known finding C01-K3: the length of a 304 is dropped
			e.SHdrs = insertAt(r, e.SHdrs, p1x.Hdr{Name: "Content-Length", Value: fmt.Sprint(r.Intn(100000))})
		}
	default:
		e.SBLen = genSize(r, o.thorough)
		switch k := r.Intn(10); {
		case k < 5 || (e.SV10 && k < 8):
			e.RsF = "c"
		case k < 8:
			e.RsF = fmt.Sprintf("k%d", r.Intn(1<<30))
		default:
			if closeOK {
				e.RsF = "x"
			} else {
				e.RsF = "c"
			}
		}
	}
	if e.RsF == "n" || e.RsF == "x" {
		// nothing
	}
	switch {
	case e.SV10 && resClose:
		// HTTP/1.0 without keep-alive closes by itself
	case e.SV10:
		if e.RsF == "x" {
			break
		}
		e.SHdrs = insertAt(r, e.SHdrs, p1x.Hdr{Name: "Connection", Value: pick(r, "keep-alive", "Keep-Alive")})
	case resClose:
		e.SHdrs = insertAt(r, e.SHdrs, p1x.Hdr{Name: pick(r, "Connection", "connection"), Value: pick(r, "close", "Close", "x-rhop, close")})
	default:
		if r.Chance(1, 4) {
			e.SHdrs = insertAt(r, e.SHdrs, p1x.Hdr{Name: "Connection", Value: pick(r, "keep-alive", "x-rhop")})
		}
		if r.Chance(1, 6) {
			e.SHdrs = insertAt(r, e.SHdrs, p1x.Hdr{Name: "Keep-Alive", Value: "timeout=30"})
		}
	}
	if p1x.HasToken(e.SHdrs, "Connection", "x-rhop") && r.Bool() {
		e.SHdrs = insertAt(r, e.SHdrs, p1x.Hdr{Name: "X-Rhop", Value: genValue(r)})
	}
	// content codings: gzip bodies, asked for by the client or not
	if e.SBLen > 0 && e.SBLen <= 100000 && len(p1x.Vals(e.SHdrs, "Content-Encoding")) == 0 && r.Chance(1, 6) {
		e.Gz = true
		e.SHdrs = insertAt(r, e.SHdrs, p1x.Hdr{Name: "Content-Encoding", Value: "gzip"})
	}
	return e
}

func pick(r *hx.RNG, xs ...string) string { return xs[r.Intn(len(xs))] }

func caseOf(name, mode string, exs []*exch) hx.Case {
	in := []string{"H1", mode}
	for _, e := range exs {
		in = append(in, e.token())
	}
	return hx.Case{Name: name, In: in}
}

func generate(cfg *hx.Config) []hx.Case {
	rng := hx.NewRNG(cfg.Seed)
	var cases []hx.Case
	n := 500
	if cfg.Thorough() {
		n = 3000
	}
	modes := []string{"seq", "seq", "pipe", "byte", "part", "part"}
	for k := 0; k < n; k++ {
		r := rng.Fork()
		mode := modes[r.Intn(len(modes))]
		ne := r.Range(1, 6)
		if mode == "part" {
			mode = fmt.Sprintf("part%d", r.Intn(1<<30))
			ne = r.Range(2, 6)
		}
		// where the first close signal may appear: usually at the end, sometimes earlier, sometimes never
		closeAt := ne - 1
		switch r.Intn(6) {
		case 0:
			closeAt = r.Intn(ne)
		case 1, 2:
			closeAt = -1
		}
		if strings.HasPrefix(mode, "part") && closeAt >= 0 {
			closeAt = ne - 1 // partial bytes of a request behind a closing exchange are simply lost
		}
		var exs []*exch
		for i := 0; i < ne; i++ {
			e := genExchange(r, genOpt{thorough: cfg.Thorough()}, i == closeAt || (closeAt >= 0 && i > closeAt && r.Chance(1, 3)))
			if mode == "byte" && e.BLen > 70000 {
				e.BLen = 70000
			}
			if mode == "pipe" && closeAt >= 0 && i >= closeAt {
				// The proxy closes the socket after the closing exchange while
				// pipelined bytes are still unread, which makes the kernel send a
				// RST; a response tail still in the proxy's send queue is then
				// lost (timing dependent, see notes/C01.md). Keep what follows a
				// close small so that the check itself is deterministic.
				if i > closeAt {
					e.BLen, e.RqF = 0, "n"
				}
				if e.SBLen > 8192 {
					e.SBLen = 8192
				}
			}
			if mode == "pipe" && closeAt >= 0 && closeAt < ne-1 && e.SBLen > 8192 {
				// the same reset also destroys EARLIER responses that are still in
				// the proxy's send queue because the client reads more slowly
				e.SBLen = 8192
			}
			exs = append(exs, e)
		}
		cases = append(cases, caseOf(fmt.Sprintf("g%d", k), mode, exs))
		cfg.Count("mode=" + strings.TrimRight(mode, "0123456789"))
		cfg.Count(fmt.Sprintf("exchanges=%d", ne))
		for _, e := range exs {
			cfg.Count("method=" + e.Method)
			cfg.Count("reqframing=" + e.RqF[:1])
			cfg.Count("resframing=" + e.RsF[:1])
			if e.Gz {
				cfg.Count("res=gzip")
			}
			if e.V10 {
				cfg.Count("req=http/1.0")
			}
			if e.SV10 {
				cfg.Count("res=http/1.0")
			}
			if e.Rd >= 0 {
				cfg.Count("origin-reads=part-of-body")
			}
			if e.Fault >= 0 {
				cfg.Count("origin=fault-after-reading-request")
			}
			if e.Abs {
				cfg.Count("target=absolute")
			} else {
				cfg.Count("target=origin-form")
			}
		}
	}
	// uploads the origin answers before reading them, followed by more
	// requests on the same connection; many MiB with default socket buffers
	// in the thorough tier
	ne := 8
	if cfg.Thorough() {
		ne = 40
	}
	for k := 0; k < ne; k++ {
		r := rng.Fork()
		up := genExchange(r, genOpt{}, false)
		for up.Method == "HEAD" { // its response shape belongs to HEAD
			up = genExchange(r, genOpt{}, false)
		}
		up.Method, up.RqF, up.V10 = pick(r, "POST", "PUT"), "c", false
		up.BLen = r.Range(200000, 900000)
		if cfg.Thorough() && k%10 == 0 {
			up.BLen = []int{8 << 20, 16 << 20, 48 << 20, 9<<20 + 1}[(k/10)%4]
		}
		up.Rd = []int{0, 0, 1, 4096, up.BLen / 2, up.BLen - 1}[r.Intn(6)]
		if up.SBLen > 20000 {
			up.SBLen = 20000
		}
		exs := []*exch{up}
		if r.Bool() {
			exs = []*exch{genExchange(r, genOpt{}, false), up}
		}
		for j := r.Range(1, 2); j > 0; j-- {
			exs = append(exs, genExchange(r, genOpt{}, false))
		}
		mode := pick(r, "seq", "seq", "pipe", fmt.Sprintf("part%d", r.Intn(1<<30)))
		cases = append(cases, caseOf(fmt.Sprintf("early%d", k), mode, exs))
		cfg.Count("origin=answers-before-reading-upload")
	}
	// origin faults at each point, every request-body shape, followed by more
	// exchanges: the origin must have seen every request exactly once
	kf := 0
	for _, cut := range []int{0, 1, 17, 1000} {
		for _, shape := range []string{"cl0", "cl", "chunked", "nobody-first", "big"} {
			r := rng.Fork()
			f := genExchange(r, genOpt{}, false)
			for f.Method == "HEAD" {
				f = genExchange(r, genOpt{}, false)
			}
			f.V10, f.Rd, f.Fault = false, -1, cut
			f.Hdrs = stripConn(f.Hdrs)
			f.Method = pick(r, "POST", "PUT", "PATCH", "DELETE")
			switch shape {
			case "cl0":
				f.BLen, f.RqF = 0, "c"
			case "cl":
				f.BLen, f.RqF = r.Range(1, 5000), "c"
			case "chunked":
				f.BLen, f.RqF = r.Range(1, 5000), fmt.Sprintf("k%d", r.Intn(1<<30))
			case "big":
				f.BLen, f.RqF = r.Range(100000, 400000), "c"
			default:
				f.Method, f.BLen, f.RqF = "GET", 0, "n"
			}
			var exs []*exch
			if shape != "nobody-first" && r.Bool() {
				exs = append(exs, genExchange(r, genOpt{}, false))
			}
			exs = append(exs, f)
			for j := r.Range(1, 2); j > 0; j-- {
				e := genExchange(r, genOpt{}, false)
				e.Fault = -1
				exs = append(exs, e)
			}
			cases = append(cases, caseOf(fmt.Sprintf("fault%d", kf), pick(r, "seq", "seq", "pipe"), exs))
			kf++
			cfg.Count("origin=fault-after-reading-request")
		}
	}
	// CUMULATIVE volume on one connection: many multi-megabyte bodies, upload and
	// download (bodies are (length, seed) in the token and compared by digest)
	vol := func(name string, sizes []int, up bool) {
		r := rng.Fork()
		var exs []*exch
		for i, sz := range sizes {
			e := genExchange(r, genOpt{}, false)
			for e.Method == "HEAD" {
				e = genExchange(r, genOpt{}, false)
			}
			e.V10, e.SV10, e.Gz, e.Rd, e.Fault = false, false, false, -1, -1
			e.Hdrs, e.SHdrs = stripConn(e.Hdrs), stripConn(e.SHdrs)
			if e.Status == 204 || e.Status == 304 {
				e.Status = 200
			}
			if up {
				e.Method, e.BLen, e.RqF = pick(r, "POST", "PUT"), sz, []string{"c", fmt.Sprintf("k%d", r.Intn(1<<30))}[i%2]
				e.SBLen, e.RsF = r.Range(0, 2000), "c"
			} else {
				e.Method, e.BLen, e.RqF = "GET", 0, "n"
				e.SBLen, e.RsF = sz, []string{"c", fmt.Sprintf("k%d", r.Intn(1<<30))}[i%2]
			}
			exs = append(exs, e)
		}
		cases = append(cases, caseOf(name, "seq", exs))
		cfg.Count("volume-per-connection=" + map[bool]string{true: "upload", false: "download"}[up])
	}
	mib := 1 << 20
	vol("volume-up-70MiB", []int{10 * mib, 10 * mib, 10 * mib, 10 * mib, 10 * mib, 10 * mib, 10 * mib}, true)
	vol("volume-down-70MiB", []int{10 * mib, 10 * mib, 10 * mib, 10 * mib, 10 * mib, 10 * mib, 10 * mib}, false)
	if cfg.Thorough() {
		// totals that straddle 2^24, 2^25, 2^26: the boundary falls inside a body, exactly between two, one byte either side
		for p := 24; p <= 26; p++ {
			t := 1 << uint(p)
			for _, up := range []bool{true, false} {
				vol(fmt.Sprintf("volume-2^%d-inside-%v", p, up), []int{t / 3, t / 3, t / 3, t / 3, 1000}, up)
				vol(fmt.Sprintf("volume-2^%d-exact-%v", p, up), []int{t / 2, t / 2, 1000, t / 2}, up)
				vol(fmt.Sprintf("volume-2^%d-minus1-%v", p, up), []int{t / 2, t/2 - 1, 1, 1000}, up)
				vol(fmt.Sprintf("volume-2^%d-plus1-%v", p, up), []int{t / 2, t/2 + 1, 1000}, up)
			}
		}
	}
	// SIZE of the heads: one long value / many lines, both directions
	kb := 0
	sizes := []int{3000, 5000, 60000, 300000}
	if cfg.Thorough() {
		sizes = append(sizes, 1<<20)
	}
	for _, sz := range sizes {
		for _, many := range []bool{false, true} {
			for _, dir := range []string{"request", "response"} {
				r := rng.Fork()
				e := genExchange(r, genOpt{}, false)
				e.Rd, e.Fault = -1, -1
				if e.BLen > 20000 {
					e.BLen = 20000
				}
				var big []p1x.Hdr
				if many {
					name := map[string]string{"request": "Cookie", "response": "Set-Cookie"}[dir]
					for n := 0; n < sz; n += 1000 {
						big = append(big, p1x.Hdr{Name: name, Value: fmt.Sprintf("c%d=%s", n, strings.Repeat("v", 990))})
					}
				} else {
					big = []p1x.Hdr{{Name: "X-Big", Value: strings.Repeat("abcdefghij", sz/10)}}
				}
				if dir == "request" {
					e.Hdrs = append(e.Hdrs, big...)
				} else {
					e.SHdrs = append(e.SHdrs, big...)
				}
				next := genExchange(r, genOpt{}, false)
				next.Fault = -1
				cases = append(cases, caseOf(fmt.Sprintf("bighead%d", kb), pick(r, "seq", "pipe"), []*exch{e, next}))
				kb++
				cfg.Count(fmt.Sprintf("head-size=%s-%dKB", dir, sz/1000))
			}
		}
	}
	// HTTP/1.0 clients, with and without keep-alive, against every origin framing
	k10 := 0
	for _, keep := range []bool{true, false} {
		for _, fr := range []string{"c", "k5", "x", "204", "304", "HEAD"} {
			for _, mode := range []string{"seq", "pipe"} {
				r := rng.Fork()
				e := genExchange(r, genOpt{}, false)
				for e.Method == "HEAD" {
					e = genExchange(r, genOpt{}, false)
				}
				e.V10, e.SV10, e.Gz = true, false, false
				e.Rd = -1 // (an early answer must not meet a close signal, see genExchange)
				if e.BLen > 20000 {
					e.BLen = 20000
				}
				e.Hdrs, e.SHdrs = stripConn(e.Hdrs), stripConn(e.SHdrs)
				if keep {
					e.Hdrs = insertAt(r, e.Hdrs, p1x.Hdr{Name: "Connection", Value: pick(r, "keep-alive", "Keep-Alive")})
				}
				if strings.HasPrefix(e.RqF, "k") {
					e.RqF = "c"
				}
				if e.SBLen == 0 || e.SBLen > 8192 {
					e.SBLen = r.Range(1, 8192)
				}
				if e.Status == 204 || e.Status == 304 {
					e.Status = 200
				}
				switch fr {
				case "204", "304":
					e.RsF, e.SBLen = "n", 0
					e.Status, _ = strconv.Atoi(fr)
				case "HEAD":
					e.Method, e.RsF, e.SBLen, e.BLen, e.RqF = "HEAD", "n", 0, 0, "n"
				default:
					e.RsF = fr
				}
				next := genExchange(r, genOpt{}, false)
				next.BLen, next.RqF = 0, "n"
				if next.Method == "POST" || next.Method == "PUT" || next.Method == "PATCH" {
					next.RqF = "c"
				}
				if next.SBLen > 8192 {
					next.SBLen = 8192
				}
				cases = append(cases, caseOf(fmt.Sprintf("h10-%d", k10), mode, []*exch{e, next}))
				k10++
				cfg.Count("http/1.0-client-x-framing")
			}
		}
	}
	// several client connections through one proxy (one transport, one pool of
	// origin connections), slow origin, total time beyond the proxy's timeout
	nm := 4
	if cfg.Thorough() {
		nm = 20
	}
	for k := 0; k < nm; k++ {
		r := rng.Fork()
		in := []string{"H1", "multi.1500.300"}
		for c := 0; c < 3; c++ {
			if c > 0 {
				in = append(in, "N")
			}
			for i := r.Range(2, 3); i > 0; i-- {
				e := genExchange(r, genOpt{}, false)
				e.V10, e.SV10 = false, false
				e.Hdrs, e.SHdrs = stripConn(e.Hdrs), stripConn(e.SHdrs)
				e.Rd = -1
				if e.BLen > 20000 {
					e.BLen = 20000
				}
				if e.SBLen > 20000 {
					e.SBLen = 20000
				}
				in = append(in, e.token())
			}
		}
		cases = append(cases, hx.Case{Name: fmt.Sprintf("multi%d", k), In: in})
		cfg.Count("mode=multi")
	}
	// connection lifetime: the connection lives longer than the proxy's
	// timeout although every pause is far below it
	nl := 6
	if cfg.Thorough() {
		nl = 30
	}
	for k := 0; k < nl; k++ {
		r := rng.Fork()
		ne := r.Range(6, 7)
		var exs []*exch
		for i := 0; i < ne; i++ {
			e := genExchange(r, genOpt{}, false)
			if e.BLen > 20000 {
				e.BLen = 20000
			}
			if e.SBLen > 20000 {
				e.SBLen = 20000
			}
			exs = append(exs, e)
		}
		cases = append(cases, caseOf(fmt.Sprintf("life%d", k), "life.1500.400", exs))
		cfg.Count("mode=life")
	}
	// every (response framing x next response framing x mode) pair, small bodies
	if cfg.Thorough() {
		fr := []string{"c", "k7", "n"}
		k := 0
		for _, m := range []string{"seq", "pipe", "byte"} {
			for _, f1 := range fr {
				for _, f2 := range append(fr, "x") {
					for _, q1 := range []string{"n", "c", "k3"} {
						r := rng.Fork()
						a := genExchange(r, genOpt{}, false)
						b := genExchange(r, genOpt{}, false)
						fix := func(e *exch, rsf, rqf string) {
							if e.Method == "HEAD" {
								e.Method = "GET"
							}
							e.V10, e.SV10, e.Gz = false, false, false
							e.RsF, e.RqF = rsf, rqf
							if rsf == "n" {
								e.Status, e.SBLen = 204, 0
							} else if e.Status == 204 || e.Status == 304 {
								e.Status = 200
							}
							if rqf == "n" {
								e.BLen = 0
							}
							e.SHdrs = stripConn(e.SHdrs)
							e.Hdrs = stripConn(e.Hdrs)
						}
						fix(a, f1, q1)
						fix(b, f2, "n")
						cases = append(cases, caseOf(fmt.Sprintf("pair%d", k), m, []*exch{a, b}))
						k++
					}
				}
			}
		}
	}
	return cases
}

func stripConn(hs []p1x.Hdr) []p1x.Hdr {
	var o []p1x.Hdr
	for _, h := range hs {
		if strings.EqualFold(h.Name, "Connection") || strings.EqualFold(h.Name, "Content-Encoding") || strings.EqualFold(h.Name, "Content-Length") || strings.EqualFold(h.Name, "Transfer-Encoding") {
			continue
		}
		o = append(o, h)
	}
	return o
}

// ---------------------------------------------------------------- hand-written corpus

func H(kv ...string) []p1x.Hdr {
	var hs []p1x.Hdr
	for i := 0; i+1 < len(kv); i += 2 {
		hs = append(hs, p1x.Hdr{Name: kv[i], Value: kv[i+1]})
	}
	return hs
}

func get(path string, hs []p1x.Hdr, status int, shs []p1x.Hdr, n int, rsf string) *exch {
	return &exch{Rd: -1, Fault: -1, Method: "GET", PQ: path, Hdrs: append(H("Host", "ORIGIN"), hs...), RqF: "n", BSeed: 1,
		Status: status, SHdrs: shs, SBLen: n, SBSeed: 2, RsF: rsf}
}

// corpus returns the witnesses kept in corpus/C01 (written by `c01 -extra mkcorpus -out FILE`).
func corpus() []hx.Case {
	var cs []hx.Case
	add := func(name, mode string, exs ...*exch) { cs = append(cs, caseOf(name, mode, exs)) }
	ae := H("Accept-Encoding", "identity")

	// D37: client did not ask for gzip, origin answers gzip, connection kept alive
	gz := get("/gz", nil, 200, H("Content-Encoding", "gzip", "Content-Type", "text/plain"), 300, "c")
	gz.Gz = true
	add("d37-gzip-content-length-keepalive", "seq", gz, get("/next", ae, 200, nil, 5, "c"))
	gzk := get("/gzk", nil, 200, H("Content-Encoding", "gzip"), 5000, "k11")
	gzk.Gz = true
	add("d37-gzip-chunked-keepalive", "seq", gzk, get("/next", ae, 200, nil, 5, "c"))
	gzc := get("/gzc", H("Connection", "close"), 200, H("Content-Encoding", "gzip"), 300, "c")
	gzc.Gz = true
	add("d37-gzip-then-close", "seq", gzc)
	// the same with a client that asked for gzip: relayed untouched
	gza := get("/gza", H("Accept-Encoding", "gzip"), 200, H("Content-Encoding", "gzip"), 300, "c")
	gza.Gz = true
	add("gzip-asked-for-by-client", "seq", gza, get("/next", ae, 200, nil, 5, "c"))

	// net/http forwards only the first User-Agent value / drops an empty one
	add("ua-twice", "seq", get("/ua2", append(H("User-Agent", "first/1", "User-Agent", "second/2"), ae...), 200, nil, 3, "c"))
	add("ua-empty", "seq", get("/ua0", append(H("User-Agent", ""), ae...), 200, nil, 3, "c"))

	// close in the middle of a pipelined batch: the third request must not be served
	add("close-in-middle-pipelined", "pipe",
		get("/1", ae, 200, nil, 10, "c"),
		get("/2", append(H("Connection", "close"), ae...), 200, nil, 10, "k5"),
		get("/3", ae, 200, nil, 10, "c"))
	add("origin-close-in-middle-seq", "seq",
		get("/1", ae, 200, nil, 10, "c"),
		get("/2", ae, 200, H("Connection", "close"), 10, "c"),
		get("/3", ae, 200, nil, 10, "c"))
	add("close-delimited-body", "seq", get("/1", ae, 200, nil, 10, "c"), get("/x", ae, 200, H("Content-Type", "a/b"), 70000, "x"))

	// HTTP/1.0 on either side
	k10 := get("/k10", append(H("Connection", "keep-alive"), ae...), 200, nil, 4, "c")
	k10.V10 = true
	c10 := get("/c10", ae, 200, nil, 4, "c")
	c10.V10 = true
	add("http10-keepalive-then-http10-close", "seq", k10, c10, get("/never", ae, 200, nil, 1, "c"))
	s10 := get("/s10", ae, 200, H("Connection", "keep-alive"), 4, "c")
	s10.SV10 = true
	s10c := get("/s10c", ae, 200, nil, 4, "c")
	s10c.SV10 = true
	add("origin-http10-keepalive-then-close", "byte", s10, s10c)

	// bodiless responses followed by another exchange on the same connection
	head := get("/h", ae, 200, H("Content-Length", "12345", "ETag", "\"x\""), 0, "n")
	head.Method = "HEAD"
	add("head-204-304-then-get", "pipe", head, get("/204", ae, 204, H("X-A", "1"), 0, "n"), get("/304", ae, 304, H("ETag", "\"y\""), 0, "n"), get("/g", ae, 200, nil, 7, "c"))

	// HEAD: the origin states a length / chunked / nothing; a 304 that states a length (C01-K3)
	hd := func(shs []p1x.Hdr) *exch {
		e := get("/hd", ae, 200, shs, 0, "n")
		e.Method = "HEAD"
		return e
	}
	add("head-length-none-zero", "seq", hd(H("Content-Length", "6000")), hd(nil), hd(H("content-length", "0")), get("/g", ae, 200, nil, 7, "c"))
	add("head-answered-chunked", "seq", hd(H("Transfer-Encoding", "chunked")), get("/g", ae, 200, nil, 7, "c"))
	add("not-modified-with-content-length", "seq", get("/304", ae, 304, H("Content-Length", "99", "ETag", "\"z\""), 0, "n"), get("/g", ae, 200, nil, 7, "c"))
	// bodies around the 4 KiB buffer and a large chunked upload
	post := func(n int, f string) *exch {
		e := get("/p", append(H("Content-Type", "application/octet-stream"), ae...), 201, H("Location", "/p/1"), 4097, "k3")
		e.Method, e.BLen, e.RqF = "POST", n, f
		return e
	}
	p204 := post(10, "c")
	p204.Status, p204.RsF, p204.SBLen, p204.SHdrs = 204, "n", 0, nil
	add("no-content-answer-to-post", "seq", p204, get("/g", ae, 200, nil, 7, "c"))
	add("post-4095-4096-4097", "seq", post(4095, "c"), post(4096, "k9"), post(4097, "c"))
	add("post-1MiB-chunked-then-get", "seq", post(1<<20, "k77"), get("/after", ae, 200, nil, 65537, "k4"))
	add("post-pipelined-bodies", "pipe", post(70000, "c"), post(4097, "k5"), post(0, "c"), get("/after", ae, 200, nil, 1, "c"))

	// absolute-form target with a lying Host field, empty path, repeated mixed-case headers, nominated hop header, Pragma
	abs := get("", append(H("X-A", "1", "x-a", "2", "X-a", "", "Connection", "x-hop", "X-Hop", "secret", "Pragma", "no-cache", "Cookie", "a=1", "cookie", "b=2"), ae...),
		200, H("Set-Cookie", "a=1", "set-cookie", "b=2", "SET-COOKIE", "c=3", "Vary", "Accept", "vary", "Cookie"), 100, "c")
	abs.Abs = true
	abs.Hdrs[0].Value = "bogus.invalid"
	q := get("?only=query", ae, 200, nil, 2, "c")
	q.Abs = true
	add("absolute-form-host-mismatch-empty-path", "seq", abs, q)

	// partial pipelining: part of request i+1 arrives together with request i
	for _, sd := range []string{"part1", "part2", "part3", "part4", "part5", "part6"} {
		add("partial-next-request-"+sd, sd, post(100, "c"), post(5000, "k9"), get("/g", ae, 200, nil, 10, "c"), post(3, "c"), get("/h", ae, 200, nil, 4097, "k7"))
	}
	// the origin answers an upload on its head alone; the next requests follow on the same connection
	for i, k := range []int{0, 1000, 299999} {
		up := post(300000, "c")
		up.Rd = k
		add(fmt.Sprintf("origin-answers-before-reading-upload-%d", i), []string{"seq", "pipe", "part9"}[i], up, get("/after", ae, 200, nil, 7, "c"), post(10, "c"))
	}
	// the origin takes the request and hangs up: POST with an empty body, POST with a body, then more exchanges
	fz := post(0, "c")
	fz.Fault = 0
	fb := post(3000, "c")
	fb.Fault = 17
	add("origin-hangs-up-after-post-content-length-0", "seq", get("/1", ae, 200, nil, 3, "c"), fz, get("/3", ae, 200, nil, 3, "c"))
	add("origin-hangs-up-inside-head-after-post-with-body", "seq", fb, get("/2", ae, 200, nil, 3, "c"), post(10, "c"))
	// big heads
	add("response-head-5KB-one-value", "seq", get("/big", ae, 200, H("X-Big", strings.Repeat("0123456789", 500)), 10, "c"), get("/2", ae, 200, nil, 3, "c"))
	var ck []p1x.Hdr
	for n := 0; n < 60; n++ {
		ck = append(ck, p1x.Hdr{Name: "Set-Cookie", Value: fmt.Sprintf("c%d=%s", n, strings.Repeat("v", 990))})
	}
	add("response-head-60KB-many-set-cookie", "seq", get("/cookies", ae, 200, ck, 10, "k3"), get("/2", ae, 200, nil, 3, "c"))
	// three client connections in a row through one proxy, slow origin
	m := []string{"H1", "multi.1500.300"}
	for c := 0; c < 3; c++ {
		if c > 0 {
			m = append(m, "N")
		}
		m = append(m, get(fmt.Sprintf("/c%d/1", c), ae, 200, nil, 10, "c").token(), post(10, "c").token(), get(fmt.Sprintf("/c%d/3", c), ae, 200, nil, 10, "k3").token())
	}
	cs = append(cs, hx.Case{Name: "three-connections-share-the-pool-beyond-the-timeout", In: m})
	// HTTP/1.0 keep-alive client, chunked origin
	h10 := get("/h10", append(H("Connection", "keep-alive"), ae...), 200, nil, 100, "k7")
	h10.V10 = true
	add("http10-keepalive-client-chunked-origin", "seq", h10, get("/after", ae, 200, nil, 5, "c"))
	// connection older than the proxy timeout, every pause far below it
	add("lifetime-exceeds-proxy-timeout", "life.1500.400",
		get("/1", ae, 200, nil, 10, "c"), get("/2", ae, 200, nil, 10, "k3"), post(10, "c"), get("/4", ae, 204, nil, 0, "n"),
		get("/5", ae, 200, nil, 10, "c"), get("/6", ae, 200, nil, 10, "c"), get("/7", ae, 200, nil, 10, "c"))
	return cs
}
