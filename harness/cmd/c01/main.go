// c01 drives a real martian.NewProxy() (no modifiers) between a raw TCP client
// and a raw-listener origin and records, per connection, what the origin
// received and what the client received.
//
// IN tokens:   H1 <mode> <exchange>*
//
//	mode      seq | pipe | byte   (one request at a time / all requests in one write / head written byte by byte)
//	          part<seed>          request i+1 is PARTLY written together with request i (cut inside its request line,
//	                              header block or body, chosen from seed); the rest is sent only after response i arrived
//	          multi.<T>.<G>       several client connections (separated by the token N) one after the other through the same
//	                              proxy, see multi.go
//	          life.<T>.<G>        proxy.SetTimeout(T ms); the client pauses G ms before every request (G << T, total lifetime > T)
//	exchange  X:<METHOD>:<o|a>:<hex path?query>:<0|1 http/1.0>:<hdrs>:<len>.<seed>.<digest>:<c|k<seed>|n>
//	           :<status>:<0|1 http/1.0>:<hdrs>:<[z]len>.<seed>.<digest>.<bytes on the wire>:<c|k<seed>|x|n>   (z: gzip of the generated body)
//	           [:a | :e<k>]   how the origin reads the request body: a = all of it before answering (default),
//	                          e<k> = it answers after k bytes of the body (e0: on the head alone) and reads the rest afterwards
//	           [:f<k>]        origin FAULT: it reads the whole request, writes the first k bytes of its response head (never
//	                          all of it) and closes the connection; the client is then owed the proxy's 502
//	hdrs      hexname=hexvalue,...  or -   (the literal text ORIGIN inside a value stands for the origin's host:port)
//
// OUT tokens:  Q:<METHOD>:<hex target>:<hdrs lower-cased names>:<len>.<digest>   one per request the origin received
//
//	R:<status>:<hdrs>:<len>.<digest>:<framing seen>:<ok|incomplete|err-...>   one per response the client parsed
//	END:<open|closed|stuck-...>      state of the client connection after the last response
//	OERR:<text>                     origin-side anomaly (unparseable request from the proxy ...)
package main

import (
	"bufio"
	"bytes"
	"compress/gzip"
	"fmt"
	"net"
	"net/http"
	"os"
	"strconv"
	"strings"
	"sync/atomic"
	"time"

	martian "github.com/google/martian/v3"
	mlog "github.com/google/martian/v3/log"
	"verifharness/hx"
	"verifharness/p1x"
)

type exch struct {
	Method string
	Abs    bool
	PQ     string
	V10    bool
	Hdrs   []p1x.Hdr
	BLen   int
	BSeed  uint64
	RqF    string // c | k<seed> | n

	Status int
	SV10   bool
	SHdrs  []p1x.Hdr
	Gz     bool
	SBLen  int
	SBSeed uint64
	RsF    string // c | k<seed> | x | n
	Rd     int    // -1: the origin reads the whole request before answering; k >= 0: it answers after k body bytes
	Fault  int    // -1: none; k >= 0: the origin reads the request, writes k bytes of its response head (never all of it) and closes
}

func (e *exch) reqBody() []byte { return p1x.GenBody(e.BLen, e.BSeed) }

func (e *exch) resBody() []byte {
	b := p1x.GenBody(e.SBLen, e.SBSeed)
	if !e.Gz {
		return b
	}
	// compressible content so that gzip really changes length
	for i := range b {
		b[i] = "abcdefgh"[b[i]&7]
	}
	var buf bytes.Buffer
	zw, _ := gzip.NewWriterLevel(&buf, gzip.BestSpeed)
	zw.Write(b)
	zw.Close()
	return buf.Bytes()
}

func (e *exch) token() string {
	form := "o"
	if e.Abs {
		form = "a"
	}
	z := ""
	if e.Gz {
		z = "z"
	}
	rb, sb := e.reqBody(), e.resBody()
	rd := ""
	if e.Rd >= 0 {
		rd = fmt.Sprintf(":e%d", e.Rd)
	}
	if e.Fault >= 0 {
		rd += fmt.Sprintf(":f%d", e.Fault)
	}
	return fmt.Sprintf("X:%s:%s:%s:%d:%s:%d.%d.%d:%s:%d:%d:%s:%s%d.%d.%d.%d:%s"+rd,
		e.Method, form, hx.HexS(e.PQ)[1:], b2i(e.V10), p1x.HdrTok(e.Hdrs, false), len(rb), e.BSeed, p1x.Digest(rb), e.RqF,
		e.Status, b2i(e.SV10), p1x.HdrTok(e.SHdrs, false), z, e.SBLen, e.SBSeed, p1x.Digest(sb), len(sb), e.RsF)
}

func b2i(b bool) int {
	if b {
		return 1
	}
	return 0
}

func parseExch(tok string) (*exch, error) {
	f := strings.Split(tok, ":")
	if len(f) < 13 || len(f) > 15 || f[0] != "X" {
		return nil, fmt.Errorf("bad exchange token (%d fields)", len(f))
	}
	e := &exch{Method: f[1], Abs: f[2] == "a", V10: f[4] == "1", RqF: f[7], SV10: f[9] == "1", RsF: f[12], Rd: -1, Fault: -1}
	for _, opt := range f[13:] {
		switch {
		case opt == "a" || opt == "":
		case strings.HasPrefix(opt, "e") || strings.HasPrefix(opt, "f"):
			k, err := strconv.Atoi(opt[1:])
			if err != nil || k < 0 {
				return nil, fmt.Errorf("bad option")
			}
			if opt[0] == 'e' {
				e.Rd = k
			} else {
				e.Fault = k
			}
		default:
			return nil, fmt.Errorf("bad option")
		}
	}
	pq, err := hx.UnHex("x" + f[3])
	if err != nil {
		return nil, err
	}
	e.PQ = string(pq)
	if e.Hdrs, err = p1x.ParseHdrTok(f[5]); err != nil {
		return nil, err
	}
	b := strings.Split(f[6], ".")
	if len(b) != 3 {
		return nil, fmt.Errorf("bad body spec")
	}
	e.BLen, _ = strconv.Atoi(b[0])
	e.BSeed, _ = strconv.ParseUint(b[1], 10, 64)
	e.Status, _ = strconv.Atoi(f[8])
	if e.SHdrs, err = p1x.ParseHdrTok(f[10]); err != nil {
		return nil, err
	}
	sb := f[11]
	if strings.HasPrefix(sb, "z") {
		e.Gz = true
		sb = sb[1:]
	}
	b = strings.Split(sb, ".")
	if len(b) != 4 {
		return nil, fmt.Errorf("bad body spec")
	}
	e.SBLen, _ = strconv.Atoi(b[0])
	e.SBSeed, _ = strconv.ParseUint(b[1], 10, 64)
	if e.BLen < 0 || e.BLen > 64<<20 || e.SBLen < 0 || e.SBLen > 64<<20 {
		return nil, fmt.Errorf("body too large")
	}
	return e, nil
}

func chunkSizes(spec string, n int) []int {
	seed, _ := strconv.ParseUint(spec[1:], 10, 64)
	r := hx.NewRNG(seed)
	k := r.Range(1, 6)
	max := n/4 + 1
	if n > 20000 && max < 64 {
		max = 64
	}
	sz := make([]int, k)
	for i := range sz {
		if n <= 20000 && r.Chance(1, 3) {
			sz[i] = r.Range(1, 17)
		} else {
			sz[i] = r.Range(max/8+1, max)
		}
	}
	return sz
}

func subst(s, origin string) string { return strings.ReplaceAll(s, "ORIGIN", origin) }

// requestBytes serialises the client's request exactly as scripted.
func (e *exch) requestBytes(origin string) (head, body []byte) {
	var b bytes.Buffer
	target := e.PQ
	if e.Abs {
		target = "http://" + origin + e.PQ
	}
	v := "1.1"
	if e.V10 {
		v = "1.0"
	}
	fmt.Fprintf(&b, "%s %s HTTP/%s\r\n", e.Method, target, v)
	for _, h := range e.Hdrs {
		fmt.Fprintf(&b, "%s: %s\r\n", h.Name, subst(h.Value, origin))
	}
	rb := e.reqBody()
	switch e.RqF[0] {
	case 'c':
		fmt.Fprintf(&b, "Content-Length: %d\r\n\r\n", len(rb))
		body = rb
	case 'k':
		b.WriteString("Transfer-Encoding: chunked\r\n\r\n")
		body = p1x.ChunkEncode(rb, chunkSizes(e.RqF, len(rb)))
	default:
		b.WriteString("\r\n")
	}
	return b.Bytes(), body
}

// originAction: what the origin does once it has the request.
func (e *exch) originAction() p1x.Action {
	rb := e.responseBytes()
	if e.Fault >= 0 {
		k := e.Fault
		if end := bytes.Index(rb, []byte("\r\n\r\n")); k > end+2 {
			k = end + 2 // never the complete head
		}
		return p1x.Action{Bytes: rb[:k], Close: true}
	}
	return p1x.Action{Bytes: rb, Close: e.originCloses()}
}

func (e *exch) originCloses() bool {
	if e.RsF == "x" || p1x.HasToken(e.SHdrs, "Connection", "close") {
		return true
	}
	return e.SV10 && !p1x.HasToken(e.SHdrs, "Connection", "keep-alive")
}

func (e *exch) responseBytes() []byte {
	var b bytes.Buffer
	v := "1.1"
	if e.SV10 {
		v = "1.0"
	}
	txt := http.StatusText(e.Status)
	if txt == "" {
		txt = "Status"
	}
	fmt.Fprintf(&b, "HTTP/%s %d %s\r\n", v, e.Status, txt)
	for _, h := range e.SHdrs {
		fmt.Fprintf(&b, "%s: %s\r\n", h.Name, h.Value)
	}
	sb := e.resBody()
	switch e.RsF[0] {
	case 'c':
		fmt.Fprintf(&b, "Content-Length: %d\r\n\r\n", len(sb))
		b.Write(sb)
	case 'k':
		b.WriteString("Transfer-Encoding: chunked\r\n\r\n")
		b.Write(p1x.ChunkEncode(sb, chunkSizes(e.RsF, len(sb))))
	case 'x':
		b.WriteString("\r\n")
		b.Write(sb)
	default:
		b.WriteString("\r\n")
	}
	return b.Bytes()
}

// partialCut picks how many bytes of the next request (head h, body b) are
// written together with the current one: inside the request line, inside the
// header block (never completing it), or inside the body.
func partialCut(r *hx.RNG, h, b []byte) int {
	lineEnd := bytes.Index(h, []byte("\r\n"))
	switch k := r.Intn(3); {
	case k == 0 || lineEnd+2 >= len(h)-1:
		return r.Range(1, lineEnd+1)
	case k == 1 || len(b) == 0:
		return r.Range(lineEnd+2, len(h)-1)
	default:
		return len(h) + r.Range(0, len(b)-1)
	}
}

const sentinel = "/__verif_sentinel"

var idle = 8 * time.Second

// stuck counts cases that ended in a client-side timeout. A healthy proxy
// never produces one; once a proxy has produced many, waiting out the full
// grace period (twice) for every further case only burns the time budget.
var stuck int32

func idleNow() time.Duration {
	if atomic.LoadInt32(&stuck) > 16 {
		return idle / 8
	}
	return idle
}

func runCase(in []string) (out []string) {
	defer func() {
		if r := recover(); r != nil {
			out = append(out, fmt.Sprintf("PANIC:%s", hx.HexS(fmt.Sprint(r))))
		}
	}()
	if len(in) < 2 || in[0] != "H1" {
		return []string{"BADCASE"}
	}
	mode := in[1]
	if strings.HasPrefix(mode, "multi.") {
		return runMulti(in)
	}
	var exs []*exch
	for _, t := range in[2:] {
		e, err := parseExch(t)
		if err != nil {
			return []string{"BADCASE:" + hx.HexS(err.Error())}
		}
		exs = append(exs, e)
	}

	served := 0
	// An origin that answers before it has read the body only matters when the
	// rest of the upload cannot simply sit in socket buffers. Uploads of many
	// MiB do that by themselves; for smaller ones the two sockets between
	// proxy and origin get small buffers (origin: listening socket option;
	// proxy: through the public SetDial).
	early, smallbuf := false, false
	for _, e := range exs {
		if e.Rd >= 0 {
			early = true
			if e.BLen < 8<<20 {
				smallbuf = true
			}
		}
	}
	rcv := 0
	if smallbuf {
		rcv = 4096
	}
	origin, err := p1x.NewOriginBuf(false, rcv, nil)
	if err != nil {
		return []string{"ENV:listen"}
	}
	defer origin.Close()
	if early {
		origin.Early = func(m *p1x.Msg) int {
			if served < len(exs) && m.Target != sentinel {
				return exs[served].Rd
			}
			return -1
		}
	}
	origin.SetHandler(func(idx int, m *p1x.Msg) p1x.Action {
		if m.Target == sentinel {
			return p1x.Action{Bytes: []byte("HTTP/1.1 200 OK\r\nContent-Length: 2\r\nConnection: close\r\n\r\nok"), Close: true}
		}
		j := served
		served++
		if j >= len(exs) {
			return p1x.Action{Bytes: []byte("HTTP/1.1 500 Unexpected\r\nContent-Length: 0\r\nConnection: close\r\n\r\n"), Close: true}
		}
		return exs[j].originAction()
	})

	pl, err := net.Listen("tcp", "127.0.0.1:0")
	if err != nil {
		return []string{"ENV:listen"}
	}
	proxy := martian.NewProxy()
	if smallbuf {
		d := &net.Dialer{Timeout: 30 * time.Second, KeepAlive: 30 * time.Second}
		proxy.SetDial(func(network, addr string) (net.Conn, error) {
			c, err := d.Dial(network, addr)
			if tc, ok := c.(*net.TCPConn); ok && err == nil {
				tc.SetWriteBuffer(4096)
			}
			return c, err
		})
	}
	var gap time.Duration
	if strings.HasPrefix(mode, "life.") {
		f := strings.Split(mode, ".")
		if len(f) != 3 {
			return []string{"BADCASE"}
		}
		t, _ := strconv.Atoi(f[1])
		g, _ := strconv.Atoi(f[2])
		if t < 100 || g < 0 || g > 5000 {
			return []string{"BADCASE"}
		}
		proxy.SetTimeout(time.Duration(t) * time.Millisecond)
		gap = time.Duration(g) * time.Millisecond
	}
	go proxy.Serve(pl)
	defer func() {
		pl.Close()
		done := make(chan struct{})
		go func() { proxy.Close(); close(done) }()
		select {
		case <-done:
		case <-time.After(5 * time.Second):
		}
		if tr, ok := proxy.GetRoundTripper().(*http.Transport); ok {
			tr.CloseIdleConnections()
		}
	}()

	conn, err := net.Dial("tcp", pl.Addr().String())
	if err != nil {
		return []string{"ENV:dial"}
	}
	defer conn.Close()
	br := bufio.NewReaderSize(conn, 64*1024)

	var resps []*p1x.Msg
	end := ""
	record := func(m *p1x.Msg) bool { // returns false when the connection is finished
		if m == nil {
			end = "closed"
			return false
		}
		resps = append(resps, m)
		if m.Err != "" {
			end = "stuck-" + m.Err
			return false
		}
		if m.EOF {
			end = "closed"
			return false
		}
		return true
	}

	switch mode {
	case "pipe":
		var all bytes.Buffer
		for _, e := range exs {
			h, b := e.requestBytes(origin.Addr)
			all.Write(h)
			all.Write(b)
		}
		go func() {
			conn.SetWriteDeadline(time.Now().Add(60 * time.Second))
			conn.Write(all.Bytes())
		}()
		for _, e := range exs {
			conn.SetReadDeadline(time.Now().Add(idleNow()))
			if !record(p1x.ReadResponse(br, e.Method, false)) {
				break
			}
		}
	default:
		var cutRNG *hx.RNG
		if strings.HasPrefix(mode, "part") {
			seed, _ := strconv.ParseUint(mode[4:], 10, 64)
			cutRNG = hx.NewRNG(seed)
		}
		var pending []byte // what is still to be sent of the current request
		for i, e := range exs {
			if i == 0 || cutRNG == nil {
				h, b := e.requestBytes(origin.Addr)
				pending = append(append([]byte{}, h...), b...)
			}
			now := pending
			pending = nil
			if cutRNG != nil && i+1 < len(exs) {
				h, b := exs[i+1].requestBytes(origin.Addr)
				next := append(append([]byte{}, h...), b...)
				cut := partialCut(cutRNG, h, b)
				now = append(append([]byte{}, now...), next[:cut]...)
				pending = next[cut:]
			}
			if gap > 0 && i > 0 {
				time.Sleep(gap)
			}
			conn.SetWriteDeadline(time.Now().Add(60 * time.Second))
			if mode == "byte" {
				h, _ := e.requestBytes(origin.Addr)
				p1x.WriteSlow(conn, now, len(h)+200)
			} else {
				// a write error means the proxy closed the connection before (or
				// while) we wrote: whatever it sent is still readable.
				conn.Write(now)
			}
			conn.SetReadDeadline(time.Now().Add(idleNow()))
			if !record(p1x.ReadResponse(br, e.Method, false)) {
				break
			}
		}
		if gap > 0 && end == "" {
			time.Sleep(gap)
		}
	}
	if end == "" {
		// every response arrived and the connection was not seen closing: is it usable?
		conn.SetDeadline(time.Now().Add(idleNow()))
		fmt.Fprintf(conn, "GET %s HTTP/1.1\r\nHost: %s\r\nConnection: close\r\n\r\n", sentinel, origin.Addr)
		m := p1x.ReadResponse(br, "GET", true)
		switch {
		case m == nil:
			end = "closed"
		case m.Err == "" && m.Status == 200 && string(m.Body) == "ok":
			end = "open"
		default:
			end = "stuck-sentinel-" + m.Err
		}
	}

	seen, oerrs := origin.Snapshot()
	for _, m := range seen {
		if m.Target == sentinel {
			continue
		}
		hs := make([]p1x.Hdr, len(m.Hdrs))
		for i, h := range m.Hdrs {
			hs[i] = p1x.Hdr{Name: h.Name, Value: strings.ReplaceAll(h.Value, origin.Addr, "ORIGIN")}
		}
		out = append(out, fmt.Sprintf("Q:%s:%s:%s:%d.%d", m.Method, hx.HexS(strings.ReplaceAll(m.Target, origin.Addr, "ORIGIN"))[1:],
			p1x.HdrTok(hs, true), m.BodyLen, m.BodyDg))
	}
	for _, m := range resps {
		st := "ok"
		if m.Err != "" {
			st = "err-" + m.Err
		} else if !m.Complete {
			st = "incomplete"
		} else if m.Stray > 0 {
			st = "stray-crlf-before-status-line"
		}
		fr := m.Framing
		if fr == "" {
			fr = "?"
		}
		out = append(out, fmt.Sprintf("R:%d:%s:%d.%d:%s:%s", m.Status, p1x.HdrTok(m.Hdrs, true), m.BodyLen, m.BodyDg, fr, st))
	}
	out = append(out, "END:"+end)
	for _, e := range oerrs {
		out = append(out, "OERR:"+hx.HexS(e)[1:])
	}
	return out
}

// runRobust re-runs a case once when it ended in a client-side timeout, to
// separate an overloaded machine from a proxy that really is stuck.
func runRobust(in []string) []string {
	out := runCase(in)
	if len(in) > 1 && strings.HasPrefix(in[1], "multi.") {
		// as for lifetime scripts: no close signals, so everything must be
		// answered and every connection open; once more before reporting
		nx, nr, bad := 0, 0, false
		for _, t := range in[2:] {
			if t != "N" {
				nx++
			}
		}
		for _, t := range out {
			if strings.HasPrefix(t, "R:") {
				nr++
			}
			if strings.HasPrefix(t, "END:") && t != "END:open" {
				bad = true
			}
		}
		if nr != nx || bad {
			return runCase(in)
		}
		return out
	}
	if len(in) > 1 && strings.HasPrefix(in[1], "life.") {
		// lifetime scripts carry no close signal: anything but a fully served,
		// still open connection is either the defect or a stalled machine
		// (a pause that outlasted the short proxy timeout); run it once more.
		n := 0
		for _, t := range out {
			if strings.HasPrefix(t, "R:") {
				n++
			}
		}
		if n != len(in)-2 || out[len(out)-1] != "END:open" {
			return runCase(in)
		}
	}
	for _, t := range out {
		if strings.Contains(t, "timeout") || strings.HasPrefix(t, "ENV:") {
			if atomic.AddInt32(&stuck, 1) > 16 {
				return out
			}
			return runCase(in)
		}
	}
	return out
}

func main() {
	mlog.SetLevel(mlog.Silent)
	for i, a := range os.Args {
		if a == "-extra" && i+1 < len(os.Args) && os.Args[i+1] == "worker" {
			if v := os.Getenv("VERIF_C01_IDLE_MS"); v != "" {
				ms, _ := strconv.Atoi(v)
				idle = time.Duration(ms) * time.Millisecond
			}
			workerMain()
			return
		}
	}
	cfg := hx.ParseFlags()
	defer cfg.Close()
	if v := os.Getenv("VERIF_C01_IDLE_MS"); v != "" {
		ms, _ := strconv.Atoi(v)
		idle = time.Duration(ms) * time.Millisecond
	}
	if cfg.Extra == "mkcorpus" {
		for _, c := range corpus() {
			cfg.Emit(c)
		}
		return
	}
	var cases []hx.Case
	pre, replayOnly := cfg.Inputs()
	cases = append(cases, pre...)
	if !replayOnly {
		cases = append(cases, generate(cfg)...)
	}
	outs := runAll(cases)
	for i, c := range cases {
		cfg.Emit(hx.Case{Name: c.Name, In: c.In, Out: outs[i]})
	}
}
