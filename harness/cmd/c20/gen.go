package main

import (
	"fmt"
	"strconv"
	"strings"

	"verifharness/hx"
)

var ctypes = []string{"text/plain", "application/octet-stream", "text/html; charset=utf-8", "", "image/png"}

var sizes = []int{0, 1, 2, 3, 9, 10, 11, 100, 255, 256, 257, 1000}
var bigSizes = []int{4095, 4096, 4097, 65535, 65536}

var hugeNums = []string{
	"2147483647", "2147483648", "4294967295", "4294967296", "99999999999",
	"9223372036854775806", "9223372036854775807", "9223372036854775808",
	"18446744073709551615", "18446744073709551616", "100000000000000000000000000000",
	"00000000000000000000000000000000000007", "000", "281474976710656", "281474976710657",
}

// near picks a number at or around an interesting position of a body of n bytes.
func near(r *hx.RNG, n int) string {
	c := []int{0, 1, 2, n / 2, n - 2, n - 1, n, n + 1, n + 2, 2*n + 1, n + 100}
	v := c[r.Intn(len(c))]
	if r.Chance(1, 3) {
		v = r.Intn(n + 3)
	}
	if v < 0 {
		v = 0
	}
	return strconv.Itoa(v)
}

func inside(r *hx.RNG, n int) (int, int) {
	if n == 0 {
		return 0, 0
	}
	a := r.Intn(n)
	b := a + r.Intn(n-a)
	return a, b
}

// spec generates one byte-range-spec; kind is returned for the histogram.
func spec(r *hx.RNG, n int) (string, string) {
	switch k := r.Intn(100); {
	case k < 30: // inside the content
		a, b := inside(r, n)
		return fmt.Sprintf("%d-%d", a, b), "inside"
	case k < 42: // open ended
		return near(r, n) + "-", "open"
	case k < 54: // suffix
		return "-" + near(r, n), "suffix"
	case k < 68: // anything around the boundaries: past the end, reversed, start past the end
		return near(r, n) + "-" + near(r, n), "around"
	case k < 74: // huge
		h := hugeNums[r.Intn(len(hugeNums))]
		switch r.Intn(4) {
		case 0:
			return near(r, n) + "-" + h, "huge"
		case 1:
			return h + "-", "huge"
		case 2:
			return "-" + h, "huge"
		default:
			return h + "-" + hugeNums[r.Intn(len(hugeNums))], "huge"
		}
	case k < 80: // other spellings of in-range numbers: only plain decimal (with leading zeros) counts
		a, b := inside(r, n)
		f := []string{"0x%x", "0X%X", "0%o", "0o%o", "0b%b", "00%d", "%d.0", "%de0", "%d_", "_%d", "0_%d", "%d\x00", "%dL", "#%d"}
		fa, fb := f[r.Intn(len(f))], "%d"
		if r.Chance(1, 2) {
			fa, fb = "%d", f[r.Intn(len(f))]
		}
		return fmt.Sprintf(fa, a) + "-" + fmt.Sprintf(fb, b), "numeric-forms"
	case k < 86: // spaces and signs the parser tolerates
		a, b := inside(r, n)
		sp := []string{" ", "\t", "  ", "\u00a0", "\u2003", "\u3000", "\r\n", "\u0085"}
		s := func() string {
			if r.Chance(1, 2) {
				return sp[r.Intn(len(sp))]
			}
			return ""
		}
		sign := func() string {
			if r.Chance(1, 4) {
				return "+"
			}
			return ""
		}
		switch r.Intn(3) {
		case 0:
			return s() + sign() + strconv.Itoa(a) + s() + "-" + s() + sign() + strconv.Itoa(b) + s(), "spaced"
		case 1:
			return s() + sign() + strconv.Itoa(a) + s() + "-" + s(), "spaced"
		default:
			return s() + "-" + s() + sign() + strconv.Itoa(b+1) + s(), "spaced"
		}
	default: // malformed
		m := []string{"", "-", "--", "a-b", "1-2-3", "1", "abc", "1--2", "-1-2", "0x10-0x20", "1_0-2_0",
			"1.5-2", "\u0661-\u0662", "1-b", "a-2", " ", "-+", "+-", "+", "1-2 3", "\u0661", "-\u00a0", "\xff-\xfe", "0-\xc2", "\u0130-\u212a",
			"e-s", "5-=", "=-5", "1e3-2e3", "-0", "-00", "0-0", "+0-+0", "-+0"}
		return m[r.Intn(len(m))], "malformed"
	}
}

var units = []string{"bytes=", "bytes=", "bytes=", "bytes=", "bytes=", "bytes=", "BYTES=", "Bytes=", "bytes =", "bytes= ",
	"", "bytes", "seyb=", "bytes=bytes=", "=", "b=", "items=", "bytes:", "\u0130bytes=", "\u212a=", "bytes=e", "bytes=s5-6,", "none"}

func rangeHeader(r *hx.RNG, n int, cfg *hx.Config) string {
	var sb strings.Builder
	sb.WriteString(units[r.Intn(len(units))])
	cnt := 1
	switch k := r.Intn(10); {
	case k < 5:
		cnt = 1
	case k < 8:
		cnt = r.Range(2, 3)
	default:
		cnt = r.Range(4, 12)
	}
	seps := []string{",", ",", ", ", " ,", ",,", ";"}
	for i := 0; i < cnt; i++ {
		if i > 0 {
			sb.WriteString(seps[r.Intn(len(seps))])
		}
		s, kind := spec(r, n)
		cfg.Count("spec=" + kind)
		sb.WriteString(s)
	}
	h := sb.String()
	// mutations: insert / delete / replace / duplicate bytes
	if r.Chance(1, 5) {
		alpha := "0123456789-,= \tbytesBYTES+\xc2\xa0\xff\u0130"
		b := []byte(h)
		for m := r.Range(1, 3); m > 0 && len(b) > 0; m-- {
			i := r.Intn(len(b))
			switch r.Intn(4) {
			case 0:
				b = append(b[:i], append([]byte{alpha[r.Intn(len(alpha))]}, b[i:]...)...)
			case 1:
				b = append(b[:i], b[i+1:]...)
			case 2:
				b[i] = alpha[r.Intn(len(alpha))]
			default:
				b = append(b[:i], append([]byte{b[i]}, b[i:]...)...)
			}
		}
		h = string(b)
		cfg.Count("hdr=mutated")
	}
	return h
}

func content(r *hx.RNG, n int) []byte {
	if n <= 4096 && r.Chance(1, 2) {
		return r.Bytes(n)
	}
	return pattern(n, r.Intn(256))
}

// wireSafe: the header survives http.ReadRequest unchanged enough to be interesting
func wireSafe(h string) bool {
	for i := 0; i < len(h); i++ {
		if h[i] < 0x20 && h[i] != '\t' || h[i] == 0x7f {
			return false
		}
	}
	return true
}

var segs = []string{"a.txt", "sub", "deep", "b.html", "c.json", "..", "..", "..", ".", "", "%2e%2e", "%2E%2e", ".%2e", "%2e.",
	"%2f", "..%2f", "%2e%2e%2f", "..%2f..%2f", "secret.txt", "outside", "rootx", "root", "...", "a..b", "..x", "%252e%252e",
	"big.bin", "empty.bin", "one.bin", "k4.bin", "dir.d", "f.txt", ".hidden", "sp%20ace.txt", "%00", "%5c..%5c", "..;", "nope.txt",
	"..%00", "%c0%ae%c0%ae", "%2e%2e%5c", "a.txt%2f..", "a.txt/"}

func target(r *hx.RNG) string {
	var sb strings.Builder
	switch r.Intn(12) {
	case 0:
		sb.WriteString("http://example.com")
	case 1:
		sb.WriteString("http://example.com:8080")
	}
	n := r.Range(1, 6)
	for i := 0; i < n; i++ {
		if r.Chance(1, 6) {
			sb.WriteString("//")
		} else {
			sb.WriteString("/")
		}
		sb.WriteString(segs[r.Intn(len(segs))])
	}
	if r.Chance(1, 8) {
		sb.WriteString("?q=/../../secret.txt")
	}
	return sb.String()
}

// goodTargets resolve to files inside the root, through detours
var goodTargets = []string{"/a.txt", "/sub/b.html", "/sub/deep/c.json", "/big.bin", "/empty.bin", "/one.bin", "/k4.bin",
	"/sub/../a.txt", "//a.txt", "/./sub/./deep/../b.html", "/sub/deep/../../a.txt", "/../a.txt", "/../../../a.txt",
	"/%2e%2e/a.txt", "/sub/%2e%2e/a.txt", "/sub%2f..%2fa.txt", "/sp%20ace.txt", "/a..b", "/...", "/..x", "/%252e%252e",
	"/sub/.hidden", "/dir.d/f.txt", "/secret.txt", "/../secret.txt", "/sub/../../secret.txt", "/%2e%2e%2fsecret.txt",
	"http://example.com/a.txt", "http://example.com/../secret.txt", "/a.txt?x=1"}

func unrootedPath(r *hx.RNG) string {
	c := []string{"../secret.txt", "../a.txt", "..", "", "../outside/secret.txt", "../rootx/a.txt", "a.txt", "sub/../../secret.txt",
		"./a.txt", "../root/a.txt", "../../../../../../etc/passwd", "sub/b.html", "*", "../root/../secret.txt", "a/../../secret.txt"}
	return c[r.Intn(len(c))]
}

func hdrTok(h string, has bool) string {
	if !has {
		return "-"
	}
	return hx.HexS(h)
}

func generate(cfg *hx.Config, emit func(string, []string)) {
	rng := hx.NewRNG(cfg.Seed)
	mul := 1
	if cfg.Thorough() {
		mul = 50
	}

	// 0. stdlib ties: Clean, Join, Atoi, TrimSpace, Itoa, ToLower
	for k := 0; k < 500*mul; k++ {
		r := rng.Fork()
		var p string
		switch r.Intn(3) {
		case 0:
			p = target(r)
			if i := strings.Index(p, "?"); i >= 0 {
				p = p[:i]
			}
			p = strings.TrimPrefix(p, "http://example.com")
		case 1:
			p = unrootedPath(r)
		default:
			a := "/.ab"
			b := make([]byte, r.Range(0, 9))
			for i := range b {
				b[i] = a[r.Intn(len(a))]
			}
			p = string(b)
		}
		emit("clean", []string{"CLEAN", hx.HexS(p)})
		cfg.Count("tie=clean")
		if k%3 == 0 {
			roots := []string{"/R", "/", "/tmp/x/root", ".", "rel/root", "../up", ""}
			emit("join", []string{"JOIN", hx.HexS(roots[r.Intn(len(roots))]), hx.HexS(p)})
			cfg.Count("tie=join")
		}
	}
	for k := 0; k < 300*mul; k++ {
		r := rng.Fork()
		var s string
		switch r.Intn(4) {
		case 0:
			s = hugeNums[r.Intn(len(hugeNums))]
		case 1:
			s = strconv.Itoa(r.Intn(100000))
		case 2:
			s, _ = spec(r, 10)
		default:
			a := "0123456789+- _a"
			b := make([]byte, r.Range(0, 22))
			for i := range b {
				b[i] = a[r.Intn(len(a))]
			}
			s = string(b)
		}
		if r.Chance(1, 4) {
			s = "-" + s
		} else if r.Chance(1, 6) {
			s = "+" + s
		}
		emit("atoi", []string{"ATOI", hx.HexS(s)})
		sp := []string{" ", "\t", "\u00a0", "\u2000", "\u3000", "\u0085", "\u1680", "\u2028", "\u2029", "\u202f", "\u205f", "\u200a", "\u200b", "\xa0", "\xc2", "\u180e", "\ufeff", "\v", "\f", "\x1c", "\x85", "\n", "\r"}
		t := sp[r.Intn(len(sp))] + sp[r.Intn(len(sp))] + s + sp[r.Intn(len(sp))]
		if r.Chance(1, 3) {
			t = s + sp[r.Intn(len(sp))] + "X" + sp[r.Intn(len(sp))]
		}
		emit("trim", []string{"TRIM", hx.HexS(t)})
		emit("itoa", []string{"ITOA", strconv.FormatInt(int64(r.Uint64()>>uint(r.Intn(64))), 10)})
		emit("lower", []string{"LOWER", hx.HexS(rangeHeader(r, 10, cfg))})
		cfg.CountN("tie=atoi/trim/itoa/lower", 4)
	}

	// 1. body.Modifier, small scope exhaustive: every header "bytes=" + w, w over a
	//    6-letter alphabet up to length 4 (5 in thorough), on contents of 0..3 bytes
	alpha := []string{"0", "1", "3", "-", ",", " "}
	L := 4
	if cfg.Thorough() {
		L = 5
	}
	var words []string
	var rec func(w string, d int)
	rec = func(w string, d int) {
		words = append(words, w)
		if d == L {
			return
		}
		for _, a := range alpha {
			rec(w+a, d+1)
		}
	}
	rec("", 0)
	for n := 0; n <= 3; n++ {
		c := hx.Hex(pattern(n, 65))
		for _, w := range words {
			emit("exh", []string{"BODY", c, hx.HexS("text/plain"), "200", hx.HexS("bytes=" + w)})
		}
		cfg.CountN(fmt.Sprintf("body-exhaustive-size=%d", n), len(words))
	}

	// 2. body.Modifier, generated
	for k := 0; k < 2500*mul; k++ {
		r := rng.Fork()
		n := sizes[r.Intn(len(sizes))]
		if r.Chance(1, 4) {
			n = r.Intn(300)
		}
		if k%60 == 0 {
			n = bigSizes[(k/60)%len(bigSizes)]
		}
		st0 := 200
		if r.Chance(1, 8) {
			st0 = []int{404, 500, 204, 301}[r.Intn(4)]
		}
		h, has := "", r.Chance(19, 20)
		if has {
			h = rangeHeader(r, n, cfg)
		}
		kind := "BODY"
		if k%5 == 4 && wireSafe(h) {
			kind = "BODYW"
		}
		cfg.Count("kind=" + kind)
		cfg.Count(fmt.Sprintf("size<=%d", bucket(n)))
		emit("body", []string{kind, hx.Hex(content(r, n)), hx.HexS(ctypes[r.Intn(len(ctypes))]), strconv.Itoa(st0), hdrTok(h, has)})
	}

	// 2b. the same resolution code exists twice (body and static each carry a
	//     resolveRange): every header of the exhaustive list and a cross product
	//     content size x range form runs against BOTH modifiers.
	sizedFiles := []struct {
		name string
		size int
	}{{"/empty.bin", 0}, {"/one.bin", 1}, {"/two.bin", 2}, {"/three.bin", 3}, {"/a.txt", 10},
		{"/p255.bin", 255}, {"/p256.bin", 256}, {"/k4.bin", 4096}, {"/big.bin", 65536}}
	for _, sf := range sizedFiles[:4] {
		for _, w := range words {
			emit("exhs", []string{"STATIC", "WIRE", hx.HexS(sf.name), "200", hx.HexS("bytes=" + w), "E-"})
		}
		cfg.CountN(fmt.Sprintf("static-exhaustive-size=%d", sf.size), len(words))
	}
	for _, sf := range sizedFiles {
		fs := forms(sf.size, sf.size > 300)
		var c []byte
		if sf.name == "/a.txt" {
			c = []byte("0123456789")
		} else {
			c = treeFiles[sf.name[1:]]
		}
		for _, h := range fs {
			emit("xb", []string{"BODY", hx.Hex(c), hx.HexS("text/plain"), "200", hx.HexS(h)})
			emit("xs", []string{"STATIC", "WIRE", hx.HexS(sf.name), "200", hx.HexS(h), "E-"})
		}
		cfg.CountN(fmt.Sprintf("cross-size=%d-forms(each on body and static)", sf.size), len(fs))
	}

	// 2c. the configured root as a dimension
	rootCases(cfg, emit, rng.Fork(), cfg.Thorough())

	// 3. static.Modifier: hostile and detouring targets, with and without Range
	fileSize := map[string]int{"/a.txt": 10, "/sub/b.html": 300, "/big.bin": 65536, "/empty.bin": 0, "/one.bin": 1, "/k4.bin": 4096}
	for k := 0; k < 900*mul; k++ {
		r := rng.Fork()
		mode, tg := "WIRE", ""
		switch j := r.Intn(10); {
		case j < 4:
			tg = goodTargets[r.Intn(len(goodTargets))]
		case j < 8:
			tg = target(r)
		default:
			mode, tg = "PATH", unrootedPath(r)
			if r.Chance(1, 3) {
				tg = "/" + tg
			}
		}
		n := 10
		if s, ok := fileSize[tg]; ok {
			n = s
		}
		h, has := "", r.Chance(3, 5)
		if has {
			h = rangeHeader(r, n, cfg)
			if mode == "WIRE" && !wireSafe(h) {
				h = "bytes=2-" + near(r, n)
			}
		}
		ex := "E-"
		if r.Chance(1, 12) {
			ks := []string{"/a.txt", "/mapped", "/sub/b.html", "/secret.txt"}
			vs := []string{"/sub/b.html", "sub/deep/c.json", "/a.txt", "/nope.txt"}
			ex = "E" + hx.HexS(ks[r.Intn(len(ks))]) + ":" + hx.HexS(vs[r.Intn(len(vs))])
			if r.Chance(1, 2) {
				tg, mode = ks[r.Intn(len(ks))], "WIRE"
			}
			cfg.Count("static=explicit-map")
		}
		big := 0
		if has && bigNumber.MatchString(h) {
			big = 1
		}
		cfg.Count("kind=STATIC-" + mode)
		cfg.Count(fmt.Sprintf("static-huge-number=%d", big))
		emit("static", []string{"STATIC", mode, hx.HexS(tg), "200", hdrTok(h, has), ex})
	}
}

// rootCases: configured root x request target, both through NewModifier and
// through the JSON configuration.
func rootCases(cfg *hx.Config, emit func(string, []string), rng *hx.RNG, thorough bool) {
	roots := []string{"", ".", "./", "root", "./root", "root/", "root//", "root/.", "nodir/../root", "root/sub/..",
		"root/sub", "root/sub/", "a/../root//sub/./", "{T}/root", "{T}/root/", "{T}//root/./", "{T}/root/sub/..", "{T}", "{T}/",
		"{T}/root/sub/deep/../..", "./.", ".//", "nosuchdir", "{O}"}
	targets := []string{"{O}/secret.txt", "/../../..{O}/secret.txt", "/%2e%2e/%2e%2e{O}/secret.txt", "/..%2f..{O}/secret.txt",
		"{T}/secret.txt", "{T}/root/a.txt", "/../..{T}/root/a.txt", "/a.txt", "/root/a.txt", "/sub/b.html", "/root/sub/b.html",
		"/b.html", "/secret.txt", "/../secret.txt", "/%2e%2e/secret.txt", "/root/../secret.txt", "/etc/passwd",
		"/../../../../../../etc/passwd", "/", "//root//a.txt", "/./root/./a.txt", "/deep/c.json", "http://example.com{O}/secret.txt"}
	hdrs := []string{"-", "-", hx.HexS("bytes=0-3"), hx.HexS("bytes=-5,0-0"), hx.HexS("bytes=2-")}
	k := 0
	for _, rt := range roots {
		for _, tg := range targets {
			k++
			via := "NEW"
			if k%3 == 0 {
				via = "JSON"
			}
			h := hdrs[rng.Intn(len(hdrs))]
			if !thorough && k%2 == 0 && rt != "" && rt != "." {
				continue
			}
			emit("root", []string{"ROOT", via, hx.HexS(rt), hx.HexS(tg), "200", h})
			cfg.Count("root-via=" + via)
			if thorough {
				for _, h2 := range hdrs[1:] {
					emit("root", []string{"ROOT", "JSON", hx.HexS(rt), hx.HexS(tg), "200", h2})
				}
			}
		}
		cfg.Count("root=" + rt)
	}
	for _, tg := range targets {
		emit("root", []string{"ROOT", "JSONMISSING", "x", hx.HexS(tg), "200", hdrs[rng.Intn(len(hdrs))]})
		emit("root", []string{"ROOT", "JSON", "x", hx.HexS(tg), "200", hdrs[rng.Intn(len(hdrs))]})
		cfg.CountN("root-via=JSONMISSING/JSON-empty", 2)
	}
}

func bucket(n int) int {
	for _, b := range []int{0, 1, 16, 256, 4096, 65536} {
		if n <= b {
			return b
		}
	}
	return 1 << 20
}

// forms lists Range headers of every form, placed at the boundaries of a
// content of n bytes: first-last, first-, -n, multiple, malformed.
func forms(n int, reduced bool) []string {
	seen := map[int]bool{}
	var v []int
	for _, x := range []int{0, 1, 2, n - 2, n - 1, n, n + 1, n + 2, 2*n + 1} {
		if x >= 0 && !seen[x] {
			seen[x] = true
			v = append(v, x)
		}
	}
	if reduced {
		v = []int{0, 1, n - 1, n, n + 1}
	}
	var singles []string
	for _, a := range v {
		for _, b := range v {
			singles = append(singles, fmt.Sprintf("%d-%d", a, b))
		}
		singles = append(singles, fmt.Sprintf("%d-", a), fmt.Sprintf("-%d", a))
	}
	singles = append(singles, "-9223372036854775807", "-9223372036854775808", "0-9223372036854775807",
		"0-9223372036854775808", "9223372036854775807-", "-000", "-01", "+0-", "-+1", " 0 - 0 ", "0-\t")
	bad := []string{"", "-", "--", "a-b", "0-0-0", "0", "-a", "a-", "0--1", "-0x1", "0x0-", " ", "-1e0", "\u00a0-1\u00a0", "-\u0661"}
	var out []string
	for _, s := range singles {
		out = append(out, "bytes="+s)
	}
	for _, s := range bad {
		out = append(out, "bytes="+s)
	}
	// multiple: representative singles pairwise, and each malformed next to a good one
	rep := []string{"0-0", fmt.Sprintf("0-%d", n), fmt.Sprintf("%d-", n-1), fmt.Sprintf("%d-", n), "-1", "-4", "-0",
		fmt.Sprintf("-%d", n+1), fmt.Sprintf("%d-%d", n-1, n+5), fmt.Sprintf("%d-%d", n, n), "1-0"}
	if n == 0 {
		rep[2] = "0-"
	}
	if reduced {
		rep = rep[:8]
	}
	for _, a := range rep {
		for _, b := range rep {
			out = append(out, "bytes="+a+","+b)
		}
	}
	for _, b := range bad {
		out = append(out, "bytes=0-0,"+b, "bytes="+b+", -1")
	}
	out = append(out, "bytes=-4,-2", "bytes=-1,-1,-1", "BYTES=-1", "-1", "bytes=0-,-1,0-0")
	if reduced && n > 4096 {
		// 64 KiB contents make long case lines: every third form
		var o []string
		for i, h := range out {
			if i%3 == 0 {
				o = append(o, h)
			}
		}
		return o
	}
	return out
}
