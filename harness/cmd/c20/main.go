// c20 drives the real body.Modifier and static.Modifier with generated
// contents, Range headers and request targets and records what came back.
//
// IN tokens
//
//	BODY   <content> <ctype> <st0> <hdr|->             Range header set directly on the request
//	BODYW  <content> <ctype> <st0> <hdr|->             request (with the Range line) parsed by http.ReadRequest
//	STATIC WIRE <target> <st0> <hdr|-> <E-|Ek:v>       request line "GET <target> HTTP/1.1" parsed by http.ReadRequest
//	STATIC PATH <path>   <st0> <hdr|-> <E-|Ek:v>       URL.Path set directly (as another modifier could leave it)
//	ROOT <NEW|JSON|JSONMISSING> <rootPath> <target> <st0> <hdr|->   the ROOT CONFIGURATION as a dimension: the
//	                                         modifier is built from rootPath by static.NewModifier or by the
//	                                         registered JSON parser (JSONMISSING: no "rootPath" key); the process's
//	                                         working directory is the temp dir; "{T}" in rootPath/target stands for
//	                                         that directory, "{O}" for a second temp dir holding a real secret.txt;
//	                                         OUT paths are reported with those directories renamed /T and /O
//	CLEAN <p> | JOIN <a> <b> | ATOI <s> | TRIM <s> | ITOA <dec> | LOWER <s>    stdlib ties
//
// byte strings are hex tokens (x48656c; x = empty); "-" = header absent.
//
// OUT tokens
//
//	BADREQ                                   http.ReadRequest refused the request (nothing to check)
//	hdr=<hex> low=<hex>                      Range value the modifier saw; strings.ToLower of it (external table)
//	path=<hex> fs=<modelpath>:<kind>[:<data>:<ctype>]   static: URL.Path seen; what the file system says about
//	                                         filepath.Join(root, Clean("/"+path)) with the root renamed /R
//	then one of
//	PANIC | CRASH | ERR <status> | SO <status> (nil error, body object untouched) | DIR <status>
//	R <status> <clen> <ctype> <crange> <body> (-|MBAD|M<n> <ct:cr:data>*n)
package main

import (
	"bufio"
	"bytes"
	"errors"
	"fmt"
	"io"
	"mime"
	"mime/multipart"
	"net/http"
	"os"
	"os/exec"
	"path"
	"path/filepath"
	"regexp"
	"runtime"
	"strconv"
	"strings"
	"syscall"

	"github.com/google/martian/v3/body"
	mlog "github.com/google/martian/v3/log"
	"github.com/google/martian/v3/parse"
	"github.com/google/martian/v3/proxyutil"
	"github.com/google/martian/v3/static"
	"verifharness/hx"
)

const bodyCap = 1 << 20 // more than any content used: a longer body is reported as TOOBIG

type origBody struct{ closed bool }

func (o *origBody) Read(p []byte) (int, error) {
	if o.closed {
		return 0, errors.New("read on closed body")
	}
	return 0, io.EOF
}
func (o *origBody) Close() error { o.closed = true; return nil }

// upstream is the response the modifier replaces: its framing must not leak
// into the synthetic one.
func upstream(st0 int, ob *origBody, req *http.Request) *http.Response {
	res := proxyutil.NewResponse(st0, ob, req)
	res.ContentLength = 12345
	res.Header.Set("Content-Encoding", "gzip")
	return res
}

func tokHdr(t string) (string, bool) {
	if t == "-" {
		return "", false
	}
	return string(hx.MustUnHex(t)), true
}

// observe renders the response after the modifier returned.
func observe(res *http.Response, ob *origBody, err error) []string {
	if err != nil {
		return []string{"ERR", strconv.Itoa(res.StatusCode)}
	}
	if b, ok := res.Body.(*origBody); ok && b == ob {
		return []string{"SO", strconv.Itoa(res.StatusCode)}
	}
	if f, ok := res.Body.(*os.File); ok {
		if fi, e := f.Stat(); e == nil && fi.IsDir() {
			f.Close()
			return []string{"DIR", strconv.Itoa(res.StatusCode)}
		}
	}
	data, rerr := io.ReadAll(io.LimitReader(res.Body, bodyCap+1))
	res.Body.Close()
	if rerr != nil {
		return []string{"RERR", strconv.Itoa(res.StatusCode)}
	}
	ct := res.Header.Get("Content-Type")
	// the multipart boundary is random: rename it (same length) wherever it occurs
	if b := strings.TrimPrefix(ct, "multipart/byteranges; boundary="); b != ct && len(b) >= 8 {
		canon := "B" + strings.Repeat("0", len(b)-1)
		data = bytes.ReplaceAll(data, []byte(b), []byte(canon))
		ct = strings.Replace(ct, b, canon, 1)
	}
	bodyTok := hx.Hex(data)
	if len(data) > bodyCap {
		bodyTok = "TOOBIG"
	}
	out := []string{"R", strconv.Itoa(res.StatusCode), strconv.FormatInt(res.ContentLength, 10),
		hx.HexS(ct), hx.HexS(res.Header.Get("Content-Range")), bodyTok}
	if !strings.HasPrefix(ct, "multipart/") || len(data) > bodyCap {
		return append(out, "-")
	}
	_, params, perr := mime.ParseMediaType(ct)
	if perr != nil || params["boundary"] == "" {
		return append(out, "MBAD")
	}
	mr := multipart.NewReader(bytes.NewReader(data), params["boundary"])
	var parts []string
	for {
		p, e := mr.NextRawPart()
		if e == io.EOF {
			break
		}
		if e != nil {
			return append(out, "MBAD")
		}
		pd, e := io.ReadAll(p)
		if e != nil {
			return append(out, "MBAD")
		}
		parts = append(parts, hx.HexS(p.Header.Get("Content-Type"))+":"+hx.HexS(p.Header.Get("Content-Range"))+":"+hx.Hex(pd))
	}
	out = append(out, fmt.Sprintf("M%d", len(parts)))
	return append(out, parts...)
}

func wireRequest(target, hdr string, hasHdr bool) (*http.Request, error) {
	var sb strings.Builder
	sb.WriteString("GET " + target + " HTTP/1.1\r\nHost: example.com\r\n")
	if hasHdr {
		sb.WriteString("Range: " + hdr + "\r\n")
	}
	sb.WriteString("\r\n")
	return http.ReadRequest(bufio.NewReader(strings.NewReader(sb.String())))
}

func hdrToks(req *http.Request) []string {
	h := req.Header.Get("Range")
	return []string{"hdr=" + hx.HexS(h), "low=" + hx.HexS(strings.ToLower(h))}
}

func runBody(in []string) (out []string) {
	if len(in) != 5 {
		return []string{"badcase"}
	}
	content := hx.MustUnHex(in[1])
	ctype := string(hx.MustUnHex(in[2]))
	st0, _ := strconv.Atoi(in[3])
	hdr, hasHdr := tokHdr(in[4])
	var req *http.Request
	if in[0] == "BODYW" {
		r, err := wireRequest("/", hdr, hasHdr)
		if err != nil {
			return []string{"BADREQ"}
		}
		req = r
	} else {
		req, _ = http.NewRequest("GET", "http://example.com/", nil)
		if hasHdr {
			req.Header["Range"] = []string{hdr}
		}
	}
	out = hdrToks(req)
	ob := &origBody{}
	res := upstream(st0, ob, req)
	mod := body.NewModifier(content, ctype)
	defer func() {
		if r := recover(); r != nil {
			out = append(out, "PANIC")
		}
	}()
	err := mod.ModifyResponse(res)
	return append(out, observe(res, ob, err)...)
}

// ---------------------------------------------------------------- static

type tree struct {
	tmp, root string
	out       string // a directory outside tmp holding secret.txt (ROOT cases)
}

func (t *tree) subst(s string) string {
	return strings.ReplaceAll(strings.ReplaceAll(s, "{T}", t.tmp), "{O}", t.out)
}

// canon renames the two temp directories in a path reported to the driver.
func (t *tree) canon(s string) string {
	s = strings.ReplaceAll(s, t.tmp, "/T")
	s = strings.ReplaceAll(s, t.tmp[1:], "T") // made relative by a relative root
	if t.out != "" {
		s = strings.ReplaceAll(s, t.out, "/O")
		s = strings.ReplaceAll(s, t.out[1:], "O")
	}
	return s
}

// runRoot: static.Modifier built from a configured root path (relative paths
// are relative to the working directory = t.tmp).
func (t *tree) runRoot(in []string) (out []string) {
	if len(in) != 6 {
		return []string{"badcase"}
	}
	rawroot := t.subst(string(hx.MustUnHex(in[2])))
	target := t.subst(string(hx.MustUnHex(in[3])))
	st0, _ := strconv.Atoi(in[4])
	hdr, hasHdr := tokHdr(in[5])
	req, err := wireRequest(target, hdr, hasHdr)
	if err != nil {
		return []string{"BADREQ"}
	}
	var mod interface {
		ModifyResponse(*http.Response) error
	}
	switch in[1] {
	case "NEW":
		mod = static.NewModifier(rawroot)
	case "JSON", "JSONMISSING":
		cfgJSON := `{"static.Modifier":{"scope":["response"]}}`
		if in[1] == "JSON" {
			cfgJSON = `{"static.Modifier":{"scope":["response"],"rootPath":` + strconv.Quote(rawroot) + `}}`
		} else {
			rawroot = ""
		}
		r, err := parse.FromJSON([]byte(cfgJSON))
		if err != nil || r.ResponseModifier() == nil {
			return []string{"badconfig"}
		}
		mod = r.ResponseModifier()
	default:
		return []string{"badcase"}
	}
	// what the configuration means, with the standard library only
	want := filepath.Join(path.Clean(rawroot), filepath.Clean("/"+req.URL.Path))
	ent := t.fsEntryKey(want, hx.HexS(t.canon(want)))
	out = append(hdrToks(req), "path="+hx.HexS(t.canon(req.URL.Path)), "root="+hx.HexS(t.canon(rawroot)), ent)
	ob := &origBody{}
	res := upstream(st0, ob, req)
	defer func() {
		if r := recover(); r != nil {
			out = append(out, "PANIC")
		}
	}()
	err = mod.ModifyResponse(res)
	return append(out, observe(res, ob, err)...)
}

func pattern(n, salt int) []byte {
	b := make([]byte, n)
	for i := range b {
		b[i] = byte((i*131 + (i>>8)*7 + salt) & 0xff)
	}
	return b
}

var treeFiles = map[string][]byte{
	"a.txt":           []byte("0123456789"),
	"empty.bin":       {},
	"one.bin":         pattern(1, 65),
	"two.bin":         pattern(2, 65),
	"three.bin":       pattern(3, 65),
	"p255.bin":        pattern(255, 5),
	"p256.bin":        pattern(256, 6),
	"sub/b.html":      pattern(300, 3),
	"sub/deep/c.json": []byte(`{"inside":"c.json","pad":"0123456789abcdefghijklmnopqrstuvwxyz"}`),
	"sub/.hidden":     []byte("inside hidden file"),
	"sp ace.txt":      []byte("inside file with a space"),
	"a..b":            []byte("inside a..b"),
	"...":             []byte("inside three dots"),
	"..x":             []byte("inside dotdot-x"),
	"%2e%2e":          []byte("inside literally-percent-2e-2e"),
	"big.bin":         pattern(65536, 9),
	"k4.bin":          pattern(4096, 1),
	"secret.txt":      []byte("inside file that shares the sentinel's name"),
	"dir.d/f.txt":     []byte("inside dir.d"),
}

var outsideFiles = map[string][]byte{
	"secret.txt":         []byte("OUTSIDE: sentinel next to the root"),
	"a.txt":              []byte("OUTSIDE: a.txt next to the root"),
	"outside/secret.txt": []byte("OUTSIDE: sentinel in a sibling directory"),
	"rootx/a.txt":        []byte("OUTSIDE: sibling whose name extends the root's"),
}

func mkTree() *tree {
	if d := os.Getenv("C20_TREE"); d != "" {
		return &tree{tmp: d, root: filepath.Join(d, "root"), out: os.Getenv("C20_OUT")}
	}
	tmp, err := os.MkdirTemp("", "c20tree")
	if err != nil {
		panic(err)
	}
	tmp, _ = filepath.EvalSymlinks(tmp)
	t := &tree{tmp: tmp, root: filepath.Join(tmp, "root")}
	w := func(base string, m map[string][]byte) {
		for name, data := range m {
			p := filepath.Join(base, filepath.FromSlash(name))
			os.MkdirAll(filepath.Dir(p), 0o755)
			if err := os.WriteFile(p, data, 0o644); err != nil {
				panic(err)
			}
		}
	}
	w(t.root, treeFiles)
	w(t.tmp, outsideFiles)
	out, err := os.MkdirTemp("", "c20out")
	if err != nil {
		panic(err)
	}
	t.out, _ = filepath.EvalSymlinks(out)
	w(t.out, map[string][]byte{"secret.txt": []byte("OUTSIDE-ABS: a real file outside every configured root, asked for by its absolute path")})
	return t
}

// fsEntry: what the file system says about the path the request must
// resolve to, computed with the standard library only.
func (t *tree) fsEntry(want string) string {
	key := "x"
	if want == t.root || strings.HasPrefix(want, t.root+"/") {
		key = hx.HexS("/R" + strings.TrimPrefix(want, t.root))
	} else {
		key = hx.HexS("!OUTSIDE!" + t.canon(want))
	}
	return t.fsEntryKey(want, key)
}

func (t *tree) fsEntryKey(want, key string) string {
	f, err := os.Open(want)
	switch {
	case os.IsNotExist(err):
		return "fs=" + key + ":notexist"
	case os.IsPermission(err):
		return "fs=" + key + ":perm"
	case err != nil:
		return "fs=" + key + ":other"
	}
	defer f.Close()
	fi, err := f.Stat()
	if err != nil {
		return "fs=" + key + ":other"
	}
	if fi.IsDir() {
		return "fs=" + key + ":dir"
	}
	data, _ := io.ReadAll(f)
	return "fs=" + key + ":file:" + hx.Hex(data) + ":" + hx.HexS(mime.TypeByExtension(filepath.Ext(want)))
}

var bigNumber = regexp.MustCompile(`[0-9]{6,}`)

func (t *tree) runStatic(in []string, child bool) (out []string) {
	if len(in) != 6 {
		return []string{"badcase"}
	}
	target := string(hx.MustUnHex(in[2]))
	st0, _ := strconv.Atoi(in[3])
	hdr, hasHdr := tokHdr(in[4])
	var req *http.Request
	if in[1] == "WIRE" {
		r, err := wireRequest(target, hdr, hasHdr)
		if err != nil {
			return []string{"BADREQ"}
		}
		req = r
	} else {
		req, _ = http.NewRequest("GET", "http://example.com/", nil)
		req.URL.Path = target
		if hasHdr {
			req.Header["Range"] = []string{hdr}
		}
	}
	// a header that makes the unrepaired code allocate a buffer of that size
	// would take the harness down: those cases run in a child process
	if !child && bigNumber.MatchString(req.Header.Get("Range")) {
		return t.runChild(in)
	}
	mod := static.NewModifier(t.root)
	want := filepath.Join(t.root, filepath.Clean("/"+req.URL.Path))
	if in[5] != "E-" {
		kv := strings.SplitN(in[5][1:], ":", 2)
		k, v := string(hx.MustUnHex(kv[0])), string(hx.MustUnHex(kv[1]))
		mod.SetExplicitPathMappings(map[string]string{k: v})
		if filepath.Clean("/"+req.URL.Path) == k {
			want = filepath.Join(t.root, v)
		}
	}
	out = append(hdrToks(req), "path="+hx.HexS(req.URL.Path), t.fsEntry(want))
	ob := &origBody{}
	res := upstream(st0, ob, req)
	defer func() {
		if r := recover(); r != nil {
			out = append(out, "PANIC")
		}
	}()
	err := mod.ModifyResponse(res)
	return append(out, observe(res, ob, err)...)
}

func (t *tree) runChild(in []string) []string {
	exe, err := os.Executable()
	if err != nil {
		exe = os.Args[0]
	}
	cmd := exec.Command(exe, "-c20child")
	cmd.Env = append(os.Environ(), "C20_TREE="+t.tmp, "C20_OUT="+t.out)
	cmd.Stdin = strings.NewReader(strings.Join(in, " ") + "\n")
	var so bytes.Buffer
	cmd.Stdout = &so
	if err := cmd.Run(); err != nil {
		// the process died (out of memory / fatal error): keep what it had printed first
		pre := strings.Fields(so.String())
		var keep []string
		for _, p := range pre {
			if strings.Contains(p, "=") {
				keep = append(keep, p)
			}
		}
		return append(keep, "CRASH")
	}
	return strings.Fields(so.String())
}

func childMain() {
	// allocations driven by a hostile header must fail fast, not swap
	lim := &syscall.Rlimit{Cur: 3 << 30, Max: 3 << 30}
	syscall.Setrlimit(syscall.RLIMIT_AS, lim)
	mlog.SetLevel(mlog.Silent)
	t := mkTree()
	sc := bufio.NewScanner(os.Stdin)
	sc.Buffer(make([]byte, 1<<20), 1<<28)
	if !sc.Scan() {
		os.Exit(3)
	}
	in := strings.Fields(sc.Text())
	// print the environment tokens first so that they survive a crash
	pre := t.runStaticPre(in)
	fmt.Println(strings.Join(pre, " "))
	os.Stdout.Sync()
	out := t.runStatic(in, true)
	fmt.Println(strings.Join(out[len(pre):], " "))
}

// runStaticPre computes only the hdr/low/path/fs tokens of a static case.
func (t *tree) runStaticPre(in []string) []string {
	target := string(hx.MustUnHex(in[2]))
	hdr, hasHdr := tokHdr(in[4])
	var req *http.Request
	if in[1] == "WIRE" {
		r, err := wireRequest(target, hdr, hasHdr)
		if err != nil {
			return nil
		}
		req = r
	} else {
		req, _ = http.NewRequest("GET", "http://example.com/", nil)
		req.URL.Path = target
		if hasHdr {
			req.Header["Range"] = []string{hdr}
		}
	}
	want := filepath.Join(t.root, filepath.Clean("/"+req.URL.Path))
	if in[5] != "E-" {
		kv := strings.SplitN(in[5][1:], ":", 2)
		k, v := string(hx.MustUnHex(kv[0])), string(hx.MustUnHex(kv[1]))
		if filepath.Clean("/"+req.URL.Path) == k {
			want = filepath.Join(t.root, v)
		}
	}
	return append(hdrToks(req), "path="+hx.HexS(req.URL.Path), t.fsEntry(want))
}

// ---------------------------------------------------------------- stdlib ties

func runStd(in []string) []string {
	arg := func(i int) string { return string(hx.MustUnHex(in[i])) }
	switch in[0] {
	case "CLEAN":
		return []string{hx.HexS(filepath.Clean(arg(1)))}
	case "JOIN":
		return []string{hx.HexS(filepath.Join(arg(1), arg(2)))}
	case "ATOI":
		v, err := strconv.Atoi(arg(1))
		if err != nil {
			return []string{"E"}
		}
		return []string{strconv.Itoa(v)}
	case "TRIM":
		return []string{hx.HexS(strings.TrimSpace(strings.ToLower(arg(1)))), hx.HexS(strings.ToLower(arg(1)))}
	case "ITOA":
		v, _ := strconv.ParseInt(in[1], 10, 64)
		return []string{hx.HexS(fmt.Sprintf("%d", v))}
	case "LOWER":
		return []string{hx.HexS(strings.ToLower(arg(1)))}
	case "SPLIT":
		ps := strings.Split(strings.TrimLeft(arg(1), "bytes="), string(arg(2)[0]))
		out := make([]string, len(ps))
		for i, p := range ps {
			out[i] = hx.HexS(p)
		}
		return out
	}
	return []string{"badcase"}
}

var theTree *tree

func runCase(in []string) []string {
	if len(in) == 0 {
		return []string{"badcase"}
	}
	switch in[0] {
	case "BODY", "BODYW":
		return runBody(in)
	case "STATIC":
		return theTree.runStatic(in, false)
	case "ROOT":
		return theTree.runRoot(in)
	default:
		return runStd(in)
	}
}

func main() {
	if len(os.Args) > 1 && os.Args[1] == "-c20child" {
		childMain()
		return
	}
	mlog.SetLevel(mlog.Silent)
	cfg := hx.ParseFlags()
	defer cfg.Close()
	theTree = mkTree()
	defer os.RemoveAll(theTree.tmp)
	defer os.RemoveAll(theTree.out)
	// relative configured roots (ROOT cases) are relative to the temp dir
	if err := os.Chdir(theTree.tmp); err != nil {
		panic(err)
	}
	// file descriptors: the static modifier does not close the file on its
	// range paths (finalizers do); keep the garbage collector ahead of it
	var rl syscall.Rlimit
	if syscall.Getrlimit(syscall.RLIMIT_NOFILE, &rl) == nil {
		rl.Cur = rl.Max
		syscall.Setrlimit(syscall.RLIMIT_NOFILE, &rl)
	}
	n := 0
	emit := func(kind string, in []string) {
		n++
		if n%200 == 0 {
			runtime.GC()
		}
		cfg.Emit(hx.Case{Name: fmt.Sprintf("%s%d", kind, n), In: in, Out: runCase(in)})
	}
	pre, replayOnly := cfg.Inputs()
	for _, c := range pre {
		cfg.Emit(hx.Case{Name: c.Name, In: c.In, Out: runCase(c.In)})
	}
	if replayOnly {
		return
	}
	generate(cfg, emit)
}
