// c06 drives the real mitm.Config (NewAuthority, NewConfig, SetValidity,
// SetOrganization, TLS, TLSForHost) and records, for every GetCertificate
// answer, what the property talks about: SAN, validity window, organization,
// key possession, chain to the CA, real x509 verification for the name the
// client used at handshake time, object identity (cache hit vs new
// certificate) and, for handshake operations, whether a real crypto/tls
// handshake over net.Pipe completed.
//
// IN tokens:
//
//	SEQ  v<validity-ms> o<org-hex> op*
//	CONC v<validity-ms> o<org-hex> (T op*)+ F op*      threads run concurrently, F ops after the join
//
// op:
//
//	G:<scope>:<api>:<sni>:<fb>:<vname>:<other,other..>   direct GetCertificate call with a crafted ClientHelloInfo
//	H:<scope>:<api>:<sni>:<fb>:<vname>:<others>          the same through a real tls.Client/tls.Server handshake
//	   scope i = a host spelling the property quantifies over (full oracle), o = outside (model agreement only)
//	   api T = Config.TLS(), F = Config.TLSForHost(fb); sni/fb/vname/others hex strings
//	   vname = the host the client names and verifies against; others = names the certificate must NOT be valid for
//	A<+-ms>   sleep until NotAfter of the last returned certificate + offset
//	S<ms>     sleep
//
// OUT tokens: one per op ("-" for sleeps):
//
//	C:<idx>:<I|D><san-hex>:<nb>:<na>:<org-hex>:<flags>:<tb>:<ta>:<tv>:<V>:<otherbits>:<hs>
//	R:<reason>:<tb>:<ta>:<hs>
//	PANIC
//
// idx = first-occurrence index of the *tls.Certificate pointer in the case;
// nb/na/tb/ta/tv in ms relative to a second-aligned epoch (tb/ta bracket the
// GetCertificate call, tv = the explicit verification time);
// flags = chain-to-CA, PrivateKey matches leaf public key, same key as the
// first certificate of the case, chain shape [leaf, ca], exactly one SAN;
// V = x509 Verify{DNSName: vname, Roots: ca, CurrentTime: tv} succeeded;
// hs = "-" (direct), 1/0 handshake completed on both sides.
// After the op tokens: TAB, then P:<s>:<canon|-> (net.ParseIP) and
// Q:<s>:<ok|err>:<host>:<port> (net.SplitHostPort) for every string the
// model may ask about.
package main

import (
	"bufio"
	"bytes"
	"crypto"
	"crypto/ecdsa"
	"crypto/ed25519"
	"crypto/elliptic"
	"crypto/rand"
	"crypto/rsa"
	"crypto/sha1"
	"crypto/tls"
	"crypto/x509"
	"crypto/x509/pkix"
	"fmt"
	"net"
	"net/http"
	"os"
	"runtime"
	"sort"
	"strconv"
	"strings"
	"sync"
	"time"

	"github.com/google/martian/v3"
	"github.com/google/martian/v3/cybervillains"
	"github.com/google/martian/v3/h2"
	mlog "github.com/google/martian/v3/log"
	"github.com/google/martian/v3/mitm"
	"verifharness/hx"
)

// caKind is one configured CA: the property quantifies over "the configured
// CA", so every clause is checked for several key types and signature
// algorithms (NewConfig accepts any private key).
type caKind struct {
	name  string
	cert  *x509.Certificate
	priv  interface{}
	roots *x509.CertPool
}

type world struct {
	cas   map[string]*caKind // rsa (mitm.NewAuthority), ec (P-256), ed (Ed25519), cv (cybervillains fixture: RSA-1024, SHA1-RSA)
	epoch time.Time
}

var caKinds = []string{"rsa", "ec", "ed", "cv"}

var w world

func msFloor(t time.Time) int64 {
	d := t.Sub(w.epoch)
	ms := d.Milliseconds()
	if d < 0 && d%time.Millisecond != 0 {
		ms--
	}
	return ms
}

func msCeil(t time.Time) int64 {
	d := t.Sub(w.epoch)
	ms := d.Milliseconds()
	if d > 0 && d%time.Millisecond != 0 {
		ms++
	}
	return ms
}

type reqOp struct {
	kind   byte // G, H or X (through a real martian.Proxy)
	scope  string
	rw     string // X only: what a CONNECT request modifier rewrites req.URL.Host to ("" = leaves it alone)
	api    string
	sni    string
	fb     string
	vname  string
	others []string
}

func unhexS(s string) string { return string(hx.MustUnHex(s)) }

func parseReq(tok string) (reqOp, bool) {
	p := strings.Split(tok, ":")
	if len(p) != 7 || (p[0] != "G" && p[0] != "H" && p[0] != "X") {
		return reqOp{}, false
	}
	r := reqOp{kind: p[0][0], scope: p[1], api: p[2], sni: unhexS(p[3]), fb: unhexS(p[4]), vname: unhexS(p[5])}
	if r.kind == 'X' {
		// X:<scope>:<rewrite-hex>:<sni>:<CONNECT authority>:<vname>:<others>
		r.api, r.rw = "F", unhexS(p[2])
	}
	if p[6] != "" {
		for _, o := range strings.Split(p[6], ",") {
			r.others = append(r.others, unhexS(o))
		}
	}
	return r, true
}

func (r reqOp) token() string {
	os := make([]string, len(r.others))
	for i, o := range r.others {
		os[i] = hx.HexS(o)
	}
	api := r.api
	if r.kind == 'X' {
		api = hx.HexS(r.rw)
	}
	return fmt.Sprintf("%c:%s:%s:%s:%s:%s:%s", r.kind, r.scope, api, hx.HexS(r.sni), hx.HexS(r.fb), hx.HexS(r.vname), strings.Join(os, ","))
}

// session = one mitm.Config and the per-case canonicalisation state.
type session struct {
	cfg     *mitm.Config
	ca      *caKind
	mu      sync.Mutex
	idx     map[*tls.Certificate]int
	firstPK *rsa.PublicKey
	last    *tls.Certificate
	// SHARED cases: ONE *tls.Config from TLSForHost(sharedFB) and ONE from TLS()
	// serve every requester (as one listener config serves every connection)
	sharedF  *tls.Config
	sharedT  *tls.Config
	sharedFB string
	tvBefore bool // verification time = just before the call (sound under concurrent expiry)
	// PROXY cases: a real martian.Proxy with SetMITM(cfg) on a loopback listener
	proxy     *martian.Proxy
	proxyAddr string
	proxyL    net.Listener
	byDER     map[string]*tls.Certificate
}

const rewriteHeader = "X-Verif-Rewrite-Url-Host"

// startProxy: martian.Proxy + MITM + a CONNECT request modifier that rewrites
// req.URL.Host (as url.Modifier / port.Modifier / a routing modifier do; they
// leave req.Host alone) to what the client's X-Verif-Rewrite-Url-Host says.
func (s *session) startProxy() error {
	l, err := net.Listen("tcp", "127.0.0.1:0")
	if err != nil {
		return err
	}
	p := martian.NewProxy()
	p.SetMITM(s.cfg)
	p.SetTimeout(5 * time.Second)
	p.SetRequestModifier(martian.RequestModifierFunc(func(req *http.Request) error {
		if req.Method == "CONNECT" {
			if to := req.Header.Get(rewriteHeader); to != "" {
				req.URL.Host = to
			}
		}
		return nil
	}))
	go p.Serve(l)
	s.proxy, s.proxyL, s.proxyAddr = p, l, l.Addr().String()
	s.byDER = map[string]*tls.Certificate{}
	s.tvBefore = true
	return nil
}

func (s *session) stopProxy() {
	if s.proxy != nil {
		s.proxyL.Close()
		done := make(chan struct{})
		go func() { s.proxy.Close(); close(done) }()
		select {
		case <-done:
		case <-time.After(5 * time.Second):
		}
	}
}

// doProxyReq: CONNECT <authority> through the real proxy, then a TLS
// handshake inside the tunnel naming r.sni (or nothing); the observation is the
// chain the proxy presented, seen from the client.
func (s *session) doProxyReq(r reqOp) (out string) {
	defer func() {
		if rec := recover(); rec != nil {
			out = "PANIC"
		}
	}()
	if s.proxy == nil {
		return "BADOP"
	}
	conn, err := net.DialTimeout("tcp", s.proxyAddr, 5*time.Second)
	if err != nil {
		return "R:dial:0:0:0"
	}
	defer conn.Close()
	conn.SetDeadline(time.Now().Add(10 * time.Second))
	hdr := "CONNECT " + r.fb + " HTTP/1.1\r\nHost: " + r.fb + "\r\n"
	if r.rw != "" {
		hdr += rewriteHeader + ": " + r.rw + "\r\n"
	}
	if _, err := conn.Write([]byte(hdr + "\r\n")); err != nil {
		return "R:write:0:0:0"
	}
	br := bufio.NewReader(conn)
	res, err := http.ReadResponse(br, &http.Request{Method: "CONNECT"})
	if err != nil || res.StatusCode != 200 || br.Buffered() != 0 {
		return "R:connect:0:0:0"
	}
	tvTime := time.Now().Truncate(time.Millisecond)
	var chain []*x509.Certificate
	ccfg := s.clientTLS(r, &tvTime, &chain, true)
	t0 := time.Now()
	cli := tls.Client(conn, ccfg)
	herr := cli.Handshake()
	t1 := time.Now()
	a := answer{tb: msFloor(t0), ta: msCeil(t1), called: true}
	ok := herr == nil
	hs := b01(ok)
	if len(chain) == 0 {
		return fmt.Sprintf("R:hsfail:%d:%d:%s", a.tb, a.ta, hs)
	}
	s.mu.Lock()
	c := s.byDER[string(chain[0].Raw)]
	if c == nil {
		c = &tls.Certificate{Leaf: chain[0]}
		for _, x := range chain {
			c.Certificate = append(c.Certificate, x.Raw)
		}
		s.byDER[string(chain[0].Raw)] = c
	}
	s.mu.Unlock()
	return s.render(r, c, &ok, a, tvTime, hs)
}

func (s *session) index(c *tls.Certificate) int {
	s.mu.Lock()
	defer s.mu.Unlock()
	if i, ok := s.idx[c]; ok {
		return i
	}
	i := len(s.idx)
	s.idx[c] = i
	return i
}

type answer struct {
	cert   *tls.Certificate
	err    error
	tb, ta int64
	called bool
}

func errEnum(err error) string {
	if err == nil {
		return "nil"
	}
	m := err.Error()
	switch {
	case strings.Contains(m, "SNI not provided"):
		return "sni"
	case strings.Contains(m, "IA5String"):
		return "ia5"
	case strings.Contains(m, "mitm:"):
		return "noname"
	}
	return "other"
}

func (s *session) tlsConf(r reqOp, a *answer) *tls.Config {
	var conf *tls.Config
	switch {
	case r.api == "T" && s.sharedT != nil:
		// Clone copies the GetCertificate func value: the SAME closure is called by all requesters
		conf = s.sharedT.Clone()
	case r.api != "T" && s.sharedF != nil:
		conf = s.sharedF.Clone()
	case r.api == "T":
		conf = s.cfg.TLS()
	default:
		conf = s.cfg.TLSForHost(r.fb)
	}
	orig := conf.GetCertificate
	conf.GetCertificate = func(h *tls.ClientHelloInfo) (*tls.Certificate, error) {
		t0 := time.Now()
		c, err := orig(h)
		t1 := time.Now()
		a.cert, a.err, a.tb, a.ta, a.called = c, err, msFloor(t0), msCeil(t1), true
		return c, err
	}
	return conf
}

func (s *session) doReq(r reqOp) (out string) {
	defer func() {
		if rec := recover(); rec != nil {
			out = "PANIC"
		}
	}()
	var a answer
	conf := s.tlsConf(r, &a)
	hs := "-"
	var tvTime time.Time
	if s.tvBefore {
		tvTime = time.Now().Truncate(time.Millisecond)
	}
	if r.kind == 'G' {
		conf.GetCertificate(&tls.ClientHelloInfo{ServerName: r.sni})
		if !s.tvBefore {
			tvTime = time.Now().Truncate(time.Millisecond)
		}
	} else {
		ok := s.handshake(conf, r, &tvTime)
		hs = "0"
		if ok {
			hs = "1"
		}
		if !a.called {
			return "R:nocall:0:0:" + hs
		}
		if tvTime.IsZero() {
			tvTime = time.Now().Truncate(time.Millisecond)
		}
	}
	if a.err != nil || a.cert == nil {
		return fmt.Sprintf("R:%s:%d:%d:%s", errEnum(a.err), a.tb, a.ta, hs)
	}
	return s.render(r, a.cert, nil, a, tvTime, hs)
}

// render projects one presented certificate to the observation token.
// keyProven != nil: the private key is not visible (certificate seen from the
// client side of a proxy): possession is what the completed handshake proved.
func (s *session) render(r reqOp, c *tls.Certificate, keyProven *bool, a answer, tvTime time.Time, hs string) string {
	s.mu.Lock()
	s.last = c
	s.mu.Unlock()
	leaf := c.Leaf
	if leaf == nil {
		return "R:noleaf:0:0:" + hs
	}
	var san string
	nsan := len(leaf.DNSNames) + len(leaf.IPAddresses) + len(leaf.EmailAddresses) + len(leaf.URIs)
	switch {
	case len(leaf.IPAddresses) >= 1:
		san = "I" + hx.HexS(leaf.IPAddresses[0].String())
	case len(leaf.DNSNames) >= 1:
		san = "D" + hx.HexS(leaf.DNSNames[0])
	default:
		san = "N"
	}
	// chain to the CA, independent of host name and of "now"
	// (a time inside the leaf's window and as close to now as possible: the CA's own window is checked too)
	ct := time.Now()
	if ct.After(leaf.NotAfter) {
		ct = leaf.NotAfter
	}
	if ct.Before(leaf.NotBefore) {
		ct = leaf.NotBefore
	}
	_, cerr := leaf.Verify(x509.VerifyOptions{Roots: s.ca.roots, CurrentTime: ct})
	pk, _ := leaf.PublicKey.(*rsa.PublicKey)
	priv, _ := c.PrivateKey.(*rsa.PrivateKey)
	keymatch := pk != nil && priv != nil && priv.PublicKey.Equal(pk)
	if keyProven != nil {
		keymatch = *keyProven
	}
	s.mu.Lock()
	if s.firstPK == nil {
		s.firstPK = pk
	}
	samekey := pk != nil && s.firstPK.Equal(pk)
	s.mu.Unlock()
	shape := len(c.Certificate) == 2 && bytes.Equal(c.Certificate[0], leaf.Raw) && bytes.Equal(c.Certificate[1], s.ca.cert.Raw)
	org := strings.Join(leaf.Subject.Organization, "\x00")
	_, verr := leaf.Verify(x509.VerifyOptions{DNSName: r.vname, Roots: s.ca.roots, CurrentTime: tvTime})
	if r.vname == "" {
		// an empty DNSName would skip the host check: a client naming no host cannot verify anything
		verr = fmt.Errorf("no name")
	}
	ob := ""
	for _, o := range r.others {
		_, e := leaf.Verify(x509.VerifyOptions{DNSName: o, Roots: s.ca.roots, CurrentTime: tvTime})
		ob += b01(e == nil)
	}
	if ob == "" {
		ob = "-"
	}
	return fmt.Sprintf("C:%d:%s:%d:%d:%s:%s:%d:%d:%d:%s:%s:%s", s.index(c), san,
		msFloor(leaf.NotBefore), msFloor(leaf.NotAfter), hx.HexS(org),
		b01(cerr == nil)+b01(keymatch)+b01(samekey)+b01(shape)+b01(nsan == 1),
		a.tb, a.ta, msFloor(tvTime), b01(verr == nil), ob, hs)
}

func b01(b bool) string {
	if b {
		return "1"
	}
	return "0"
}

// handshake runs a real TLS handshake over net.Pipe.  The client names
// r.sni in SNI (crypto/tls sends no SNI for an empty or IP ServerName) and
// verifies the presented chain for r.vname against the CA: through
// crypto/tls' own verification when the two coincide, otherwise through
// VerifyConnection doing the same x509 verification for vname.
// clientTLS is the client side of a handshake for request r: SNI = r.sni,
// verification of the presented chain for r.vname against the configured CA at
// a pinned time.  manual (or SNI != verified name): the same x509
// verification through VerifyConnection, which also lets the presented chain be
// captured when verification fails.
func (s *session) clientTLS(r reqOp, tv *time.Time, capture *[]*x509.Certificate, manual bool) *tls.Config {
	fixed := *tv // non-zero: the caller pinned the verification time
	var once sync.Once
	now := func() time.Time {
		once.Do(func() {
			if fixed.IsZero() {
				fixed = time.Now().Truncate(time.Millisecond)
			}
		})
		return fixed
	}
	ccfg := &tls.Config{RootCAs: s.ca.roots, Time: func() time.Time { t := now(); *tv = t; return t }}
	natural := (r.sni == r.vname && r.sni != "" && net.ParseIP(r.sni) == nil) ||
		(r.sni == "" && net.ParseIP(r.vname) != nil)
	if natural && !manual {
		ccfg.ServerName = r.vname
	} else {
		ccfg.ServerName = r.sni
		ccfg.InsecureSkipVerify = true
		ccfg.VerifyConnection = func(cs tls.ConnectionState) error {
			if capture != nil {
				*capture = cs.PeerCertificates
			}
			if len(cs.PeerCertificates) == 0 || r.vname == "" {
				return fmt.Errorf("nothing to verify")
			}
			inter := x509.NewCertPool()
			for _, c := range cs.PeerCertificates[1:] {
				inter.AddCert(c)
			}
			t := now()
			*tv = t
			_, err := cs.PeerCertificates[0].Verify(x509.VerifyOptions{DNSName: r.vname, Roots: s.ca.roots, Intermediates: inter, CurrentTime: t})
			return err
		}
	}
	return ccfg
}

func (s *session) handshake(conf *tls.Config, r reqOp, tv *time.Time) bool {
	cc, sc := net.Pipe()
	defer cc.Close()
	defer sc.Close()
	dl := time.Now().Add(10 * time.Second)
	cc.SetDeadline(dl)
	sc.SetDeadline(dl)
	ccfg := s.clientTLS(r, tv, nil, false)
	srv := tls.Server(sc, conf)
	cli := tls.Client(cc, ccfg)
	errc := make(chan error, 1)
	go func() { errc <- srv.Handshake() }()
	cerr := cli.Handshake()
	if cerr != nil {
		cc.Close()
	}
	serr := <-errc
	if cerr == nil && serr == nil {
		// the server proves possession of the key in the handshake; exchange one byte each way
		go func() { srv.Write([]byte{'s'}); b := make([]byte, 1); srv.Read(b) }()
		b := make([]byte, 1)
		if _, err := cli.Read(b); err != nil || b[0] != 's' {
			return false
		}
		cli.Write([]byte{'c'})
		return true
	}
	return false
}

func (s *session) doOp(tok string) string {
	switch tok[0] {
	case 'G', 'H', 'X':
		r, ok := parseReq(tok)
		if !ok {
			return "BADOP"
		}
		if r.kind == 'X' {
			return s.doProxyReq(r)
		}
		return s.doReq(r)
	case 'A':
		off, _ := strconv.Atoi(tok[1:])
		s.mu.Lock()
		last := s.last
		s.mu.Unlock()
		if last != nil && last.Leaf != nil {
			d := time.Until(last.Leaf.NotAfter.Add(time.Duration(off) * time.Millisecond))
			if d > 0 {
				if d > 30*time.Second {
					d = 30 * time.Second
				}
				time.Sleep(d)
			}
		}
		return "-"
	case 'S':
		ms, _ := strconv.Atoi(tok[1:])
		if ms > 30000 {
			ms = 30000
		}
		time.Sleep(time.Duration(ms) * time.Millisecond)
		return "-"
	}
	return "BADOP"
}

func splitEnum(err error) string {
	if err == nil {
		return "ok"
	}
	ae, ok := err.(*net.AddrError)
	if !ok {
		return "other"
	}
	switch ae.Err {
	case "missing port in address":
		return "mp"
	case "too many colons in address":
		return "tm"
	case "missing ']' in address":
		return "mr"
	case "unexpected '[' in address":
		return "ul"
	case "unexpected ']' in address":
		return "ur"
	}
	return "other"
}

func stripBr(s string) string {
	if len(s) >= 3 && s[0] == '[' && s[len(s)-1] == ']' {
		return s[1 : len(s)-1]
	}
	return s
}

// tables computes Go's net.ParseIP / net.SplitHostPort on every string the
// model may ask about for this case.
func tables(in []string) []string {
	set := map[string]bool{}
	add := func(s string) {
		for k := 0; k < 2; k++ {
			set[s] = true
			set[stripBr(s)] = true
			if h, _, err := net.SplitHostPort(s); err == nil {
				set[h] = true
				set[stripBr(h)] = true
			}
			s = stripBr(s)
		}
	}
	for _, t := range in {
		if r, ok := parseReq(t); ok {
			add(r.sni)
			add(r.fb)
			add(r.vname)
			for _, o := range r.others {
				add(o)
			}
		}
	}
	keys := make([]string, 0, len(set))
	for k := range set {
		keys = append(keys, k)
	}
	sort.Strings(keys)
	out := []string{"TAB"}
	for _, k := range keys {
		c := "-"
		if ip := net.ParseIP(k); ip != nil {
			c = hx.HexS(ip.String())
		}
		out = append(out, "P:"+hx.HexS(k)+":"+c)
	}
	for _, k := range keys {
		h, p, err := net.SplitHostPort(k)
		out = append(out, "Q:"+hx.HexS(k)+":"+splitEnum(err)+":"+hx.HexS(h)+":"+hx.HexS(p))
	}
	return out
}

func newSession(in []string) (*session, []string, bool) {
	if len(in) < 3 || len(in[1]) < 2 || in[1][0] != 'v' || len(in[2]) < 1 || in[2][0] != 'o' {
		return nil, nil, false
	}
	fields := strings.Split(in[1][1:], ",")
	vtok, kind, skip, useH2 := fields[0], "rsa", false, false
	for _, f := range fields[1:] {
		switch f {
		case "skip":
			skip = true
		case "h2":
			useH2 = true
		default:
			kind = f
		}
	}
	ca := w.cas[kind]
	vms, err := strconv.ParseInt(vtok, 10, 64)
	if err != nil || ca == nil || vms > 4000000000000 {
		return nil, nil, false
	}
	cfg, err := mitm.NewConfig(ca.cert, ca.priv)
	if err != nil {
		return nil, nil, false
	}
	cfg.SetValidity(time.Duration(vms) * time.Millisecond)
	// options that must not change any certificate decision
	cfg.SkipTLSVerify(skip)
	if useH2 {
		cfg.SetH2Config(&h2.Config{AllowedHostsFilter: func(string) bool { return true }})
	}
	cfg.SetOrganization(unhexS(in[2][1:]))
	return &session{cfg: cfg, ca: ca, idx: map[*tls.Certificate]int{}}, in[3:], true
}

func runCase(in []string) []string {
	if len(in) == 0 {
		return []string{"BADCASE"}
	}
	s, ops, ok := newSession(in)
	if !ok {
		return []string{"BADCASE"}
	}
	var out []string
	switch in[0] {
	case "SEQ":
		for _, op := range ops {
			out = append(out, s.doOp(op))
		}
	case "CONC":
		var threads [][]string
		var fin []string
		inFin := false
		for _, t := range ops {
			switch {
			case t == "T" && !inFin:
				threads = append(threads, nil)
			case t == "F":
				inFin = true
			case inFin:
				fin = append(fin, t)
			default:
				if len(threads) == 0 {
					return []string{"BADCASE"}
				}
				threads[len(threads)-1] = append(threads[len(threads)-1], t)
			}
		}
		outs := make([][]string, len(threads))
		var wg sync.WaitGroup
		start := make(chan struct{})
		for i := range threads {
			wg.Add(1)
			go func(i int) {
				defer wg.Done()
				<-start
				for _, op := range threads[i] {
					outs[i] = append(outs[i], s.doOp(op))
				}
			}(i)
		}
		close(start)
		wg.Wait()
		// canonical object indices: renumber by first occurrence in output order
		for i := range threads {
			out = append(out, "T")
			out = append(out, outs[i]...)
		}
		out = append(out, "F")
		for _, op := range fin {
			out = append(out, s.doOp(op))
		}
		out = renumber(out)
	case "PROXY":
		// PROXY v o X-op*: one real martian.Proxy (SetMITM) serves every CONNECT of the case
		if err := s.startProxy(); err != nil {
			return []string{"BADCASE"}
		}
		defer s.stopProxy()
		for _, op := range ops {
			out = append(out, s.doOp(op))
		}
	case "SHARED":
		// SHARED v o n<rounds> p<pause-ms> b<fallback-hex> (T op*)+ F op*
		if len(ops) < 3 || ops[0][0] != 'n' || ops[1][0] != 'p' || ops[2][0] != 'b' {
			return []string{"BADCASE"}
		}
		rounds, _ := strconv.Atoi(ops[0][1:])
		pause, _ := strconv.Atoi(ops[1][1:])
		if rounds < 1 || rounds > 100000 || pause < 0 || pause > 1000 {
			return []string{"BADCASE"}
		}
		s.sharedFB = unhexS(ops[2][1:])
		s.sharedF = s.cfg.TLSForHost(s.sharedFB)
		s.sharedT = s.cfg.TLS()
		s.tvBefore = true
		var threads [][]string
		var fin []string
		inFin := false
		for _, t := range ops[3:] {
			switch {
			case t == "T" && !inFin:
				threads = append(threads, nil)
			case t == "F":
				inFin = true
			default:
				if r, ok := parseReq(t); !ok || (r.api != "T" && r.fb != s.sharedFB) {
					return []string{"BADCASE"}
				}
				if inFin {
					fin = append(fin, t)
				} else if len(threads) == 0 {
					return []string{"BADCASE"}
				} else {
					threads[len(threads)-1] = append(threads[len(threads)-1], t)
				}
			}
		}
		// per (thread, op): the distinct answers over all rounds (first occurrence of each
		// (object, verification bits) kept), joined by '|'
		outs := make([][][]string, len(threads))
		var wg sync.WaitGroup
		start := make(chan struct{})
		for i := range threads {
			outs[i] = make([][]string, len(threads[i]))
			wg.Add(1)
			go func(i int) {
				defer wg.Done()
				seen := make([]map[string]bool, len(threads[i]))
				for j := range seen {
					seen[j] = map[string]bool{}
				}
				<-start
				for k := 0; k < rounds; k++ {
					for j, op := range threads[i] {
						o := s.doOp(op)
						key := answerKey(o)
						if !seen[j][key] {
							seen[j][key] = true
							outs[i][j] = append(outs[i][j], o)
						}
					}
					if pause > 0 {
						time.Sleep(time.Duration(pause) * time.Millisecond)
					}
				}
			}(i)
		}
		close(start)
		wg.Wait()
		for i := range threads {
			out = append(out, "T")
			for j := range threads[i] {
				out = append(out, strings.Join(outs[i][j], "|"))
			}
		}
		out = append(out, "F")
		for _, op := range fin {
			out = append(out, s.doOp(op))
		}
		out = renumber(out)
	default:
		return []string{"BADCASE"}
	}
	return append(out, tables(in)...)
}

// answerKey: what makes two answers of one requester to one request differ
// for the property: the object, its verification bits, the handshake result
// (not the call times).
func answerKey(o string) string {
	p := strings.Split(o, ":")
	if len(p) == 13 && p[0] == "C" {
		return strings.Join([]string{p[1], p[2], p[6], p[10], p[11], p[12]}, ":")
	}
	if len(p) == 5 && p[0] == "R" {
		return "R:" + p[1] + ":" + p[4]
	}
	return o
}

// renumber maps the object indices of C tokens to first-occurrence order of
// the emitted token sequence (thread scheduling must not leak into them).
func renumber(out []string) []string {
	m := map[string]int{}
	for i, t := range out {
		subs := strings.Split(t, "|")
		for j, u := range subs {
			if strings.HasPrefix(u, "C:") {
				p := strings.SplitN(u, ":", 3)
				k, ok := m[p[1]]
				if !ok {
					k = len(m)
					m[p[1]] = k
				}
				subs[j] = "C:" + strconv.Itoa(k) + ":" + p[2]
			}
		}
		out[i] = strings.Join(subs, "|")
	}
	return out
}

// ---------------------------------------------------------------- generators

var dnsNames = []string{"example.com", "a.b.c.example.org", "localhost", "xn--bcher-kva.example", "my-host-01.internal", "x", "www.google.com", "0x1.test", "1.2.3.example", "a-very-long-label-that-is-still-under-sixty-three-characters-ok.example.net"}
var ipv4s = []string{"10.0.0.1", "127.0.0.1", "192.168.1.254", "8.8.8.8", "0.0.0.0", "255.255.255.255", "1.2.3.4"}
var ipv6s = []string{"::1", "2001:db8::1", "fe80::1", "::ffff:1.2.3.4", "2001:DB8:0:0:0:0:0:1", "::", "1:2:3:4:5:6:7:8", "2001:db8::ABCD"}
var ports = []string{"443", "8443", "80", "65535", "1"}

func mixCase(r *hx.RNG, s string) string {
	b := []byte(s)
	for i, c := range b {
		if r.Bool() {
			if 'a' <= c && c <= 'z' {
				b[i] = c - 32
			} else if 'A' <= c && c <= 'Z' {
				b[i] = c + 32
			}
		}
	}
	return string(b)
}

func pickName(r *hx.RNG) (name string, class string) {
	switch k := r.Intn(10); {
	case k < 4:
		return dnsNames[r.Intn(len(dnsNames))], "dns"
	case k < 6:
		return mixCase(r, dnsNames[r.Intn(len(dnsNames))]), "dnsmixed"
	case k < 8:
		return ipv4s[r.Intn(len(ipv4s))], "ipv4"
	default:
		return ipv6s[r.Intn(len(ipv6s))], "ipv6"
	}
}

// otherFor returns names the certificate for vname must not be valid for.
func otherFor(vname string) []string {
	o := []string{"other.test", "9.9.9.9", "2001:db8::ffff"}
	if net.ParseIP(vname) == nil && !strings.HasPrefix(vname, "sub.") {
		o = append(o, "sub."+vname, vname+".evil.test")
	}
	return o
}

// spell produces one way a client may name vname.
func spell(r *hx.RNG, vname, class string, count func(string)) reqOp {
	q := reqOp{kind: 'G', scope: "i", vname: vname, others: otherFor(vname)}
	if r.Chance(1, 4) {
		q.kind = 'H'
	}
	isIP := class == "ipv4" || class == "ipv6"
	form := r.Intn(6)
	if isIP && form < 3 {
		form += 3 // no SNI for IP literals
	}
	port := ports[r.Intn(len(ports))]
	switch form {
	case 0: // SNI through TLS()
		q.api, q.sni = "T", vname
		count("form=sni-TLS")
	case 1: // SNI, fallback is the matching authority
		q.api, q.sni, q.fb = "F", vname, net.JoinHostPort(vname, port)
		count("form=sni+authority")
	case 2: // SNI differs from the CONNECT authority: SNI wins
		q.api, q.sni, q.fb = "F", vname, net.JoinHostPort("front.example", port)
		count("form=sni+other-authority")
	case 3, 4: // no SNI, CONNECT authority host:port / [v6]:port
		q.api, q.fb = "F", net.JoinHostPort(vname, port)
		count("form=authority-with-port")
	case 5: // no SNI, bare host
		q.api, q.fb = "F", vname
		count("form=bare-host")
	}
	return q
}

type genCase struct {
	name string
	in   []string
}

const hour = "v3600000"

// vt: validity token with the CA kind; k cycles through the CA kinds.
func vt(ms int64, k int) string {
	kind := caKinds[((k%len(caKinds))+len(caKinds))%len(caKinds)]
	t := fmt.Sprintf("v%d", ms)
	if kind != "rsa" {
		t += "," + kind
	}
	// the option dimension (SkipTLSVerify, SetH2Config) rotates independently of the CA kind
	switch ((k / len(caKinds)) + k) % 4 {
	case 1:
		t += ",skip"
	case 2:
		t += ",h2"
	case 3:
		t += ",skip,h2"
	}
	return t
}

// validities exercised besides the default hour: 5 s, 10 years, 100 years
// (NotBefore before 1950: GeneralizedTime).  Below 1 s is excluded by assumption.
func pickValidity(r *hx.RNG) int64 {
	switch k := r.Intn(10); {
	case k < 6:
		return 3600000
	case k < 7:
		return 5000
	case k < 9:
		return 315360000000
	default:
		return 3153600000000
	}
}

func orgTok(r *hx.RNG) string {
	orgs := []string{"Martian Proxy", "Test Organization", "ACME, Inc.", "Ünïcode Org", "o", "", "日本語の組織 / <b>&amp;\"quoted\"</b>", strings.Repeat("long organization name ", 12)}
	return "o" + hx.HexS(orgs[r.Intn(len(orgs))])
}

func generate(cfg *hx.Config, rng *hx.RNG, concOnly bool) []genCase {
	var cs []genCase
	n := 0
	add := func(kind string, in []string) {
		n++
		cs = append(cs, genCase{fmt.Sprintf("%s%d", kind, n), in})
		cfg.Count("kind=" + kind)
	}
	mult := 1
	if cfg.Thorough() {
		mult = 25
	}
	if concOnly {
		// side run under the Go race detector (meta race_quick_extra): concurrent kinds only
		genConc(cfg, rng, add, 3, true)
		genShared(cfg, rng, add, 2, 1, 200, true)
		return cs
	}

	// 1. every name class x every spelling, twice (second answer must be the cached object)
	allNames := [][2]string{}
	for _, d := range dnsNames {
		allNames = append(allNames, [2]string{d, "dns"})
	}
	for _, d := range dnsNames[:4] {
		allNames = append(allNames, [2]string{strings.ToUpper(d), "dnsmixed"})
	}
	for _, d := range ipv4s {
		allNames = append(allNames, [2]string{d, "ipv4"})
	}
	for _, d := range ipv6s {
		allNames = append(allNames, [2]string{d, "ipv6"})
	}
	for ni, nc := range allNames {
		r := rng.Fork()
		v, class := nc[0], nc[1]
		in := []string{"SEQ", vt(3600000, ni), orgTok(r)}
		cfg.Count("ca=" + caKinds[ni%len(caKinds)])
		var forms []reqOp
		if class == "dns" || class == "dnsmixed" {
			forms = append(forms,
				reqOp{kind: 'G', api: "T", sni: v},
				reqOp{kind: 'H', api: "F", sni: v, fb: net.JoinHostPort(v, "443")},
				reqOp{kind: 'G', api: "F", sni: v, fb: "front.example:443"})
		}
		forms = append(forms,
			reqOp{kind: 'G', api: "F", fb: net.JoinHostPort(v, "443")},
			reqOp{kind: 'H', api: "F", fb: net.JoinHostPort(v, "8443")},
			reqOp{kind: 'G', api: "F", fb: v})
		for _, f := range forms {
			f.scope, f.vname, f.others = "i", v, otherFor(v)
			in = append(in, f.token())
		}
		if class == "dns" {
			// another letter case of the same name: its own certificate, valid for both spellings
			u := mixCase(r, v)
			f := reqOp{kind: 'G', scope: "i", api: "T", sni: u, vname: u, others: otherFor(v)}
			in = append(in, f.token())
			f.vname = v
			in = append(in, f.token())
		}
		cfg.Count("class=" + class)
		add("sys", in)
	}

	// 2. no name available
	for _, in := range [][]string{
		{"SEQ", hour, "o" + hx.HexS("Martian Proxy"), reqOp{kind: 'G', scope: "i", api: "T"}.token(), reqOp{kind: 'H', scope: "i", api: "T"}.token()},
		{"SEQ", hour, "o" + hx.HexS("Martian Proxy"), reqOp{kind: 'G', scope: "i", api: "F"}.token(), reqOp{kind: 'G', scope: "i", api: "F"}.token(), reqOp{kind: 'H', scope: "i", api: "F"}.token()},
		{"SEQ", hour, "o" + hx.HexS("Martian Proxy"), reqOp{kind: 'G', scope: "i", api: "F", fb: ":443"}.token(), reqOp{kind: 'H', scope: "i", api: "F", fb: ":443"}.token()},
		{"SEQ", hour, "o" + hx.HexS("Martian Proxy"), reqOp{kind: 'G', scope: "i", api: "T", sni: "example.com", vname: "example.com"}.token(), reqOp{kind: 'G', scope: "i", api: "F"}.token(), reqOp{kind: 'G', scope: "i", api: "T"}.token()},
	} {
		in[1] = vt(3600000, len(cs))
		cfg.Count("class=noname")
		add("noname", in)
	}

	// 3. outside the property's host language: model agreement, no panic
	odd := []string{"[::1", "a:b:c", "example.com.", "example.com.:443", "*.example.com", ".", "fe80::1%eth0",
		"b\xc3\xbccher.example", "010.1.1.1", "[example.com]:443", "example.com:", "a_b.example.com", "[::1]x:443",
		"[::1]:44:3", "::1]:443", "[::1]", "[2001:db8::1]", "[10.0.0.1]", "a[b:443", "[a]b]:443", "1.2.3.4.", " example.com", "exa mple.com:443", "[]:443", "[:]:1", "[1.2.3.4]:443",
		strings.Repeat("a", 63) + "." + strings.Repeat("b", 63) + "." + strings.Repeat("c", 63) + "." + strings.Repeat("d", 61),
		strings.Repeat("x", 300) + ".example"}
	for _, h := range odd {
		v := h
		if hh, _, err := net.SplitHostPort(h); err == nil {
			v = hh
		}
		f := reqOp{kind: 'G', scope: "o", api: "F", fb: h, vname: v}
		g := reqOp{kind: 'G', scope: "o", api: "T", sni: h, vname: v}
		cfg.Count("class=odd")
		add("odd", []string{"SEQ", vt(3600000, len(cs)), "o" + hx.HexS("Martian Proxy"), f.token(), f.token(), g.token()})
	}

	// 4. random scripts over a few names, all spellings, direct and handshake
	for k := 0; k < 40*mult; k++ {
		r := rng.Fork()
		in := []string{"SEQ", hour, orgTok(r)}
		{
			vv, kk := pickValidity(r), r.Intn(len(caKinds))
			in[1] = vt(vv, kk)
			cfg.Count("ca=" + caKinds[kk])
			cfg.Count(fmt.Sprintf("validity_ms=%d", vv))
		}
		type nm struct{ v, c string }
		var names []nm
		for i := r.Range(2, 4); i > 0; i-- {
			v, c := pickName(r)
			names = append(names, nm{v, c})
		}
		for i := r.Range(3, 9); i > 0; i-- {
			x := names[r.Intn(len(names))]
			cfg.Count("class=" + x.c)
			if r.Chance(1, 12) {
				q := reqOp{kind: 'G', scope: "i", api: []string{"T", "F"}[r.Intn(2)]}
				in = append(in, q.token())
				continue
			}
			in = append(in, spell(r, x.v, x.c, cfg.Count).token())
		}
		add("rnd", in)
	}

	// 5. expiry: validity 2 s (x509 times have second granularity); hit while valid, fresh one after NotAfter
	nexp := 4
	if cfg.Thorough() {
		nexp = 24
	}
	for k := 0; k < nexp; k++ {
		r := rng.Fork()
		v, c := pickName(r)
		fixed := [][2]string{{"example.com", "dns"}, {"10.0.0.1", "ipv4"}, {"::1", "ipv6"}, {"ExAmPlE.org", "dnsmixed"}}
		if k < len(fixed) {
			v, c = fixed[k][0], fixed[k][1]
		}
		v2, c2 := pickName(r)
		for strings.EqualFold(v2, v) {
			v2, c2 = pickName(r)
		}
		in := []string{"SEQ", vt(2000, k), orgTok(r)}
		cfg.Count("ca=" + caKinds[k%len(caKinds)])
		in = append(in, spell(r, v2, c2, cfg.Count).token(), spell(r, v, c, cfg.Count).token(),
			"A-700", spell(r, v, c, cfg.Count).token(),
			"A+300", spell(r, v, c, cfg.Count).token(), spell(r, v, c, cfg.Count).token(), spell(r, v2, c2, cfg.Count).token())
		if r.Bool() {
			in = append(in, "A+300", spell(r, v, c, cfg.Count).token())
		}
		cfg.Count("class=expiry")
		add("exp", in)
	}

	// 6. concurrent requesters: 16 threads over 4 names, a fresh *tls.Config per handshake (as proxy.go does)
	genConc(cfg, rng, add, 6*mult, false)
	// 8. the proxy-level path CONNECT authority -> certificate (proxy.go -> mitm.TLSForHost)
	if cfg.Thorough() {
		genProxy(cfg, rng, add, 40)
	} else {
		genProxy(cfg, rng, add, 6)
	}
	// 7. concurrent requesters sharing ONE TLSForHost config and ONE TLS() config, tight loops, and across an expiry
	if cfg.Thorough() {
		genShared(cfg, rng, add, 12, 6, 1500, false)
	} else {
		genShared(cfg, rng, add, 4, 2, 2000, false)
	}
	return cs
}

type nameClass struct{ v, c string }

func distinctNames(r *hx.RNG, n int, dnsOnly bool) []nameClass {
	var names []nameClass
	for len(names) < n {
		v, c := pickName(r)
		if dnsOnly && c != "dns" && c != "dnsmixed" {
			continue
		}
		dup := false
		for _, x := range names {
			if strings.EqualFold(x.v, v) {
				dup = true
			}
		}
		if !dup {
			names = append(names, nameClass{v, c})
		}
	}
	return names
}

// genProxy: a real martian.Proxy with SetMITM; CONNECT to an authority (IPv4,
// IPv6, DNS; with port) x a CONNECT request modifier that leaves req.URL.Host
// alone or rewrites it (other host, other port) x client with SNI / without SNI.
// The certificate presented must be the one for what the CLIENT named (SNI if
// sent, else the CONNECT authority), never for the rewritten routing target.
func genProxy(cfg *hx.Config, rng *hx.RNG, add func(string, []string), n int) {
	for k := 0; k < n; k++ {
		r := rng.Fork()
		v4 := ipv4s[r.Intn(len(ipv4s))]
		v6 := ipv6s[r.Intn(len(ipv6s))]
		dn := dnsNames[r.Intn(len(dnsNames))]
		if r.Bool() {
			dn = mixCase(r, dn)
		}
		rewrites := []string{"10.9.9.9:8443", "routed.internal:443", "[2001:db8::99]:443", "other.test:80"}
		in := []string{"PROXY", vt(3600000, k), orgTok(r)}
		mk := func(v string, sni bool, rw string) {
			q := reqOp{kind: 'X', scope: "i", vname: v, others: otherFor(v), rw: rw}
			q.fb = net.JoinHostPort(v, ports[r.Intn(len(ports))])
			if sni {
				q.sni = v
				cfg.Count("proxy=sni")
			} else {
				cfg.Count("proxy=no-sni")
			}
			if rw == "" {
				cfg.Count("proxy=url-host-untouched")
			} else {
				cfg.Count("proxy=url-host-rewritten")
			}
			in = append(in, q.token())
		}
		rw := func() string { return rewrites[r.Intn(len(rewrites))] }
		mk(v4, false, "")
		mk(v4, false, rw())
		mk(v6, false, rw())
		mk(v6, false, "")
		mk(dn, true, rw())
		mk(dn, false, rw())
		mk(dn, true, "")
		mk(v4, false, net.JoinHostPort(v4, "8444")) // port.Modifier: same host, other port
		for j := r.Range(0, 3); j > 0; j-- {
			v := []string{v4, v6, dn}[r.Intn(3)]
			w := ""
			if r.Bool() {
				w = rw()
			}
			mk(v, v == dn && r.Bool(), w)
		}
		cfg.Count("class=proxy")
		add("proxy", in)
	}
}

func genConc(cfg *hx.Config, rng *hx.RNG, add func(string, []string), n int, race bool) {
	for k := 0; k < n; k++ {
		r := rng.Fork()
		names := distinctNames(r, 4, false)
		in := []string{"CONC", vt(3600000, k+1), orgTok(r)}
		cfg.Count("ca=" + caKinds[(k+1)%len(caKinds)])
		for t := 0; t < 16; t++ {
			in = append(in, "T")
			for j := r.Range(1, 2); j > 0; j-- {
				x := names[r.Intn(len(names))]
				q := spell(r, x.v, x.c, cfg.Count)
				if !cfg.Thorough() && t%4 != 0 {
					q.kind = 'G'
				}
				in = append(in, q.token())
			}
		}
		in = append(in, "F")
		for _, x := range names {
			q := spell(r, x.v, x.c, cfg.Count)
			q.kind = 'G'
			in = append(in, q.token())
		}
		cfg.Count("class=concurrent")
		add("conc", in)
	}
}

// genShared: every requester goes through the SAME *tls.Config obtained from
// TLSForHost(fallback) or the SAME one from TLS(), with different SNIs and
// with no SNI (fallback) at the same time, in tight loops; each answer is
// checked against the name that requester asked for.  nexp cases keep going
// across the expiry of the cached certificates (validity 2 s).
func genShared(cfg *hx.Config, rng *hx.RNG, add func(string, []string), nham, nexp, rounds int, race bool) {
	for k := 0; k < nham+nexp; k++ {
		r := rng.Fork()
		expiry := k >= nham
		fbn, fbc := pickName(r) // the CONNECT authority: any class
		snis := distinctNames(r, 3, true)
		for i := range snis {
			for strings.EqualFold(snis[i].v, fbn) {
				snis[i] = distinctNames(r, 1, true)[0]
			}
		}
		fb := net.JoinHostPort(fbn, ports[r.Intn(len(ports))])
		if r.Chance(1, 4) {
			fb = fbn
		}
		in := []string{"SHARED", vt(3600000, k+2), orgTok(r), fmt.Sprintf("n%d", rounds), "p0", "b" + hx.HexS(fb)}
		cfg.Count("ca=" + caKinds[(k+2)%len(caKinds)])
		nth := 16
		if expiry {
			in[1], in[3], in[4] = vt(2000, k+2), "n45", "p80"
			nth = 8
		}
		mkop := func(form int, t int, pick int) string {
			if pick < 0 {
				pick = r.Intn(len(snis))
			}
			q := reqOp{kind: 'G', scope: "i", api: "F", fb: fb}
			switch form {
			case 0: // no SNI: the fallback names the host
				q.vname = fbn
				cfg.Count("shared=fallback")
			case 1: // SNI through the shared TLSForHost config
				x := snis[pick]
				q.sni, q.vname = x.v, x.v
				cfg.Count("shared=sni-forhost")
			default: // SNI through the shared TLS() config
				x := snis[pick]
				q.api, q.fb, q.sni, q.vname = "T", "", x.v, x.v
				cfg.Count("shared=sni-TLS")
			}
			q.others = otherFor(q.vname)
			if (cfg.Thorough() && r.Chance(1, 8)) || (!cfg.Thorough() && !race && t == 5) {
				q.kind = 'H'
			}
			return q.token()
		}
		for t := 0; t < nth; t++ {
			in = append(in, "T")
			// threads alternate so that fallback and SNI requesters always coexist on the TLSForHost config
			in = append(in, mkop(t%3, t, -1))
			if r.Bool() {
				in = append(in, mkop(r.Intn(3), t, -1))
			}
		}
		// after the join: one lookup per name (distinct names, so a hit can only be an object a requester received)
		in = append(in, "F", mkop(0, -1, 0), mkop(1, -1, 0), mkop(2, -1, 1))
		_ = fbc
		if expiry {
			cfg.Count("class=shared-expiry")
		} else {
			cfg.Count("class=shared-hammer")
		}
		add("shared", in)
	}
}

func main() {
	mlog.SetLevel(mlog.Silent)
	cfg := hx.ParseFlags()
	defer cfg.Close()
	var err error
	if err = buildCAs(); err != nil {
		fmt.Fprintln(os.Stderr, "building the CAs:", err)
		os.Exit(2)
	}
	w.epoch = time.Now().Truncate(time.Second)

	pre, replayOnly := cfg.Inputs()
	var all []genCase
	for _, c := range pre {
		all = append(all, genCase{c.Name, c.In})
	}
	concOnly := cfg.Extra == "conconly"
	if concOnly && !replayOnly {
		all = nil // the corpus already ran in the main run
	}
	if !replayOnly {
		gen := generate(cfg, hx.NewRNG(cfg.Seed), concOnly)
		if concOnly {
			for i := range gen {
				gen[i].name = "race-" + gen[i].name
			}
		}
		all = append(all, gen...)
	}
	// run in a worker pool (cases with sleeps overlap); emit in order
	outs := make([][]string, len(all))
	workers := runtime.NumCPU()
	if workers > 12 {
		workers = 12
	}
	if workers < 2 {
		workers = 2
	}
	var wg sync.WaitGroup
	next := make(chan int)
	for k := 0; k < workers; k++ {
		wg.Add(1)
		go func() {
			defer wg.Done()
			for i := range next {
				outs[i] = runCase(all[i].in)
			}
		}()
	}
	// slow (sleeping) cases first so that they overlap with everything else
	order := make([]int, 0, len(all))
	for i, c := range all {
		if hasSleep(c.in) {
			order = append(order, i)
		}
	}
	for i, c := range all {
		if !hasSleep(c.in) {
			order = append(order, i)
		}
	}
	for _, i := range order {
		next <- i
	}
	close(next)
	wg.Wait()
	for i, c := range all {
		cfg.Emit(hx.Case{Name: c.name, In: c.in, Out: outs[i]})
	}
}

// buildCAs creates the configured-CA dimension once per run.
func buildCAs() error {
	w.cas = map[string]*caKind{}
	put := func(name string, cert *x509.Certificate, priv interface{}) {
		pool := x509.NewCertPool()
		pool.AddCert(cert)
		w.cas[name] = &caKind{name: name, cert: cert, priv: priv, roots: pool}
	}
	ca, priv, err := mitm.NewAuthority("martian.proxy", "Martian Authority", 24*time.Hour)
	if err != nil {
		return err
	}
	put("rsa", ca, priv)
	selfSigned := func(pub crypto.PublicKey, priv crypto.Signer) (*x509.Certificate, error) {
		pkix1, err := x509.MarshalPKIXPublicKey(pub)
		if err != nil {
			return nil, err
		}
		kid := sha1.Sum(pkix1)
		serial, _ := rand.Int(rand.Reader, mitm.MaxSerialNumber)
		tmpl := &x509.Certificate{
			SerialNumber:          serial,
			Subject:               pkix.Name{CommonName: "harness.ca", Organization: []string{"Harness Authority"}},
			SubjectKeyId:          kid[:],
			KeyUsage:              x509.KeyUsageDigitalSignature | x509.KeyUsageCertSign,
			ExtKeyUsage:           []x509.ExtKeyUsage{x509.ExtKeyUsageServerAuth},
			BasicConstraintsValid: true,
			IsCA:                  true,
			NotBefore:             time.Now().Add(-24 * time.Hour),
			NotAfter:              time.Now().Add(24 * time.Hour),
		}
		raw, err := x509.CreateCertificate(rand.Reader, tmpl, tmpl, pub, priv)
		if err != nil {
			return nil, err
		}
		return x509.ParseCertificate(raw)
	}
	ek, err := ecdsa.GenerateKey(elliptic.P256(), rand.Reader)
	if err != nil {
		return err
	}
	ec, err := selfSigned(ek.Public(), ek)
	if err != nil {
		return err
	}
	put("ec", ec, ek)
	dpub, dk, err := ed25519.GenerateKey(rand.Reader)
	if err != nil {
		return err
	}
	ed, err := selfSigned(dpub, dk)
	if err != nil {
		return err
	}
	put("ed", ed, dk)
	// the CA shipped with martian (cmd/proxy default): RSA-1024, self-signed with SHA1-RSA
	tc, err := tls.X509KeyPair([]byte(cybervillains.Cert), []byte(cybervillains.Key))
	if err != nil {
		return err
	}
	cv, err := x509.ParseCertificate(tc.Certificate[0])
	if err != nil {
		return err
	}
	put("cv", cv, tc.PrivateKey)
	return nil
}

func hasSleep(in []string) bool {
	for i, t := range in {
		if i >= 3 && t != "" && (t[0] == 'A' || t[0] == 'S') {
			return true
		}
	}
	return len(in) > 4 && in[0] == "SHARED" && in[4] != "p0"
}
