// c02 drives the real martian.Proxy through scripted connections and records,
// in the proxy's own order, what the request modifier, the round tripper /
// dialer and the response modifier were called with, what the client
// received, and what the proxy did to the client socket after a hijack.
//
// IN tokens:  P <nconn> <nreq>   a batch of nconn CONCURRENT connections, nreq passing plain requests each
//
//	OUT: E.conn.ctx.sess per exchange (sorted by connection, then request; IDs renamed to
//	first-occurrence index in that order), RESMISMATCH if a response modifier saw other IDs than
//	the request modifier of its exchange, MISSING.conn.seq for an unanswered request, F.live
//
// or          [D] (K req*)+   one K per client connection (played one after the other)
//
//	D    the proxy is configured with a downstream proxy (SetDownstreamProxy): a blindly
//	     tunnelled CONNECT is sent to that proxy, which answers it and carries the tunnel;
//	     plain http requests are forwarded to it by a real http.Transport
//
//	req = <mode><reqmod><rt><resmod><close>[<errtext>][<body>]
//	  mode   g plain request | b CONNECT on a proxy without MITM (blind tunnel) | m CONNECT on a MITM proxy
//	         d CONNECT tunnelled blindly through the downstream proxy of a D case (b is invalid there)
//	         p CONNECT on a MITM proxy after which the client speaks PLAINTEXT HTTP through the tunnel
//	           (no TLS handshake: the proxy serves the tunnel as cleartext HTTP on the same session)
//	  reqmod independent flags of ONE call (it always mutates the request):
//	         P none | E return error | S skip round trip | H hijack the session
//	         A hijack+error | B skip+error | C skip+hijack | D skip+hijack+error
//	  rt     O upstream answers 203 with res.Request = the request it was given / dial succeeds
//	         C answers with res.Request = a clone of it | N answers with res.Request = nil
//	         R a REAL http.Transport forwards the request to a real origin, which answers 203
//	         F round trip / dial fails with a custom error | E with a bare io.EOF | T with a net
//	         timeout error | U with io.ErrUnexpectedEOF | X with context.DeadlineExceeded
//	         Q real transport, the real origin reads the request and closes without answering
//	         S real transport with a short ResponseHeaderTimeout, the real origin never answers
//	         (R/Q/S fall back to O/E/T where the request cannot go to the cleartext origin:
//	         https inside a MITM tunnel, or a downstream proxy is configured)
//	  resmod P none | E return error | H hijack the session | A hijack+error
//	  close  k keep-alive | c request carries "Connection: close"
//	  body   (optional letter, plain requests) the request is a POST with a body:
//	         l "hello" with Content-Length | h "hello" chunked | r a body that reads like an HTTP request,
//	         Content-Length | j the same, chunked
//	  errtext (optional digit) text of the modifiers' errors: 0 plain | 1 quotes and backslashes |
//	         2 a *martian.MultiError of two errors (joined by a newline) | 3 control bytes | 4 5000 bytes
//	         and KIND of the error value: 5 bare io.EOF | 6 io.ErrUnexpectedEOF | 7 io.ErrClosedPipe |
//	         8 a net.Error with Timeout() and Temporary() true | 9 an error wrapping io.EOF whose text is
//	         that of the proxy's own "closing connection" error
//
// OUT tokens (request r = position of the request token in the case, all
// connections counted; c / s = context / session ID renamed to
// first-occurrence index; L = requests whose context is retrievable through
// martian.NewContext at that moment, 999 = a live context of an unknown request):
//
//	K                         next connection
//	Q.r.c.s.L                 request modifier called on request r
//	(warn = number of Warning values of the form  199 "martian" quoted-string quoted-string  without
//	 control characters, plus 100 for every value not of that form)
//	U.r.same.warn.m           round tripper called (for R/Q/S: logged by the real origin when the request arrives;
//	                          for mode d: the CONNECT as it arrives at the downstream proxy): same request object as Q?, Warning values, X-Req-Mod values
//	D.r                       dial (CONNECT without MITM) during exchange r
//	S.r.same.c.s.status.warn.qwarn.L  response modifier called; r from res.Request, same = res.Request is the
//	                          object seen by Q; qwarn = Warning values on res.Request.Header
//	(Q: a request whose method / path is not what the client sent under that X-Tok, or without X-Tok,
//	 is logged as request 996 / 998: the modifiers saw a request the client never sent)
//	W.r.status.warn.close.m   the client received this response to request r (m = X-Res-Mod values)
//	T.r                       a request sent through the tunnel of CONNECT r reached the tunnel origin unseen by modifiers
//	H.r                       the modifier that hijacked the session during exchange r returned
//	R | X | C                 first socket action of the proxy after H (read, write, close); C also = proxy closed the socket at the end
//	F.live.retained           after everything: VerifLiveContexts(), number of retained requests that still have a context
package main

import (
	"bufio"
	"context"
	"crypto/tls"
	"errors"
	"fmt"
	"io"
	"net"
	"net/http"
	"net/url"
	"os"
	"regexp"
	"sort"
	"strconv"
	"strings"
	"sync"
	"sync/atomic"
	"time"

	martian "github.com/google/martian/v3"
	mlog "github.com/google/martian/v3/log"
	"verifharness/hx"
	"verifharness/p2x"
)

type reqTok struct {
	mode       byte
	qh, qe, qs bool
	rt         byte
	sh, se     bool
	cl         byte
	et         byte // error text kind '0'..'4'
	body       byte // 0, 'l', 'h', 'r', 'j'
}

func parseTok(t string) (reqTok, bool) {
	et, body := byte('0'), byte(0)
	for len(t) > 5 {
		c := t[len(t)-1]
		switch {
		case c >= '0' && c <= '9':
			et = c
		case strings.ContainsRune("lhrj", rune(c)) && t[0] == 'g':
			body = c
		default:
			return reqTok{}, false
		}
		t = t[:len(t)-1]
	}
	if len(t) != 5 || !strings.ContainsRune("gbmdp", rune(t[0])) || !strings.ContainsRune("PESHABCD", rune(t[1])) ||
		!strings.ContainsRune("OFCNRETUXQS", rune(t[2])) || !strings.ContainsRune("PEHA", rune(t[3])) || !strings.ContainsRune("kc", rune(t[4])) {
		return reqTok{}, false
	}
	q, s := t[1], t[3]
	return reqTok{
		mode: t[0],
		qh:   strings.ContainsRune("HACD", rune(q)), qe: strings.ContainsRune("EABD", rune(q)), qs: strings.ContainsRune("SBCD", rune(q)),
		rt: t[2],
		sh: s == 'H' || s == 'A', se: s == 'E' || s == 'A',
		cl: t[4],
		et: et, body: body,
	}, true
}

// scriptedErr builds the error a scripted modifier returns.
func scriptedErr(side string, kind byte) error {
	switch kind {
	case '1':
		return errors.New(side + ` said "no" \ and 'left' \"`)
	case '2':
		me := martian.NewMultiError()
		me.Add(errors.New(side + ": first problem"))
		me.Add(errors.New(side + ": second problem"))
		return me
	case '3':
		return errors.New(side + " ctl\x01\x7f\ttab\r\nX-Injected: 1")
	case '4':
		return errors.New(side + " " + strings.Repeat("x", 5000))
	case '5':
		return io.EOF
	case '6':
		return io.ErrUnexpectedEOF
	case '7':
		return io.ErrClosedPipe
	case '8':
		return timeoutErr{}
	case '9':
		return fmt.Errorf("closing connection: %w", io.EOF)
	}
	return errors.New(side + "-error")
}

var warnRE = regexp.MustCompile(`^199 "martian" "(?:[^"\\]|\\.)*" "(?:[^"\\]|\\.)*"$`)

// warnCount = well-formed Warning values + 100 per malformed one.
func warnCount(h http.Header) int {
	n := 0
	for _, v := range h.Values("Warning") {
		ok := warnRE.MatchString(v)
		for i := 0; i < len(v) && ok; i++ {
			if v[i] < 0x20 || v[i] == 0x7f {
				ok = false
			}
		}
		if ok {
			n++
		} else {
			n += 100
		}
	}
	return n
}

// timeoutErr is a net.Error that reports a timeout.
type timeoutErr struct{}

func (timeoutErr) Error() string   { return "scripted i/o timeout" }
func (timeoutErr) Timeout() bool   { return true }
func (timeoutErr) Temporary() bool { return true }

// real cleartext origin (one per process) behind a real http.Transport.  It
// logs the arrival of a request as the U event of the current case.
var (
	realOnce  sync.Once
	realAddr  string
	realTr    *http.Transport // no timeouts: a loaded machine must not turn an answer into a 502
	realTrTmo *http.Transport // short ResponseHeaderTimeout, used only with the origin that never answers
	curEnv    atomic.Value    // *env of the running case
)

func realOrigin() {
	realOnce.Do(func() {
		l, err := net.Listen("tcp", "127.0.0.1:0")
		if err != nil {
			panic(err)
		}
		realAddr = l.Addr().String()
		go http.Serve(l, http.HandlerFunc(func(w http.ResponseWriter, r *http.Request) {
			if e, _ := curEnv.Load().(*env); e != nil {
				k := tokOf(r.Header)
				e.mu.Lock()
				same := e.sameOf[k]
				e.mu.Unlock()
				e.rec.Add(fmt.Sprintf("U.%d.%d.%d.%d", k, same, warnCount(r.Header), len(r.Header.Values("X-Req-Mod"))))
			}
			switch r.Header.Get("X-Origin-Mode") {
			case "close":
				if hj, ok := w.(http.Hijacker); ok {
					if c, _, err := hj.Hijack(); err == nil {
						c.Close()
					}
				}
				return
			case "hang":
				select {
				case <-r.Context().Done():
				case <-time.After(3 * time.Second):
				}
				if hj, ok := w.(http.Hijacker); ok {
					if c, _, err := hj.Hijack(); err == nil {
						c.Close()
					}
				}
				return
			}
			w.Header().Set("Content-Type", "text/plain")
			w.Header().Set("Content-Length", "2")
			w.WriteHeader(203)
			io.WriteString(w, "ok")
		}))
		dial := func(network, addr string) (net.Conn, error) {
			return net.DialTimeout("tcp", realAddr, 5*time.Second)
		}
		// no connection reuse: a reused connection that the origin closes makes
		// the transport retry, i.e. contact the origin twice
		realTr = &http.Transport{Dial: dial, DisableCompression: true, MaxIdleConnsPerHost: -1}
		realTrTmo = &http.Transport{Dial: dial, DisableCompression: true, MaxIdleConnsPerHost: -1,
			ResponseHeaderTimeout: 250 * time.Millisecond}
	})
}

type env struct {
	rec      *p2x.Rec
	mu       sync.Mutex
	script   map[int]reqTok
	retained map[int]*http.Request
	ctxOf    map[int]*martian.Context
	expect   map[int]string // method and path the client sent under X-Tok r
	sameOf   map[int]int    // request r reached the round tripper as the object the request modifier saw
	lastQ    int
	tunAddr  string
	via      bool // downstream proxy configured
}

// fake downstream proxy (one per process): answers CONNECT with 200 and then
// serves one request inside the tunnel like the tunnel origin does; answers
// anything else with 203 "ok" like the scripted round tripper.
var (
	downOnce sync.Once
	downAddr string
	downBase *http.Transport
)

func downstream() (string, *http.Transport) {
	downOnce.Do(func() {
		l, err := net.Listen("tcp", "127.0.0.1:0")
		if err != nil {
			panic(err)
		}
		downAddr = l.Addr().String()
		go http.Serve(l, http.HandlerFunc(func(w http.ResponseWriter, r *http.Request) {
			if r.Method != "CONNECT" {
				w.Header().Set("Content-Type", "text/plain")
				w.Header().Set("Content-Length", "2")
				w.WriteHeader(203)
				io.WriteString(w, "ok")
				return
			}
			if e, _ := curEnv.Load().(*env); e != nil {
				// the CONNECT as the downstream proxy receives it
				e.rec.Add(fmt.Sprintf("U.%d.1.%d.%d", tokOf(r.Header), warnCount(r.Header), len(r.Header.Values("X-Req-Mod"))))
			}
			hj, ok := w.(http.Hijacker)
			if !ok {
				w.WriteHeader(500)
				return
			}
			c, brw, err := hj.Hijack()
			if err != nil {
				return
			}
			defer c.Close()
			c.SetDeadline(time.Now().Add(10 * time.Second))
			io.WriteString(brw, "HTTP/1.1 200 Connection established\r\n\r\n")
			brw.Flush()
			if _, err := http.ReadRequest(brw.Reader); err != nil {
				return
			}
			io.WriteString(brw, "HTTP/1.1 204 No Content\r\nConnection: close\r\nX-Tunnel-Origin: 1\r\n\r\n")
			brw.Flush()
		}))
		downBase = &http.Transport{
			Proxy:              http.ProxyURL(&url.URL{Scheme: "http", Host: downAddr}),
			DisableCompression: true,
		}
	})
	return downAddr, downBase
}

func (e *env) linked() string {
	e.mu.Lock()
	var l []int
	for r, p := range e.retained {
		if martian.NewContext(p) != nil {
			l = append(l, r)
		}
	}
	e.mu.Unlock()
	sort.Ints(l)
	if martian.VerifLiveContexts() != len(l) {
		l = append(l, 999)
	}
	return p2x.JoinInts(l)
}

func tokOf(h http.Header) int {
	v := h.Get("X-Tok")
	if v == "" {
		return 998
	}
	n, err := strconv.Atoi(v)
	if err != nil {
		return 998
	}
	return n
}

func (e *env) ctxFields(ctx *martian.Context) (string, string) {
	if ctx == nil {
		return "997", "997"
	}
	c := e.rec.Index("ctx", ctx.ID())
	s := 997
	if ctx.Session() != nil {
		s = e.rec.Index("sess", ctx.Session().ID())
	}
	return strconv.Itoa(c), strconv.Itoa(s)
}

func (e *env) hijack(ctx *martian.Context, r int) {
	if ctx == nil || ctx.Session() == nil {
		return
	}
	_, brw, err := ctx.Session().Hijack()
	if err == nil && brw != nil {
		fmt.Fprintf(brw, "HTTP/1.1 299 Hijacked\r\nContent-Length: 0\r\nX-Tok: %d\r\n\r\n", r)
		brw.Flush()
	}
	e.rec.AddArm("H." + strconv.Itoa(r))
}

func (e *env) ModifyRequest(req *http.Request) (err error) {
	defer func() {
		if x := recover(); x != nil {
			e.rec.Add("PANIC")
			err = nil
		}
	}()
	r := tokOf(req.Header)
	e.mu.Lock()
	if old, ok := e.retained[r]; ok && old != req {
		r = 996 // a second request object claiming the same script position
	}
	if want, ok := e.expect[r]; ok && req.URL != nil && want != req.Method+" "+req.URL.Path {
		r = 996 // not the request the client sent under this X-Tok (merged with foreign bytes)
	}
	e.retained[r] = req
	e.lastQ = r
	beh, ok := e.script[r]
	e.mu.Unlock()
	ctx := martian.NewContext(req)
	e.mu.Lock()
	e.ctxOf[r] = ctx
	e.mu.Unlock()
	c, s := e.ctxFields(ctx)
	e.rec.Add("Q." + strconv.Itoa(r) + "." + c + "." + s + "." + e.linked())
	req.Header.Add("X-Req-Mod", "1")
	if !ok {
		return nil
	}
	// one call may do any combination of: skip, hijack, fail
	if beh.qs && ctx != nil {
		ctx.SkipRoundTrip()
	}
	if beh.qh {
		e.hijack(ctx, r)
	}
	if beh.qe {
		return scriptedErr("reqmod", beh.et)
	}
	return nil
}

func (e *env) ModifyResponse(res *http.Response) (err error) {
	defer func() {
		if x := recover(); x != nil {
			e.rec.Add("PANIC")
			err = nil
		}
	}()
	r, same := 995, 0
	var ctx *martian.Context
	if res.Request != nil {
		r = tokOf(res.Request.Header)
		ctx = martian.NewContext(res.Request)
		e.mu.Lock()
		if e.retained[r] == res.Request {
			same = 1
		}
		if ctx != nil && e.ctxOf[r] != ctx {
			ctx = nil // not the context object the request modifier saw
			same = 0
		}
		e.mu.Unlock()
	}
	e.mu.Lock()
	beh, ok := e.script[r]
	e.mu.Unlock()
	c, s := e.ctxFields(ctx)
	qw := 0
	if res.Request != nil {
		qw = warnCount(res.Request.Header)
	}
	e.rec.Add(fmt.Sprintf("S.%d.%d.%s.%s.%d.%d.%d.%s", r, same, c, s, res.StatusCode, warnCount(res.Header), qw, e.linked()))
	res.Header.Add("X-Res-Mod", "1")
	if !ok {
		return nil
	}
	if beh.sh {
		e.hijack(ctx, r)
	}
	if beh.se {
		return scriptedErr("resmod", beh.et)
	}
	return nil
}

// RoundTrip is the proxy's only way upstream for non-CONNECT requests.
func (e *env) RoundTrip(req *http.Request) (*http.Response, error) {
	r := tokOf(req.Header)
	e.mu.Lock()
	same := 0
	if e.retained[r] == req {
		same = 1
	}
	beh := e.script[r]
	e.sameOf[r] = same
	e.mu.Unlock()
	rt := beh.rt
	if real := rt == 'R' || rt == 'Q' || rt == 'S'; real {
		if !e.via && req.URL != nil && req.URL.Scheme == "http" {
			// the real origin logs U when (and if) the request arrives
			tr := realTr
			if rt == 'S' {
				tr = realTrTmo
			}
			return tr.RoundTrip(req)
		}
		rt = map[byte]byte{'R': 'O', 'Q': 'E', 'S': 'T'}[rt]
	}
	e.rec.Add(fmt.Sprintf("U.%d.%d.%d.%d", r, same, warnCount(req.Header), len(req.Header.Values("X-Req-Mod"))))
	closeBody := func() {
		if req.Body != nil {
			req.Body.Close() // http.RoundTripper: "RoundTrip must always close the body, including on errors"
		}
	}
	if strings.ContainsRune("FETUX", rune(rt)) {
		closeBody()
	}
	switch rt {
	case 'F':
		return nil, errors.New("upstream-failure")
	case 'E':
		return nil, io.EOF
	case 'T':
		return nil, timeoutErr{}
	case 'U':
		return nil, io.ErrUnexpectedEOF
	case 'X':
		return nil, context.DeadlineExceeded
	}
	// what a wrapping RoundTripper may legitimately leave in res.Request: the
	// request it was given, the copy it forwarded, or nothing
	rr := req
	switch beh.rt {
	case 'C':
		rr = req.Clone(req.Context())
	case 'N':
		rr = nil
	}
	if e.via && req.URL != nil && req.URL.Scheme == "http" {
		// really forward through the downstream proxy (the wrapper forwards
		// the copy when it is of the copying kind)
		_, base := downstream()
		fwd := req
		if beh.rt == 'C' {
			fwd = rr
		}
		res, err := base.RoundTrip(fwd)
		if err != nil {
			return nil, err
		}
		res.Request = rr
		return res, nil
	}
	closeBody()
	return &http.Response{
		StatusCode: 203, Status: "203 Non-Authoritative Information", Proto: "HTTP/1.1", ProtoMajor: 1, ProtoMinor: 1,
		Header: http.Header{"Content-Type": {"text/plain"}}, Body: io.NopCloser(strings.NewReader("ok")), ContentLength: 2, Request: rr,
	}, nil
}

// dial is the proxy's only way upstream for CONNECT without MITM.
func (e *env) dial(network, addr string) (net.Conn, error) {
	e.mu.Lock()
	r := e.lastQ
	beh := e.script[r]
	e.mu.Unlock()
	e.rec.Add("D." + strconv.Itoa(r))
	switch beh.rt {
	case 'F':
		return nil, errors.New("dial-failure")
	case 'E', 'Q':
		return nil, io.EOF
	case 'T', 'S':
		return nil, timeoutErr{}
	case 'U':
		return nil, io.ErrUnexpectedEOF
	case 'X':
		return nil, context.DeadlineExceeded
	}
	target := e.tunAddr
	if e.via {
		target = addr // the downstream proxy: connect() sends it the CONNECT request
	}
	return net.DialTimeout("tcp", target, 5*time.Second)
}

// tunnel origin: answers one request with 204 and closes.
func tunnelOrigin() (string, func()) {
	l, err := net.Listen("tcp", "127.0.0.1:0")
	if err != nil {
		panic(err)
	}
	go func() {
		for {
			c, err := l.Accept()
			if err != nil {
				return
			}
			go func(c net.Conn) {
				defer c.Close()
				c.SetDeadline(time.Now().Add(10 * time.Second))
				if _, err := http.ReadRequest(bufio.NewReader(c)); err != nil {
					return
				}
				io.WriteString(c, "HTTP/1.1 204 No Content\r\nConnection: close\r\nX-Tunnel-Origin: 1\r\n\r\n")
			}(c)
		}
	}()
	return l.Addr().String(), func() { l.Close() }
}

// respWait is generous so that a loaded machine never produces a false
// "no response"; once several responses have gone missing in one run (the
// tree under test is evidently broken and witnesses are recorded) the rest
// of the run uses a short wait so that the harness still finishes.
var (
	missing  int
	respWait = 4 * time.Second
)

func noteMissing() {
	missing++
	if missing >= 3 {
		respWait = 400 * time.Millisecond
	}
}

const (
	respWaitHijack = 300 * time.Millisecond
	actWait        = 3 * time.Second
	closeWait      = 4 * time.Second
)

func (e *env) playConn(addr string, toks []reqTok, base int, roots *tls.Config) {
	rec := e.rec
	rec.NewConnEpoch()
	rec.Add("K")
	raw, err := net.DialTimeout("tcp", addr, 5*time.Second)
	if err != nil {
		rec.Add("DIALERR")
		return
	}
	var cur net.Conn = raw
	br := bufio.NewReader(cur)
	dead, hijacked, inTLS, tunnel := false, false, false, -1
	sawCloseAct := false
	for i, t := range toks {
		r := base + i
		if dead || tunnel >= 0 {
			break
		}
		var sb strings.Builder
		method, verb, payload := "GET", "GET", ""
		switch t.body {
		case 'l', 'h':
			verb, payload = "POST", "hello"
		case 'r', 'j':
			verb, payload = "POST", "GET http://smuggled.example/ HTTP/1.1\r\nHost: smuggled.example\r\n\r\n"
		}
		switch {
		case t.mode != 'g':
			method, verb = "CONNECT", "CONNECT"
			sb.WriteString("CONNECT example.com:443 HTTP/1.1\r\nHost: example.com:443\r\n")
		case inTLS:
			fmt.Fprintf(&sb, "%s /r%d HTTP/1.1\r\nHost: example.com\r\n", verb, r)
		default:
			fmt.Fprintf(&sb, "%s http://origin.test/r%d HTTP/1.1\r\nHost: origin.test\r\n", verb, r)
		}
		e.mu.Lock()
		if verb == "CONNECT" {
			e.expect[r] = "CONNECT "
		} else {
			e.expect[r] = fmt.Sprintf("%s /r%d", verb, r)
		}
		e.mu.Unlock()
		fmt.Fprintf(&sb, "X-Tok: %d\r\n", r)
		switch t.rt {
		case 'Q':
			sb.WriteString("X-Origin-Mode: close\r\n")
		case 'S':
			sb.WriteString("X-Origin-Mode: hang\r\n")
		}
		if t.cl == 'c' {
			sb.WriteString("Connection: close\r\n")
		}
		switch t.body {
		case 'l', 'r':
			fmt.Fprintf(&sb, "Content-Length: %d\r\n\r\n%s", len(payload), payload)
		case 'h', 'j':
			fmt.Fprintf(&sb, "Transfer-Encoding: chunked\r\n\r\n%x\r\n%s\r\n0\r\n\r\n", len(payload), payload)
		default:
			sb.WriteString("\r\n")
		}
		cur.SetDeadline(time.Now().Add(respWait))
		if hijacked {
			cur.SetDeadline(time.Now().Add(respWaitHijack))
		}
		if _, err := io.WriteString(cur, sb.String()); err != nil {
			dead = true
			break
		}
		if hijacked {
			// No answer is expected any more.  Wait until the proxy has visibly
			// consumed the request (its request modifier ran), the connection
			// died, or bytes arrive; give up after respWaitHijack.
			got := false
			for t0 := time.Now(); time.Since(t0) < respWaitHijack; {
				if rec.Has("Q." + strconv.Itoa(r) + ".") {
					break
				}
				cur.SetReadDeadline(time.Now().Add(2 * time.Millisecond))
				if _, err := br.Peek(1); err == nil {
					got = true
					break
				} else if ne, ok := err.(net.Error); !ok || !ne.Timeout() {
					dead = true
					break
				}
			}
			if dead {
				break
			}
			if !got {
				continue
			}
			cur.SetDeadline(time.Now().Add(respWait))
		}
		res, err := http.ReadResponse(br, &http.Request{Method: method})
		if err != nil {
			if ne, ok := err.(net.Error); ok && ne.Timeout() {
				noteMissing()
			}
			dead = true
			break
		}
		if method != "CONNECT" || res.ContentLength >= 0 {
			// (a blind CONNECT 200 has no length and "Connection: close": its "body" is the tunnel)
			io.Copy(io.Discard, res.Body)
			res.Body.Close()
		}
		if res.StatusCode == 299 {
			// written by the hijacking modifier, which logged H.r itself
			hijacked = true
			if a := rec.WaitAct(actWait); a == "C" {
				sawCloseAct = true
			}
			continue
		}
		cl := 0
		if res.Close {
			cl = 1
		}
		rec.Add(fmt.Sprintf("W.%d.%d.%d.%d.%d", r, res.StatusCode, warnCount(res.Header), cl, len(res.Header.Values("X-Res-Mod"))))
		if method == "CONNECT" && res.StatusCode == 200 {
			if t.mode == 'p' {
				// plaintext through the MITM'd tunnel: nothing to do, keep writing to the socket
			} else if t.mode == 'm' {
				cur.SetDeadline(time.Now().Add(respWait))
				tc := tls.Client(cur, roots)
				if err := tc.Handshake(); err != nil {
					dead = true
					break
				}
				cur, br, inTLS = tc, bufio.NewReader(tc), true
			} else {
				tunnel = r
			}
		}
	}
	if tunnel >= 0 && !dead {
		// one exchange with the tunnel origin; the proxy's modifiers must not see it
		cur.SetDeadline(time.Now().Add(respWait))
		fmt.Fprintf(cur, "GET /probe HTTP/1.1\r\nHost: example.com\r\nX-Tok: %d\r\n\r\n", 900+tunnel)
		if res, err := http.ReadResponse(br, &http.Request{Method: "GET"}); err == nil {
			if res.StatusCode == 204 && res.Header.Get("X-Tunnel-Origin") == "1" {
				rec.Add("T." + strconv.Itoa(tunnel))
			} else {
				rec.Add("TBAD." + strconv.Itoa(res.StatusCode))
			}
			res.Body.Close()
		} else {
			rec.Add("TNONE")
		}
	}
	if os.Getenv("VERIF_DBG") != "" {
		fmt.Fprintln(os.Stderr, "client closing", time.Now().Format("05.000"))
	}
	cur.Close()
	if cur != raw {
		raw.Close()
	}
	closedOK := rec.WaitClosed(closeWait)
	if os.Getenv("VERIF_DBG") != "" {
		fmt.Fprintln(os.Stderr, "closed", closedOK, time.Now().Format("05.000"))
	}
	if closedOK && !sawCloseAct && rec.LastAct() != "C" {
		rec.Add("C")
	}
}

// ---------------------------------------------------------------- concurrent batch

type concMod struct {
	mu       sync.Mutex
	ids      map[[2]int][2]string // (conn, seq) -> ctx ID, session ID seen by the request modifier
	mismatch bool
}

func concKey(h http.Header) ([2]int, bool) {
	k, err1 := strconv.Atoi(h.Get("X-Conn"))
	i, err2 := strconv.Atoi(h.Get("X-Seq"))
	return [2]int{k, i}, err1 == nil && err2 == nil
}

func (m *concMod) ModifyRequest(req *http.Request) error {
	key, ok := concKey(req.Header)
	ctx := martian.NewContext(req)
	if !ok || ctx == nil || ctx.Session() == nil {
		return nil
	}
	m.mu.Lock()
	m.ids[key] = [2]string{ctx.ID(), ctx.Session().ID()}
	m.mu.Unlock()
	return nil
}

func (m *concMod) ModifyResponse(res *http.Response) error {
	if res.Request == nil {
		return nil
	}
	key, ok := concKey(res.Request.Header)
	ctx := martian.NewContext(res.Request)
	m.mu.Lock()
	defer m.mu.Unlock()
	if want, seen := m.ids[key]; ok && seen && (ctx == nil || ctx.Session() == nil || want != [2]string{ctx.ID(), ctx.Session().ID()}) {
		m.mismatch = true
	}
	return nil
}

func (m *concMod) RoundTrip(req *http.Request) (*http.Response, error) {
	if req.Body != nil {
		req.Body.Close()
	}
	return &http.Response{
		StatusCode: 203, Status: "203 Non-Authoritative Information", Proto: "HTTP/1.1", ProtoMajor: 1, ProtoMinor: 1,
		Header: http.Header{"Content-Type": {"text/plain"}}, Body: io.NopCloser(strings.NewReader("ok")), ContentLength: 2, Request: req,
	}, nil
}

func runConc(in []string) (out []string) {
	if len(in) != 3 {
		return []string{"BADCASE"}
	}
	nc, err1 := strconv.Atoi(in[1])
	nr, err2 := strconv.Atoi(in[2])
	if err1 != nil || err2 != nil || nc < 1 || nr < 1 || nc > 128 || nr > 5000 {
		return []string{"BADCASE"}
	}
	m := &concMod{ids: map[[2]int][2]string{}}
	l, err := net.Listen("tcp", "127.0.0.1:0")
	if err != nil {
		return []string{"LISTENERR"}
	}
	p := martian.NewProxy()
	p.SetTimeout(20 * time.Second)
	p.SetRoundTripper(m)
	p.SetRequestModifier(m)
	p.SetResponseModifier(m)
	go p.Serve(l)
	answered := make([][]bool, nc)
	var wg sync.WaitGroup
	start := make(chan struct{})
	for k := 0; k < nc; k++ {
		answered[k] = make([]bool, nr)
		wg.Add(1)
		go func(k int) {
			defer wg.Done()
			c, err := net.DialTimeout("tcp", l.Addr().String(), 5*time.Second)
			if err != nil {
				return
			}
			defer c.Close()
			br := bufio.NewReader(c)
			<-start
			for i := 0; i < nr; i++ {
				c.SetDeadline(time.Now().Add(respWait + 6*time.Second))
				fmt.Fprintf(c, "GET http://origin.test/c%d/%d HTTP/1.1\r\nHost: origin.test\r\nX-Conn: %d\r\nX-Seq: %d\r\n\r\n", k, i, k, i)
				res, err := http.ReadResponse(br, &http.Request{Method: "GET"})
				if err != nil {
					return
				}
				io.Copy(io.Discard, res.Body)
				res.Body.Close()
				answered[k][i] = res.StatusCode == 203
			}
		}(k)
	}
	close(start)
	wg.Wait()
	done := make(chan struct{})
	go func() { p.Close(); close(done) }()
	select {
	case <-done:
	case <-time.After(6 * time.Second):
		out = append(out, "STUCK")
	}
	cidx, sidx := map[string]int{}, map[string]int{}
	ren := func(mm map[string]int, id string) int {
		if v, ok := mm[id]; ok {
			return v
		}
		mm[id] = len(mm)
		return mm[id]
	}
	m.mu.Lock()
	for k := 0; k < nc; k++ {
		for i := 0; i < nr; i++ {
			ids, ok := m.ids[[2]int{k, i}]
			if !ok || !answered[k][i] {
				out = append(out, fmt.Sprintf("MISSING.%d.%d", k, i))
				continue
			}
			out = append(out, fmt.Sprintf("E.%d.%d.%d", k, ren(cidx, ids[0]), ren(sidx, ids[1])))
		}
	}
	if m.mismatch {
		out = append(out, "RESMISMATCH")
	}
	m.mu.Unlock()
	return append(out, fmt.Sprintf("F.%d", martian.VerifLiveContexts()))
}

func runCase(in []string) (out []string) {
	if len(in) > 0 && in[0] == "P" {
		return runConc(in)
	}
	via := false
	if len(in) > 0 && in[0] == "D" {
		via, in = true, in[1:]
	}
	var conns [][]reqTok
	useMitm, blind := false, false
	for _, t := range in {
		if t == "K" {
			conns = append(conns, nil)
			continue
		}
		rt, ok := parseTok(t)
		if !ok || len(conns) == 0 {
			return []string{"BADCASE"}
		}
		if rt.mode == 'm' || rt.mode == 'p' {
			useMitm = true
		}
		if rt.mode == 'b' || rt.mode == 'd' {
			blind = true
		}
		if (rt.mode == 'd') != via && (rt.mode == 'b' || rt.mode == 'd') {
			return []string{"INVALID"} // b only without, d only with a downstream proxy
		}
		conns[len(conns)-1] = append(conns[len(conns)-1], rt)
	}
	if useMitm && blind {
		return []string{"INVALID"}
	}
	rec := p2x.NewRec()
	e := &env{via: via, rec: rec, script: map[int]reqTok{}, retained: map[int]*http.Request{}, ctxOf: map[int]*martian.Context{}, sameOf: map[int]int{}, expect: map[int]string{}, lastQ: 994}
	realOrigin()
	curEnv.Store(e)
	n := 0
	for _, c := range conns {
		for _, t := range c {
			e.script[n] = t
			n++
		}
	}
	tunAddr, stopTun := tunnelOrigin()
	defer stopTun()
	e.tunAddr = tunAddr

	l, err := net.Listen("tcp", "127.0.0.1:0")
	if err != nil {
		return []string{"LISTENERR"}
	}
	p := martian.NewProxy()
	p.SetTimeout(20 * time.Second)
	p.SetRoundTripper(e)
	p.SetDial(e.dial)
	if via {
		da, _ := downstream()
		p.SetDownstreamProxy(&url.URL{Scheme: "http", Host: da})
	}
	p.SetRequestModifier(e)
	p.SetResponseModifier(e)
	var ccfg *tls.Config
	if useMitm {
		mc, roots, err := p2x.MITM()
		if err != nil {
			return []string{"MITMERR"}
		}
		p.SetMITM(mc)
		ccfg = p2x.ClientTLS(roots, "example.com")
	}
	go p.Serve(p2x.NewListener(l, rec))

	base := 0
	for _, c := range conns {
		e.playConn(l.Addr().String(), c, base, ccfg)
		base += len(c)
	}
	done := make(chan struct{})
	go func() { p.Close(); close(done) }()
	select {
	case <-done:
	case <-time.After(6 * time.Second):
		rec.Add("STUCK")
	}
	ret := 0
	e.mu.Lock()
	for _, q := range e.retained {
		if martian.NewContext(q) != nil {
			ret++
		}
	}
	e.mu.Unlock()
	out = rec.Tokens()
	out = append(out, fmt.Sprintf("F.%d.%d", martian.VerifLiveContexts(), ret))
	return out
}

// ---------------------------------------------------------------- generation

var (
	qAll  = "PESHABCD"
	rtAll = "OFCN"
	sAll  = "PEHA"
	clAll = "kc"
)

// allToks enumerates every combination of behaviours for one request of the
// given mode.  The round-tripper variants C and N only matter for plain
// requests (CONNECT never reaches the round tripper).
func allToks(mode byte, withClose bool) []string {
	var a []string
	for _, q := range qAll {
		for _, rt := range rtAll {
			if mode != 'g' && (rt == 'C' || rt == 'N') {
				continue
			}
			for _, s := range sAll {
				for _, cl := range clAll {
					if cl == 'c' && !withClose {
						continue
					}
					a = append(a, string([]byte{mode, byte(q), byte(rt), byte(s), byte(cl)}))
				}
			}
		}
	}
	return a
}

func randTok(r *hx.RNG, mode byte) string {
	q := "PPPPESHABCD"[r.Intn(11)]
	rt := "OOORRRFCNETUXQ"[r.Intn(14)]
	if mode != 'g' && !strings.ContainsRune("FETUX", rune(rt)) {
		rt = 'O'
	}
	s := "PPPPEHA"[r.Intn(7)]
	cl := byte('k')
	if mode == 'g' && r.Chance(1, 8) {
		cl = 'c'
	}
	t := string([]byte{mode, q, rt, s, cl})
	if strings.ContainsRune("EABD", rune(q)) || strings.ContainsRune("EA", rune(s)) {
		t += string(rune('0' + r.Intn(10)))
	}
	if mode == 'g' && r.Chance(1, 4) {
		t += string("lhrj"[r.Intn(4)])
	}
	return t
}

// randConn builds one connection script for a proxy of the given kind
// ('g' only plain requests, 'b' blind CONNECT allowed, 'm' MITM CONNECT allowed).
func randConn(r *hx.RNG, kind byte, maxLen int) []string {
	n := r.Range(1, maxLen)
	var c []string
	connectAt := -1
	if kind != 'g' && r.Chance(3, 4) {
		connectAt = r.Intn(n)
		if r.Chance(1, 2) {
			connectAt = 0
		}
	}
	for i := 0; i < n; i++ {
		if i == connectAt {
			c = append(c, randTok(r, kind))
		} else {
			c = append(c, randTok(r, 'g'))
		}
	}
	return c
}

func main() {
	mlog.SetLevel(mlog.Silent)
	cfg := hx.ParseFlags()
	defer cfg.Close()
	n := 0
	emit := func(kind string, in []string) {
		n++
		// with a downstream proxy a blind CONNECT is of mode d
		if len(in) > 0 && in[0] == "D" {
			in = append([]string(nil), in...)
			for i, t := range in {
				if len(t) >= 5 && t[0] == 'b' {
					in[i] = "d" + t[1:]
				}
			}
		}
		// enumerated scripts: give every erroring request one of the five error texts in turn
		if kind != "rnd" && kind != "etxt" {
			in = append([]string(nil), in...)
			for i, t := range in {
				if len(t) == 5 && (strings.ContainsRune("EABD", rune(t[1])) || strings.ContainsRune("EA", rune(t[3]))) {
					in[i] = t + string(rune('0'+(n+i)%10))
				}
			}
		}
		cfg.Emit(hx.Case{Name: fmt.Sprintf("%s%d", kind, n), In: in, Out: runCase(in)})
		if len(in) > 0 && in[0] == "P" {
			cfg.Count("concurrent_batch=" + strings.Join(in[1:], "x"))
			return
		}
		nreq, modes := 0, map[byte]bool{}
		for _, t := range in {
			if t == "D" {
				cfg.Count("downstream_proxy=1")
				continue
			}
			if t != "K" {
				nreq++
				modes[t[0]] = true
				if len(t) > 5 && strings.ContainsAny(t[5:], "lhrj") {
					cfg.Count("body=" + strings.Trim(t[5:], "0123456789"))
				}
				cfg.Count("reqmod=" + string(t[1]))
				cfg.Count("resmod=" + string(t[3]))
			}
		}
		cfg.Count(fmt.Sprintf("requests=%d", nreq))
		for m := range modes {
			cfg.Count("mode=" + string(m))
		}
	}
	pre, replayOnly := cfg.Inputs()
	if cfg.Extra == "conconly" {
		pre = nil
	}
	for _, c := range pre {
		cfg.Emit(hx.Case{Name: c.Name, In: c.In, Out: runCase(c.In)})
	}
	if replayOnly {
		return
	}
	rng := hx.NewRNG(cfg.Seed)
	if v := os.Getenv("VERIF_C02_ONLY"); v != "" {
		emit("one", strings.Fields(v))
		return
	}

	// 0. batches of concurrent keep-alive connections: context and session identifiers over ALL
	//    exchanges of a run (volume: a shared scratch buffer in newID shows as a few percent repeats
	//    only under real contention).  With -extra conconly (side run under the race detector)
	//    only smaller batches are run.
	if cfg.Extra == "conconly" {
		for k := 0; k < 3; k++ {
			emit("concrace", []string{"P", strconv.Itoa([]int{16, 32, 8}[k]), strconv.Itoa([]int{40, 20, 80}[k])})
		}
		return
	}
	nb := 4
	if cfg.Thorough() {
		nb = 24
	}
	for k := 0; k < nb; k++ {
		// ~6000 exchanges per batch: the oracle compares all pairs
		emit("conc", []string{"P", strconv.Itoa([]int{48, 64, 32, 96}[k%4]), strconv.Itoa([]int{125, 90, 180, 60}[k%4])})
	}
	// 1. every combination of behaviour flags for a single request in every mode
	//    (plain: 8 x 4 x 4 x 2; CONNECT blind / MITM: 8 x 2 x 4 x 2)
	for _, m := range []byte("gbmp") {
		for _, t := range allToks(m, true) {
			emit("one", []string{"K", t})
		}
	}
	//    the same with a downstream proxy configured (CONNECT answered by that proxy)
	for _, m := range []byte("gbm") {
		for _, t := range allToks(m, true) {
			emit("done", []string{"D", "K", t})
		}
	}
	for _, m := range []byte("gb") {
		for _, t := range allToks(m, m == 'g') {
			emit("dthen", []string{"D", "K", t, "gPOPk", "gECAk", "K", "gPNPk"})
		}
	}
	//    real transport + real origin (answers / closes without answering / never answers) and
	//    every kind of round trip error, with every request / response modifier combination
	for _, rt := range "REUTXQS" {
		for _, q := range qAll {
			for _, sb := range sAll {
				if rt == 'S' && (q != 'P' && q != 'E' || sb != 'P' && sb != 'A') {
					continue // the never-answering origin costs a timeout per case
				}
				emit("real", []string{"K", string([]byte{'g', byte(q), byte(rt), byte(sb), 'k'}), "gPRPk"})
			}
		}
	}
	//    every error text for request- and response-side errors, scripted and real upstream,
	//    plain / blind CONNECT / MITM CONNECT / inside the MITM tunnel
	for k := '0'; k <= '9'; k++ {
		for _, base := range [][]string{
			{"gEOEk"}, {"gEREk"}, {"gERPk", "gPRPk"}, {"gBRPk"}, {"gEQEk"}, {"gAOPk"}, {"gPRAk"}, {"gEFEk"},
			{"bEOEk"}, {"bEFEk", "gERPk"}, {"mEOEk", "gEREk", "gEOEk"},
		} {
			in := []string{"K"}
			for _, t := range base {
				in = append(in, t+string(k))
			}
			emit("etxt", in)
			emit("etxt", append([]string{"D"}, in...))
		}
	}
	//    request bodies (Content-Length / chunked, opaque / reading like an HTTP request) on every
	//    request-modifier combination, forwarded or not, followed by more requests on the connection:
	//    the modifiers must see exactly the requests the client sent
	for _, q := range qAll {
		for _, b := range "lhrj" {
			for _, rt := range "ORFE" {
				emit("body", []string{"K", string([]byte{'g', byte(q), byte(rt), 'P', 'k', byte(b)}), "gPOPk", "gPRPk"})
			}
			emit("body", []string{"K", string([]byte{'g', byte(q), 'O', 'E', 'k', byte(b)}), "gPOPk" + string(b), "gPOPk"})
			emit("body", []string{"K", "mPOPk", string([]byte{'g', byte(q), 'O', 'P', 'k', byte(b)}), "gPOPk"})
			emit("body", []string{"D", "K", string([]byte{'g', byte(q), 'R', 'P', 'k', byte(b)}), "gPOPk"})
		}
	}
	// 2. every behaviour followed by a plain passing request and a second connection
	//    (what happens after an error / skip / hijack / close; session per connection)
	for _, m := range []byte("gbm") {
		for _, t := range allToks(m, m == 'g') {
			emit("then", []string{"K", t, "gPOPk", "gEOEk", "K", "gPOPk"})
		}
	}
	//    every CONNECT behaviour on a MITM proxy followed by inner requests inside TLS
	for _, t := range allToks('m', false) {
		emit("mthen", []string{"K", t, "gEOAk", "gPCPk"})
	}
	//    and followed by PLAINTEXT requests through the MITM'd tunnel (the context table is sampled
	//    inside every later exchange of the connection, whatever the tunnel carries)
	for _, t := range allToks('p', false) {
		emit("pthen", []string{"K", t, "gEOEk", "gPCPk", "gPOAk"})
	}
	for _, t := range allToks('g', false) {
		emit("pinner", []string{"K", "pPOPk", t, "gPOPk"})
	}
	// 3. inside a MITM tunnel: CONNECT, then every behaviour as first inner request, then one more
	for _, t := range allToks('g', true) {
		emit("inner", []string{"K", "mPOPk", t, "gPOPk"})
	}
	//    and as the second inner request
	for _, t := range allToks('g', false) {
		emit("inner2", []string{"K", "mPOPk", "gPOPk", t, "gPFPk"})
	}
	// 4. random scripts: 1..3 connections x 1..5 requests
	nr := 700
	if cfg.Thorough() {
		nr = 6000
	}
	for k := 0; k < nr; k++ {
		r := rng.Fork()
		kind := "gbmp"[r.Intn(4)]
		var in []string
		if r.Chance(1, 3) {
			in = append(in, "D")
		}
		for c, nc := 0, r.Range(1, 3); c < nc; c++ {
			in = append(in, "K")
			in = append(in, randConn(r, kind, 5)...)
		}
		emit("rnd", in)
	}
	// 5. thorough only: every plain behaviour combination followed by each of a
	//    representative set of second requests, outside and inside a MITM tunnel
	if cfg.Thorough() {
		second := []string{"gPOPk", "gEOEk", "gSOPk", "gBOPk", "gHOPk", "gAOPk", "gPOHk", "gPOAk", "gPCPk", "gPNEk", "gPFPk", "gPOPc"}
		for _, x := range allToks('g', true) {
			for _, y := range second {
				emit("pair", []string{"K", x, y, "gPOPk"})
				if x[4] == 'k' {
					emit("mpair", []string{"K", "mPOPk", x, y})
				}
			}
		}
	}
}
