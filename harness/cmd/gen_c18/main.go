// gen_c18 is the translator tie for C18: it reads the data-like facts the
// Coq model of trafficshape depends on from the repository's current source
// (go/ast, no execution) and writes coq/C18/Gen_Shape.v.
//
//	gen_c18 -repo R -out DIR
//
// Facts read:
//   - trafficshape/listener.go: `var DefaultBitrate int64 = <lit>`
//   - trafficshape/utils.go (parseShapes): `shape.MaxBandwidth = DefaultBitrate / <lit>`
//     and `defaultBandwidth := DefaultBitrate / <lit>`
//   - trafficshape/handler.go (ServeHTTP): `defaults.Bandwidth.Up = DefaultBitrate / <lit>`
//   - trafficshape/listener.go (NewBuckets): NewBucket(_, time.Second) -> drain interval
//   - trafficshape/handler.go: decrementCount of Halt and CloseConnection is
//     `if x.Count > 0 { x.Count-- }`, ChangeBandwidth.getCount returns -1
//
//   - trafficshape/conn.go (*Conn).Write: in `case *Halt:` Unlock and RUnlock precede time.Sleep
//
// It fails loudly (exit 1) when the expected shape is gone.
package main

import (
	"flag"
	"fmt"
	"go/ast"
	"go/parser"
	"go/token"
	"os"
	"path/filepath"
	"strings"
)

func die(f string, a ...interface{}) {
	fmt.Fprintf(os.Stderr, "gen_c18: "+f+"\n", a...)
	os.Exit(1)
}

func parse(repo, rel string) *ast.File {
	fs := token.NewFileSet()
	f, err := parser.ParseFile(fs, filepath.Join(repo, rel), nil, 0)
	if err != nil {
		die("parse %s: %v", rel, err)
	}
	return f
}

func funcDecl(f *ast.File, recv, name string) *ast.FuncDecl {
	for _, d := range f.Decls {
		fd, ok := d.(*ast.FuncDecl)
		if !ok || fd.Name.Name != name {
			continue
		}
		if recv == "" && fd.Recv == nil {
			return fd
		}
		if recv != "" && fd.Recv != nil && len(fd.Recv.List) == 1 {
			if se, ok := fd.Recv.List[0].Type.(*ast.StarExpr); ok {
				if id, ok := se.X.(*ast.Ident); ok && id.Name == recv {
					return fd
				}
			}
		}
	}
	return nil
}

// divisors of `DefaultBitrate / <int literal>` expressions inside n.
func bitrateDivisors(n ast.Node) []string {
	var out []string
	ast.Inspect(n, func(x ast.Node) bool {
		be, ok := x.(*ast.BinaryExpr)
		if !ok || be.Op != token.QUO {
			return true
		}
		id, ok := be.X.(*ast.Ident)
		lit, ok2 := be.Y.(*ast.BasicLit)
		if ok && ok2 && id.Name == "DefaultBitrate" && lit.Kind == token.INT {
			out = append(out, lit.Value)
		}
		return true
	})
	return out
}

func allSame(xs []string) (string, bool) {
	if len(xs) == 0 {
		return "", false
	}
	for _, x := range xs {
		if x != xs[0] {
			return "", false
		}
	}
	return xs[0], true
}

// isDecIfPositive: body is exactly `if r.Count > 0 { r.Count-- }`.
func isDecIfPositive(fd *ast.FuncDecl) bool {
	if fd == nil || fd.Body == nil || len(fd.Body.List) != 1 {
		return false
	}
	is, ok := fd.Body.List[0].(*ast.IfStmt)
	if !ok || is.Else != nil || is.Init != nil {
		return false
	}
	c, ok := is.Cond.(*ast.BinaryExpr)
	if !ok || c.Op != token.GTR {
		return false
	}
	sel, ok := c.X.(*ast.SelectorExpr)
	lit, ok2 := c.Y.(*ast.BasicLit)
	if !ok || !ok2 || sel.Sel.Name != "Count" || lit.Value != "0" {
		return false
	}
	if len(is.Body.List) != 1 {
		return false
	}
	inc, ok := is.Body.List[0].(*ast.IncDecStmt)
	if !ok || inc.Tok != token.DEC {
		return false
	}
	s2, ok := inc.X.(*ast.SelectorExpr)
	return ok && s2.Sel.Name == "Count"
}

func main() {
	repo := flag.String("repo", "/repo", "repository root")
	out := flag.String("out", ".", "output directory")
	flag.Parse()

	lf := parse(*repo, "trafficshape/listener.go")
	uf := parse(*repo, "trafficshape/utils.go")
	hf := parse(*repo, "trafficshape/handler.go")

	// DefaultBitrate literal
	bitrate := ""
	for _, d := range lf.Decls {
		gd, ok := d.(*ast.GenDecl)
		if !ok || gd.Tok != token.VAR {
			continue
		}
		for _, sp := range gd.Specs {
			vs := sp.(*ast.ValueSpec)
			for i, n := range vs.Names {
				if n.Name == "DefaultBitrate" && i < len(vs.Values) {
					if lit, ok := vs.Values[i].(*ast.BasicLit); ok && lit.Kind == token.INT {
						bitrate = strings.ReplaceAll(lit.Value, "_", "")
					}
				}
			}
		}
	}
	if bitrate == "" {
		die("listener.go: `var DefaultBitrate int64 = <int literal>` not found")
	}

	ps := funcDecl(uf, "", "parseShapes")
	if ps == nil {
		die("utils.go: parseShapes not found")
	}
	sh := funcDecl(hf, "Handler", "ServeHTTP")
	if sh == nil {
		die("handler.go: (*Handler).ServeHTTP not found")
	}
	nl := funcDecl(lf, "", "NewListener")
	gc := funcDecl(lf, "Listener", "GetTrafficShapedConn")
	if nl == nil || gc == nil {
		die("listener.go: NewListener / GetTrafficShapedConn not found")
	}
	var divs []string
	for _, fd := range []*ast.FuncDecl{ps, sh, nl, gc} {
		d := bitrateDivisors(fd)
		if len(d) == 0 {
			die("%s: no `DefaultBitrate / <lit>` expression", fd.Name.Name)
		}
		divs = append(divs, d...)
	}
	div, ok := allSame(divs)
	if !ok {
		die("DefaultBitrate divisors differ: %v", divs)
	}

	// NewBuckets: both NewBucket calls use time.Second
	nb := funcDecl(lf, "", "NewBuckets")
	if nb == nil {
		die("listener.go: NewBuckets not found")
	}
	nsec, ncalls := 0, 0
	ast.Inspect(nb, func(x ast.Node) bool {
		ce, ok := x.(*ast.CallExpr)
		if !ok {
			return true
		}
		if id, ok := ce.Fun.(*ast.Ident); ok && id.Name == "NewBucket" && len(ce.Args) == 2 {
			ncalls++
			if se, ok := ce.Args[1].(*ast.SelectorExpr); ok {
				if p, ok := se.X.(*ast.Ident); ok && p.Name == "time" && se.Sel.Name == "Second" {
					nsec++
				}
			}
		}
		return true
	})
	if ncalls != 2 || nsec != 2 {
		die("listener.go: NewBuckets is not two NewBucket(_, time.Second) calls (calls=%d second=%d)", ncalls, nsec)
	}

	if !isDecIfPositive(funcDecl(hf, "Halt", "decrementCount")) {
		die("handler.go: (*Halt).decrementCount is not `if h.Count > 0 { h.Count-- }`")
	}
	if !isDecIfPositive(funcDecl(hf, "CloseConnection", "decrementCount")) {
		die("handler.go: (*CloseConnection).decrementCount is not `if cc.Count > 0 { cc.Count-- }`")
	}
	cbc := funcDecl(hf, "ChangeBandwidth", "getCount")
	cbCount := ""
	if cbc != nil && cbc.Body != nil && len(cbc.Body.List) == 1 {
		if rs, ok := cbc.Body.List[0].(*ast.ReturnStmt); ok && len(rs.Results) == 1 {
			if ue, ok := rs.Results[0].(*ast.UnaryExpr); ok && ue.Op == token.SUB {
				if lit, ok := ue.X.(*ast.BasicLit); ok {
					cbCount = "-" + lit.Value
				}
			}
		}
	}
	if cbCount == "" {
		die("handler.go: (*ChangeBandwidth).getCount is not `return -<lit>`")
	}
	cbd := funcDecl(hf, "ChangeBandwidth", "decrementCount")
	if cbd == nil || cbd.Body == nil || len(cbd.Body.List) != 0 {
		die("handler.go: (*ChangeBandwidth).decrementCount is not a no-op")
	}

	// lock discipline: in (*Conn).Write, `case *Halt:` releases the shape's lock and the
	// shape map's read lock BEFORE time.Sleep (no sleep while holding Shapes' locks)
	cf := parse(*repo, "trafficshape/conn.go")
	wr := funcDecl(cf, "Conn", "Write")
	if wr == nil {
		die("conn.go: (*Conn).Write not found")
	}
	haltOK := false
	ast.Inspect(wr, func(x ast.Node) bool {
		cc, ok := x.(*ast.CaseClause)
		if !ok || len(cc.List) != 1 {
			return true
		}
		se, ok := cc.List[0].(*ast.StarExpr)
		if !ok {
			return true
		}
		if id, ok := se.X.(*ast.Ident); !ok || id.Name != "Halt" {
			return true
		}
		sleepAt, unlockAt, runlockAt := -1, -1, -1
		for i, st := range cc.Body {
			es, ok := st.(*ast.ExprStmt)
			if !ok {
				continue
			}
			ce, ok := es.X.(*ast.CallExpr)
			if !ok {
				continue
			}
			sel, ok := ce.Fun.(*ast.SelectorExpr)
			if !ok {
				continue
			}
			switch sel.Sel.Name {
			case "Sleep":
				if sleepAt < 0 {
					sleepAt = i
				}
			case "Unlock":
				unlockAt = i
			case "RUnlock":
				runlockAt = i
			}
		}
		if sleepAt >= 0 && unlockAt >= 0 && runlockAt >= 0 && unlockAt < sleepAt && runlockAt < sleepAt {
			haltOK = true
		}
		return true
	})
	if !haltOK {
		die("conn.go: (*Conn).Write `case *Halt:` does not release the shape lock (Unlock) and the shape map's read lock (RUnlock) before time.Sleep")
	}

	var sb strings.Builder
	sb.WriteString("(* GENERATED by harness/cmd/gen_c18 from trafficshape/{listener,utils,handler}.go.\n   Do not edit: rewritten on every vcheck run when the source changes. *)\n")
	sb.WriteString("From Coq Require Import ZArith.\nOpen Scope Z_scope.\n\n")
	fmt.Fprintf(&sb, "(* listener.go: var DefaultBitrate int64 *)\nDefinition default_bitrate : Z := %s.\n\n", bitrate)
	fmt.Fprintf(&sb, "(* every `DefaultBitrate / n` in parseShapes, ServeHTTP, NewListener, GetTrafficShapedConn *)\nDefinition bitrate_divisor : Z := %s.\n\n", div)
	sb.WriteString("(* listener.go NewBuckets: per-connection buckets drain every time.Second *)\nDefinition drain_interval_ms : Z := 1000.\n\n")
	fmt.Fprintf(&sb, "(* handler.go: ChangeBandwidth.getCount *)\nDefinition bw_action_count : Z := %s.\n\n", cbCount)
	sb.WriteString("(* handler.go: Halt/CloseConnection decrementCount = `if Count > 0 { Count-- }`;\n   ChangeBandwidth.decrementCount is a no-op, both shapes checked by the translator *)\nDefinition dec_count (c : Z) : Z := if 0 <? c then c - 1 else c.\n")
	sb.WriteString("\n(* conn.go Write, case Halt: Unlock and RUnlock come before time.Sleep (checked by the translator):\n   a halt never holds the listener-wide shape map's lock *)\nDefinition halt_sleeps_without_shape_locks : bool := true.\n")
	if err := os.WriteFile(filepath.Join(*out, "Gen_Shape.v"), []byte(sb.String()), 0o644); err != nil {
		die("%v", err)
	}
}
