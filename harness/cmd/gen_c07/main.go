// gen_c07 reads proxy.go of the repository under check with go/ast and
// writes Gen_Shutdown.v: the statement ORDER facts of Close, handleLoop,
// readRequest and handle that the C07 model transcribes by hand.  The facts
// are booleans; coq/C07/Proofs.v proves `source_shape_tie` (all of them true)
// by reflexivity, so a reordering in the source breaks that obligation.
// A missing function/statement (shape gone) makes the translator fail.
//
//	gen_c07 -repo R -out DIR
package main

import (
	"bytes"
	"flag"
	"fmt"
	"go/ast"
	"go/parser"
	"go/printer"
	"go/token"
	"os"
	"path/filepath"
	"strings"
)

var fset = token.NewFileSet()

func src(n ast.Node) string {
	var b bytes.Buffer
	printer.Fprint(&b, fset, n)
	return strings.Join(strings.Fields(b.String()), " ")
}

func die(f string, a ...interface{}) {
	fmt.Fprintf(os.Stderr, "gen_c07: "+f+"\n", a...)
	os.Exit(1)
}

func method(file *ast.File, name string) *ast.FuncDecl {
	for _, d := range file.Decls {
		if fd, ok := d.(*ast.FuncDecl); ok && fd.Name.Name == name && fd.Recv != nil && fd.Body != nil {
			if strings.Contains(src(fd.Recv.List[0].Type), "Proxy") {
				return fd
			}
		}
	}
	die("method (*Proxy).%s not found", name)
	return nil
}

// index of the first top-level statement of body whose source is exactly s (or has prefix s when prefix)
func idx(body *ast.BlockStmt, s string, prefix bool) int {
	for i, st := range body.List {
		t := src(st)
		if t == s || (prefix && strings.HasPrefix(t, s)) {
			return i
		}
	}
	return -1
}

func need(fn string, body *ast.BlockStmt, s string, prefix bool) int {
	i := idx(body, s, prefix)
	if i < 0 {
		die("%s: statement %q not found at top level", fn, s)
	}
	return i
}

func b(v bool) string {
	if v {
		return "true"
	}
	return "false"
}

func main() {
	repo := flag.String("repo", "/repo", "repository root")
	out := flag.String("out", ".", "output directory")
	flag.Parse()
	file, err := parser.ParseFile(fset, filepath.Join(*repo, "proxy.go"), nil, 0)
	if err != nil {
		die("%v", err)
	}

	// Close: close(p.closing); p.connsMu.Lock(); p.conns.Wait(); p.connsMu.Unlock()
	cl := method(file, "Close").Body
	cSig := need("Close", cl, "close(p.closing)", false)
	cLock := need("Close", cl, "p.connsMu.Lock()", false)
	cWait := need("Close", cl, "p.conns.Wait()", false)
	cUnlock := need("Close", cl, "p.connsMu.Unlock()", false)

	// handleLoop: Lock; Add(1); Unlock; defer Done; defer conn.Close; if p.Closing() { return }
	hl := method(file, "handleLoop").Body
	hLock := need("handleLoop", hl, "p.connsMu.Lock()", false)
	hAdd := need("handleLoop", hl, "p.conns.Add(1)", false)
	hUnlock := need("handleLoop", hl, "p.connsMu.Unlock()", false)
	hDone := need("handleLoop", hl, "defer p.conns.Done()", false)
	hClose := need("handleLoop", hl, "defer conn.Close()", false)
	hExit := need("handleLoop", hl, "if p.Closing() { return }", false)

	// Serve: the handler is started with `go p.handleLoop(conn)` (registration is inside the goroutine)
	goHandle := false
	ast.Inspect(method(file, "Serve").Body, func(n ast.Node) bool {
		if g, ok := n.(*ast.GoStmt); ok && src(g.Call) == "p.handleLoop(conn)" {
			goHandle = true
		}
		return true
	})
	if !goHandle {
		die("Serve: `go p.handleLoop(conn)` not found")
	}
	// Serve releases its listener when it returns: `defer l.Close()` is its first statement
	serveBody := method(file, "Serve").Body
	serveCloses := len(serveBody.List) > 0 && src(serveBody.List[0]) == "defer l.Close()"

	// readRequest: the select has a `case <-p.closing:` whose body returns errClose
	selClosing := false
	ast.Inspect(method(file, "readRequest").Body, func(n ast.Node) bool {
		if cc, ok := n.(*ast.CommClause); ok && cc.Comm != nil && src(cc.Comm) == "<-p.closing" {
			for _, st := range cc.Body {
				if src(st) == "return nil, errClose" {
					selClosing = true
				}
			}
		}
		return true
	})

	// readRequest: every read from the client connection happens inside the reader goroutine
	// (`go func() { ... http.ReadRequest(brw.Reader) ... }()`) that precedes the select, i.e. no
	// path reads the socket without going through the select on p.closing
	rr := method(file, "readRequest").Body
	readsInGo, readsOutside, goAt, selAt := 0, 0, -1, -1
	isRead := func(c *ast.CallExpr) bool {
		t := src(c.Fun)
		if t == "http.ReadRequest" {
			return true
		}
		for _, pre := range []string{"brw.", "brw.Reader.", "conn.", "ctx.Session()."} {
			for _, m := range []string{"Read", "ReadByte", "ReadRune", "ReadLine", "ReadString", "ReadBytes", "ReadSlice", "Peek", "Discard", "WriteTo"} {
				if t == pre+m {
					return true
				}
			}
		}
		return false
	}
	for i, st := range rr.List {
		inGo := false
		if g, ok := st.(*ast.GoStmt); ok {
			inGo = true
			if goAt < 0 {
				goAt = i
			}
			_ = g
		}
		if _, ok := st.(*ast.SelectStmt); ok && selAt < 0 {
			selAt = i
		}
		ast.Inspect(st, func(n ast.Node) bool {
			if c, ok := n.(*ast.CallExpr); ok && isRead(c) {
				if inGo {
					readsInGo++
				} else {
					readsOutside++
				}
			}
			return true
		})
	}
	if readsInGo+readsOutside == 0 {
		die("readRequest: no call reading the request found")
	}
	readsBehindSelect := readsOutside == 0 && readsInGo > 0 && goAt >= 0 && selAt > goAt
	// the request is only returned after the select (no return between the go statement and the select)
	for i, st := range rr.List {
		if i < selAt {
			ast.Inspect(st, func(n ast.Node) bool {
				if _, ok := n.(*ast.FuncLit); ok {
					return false
				}
				if _, ok := n.(*ast.ReturnStmt); ok {
					readsBehindSelect = false
				}
				return true
			})
		}
	}

	// handle: ... p.resmod.ModifyResponse(res) ... if req.Close || res.Close || p.Closing() { res.Close = true; closing = errClose } ... res.Write ... return closing
	h := method(file, "handle").Body
	resmod := need("handle", h, "if err := p.resmod.ModifyResponse(res); err != nil {", true)
	dec := -1
	decMarks, decCloses, decChecks := false, false, false
	for i, st := range h.List {
		if is, ok := st.(*ast.IfStmt); ok && strings.Contains(src(is.Cond), "res.Close") && is.Init == nil {
			dec = i
			decChecks = strings.Contains(src(is.Cond), "p.Closing()")
			for _, bs := range is.Body.List {
				switch src(bs) {
				case "res.Close = true":
					decMarks = true
				case "closing = errClose":
					decCloses = true
				}
			}
		}
	}
	if dec < 0 {
		die("handle: close decision `if req.Close || res.Close || p.Closing()` not found")
	}
	write := need("handle", h, "err = res.Write(brw)", false)
	flush := need("handle", h, "err = brw.Flush()", false)
	ret := need("handle", h, "return closing", false)

	var o strings.Builder
	o.WriteString("(* GENERATED by harness/cmd/gen_c07 from proxy.go — do not edit.\n")
	o.WriteString("   Statement-order facts of the shutdown code that coq/C07/Model.v transcribes. *)\n\n")
	def := func(name string, v bool, what string) {
		fmt.Fprintf(&o, "(* %s *)\nDefinition %s : bool := %s.\n\n", what, name, b(v))
	}
	def("close_signals_before_lock", cSig < cLock, "Close: close(p.closing) precedes p.connsMu.Lock()")
	def("close_waits_under_lock", cLock < cWait && cWait < cUnlock, "Close: p.conns.Wait() runs between connsMu.Lock() and connsMu.Unlock()")
	def("handler_adds_under_lock", hLock < hAdd && hAdd < hUnlock, "handleLoop: p.conns.Add(1) runs between connsMu.Lock() and connsMu.Unlock()")
	def("handler_registers_in_goroutine", goHandle, "Serve: `go p.handleLoop(conn)`; the Add is the first thing handleLoop does")
	def("serve_closes_listener_on_return", serveCloses, "Serve: `defer l.Close()` is the first statement (a listener is never left open by a Serve loop that returned)")
	def("handler_closes_then_done", hDone < hClose && hUnlock < hDone, "handleLoop: `defer p.conns.Done()` is deferred BEFORE `defer conn.Close()` (LIFO: the socket is closed first)")
	def("handler_early_exit_after_register", hClose < hExit, "handleLoop: `if p.Closing() { return }` comes after the Add and both defers")
	def("reader_select_sees_closing", selClosing, "readRequest: select has `case <-p.closing: return nil, errClose`")
	def("reader_reads_only_behind_select", readsBehindSelect, "readRequest: every read of the client connection is inside the reader goroutine started before the select; no return before the select")
	def("decision_after_resmod", resmod < dec, "handle: the close decision is evaluated after the response modifier returned")
	def("decision_checks_closing", decChecks, "handle: the close decision tests p.Closing()")
	def("decision_marks_and_closes", decMarks && decCloses, "handle: the decision sets res.Close = true and closing = errClose")
	def("response_written_after_decision", dec < write && write < flush && flush < ret, "handle: res.Write, brw.Flush, return closing follow the decision in this order")
	if err := os.WriteFile(filepath.Join(*out, "Gen_Shutdown.v"), []byte(o.String()), 0o644); err != nil {
		die("%v", err)
	}
}
