// gen_c10 is the translator tie for C10: it reads, with go/ast (no execution),
// the data-like and shape facts the Coq model of the h2 relay's shutdown
// depends on from the repository's current source and writes
// coq/C10/Gen_H2Const.v.
//
//	gen_c10 -repo R -out DIR
//
// Facts read:
//   - h2/relay.go: const outputChannelSize = <int lit>; newRelay makes `output`
//     with exactly that capacity; the capacities relayFrames gives `readerDone`,
//     `writerErr` and `frameReady` (the repaired relay has 0, 1, 1)
//   - h2/h2.go (Config.Proxy): is there a top-level `defer <conn>.Close()` on the
//     connection returned by tls.Dial, placed before the forwardPreface call
//     (src_closes_upstream); does Proxy close a channel that relayFrames' select
//     receives from through a relay field (src_done_signal)
//   - h2/relay.go: every `destMu.Lock()` is released on every path of its statement list
//     (src_destmu_released_on_every_path)
//   - h2/h2.go (Config.Proxy): every close(<chan>) is inside a sync.Once's Do (src_done_closed_at_most_once)
//   - h2/relay.go (processFrame): no `err :=` in an inner scope (src_processframe_errors_reach_return)
//   - h2/relay.go (emitEligibleFrames): is the send into `output` a case of a
//     select with another receive case (src_emit_abortable) or a bare send
//
// When an expected shape is gone it says so on stderr, still writes the file
// with what it could read and `src_shape_ok := false` (Proofs_Tie.v then
// does not compile: a broken tie) so that the model still builds and the
// correspondence run and oracle search happen.  It exits 1 only when the
// files do not parse or the functions themselves are gone.
package main

import (
	"flag"
	"fmt"
	"go/ast"
	"go/parser"
	"go/token"
	"os"
	"path/filepath"
	"strconv"
	"strings"
)

func die(f string, a ...interface{}) {
	fmt.Fprintf(os.Stderr, "gen_c10: "+f+"\n", a...)
	os.Exit(1)
}

// problems are shape facts that were not found.  The translator still writes
// the Gen file (with src_shape_ok := false and what it could read) so that the
// model builds and the correspondence run happens; Proofs_Tie.v then fails.
var problems []string

func problem(f string, a ...interface{}) {
	m := fmt.Sprintf(f, a...)
	problems = append(problems, m)
	fmt.Fprintln(os.Stderr, "gen_c10: "+m)
}

func parse(repo, rel string) *ast.File {
	fs := token.NewFileSet()
	f, err := parser.ParseFile(fs, filepath.Join(repo, rel), nil, 0)
	if err != nil {
		die("parse %s: %v", rel, err)
	}
	return f
}

func funcDecl(f *ast.File, recv, name string) *ast.FuncDecl {
	for _, d := range f.Decls {
		fd, ok := d.(*ast.FuncDecl)
		if !ok || fd.Name.Name != name || fd.Recv == nil || len(fd.Recv.List) != 1 {
			continue
		}
		if se, ok := fd.Recv.List[0].Type.(*ast.StarExpr); ok {
			if id, ok := se.X.(*ast.Ident); ok && id.Name == recv {
				return fd
			}
		}
	}
	die("func (*%s).%s not found", recv, name)
	return nil // unreachable: without the function there is nothing to model
}

func isCall(e ast.Expr, pkg, name string) (*ast.CallExpr, bool) {
	c, ok := e.(*ast.CallExpr)
	if !ok {
		return nil, false
	}
	switch fn := c.Fun.(type) {
	case *ast.Ident:
		return c, pkg == "" && fn.Name == name
	case *ast.SelectorExpr:
		x, ok := fn.X.(*ast.Ident)
		return c, ok && x.Name == pkg && fn.Sel.Name == name
	}
	return c, false
}

// chanCap returns the capacity expression of `make(chan T[, cap])` or nil,false.
func chanMake(e ast.Expr) (capExpr ast.Expr, ok bool) {
	c, is := isCall(e, "", "make")
	if !is || len(c.Args) == 0 {
		return nil, false
	}
	if _, isChan := c.Args[0].(*ast.ChanType); !isChan {
		return nil, false
	}
	if len(c.Args) == 1 {
		return nil, true
	}
	return c.Args[1], true
}

func recvFrom(s ast.Stmt) ast.Expr {
	var e ast.Expr
	switch st := s.(type) {
	case *ast.ExprStmt:
		e = st.X
	case *ast.AssignStmt:
		if len(st.Rhs) == 1 {
			e = st.Rhs[0]
		}
	}
	if u, ok := e.(*ast.UnaryExpr); ok && u.Op == token.ARROW {
		return u.X
	}
	return nil
}

func main() {
	repo := flag.String("repo", "/repo", "repository root")
	out := flag.String("out", ".", "output directory")
	flag.Parse()

	relay := parse(*repo, "h2/relay.go")
	h2go := parse(*repo, "h2/h2.go")

	// --- const outputChannelSize
	capVal := -1
	for _, d := range relay.Decls {
		gd, ok := d.(*ast.GenDecl)
		if !ok || gd.Tok != token.CONST {
			continue
		}
		for _, sp := range gd.Specs {
			vs := sp.(*ast.ValueSpec)
			for i, n := range vs.Names {
				if n.Name == "outputChannelSize" && i < len(vs.Values) {
					if bl, ok := vs.Values[i].(*ast.BasicLit); ok && bl.Kind == token.INT {
						capVal, _ = strconv.Atoi(bl.Value)
					}
				}
			}
		}
	}
	if capVal < 0 {
		problem("const outputChannelSize = <int literal> not found in h2/relay.go")
		capVal = 15
	}
	if capVal > 4096 {
		problem("outputChannelSize %d is beyond what the model represents in unary", capVal)
		capVal = 4096
	}

	// --- newRelay: output: make(chan queuedFrame, outputChannelSize)
	foundOut := false
	ast.Inspect(relay, func(n ast.Node) bool {
		kv, ok := n.(*ast.KeyValueExpr)
		if !ok {
			return true
		}
		if k, ok := kv.Key.(*ast.Ident); ok && k.Name == "output" {
			if ce, ok := chanMake(kv.Value); ok {
				if id, ok := ce.(*ast.Ident); ok && id.Name == "outputChannelSize" {
					foundOut = true
				}
			}
		}
		return true
	})
	if !foundOut {
		problem("newRelay no longer makes `output` with capacity outputChannelSize")
	}

	// --- relayFrames: channel capacities and the select's receive cases
	rf := funcDecl(relay, "relay", "relayFrames")
	caps := map[string]string{}
	ast.Inspect(rf.Body, func(n ast.Node) bool {
		as, ok := n.(*ast.AssignStmt)
		if !ok || len(as.Lhs) != 1 || len(as.Rhs) != 1 {
			return true
		}
		id, ok := as.Lhs[0].(*ast.Ident)
		if !ok {
			return true
		}
		if ce, ok := chanMake(as.Rhs[0]); ok {
			if ce == nil {
				caps[id.Name] = "0"
			} else if bl, ok := ce.(*ast.BasicLit); ok {
				caps[id.Name] = bl.Value
			} else {
				caps[id.Name] = "?"
			}
		}
		return true
	})
	capOf := func(name string, dflt int) int {
		v, err := strconv.Atoi(caps[name])
		if err != nil || v < 0 || v > 64 {
			problem("relayFrames: capacity of %s is not a small integer literal (%q)", name, caps[name])
			return dflt
		}
		return v
	}
	readerDoneCap, writerErrCap, frameReadyCap := capOf("readerDone", 0), capOf("writerErr", 1), capOf("frameReady", 1)
	var doneField string
	sawClosing, sawFrameReady, sawWriterErr := false, false, false
	ast.Inspect(rf.Body, func(n ast.Node) bool {
		sel, ok := n.(*ast.SelectStmt)
		if !ok {
			return true
		}
		var names []string
		var fields []string
		for _, c := range sel.Body.List {
			cc := c.(*ast.CommClause)
			if cc.Comm == nil {
				continue
			}
			switch x := recvFrom(cc.Comm).(type) {
			case *ast.Ident:
				names = append(names, x.Name)
			case *ast.SelectorExpr:
				if r, ok := x.X.(*ast.Ident); ok && r.Name == "r" {
					fields = append(fields, x.Sel.Name)
				}
			}
		}
		has := func(s string) bool {
			for _, n := range names {
				if n == s {
					return true
				}
			}
			return false
		}
		if has("closing") {
			sawClosing, sawFrameReady, sawWriterErr = true, has("frameReady"), has("writerErr")
			for _, f := range fields {
				if f != "output" {
					doneField = f
				}
			}
		}
		return true
	})
	if !sawClosing || !sawFrameReady || !sawWriterErr {
		problem("relayFrames: the reader's select over frameReady / writerErr / closing was not found")
	}

	// --- Proxy: defer <dialled>.Close() before forwardPreface; close(<chan>) somewhere; relay.<doneField> assigned
	px := funcDecl(h2go, "Config", "Proxy")
	dialled := ""
	closesUpstream := false
	sawPreface := false
	for _, st := range px.Body.List {
		switch s := st.(type) {
		case *ast.AssignStmt:
			if len(s.Rhs) == 1 && len(s.Lhs) == 2 {
				if _, ok := isCall(s.Rhs[0], "tls", "Dial"); ok {
					if id, ok := s.Lhs[0].(*ast.Ident); ok {
						dialled = id.Name
					}
				}
			}
		case *ast.DeferStmt:
			if se, ok := s.Call.Fun.(*ast.SelectorExpr); ok && se.Sel.Name == "Close" {
				if id, ok := se.X.(*ast.Ident); ok && dialled != "" && id.Name == dialled && !sawPreface {
					closesUpstream = true
				}
			}
		case *ast.IfStmt:
			if as, ok := s.Init.(*ast.AssignStmt); ok && len(as.Rhs) == 1 {
				if _, ok := isCall(as.Rhs[0], "", "forwardPreface"); ok {
					sawPreface = true
				}
			}
		}
	}
	if dialled == "" {
		problem("Proxy: `<conn>, err := tls.Dial(...)` not found")
	}
	if !sawPreface {
		problem("Proxy: `if err := forwardPreface(...)` not found")
	}
	closesChan, assignsField, deferredInBoth := false, false, 0
	ast.Inspect(px.Body, func(n ast.Node) bool {
		switch x := n.(type) {
		case *ast.CallExpr:
			if id, ok := x.Fun.(*ast.Ident); ok && id.Name == "close" {
				closesChan = true
			}
		case *ast.AssignStmt:
			for _, l := range x.Lhs {
				if se, ok := l.(*ast.SelectorExpr); ok && doneField != "" && se.Sel.Name == doneField {
					assignsField = true
				}
			}
		case *ast.GoStmt:
			// goroutines that run relayFrames must signal the end of the session when it returns
			if fl, ok := x.Call.Fun.(*ast.FuncLit); ok {
				runsRelay, defers := false, 0
				ast.Inspect(fl.Body, func(m ast.Node) bool {
					if c, ok := m.(*ast.CallExpr); ok {
						if se, ok := c.Fun.(*ast.SelectorExpr); ok && se.Sel.Name == "relayFrames" {
							runsRelay = true
						}
					}
					return true
				})
				for _, s := range fl.Body.List {
					if _, ok := s.(*ast.DeferStmt); ok {
						defers++
					}
				}
				if runsRelay && defers >= 2 {
					deferredInBoth++
				}
			}
		}
		return true
	})
	doneSignal := doneField != "" && closesChan && assignsField && deferredInBoth == 2

	// --- the session's done channel is closed at most once: every close(<chan>) in Proxy sits inside a function
	// literal passed to <once>.Do(...) where <once> is declared `var <once> sync.Once` in Proxy (a check-then-close
	// such as `select { case <-done: default: close(done) }` is not atomic: two directions ending together both close)
	onceVars := map[string]bool{}
	ast.Inspect(px.Body, func(n ast.Node) bool {
		ds, ok := n.(*ast.DeclStmt)
		if !ok {
			return true
		}
		if gd, ok := ds.Decl.(*ast.GenDecl); ok && gd.Tok == token.VAR {
			for _, sp := range gd.Specs {
				vs := sp.(*ast.ValueSpec)
				if se, ok := vs.Type.(*ast.SelectorExpr); ok && se.Sel.Name == "Once" {
					if x, ok := se.X.(*ast.Ident); ok && x.Name == "sync" {
						for _, nm := range vs.Names {
							onceVars[nm.Name] = true
						}
					}
				}
			}
		}
		return true
	})
	closes, closesUnderOnce := 0, 0
	var walk func(n ast.Node, underOnce bool)
	walk = func(n ast.Node, underOnce bool) {
		ast.Inspect(n, func(m ast.Node) bool {
			c, ok := m.(*ast.CallExpr)
			if !ok {
				return true
			}
			if id, ok := c.Fun.(*ast.Ident); ok && id.Name == "close" {
				closes++
				if underOnce {
					closesUnderOnce++
				}
				return true
			}
			if se, ok := c.Fun.(*ast.SelectorExpr); ok && se.Sel.Name == "Do" && !underOnce {
				if x, ok := se.X.(*ast.Ident); ok && onceVars[x.Name] {
					for _, a := range c.Args {
						walk(a, true)
					}
					return false
				}
			}
			return true
		})
	}
	walk(px.Body, false)
	closedOnce := closes > 0 && closes == closesUnderOnce

	// --- emitEligibleFrames: bare send or select
	em := funcDecl(relay, "outputBuffer", "emitEligibleFrames")
	bare, guarded := 0, 0
	ast.Inspect(em.Body, func(n ast.Node) bool {
		switch x := n.(type) {
		case *ast.SelectStmt:
			sends, recvs := 0, 0
			for _, c := range x.Body.List {
				cc := c.(*ast.CommClause)
				if _, ok := cc.Comm.(*ast.SendStmt); ok {
					sends++
				} else if cc.Comm != nil && recvFrom(cc.Comm) != nil {
					recvs++
				}
			}
			if sends == 1 && recvs >= 1 {
				guarded++
			} else {
				bare += sends
			}
			return false
		case *ast.SendStmt:
			bare++
		}
		return true
	})
	if bare+guarded != 1 {
		problem("emitEligibleFrames: expected exactly one send into the output channel, found %d", bare+guarded)
	}
	abortable := guarded == 1 && doneSignal

	// --- destMu discipline: every `<x>.destMu.Lock()` is followed, in the same statement list, either
	// directly by `defer <x>.destMu.Unlock()` or by `<x>.destMu.Unlock()` with no return in between
	isMuCall := func(st ast.Stmt, name string, deferred bool) bool {
		var call *ast.CallExpr
		switch x := st.(type) {
		case *ast.ExprStmt:
			if deferred {
				return false
			}
			call, _ = x.X.(*ast.CallExpr)
		case *ast.DeferStmt:
			if !deferred {
				return false
			}
			call = x.Call
		}
		if call == nil {
			return false
		}
		se, ok := call.Fun.(*ast.SelectorExpr)
		if !ok || se.Sel.Name != name {
			return false
		}
		mu, ok := se.X.(*ast.SelectorExpr)
		return ok && mu.Sel.Name == "destMu"
	}
	locks, disciplined := 0, 0
	checkList := func(list []ast.Stmt) {
		for i, st := range list {
			if !isMuCall(st, "Lock", false) {
				continue
			}
			locks++
			if i+1 < len(list) && isMuCall(list[i+1], "Unlock", true) {
				disciplined++
				continue
			}
			for j := i + 1; j < len(list); j++ {
				if isMuCall(list[j], "Unlock", false) {
					disciplined++
					break
				}
				escapes := false
				ast.Inspect(list[j], func(n ast.Node) bool {
					switch n.(type) {
					case *ast.ReturnStmt, *ast.BranchStmt:
						escapes = true
					case *ast.FuncLit:
						return false
					}
					return true
				})
				if escapes {
					break
				}
			}
		}
	}
	ast.Inspect(relay, func(n ast.Node) bool {
		switch x := n.(type) {
		case *ast.BlockStmt:
			checkList(x.List)
		case *ast.CaseClause:
			checkList(x.Body)
		case *ast.CommClause:
			checkList(x.Body)
		}
		return true
	})
	if locks == 0 {
		problem("no destMu.Lock() found in h2/relay.go")
	}
	destMuOK := locks > 0 && locks == disciplined

	// --- processFrame: `err` is declared once at the top; a `:=` that defines another `err` in an inner
	// scope (an `if err := ...; ...` or a short declaration inside a case) would keep errors from the return
	pf := funcDecl(relay, "relay", "processFrame")
	shadowed := 0
	ast.Inspect(pf.Body, func(n ast.Node) bool {
		if _, ok := n.(*ast.FuncLit); ok {
			return false
		}
		as, ok := n.(*ast.AssignStmt)
		if !ok || as.Tok != token.DEFINE {
			return true
		}
		for _, l := range as.Lhs {
			if id, ok := l.(*ast.Ident); ok && id.Name == "err" {
				shadowed++
			}
		}
		return true
	})
	errsReachReturn := shadowed == 0

	b := func(v bool) string {
		if v {
			return "true"
		}
		return "false"
	}
	src := "(* GENERATED by harness/cmd/gen_c10 from h2/relay.go and h2/h2.go. Do not edit. *)\n" +
		"Definition output_channel_size : nat := " + strconv.Itoa(capVal) + ".\n" +
		"(* Config.Proxy has `defer <dialled conn>.Close()` before forwardPreface *)\n" +
		"Definition src_closes_upstream : bool := " + b(closesUpstream) + ".\n" +
		"(* a direction that ends closes a channel the other direction's select receives from *)\n" +
		"Definition src_done_signal : bool := " + b(doneSignal) + ".\n" +
		"(* emitEligibleFrames' send into `output` is a select case beside a receive from that channel *)\n" +
		"Definition src_emit_abortable : bool := " + b(abortable) + ".\n" +
		"(* capacities of the channels made in relayFrames *)\n" +
		"Definition reader_done_capacity : nat := " + strconv.Itoa(readerDoneCap) + ".\n" +
		"Definition writer_err_capacity : nat := " + strconv.Itoa(writerErrCap) + ".\n" +
		"Definition frame_ready_capacity : nat := " + strconv.Itoa(frameReadyCap) + ".\n" +
		"(* every destMu.Lock() in relay.go is released on every path (defer Unlock, or Unlock with no return in between) *)\n" +
		"Definition src_destmu_released_on_every_path : bool := " + b(destMuOK) + ".\n" +
		"(* processFrame never re-declares `err` in an inner scope: every error assigned in its switch reaches `return err` *)\n" +
		"Definition src_processframe_errors_reach_return : bool := " + b(errsReachReturn) + ".\n" +
		"(* every close(<chan>) in Proxy is inside a sync.Once's Do: the session's done channel is closed at most once *)\n" +
		"Definition src_done_closed_at_most_once : bool := " + b(closedOnce) + ".\n" +
		"(* every shape the translator looks for was found *)\n" +
		"Definition src_shape_ok : bool := " + b(len(problems) == 0) + ".\n"
	for _, m := range problems {
		src += "(* NOT FOUND: " + strings.ReplaceAll(strings.ReplaceAll(m, "(*", "( *"), "*)", "* )") + " *)\n"
	}
	if err := os.WriteFile(filepath.Join(*out, "Gen_H2Const.v"), []byte(src), 0o644); err != nil {
		die("%v", err)
	}
}
