package main

import "verifharness/h2x"

func main() { h2x.Main("c09") }
