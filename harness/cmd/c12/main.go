// c12 builds JSON modifier configurations from token-encoded trees, parses
// them with the REAL parse.FromJSON (directly or through the real
// martianhttp.Modifier configuration handler) and records what the resulting
// modifiers do to probe messages.
//
// IN tokens (a script):
//
//	DIRECT POST <tree> (MSGq|MSGs <msgtok>*)*          parse.FromJSON, then Result.RequestModifier()/ResponseModifier()
//	HTTP  (POST <tree> | MSGq|MSGs <msgtok>* | GET)*   everything through one martianhttp.Modifier
//
// POST may be followed by body manglers before the tree: TRUNC<pct> (cut the
// rendered JSON to pct% of its bytes, 1..99), TRAIL (append garbage), PAD
// (surround with whitespace; still valid).
//
// <tree> in prefix form:
//
//	L<id>.<caps>.<errs>.<scope>         probe leaf; caps b|q|s (implements both / request only / response only);
//	                                    errs 0|q|s|b (returns an error on requests / responses)
//	F<agg>.<scope> <tree>* )            fifo.Group; agg 0 (key absent) 1 (true) 2 (false)
//	R<scope> (@<prio>? <tree>)* )       priority.Group; priority key absent without @
//	f<ty><tag>.<param>.<scope> <tree> [ELSE <tree>] )   ty h|u|q|m|c = header/url/querystring/method/cookie .Filter
//	X<variant>                          something that must be rejected (see renderBad)
//
// <scope>: - (key absent) n (null) e ([]) or letters q "request" s "response"
// x "bogus" y "Request" z "".
//
// <msgtok>: u<scheme><host><path> (digits), m<METHOD>, h<tag> (condition
// carriers of filter <tag> present with the matching value), g<tag> (present
// with another value).
//
// OUT tokens, per command: POST -> ACC|REJ (DIRECT) or S<status> (HTTP);
// MSG -> B<key>=<0|1>* T<id,..> E<id,..> (B = what the real matcher of every
// filter posted so far says about the untouched message) or SKIP (DIRECT after
// REJ); GET -> G<index of the POST whose indented body is returned>|G-|G?.
package main

import (
	"bufio"
	"bytes"
	"encoding/json"
	"fmt"
	"io"
	"net"
	"net/http"
	"net/http/httptest"
	"net/url"
	"runtime"
	"sort"
	"strconv"
	"strings"
	"sync"
	"sync/atomic"
	"time"

	"github.com/google/martian/v3"
	"github.com/google/martian/v3/cookie"
	_ "github.com/google/martian/v3/fifo"
	"github.com/google/martian/v3/header"
	mlog "github.com/google/martian/v3/log"
	"github.com/google/martian/v3/martianhttp"
	"github.com/google/martian/v3/martianurl"
	"github.com/google/martian/v3/method"
	"github.com/google/martian/v3/parse"
	_ "github.com/google/martian/v3/priority"
	"github.com/google/martian/v3/querystring"
	"verifharness/hx"
)

// ------------------------------------------------------------------ probe

const traceHeader = "X-Verif-Trace"
const errPrefix = "verif-probe-error-"

type probe struct {
	id             string
	errReq, errRes bool
	gen            string // position of the script command during which this instance was created
}

const genHeader = "X-Verif-Gen"

// curCmd: position of the script command being executed (instances created
// while it runs - by parse.FromJSON inside the handler, or by a SET command -
// carry it).
var curCmd int64

func (p *probe) modReq(req *http.Request) error {
	req.Header.Add(traceHeader, p.id)
	req.Header.Add(genHeader, p.gen)
	if p.errReq {
		return fmt.Errorf("%s%s", errPrefix, p.id)
	}
	return nil
}

func (p *probe) modRes(res *http.Response) error {
	res.Header.Add(traceHeader, p.id)
	res.Header.Add(genHeader, p.gen)
	if p.errRes {
		return fmt.Errorf("%s%s", errPrefix, p.id)
	}
	return nil
}

// three Go types so that the type assertions in parse.NewResult differ
type probeBoth struct{ p probe }
type probeReq struct{ p probe }
type probeRes struct{ p probe }

func (m *probeBoth) ModifyRequest(req *http.Request) error   { return m.p.modReq(req) }
func (m *probeBoth) ModifyResponse(res *http.Response) error { return m.p.modRes(res) }
func (m *probeReq) ModifyRequest(req *http.Request) error    { return m.p.modReq(req) }
func (m *probeRes) ModifyResponse(res *http.Response) error  { return m.p.modRes(res) }

type probeJSON struct {
	ID     int64                `json:"id"`
	Caps   string               `json:"caps"`
	ErrReq bool                 `json:"errReq"`
	ErrRes bool                 `json:"errRes"`
	Scope  []parse.ModifierType `json:"scope"`
}

func probeFromJSON(b []byte) (*parse.Result, error) {
	msg := &probeJSON{}
	if err := json.Unmarshal(b, msg); err != nil {
		return nil, err
	}
	p := probe{id: strconv.FormatInt(msg.ID, 10), errReq: msg.ErrReq, errRes: msg.ErrRes,
		gen: strconv.FormatInt(atomic.LoadInt64(&curCmd), 10)}
	var mod interface{}
	switch msg.Caps {
	case "req":
		mod = &probeReq{p}
	case "res":
		mod = &probeRes{p}
	default:
		mod = &probeBoth{p}
	}
	return parse.NewResult(mod, msg.Scope)
}

// ------------------------------------------------------------------ trees

type node struct {
	ty       byte // L F R f X
	id       string
	caps     byte
	errs     byte
	scope    string
	agg      byte
	kids     []*node
	prios    []string // for R: "" = key absent
	fty      byte
	tag      string
	param    string
	mod, els *node
	variant  string
}

func isSet(t string) bool {
	return (strings.HasPrefix(t, "SETq") || strings.HasPrefix(t, "SETs")) && isDigits(t[4:])
}

func isCmd(t string) bool {
	return t == "POST" || t == "GET" || t == "MSGq" || t == "MSGs" || isSet(t)
}

func validScope(s string) bool {
	if s == "-" || s == "n" || s == "e" {
		return true
	}
	if s == "" {
		return false
	}
	for _, c := range s {
		if !strings.ContainsRune("qsxyz", c) {
			return false
		}
	}
	return true
}

func isDigits(s string) bool {
	if s == "" {
		return false
	}
	for _, c := range s {
		if c < '0' || c > '9' {
			return false
		}
	}
	return true
}

type parser struct {
	t   []string
	pos int
}

func (p *parser) peek() string {
	if p.pos < len(p.t) {
		return p.t[p.pos]
	}
	return ""
}

// strict: any deviation -> error (the case is then reported as BADCASE)
func (p *parser) node() (*node, error) {
	t := p.peek()
	if t == "" || isCmd(t) {
		return nil, fmt.Errorf("tree expected")
	}
	p.pos++
	switch t[0] {
	case 'L':
		f := strings.Split(t[1:], ".")
		if len(f) != 4 || !isDigits(f[0]) || len(f[1]) != 1 || !strings.Contains("bqs", f[1]) ||
			len(f[2]) != 1 || !strings.Contains("0qsb", f[2]) || !validScope(f[3]) {
			return nil, fmt.Errorf("bad leaf %q", t)
		}
		return &node{ty: 'L', id: f[0], caps: f[1][0], errs: f[2][0], scope: f[3]}, nil
	case 'X':
		if !isDigits(t[1:]) {
			return nil, fmt.Errorf("bad X %q", t)
		}
		return &node{ty: 'X', variant: t[1:]}, nil
	case 'F':
		f := strings.Split(t[1:], ".")
		if len(f) != 2 || len(f[0]) != 1 || !strings.Contains("012", f[0]) || !validScope(f[1]) {
			return nil, fmt.Errorf("bad fifo %q", t)
		}
		n := &node{ty: 'F', agg: f[0][0], scope: f[1]}
		for p.peek() != ")" {
			k, err := p.node()
			if err != nil {
				return nil, err
			}
			n.kids = append(n.kids, k)
		}
		p.pos++
		return n, nil
	case 'R':
		if !validScope(t[1:]) {
			return nil, fmt.Errorf("bad prio %q", t)
		}
		n := &node{ty: 'R', scope: t[1:]}
		for p.peek() != ")" {
			pr := ""
			if strings.HasPrefix(p.peek(), "@") {
				pr = p.peek()[1:]
				if _, err := strconv.ParseInt(pr, 10, 64); err != nil {
					return nil, fmt.Errorf("bad priority %q", pr)
				}
				p.pos++
			}
			k, err := p.node()
			if err != nil {
				return nil, err
			}
			n.kids = append(n.kids, k)
			n.prios = append(n.prios, pr)
		}
		p.pos++
		return n, nil
	case 'f':
		if len(t) < 3 || !strings.Contains("huqmc", t[1:2]) {
			return nil, fmt.Errorf("bad filter %q", t)
		}
		f := strings.Split(t[2:], ".")
		if len(f) != 3 || !isDigits(f[0]) || !isDigits(f[1]) || !validScope(f[2]) {
			return nil, fmt.Errorf("bad filter %q", t)
		}
		n := &node{ty: 'f', fty: t[1], tag: f[0], param: f[1], scope: f[2]}
		m, err := p.node()
		if err != nil {
			return nil, err
		}
		n.mod = m
		if p.peek() == "ELSE" {
			p.pos++
			e, err := p.node()
			if err != nil {
				return nil, err
			}
			n.els = e
		}
		if p.peek() != ")" {
			return nil, fmt.Errorf("filter not closed")
		}
		p.pos++
		return n, nil
	}
	return nil, fmt.Errorf("bad token %q", t)
}

func scopeJSON(s string) string { // returns the `"scope":...,` fragment
	switch s {
	case "-":
		return ""
	case "n":
		return `"scope":null,`
	case "e":
		return `"scope":[],`
	}
	var parts []string
	for _, c := range s {
		switch c {
		case 'q':
			parts = append(parts, `"request"`)
		case 's':
			parts = append(parts, `"response"`)
		case 'x':
			parts = append(parts, `"bogus"`)
		case 'y':
			parts = append(parts, `"Request"`)
		case 'z':
			parts = append(parts, `""`)
		}
	}
	return `"scope":[` + strings.Join(parts, ",") + `],`
}

const okLeaf = `{"verif.Probe":{"id":999}}`

// renderBad: configurations that must be rejected although every other node is fine.
func renderBad(v string) string {
	switch v {
	case "0":
		return `{"nope.Modifier":{}}`
	case "1":
		return `{"verif.Probe":{"id":1},"fifo.Group":{"modifiers":[]}}` // two keys
	case "2":
		return `{}` // no key
	case "3":
		return `null`
	case "4":
		return `[{"verif.Probe":{"id":1}}]` // not an object
	case "5":
		return `{"fifo.Group":{"modifiers":5}}` // payload of the wrong shape
	case "6":
		return `{"verif.Probe":{"id":1` // truncated: the whole document is malformed
	case "7":
		return `{"header.Filter":{"name":"a","value":"b"}}` // filter without modifier
	case "8":
		return `{"verif.Probe":{"id":1,"scope":"request"}}` // scope not an array
	case "9":
		return `{"priority.Group":{"modifiers":[{"priority":1}]}}` // priority item without modifier
	case "10":
		return `{"priority.Group":{"modifiers":[{"priority":1.5,"modifier":` + okLeaf + `}]}}` // non-integer priority
	case "11":
		return `{"url.Filter":{"host":"example.com","modifier":` + okLeaf + `,"else":null}}` // else: null
	case "12":
		return `{"fifo.Group":{"aggregateErrors":"yes","modifiers":[]}}`
	case "13":
		return `"verif.Probe"`
	case "14":
		return `{"Fifo.Group":{"modifiers":[]}}` // names are case-sensitive
	case "15":
		return `{"cookie.Filter":{"name":"a","modifier":` + okLeaf + `,"else":{"nope.Modifier":{}}}}`
	case "16":
		return `{"method.Filter":{"method":"GET","modifier":{"querystring.Filter":{"name":"a","modifier":{}}}}}`
	}
	return `{"unknown.Variant` + v + `":{}}`
}

func (n *node) render() string {
	switch n.ty {
	case 'L':
		caps := map[byte]string{'b': "both", 'q': "req", 's': "res"}[n.caps]
		return fmt.Sprintf(`{"verif.Probe":{%s"id":%s,"caps":%q,"errReq":%v,"errRes":%v}}`,
			scopeJSON(n.scope), n.id, caps, n.errs == 'q' || n.errs == 'b', n.errs == 's' || n.errs == 'b')
	case 'X':
		return renderBad(n.variant)
	case 'F':
		var ks []string
		for _, k := range n.kids {
			ks = append(ks, k.render())
		}
		agg := ""
		if n.agg == '1' {
			agg = `"aggregateErrors":true,`
		} else if n.agg == '2' {
			agg = `"aggregateErrors":false,`
		}
		return `{"fifo.Group":{` + scopeJSON(n.scope) + agg + `"modifiers":[` + strings.Join(ks, ",") + `]}}`
	case 'R':
		var ks []string
		for i, k := range n.kids {
			if n.prios[i] == "" {
				ks = append(ks, `{"modifier":`+k.render()+`}`)
			} else {
				ks = append(ks, `{"priority":`+n.prios[i]+`,"modifier":`+k.render()+`}`)
			}
		}
		return `{"priority.Group":{` + scopeJSON(n.scope) + `"modifiers":[` + strings.Join(ks, ",") + `]}}`
	case 'f':
		fc := n.filterConf()
		els := ""
		if n.els != nil {
			els = `,"else":` + n.els.render()
		}
		return `{"` + fc.name + `":{` + scopeJSON(n.scope) + fc.fields + `"modifier":` + n.mod.render() + els + `}}`
	}
	return "?"
}

type filterConf struct {
	name   string
	fields string
	match  func(req *http.Request, res *http.Response) bool // direct call of the real matcher
}

var urlParams = []url.URL{
	{},
	{Host: "example.com"},
	{Host: "*.example.com"},
	{Path: "/a"},
	{Scheme: "https"},
	{RawQuery: "zz=1"},
	{Host: "example.com", Path: "/b"},
	{Scheme: "http", Host: "www.example.com", Path: "/a"},
	{Host: "*.org"},
	{Host: "*.*.example.com"},
	{Host: "*"},
	{Scheme: "https", Host: "*.example.com", Path: "/b"},
}
var methodParams = []string{"GET", "POST", "get", "", "PUT", "Post"}

func (n *node) filterConf() filterConf {
	pi, _ := strconv.Atoi(n.param)
	switch n.fty {
	case 'h':
		name := "X-Cond-" + n.tag
		if pi%2 == 1 {
			name = "x-cond-" + n.tag
		}
		m := header.NewMatcher(http.CanonicalHeaderKey(name), "yes")
		return filterConf{"header.Filter", fmt.Sprintf(`"name":%q,"value":"yes",`, name),
			func(req *http.Request, res *http.Response) bool {
				if res != nil {
					return m.MatchResponse(res)
				}
				return m.MatchRequest(req)
			}}
	case 'q':
		val := "1"
		if pi%2 == 1 {
			val = ""
		}
		m := querystring.NewMatcher("q"+n.tag, val)
		return filterConf{"querystring.Filter", fmt.Sprintf(`"name":%q,"value":%q,`, "q"+n.tag, val),
			func(req *http.Request, res *http.Response) bool {
				if res != nil {
					return m.MatchResponse(res)
				}
				return m.MatchRequest(req)
			}}
	case 'c':
		val := "v"
		if pi%2 == 1 {
			val = ""
		}
		m := cookie.NewMatcher(&http.Cookie{Name: "c" + n.tag, Value: val})
		return filterConf{"cookie.Filter", fmt.Sprintf(`"name":%q,"value":%q,`, "c"+n.tag, val),
			func(req *http.Request, res *http.Response) bool {
				if res != nil {
					return m.MatchResponse(res)
				}
				return m.MatchRequest(req)
			}}
	case 'm':
		meth := methodParams[pi%len(methodParams)]
		m := method.NewMatcher(meth)
		return filterConf{"method.Filter", fmt.Sprintf(`"method":%q,`, meth),
			func(req *http.Request, res *http.Response) bool {
				if res != nil {
					return m.MatchResponse(res)
				}
				return m.MatchRequest(req)
			}}
	default: // 'u'
		u := urlParams[pi%len(urlParams)]
		m := martianurl.NewMatcher(&u)
		return filterConf{"url.Filter", fmt.Sprintf(`"scheme":%q,"host":%q,"path":%q,"query":%q,`, u.Scheme, u.Host, u.Path, u.RawQuery),
			func(req *http.Request, res *http.Response) bool {
				if res != nil {
					return m.MatchResponse(res)
				}
				return m.MatchRequest(req)
			}}
	}
}

func (n *node) key() string { return string(n.fty) + n.tag + "." + n.param }

func (n *node) filters(acc map[string]*node) {
	if n == nil {
		return
	}
	if n.ty == 'f' {
		acc[n.key()] = n
	}
	for _, k := range n.kids {
		k.filters(acc)
	}
	n.mod.filters(acc)
	n.els.filters(acc)
}

// ------------------------------------------------------------------ messages

var schemes = []string{"http", "https"}
var hosts = []string{"example.com", "www.example.com", "other.org", "a.b.example.com", "localhost"}
var paths = []string{"/a", "/b"}

type tagVals struct {
	tag string
	pat string // one letter per occurrence of the carriers: y = matching value, n = another value
}

type msgSpec struct {
	res    bool
	url    string
	method string
	vals   []tagVals
}

func isAlpha(s string) bool {
	for _, c := range s {
		if !(c >= 'A' && c <= 'Z') && !(c >= 'a' && c <= 'z') {
			return false
		}
	}
	return s != ""
}

func parseMsg(res bool, toks []string) (*msgSpec, error) {
	m := &msgSpec{res: res, method: "GET"}
	sc, ho, pa := 0, 0, 0
	for _, t := range toks {
		switch {
		case t[0] == 'u' && len(t) == 4 && isDigits(t[1:]):
			sc, ho, pa = int(t[1]-'0')%len(schemes), int(t[2]-'0')%len(hosts), int(t[3]-'0')%len(paths)
		case t[0] == 'm' && isAlpha(t[1:]):
			m.method = t[1:]
		case t[0] == 'h' && isDigits(t[1:]):
			m.vals = append(m.vals, tagVals{t[1:], "y"})
		case t[0] == 'g' && isDigits(t[1:]):
			m.vals = append(m.vals, tagVals{t[1:], "n"})
		case t[0] == 'v' && strings.Count(t, ":") == 1:
			f := strings.Split(t[1:], ":")
			if !isDigits(f[0]) || f[1] == "" || strings.Trim(f[1], "yn") != "" {
				return nil, fmt.Errorf("bad msg token %q", t)
			}
			m.vals = append(m.vals, tagVals{f[0], f[1]})
		default:
			return nil, fmt.Errorf("bad msg token %q", t)
		}
	}
	var q []string
	for _, v := range m.vals {
		for _, c := range v.pat {
			if c == 'y' {
				q = append(q, "q"+v.tag+"=1")
			} else {
				q = append(q, "q"+v.tag+"=0")
			}
		}
	}
	m.url = schemes[sc] + "://" + hosts[ho] + paths[pa]
	if len(q) > 0 {
		m.url += "?" + strings.Join(q, "&")
	}
	return m, nil
}

// build returns a fresh message: (req, nil) for a request, (req, res) for a response.
func (m *msgSpec) build() (*http.Request, *http.Response) {
	req, err := http.NewRequest(m.method, m.url, nil)
	if err != nil {
		panic(err)
	}
	hv := map[rune]string{'y': "yes", 'n': "no"}
	cv := map[rune]string{'y': "v", 'n': "w"}
	if !m.res {
		for _, v := range m.vals {
			for _, c := range v.pat {
				req.Header.Add("X-Cond-"+v.tag, hv[c])
				req.AddCookie(&http.Cookie{Name: "c" + v.tag, Value: cv[c]})
			}
		}
		return req, nil
	}
	res := &http.Response{StatusCode: 200, Status: "200 OK", Proto: "HTTP/1.1", ProtoMajor: 1, ProtoMinor: 1,
		Header: http.Header{}, Body: http.NoBody, Request: req}
	for _, v := range m.vals {
		for _, c := range v.pat {
			res.Header.Add("X-Cond-"+v.tag, hv[c])
			res.Header.Add("Set-Cookie", (&http.Cookie{Name: "c" + v.tag, Value: cv[c]}).String())
		}
	}
	return req, res
}

func flattenErr(err error) string {
	if err == nil {
		return "E"
	}
	var ids []string
	var walk func(e error)
	walk = func(e error) {
		if me, ok := e.(*martian.MultiError); ok {
			for _, x := range me.Errors() {
				walk(x)
			}
			return
		}
		s := e.Error()
		if strings.HasPrefix(s, errPrefix) && isDigits(s[len(errPrefix):]) {
			ids = append(ids, s[len(errPrefix):])
		} else {
			ids = append(ids, "!"+hx.HexS(s))
		}
	}
	walk(err)
	return "E" + strings.Join(ids, ",")
}

// ------------------------------------------------------------------ running a script

type cmdT struct {
	op   string
	toks []string
}

func splitCmds(toks []string) ([]cmdT, error) {
	var cs []cmdT
	for _, t := range toks {
		if isCmd(t) {
			cs = append(cs, cmdT{op: t})
		} else if len(cs) == 0 {
			return nil, fmt.Errorf("token before command")
		} else {
			cs[len(cs)-1].toks = append(cs[len(cs)-1].toks, t)
		}
	}
	return cs, nil
}

// body renders the POST body; root is nil when the token stream has no tree
// (empty body).
// delivery: how a POST reaches the handler.
//
//	""        complete body, handler called directly (httptest)
//	RDERR<p>  handler called directly with a Body that yields the first p% of the bytes, then a read error (p in 0..100)
//	TCP       complete body over a real TCP connection to an httptest.Server
//	TCPCL<p>  real TCP: Content-Length = bytes sent + 7, the first p% of the body, then half-close
//	TCPCH<p>  real TCP: chunked, the first p% of the body as one chunk, no terminating chunk, then half-close
//	METH<M>   complete body, handler called directly with method M instead of POST
type delivery struct {
	mode string
	pct  int
	meth string
}

func (d delivery) fails() bool { return d.mode == "RDERR" || d.mode == "TCPCL" || d.mode == "TCPCH" }

// respace inserts insignificant whitespace around every structural character
// outside strings (the same JSON value, formatted differently).
func respace(b string) string {
	var sb strings.Builder
	inStr, esc := false, false
	for i := 0; i < len(b); i++ {
		c := b[i]
		if inStr {
			sb.WriteByte(c)
			if esc {
				esc = false
			} else if c == '\\' {
				esc = true
			} else if c == '"' {
				inStr = false
			}
			continue
		}
		switch c {
		case '"':
			inStr = true
			sb.WriteByte(c)
		case ',', ':', '{', '}', '[', ']':
			sb.WriteString(" \n" + string(c) + "\t ")
		default:
			sb.WriteByte(c)
		}
	}
	return sb.String()
}

func postBodyD(toks []string) (body string, root *node, d delivery, err error) {
	trunc, trail, pad := 0, false, false
	lpad, spaced := false, false
	i := 0
	for ; i < len(toks); i++ {
		t := toks[i]
		pctOf := func(pre string) (int, error) {
			p, err := strconv.Atoi(t[len(pre):])
			if err != nil || p < 0 || p > 100 || d.mode != "" {
				return 0, fmt.Errorf("bad %s", pre)
			}
			return p, nil
		}
		switch {
		case strings.HasPrefix(t, "TRUNC"):
			trunc, err = strconv.Atoi(t[5:])
			if err != nil || trunc < 1 || trunc > 99 {
				return "", nil, d, fmt.Errorf("bad TRUNC")
			}
		case t == "TRAIL":
			trail = true
		case t == "PAD":
			pad = true
		case t == "LPAD":
			lpad = true
		case t == "SPACED":
			spaced = true
		case strings.HasPrefix(t, "RDERR"):
			if d.pct, err = pctOf("RDERR"); err != nil {
				return "", nil, d, err
			}
			d.mode = "RDERR"
		case strings.HasPrefix(t, "TCPCL"):
			if d.pct, err = pctOf("TCPCL"); err != nil {
				return "", nil, d, err
			}
			d.mode = "TCPCL"
		case strings.HasPrefix(t, "TCPCH"):
			if d.pct, err = pctOf("TCPCH"); err != nil {
				return "", nil, d, err
			}
			d.mode = "TCPCH"
		case t == "TCP":
			if d.mode != "" {
				return "", nil, d, fmt.Errorf("two deliveries")
			}
			d.mode = "TCP"
		case strings.HasPrefix(t, "METH"):
			if d.mode != "" || !isAlpha(t[4:]) || t[4:] == "POST" || t[4:] == "GET" {
				return "", nil, d, fmt.Errorf("bad METH")
			}
			d.mode, d.meth = "METH", t[4:]
		default:
			goto tree
		}
	}
tree:
	p := &parser{t: toks[i:]}
	root, err = p.node()
	if err != nil {
		return "", nil, d, err
	}
	if p.pos != len(p.t) {
		return "", nil, d, fmt.Errorf("trailing tokens after tree")
	}
	body = root.render()
	if spaced {
		body = strings.TrimRight(respace(body), " \t\n")
	}
	if lpad {
		body = "\n\n   " + body
	}
	if pad {
		body = " \n\t" + body + "\n  "
	}
	if trail {
		body += ` {"x":1}`
	}
	if trunc > 0 {
		body = body[:len(body)*trunc/100]
	}
	return body, root, d, nil
}

func postBody(toks []string) (body string, root *node, err error) {
	var d delivery
	body, root, d, err = postBodyD(toks)
	if err == nil && d.mode != "" {
		err = fmt.Errorf("delivery modes are only for HTTP scripts")
	}
	return
}

// failingBody yields data, then a read error.
type failingBody struct {
	data []byte
	off  int
}

func (f *failingBody) Read(p []byte) (int, error) {
	if f.off >= len(f.data) {
		return 0, io.ErrUnexpectedEOF
	}
	n := copy(p, f.data[f.off:])
	f.off += n
	return n, nil
}
func (f *failingBody) Close() error { return nil }

// postTCP sends one POST over a real TCP connection and returns the status code (0 = no answer).
func postTCP(addr string, body string, d delivery) int {
	conn, err := net.DialTimeout("tcp", addr, 5*time.Second)
	if err != nil {
		return 0
	}
	defer conn.Close()
	conn.SetDeadline(time.Now().Add(10 * time.Second))
	k := len(body) * d.pct / 100
	head := "POST /configure HTTP/1.1\r\nHost: martian.test\r\nConnection: close\r\n"
	switch d.mode {
	case "TCP":
		fmt.Fprintf(conn, "%sContent-Length: %d\r\n\r\n%s", head, len(body), body)
	case "TCPCL":
		fmt.Fprintf(conn, "%sContent-Length: %d\r\n\r\n%s", head, k+7, body[:k])
	case "TCPCH":
		fmt.Fprintf(conn, "%sTransfer-Encoding: chunked\r\n\r\n", head)
		if k > 0 {
			fmt.Fprintf(conn, "%x\r\n%s\r\n", k, body[:k])
		}
	}
	if d.mode != "TCP" {
		if tc, ok := conn.(*net.TCPConn); ok {
			tc.CloseWrite()
		}
	}
	res, err := http.ReadResponse(bufio.NewReader(conn), nil)
	if err != nil {
		return 0
	}
	io.Copy(io.Discard, res.Body)
	res.Body.Close()
	return res.StatusCode
}

func runScript(in []string) (out []string) {
	defer func() {
		if r := recover(); r != nil {
			out = append(out, "PANIC")
		}
	}()
	if len(in) > 0 && in[0] == "CONC" {
		return runConc(in[1:])
	}
	if len(in) > 0 && in[0] == "STRESS" {
		return runStress(in[1:])
	}
	if len(in) == 0 || (in[0] != "DIRECT" && in[0] != "HTTP") {
		return []string{"BADCASE"}
	}
	direct := in[0] == "DIRECT"
	cmds, err := splitCmds(in[1:])
	if err != nil {
		return []string{"BADCASE"}
	}
	// validate the whole script before running anything
	type prepared struct {
		body string
		root *node
		msg  *msgSpec
		dlv  delivery
	}
	prep := make([]prepared, len(cmds))
	for i, c := range cmds {
		switch c.op {
		case "POST":
			b, r, d, err := postBodyD(c.toks)
			if err != nil || (direct && d.mode != "") {
				return []string{"BADCASE"}
			}
			prep[i] = prepared{body: b, root: r, dlv: d}
		case "MSGq", "MSGs":
			m, err := parseMsg(c.op == "MSGs", c.toks)
			if err != nil {
				return []string{"BADCASE"}
			}
			prep[i].msg = m
		case "GET":
			if len(c.toks) != 0 {
				return []string{"BADCASE"}
			}
		default: // SETq<id> / SETs<id>
			if len(c.toks) != 0 || direct {
				return []string{"BADCASE"}
			}
		}
	}
	if direct && (len(cmds) == 0 || cmds[0].op != "POST") {
		return []string{"BADCASE"}
	}
	for i, c := range cmds {
		if direct && i > 0 && c.op != "MSGq" && c.op != "MSGs" {
			return []string{"BADCASE"}
		}
	}

	filters := map[string]*node{}
	mh := martianhttp.NewModifier()
	var srv *httptest.Server
	var dres *parse.Result
	drej := false
	var bodies []string // indented bodies of all POSTs, by command index ("" for others)
	for i, c := range cmds {
		atomic.StoreInt64(&curCmd, int64(i))
		if isSet(c.op) {
			// the public setters: a fresh probe (id 0 = nil) as request / response modifier
			bodies = append(bodies, "")
			var mod *probeBoth
			if c.op[4:] != "0" {
				mod = &probeBoth{probe{id: c.op[4:], gen: strconv.Itoa(i)}}
			}
			if c.op[3] == 'q' {
				if mod == nil {
					mh.SetRequestModifier(nil)
				} else {
					mh.SetRequestModifier(mod)
				}
			} else {
				if mod == nil {
					mh.SetResponseModifier(nil)
				} else {
					mh.SetResponseModifier(mod)
				}
			}
			out = append(out, "OK")
			continue
		}
		switch c.op {
		case "POST":
			prep[i].root.filters(filters)
			var ind bytes.Buffer
			if json.Indent(&ind, []byte(prep[i].body), "", "  ") == nil {
				bodies = append(bodies, ind.String())
			} else {
				bodies = append(bodies, "\x00invalid")
			}
			if direct {
				r, err := parse.FromJSON([]byte(prep[i].body))
				if err != nil || r == nil {
					drej = true
					out = append(out, "REJ")
				} else {
					dres = r
					out = append(out, "ACC")
				}
			} else {
				d := prep[i].dlv
				code := 0
				switch d.mode {
				case "TCP", "TCPCL", "TCPCH":
					if srv == nil {
						srv = httptest.NewServer(mh)
						defer srv.Close()
					}
					code = postTCP(srv.Listener.Addr().String(), prep[i].body, d)
				case "RDERR":
					rec := httptest.NewRecorder()
					req := httptest.NewRequest("POST", "/configure", nil)
					req.Body = &failingBody{data: []byte(prep[i].body[:len(prep[i].body)*d.pct/100])}
					mh.ServeHTTP(rec, req)
					code = rec.Code
				case "METH":
					rec := httptest.NewRecorder()
					mh.ServeHTTP(rec, httptest.NewRequest(d.meth, "/configure", strings.NewReader(prep[i].body)))
					code = rec.Code
				default:
					rec := httptest.NewRecorder()
					mh.ServeHTTP(rec, httptest.NewRequest("POST", "/configure", strings.NewReader(prep[i].body)))
					code = rec.Code
				}
				out = append(out, "S"+strconv.Itoa(code))
			}
		case "GET":
			bodies = append(bodies, "")
			rec := httptest.NewRecorder()
			mh.ServeHTTP(rec, httptest.NewRequest("GET", "/configure", nil))
			got := rec.Body.String()
			tok := "G?"
			if got == "" {
				tok = "G-"
			} else {
				// every POST whose indented body is the one returned (identical bodies may have been posted)
				var js []string
				for j := 0; j < len(bodies); j++ {
					if cmds[j].op == "POST" && bodies[j] == got {
						js = append(js, strconv.Itoa(j))
					}
				}
				if len(js) > 0 {
					tok = "G" + strings.Join(js, "+")
				}
			}
			if rec.Code != 200 {
				tok = "G!" + strconv.Itoa(rec.Code)
			}
			out = append(out, tok)
		default:
			bodies = append(bodies, "")
			if direct && drej {
				out = append(out, "SKIP")
				continue
			}
			m := prep[i].msg
			// the matchers' verdicts on the untouched message
			keys := make([]string, 0, len(filters))
			for k := range filters {
				keys = append(keys, k)
			}
			sort.Strings(keys)
			for _, k := range keys {
				req, res := m.build()
				b := "0"
				if filters[k].filterConf().match(req, res) {
					b = "1"
				}
				out = append(out, "B"+k+"="+b)
			}
			req, res := m.build()
			var err error
			var tr, gens []string
			if !m.res {
				if direct {
					if rm := dres.RequestModifier(); rm != nil {
						err = rm.ModifyRequest(req)
					}
				} else {
					err = mh.ModifyRequest(req)
				}
				tr = req.Header[traceHeader]
				gens = req.Header[genHeader]
			} else {
				if direct {
					if rm := dres.ResponseModifier(); rm != nil {
						err = rm.ModifyResponse(res)
					}
				} else {
					err = mh.ModifyResponse(res)
				}
				tr = res.Header[traceHeader]
				if len(req.Header[traceHeader]) != 0 {
					tr = append(tr, "!req")
				}
				gens = res.Header[genHeader]
			}
			// which commands created the instances that ran (distinct, ascending)
			seen := map[string]bool{}
			var gl []int
			for _, g := range gens {
				if !seen[g] {
					seen[g] = true
					n, _ := strconv.Atoi(g)
					gl = append(gl, n)
				}
			}
			sort.Ints(gl)
			otok := "O-"
			if len(gl) > 0 {
				var gs []string
				for _, n := range gl {
					gs = append(gs, strconv.Itoa(n))
				}
				otok = "O" + strings.Join(gs, "+")
			}
			out = append(out, "T"+strings.Join(tr, ","), flattenErr(err), otok)
		}
	}
	return out
}

// runConc: CONC (POST <tree>)+ MSGq|MSGs <msgtok>*
// One goroutine POSTs the bodies in order through the martianhttp handler
// while another sends the same probe message over and over through the
// Modifier (and at least twice more after the last POST has returned).
// OUT: S<status> per POST, the B bits, then the probe observations with
// consecutive duplicates removed (T.. E.. pairs).
func runConc(toks []string) (out []string) {
	cmds, err := splitCmds(toks)
	if err != nil || len(cmds) < 2 {
		return []string{"BADCASE"}
	}
	last := cmds[len(cmds)-1]
	if last.op != "MSGq" && last.op != "MSGs" {
		return []string{"BADCASE"}
	}
	msg, err := parseMsg(last.op == "MSGs", last.toks)
	if err != nil {
		return []string{"BADCASE"}
	}
	var bodies []string
	filters := map[string]*node{}
	for _, c := range cmds[:len(cmds)-1] {
		if c.op != "POST" {
			return []string{"BADCASE"}
		}
		b, r, err := postBody(c.toks)
		if err != nil {
			return []string{"BADCASE"}
		}
		r.filters(filters)
		bodies = append(bodies, b)
	}
	mh := martianhttp.NewModifier()
	var iters int64
	var stop int32
	var obs []string
	panicked := make(chan interface{}, 1)
	done := make(chan struct{})
	go func() {
		defer close(done)
		defer func() {
			if r := recover(); r != nil {
				panicked <- r
			}
		}()
		for {
			stopping := atomic.LoadInt32(&stop) == 1
			req, res := msg.build()
			var err error
			var tr []string
			if !msg.res {
				err = mh.ModifyRequest(req)
				tr = req.Header[traceHeader]
			} else {
				err = mh.ModifyResponse(res)
				tr = res.Header[traceHeader]
			}
			o := "T" + strings.Join(tr, ",") + " " + flattenErr(err)
			if len(obs) == 0 || obs[len(obs)-1] != o {
				obs = append(obs, o)
			}
			atomic.AddInt64(&iters, 1)
			if stopping {
				return
			}
		}
	}()
	waitIters := func(k int64) {
		target := atomic.LoadInt64(&iters) + k
		deadline := time.Now().Add(2 * time.Second)
		for atomic.LoadInt64(&iters) < target && time.Now().Before(deadline) {
			runtime.Gosched()
		}
	}
	for i, b := range bodies {
		if i%2 == 0 {
			waitIters(2)
		}
		rec := httptest.NewRecorder()
		mh.ServeHTTP(rec, httptest.NewRequest("POST", "/configure", strings.NewReader(b)))
		out = append(out, "S"+strconv.Itoa(rec.Code))
	}
	waitIters(2)
	atomic.StoreInt32(&stop, 1)
	<-done
	select {
	case <-panicked:
		return append(out, "PANIC")
	default:
	}
	keys := make([]string, 0, len(filters))
	for k := range filters {
		keys = append(keys, k)
	}
	sort.Strings(keys)
	for _, k := range keys {
		req, res := msg.build()
		b := "0"
		if filters[k].filterConf().match(req, res) {
			b = "1"
		}
		out = append(out, "B"+k+"="+b)
	}
	for _, o := range obs {
		out = append(out, strings.Fields(o)...)
	}
	return out
}

// stressConfig: the i-th (0-based) configuration POSTed by a STRESS case, as
// tree tokens.  The driver uses the same rule.
func stressConfig(i int) []string {
	id := strconv.Itoa(i + 1)
	switch {
	case i%7 == 3:
		return []string{"X0"}
	case i%5 == 2:
		return []string{"L" + id + ".b.0.q"}
	case i%11 == 6:
		return []string{"L" + id + ".b.0.s"}
	}
	return []string{"L" + id + ".b.0.-"}
}

// runStress: STRESS <K> <P> <G>
// One goroutine POSTs K configurations (stressConfig) back to back through the
// martianhttp handler.  P goroutines run exchanges (ModifyRequest, then
// ModifyResponse of the same exchange), G goroutines run (GET, ModifyRequest,
// GET); each records what it saw in its own program order and performs one
// more full round after the last POST has returned.
// OUT: ST<0|1 per POST>, then per thread "|" followed by x<req ids>/<res ids>
// (one exchange; consecutive identical exchanges whose two halves agree are
// dropped), c<ordinal>|c- (GET), q<ids> (request half).
func runStress(toks []string) (out []string) {
	if len(toks) != 3 || !isDigits(toks[0]) || !isDigits(toks[1]) || !isDigits(toks[2]) {
		return []string{"BADCASE"}
	}
	K, _ := strconv.Atoi(toks[0])
	P, _ := strconv.Atoi(toks[1])
	G, _ := strconv.Atoi(toks[2])
	if K < 1 || K > 100000 || P+G < 1 || P+G > 64 {
		return []string{"BADCASE"}
	}
	bodies := make([]string, K)
	for i := range bodies {
		b, _, err := postBody(stressConfig(i))
		if err != nil {
			return []string{"BADCASE"}
		}
		bodies[i] = b
	}
	mh := martianhttp.NewModifier()
	var stop int32
	var started, wg sync.WaitGroup
	obs := make([][]string, P+G)
	var panicked int32
	ids := func(h http.Header, err error) string {
		s := strings.Join(h[traceHeader], ",")
		if err != nil {
			s += "!"
		}
		return s
	}
	for t := 0; t < P+G; t++ {
		wg.Add(1)
		started.Add(1)
		go func(t int) {
			defer wg.Done()
			defer func() {
				if r := recover(); r != nil {
					atomic.StoreInt32(&panicked, 1)
				}
			}()
			req, _ := http.NewRequest("GET", "http://example.com/a", nil)
			res := &http.Response{StatusCode: 200, Header: http.Header{}, Body: http.NoBody, Request: req}
			get := func() string {
				rec := httptest.NewRecorder()
				mh.ServeHTTP(rec, httptest.NewRequest("GET", "/configure", nil))
				b := rec.Body.String()
				if b == "" {
					return "c-"
				}
				i := strings.Index(b, `"id": `)
				if i < 0 {
					return "c?"
				}
				j := i + 6
				for j < len(b) && b[j] >= '0' && b[j] <= '9' {
					j++
				}
				n, _ := strconv.Atoi(b[i+6 : j])
				return "c" + strconv.Itoa(n-1)
			}
			first := true
			for {
				stopping := atomic.LoadInt32(&stop) == 1
				if t < P {
					req.Header.Del(traceHeader)
					res.Header.Del(traceHeader)
					e1 := mh.ModifyRequest(req)
					a := ids(req.Header, e1)
					e2 := mh.ModifyResponse(res)
					b := ids(res.Header, e2)
					tok := "x" + a + "/" + b
					if n := len(obs[t]); !(n > 0 && a == b && obs[t][n-1] == tok) {
						obs[t] = append(obs[t], tok)
					}
				} else {
					c1 := get()
					req.Header.Del(traceHeader)
					e1 := mh.ModifyRequest(req)
					a := "q" + ids(req.Header, e1)
					c2 := get()
					n := len(obs[t])
					if !(n >= 3 && c1 == c2 && obs[t][n-3] == c1 && obs[t][n-2] == a && obs[t][n-1] == c2 &&
						(c1 == "c-") == (a == "q")) {
						obs[t] = append(obs[t], c1, a, c2)
					}
				}
				if first {
					first = false
					started.Done()
				}
				if stopping {
					return
				}
			}
		}(t)
	}
	started.Wait()
	st := make([]byte, K)
	for i, b := range bodies {
		rec := httptest.NewRecorder()
		mh.ServeHTTP(rec, httptest.NewRequest("POST", "/configure", strings.NewReader(b)))
		switch rec.Code {
		case 200:
			st[i] = '1'
		case 400:
			st[i] = '0'
		default:
			st[i] = '?'
		}
		if i%64 == 0 {
			runtime.Gosched()
		}
	}
	atomic.StoreInt32(&stop, 1)
	wg.Wait()
	if atomic.LoadInt32(&panicked) == 1 {
		return []string{"PANIC"}
	}
	out = append(out, "ST"+string(st))
	for _, o := range obs {
		out = append(out, "|")
		out = append(out, o...)
	}
	return out
}

// ------------------------------------------------------------------ generators

type gen struct {
	r       *hx.RNG
	nextID  int
	nextTag int
	cfg     *hx.Config
	// knobs
	pBadScope int // per-mille chance that a scope is unsupported
	pBadNode  int // per-mille chance that a node is replaced by X
	started   bool
}

var goodScopes = []string{"-", "-", "-", "qs", "qs", "q", "s", "sq", "n", "e", "qq", "ssq"}
var badScopes = []string{"x", "qx", "y", "z", "xs", "sqx"}

func (g *gen) scope() string {
	if g.r.Intn(1000) < g.pBadScope {
		return badScopes[g.r.Intn(len(badScopes))]
	}
	return goodScopes[g.r.Intn(len(goodScopes))]
}

var prioPool = []string{"-2", "-1", "0", "0", "1", "1", "2", "3", "5", "100", "9223372036854775807", "-9223372036854775808"}

const nBadVariants = 17

func (g *gen) leaf() []string {
	g.nextID++
	caps := "b"
	sc := g.scope()
	if g.r.Chance(1, 5) {
		caps = []string{"q", "s"}[g.r.Intn(2)]
		// mostly keep the scope supported
		if g.r.Intn(1000) >= g.pBadScope*4 {
			if caps == "q" {
				sc = []string{"-", "q", "n", "e", "qq"}[g.r.Intn(5)]
			} else {
				sc = []string{"-", "s", "n", "e"}[g.r.Intn(4)]
			}
		}
	}
	errs := "0"
	if g.r.Chance(1, 4) {
		errs = []string{"q", "s", "b"}[g.r.Intn(3)]
	}
	return []string{fmt.Sprintf("L%d.%s.%s.%s", g.nextID, caps, errs, sc)}
}

func (g *gen) tree(depth, width int) []string {
	root := !g.started
	g.started = true
	if g.r.Intn(1000) < g.pBadNode && !(root && depth > 1) {
		return []string{"X" + strconv.Itoa(g.r.Intn(nBadVariants))}
	}
	if depth <= 1 || (!root && g.r.Chance(1, 4)) {
		return g.leaf()
	}
	switch k := g.r.Intn(10); {
	case k < 3:
		out := []string{fmt.Sprintf("F%d.%s", g.r.Intn(3), g.scope())}
		n := g.r.Range(1, width)
		if g.r.Chance(1, 12) {
			n = 0
		}
		for i := 0; i < n; i++ {
			out = append(out, g.tree(depth-1, width)...)
		}
		return append(out, ")")
	case k < 6:
		out := []string{"R" + g.scope()}
		n := g.r.Range(1, width)
		if g.r.Chance(1, 12) {
			n = 0
		}
		small := g.r.Chance(2, 3)
		for i := 0; i < n; i++ {
			if !g.r.Chance(1, 8) {
				if small {
					out = append(out, "@"+strconv.Itoa(g.r.Range(0, 2)))
				} else {
					out = append(out, "@"+prioPool[g.r.Intn(len(prioPool))])
				}
			}
			out = append(out, g.tree(depth-1, width)...)
		}
		return append(out, ")")
	default:
		g.nextTag++
		ft := "huqmc"[g.r.Intn(5)]
		out := []string{fmt.Sprintf("f%c%d.%d.%s", ft, g.nextTag, g.r.Intn(12), g.scope())}
		out = append(out, g.tree(depth-1, width)...)
		if g.r.Chance(3, 5) {
			out = append(out, "ELSE")
			out = append(out, g.tree(depth-1, width)...)
		}
		return append(out, ")")
	}
}

// ---- size-like dimensions: wide groups, deep nesting, long scopes, else chains

// longScope: a supported scope array with many repeated elements.
func (g *gen) longScope() string {
	n := g.r.Range(5, 40)
	b := make([]byte, n)
	only := g.r.Intn(6) // 0: only q, 1: only s, else mixed
	for i := range b {
		switch {
		case only == 0:
			b[i] = 'q'
		case only == 1:
			b[i] = 's'
		default:
			b[i] = "qs"[g.r.Intn(2)]
		}
	}
	return string(b)
}

func (g *gen) bigScope() string {
	switch k := g.r.Intn(10); {
	case k < 6:
		return "-"
	case k < 8:
		return g.longScope()
	default:
		return g.scope()
	}
}

// wideLeaf: probes implementing both kinds / one kind, mixed; errP per-mille erroring.
func (g *gen) wideLeaf(errP int) string {
	g.nextID++
	caps, sc := "b", "-"
	switch g.r.Intn(4) {
	case 0:
		caps = "q"
		sc = []string{"-", "q", "n", "qq"}[g.r.Intn(4)]
	case 1:
		caps = "s"
		sc = []string{"-", "s", "n", "ss"}[g.r.Intn(4)]
	default:
		sc = []string{"-", "-", "-", "qs", "q", "s", "sq"}[g.r.Intn(7)]
	}
	errs := "0"
	if g.r.Intn(1000) < errP {
		errs = []string{"q", "s", "b"}[g.r.Intn(3)]
	}
	return fmt.Sprintf("L%d.%s.%s.%s", g.nextID, caps, errs, sc)
}

// wideGroup: a priority or fifo group of n children with many priority ties
// (2-5 distinct priorities interleaved).
func (g *gen) wideGroup(prio bool, n int, sub bool) []string {
	g.started = true
	var out []string
	agg := g.r.Intn(3)
	errP := 1000 / (2*n + 1)
	if prio {
		out = []string{"R" + g.bigScope()}
	} else {
		out = []string{fmt.Sprintf("F%d.%s", agg, g.bigScope())}
		if agg == 1 {
			errP = 150
		}
	}
	nprio, base := g.r.Range(2, 5), g.r.Range(-2, 3)
	for i := 0; i < n; i++ {
		if prio && !g.r.Chance(1, 20) {
			out = append(out, "@"+strconv.Itoa(base+g.r.Intn(nprio)))
		}
		if sub && g.r.Chance(1, 12) {
			out = append(out, g.tree(2, 3)...)
		} else {
			out = append(out, g.wideLeaf(errP))
		}
	}
	return append(out, ")")
}

// wrapped: the wide group at top level or nested inside other nodes
func (g *gen) wrapped(inner []string) []string {
	g.started = true
	switch g.r.Intn(6) {
	case 0:
		out := append([]string{fmt.Sprintf("F%d.%s", g.r.Intn(3), g.bigScope()), g.wideLeaf(0)}, inner...)
		return append(out, g.wideLeaf(0), ")")
	case 1:
		out := append([]string{"R" + g.bigScope(), "@1", g.wideLeaf(0), "@1"}, inner...)
		return append(out, "@1", g.wideLeaf(0), "@2", g.wideLeaf(0), ")")
	case 2:
		g.nextTag++
		out := append([]string{fmt.Sprintf("f%c%d.%d.%s", "huqmc"[g.r.Intn(5)], g.nextTag, g.r.Intn(12), g.bigScope())}, inner...)
		return append(out, "ELSE", g.wideLeaf(0), ")")
	case 3:
		g.nextTag++
		out := []string{fmt.Sprintf("f%c%d.%d.%s", "huqmc"[g.r.Intn(5)], g.nextTag, g.r.Intn(12), g.bigScope()), g.wideLeaf(0), "ELSE"}
		return append(append(out, inner...), ")")
	}
	return inner
}

// deep: a chain of d nested groups / filters (the chain continuing in the
// modifier or in the else branch), leaves hanging off at every level.
func (g *gen) deep(d int) []string {
	g.started = true
	if d == 0 {
		return []string{g.wideLeaf(100)}
	}
	switch g.r.Intn(5) {
	case 0:
		out := []string{fmt.Sprintf("F%d.%s", g.r.Intn(3), g.bigScope()), g.wideLeaf(50)}
		out = append(out, g.deep(d-1)...)
		return append(out, g.wideLeaf(50), ")")
	case 1:
		out := []string{"R" + g.bigScope(), "@" + strconv.Itoa(g.r.Intn(3)), g.wideLeaf(50), "@" + strconv.Itoa(g.r.Intn(3))}
		out = append(out, g.deep(d-1)...)
		return append(out, "@"+strconv.Itoa(g.r.Intn(3)), g.wideLeaf(50), ")")
	case 2:
		g.nextTag++
		out := []string{fmt.Sprintf("f%c%d.%d.%s", "huqmc"[g.r.Intn(5)], g.nextTag, g.r.Intn(12), g.bigScope()), g.wideLeaf(50), "ELSE"}
		return append(append(out, g.deep(d-1)...), ")")
	default:
		g.nextTag++
		out := []string{fmt.Sprintf("f%c%d.%d.%s", "huqmc"[g.r.Intn(5)], g.nextTag, g.r.Intn(12), g.bigScope())}
		out = append(out, g.deep(d-1)...)
		if g.r.Bool() {
			out = append(out, "ELSE", g.wideLeaf(50))
		}
		return append(out, ")")
	}
}

// elseChain: if c1 then L1 else if c2 then L2 else ... (n filters)
func (g *gen) elseChain(n int) []string {
	g.started = true
	var out []string
	for i := 0; i < n; i++ {
		g.nextTag++
		out = append(out, fmt.Sprintf("f%c%d.%d.%s", "hqc"[g.r.Intn(3)], g.nextTag, g.r.Intn(2), []string{"-", "-", "qs", g.longScope()}[g.r.Intn(4)]),
			g.wideLeaf(30), "ELSE")
	}
	out = append(out, g.wideLeaf(0))
	for i := 0; i < n; i++ {
		out = append(out, ")")
	}
	return out
}

// sparseMsg: few conditions true so that long else chains are walked far
func (g *gen) sparseMsg() []string {
	kind := "MSGq"
	if g.r.Bool() {
		kind = "MSGs"
	}
	out := []string{kind}
	first := g.r.Range(1, g.nextTag+1)
	for t := 1; t <= g.nextTag; t++ {
		if t == first {
			out = append(out, "h"+strconv.Itoa(t))
		} else if g.r.Chance(1, 3) {
			out = append(out, "g"+strconv.Itoa(t))
		}
	}
	return out
}

func (g *gen) msg() []string {
	kind := "MSGq"
	if g.r.Bool() {
		kind = "MSGs"
	}
	out := []string{kind, fmt.Sprintf("u%d%d%d", g.r.Intn(2), g.r.Intn(5), g.r.Intn(2)),
		"m" + []string{"GET", "POST", "PUT", "get", "Post"}[g.r.Intn(5)]}
	for t := 1; t <= g.nextTag; t++ {
		switch g.r.Intn(6) {
		case 0:
			out = append(out, "h"+strconv.Itoa(t))
		case 1:
			out = append(out, "g"+strconv.Itoa(t))
		case 2, 3:
			// several occurrences: the matching value first / middle / last / absent
			out = append(out, "v"+strconv.Itoa(t)+":"+valPatterns[g.r.Intn(len(valPatterns))])
		}
	}
	return out
}

var valPatterns = []string{"yn", "ny", "nyn", "nny", "ynn", "nn", "nnn", "yy", "nnyn", "nnnny"}

func defective(toks []string) bool {
	for _, t := range toks {
		switch {
		case t[0] == 'X', strings.HasPrefix(t, "TRUNC"), t == "TRAIL":
			return true
		case t[0] == 'L':
			f := strings.Split(t[1:], ".")
			if strings.ContainsAny(f[3], "xyz") || (f[1] == "q" && strings.Contains(f[3], "s")) ||
				(f[1] == "s" && strings.Contains(f[3], "q")) {
				return true
			}
		case t[0] == 'F' || t[0] == 'R' || t[0] == 'f':
			i := strings.LastIndex(t, ".")
			sc := t[1:]
			if i >= 0 {
				sc = t[i+1:]
			}
			if strings.ContainsAny(sc, "xyz") {
				return true
			}
		}
	}
	return false
}

func treeStats(cfg *hx.Config, toks []string) {
	depth, maxd, nodes := 0, 0, 0
	for _, t := range toks {
		switch t[0] {
		case 'L', 'X':
			nodes++
			if t[0] == 'L' {
				cfg.Count("node=probe")
			} else {
				cfg.Count("node=bad")
			}
			if depth+1 > maxd {
				maxd = depth + 1
			}
		case 'F', 'R', 'f':
			nodes++
			depth++
			if depth > maxd {
				maxd = depth
			}
			switch t[0] {
			case 'F':
				cfg.Count("node=fifo.Group")
			case 'R':
				cfg.Count("node=priority.Group")
			default:
				cfg.Count("node=filter:" + t[1:2])
			}
		case ')':
			depth--
		}
	}
	if maxd > 12 {
		cfg.Count(fmt.Sprintf("tree_depth>=%d", maxd/8*8))
	} else {
		cfg.Count(fmt.Sprintf("tree_depth=%d", maxd))
	}
	b := nodes
	switch {
	case nodes > 32:
		b = 33
	case nodes > 16:
		b = 17
	case nodes > 8:
		b = 9
	case nodes > 4:
		b = 5
	}
	cfg.Count(fmt.Sprintf("tree_nodes>=%d", b))
}

func main() {
	mlog.SetLevel(mlog.Silent)
	parse.Register("verif.Probe", probeFromJSON)
	cfg := hx.ParseFlags()
	defer cfg.Close()
	n := 0
	emit := func(kind string, in []string) {
		n++
		out := runScript(in)
		cfg.Emit(hx.Case{Name: fmt.Sprintf("%s%d", kind, n), In: in, Out: out})
		cfg.Count("mode=" + in[0])
		cfg.Count("stream=" + kind)
		for _, o := range out {
			switch {
			case o == "REJ" || o == "S400":
				cfg.Count("config=rejected")
			case o == "ACC" || o == "S200":
				cfg.Count("config=accepted")
			case o[0] == 'B':
				cfg.Count("condition=" + o[len(o)-1:])
			case o[0] == 'E' && len(o) > 1:
				if strings.Contains(o, ",") {
					cfg.Count("errors=many")
				} else {
					cfg.Count("errors=one")
				}
			case o == "E":
				cfg.Count("errors=none")
			}
		}
		for _, t := range in {
			if t == "MSGq" || t == "MSGs" {
				cfg.Count("message=" + t[3:])
			}
		}
	}
	pre, replayOnly := cfg.Inputs()
	for _, c := range pre {
		cfg.Emit(hx.Case{Name: c.Name, In: c.In, Out: runScript(c.In)})
	}
	if replayOnly {
		return
	}
	rng := hx.NewRNG(cfg.Seed)
	scale := 1
	if cfg.Thorough() {
		scale = 25
	}

	// 1a. exhaustive: every priority group of <= 4 (thorough 5) leaves with
	// priorities in {0,1,2} (some leaves erroring), as request and response.
	maxLn := 4
	if cfg.Thorough() {
		maxLn = 5
	}
	for ln := 0; ln <= maxLn; ln++ {
		tot := 1
		for i := 0; i < ln; i++ {
			tot *= 3
		}
		for code := 0; code < tot; code++ {
			in := []string{"DIRECT", "POST", "R-"}
			c := code
			for i := 0; i < ln; i++ {
				errs := "0"
				if ln >= 4 && i == (code%4) && code%5 == 0 {
					errs = "b"
				}
				in = append(in, "@"+strconv.Itoa(c%3), fmt.Sprintf("L%d.b.%s.-", i+1, errs))
				c /= 3
			}
			in = append(in, ")", "MSGq", "MSGs")
			emit("exh-priority", in)
		}
	}

	// 1b. exhaustive: parent type x parent scope x child caps x child scope
	exhScopes := []string{"-", "n", "e", "q", "s", "qs", "x"}
	for _, parent := range []string{"F0.", "R", "fh1.0.", "fh1.0.!"} {
		for _, ps := range exhScopes {
			for _, caps := range []string{"b", "q", "s"} {
				for _, cs := range exhScopes {
					leaf := fmt.Sprintf("L1.%s.0.%s", caps, cs)
					in := []string{"DIRECT", "POST"}
					switch {
					case strings.HasSuffix(parent, "!"): // leaf in the else branch
						in = append(in, strings.TrimSuffix(parent, "!")+ps, "L2.b.0.-", "ELSE", leaf, ")")
					default:
						in = append(in, parent+ps, leaf, ")")
					}
					in = append(in, "MSGq", "h1", "MSGs", "h1", "MSGq", "MSGs", "g1")
					emit("exh-scope", in)
				}
			}
		}
	}

	// 1c. exhaustive: error policy: outer fifo (agg or not) [ inner fifo (agg
	// absent/true/false) of 3 leaves each erroring or not ; trailing leaf ]
	for outer := 0; outer < 2; outer++ {
		for inner := 0; inner < 3; inner++ {
			for mask := 0; mask < 16; mask++ {
				in := []string{"DIRECT", "POST", fmt.Sprintf("F%d.-", outer), fmt.Sprintf("F%d.-", inner)}
				for i := 0; i < 3; i++ {
					e := "0"
					if mask&(1<<i) != 0 {
						e = "b"
					}
					in = append(in, fmt.Sprintf("L%d.b.%s.-", i+1, e))
				}
				e := "0"
				if mask&8 != 0 {
					e = "b"
				}
				in = append(in, ")", "L4.b."+e+".-", ")", "MSGq", "MSGs")
				emit("exh-errors", in)
			}
		}
	}

	// 2. random valid trees, direct, several messages each
	for k := 0; k < 700*scale; k++ {
		g := &gen{r: rng.Fork(), cfg: cfg}
		depth, width := g.r.Range(2, 4), g.r.Range(2, 4)
		if cfg.Thorough() && g.r.Chance(1, 10) {
			depth, width = 5, 5
		}
		tr := g.tree(depth, width)
		treeStats(cfg, tr)
		in := append([]string{"DIRECT", "POST"}, tr...)
		for i := g.r.Range(2, 5); i > 0; i-- {
			in = append(in, g.msg()...)
		}
		emit("valid", in)
	}

	// 3. trees with something wrong somewhere (bad node / unsupported scope /
	// mangled body), direct
	for k := 0; k < 400*scale; k++ {
		g0 := rng.Fork()
		var in []string
		for try := 0; try < 30; try++ {
			g := &gen{r: g0.Fork(), cfg: cfg}
			switch k % 3 {
			case 0:
				g.pBadNode = 100
			case 1:
				g.pBadScope = 80
			}
			in = []string{"DIRECT", "POST"}
			if k%3 == 2 {
				switch g.r.Intn(3) {
				case 0:
					in = append(in, "TRUNC"+strconv.Itoa(g.r.Range(1, 99)))
				case 1:
					in = append(in, "TRAIL")
				default:
					in = append(in, "PAD")
				}
			}
			tr := g.tree(g.r.Range(1, 4), g.r.Range(1, 4))
			in = append(in, tr...)
			in = append(in, g.msg()...)
			in = append(in, g.msg()...)
			if defective(in) || (k%3 == 2 && in[2] == "PAD") {
				treeStats(cfg, tr)
				break
			}
		}
		emit("invalid", in)
	}

	// 4. reconfiguration scripts through martianhttp
	for k := 0; k < 400*scale; k++ {
		g := &gen{r: rng.Fork(), cfg: cfg}
		in := []string{"HTTP"}
		if g.r.Chance(1, 4) {
			in = append(in, g.msg()...)
			in = append(in, "GET")
		}
		for i := g.r.Range(2, 6); i > 0; i-- {
			in = append(in, "POST")
			g.pBadNode, g.pBadScope, g.started = 0, 0, false
			switch g.r.Intn(10) {
			case 0, 1:
				g.pBadNode = 200
			case 2:
				g.pBadScope = 150
			case 3:
				in = append(in, "TRUNC"+strconv.Itoa(g.r.Range(1, 99)))
			case 4:
				in = append(in, "PAD")
			}
			in = append(in, g.tree(g.r.Range(1, 3), g.r.Range(1, 3))...)
			for j := g.r.Range(1, 3); j > 0; j-- {
				in = append(in, g.msg()...)
			}
			if g.r.Chance(1, 2) {
				in = append(in, "GET")
			}
		}
		emit("reconf", in)
	}

	// 5. probe traffic concurrent with reconfiguration
	for k := 0; k < 60*scale; k++ {
		g := &gen{r: rng.Fork(), cfg: cfg}
		in := []string{"CONC"}
		for i := g.r.Range(2, 6); i > 0; i-- {
			in = append(in, "POST")
			g.pBadNode, g.pBadScope, g.started = 0, 0, false
			switch g.r.Intn(8) {
			case 0:
				g.pBadNode = 300
			case 1:
				in = append(in, "TRUNC"+strconv.Itoa(g.r.Range(1, 99)))
			}
			in = append(in, g.tree(g.r.Range(1, 3), g.r.Range(1, 3))...)
		}
		in = append(in, g.msg()...)
		emit("concurrent", in)
	}

	// 6. size: wide groups.  6a deterministic family: n children, priorities
	// (i*7)%m interleaved, kinds mixed, for widths around every small-size
	// threshold a sort / slice implementation might have.
	widths := []int{11, 12, 13, 14, 16, 17, 24, 31, 32, 33, 40, 64}
	if cfg.Thorough() {
		widths = append(widths, 65, 100, 127, 128, 129, 200, 256, 300)
	}
	for _, w := range widths {
		for m := 2; m <= 5; m++ {
			for _, grp := range []string{"R-", "F1.-"} {
				in := []string{"DIRECT", "POST", grp}
				for i := 0; i < w; i++ {
					if grp[0] == 'R' {
						in = append(in, "@"+strconv.Itoa((i*7)%m))
					}
					caps := "b"
					if m%2 == 1 {
						caps = "bbqs"[i%4 : i%4+1]
					}
					e := "0"
					if grp[0] == 'F' && i%9 == 4 {
						e = "b"
					}
					in = append(in, fmt.Sprintf("L%d.%s.%s.-", i+1, caps, e))
				}
				in = append(in, ")", "MSGq", "MSGs")
				emit("size-wide-family", in)
			}
		}
	}
	// 6b random wide groups, top level and nested
	for k := 0; k < 80*scale; k++ {
		g := &gen{r: rng.Fork(), cfg: cfg}
		n := g.r.Range(13, 64)
		if cfg.Thorough() && g.r.Chance(1, 6) {
			n = g.r.Range(65, 300)
		}
		tr := g.wrapped(g.wideGroup(k%3 != 2, n, g.r.Chance(1, 3)))
		treeStats(cfg, tr)
		cfg.Count(fmt.Sprintf("group_width>=%d", n/16*16))
		in := append([]string{"DIRECT", "POST"}, tr...)
		for i := 0; i < 3; i++ {
			in = append(in, g.msg()...)
		}
		emit("size-wide", in)
	}
	// 6c deep nesting (8-12; thorough up to 30), long scope arrays
	for k := 0; k < 60*scale; k++ {
		g := &gen{r: rng.Fork(), cfg: cfg}
		d := g.r.Range(8, 12)
		if cfg.Thorough() && g.r.Chance(1, 6) {
			d = g.r.Range(13, 30)
		}
		tr := g.deep(d)
		treeStats(cfg, tr)
		in := append([]string{"DIRECT", "POST"}, tr...)
		for i := 0; i < 4; i++ {
			in = append(in, g.msg()...)
		}
		emit("size-deep", in)
	}
	// 6d many else-branches
	for k := 0; k < 40*scale; k++ {
		g := &gen{r: rng.Fork(), cfg: cfg}
		n := g.r.Range(8, 24)
		if cfg.Thorough() && g.r.Chance(1, 6) {
			n = g.r.Range(25, 80)
		}
		tr := g.elseChain(n)
		treeStats(cfg, tr)
		in := append([]string{"DIRECT", "POST"}, tr...)
		for i := 0; i < 4; i++ {
			in = append(in, g.sparseMsg()...)
		}
		emit("size-else-chain", in)
	}
	// 6e wide / deep configurations through the reconfiguration handler
	for k := 0; k < 30*scale; k++ {
		g := &gen{r: rng.Fork(), cfg: cfg}
		in := []string{"HTTP"}
		for i := g.r.Range(2, 3); i > 0; i-- {
			in = append(in, "POST")
			if g.r.Bool() {
				in = append(in, g.wideGroup(g.r.Bool(), g.r.Range(13, 48), false)...)
			} else {
				in = append(in, g.deep(g.r.Range(6, 10))...)
			}
			in = append(in, g.msg()...)
			in = append(in, g.msg()...)
		}
		emit("size-reconf", in)
	}

	// 7. filter conditions: every filter type x parameter against every
	// arrangement of repeated carriers / every URL / every method
	condPats := []string{"", "y", "n", "yn", "ny", "nyn", "nny", "ynn", "nn", "nnny"}
	for _, ty := range []string{"h", "q", "c"} {
		for param := 0; param < 2; param++ {
			in := []string{"DIRECT", "POST", fmt.Sprintf("f%s1.%d.-", ty, param), "L1.b.0.-", "ELSE", "L2.b.0.-", ")"}
			for _, kind := range []string{"MSGq", "MSGs"} {
				for _, p := range condPats {
					in = append(in, kind)
					if p != "" {
						in = append(in, "v1:"+p)
					}
				}
			}
			// a neighbouring tag must not matter
			in = append(in, "MSGq", "v11:y", "v2:y", "MSGs", "v11:yy")
			emit("exh-condition", in)
		}
	}
	for param := 0; param < len(methodParams); param++ {
		in := []string{"DIRECT", "POST", fmt.Sprintf("fm1.%d.-", param), "L1.b.0.-", "ELSE", "L2.b.0.-", ")"}
		for i, me := range []string{"GET", "POST", "PUT", "get", "Post", "pOST", "GETS"} {
			in = append(in, []string{"MSGq", "MSGs"}[i%2], "m"+me, []string{"MSGs", "MSGq"}[i%2], "m"+me)
		}
		emit("exh-condition", in)
	}
	for param := 0; param < len(urlParams); param++ {
		in := []string{"DIRECT", "POST", fmt.Sprintf("fu1.%d.-", param), "L1.b.0.-", "ELSE", "L2.b.0.-", ")"}
		i := 0
		for sc := 0; sc < len(schemes); sc++ {
			for ho := 0; ho < len(hosts); ho++ {
				for pa := 0; pa < len(paths); pa++ {
					i++
					in = append(in, []string{"MSGq", "MSGs"}[i%2], fmt.Sprintf("u%d%d%d", sc, ho, pa))
					if i%5 == 0 {
						in = append(in, "v9:y") // a query string: "query" components no longer equal
					}
				}
			}
		}
		emit("exh-condition", in)
	}

	// 9. POST outcome dimension: body read error after k bytes at every
	// interesting point (nothing read / mid-JSON / exactly a complete valid
	// configuration), at the handler level and over real TCP (Content-Length
	// larger than sent + half-close; chunked without terminator), wrong
	// methods; always with a different configuration active before, probed on
	// both halves and GET afterwards.
	after := []string{"MSGq", "MSGs", "GET"}
	dl := 0
	for _, mode := range []string{"RDERR", "TCPCL", "TCPCH"} {
		for _, pct := range []int{0, 1, 37, 50, 99, 100} {
			for _, variant := range []int{0, 1, 2} {
				dl++
				in := []string{"HTTP"}
				switch variant {
				case 0: // nothing active before
				case 1:
					in = append(in, "POST", "L1.b.0.-")
				case 2:
					in = append(in, "POST", "TCP", "F0.- L1.b.0.q L2.b.0.s )")
					in = strings.Fields(strings.Join(in, " "))
				}
				in = append(in, after...)
				in = append(in, "POST", mode+strconv.Itoa(pct))
				switch dl % 3 {
				case 0:
					in = append(in, "L7.b.0.-")
				case 1:
					in = append(in, "PAD", "F1.- L7.b.0.- L8.b.b.- )")
					in[len(in)-1] = "F1.-"
					in = append(in, "L7.b.0.-", "L8.b.b.-", ")")
				default:
					in = append(in, "R-", "@1", "L7.b.0.q", "@2", "L8.b.0.s", ")")
				}
				in = append(in, after...)
				// and the handler still works afterwards
				in = append(in, "POST", "L9.b.0.-")
				in = append(in, after...)
				emit("exh-delivery", in)
			}
		}
	}
	for _, m := range []string{"PUT", "DELETE", "HEAD", "PATCH", "OPTIONS", "post", "Get"} {
		in := []string{"HTTP", "POST", "L1.b.0.-"}
		in = append(in, after...)
		in = append(in, "POST", "METH"+m, "L7.b.0.-")
		in = append(in, after...)
		emit("exh-delivery", in)
	}
	// random: any configuration (valid or not), any delivery, any cut point
	for k := 0; k < 150*scale; k++ {
		g := &gen{r: rng.Fork(), cfg: cfg}
		in := []string{"HTTP"}
		for i := g.r.Range(2, 5); i > 0; i-- {
			in = append(in, "POST")
			g.pBadNode, g.pBadScope, g.started = 0, 0, false
			pct := []int{0, 100, 100, g.r.Range(1, 99)}[g.r.Intn(4)]
			switch g.r.Intn(9) {
			case 0, 1:
				in = append(in, "RDERR"+strconv.Itoa(pct))
			case 2:
				in = append(in, "TCPCL"+strconv.Itoa(pct))
			case 3:
				in = append(in, "TCPCH"+strconv.Itoa(pct))
			case 4:
				in = append(in, "TCP")
			case 5:
				in = append(in, "METH"+[]string{"PUT", "DELETE", "HEAD", "post"}[g.r.Intn(4)])
			}
			switch g.r.Intn(8) {
			case 0:
				g.pBadNode = 200
			case 1:
				in = append(in, "TRAIL")
			case 2:
				in = append(in, "PAD")
			}
			in = append(in, g.tree(g.r.Range(1, 3), g.r.Range(1, 3))...)
			in = append(in, g.msg()...)
			in = append(in, g.msg()...)
			if g.r.Chance(2, 3) {
				in = append(in, "GET")
			}
		}
		emit("delivery", in)
	}

	// 10. histories with REPEATED configurations (identical bytes, re-formatted
	// equal ones), the public setters overriding a half in between, traffic and
	// GET: an accepted POST installs a fresh tree on both halves whatever was
	// there.
	probeBoth := []string{"MSGq", "MSGs"}
	treesA := [][]string{
		{"L1.b.0.-"},
		{"F1.-", "L1.b.0.-", "fh1.0.-", "L2.b.b.-", "ELSE", "L3.b.0.-", ")", ")"},
		{"R-", "@1", "L1.b.0.q", "@2", "L2.b.0.s", "@1", "L3.b.0.-", ")"},
	}
	for ai, A := range treesA {
		for _, fmt2 := range [][]string{{}, {"LPAD"}, {"SPACED"}, {"SPACED", "LPAD"}, {"PAD"}, {"TCP"}} {
			for _, ov := range [][]string{{}, {"SETq71"}, {"SETs72"}, {"SETq71", "SETs72"}, {"SETq0"}, {"SETs0", "SETq73"}} {
				in := []string{"HTTP", "POST"}
				in = append(in, A...)
				in = append(in, probeBoth...)
				for _, o := range ov {
					in = append(in, o)
				}
				in = append(in, probeBoth...)
				in = append(in, "GET", "POST")
				in = append(in, fmt2...)
				in = append(in, A...)
				in = append(in, probeBoth...)
				in = append(in, "GET")
				if ai == 1 {
					// ... and once more after something else was active
					in = append(in, "POST", "L9.b.0.-", "SETs74", "POST")
					in = append(in, A...)
					in = append(in, probeBoth...)
					in = append(in, "GET")
				}
				emit("exh-repeat", in)
			}
		}
	}
	for k := 0; k < 150*scale; k++ {
		g := &gen{r: rng.Fork(), cfg: cfg}
		var pool [][]string
		for i := g.r.Range(1, 3); i > 0; i-- {
			g.started = false
			pool = append(pool, g.tree(g.r.Range(1, 3), g.r.Range(1, 3)))
		}
		in := []string{"HTTP"}
		for i := g.r.Range(3, 8); i > 0; i-- {
			switch g.r.Intn(10) {
			case 0, 1:
				in = append(in, []string{"SETq", "SETs"}[g.r.Intn(2)]+strconv.Itoa(g.r.Intn(3)*(70+g.r.Intn(9))))
			case 2:
				in = append(in, "GET")
			default:
				in = append(in, "POST")
				switch g.r.Intn(8) {
				case 0:
					in = append(in, "LPAD")
				case 1:
					in = append(in, "SPACED")
				case 2:
					in = append(in, "PAD")
				case 3:
					in = append(in, "TRUNC"+strconv.Itoa(g.r.Range(1, 99)))
				case 4:
					in = append(in, "RDERR100")
				}
				in = append(in, pool[g.r.Intn(len(pool))]...)
			}
			in = append(in, g.msg()...)
			if g.r.Bool() {
				in = append(in, g.msg()...)
			}
		}
		in = append(in, "GET")
		emit("repeat", in)
	}

	// 8. stress: atomic replacement seen by concurrent exchanges and GETs
	ns, nk := 3, 1500
	if cfg.Thorough() {
		ns, nk = 8, 5000
	}
	for k := 0; k < ns; k++ {
		emit("stress", []string{"STRESS", strconv.Itoa(nk + 100*k), strconv.Itoa(3 + k%2), strconv.Itoa(1 + k%2)})
	}
}
