// gen_c14 is the C14 translator (DESIGN.md 4.1): it reads, with go/ast,
//
//   - the `hopByHopHeaders` string-slice literal of header/hopbyhop_modifier.go
//   - the order of outer.Add{Request,Response}Modifier calls in
//     httpspec.NewStack (httpspec/httpspec.go)
//
// from the repository at -repo and writes Gen_HopByHop.v and Gen_Stack.v into
// -out.  It is deliberately dumb: if the source does not have exactly the
// expected shape (a literal slice of string literals; a straight-line NewStack
// whose modifier arguments are either constructor calls or identifiers bound
// once to constructor calls) it exits non-zero, which bin/vcheck reports as a
// broken tie.
package main

import (
	"flag"
	"fmt"
	"go/ast"
	"go/parser"
	"go/token"
	"os"
	"path/filepath"
	"strconv"
	"strings"
)

func die(format string, a ...interface{}) {
	fmt.Fprintf(os.Stderr, "gen_c14: "+format+"\n", a...)
	os.Exit(1)
}

func parse(path string) (*token.FileSet, *ast.File) {
	fset := token.NewFileSet()
	f, err := parser.ParseFile(fset, path, nil, 0)
	if err != nil {
		die("cannot parse %s: %v", path, err)
	}
	return fset, f
}

// hopByHop returns the elements of `var hopByHopHeaders = []string{...}`.
func hopByHop(path string) []string {
	_, f := parse(path)
	var found [][]string
	for _, d := range f.Decls {
		gd, ok := d.(*ast.GenDecl)
		if !ok || gd.Tok != token.VAR {
			continue
		}
		for _, sp := range gd.Specs {
			vs := sp.(*ast.ValueSpec)
			for i, n := range vs.Names {
				if n.Name != "hopByHopHeaders" {
					continue
				}
				if len(vs.Values) != len(vs.Names) {
					die("%s: hopByHopHeaders has no initialiser", path)
				}
				cl, ok := vs.Values[i].(*ast.CompositeLit)
				if !ok {
					die("%s: hopByHopHeaders is not a composite literal", path)
				}
				at, ok := cl.Type.(*ast.ArrayType)
				if !ok || at.Len != nil {
					die("%s: hopByHopHeaders is not a slice literal", path)
				}
				if id, ok := at.Elt.(*ast.Ident); !ok || id.Name != "string" {
					die("%s: hopByHopHeaders is not a []string", path)
				}
				var elems []string
				for _, e := range cl.Elts {
					bl, ok := e.(*ast.BasicLit)
					if !ok || bl.Kind != token.STRING {
						die("%s: hopByHopHeaders contains a non-literal element", path)
					}
					s, err := strconv.Unquote(bl.Value)
					if err != nil {
						die("%s: bad string literal %s", path, bl.Value)
					}
					elems = append(elems, s)
				}
				found = append(found, elems)
			}
		}
	}
	if len(found) != 1 {
		die("%s: expected exactly one `var hopByHopHeaders = []string{...}`, found %d", path, len(found))
	}
	if len(found[0]) == 0 {
		die("%s: hopByHopHeaders is empty", path)
	}
	// The removal loop must still be `for _, k := range hopByHopHeaders { header.Del(k) }`
	// inside removeHopByHopHeaders; the rest of that function is tied by correspondence.
	uses := 0
	ast.Inspect(f, func(n ast.Node) bool {
		if rs, ok := n.(*ast.RangeStmt); ok {
			if id, ok := rs.X.(*ast.Ident); ok && id.Name == "hopByHopHeaders" {
				uses++
			}
		}
		return true
	})
	if uses != 1 {
		die("%s: expected exactly one `range hopByHopHeaders` loop, found %d", path, uses)
	}
	return found[0]
}

var ctorTag = map[string]string{
	"header.NewHopByHopModifier":   "MHopByHop",
	"header.NewForwardedModifier":  "MForwarded",
	"header.NewBadFramingModifier": "MFraming",
	"header.NewViaModifier":        "MVia",
}

func selName(e ast.Expr) string {
	switch x := e.(type) {
	case *ast.Ident:
		return x.Name
	case *ast.SelectorExpr:
		return selName(x.X) + "." + x.Sel.Name
	}
	return "?"
}

// stack returns the request and response modifier orders of NewStack.
func stack(path string) (req, res []string) {
	_, f := parse(path)
	var fn *ast.FuncDecl
	for _, d := range f.Decls {
		if fd, ok := d.(*ast.FuncDecl); ok && fd.Name.Name == "NewStack" && fd.Recv == nil {
			if fn != nil {
				die("%s: several NewStack", path)
			}
			fn = fd
		}
	}
	if fn == nil || fn.Body == nil {
		die("%s: func NewStack not found", path)
	}
	// named results: (outer *fifo.Group, inner *fifo.Group)
	var results []string
	if fn.Type.Results != nil {
		for _, fl := range fn.Type.Results.List {
			for _, n := range fl.Names {
				results = append(results, n.Name)
			}
		}
	}
	if len(results) != 2 || results[0] != "outer" || results[1] != "inner" {
		die("%s: NewStack results are not (outer, inner): %v", path, results)
	}
	bind := map[string]string{} // identifier -> tag
	ctor := func(e ast.Expr) (string, bool) {
		ce, ok := e.(*ast.CallExpr)
		if !ok {
			return "", false
		}
		name := selName(ce.Fun)
		if t, ok := ctorTag[name]; ok {
			return t, true
		}
		if name == "fifo.NewGroup" && len(ce.Args) == 0 {
			return "GROUP", true
		}
		return "", false
	}
	sawReturn := false
	for _, st := range fn.Body.List {
		if sawReturn {
			die("%s: statements after return in NewStack", path)
		}
		switch s := st.(type) {
		case *ast.AssignStmt:
			if len(s.Lhs) != 1 || len(s.Rhs) != 1 {
				die("%s: unexpected assignment shape in NewStack", path)
			}
			id, ok := s.Lhs[0].(*ast.Ident)
			if !ok {
				die("%s: unexpected assignment target in NewStack", path)
			}
			t, ok := ctor(s.Rhs[0])
			if !ok {
				die("%s: NewStack binds %s to something that is not a known modifier constructor: %s", path, id.Name, selName(s.Rhs[0].(*ast.CallExpr).Fun))
			}
			if _, dup := bind[id.Name]; dup {
				die("%s: %s assigned twice in NewStack", path, id.Name)
			}
			switch {
			case t == "GROUP" && id.Name == "outer":
				bind[id.Name] = "OUTER"
			case t == "GROUP" && id.Name == "inner":
				bind[id.Name] = "MInner"
			case t == "GROUP":
				die("%s: unexpected extra group %s in NewStack", path, id.Name)
			default:
				bind[id.Name] = t
			}
		case *ast.ExprStmt:
			ce, ok := s.X.(*ast.CallExpr)
			if !ok {
				die("%s: unexpected expression statement in NewStack", path)
			}
			name := selName(ce.Fun)
			if name != "outer.AddRequestModifier" && name != "outer.AddResponseModifier" {
				die("%s: unexpected call %s in NewStack (only outer.Add{Request,Response}Modifier are understood)", path, name)
			}
			if bind["outer"] != "OUTER" {
				die("%s: outer used before `outer = fifo.NewGroup()`", path)
			}
			if len(ce.Args) != 1 {
				die("%s: %s with %d arguments", path, name, len(ce.Args))
			}
			var tag string
			if id, ok := ce.Args[0].(*ast.Ident); ok {
				tag, ok = bind[id.Name]
				if !ok || tag == "OUTER" {
					die("%s: %s(%s): unknown modifier variable", path, name, id.Name)
				}
			} else if t, ok := ctor(ce.Args[0]); ok && t != "GROUP" {
				tag = t
			} else {
				die("%s: %s: argument is neither a known constructor call nor a bound variable", path, name)
			}
			if name == "outer.AddRequestModifier" {
				req = append(req, tag)
			} else {
				if tag == "MForwarded" || tag == "MFraming" {
					die("%s: %s is a request-only modifier but is added as response modifier", path, tag)
				}
				res = append(res, tag)
			}
		case *ast.ReturnStmt:
			sawReturn = true
			if len(s.Results) == 2 {
				a, ok1 := s.Results[0].(*ast.Ident)
				b, ok2 := s.Results[1].(*ast.Ident)
				if !ok1 || !ok2 || a.Name != "outer" || b.Name != "inner" {
					die("%s: NewStack does not return (outer, inner)", path)
				}
			} else if len(s.Results) != 0 {
				die("%s: unexpected return in NewStack", path)
			}
		default:
			die("%s: unexpected statement kind %T in NewStack (control flow is not understood)", path, st)
		}
	}
	if !sawReturn {
		die("%s: NewStack has no return", path)
	}
	if len(req) == 0 || len(res) == 0 {
		die("%s: NewStack adds no request or no response modifiers", path)
	}
	return req, res
}

// shared-state facts (Gen_Shared.v): what would let one message's processing
// influence another's when the single stack instance is used concurrently.
type sharedFacts struct {
	hbhFields       int // fields of type hopByHopModifier
	hbhListOtherUse int // uses of hopByHopHeaders other than its declaration and the one `range`
	hbhPkgVars      int // package-level vars of hopbyhop_modifier.go other than hopByHopHeaders
	viaFieldWrites  int // assignments to receiver fields inside ModifyRequest/ModifyResponse/hasLoop
	viaPkgVarWrites int // assignments to package-level vars of via_modifier.go
	reqOnlyPkgVars  int // package-level vars in forwarded_modifier.go and framing_modifier.go
	boundaryBytes   int // length of the buffer randomBoundary fills from crypto/rand
}

func pkgVars(f *ast.File) []string {
	var vs []string
	for _, d := range f.Decls {
		if gd, ok := d.(*ast.GenDecl); ok && gd.Tok == token.VAR {
			for _, sp := range gd.Specs {
				for _, n := range sp.(*ast.ValueSpec).Names {
					vs = append(vs, n.Name)
				}
			}
		}
	}
	return vs
}

func rootIdent(e ast.Expr) string {
	for {
		switch x := e.(type) {
		case *ast.Ident:
			return x.Name
		case *ast.SelectorExpr:
			e = x.X
		case *ast.IndexExpr:
			e = x.X
		case *ast.StarExpr:
			e = x.X
		case *ast.ParenExpr:
			e = x.X
		default:
			return ""
		}
	}
}

// boundaryBytes: randomBoundary must fill one buffer `buf` with io.ReadFull(rand.Reader, buf[:] | buf)
// and print it; the buffer is `var buf [N]byte` or `buf := make([]byte, L[, cap])`.  Returns N resp. L.
func boundaryBytes(vf *ast.File) int {
	var fn *ast.FuncDecl
	for _, d := range vf.Decls {
		if fd, ok := d.(*ast.FuncDecl); ok && fd.Name.Name == "randomBoundary" && fd.Recv == nil && fd.Body != nil {
			fn = fd
		}
	}
	if fn == nil {
		die("via_modifier.go: func randomBoundary not found")
	}
	n, found, reads := 0, 0, 0
	lit := func(e ast.Expr) int {
		bl, ok := e.(*ast.BasicLit)
		if !ok || bl.Kind != token.INT {
			die("via_modifier.go: randomBoundary: buffer length is not an integer literal")
		}
		v, err := strconv.Atoi(bl.Value)
		if err != nil {
			die("via_modifier.go: randomBoundary: bad length %s", bl.Value)
		}
		return v
	}
	ast.Inspect(fn.Body, func(nd ast.Node) bool {
		switch x := nd.(type) {
		case *ast.ValueSpec:
			if len(x.Names) == 1 && x.Names[0].Name == "buf" {
				if at, ok := x.Type.(*ast.ArrayType); ok && at.Len != nil {
					n, found = lit(at.Len), found+1
				}
			}
		case *ast.AssignStmt:
			if len(x.Lhs) == 1 && len(x.Rhs) == 1 {
				if id, ok := x.Lhs[0].(*ast.Ident); ok && id.Name == "buf" {
					ce, ok := x.Rhs[0].(*ast.CallExpr)
					if !ok || selName(ce.Fun) != "make" || len(ce.Args) < 2 {
						die("via_modifier.go: randomBoundary: buf is assigned something that is not make([]byte, n)")
					}
					n, found = lit(ce.Args[1]), found+1
				}
			}
		case *ast.CallExpr:
			if selName(x.Fun) == "io.ReadFull" && len(x.Args) == 2 && selName(x.Args[0]) == "rand.Reader" {
				arg := x.Args[1]
				if se, ok := arg.(*ast.SliceExpr); ok && se.Low == nil && se.High == nil {
					arg = se.X
				}
				if id, ok := arg.(*ast.Ident); ok && id.Name == "buf" {
					reads++
				}
			}
		}
		return true
	})
	if found != 1 || reads != 1 {
		die("via_modifier.go: randomBoundary: expected one buffer `buf` filled by one io.ReadFull(rand.Reader, buf) (found %d buffers, %d reads)", found, reads)
	}
	return n
}

func shared(repo string) sharedFacts {
	var sf sharedFacts
	_, hf := parse(filepath.Join(repo, "header", "hopbyhop_modifier.go"))
	foundType := false
	for _, d := range hf.Decls {
		if gd, ok := d.(*ast.GenDecl); ok && gd.Tok == token.TYPE {
			for _, sp := range gd.Specs {
				ts := sp.(*ast.TypeSpec)
				if ts.Name.Name == "hopByHopModifier" {
					st, ok := ts.Type.(*ast.StructType)
					if !ok {
						die("hopByHopModifier is not a struct")
					}
					foundType = true
					sf.hbhFields = st.Fields.NumFields()
				}
			}
		}
	}
	if !foundType {
		die("type hopByHopModifier not found")
	}
	for _, v := range pkgVars(hf) {
		if v != "hopByHopHeaders" {
			sf.hbhPkgVars++
		}
	}
	uses := 0
	ast.Inspect(hf, func(n ast.Node) bool {
		if id, ok := n.(*ast.Ident); ok && id.Name == "hopByHopHeaders" {
			uses++
		}
		return true
	})
	sf.hbhListOtherUse = uses - 2 // the declaration and the range statement

	_, vf := parse(filepath.Join(repo, "header", "via_modifier.go"))
	vvars := map[string]bool{}
	for _, v := range pkgVars(vf) {
		vvars[v] = true
	}
	methods := 0
	for _, d := range vf.Decls {
		fd, ok := d.(*ast.FuncDecl)
		if !ok || fd.Body == nil {
			continue
		}
		recv := ""
		if fd.Recv != nil && len(fd.Recv.List) == 1 && len(fd.Recv.List[0].Names) == 1 {
			recv = fd.Recv.List[0].Names[0].Name
		}
		inMethod := recv != "" && (fd.Name.Name == "ModifyRequest" || fd.Name.Name == "ModifyResponse" || fd.Name.Name == "hasLoop")
		if inMethod {
			methods++
		}
		ast.Inspect(fd.Body, func(n ast.Node) bool {
			var lhs []ast.Expr
			switch x := n.(type) {
			case *ast.AssignStmt:
				if x.Tok != token.DEFINE {
					lhs = x.Lhs
				}
			case *ast.IncDecStmt:
				lhs = []ast.Expr{x.X}
			}
			for _, l := range lhs {
				r := rootIdent(l)
				if _, isSel := l.(*ast.SelectorExpr); isSel && inMethod && r == recv {
					sf.viaFieldWrites++
				}
				if vvars[r] {
					if _, plain := l.(*ast.Ident); plain || true {
						sf.viaPkgVarWrites++
					}
				}
			}
			return true
		})
	}
	sf.boundaryBytes = boundaryBytes(vf)
	if methods != 3 {
		die("via_modifier.go: expected ModifyRequest, ModifyResponse and hasLoop methods, found %d of them", methods)
	}
	for _, fn := range []string{"forwarded_modifier.go", "framing_modifier.go"} {
		_, f := parse(filepath.Join(repo, "header", fn))
		sf.reqOnlyPkgVars += len(pkgVars(f))
	}
	return sf
}

func coqString(s string) string {
	for _, c := range []byte(s) {
		if c < 0x20 || c > 0x7e || c == '"' {
			die("hop-by-hop header name %q contains a character the translator does not emit", s)
		}
	}
	return `"` + s + `"`
}

func main() {
	repo := flag.String("repo", "/repo", "martian working tree")
	out := flag.String("out", "", "directory to write Gen_*.v into")
	flag.Parse()
	if *out == "" {
		die("-out is required")
	}
	hbh := hopByHop(filepath.Join(*repo, "header", "hopbyhop_modifier.go"))
	req, res := stack(filepath.Join(*repo, "httpspec", "httpspec.go"))

	var a strings.Builder
	a.WriteString("(* GENERATED by harness/cmd/gen_c14 from header/hopbyhop_modifier.go\n   (the hopByHopHeaders literal).  Do not edit. *)\n")
	a.WriteString("From Coq Require Import List Ascii String.\nImport ListNotations.\nLocal Open Scope string_scope.\n\n")
	a.WriteString("Definition hop_by_hop_headers : list (list ascii) :=\n  map list_ascii_of_string\n  [ ")
	for i, h := range hbh {
		if i > 0 {
			a.WriteString(";\n    ")
		}
		a.WriteString(coqString(h))
	}
	a.WriteString(" ].\n")

	var b strings.Builder
	b.WriteString("(* GENERATED by harness/cmd/gen_c14 from httpspec/httpspec.go (the order of\n   outer.AddRequestModifier / outer.AddResponseModifier calls in NewStack).\n   Do not edit. *)\n")
	b.WriteString("From Coq Require Import List.\nImport ListNotations.\n\n")
	b.WriteString("Inductive stack_mod := MHopByHop | MForwarded | MFraming | MVia | MInner.\n\n")
	b.WriteString("Definition req_order : list stack_mod := [" + strings.Join(req, "; ") + "].\n")
	b.WriteString("Definition res_order : list stack_mod := [" + strings.Join(res, "; ") + "].\n")

	sf := shared(*repo)
	var c strings.Builder
	c.WriteString("(* GENERATED by harness/cmd/gen_c14 from header/{hopbyhop,via,forwarded,framing}_modifier.go:\n   what could carry state from one message to another through the shared stack.\n   Do not edit. *)\n")
	c.WriteString("From Coq Require Import Arith Bool.\n\n")
	fmt.Fprintf(&c, "Definition hbh_modifier_fields : nat := %d.\n", sf.hbhFields)
	fmt.Fprintf(&c, "Definition hbh_list_uses_other_than_the_range : nat := %d.\n", sf.hbhListOtherUse)
	fmt.Fprintf(&c, "Definition hbh_other_package_vars : nat := %d.\n", sf.hbhPkgVars)
	fmt.Fprintf(&c, "Definition via_receiver_field_writes_in_methods : nat := %d.\n", sf.viaFieldWrites)
	fmt.Fprintf(&c, "Definition via_package_var_writes : nat := %d.\n", sf.viaPkgVarWrites)
	fmt.Fprintf(&c, "Definition request_only_modifier_package_vars : nat := %d.\n\n", sf.reqOnlyPkgVars)
	fmt.Fprintf(&c, "(* bytes randomBoundary draws from crypto/rand for the per-instance Via boundary *)\nDefinition boundary_random_bytes : nat := %d.\n\n", sf.boundaryBytes)
	c.WriteString("Definition shared_state_free : bool :=\n  Nat.eqb hbh_modifier_fields 0 && Nat.eqb hbh_list_uses_other_than_the_range 0 &&\n  Nat.eqb hbh_other_package_vars 0 && Nat.eqb via_receiver_field_writes_in_methods 0 &&\n  Nat.eqb via_package_var_writes 0 && Nat.eqb request_only_modifier_package_vars 0.\n")
	if err := os.WriteFile(filepath.Join(*out, "Gen_Shared.v"), []byte(c.String()), 0o644); err != nil {
		die("%v", err)
	}
	if err := os.WriteFile(filepath.Join(*out, "Gen_HopByHop.v"), []byte(a.String()), 0o644); err != nil {
		die("%v", err)
	}
	if err := os.WriteFile(filepath.Join(*out, "Gen_Stack.v"), []byte(b.String()), 0o644); err != nil {
		die("%v", err)
	}
}
