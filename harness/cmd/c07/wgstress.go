package main

// Child-process stress for "concurrent accept and shutdown never panic":
// many rounds of one martian.Proxy serving several in-memory listeners, each
// with one registered idle connection, with Close racing one more accept per
// listener.  A conns.Add(1) that lands between the last conns.Done() and the
// return of conns.Wait() makes sync.WaitGroup panic ("WaitGroup is reused
// before previous Wait has returned" / "Add called concurrently with Wait");
// the real code prevents that by holding connsMu across Wait.  A panic in a
// proxy goroutine cannot be recovered, so this runs in a child process whose
// exit status and stderr the parent turns into OUT tokens.

import (
	"bytes"
	"errors"
	"fmt"
	"net"
	"net/http"
	"os"
	"os/exec"
	"regexp"
	"runtime"
	"strings"
	"sync"
	"time"

	martian "github.com/google/martian/v3"
	"verifharness/hx"
)

type memAddr struct{}

func (memAddr) Network() string { return "mem" }
func (memAddr) String() string  { return "mem" }

type memListener struct {
	ch   chan net.Conn
	done chan struct{}
	once sync.Once
}

func newMemListener() *memListener {
	return &memListener{ch: make(chan net.Conn), done: make(chan struct{})}
}

func (l *memListener) Accept() (net.Conn, error) {
	select {
	case c := <-l.ch:
		return c, nil
	case <-l.done:
		return nil, net.ErrClosed
	}
}
func (l *memListener) Close() error   { l.once.Do(func() { close(l.done) }); return nil }
func (l *memListener) Addr() net.Addr { return memAddr{} }

// offer hands a new connection to Serve (which may already have returned).
func (l *memListener) offer(c net.Conn) bool {
	select {
	case l.ch <- c:
		return true
	case <-l.done:
	case <-time.After(20 * time.Millisecond):
	}
	c.Close()
	return false
}

type nopRT struct{}

func (nopRT) RoundTrip(*http.Request) (*http.Response, error) {
	return nil, errors.New("no upstream")
}

// wgStressChild runs rounds until the budget is used up; exit status 0 = no
// panic, 3 = Close did not return.  A Go panic exits with status 2.
func wgStressChild(seed uint64, budget time.Duration, nl int) {
	workers := runtime.NumCPU() / 4
	if workers < 1 {
		workers = 1
	}
	if workers > 4 {
		workers = 4
	}
	var total int64
	var tmu sync.Mutex
	var wwg sync.WaitGroup
	master := hx.NewRNG(seed)
	for w := 0; w < workers; w++ {
		rng := master.Fork()
		wwg.Add(1)
		go func() {
			defer wwg.Done()
			n := wgStressLoop(rng, budget, nl)
			tmu.Lock()
			total += int64(n)
			tmu.Unlock()
		}()
	}
	wwg.Wait()
	fmt.Printf("ROUNDS %d\n", total)
	os.Exit(0)
}

func wgStressLoop(rng *hx.RNG, budget time.Duration, nl int) int {
	end := time.Now().Add(budget)
	rounds := 0
	maxSpin := 60
	if v := os.Getenv("VERIF_C07_SPIN"); v != "" {
		fmt.Sscan(v, &maxSpin)
	}
	for time.Now().Before(end) {
		rounds++
		p := martian.NewProxy()
		p.SetRoundTripper(nopRT{})
		ls := make([]*memListener, nl)
		var clients []net.Conn
		var cmu sync.Mutex
		for i := range ls {
			ls[i] = newMemListener()
			go p.Serve(ls[i])
			c, s := net.Pipe()
			clients = append(clients, c)
			ls[i].offer(s)
		}
		// let the handlers register and park in readRequest
		time.Sleep(time.Duration(50+rng.Intn(300)) * time.Microsecond)
		var wg sync.WaitGroup
		start := make(chan struct{})
		for i := range ls {
			spin := rng.Intn(maxSpin)
			l := ls[i]
			wg.Add(1)
			go func() {
				defer wg.Done()
				<-start
				for k := 0; k < spin; k++ {
					runtime.Gosched()
				}
				c, s := net.Pipe()
				cmu.Lock()
				clients = append(clients, c)
				cmu.Unlock()
				l.offer(s)
			}()
		}
		closed := make(chan struct{})
		spin := rng.Intn(maxSpin)
		go func() {
			<-start
			for k := 0; k < spin; k++ {
				runtime.Gosched()
			}
			p.Close()
			close(closed)
		}()
		close(start)
		select {
		case <-closed:
		case <-time.After(8 * time.Second):
			fmt.Fprintf(os.Stderr, "DEADLOCK: Close did not return in round %d\n", rounds)
			os.Exit(3)
		}
		wg.Wait()
		for _, l := range ls {
			l.Close()
		}
		cmu.Lock()
		for _, c := range clients {
			c.Close()
		}
		cmu.Unlock()
	}
	return rounds
}

var panicLine = regexp.MustCompile(`(?m)^(panic: .*|fatal error: .*)$`)

// runWG: IN `W sd:<seed> ms:<budget> nl:<listeners>` -> OUT `| NOPANIC` or `| PANIC:<message>` / DEADLOCK / RACE
func runWG(in []string) []string {
	sd, ms, nl := "1", "1500", "8"
	for _, t := range in[1:] {
		switch {
		case strings.HasPrefix(t, "sd:"):
			sd = t[3:]
		case strings.HasPrefix(t, "ms:"):
			ms = t[3:]
		case strings.HasPrefix(t, "nl:"):
			nl = t[3:]
		}
	}
	exe, err := os.Executable()
	if err != nil {
		return []string{"ENVFAIL"}
	}
	cmd := exec.Command(exe, "-extra", "wgstress:"+sd+":"+ms+":"+nl)
	var stderr, stdout bytes.Buffer
	cmd.Stderr, cmd.Stdout = &stderr, &stdout
	err = cmd.Run()
	es := stderr.String()
	if m := panicLine.FindString(es); m != "" {
		return []string{"|", "PANIC:" + strings.Join(strings.Fields(m), "_")}
	}
	if strings.Contains(es, "DEADLOCK") {
		return []string{"|", "DEADLOCK"}
	}
	if strings.Contains(es, "WARNING: DATA RACE") {
		return []string{"|", "RACE"}
	}
	if err != nil {
		return []string{"|", "CHILDFAIL:" + strings.Join(strings.Fields(err.Error()), "_")}
	}
	if !strings.Contains(stdout.String(), "ROUNDS") {
		return []string{"|", "CHILDFAIL:no-rounds"}
	}
	return []string{"|", "NOPANIC"}
}
