// c07 drives the real martian.Proxy (NewProxy + Serve on a 127.0.0.1
// listener) through shutdown scenarios and records a globally sequenced trace
// of proxy-side events, plus what every client saw.
//
// IN tokens
//
//	F sz:<n> <point>.<warmups>* [R:<i,j,..>]   forced scenario
//	    point: idle head reqmod rt resmod write   progress point at which the connection is parked when Close is called
//	           headc                              like head, but the half head arrives in the SAME write as a complete request that
//	                                              is served keep-alive first (the bytes sit in the proxy's bufio.Reader)
//	           tun                                a blind tunnel (CONNECT) that is HALF-CLOSED when Close is called: /s the client
//	                                              sent its request and half-closed, the target is streaming a 1 MiB answer the
//	                                              client has not read yet; /w the target said hello and half-closed, the client
//	                                              is still uploading 1 MiB. The stream must be delivered completely.
//	           late lateb latec lated             connection dialled (with a full request) after closing became visible, on the
//	                                              first / second / third / fourth listener served by the same proxy
//	           unreg                              Serve is held between l.Accept() and `go handleLoop` (first conn.RemoteAddr()
//	                                              call blocks) until Close has returned (divergence D36)
//	    warmups: number of complete exchanges done on that connection before it is driven to its point;
//	             a trailing p (reqmod.1p) pipelines a second request right behind the parked one
//	             a trailing h (write.1h) puts half of a next request head right behind the parked request (same write);
//	             on head/headc a trailing c makes the client close its side once closing is visible, a trailing f makes
//	             it complete the head after Close returned (must not be served); default: the client stays silent
//	             after a slash, the OUTCOME of the steps of the parked exchange (reqmod.1/qx):
//	               q reqmod returns an error   k reqmod calls ctx.SkipRoundTrip()
//	               x y z  the round trip fails (custom error / io.EOF / timeout)   r resmod returns an error
//	               u v (reqmod, rt) the request is a large upload (u: Content-Length, v: chunked) of which only the first
//	                 bytes have arrived when Close is called; the rest is sent after the release, in slices with pauses;
//	                 the round tripper streams the body and checks length + SHA-256 (at rt the exchange is "parked"
//	                 inside the round tripper's read of the body)
//	               a b  the exchange (and the warm-ups of that connection) go to a REAL origin A / B (an http.Server on
//	                 127.0.0.1) through the proxy's own default http.Transport and dial function, so that the state of
//	                 the upstream connection pool matters: cold (warm-ups 0), warm-idle (warm-ups 1), warm-but-busy
//	                 (several connections to the same origin released together: async), different origins
//	               n o e  the kind of client of the parked exchange: n HTTP/1.1 with `Connection: close`, o HTTP/1.0
//	                 (closes by default), e HTTP/1.0 with `Connection: keep-alive` (default: HTTP/1.1 keep-alive).
//	                 n and o only where shutdown precedes the close decision (reqmod, rt, resmod)
//	               t d m  the parked exchange is a CONNECT: t blind tunnel to an echo server, d the same through a
//	                 downstream proxy (SetDownstreamProxy), m with MITM configured (the client leaves after the 200);
//	                 point rt = the dial of the tunnel target; x = that dial fails (502)
//	               g (write only) the client goes away instead of reading the response
//	    async    (token) release all parked exchanges at once instead of one after the other
//	    R: order in which the parked exchanges are released after Close was called
//	    sc:<ms>  (token) every conn.Close() done by the proxy takes <ms> (X is recorded when it completed)
//	W sd:<seed> ms:<budget> nl:<listeners>         child process: rounds of Close racing accepts on in-memory listeners
//	                                               (OUT: | NOPANIC, or | PANIC:<message>)
//	S n:<k> sd:<seed> [slow] [sc:<ms>] [org] [ls:<listeners>]   unforced stress (org: every request goes to a real origin through the transport): k clients racing Accept/serve against Close
//
// OUT tokens: the trace, then "|", then one K<id>=<responses>:<end> per
// accepted connection (responses: m marked complete, u unmarked complete,
// T truncated or corrupt; end: c closed, o still open), then flags
// (TUNNEL_TRUNCATED: the stream through a half-closed tunnel was cut; UNACCEPTED_OPEN: a connection dialled after
// shutdown that Serve never accepted is left hanging, neither refused nor closed; DEADLOCK: Close did not return; UNACCEPTED_SERVED: a client whose
// connection was never accepted got a response; PANIC).
//
// Trace tokens (all recorded synchronously inside the proxy's own goroutines
// through the listener/conn wrappers, the modifiers and the round tripper,
// except CC/CV/CR which the harness records around its call of Close):
//
//	A<c> Accept returned   h<c> client sent half a request head (only when the connection is known to be idle)
//	E<c> resmod returning for a CONNECT exchange
//	q<c> reqmod entered    t<c> round trip entered   s<c> resmod entered   e<c> resmod returning
//	T<c>+ / T<c>-  the round trip returns a response / an error     P<c>+ / P<c>-  the head about to be written is / is not a 502
//	T<c>? the round trip towards a real, reachable origin failed (the client gets a proxy-made 502 instead of its answer)
//	T<c>! the round tripper could not read the complete, byte-identical request body (upload scenarios)
//	F<c> a socket write of the response failed     G<c> the client went away
//	W<c>+ / W<c>-  first socket write of a response with / without Connection: close
//	w<c> last byte of the response written     X<c> conn.Close()
//	CC Close called   CV p.Closing() seen true   CR Close returned
//
// Connection ids are accept-order indices.
package main

import (
	"bufio"
	"bytes"
	"crypto/sha256"
	"errors"
	"fmt"
	"io"
	"net"
	"net/http"
	"net/url"
	"os"
	"runtime"
	"sort"
	"strconv"
	"strings"
	"sync"
	"sync/atomic"
	"time"

	martian "github.com/google/martian/v3"
	mlog "github.com/google/martian/v3/log"
	"github.com/google/martian/v3/mitm"
	"verifharness/hx"
)

const bigBody = 1 << 20

// ---------------------------------------------------------------- recorder

type connRec struct {
	id       int
	addr     string
	out      string // outcomes of the steps of exchange parkAt (see IN tokens)
	cur      int    // index of the exchange being handled
	failed   int32  // a write error was recorded
	isConn   int32  // the exchange being handled is a CONNECT
	raw      int32  // the CONNECT response went out: what follows on the socket is not HTTP
	park     string // point at which this connection parks
	parkAt   int    // exchange index that parks
	nReq     int    // exchanges that entered reqmod
	nRT      int
	nRes     int
	parked   chan struct{}
	release  chan struct{}
	written  int64 // bytes handed to the socket (atomic)
	inWrite  int32
	sawHead  int32
	closedEv int32
}

type run struct {
	mu       sync.Mutex
	ev       []string
	conns    []*connRec
	byAddr   map[string]*connRec
	accepted chan struct{} // pinged on every accept
	// configuration for the next accepted connection
	nextPark   string
	nextParkAt int
	nextOut    string
	flags      []string
	dialMap    map[string]*connRec // tunnel target (or downstream proxy) address -> the connection whose CONNECT dials it
	nextUnreg  bool
	unregGate  chan struct{}
	closeDelay time.Duration // every conn.Close() of the proxy takes this long
	inAccept   int32         // number of times Serve entered Accept
	sleepy     *hx.RNG       // stress: tiny random sleeps inside the gates
	smu        sync.Mutex
}

func newRun() *run {
	return &run{dialMap: map[string]*connRec{}, byAddr: map[string]*connRec{}, accepted: make(chan struct{}, 1024), unregGate: make(chan struct{})}
}

func (h *run) add(tok string) {
	h.mu.Lock()
	h.ev = append(h.ev, tok)
	h.mu.Unlock()
}

// flag records a harness-level observation that is appended to OUT after the client views.
func (h *run) flag(f string) {
	h.mu.Lock()
	for _, x := range h.flags {
		if x == f {
			h.mu.Unlock()
			return
		}
	}
	h.flags = append(h.flags, f)
	h.mu.Unlock()
}

func (h *run) has(tok string) bool {
	h.mu.Lock()
	defer h.mu.Unlock()
	for _, e := range h.ev {
		if e == tok {
			return true
		}
	}
	return false
}

func (h *run) count(tok string) int {
	h.mu.Lock()
	defer h.mu.Unlock()
	n := 0
	for _, e := range h.ev {
		if e == tok {
			n++
		}
	}
	return n
}

func (h *run) lookup(addr string) *connRec {
	h.mu.Lock()
	defer h.mu.Unlock()
	return h.byAddr[addr]
}

func (h *run) nap() {
	if h.sleepy == nil {
		return
	}
	h.smu.Lock()
	d := h.sleepy.Intn(300)
	h.smu.Unlock()
	if d > 0 {
		time.Sleep(time.Duration(d) * time.Microsecond)
	}
}

// listener wrapper: records Accept, hands out recording connections
type recListener struct {
	net.Listener
	h *run
}

func (l *recListener) Accept() (net.Conn, error) {
	atomic.AddInt32(&l.h.inAccept, 1)
	c, err := l.Listener.Accept()
	if err != nil {
		return c, err
	}
	if tc, ok := c.(*net.TCPConn); ok {
		tc.SetWriteBuffer(4096)
	}
	h := l.h
	rc := &recConn{Conn: c, h: h}
	h.mu.Lock()
	cr := &connRec{id: len(h.conns), addr: c.RemoteAddr().String(), park: h.nextPark, parkAt: h.nextParkAt, out: h.nextOut,
		parked: make(chan struct{}, 1), release: make(chan struct{})}
	h.nextPark, h.nextOut = "", ""
	if h.nextUnreg {
		h.nextUnreg = false
		rc.blockRA = h.unregGate
	}
	h.conns = append(h.conns, cr)
	h.byAddr[cr.addr] = cr
	h.ev = append(h.ev, fmt.Sprintf("A%d", cr.id))
	h.mu.Unlock()
	rc.cr = cr
	select {
	case h.accepted <- struct{}{}:
	default:
	}
	return rc, nil
}

// connection wrapper: records the first and last socket write of every
// response and Close; optionally blocks the first RemoteAddr() call.
type recConn struct {
	net.Conn
	h       *run
	cr      *connRec
	blockRA chan struct{}
	raOnce  sync.Once
	head    []byte
	remain  int64
	inBody  bool
}

func (c *recConn) RemoteAddr() net.Addr {
	if c.blockRA != nil {
		c.raOnce.Do(func() { <-c.blockRA })
	}
	return c.Conn.RemoteAddr()
}

// CloseWrite lets the proxy half-close the client connection (end of a tunnel direction).
func (c *recConn) CloseWrite() error {
	if tc, ok := c.Conn.(*net.TCPConn); ok {
		return tc.CloseWrite()
	}
	return c.Close()
}

func (c *recConn) Write(b []byte) (int, error) {
	if atomic.LoadInt32(&c.cr.raw) == 1 {
		atomic.StoreInt32(&c.cr.inWrite, 1)
		n, err := c.Conn.Write(b)
		atomic.StoreInt32(&c.cr.inWrite, 0)
		atomic.AddInt64(&c.cr.written, int64(n))
		return n, err
	}
	var pre []string
	done := 0
	p := b
	for len(p) > 0 {
		if !c.inBody {
			c.head = append(c.head, p...)
			i := bytes.Index(c.head, []byte("\r\n\r\n"))
			if i < 0 {
				p = nil
				break
			}
			consumed := i + 4 - (len(c.head) - len(p))
			hd := strings.ToLower(string(c.head[:i+4]))
			c.head = nil
			p = p[consumed:]
			mark := "-"
			if strings.Contains(hd, "\r\nconnection: close\r\n") {
				mark = "+"
			}
			cl := int64(0)
			if j := strings.Index(hd, "\r\ncontent-length: "); j >= 0 {
				rest := hd[j+18:]
				rest = rest[:strings.Index(rest, "\r\n")]
				cl, _ = strconv.ParseInt(rest, 10, 64)
			}
			st := "-"
			if len(hd) >= 12 && strings.HasPrefix(hd, "http/1.") && hd[8:12] == " 502" {
				st = "+"
			}
			pre = append(pre, fmt.Sprintf("P%d%s", c.cr.id, st), fmt.Sprintf("W%d%s", c.cr.id, mark))
			c.inBody, c.remain = true, cl
		}
		if c.inBody {
			n := int64(len(p))
			if n > c.remain {
				n = c.remain
			}
			c.remain -= n
			p = p[n:]
			if c.remain == 0 {
				c.inBody = false
				done++
			}
		}
	}
	// heads are recorded before the bytes go out, completions after
	for _, t := range pre {
		c.h.add(t)
		atomic.StoreInt32(&c.cr.sawHead, 1)
	}
	atomic.StoreInt32(&c.cr.inWrite, 1)
	n, err := c.Conn.Write(b)
	atomic.StoreInt32(&c.cr.inWrite, 0)
	atomic.AddInt64(&c.cr.written, int64(n))
	if err == nil && n == len(b) {
		for i := 0; i < done; i++ {
			c.h.add(fmt.Sprintf("w%d", c.cr.id))
		}
		if done > 0 && atomic.LoadInt32(&c.cr.isConn) == 1 {
			atomic.StoreInt32(&c.cr.raw, 1)
		}
	} else if atomic.CompareAndSwapInt32(&c.cr.failed, 0, 1) {
		c.h.add(fmt.Sprintf("F%d", c.cr.id))
	}
	return n, err
}

// Close records X when the close has COMPLETED (a connection whose Close
// takes time: TLS close_notify, lingering socket, wrapping listener), so that
// "Close returned" can be compared with "connection closed" and not merely
// with "closing started".
func (c *recConn) Close() error {
	if d := c.h.closeDelay; d > 0 {
		time.Sleep(d)
	}
	err := c.Conn.Close()
	if atomic.CompareAndSwapInt32(&c.cr.closedEv, 0, 1) {
		c.h.add(fmt.Sprintf("X%d", c.cr.id))
	}
	return err
}

// gates -------------------------------------------------------------------

func (h *run) gate(point, addr string) *connRec {
	cr := h.lookup(addr)
	if cr == nil {
		h.add("?" + point)
		return nil
	}
	return h.gateCR(point, cr)
}

func (h *run) gateCR(point string, cr *connRec) *connRec {
	var n *int
	var tok string
	switch point {
	case "reqmod":
		n, tok = &cr.nReq, "q"
	case "rt":
		n, tok = &cr.nRT, "t"
	default:
		n, tok = &cr.nRes, "s"
	}
	if point == "reqmod" {
		cr.cur = cr.nReq
	}
	h.add(fmt.Sprintf("%s%d", tok, cr.id))
	h.nap()
	upload := cr.cur == cr.parkAt && strings.ContainsAny(cr.out, "uv")
	if cr.park == point && cr.cur == cr.parkAt && !(point == "rt" && upload) {
		cr.parked <- struct{}{}
		<-cr.release
	}
	*n++
	return cr
}

// outcome reports whether the exchange being handled on cr is the one whose
// steps have scripted outcomes, and whether letter k is among them.
const (
	upFirst = 1000 // bytes of an upload that arrive together with the head
	upReply = 77   // size of the origin's answer to a complete upload
)

func upBody(n int) []byte {
	b := make([]byte, n)
	for i := range b {
		b[i] = byte((i*131 + i/251 + n) % 253)
	}
	return b
}

func (cr *connRec) outcome(k byte) bool {
	return cr != nil && cr.cur == cr.parkAt && strings.IndexByte(cr.out, k) >= 0
}

type timeoutErr struct{}

func (timeoutErr) Error() string   { return "upstream i/o timeout" }
func (timeoutErr) Timeout() bool   { return true }
func (timeoutErr) Temporary() bool { return true }

type reqMod struct{ h *run }

func (m reqMod) ModifyRequest(req *http.Request) error {
	if req.Method == "CONNECT" {
		if cr := m.h.lookup(req.RemoteAddr); cr != nil {
			atomic.StoreInt32(&cr.isConn, 1)
		}
	}
	cr := m.h.gate("reqmod", req.RemoteAddr)
	if cr.outcome('k') {
		martian.NewContext(req).SkipRoundTrip()
	}
	if cr.outcome('q') {
		return errors.New("request modifier failed")
	}
	return nil
}

type resMod struct{ h *run }

func (m resMod) ModifyResponse(res *http.Response) error {
	cr := m.h.gate("resmod", res.Request.RemoteAddr)
	if cr != nil {
		if res.Request.Method == "CONNECT" {
			m.h.add(fmt.Sprintf("E%d", cr.id))
		} else {
			m.h.add(fmt.Sprintf("e%d", cr.id))
		}
	}
	if cr.outcome('r') {
		return errors.New("response modifier failed")
	}
	return nil
}

func bodyFor(n int) []byte {
	b := make([]byte, n)
	for i := range b {
		b[i] = byte('a' + (i*7+n)%23)
	}
	return b
}

type upstream struct {
	h    *run
	orig http.RoundTripper // the proxy's own default transport (dials through the proxy's dial function)
}

// origin is a real HTTP server the proxy reaches through its transport.
type origin struct {
	l    net.Listener
	srv  *http.Server
	addr string
}

// startEcho: a TCP server that echoes what it reads (the target of a blind tunnel).
func startEcho() (net.Listener, error) {
	l, err := net.Listen("tcp", "127.0.0.1:0")
	if err != nil {
		return nil, err
	}
	go func() {
		for {
			c, err := l.Accept()
			if err != nil {
				return
			}
			go func() { io.Copy(c, c); c.Close() }()
		}
	}()
	return l, nil
}

// startStreamTarget: the target of a half-closed tunnel. kind 's': read the request to EOF, then stream
// a 1 MiB answer. kind 'w': say hello, half-close, then read a 1 MiB upload to EOF and check it.
func startStreamTarget(kind byte, bad func()) (net.Listener, error) {
	l, err := net.Listen("tcp", "127.0.0.1:0")
	if err != nil {
		return nil, err
	}
	go func() {
		c, err := l.Accept()
		if err != nil {
			return
		}
		defer c.Close()
		c.SetDeadline(time.Now().Add(30 * time.Second))
		if kind == 's' {
			io.Copy(io.Discard, c)
			c.Write(bodyFor(bigBody))
			return
		}
		c.Write([]byte("hello"))
		if tc, ok := c.(*net.TCPConn); ok {
			tc.CloseWrite()
		}
		got, _ := io.ReadAll(c)
		if !bytes.Equal(got, upBody(bigBody)) {
			bad()
		}
	}()
	return l, nil
}

// tunnelOpen: CONNECT, read the 200, bring the tunnel to its half-closed state. Returns false if that failed.
func (cl *client) tunnelOpen(target string, kind byte) bool {
	cl.sendConnect(target, -2)
	cl.c.SetDeadline(time.Now().Add(10 * time.Second))
	marked := strings.Contains(cl.peekHead(), "\r\nconnection: close\r\n")
	res, err := http.ReadResponse(cl.br, &http.Request{Method: "CONNECT"})
	if err != nil || res.StatusCode != 200 {
		return false
	}
	code := byte('u')
	if marked {
		code = 'm'
	}
	cl.mu.Lock()
	cl.resps = append(cl.resps, code)
	cl.mu.Unlock()
	tc, _ := cl.c.(*net.TCPConn)
	if kind == 's' {
		cl.c.Write([]byte("give me the big answer"))
		if tc != nil {
			tc.CloseWrite()
		}
		return true
	}
	// kind 'w': the target's direction ends first; start the upload
	hello, err := io.ReadAll(cl.br)
	if err != nil || string(hello) != "hello" {
		return false
	}
	_, err = cl.c.Write(upBody(bigBody)[:upFirst])
	return err == nil
}

// tunnelFinish: after the release, the stream must get through completely.
func (cl *client) tunnelFinish(kind byte) bool {
	// this goroutine is the only reader of the connection from now on (drain becomes a no-op)
	owner := false
	cl.once.Do(func() { owner = true })
	cl.c.SetDeadline(time.Now().Add(10 * time.Second))
	ok := true
	if kind == 's' {
		got, _ := io.ReadAll(cl.br)
		ok = bytes.Equal(got, bodyFor(bigBody))
	} else {
		rest := upBody(bigBody)[upFirst:]
		for len(rest) > 0 && ok {
			k := 64 << 10
			if k > len(rest) {
				k = len(rest)
			}
			if _, err := cl.c.Write(rest[:k]); err != nil {
				ok = false
			}
			rest = rest[k:]
			time.Sleep(2 * time.Millisecond)
		}
	}
	cl.c.Close()
	cl.setEnd('c')
	if owner {
		close(cl.done)
	}
	return ok
}

// startDownstream: a proxy that answers every CONNECT with 200 and then echoes.
func startDownstream() (net.Listener, error) {
	l, err := net.Listen("tcp", "127.0.0.1:0")
	if err != nil {
		return nil, err
	}
	go func() {
		for {
			c, err := l.Accept()
			if err != nil {
				return
			}
			go func() {
				defer c.Close()
				br := bufio.NewReader(c)
				if _, err := http.ReadRequest(br); err != nil {
					return
				}
				fmt.Fprint(c, "HTTP/1.1 200 Connection established\r\n\r\n")
				io.Copy(c, br)
			}()
		}
	}()
	return l, nil
}

var (
	mitmOnce sync.Once
	mitmCfg  *mitm.Config
)

func mitmConfig() *mitm.Config {
	mitmOnce.Do(func() {
		ca, priv, err := mitm.NewAuthority("c07 harness", "verif", time.Hour)
		if err == nil {
			mitmCfg, _ = mitm.NewConfig(ca, priv)
		}
	})
	return mitmCfg
}

// dialGate is installed with Proxy.SetDial: the dial of a tunnel target (or of the downstream
// proxy) is the "round trip" step of a CONNECT exchange.
func (h *run) dialGate(network, addr string) (net.Conn, error) {
	h.mu.Lock()
	cr := h.dialMap[addr]
	h.mu.Unlock()
	if cr == nil {
		return net.DialTimeout(network, addr, 10*time.Second)
	}
	h.gateCR("rt", cr)
	if cr.outcome('x') {
		h.add(fmt.Sprintf("T%d-", cr.id))
		return nil, errors.New("tunnel target refused the connection")
	}
	c, err := net.DialTimeout(network, addr, 10*time.Second)
	if err != nil {
		h.add(fmt.Sprintf("T%d?", cr.id))
		return nil, err
	}
	h.add(fmt.Sprintf("T%d+", cr.id))
	return c, nil
}

func startOrigin() (*origin, error) {
	l, err := net.Listen("tcp", "127.0.0.1:0")
	if err != nil {
		return nil, err
	}
	o := &origin{l: l, addr: l.Addr().String()}
	o.srv = &http.Server{Handler: http.HandlerFunc(func(w http.ResponseWriter, r *http.Request) {
		switch {
		case strings.HasPrefix(r.URL.Path, "/b/"):
			n, _ := strconv.Atoi(strings.TrimPrefix(r.URL.Path, "/b/"))
			w.Header().Set("Content-Type", "text/plain")
			w.Header().Set("Content-Length", strconv.Itoa(n))
			w.Write(bodyFor(n))
		case strings.HasPrefix(r.URL.Path, "/u/"):
			total, _ := strconv.Atoi(strings.TrimPrefix(r.URL.Path, "/u/"))
			hsh := sha256.New()
			got, err := io.Copy(hsh, r.Body)
			want := sha256.Sum256(upBody(total))
			if err != nil || int(got) != total || !bytes.Equal(hsh.Sum(nil), want[:]) {
				http.Error(w, "upload differs", 400)
				return
			}
			w.Header().Set("Content-Type", "text/plain")
			w.Header().Set("Content-Length", strconv.Itoa(upReply))
			w.Write(bodyFor(upReply))
		default:
			http.NotFound(w, r)
		}
	})}
	go o.srv.Serve(l)
	return o, nil
}

func (u upstream) RoundTrip(req *http.Request) (*http.Response, error) {
	cr := u.h.gate("rt", req.RemoteAddr)
	if cr != nil {
		var err error
		switch {
		case cr.outcome('x'):
			err = errors.New("origin refused the connection")
		case cr.outcome('y'):
			err = io.EOF
		case cr.outcome('z'):
			err = timeoutErr{}
		}
		if err != nil {
			u.h.add(fmt.Sprintf("T%d-", cr.id))
			return nil, err
		}
		if req.URL.Host != "h.test" {
			// a real origin, reached through the proxy's own transport and dial function
			res, err := u.orig.RoundTrip(req)
			if err != nil {
				u.h.add(fmt.Sprintf("T%d?", cr.id))
				return nil, err
			}
			if res.StatusCode != 200 {
				u.h.add(fmt.Sprintf("T%d!", cr.id))
			} else {
				u.h.add(fmt.Sprintf("T%d+", cr.id))
			}
			return res, nil
		}
		if strings.HasPrefix(req.URL.Path, "/u/") {
			// an origin that reads the whole upload: length and hash must be the client's
			total, _ := strconv.Atoi(strings.TrimPrefix(req.URL.Path, "/u/"))
			hsh := sha256.New()
			buf := make([]byte, 8192)
			got, signalled := 0, false
			var rerr error
			for {
				k, e := req.Body.Read(buf)
				hsh.Write(buf[:k])
				got += k
				if !signalled && got >= upFirst && cr.park == "rt" && cr.cur == cr.parkAt {
					signalled = true
					cr.parked <- struct{}{}
				}
				if e == io.EOF {
					break
				}
				if e != nil {
					rerr = e
					break
				}
			}
			want := sha256.Sum256(upBody(total))
			if rerr != nil || got != total || !bytes.Equal(hsh.Sum(nil), want[:]) {
				u.h.add(fmt.Sprintf("T%d!", cr.id))
				if rerr == nil {
					rerr = errors.New("upload differs")
				}
				return nil, rerr
			}
			u.h.add(fmt.Sprintf("T%d+", cr.id))
			b := bodyFor(upReply)
			return &http.Response{
				Status: "200 OK", StatusCode: 200, Proto: "HTTP/1.1", ProtoMajor: 1, ProtoMinor: 1,
				Header:        http.Header{"Content-Type": {"text/plain"}},
				Body:          io.NopCloser(bytes.NewReader(b)),
				ContentLength: int64(upReply), Request: req,
			}, nil
		}
		u.h.add(fmt.Sprintf("T%d+", cr.id))
	}
	n, _ := strconv.Atoi(strings.TrimPrefix(req.URL.Path, "/b/"))
	b := bodyFor(n)
	return &http.Response{
		Status: "200 OK", StatusCode: 200, Proto: "HTTP/1.1", ProtoMajor: 1, ProtoMinor: 1,
		Header:        http.Header{"Content-Type": {"text/plain"}},
		Body:          io.NopCloser(bytes.NewReader(b)),
		ContentLength: int64(n), Request: req,
	}, nil
}

// clients -----------------------------------------------------------------

type client struct {
	c     net.Conn
	br    *bufio.Reader
	local string
	mu    sync.Mutex
	resps []byte // m u T
	end   byte   // c o
	sizes []int  // expected body sizes in order; -1 = a 502 with a Warning header and no body
	gone  bool   // the client went away on purpose
	host  string // authority of the request URLs: "h.test" (answered by the harness round tripper) or a real origin
	done  chan struct{}
	once  sync.Once
}

func dial(addr string) (*client, error) {
	c, err := net.DialTimeout("tcp", addr, 2*time.Second)
	if err != nil {
		return nil, err
	}
	return &client{host: "h.test", c: c, br: bufio.NewReaderSize(c, 4096), local: c.LocalAddr().String(), end: 'o', done: make(chan struct{})}, nil
}

func (cl *client) send(n int) { cl.sendKind(n, 0) }

// sendKind sends a GET as an HTTP/1.1 keep-alive client (0), HTTP/1.1 with Connection: close ('n'),
// HTTP/1.0 ('o') or HTTP/1.0 with Connection: keep-alive ('e').
func (cl *client) sendKind(n int, kind byte) {
	cl.mu.Lock()
	cl.sizes = append(cl.sizes, n)
	cl.mu.Unlock()
	proto, extra := "HTTP/1.1", ""
	switch kind {
	case 'n':
		extra = "Connection: close\r\n"
	case 'o':
		proto = "HTTP/1.0"
	case 'e':
		proto, extra = "HTTP/1.0", "Connection: keep-alive\r\n"
	}
	fmt.Fprintf(cl.c, "GET http://%s/b/%d %s\r\nHost: %s\r\n%s\r\n", cl.host, n, proto, cl.host, extra)
}

// sendConnect asks for a tunnel; want: -2 tunnel (ping must be echoed), -3 MITM (leave after the 200), -1 a 502.
func (cl *client) sendConnect(target string, want int) {
	cl.mu.Lock()
	cl.sizes = append(cl.sizes, want)
	cl.mu.Unlock()
	fmt.Fprintf(cl.c, "CONNECT %s HTTP/1.1\r\nHost: %s\r\n\r\n", target, target)
}

// peekHead returns the raw response head the client received (lower-cased), without consuming it.
func (cl *client) peekHead() string {
	want := 1
	for {
		if _, err := cl.br.Peek(want); err != nil {
			return ""
		}
		b, _ := cl.br.Peek(cl.br.Buffered())
		if i := bytes.Index(b, []byte("\r\n\r\n")); i >= 0 {
			return strings.ToLower(string(b[:i+4]))
		}
		want = len(b) + 1
		if want > 4096 {
			return strings.ToLower(string(b))
		}
	}
}

// sendUpload writes the head of a POST and the first upFirst bytes of its body in one write.
func (cl *client) sendUpload(total int, chunked bool) {
	cl.mu.Lock()
	cl.sizes = append(cl.sizes, upReply)
	cl.mu.Unlock()
	var b bytes.Buffer
	body := upBody(total)
	if chunked {
		fmt.Fprintf(&b, "POST http://%s/u/%d HTTP/1.1\r\nHost: %s\r\nTransfer-Encoding: chunked\r\n\r\n", cl.host, total, cl.host)
		fmt.Fprintf(&b, "%x\r\n", upFirst)
		b.Write(body[:upFirst])
		b.WriteString("\r\n")
	} else {
		fmt.Fprintf(&b, "POST http://%s/u/%d HTTP/1.1\r\nHost: %s\r\nContent-Length: %d\r\n\r\n", cl.host, total, cl.host, total)
		b.Write(body[:upFirst])
	}
	cl.c.Write(b.Bytes())
}

// sendRemainder sends the rest of the upload in slices with pauses.
func (cl *client) sendRemainder(total int, chunked bool) {
	body := upBody(total)[upFirst:]
	slices := 4
	per := (len(body) + slices - 1) / slices
	for len(body) > 0 {
		time.Sleep(15 * time.Millisecond)
		k := per
		if k > len(body) {
			k = len(body)
		}
		cl.c.SetWriteDeadline(time.Now().Add(10 * time.Second))
		if chunked {
			// several chunks per slice, never aligned with the slices
			part := body[:k]
			for len(part) > 0 {
				c := 5000
				if c > len(part) {
					c = len(part)
				}
				if _, err := fmt.Fprintf(cl.c, "%x\r\n%s\r\n", c, part[:c]); err != nil {
					return
				}
				part = part[c:]
			}
		} else if _, err := cl.c.Write(body[:k]); err != nil {
			return
		}
		body = body[k:]
	}
	if chunked {
		fmt.Fprint(cl.c, "0\r\n\r\n")
	}
}

// setExpect overrides what the idx-th response must be (-1: 502 + Warning, n: 200 with bodyFor(n)).
func (cl *client) setExpect(idx, v int) {
	cl.mu.Lock()
	if idx < len(cl.sizes) {
		cl.sizes[idx] = v
	}
	cl.mu.Unlock()
}

// sendPipelined writes several requests in a single socket write.
func (cl *client) sendPipelined(ns ...int) {
	var b bytes.Buffer
	cl.mu.Lock()
	for _, n := range ns {
		cl.sizes = append(cl.sizes, n)
		fmt.Fprintf(&b, "GET http://%s/b/%d HTTP/1.1\r\nHost: %s\r\n\r\n", cl.host, n, cl.host)
	}
	cl.mu.Unlock()
	cl.c.Write(b.Bytes())
}

const halfHead = "GET http://h.test/b/5 HTTP/1.1\r\nHost: h.te"
const restHead = "st\r\n\r\n"

// sendThenHalf writes a complete request and the first half of the next
// request head in a single socket write.
func (cl *client) sendThenHalf(n int) {
	cl.mu.Lock()
	cl.sizes = append(cl.sizes, n)
	cl.mu.Unlock()
	fmt.Fprintf(cl.c, "GET http://%s/b/%d HTTP/1.1\r\nHost: %s\r\n\r\n%s", cl.host, n, cl.host, halfHead)
}

// sendRest completes the half head.
func (cl *client) sendRest() {
	cl.mu.Lock()
	cl.sizes = append(cl.sizes, 5)
	cl.mu.Unlock()
	cl.c.SetWriteDeadline(time.Now().Add(time.Second))
	fmt.Fprint(cl.c, restHead)
}

func (cl *client) sendHalf() {
	fmt.Fprint(cl.c, halfHead)
}

// readOne reads one response; ok=false when the stream ended instead.
func (cl *client) readOne(deadline time.Duration) (ok bool) {
	cl.c.SetReadDeadline(time.Now().Add(deadline))
	if _, err := cl.br.Peek(1); err != nil {
		var ne net.Error
		if errors.As(err, &ne) && ne.Timeout() {
			cl.setEnd('o')
		} else {
			cl.setEnd('c')
		}
		return false
	}
	idx := 0
	cl.mu.Lock()
	idx = len(cl.resps)
	want := -1
	if idx < len(cl.sizes) {
		want = cl.sizes[idx]
	}
	cl.mu.Unlock()
	// "marked connection-close" is read off the header bytes the client actually received
	// (http.ReadResponse would report Close for every HTTP/1.0 response and strips the header)
	marked := strings.Contains(cl.peekHead(), "\r\nconnection: close\r\n")
	var inReq *http.Request
	if want == -2 || want == -3 {
		inReq = &http.Request{Method: "CONNECT"}
	}
	res, err := http.ReadResponse(cl.br, inReq)
	code := byte('T')
	if err == nil && inReq != nil {
		// the answer to a CONNECT: a 200 without a body; then the tunnel must carry bytes both ways
		if res.StatusCode == 200 {
			ok := true
			if want == -2 {
				ping := []byte("ping through the tunnel " + cl.local)
				cl.c.SetDeadline(time.Now().Add(8 * time.Second))
				cl.c.Write(ping)
				back := make([]byte, len(ping))
				if _, err := io.ReadFull(cl.br, back); err != nil || !bytes.Equal(back, ping) {
					ok = false
				}
			}
			if ok {
				code = 'u'
				if marked {
					code = 'm'
				}
			}
		}
		cl.c.Close() // the client ends the tunnel
	} else if err == nil {
		b, err2 := io.ReadAll(res.Body)
		res.Body.Close()
		if err2 == nil && res.StatusCode == 200 && want >= 0 && bytes.Equal(b, bodyFor(want)) {
			if marked {
				code = 'm'
			} else {
				code = 'u'
			}
		}
		if err2 == nil && res.StatusCode == 502 && want == -1 && len(b) == 0 && res.Header.Get("Warning") != "" {
			if marked {
				code = 'M'
			} else {
				code = 'U'
			}
		}
	}
	cl.mu.Lock()
	cl.resps = append(cl.resps, code)
	cl.mu.Unlock()
	if code == 'T' {
		cl.setEnd('c')
		return false
	}
	return true
}

func (cl *client) setEnd(e byte) {
	cl.mu.Lock()
	cl.end = e
	cl.mu.Unlock()
}

// drain reads responses until the stream ends (or nothing arrives for d).
func (cl *client) drain(d time.Duration) {
	cl.once.Do(func() {
		go func() {
			defer close(cl.done)
			for cl.readOne(d) {
			}
		}()
	})
}

func (cl *client) view() string {
	cl.mu.Lock()
	defer cl.mu.Unlock()
	if cl.gone {
		return "!"
	}
	return string(cl.resps) + ":" + string(cl.end)
}

// scenario plumbing --------------------------------------------------------

type env struct {
	h     *run
	p     *martian.Proxy
	l     net.Listener
	addr  string
	serve chan struct{}
	orig  http.RoundTripper
	orgs  []*origin
	ls    []net.Listener // every listener served by the proxy (ls[0] == l)
	addrs []string
	aux   []net.Listener // echo targets, downstream proxy
}

type startOpts struct {
	closeDelay time.Duration
	listeners  int
	downstream bool
	mitm       bool
}

// originAddr starts real origin k on first use.
func (e *env) originAddr(k int) string {
	for len(e.orgs) <= k {
		o, err := startOrigin()
		if err != nil {
			return "127.0.0.1:1"
		}
		e.orgs = append(e.orgs, o)
	}
	return e.orgs[k].addr
}

func start(closeDelay time.Duration) (*env, error) {
	return startWith(startOpts{closeDelay: closeDelay, listeners: 1})
}

func startWith(o startOpts) (*env, error) {
	if o.listeners < 1 {
		o.listeners = 1
	}
	h := newRun()
	h.closeDelay = o.closeDelay
	p := martian.NewProxy()
	p.SetDial(h.dialGate) // while the default transport is still installed: it dials through it too
	orig := p.GetRoundTripper()
	p.SetRoundTripper(upstream{h, orig})
	p.SetRequestModifier(reqMod{h})
	p.SetResponseModifier(resMod{h})
	e := &env{h: h, p: p, serve: make(chan struct{}), orig: orig}
	if o.mitm {
		if cfg := mitmConfig(); cfg != nil {
			p.SetMITM(cfg)
		}
	}
	if o.downstream {
		d, err := startDownstream()
		if err != nil {
			return nil, err
		}
		e.aux = append(e.aux, d)
		p.SetDownstreamProxy(&url.URL{Scheme: "http", Host: d.Addr().String()})
	}
	var swg sync.WaitGroup
	for i := 0; i < o.listeners; i++ {
		l, err := net.Listen("tcp", "127.0.0.1:0")
		if err != nil {
			return nil, err
		}
		e.ls = append(e.ls, l)
		e.addrs = append(e.addrs, l.Addr().String())
		swg.Add(1)
		go func() {
			defer swg.Done()
			p.Serve(&recListener{l, h})
		}()
	}
	e.l, e.addr = e.ls[0], e.addrs[0]
	go func() { swg.Wait(); close(e.serve) }()
	// every Serve loop is inside l.Accept() before anything else happens
	waitFor(5*time.Second, func() bool { return int(atomic.LoadInt32(&h.inAccept)) >= o.listeners })
	return e, nil
}

func waitFor(d time.Duration, f func() bool) bool {
	end := time.Now().Add(d)
	for {
		if f() {
			return true
		}
		if time.Now().After(end) {
			return false
		}
		time.Sleep(500 * time.Microsecond)
	}
}

type spec struct {
	point string
	warm  int
	pipe  bool
	coal  bool   // half of a next head coalesced behind the parked request
	lis   int    // late connections: index of the listener they are dialled to
	out   string // outcomes of the steps of the parked exchange
	after byte   // head/headc: 's' silent, 'c' client closes, 'f' client finishes the head after Close returned
	cl    *client
	cr    *connRec
}

// ckind: t / d / m when the parked exchange is a CONNECT, else 0
func (s *spec) ckind() byte {
	if i := strings.IndexAny(s.out, "tdm"); i >= 0 {
		return s.out[i]
	}
	return 0
}

// kind: the client kind letter of the parked exchange (0: HTTP/1.1 keep-alive)
func (s *spec) kind() byte {
	if i := strings.IndexAny(s.out, "noe"); i >= 0 {
		return s.out[i]
	}
	return 0
}

// upTotal: size of the upload of this connection (larger than the proxy's 4096-byte buffer; sometimes much larger)
func (s *spec) upTotal(sz int) int {
	if (sz+s.warm)%2 == 0 {
		return 200000
	}
	return 6000
}

var points = []string{"idle", "head", "reqmod", "rt", "resmod", "write"}

func parseForced(in []string) (sz int, specs []*spec, order []int, async bool, sc time.Duration) {
	sz = 100
	for _, t := range in[1:] {
		switch {
		case strings.HasPrefix(t, "sc:"):
			v, _ := strconv.Atoi(t[3:])
			if v < 0 || v > 2000 {
				v = 0
			}
			sc = time.Duration(v) * time.Millisecond
		case t == "async":
			async = true
		case strings.HasPrefix(t, "sz:"):
			sz, _ = strconv.Atoi(t[3:])
		case strings.HasPrefix(t, "R:"):
			for _, x := range strings.Split(t[2:], ",") {
				if v, err := strconv.Atoi(x); err == nil {
					order = append(order, v)
				}
			}
		default:
			outc := ""
			if i := strings.IndexByte(t, '/'); i >= 0 {
				t, outc = t[:i], t[i+1:]
			}
			pw := strings.SplitN(t, ".", 2)
			w := 0
			pipe, coal, after := false, false, byte('s')
			if len(pw) == 2 {
				for len(pw[1]) > 0 && strings.ContainsRune("phcf", rune(pw[1][len(pw[1])-1])) {
					switch pw[1][len(pw[1])-1] {
					case 'p':
						pipe = true
					case 'h':
						coal = true
					case 'c':
						after = 'c'
					case 'f':
						after = 'f'
					}
					pw[1] = pw[1][:len(pw[1])-1]
				}
				w, _ = strconv.Atoi(pw[1])
			}
			if w > 3 {
				w = 3
			}
			if pw[0] != "head" && pw[0] != "headc" {
				after = 's'
			}
			// outcomes only make sense on an exchange that is parked; a parked write needs the origin's big body
			allowed := ""
			switch pw[0] {
			case "reqmod", "rt":
				allowed = "qkxyzruvabnoetdm"
			case "resmod":
				allowed = "qkxyzrabnoetdm"
			case "tun":
				allowed = "sw"
			case "write":
				allowed = "qrgabe"
			}
			var ob []byte
			for i := 0; i < len(outc); i++ {
				if strings.IndexByte(allowed, outc[i]) >= 0 && strings.IndexByte(string(ob), outc[i]) < 0 {
					ob = append(ob, outc[i])
				}
			}
			if strings.IndexByte(string(ob), 'k') >= 0 {
				// the round tripper is not called at all
				ob = []byte(strings.NewReplacer("x", "", "y", "", "z", "").Replace(string(ob)))
				if pw[0] == "rt" {
					pw[0] = "reqmod"
				}
			}
			if i := strings.IndexAny(string(ob), "tdm"); i >= 0 {
				// a CONNECT exchange: only the dial failure and the modifier errors combine with it
				kind := ob[i]
				keep := []byte{kind}
				for _, c := range ob {
					if c == 'q' || c == 'r' || (c == 'x' && kind != 'm') {
						keep = append(keep, c)
					}
				}
				ob = keep
				pipe, coal = false, false
				if kind == 'm' && pw[0] == "rt" {
					pw[0] = "reqmod" // no dial on the MITM path
				}
			}
			if strings.ContainsAny(string(ob), "uv") {
				// an upload in progress: the round trip is a real one and is not scripted to fail
				ob = []byte(strings.NewReplacer("x", "", "y", "", "z", "", "k", "").Replace(string(ob)))
				if strings.Contains(string(ob), "u") {
					ob = []byte(strings.Replace(string(ob), "v", "", -1))
				}
				pipe, coal = false, false
				if pw[0] == "rt" {
					// parked inside the harness round tripper's own read of the body
					ob = []byte(strings.NewReplacer("a", "", "b", "").Replace(string(ob)))
				}
			}
			if strings.Contains(string(ob), "a") {
				ob = []byte(strings.Replace(string(ob), "b", "", -1))
			}
			if strings.ContainsAny(string(ob), "noe") {
				if strings.ContainsAny(string(ob), "uv") || pipe || coal {
					// the client kind applies to a plain GET only
					ob = []byte(strings.NewReplacer("n", "", "o", "", "e", "").Replace(string(ob)))
				} else {
					// one kind
					first := strings.IndexAny(string(ob), "noe")
					keep := ob[first]
					ob = []byte(strings.NewReplacer("n", "", "o", "", "e", "").Replace(string(ob)))
					ob = append(ob, keep)
				}
			}
			specs = append(specs, &spec{point: pw[0], warm: w, pipe: pipe && !coal && isParked(pw[0]),
				coal: coal && isParked(pw[0]), after: after, out: string(ob)})
		}
	}
	if sz < 0 || sz > 1<<16 {
		sz = 100
	}
	// normal connections first, then unreg (at most one, and then no late ones), then late
	for _, s := range specs {
		// lateb / latec / lated: a late connection on the 2nd / 3rd / 4th listener of the same proxy
		if len(s.point) == 5 && strings.HasPrefix(s.point, "late") && s.point[4] >= 'b' && s.point[4] <= 'd' {
			s.lis = int(s.point[4] - 'a')
			s.point = "late"
		}
	}
	rank := func(s *spec) int {
		switch s.point {
		case "unreg":
			return 1
		case "late":
			return 2
		}
		return 0
	}
	sort.SliceStable(specs, func(i, j int) bool { return rank(specs[i]) < rank(specs[j]) })
	var out []*spec
	unreg := false
	for _, s := range specs {
		if s.point == "unreg" {
			if unreg {
				continue
			}
			unreg = true
		}
		if s.point == "late" && unreg {
			continue
		}
		out = append(out, s)
	}
	return sz, out, order, async, sc
}

func (e *env) awaitAccept(cl *client, d time.Duration) *connRec {
	var cr *connRec
	waitFor(d, func() bool { cr = e.h.lookup(cl.local); return cr != nil })
	return cr
}

func runForced(in []string) (out []string) {
	sz, specs, order, async, sc := parseForced(in)
	opts := startOpts{closeDelay: sc, listeners: 1}
	for _, s := range specs {
		if s.lis+1 > opts.listeners {
			opts.listeners = s.lis + 1
		}
		switch s.ckind() {
		case 'd':
			opts.downstream = true
		case 'm':
			opts.mitm = true
		}
	}
	e, err := startWith(opts)
	if err != nil {
		return []string{"ENVFAIL"}
	}
	h := e.h
	var flags []string
	var all []*client
	defer func() {
		for _, c := range all {
			c.c.Close()
		}
	}()

	// 1. bring every non-late connection to its point
	for _, s := range specs {
		if s.point == "late" {
			continue
		}
		h.mu.Lock()
		switch s.point {
		case "reqmod", "rt", "resmod":
			h.nextPark, h.nextParkAt, h.nextOut = s.point, s.warm, s.out
		case "write", "tun":
			h.nextParkAt, h.nextOut = s.warm, s.out
		case "unreg":
			h.nextUnreg = true
		}
		h.mu.Unlock()
		cl, err := dial(e.addr)
		if err != nil {
			return []string{"ENVFAIL"}
		}
		all = append(all, cl)
		s.cl = cl
		if strings.Contains(s.out, "a") {
			cl.host = e.originAddr(0)
		} else if strings.Contains(s.out, "b") {
			cl.host = e.originAddr(1)
		}
		s.cr = e.awaitAccept(cl, 5*time.Second)
		if s.cr == nil {
			return []string{"ENVFAIL"}
		}
		if s.point == "unreg" {
			continue
		}
		for i := 0; i < s.warm; i++ {
			cl.send(sz + i)
			if !cl.readOne(10 * time.Second) {
				flags = append(flags, "WARMUPFAIL")
			}
		}
		if s.warm == 0 && (s.point == "idle" || s.point == "head") {
			// give the new handler goroutine time to register and reach
			// readRequest (the accept/register window itself is the subject
			// of the unreg and stress scenarios)
			time.Sleep(3 * time.Millisecond)
		}
		switch s.point {
		case "idle":
		case "head":
			if s.warm > 0 {
				// the connection is known to be back in readRequest once the
				// proxy has finished writing the last warm-up response
				waitFor(5*time.Second, func() bool { return h.count(fmt.Sprintf("w%d", s.cr.id)) >= s.warm })
			}
			cl.sendHalf()
			if s.warm > 0 {
				h.add(fmt.Sprintf("h%d", s.cr.id))
			}
		case "headc":
			cl.sendThenHalf(sz)
			if !cl.readOne(10 * time.Second) {
				flags = append(flags, "WARMUPFAIL")
			}
			// back in readRequest, with the half head already buffered
			waitFor(5*time.Second, func() bool { return h.count(fmt.Sprintf("w%d", s.cr.id)) >= s.warm+1 })
			time.Sleep(2 * time.Millisecond)
			h.add(fmt.Sprintf("h%d", s.cr.id))
		case "reqmod", "rt", "resmod":
			if ck := s.ckind(); ck != 0 {
				target := "127.0.0.1:9" // MITM: never dialled
				if ck != 'm' {
					el, err := startEcho()
					if err != nil {
						return []string{"ENVFAIL"}
					}
					e.aux = append(e.aux, el)
					target = el.Addr().String()
				}
				h.mu.Lock()
				if ck == 'd' {
					h.dialMap[e.aux[0].Addr().String()] = s.cr // the downstream proxy is dialled instead
				} else {
					h.dialMap[target] = s.cr
				}
				h.mu.Unlock()
				want := -2
				if ck == 'm' {
					want = -3
				}
				if strings.Contains(s.out, "x") {
					want = -1
				}
				cl.sendConnect(target, want)
			} else if strings.ContainsAny(s.out, "uv") {
				cl.sendUpload(s.upTotal(sz), strings.Contains(s.out, "v"))
			} else if s.coal {
				cl.sendThenHalf(sz)
			} else if s.pipe {
				cl.sendPipelined(sz, sz+7)
			} else {
				cl.sendKind(sz, s.kind())
			}
			if s.ckind() != 0 {
				// expectation set by sendConnect
			} else if strings.ContainsAny(s.out, "xyz") {
				cl.setExpect(s.warm, -1)
			} else if strings.Contains(s.out, "k") {
				cl.setExpect(s.warm, 0)
			}
			select {
			case <-s.cr.parked:
			case <-time.After(10 * time.Second):
				flags = append(flags, "NOPARK")
			}
		case "tun":
			tk := byte('s')
			if strings.Contains(s.out, "w") {
				tk = 'w'
			}
			cr := s.cr
			tl, err := startStreamTarget(tk, func() { h.flag("TUNNEL_TRUNCATED") })
			if err != nil {
				return []string{"ENVFAIL"}
			}
			e.aux = append(e.aux, tl)
			h.mu.Lock()
			h.dialMap[tl.Addr().String()] = cr
			h.mu.Unlock()
			if !cl.tunnelOpen(tl.Addr().String(), tk) {
				flags = append(flags, "NOPARK")
			}
			if tk == 's' {
				// parked when the answer is streaming and the socket write towards the client has stalled
				var last int64 = -1
				stable := 0
				waitFor(10*time.Second, func() bool {
					w := atomic.LoadInt64(&cr.written)
					if atomic.LoadInt32(&cr.raw) == 1 && w > 100 && w == last && atomic.LoadInt32(&cr.inWrite) == 1 {
						stable++
					} else {
						stable = 0
					}
					last = w
					time.Sleep(2 * time.Millisecond)
					return stable >= 25
				})
			} else {
				time.Sleep(20 * time.Millisecond)
			}
		case "write":
			if s.coal {
				cl.sendThenHalf(bigBody)
			} else if s.pipe {
				cl.sendPipelined(bigBody, sz+7)
			} else {
				cl.sendKind(bigBody, s.kind())
			}
			// parked when the head went out and the socket write has stalled
			var last int64 = -1
			stable := 0
			waitFor(10*time.Second, func() bool {
				if atomic.LoadInt32(&s.cr.sawHead) == 0 {
					return false
				}
				w := atomic.LoadInt64(&s.cr.written)
				if w == last && atomic.LoadInt32(&s.cr.inWrite) == 1 {
					stable++
				} else {
					stable = 0
				}
				last = w
				time.Sleep(2 * time.Millisecond)
				return stable >= 25
			})
		}
	}

	// 2. shutdown is requested
	closed := make(chan struct{})
	go func() {
		for !e.p.Closing() {
			runtime.Gosched()
		}
		h.add("CV")
	}()
	h.add("CC")
	go func() {
		e.p.Close()
		h.add("CR")
		close(closed)
	}()
	waitFor(10*time.Second, func() bool { return h.has("CV") })

	// 3. late connections
	for _, s := range specs {
		if s.point != "late" {
			continue
		}
		cl, err := dial(e.addrs[s.lis])
		if err != nil {
			continue // listener already closed by Serve: refused, never accepted
		}
		all = append(all, cl)
		s.cl = cl
		cl.send(sz)
		s.cr = e.awaitAccept(cl, 300*time.Millisecond)
		cl.drain(8 * time.Second)
	}

	// 4. release the parked exchanges in the requested order
	var parkedIdx []int
	for i, s := range specs {
		switch s.point {
		case "reqmod", "rt", "resmod", "write", "tun":
			parkedIdx = append(parkedIdx, i)
		case "idle", "head", "headc":
			if s.after == 'c' {
				// the client gives up once shutdown is visible
				s.cl.c.Close()
			}
			s.cl.drain(8 * time.Second)
		}
	}
	seen := map[int]bool{}
	var rel []int
	for _, k := range order {
		if k >= 0 && k < len(parkedIdx) && !seen[k] {
			seen[k] = true
			rel = append(rel, parkedIdx[k])
		}
	}
	for k, i := range parkedIdx {
		if !seen[k] {
			rel = append(rel, i)
		}
	}
	for _, i := range rel {
		s := specs[i]
		if s.point == "tun" {
			tk := byte('s')
			if strings.Contains(s.out, "w") {
				tk = 'w'
			}
			fin := func() {
				if !s.cl.tunnelFinish(tk) {
					h.flag("TUNNEL_TRUNCATED")
				}
			}
			if async {
				go fin()
				continue
			}
			fin()
			waitFor(10*time.Second, func() bool { return atomic.LoadInt32(&s.cr.closedEv) == 1 })
			continue
		}
		if s.point != "write" {
			close(s.cr.release)
			if strings.ContainsAny(s.out, "uv") {
				// the client carries on uploading after shutdown was requested
				go s.cl.sendRemainder(s.upTotal(sz), strings.Contains(s.out, "v"))
			}
		} else if strings.Contains(s.out, "g") {
			// the client goes away instead of reading the response
			h.add(fmt.Sprintf("G%d", s.cr.id))
			s.cl.mu.Lock()
			s.cl.gone = true
			s.cl.mu.Unlock()
			s.cl.c.Close()
		}
		s.cl.drain(8 * time.Second)
		if async {
			continue
		}
		// let this exchange finish (response completely written, or the
		// client stream ended) before the next one is released
		wtok := fmt.Sprintf("w%d", s.cr.id)
		waitFor(10*time.Second, func() bool {
			select {
			case <-s.cl.done:
				return true
			default:
			}
			return h.count(wtok) >= s.warm+1 || atomic.LoadInt32(&s.cr.failed) == 1
		})
	}

	// 5. Close must return
	select {
	case <-closed:
	case <-time.After(8 * time.Second):
		flags = append(flags, "DEADLOCK")
	}
	for _, s := range specs {
		if s.point == "unreg" {
			close(h.unregGate)
			s.cl.drain(8 * time.Second)
		}
	}
	// clients that complete their half head only now: nothing may be served any more
	late := false
	for _, s := range specs {
		if (s.point == "head" || s.point == "headc") && s.after == 'f' {
			time.Sleep(5 * time.Millisecond)
			s.cl.sendRest()
			late = true
		}
	}
	if late {
		time.Sleep(100 * time.Millisecond)
	}
	return e.finish(all, flags)
}

// finish waits for quiescence and renders OUT.
func (e *env) finish(all []*client, flags []string) []string {
	h := e.h
	// when Close did not return nothing more is going to happen: do not wait long
	patience := 10 * time.Second
	for _, f := range flags {
		if f == "DEADLOCK" {
			patience = 300 * time.Millisecond
		}
	}
	for _, cl := range all {
		cl.drain(patience)
	}
	limit := time.Now().Add(patience)
	for _, cl := range all {
		select {
		case <-cl.done:
		case <-time.After(time.Until(limit)):
		}
	}
	// every accepted connection gets closed by the proxy
	waitFor(patience/2, func() bool {
		h.mu.Lock()
		defer h.mu.Unlock()
		for _, cr := range h.conns {
			if atomic.LoadInt32(&cr.closedEv) == 0 {
				return false
			}
		}
		return true
	})
	time.Sleep(20 * time.Millisecond)
	for _, l := range e.ls {
		l.Close()
	}
	for _, l := range e.aux {
		l.Close()
	}
	if tr, ok := e.orig.(*http.Transport); ok {
		tr.CloseIdleConnections()
	}
	for _, o := range e.orgs {
		o.srv.Close()
	}
	select {
	case <-e.serve:
	case <-time.After(5 * time.Second):
		flags = append(flags, "SERVESTUCK")
	}
	h.mu.Lock()
	out := append([]string{}, h.ev...)
	conns := append([]*connRec{}, h.conns...)
	h.mu.Unlock()
	out = append(out, "|")
	byLocal := map[string]*client{}
	for _, cl := range all {
		byLocal[cl.local] = cl
	}
	for _, cr := range conns {
		if cl := byLocal[cr.addr]; cl != nil {
			out = append(out, fmt.Sprintf("K%d=%s", cr.id, cl.view()))
			delete(byLocal, cr.addr)
		} else {
			out = append(out, fmt.Sprintf("K%d=?", cr.id))
		}
	}
	for _, cl := range byLocal {
		v := cl.view()
		if !strings.HasPrefix(v, ":") && v != "!" {
			flags = append(flags, "UNACCEPTED_SERVED")
		}
		if strings.HasSuffix(v, ":o") {
			// dialled after shutdown, handshake completed by the kernel, never accepted, never closed
			flags = append(flags, "UNACCEPTED_OPEN")
		}
	}
	h.mu.Lock()
	flags = append(flags, h.flags...)
	h.mu.Unlock()
	return append(out, flags...)
}

// stress: k clients race accept/serve against Close, nothing is forced.
func runStress(in []string) []string {
	k, sd, slow, scms, realOrigin, nls := 3, uint64(1), false, 0, false, 1
	for _, t := range in[1:] {
		switch {
		case strings.HasPrefix(t, "n:"):
			k, _ = strconv.Atoi(t[2:])
		case strings.HasPrefix(t, "sd:"):
			sd, _ = strconv.ParseUint(t[3:], 10, 64)
		case t == "slow":
			slow = true
		case t == "org":
			realOrigin = true
		case strings.HasPrefix(t, "ls:"):
			nls, _ = strconv.Atoi(t[3:])
		case strings.HasPrefix(t, "sc:"):
			scms, _ = strconv.Atoi(t[3:])
		}
	}
	if k < 1 {
		k = 1
	}
	if k > 8 {
		k = 8
	}
	if scms < 0 || scms > 2000 {
		scms = 0
	}
	if nls < 1 || nls > 4 {
		nls = 1
	}
	e, err := startWith(startOpts{closeDelay: time.Duration(scms) * time.Millisecond, listeners: nls})
	if err != nil {
		return []string{"ENVFAIL"}
	}
	h := e.h
	rng := hx.NewRNG(sd)
	if slow {
		h.sleepy = rng.Fork()
	}
	originHost := ""
	if realOrigin {
		originHost = e.originAddr(0)
	}
	var mu sync.Mutex
	var all []*client
	var wg sync.WaitGroup
	startc := make(chan struct{})
	for i := 0; i < k; i++ {
		r := rng.Fork()
		wg.Add(1)
		go func() {
			defer wg.Done()
			<-startc
			time.Sleep(time.Duration(r.Intn(1500)) * time.Microsecond)
			cl, err := dial(e.addrs[r.Intn(len(e.addrs))])
			if err != nil {
				return
			}
			if originHost != "" {
				cl.host = originHost
			}
			mu.Lock()
			all = append(all, cl)
			mu.Unlock()
			nreq := r.Range(0, 3)
			for j := 0; j < nreq; j++ {
				cl.send(r.Range(0, 6000))
				if !cl.readOne(8 * time.Second) {
					return
				}
				if r.Chance(1, 3) {
					time.Sleep(time.Duration(r.Intn(400)) * time.Microsecond)
				}
			}
			for cl.readOne(8 * time.Second) {
			}
		}()
	}
	delay := time.Duration(rng.Intn(2500)) * time.Microsecond
	close(startc)
	time.Sleep(delay)
	closed := make(chan struct{})
	go func() {
		for !e.p.Closing() {
			runtime.Gosched()
		}
		h.add("CV")
	}()
	h.add("CC")
	go func() {
		e.p.Close()
		h.add("CR")
		close(closed)
	}()
	var flags []string
	select {
	case <-closed:
	case <-time.After(8 * time.Second):
		flags = append(flags, "DEADLOCK")
	}
	wg.Wait()
	for _, cl := range all {
		// client goroutines already drained to the end of their stream
		cl.once.Do(func() { close(cl.done) })
	}
	defer func() {
		for _, c := range all {
			c.c.Close()
		}
	}()
	// In an unforced race a dial can complete its handshake at the very moment Serve closes the
	// listener; whether the kernel then resets it is not the proxy's doing. "Left hanging" is
	// judged in the forced scenarios only, where the extra dials come after Serve has returned.
	var res []string
	for _, t := range e.finish(all, flags) {
		if t != "UNACCEPTED_OPEN" {
			res = append(res, t)
		}
	}
	return res
}

func runCase(in []string) (out []string) {
	defer func() {
		if r := recover(); r != nil {
			out = []string{"|", "PANIC"}
		}
	}()
	if len(in) == 0 {
		return []string{"|", "BADCASE"}
	}
	switch in[0] {
	case "F":
		return runForced(in)
	case "S":
		return runStress(in)
	case "W":
		return runWG(in)
	}
	return []string{"|", "BADCASE"}
}

// generation ----------------------------------------------------------------

func perms(n int) [][]int {
	if n <= 1 {
		return [][]int{{0}}[:n]
	}
	var res [][]int
	var rec func(cur []int, used []bool)
	rec = func(cur []int, used []bool) {
		if len(cur) == n {
			res = append(res, append([]int{}, cur...))
			return
		}
		for i := 0; i < n; i++ {
			if !used[i] {
				used[i] = true
				rec(append(cur, i), used)
				used[i] = false
			}
		}
	}
	rec(nil, make([]bool, n))
	return res
}

func isParked(p string) bool {
	return p == "reqmod" || p == "rt" || p == "resmod" || p == "write" || p == "tun"
}

func orderTok(o []int) string {
	s := make([]string, len(o))
	for i, v := range o {
		s[i] = strconv.Itoa(v)
	}
	return "R:" + strings.Join(s, ",")
}

func main() {
	mlog.SetLevel(mlog.Silent)
	cfg := hx.ParseFlags()
	if strings.HasPrefix(cfg.Extra, "wgstress:") {
		f := strings.Split(cfg.Extra, ":")
		sd, _ := strconv.ParseUint(f[1], 10, 64)
		ms, _ := strconv.Atoi(f[2])
		nl, _ := strconv.Atoi(f[3])
		if nl < 1 || nl > 32 {
			nl = 8
		}
		wgStressChild(sd, time.Duration(ms)*time.Millisecond, nl)
		return
	}
	defer cfg.Close()

	type job struct {
		name string
		in   []string
	}
	var jobs []job
	pre, replayOnly := cfg.Inputs()
	for _, c := range pre {
		jobs = append(jobs, job{c.Name, c.In})
	}
	if !replayOnly {
		rng := hx.NewRNG(cfg.Seed)
		n := 0
		addF := func(pts []string, warm []int, order []int, sz int) {
			n++
			in := []string{"F", fmt.Sprintf("sz:%d", sz)}
			np := 0
			for i, p := range pts {
				in = append(in, fmt.Sprintf("%s.%d", p, warm[i]))
				if isParked(p) {
					np++
				}
				cfg.Count("point=" + p)
			}
			if np > 1 {
				in = append(in, orderTok(order))
			}
			if n%2 == 0 {
				// closing a connection takes time: Close must still wait for it
				in = append(in, "sc:40")
				cfg.Count("slowclose")
			}
			cfg.Count(fmt.Sprintf("conns=%d", len(pts)))
			jobs = append(jobs, job{fmt.Sprintf("f%d", n), in})
		}
		sizes := []int{0, 1, 100, 4095, 4096, 4097, 9000}
		pickSz := func(r *hx.RNG) int { return sizes[r.Intn(len(sizes))] }
		// one connection: every point, with and without a previous exchange
		for _, p := range points {
			for w := 0; w <= 1; w++ {
				addF([]string{p}, []int{w}, nil, pickSz(rng))
			}
		}
		addF([]string{"late"}, []int{0}, nil, 100)
		addF([]string{"reqmod", "late", "late"}, []int{0, 0, 0}, nil, 100)
		// two connections: every pair of points, every release order
		for _, p0 := range points {
			for _, p1 := range points {
				np := 0
				if isParked(p0) {
					np++
				}
				if isParked(p1) {
					np++
				}
				ords := [][]int{{0, 1}}
				if np == 2 {
					ords = append(ords, []int{1, 0})
				}
				for _, o := range ords {
					addF([]string{p0, p1}, []int{rng.Intn(2), rng.Intn(2)}, o, pickSz(rng))
				}
			}
		}
		// three connections: every triple in thorough (all release orders), a sample in quick
		var triples [][]string
		for _, p0 := range points {
			for _, p1 := range points {
				for _, p2 := range points {
					triples = append(triples, []string{p0, p1, p2})
				}
			}
		}
		if cfg.Thorough() {
			for _, t := range triples {
				np := 0
				for _, p := range t {
					if isParked(p) {
						np++
					}
				}
				for _, o := range perms(np) {
					addF(t, []int{rng.Intn(2), rng.Intn(2), rng.Intn(2)}, o, pickSz(rng))
				}
				if np == 0 {
					addF(t, []int{rng.Intn(2), rng.Intn(2), rng.Intn(2)}, nil, pickSz(rng))
				}
			}
		} else {
			for i := 0; i < 48; i++ {
				t := triples[rng.Intn(len(triples))]
				np := 0
				for _, p := range t {
					if isParked(p) {
						np++
					}
				}
				var o []int
				if ps := perms(np); len(ps) > 0 {
					o = ps[rng.Intn(len(ps))]
				}
				addF(t, []int{rng.Intn(2), rng.Intn(2), rng.Intn(2)}, o, pickSz(rng))
			}
		}
		// with a late connection and with the accept/register window held open
		nl := 12
		if cfg.Thorough() {
			nl = 80
		}
		for i := 0; i < nl; i++ {
			k := rng.Range(1, 2)
			var pts []string
			var warm []int
			np := 0
			for j := 0; j < k; j++ {
				p := points[rng.Intn(len(points))]
				pts = append(pts, p)
				warm = append(warm, rng.Intn(2))
				if isParked(p) {
					np++
				}
			}
			if i%3 == 2 {
				pts = append(pts, "unreg")
			} else {
				pts = append(pts, "late")
			}
			warm = append(warm, 0)
			var o []int
			if ps := perms(np); len(ps) > 0 {
				o = ps[rng.Intn(len(ps))]
			}
			addF(pts, warm, o, pickSz(rng))
		}
		// pipelined second request behind the parked one; simultaneous release
		np2 := 16
		if cfg.Thorough() {
			np2 = 120
		}
		parkedPts := []string{"reqmod", "rt", "resmod", "write"}
		for i := 0; i < np2; i++ {
			k := rng.Range(1, 3)
			in := []string{"F", fmt.Sprintf("sz:%d", pickSz(rng))}
			np := 0
			for j := 0; j < k; j++ {
				var p string
				if j == 0 || rng.Chance(2, 3) {
					p = parkedPts[rng.Intn(4)]
					np++
				} else {
					p = points[rng.Intn(2)]
				}
				tok := fmt.Sprintf("%s.%d", p, rng.Intn(2))
				if isParked(p) && rng.Chance(1, 2) {
					tok += "p"
					cfg.Count("pipelined")
				}
				cfg.Count("point=" + p)
				in = append(in, tok)
			}
			if ps := perms(np); len(ps) > 1 {
				in = append(in, orderTok(ps[rng.Intn(len(ps))]))
			}
			if rng.Chance(1, 2) {
				in = append(in, "async")
				cfg.Count("async")
			}
			if rng.Chance(1, 2) {
				in = append(in, "sc:40")
				cfg.Count("slowclose")
			}
			cfg.Count(fmt.Sprintf("conns=%d", k))
			n++
			jobs = append(jobs, job{fmt.Sprintf("f%d", n), in})
		}
		// every form of "mid request head": fresh, after a keep-alive exchange, coalesced behind a
		// complete request (finished or still parked); the client then stays silent, closes, or
		// completes the head after Close returned
		nh := 30
		if cfg.Thorough() {
			nh = 200
		}
		for i := 0; i < nh; i++ {
			k := rng.Range(1, 3)
			in := []string{"F", fmt.Sprintf("sz:%d", pickSz(rng))}
			np := 0
			for j := 0; j < k; j++ {
				var tok string
				switch c := rng.Intn(10); {
				case j > 0 && c < 2:
					p := points[rng.Intn(len(points))]
					tok = fmt.Sprintf("%s.%d", p, rng.Intn(2))
					if isParked(p) {
						np++
					}
				case c < 6:
					tok = fmt.Sprintf("headc.%d%s", rng.Intn(2), []string{"", "", "c", "f"}[rng.Intn(4)])
					cfg.Count("point=headc")
				case c < 8:
					tok = fmt.Sprintf("head.%d%s", rng.Intn(2), []string{"c", "f"}[rng.Intn(2)])
					cfg.Count("point=head")
				default:
					p := parkedPts[rng.Intn(4)]
					if rng.Chance(1, 2) {
						p = "write"
					}
					tok = fmt.Sprintf("%s.%dh", p, rng.Intn(2))
					cfg.Count("coalesced-half-head")
					np++
				}
				in = append(in, tok)
			}
			if ps := perms(np); len(ps) > 1 {
				in = append(in, orderTok(ps[rng.Intn(len(ps))]))
			}
			if rng.Chance(1, 3) {
				in = append(in, "sc:40")
			}
			cfg.Count(fmt.Sprintf("conns=%d", k))
			n++
			jobs = append(jobs, job{fmt.Sprintf("f%d", n), in})
		}
		// outcomes of the parked exchange's steps: every point x every outcome the code distinguishes
		for _, pt := range []string{"reqmod", "rt", "resmod"} {
			for _, oc := range []string{"q", "k", "x", "y", "z", "r", "qx", "yr", "kr", "qzr"} {
				w := rng.Intn(2)
				in := []string{"F", fmt.Sprintf("sz:%d", pickSz(rng)), fmt.Sprintf("%s.%d/%s", pt, w, oc)}
				if rng.Chance(1, 3) {
					in = append(in, "sc:40")
				}
				cfg.Count("outcome=" + oc)
				cfg.Count("point=" + pt)
				n++
				jobs = append(jobs, job{fmt.Sprintf("f%d", n), in})
			}
		}
		for _, pt := range []string{"reqmod", "rt"} {
			for _, oc := range []string{"u", "v", "uq", "vr"} {
				for w := 0; w <= 1; w++ {
					in := []string{"F", fmt.Sprintf("sz:%d", pickSz(rng)), fmt.Sprintf("%s.%d/%s", pt, w, oc)}
					if rng.Chance(1, 3) {
						in = append(in, "sc:40")
					}
					cfg.Count("outcome=" + oc)
					cfg.Count("point=" + pt)
					n++
					jobs = append(jobs, job{fmt.Sprintf("f%d", n), in})
				}
			}
		}
		// state of the upstream connection pool when shutdown lands: cold / warm-idle (single connection,
		// 0 / 1 warm-ups), warm-but-busy (several connections to one origin released together), two origins
		for _, pt := range []string{"reqmod", "rt", "resmod", "write"} {
			for w := 0; w <= 1; w++ {
				n++
				cfg.Count("pool=single")
				cfg.Count("point=" + pt)
				jobs = append(jobs, job{fmt.Sprintf("f%d", n), []string{"F", fmt.Sprintf("sz:%d", pickSz(rng)), fmt.Sprintf("%s.%d/a", pt, w)}})
			}
		}
		for _, in := range [][]string{
			{"reqmod.1/a", "reqmod.0/a", "async"},
			{"reqmod.1/a", "reqmod.0/a", "R:1,0"},
			{"reqmod.0/a", "reqmod.0/a", "reqmod.1/a", "async"},
			{"rt.0/a", "reqmod.1/a", "async"},
			{"reqmod.0/a", "reqmod.0/b"},
			{"reqmod.1/a", "rt.0/b", "resmod.1/a", "async"},
			{"reqmod.1/au", "reqmod.0/aq", "async"},
			{"write.1/a", "reqmod.0/a", "R:1,0"},
		} {
			n++
			cfg.Count("pool=multi")
			jobs = append(jobs, job{fmt.Sprintf("f%d", n), append([]string{"F", fmt.Sprintf("sz:%d", pickSz(rng))}, in...)})
		}
		npool := 16
		if cfg.Thorough() {
			npool = 150
		}
		for i := 0; i < npool; i++ {
			k := rng.Range(2, 3)
			in := []string{"F", fmt.Sprintf("sz:%d", pickSz(rng))}
			np := 0
			for j := 0; j < k; j++ {
				pt := []string{"reqmod", "reqmod", "rt", "resmod", "write"}[rng.Intn(5)]
				oc := []string{"a", "a", "a", "b"}[rng.Intn(4)]
				if pt != "write" && rng.Chance(1, 4) {
					oc += []string{"q", "r", "u", "v", "x"}[rng.Intn(5)]
				}
				in = append(in, fmt.Sprintf("%s.%d/%s", pt, rng.Intn(2), oc))
				np++
			}
			if ps := perms(np); len(ps) > 1 {
				in = append(in, orderTok(ps[rng.Intn(len(ps))]))
			}
			if rng.Chance(2, 3) {
				in = append(in, "async")
			}
			if rng.Chance(1, 4) {
				in = append(in, "sc:40")
			}
			cfg.Count("pool=mix")
			n++
			jobs = append(jobs, job{fmt.Sprintf("f%d", n), in})
		}
		// several connections arriving after shutdown began, on one and on several listeners of the same proxy
		for _, in := range [][]string{
			{"late", "lateb"}, {"late", "lateb", "latec", "lated"}, {"late", "late", "lateb"},
			{"reqmod.0", "late", "lateb"}, {"idle.1", "late", "lateb", "latec"}, {"write.1", "lateb", "late"},
			{"resmod.0/a", "late", "lateb", "latec", "lated"}, {"head.1", "rt.0", "lateb", "late"},
		} {
			n++
			cfg.Count("late-multi")
			jobs = append(jobs, job{fmt.Sprintf("f%d", n), append([]string{"F", "sz:100"}, in...)})
		}
		// a tunnel that is half-closed when Close is called, the other direction still streaming
		for _, in := range [][]string{
			{"tun.0/s"}, {"tun.1/s"}, {"tun.0/w"}, {"tun.1/w"}, {"tun.0/s", "sc:40"},
			{"tun.0/s", "reqmod.1", "R:1,0"}, {"tun.1/w", "idle.0", "late"}, {"tun.0/s", "tun.0/w", "async"},
		} {
			n++
			cfg.Count("tunnel-half-closed")
			jobs = append(jobs, job{fmt.Sprintf("f%d", n), append([]string{"F", "sz:100"}, in...)})
		}
		// further dials after the first late connection (Serve has returned): refused or closed, never left hanging
		for _, in := range [][]string{
			{"late", "late", "late"}, {"idle.1", "late", "late", "late"}, {"reqmod.0", "late", "late"}, {"late", "lateb", "late", "lateb"},
		} {
			n++
			cfg.Count("late-after-serve-returned")
			jobs = append(jobs, job{fmt.Sprintf("f%d", n), append([]string{"F", "sz:100"}, in...)})
		}
		// the in-flight exchange is a CONNECT: blind tunnel, through a downstream proxy, with MITM
		for _, ck := range []string{"t", "d", "m"} {
			for _, pt := range []string{"reqmod", "rt", "resmod"} {
				if ck == "m" && pt == "rt" {
					continue
				}
				for w := 0; w <= 1; w++ {
					in := []string{"F", "sz:100", fmt.Sprintf("%s.%d/%s", pt, w, ck)}
					if rng.Chance(1, 4) {
						in = append(in, "sc:40")
					}
					n++
					cfg.Count("connect=" + ck)
					cfg.Count("point=" + pt)
					jobs = append(jobs, job{fmt.Sprintf("f%d", n), in})
				}
			}
		}
		for _, in := range [][]string{
			{"rt.0/tx"}, {"reqmod.1/tx"}, {"rt.1/dx"}, {"reqmod.0/tq"}, {"resmod.1/tr"}, {"reqmod.0/mq"}, {"resmod.0/mr"},
			{"reqmod.0/t", "rt.1/t", "R:1,0"}, {"reqmod.1/t", "reqmod.0", "resmod.0/t", "async"},
			{"rt.0/t", "write.1", "late"}, {"reqmod.0/m", "reqmod.1/m", "async"}, {"reqmod.0/d", "idle.1", "head.0"},
		} {
			n++
			cfg.Count("connect-mix")
			jobs = append(jobs, job{fmt.Sprintf("f%d", n), append([]string{"F", "sz:100"}, in...)})
		}
		// client protocol version and connection preference at every placement of the shutdown
		for _, pt := range []string{"reqmod", "rt", "resmod"} {
			for _, oc := range []string{"n", "o", "e"} {
				for w := 0; w <= 1; w++ {
					tok := fmt.Sprintf("%s.%d/%s", pt, w, oc)
					if rng.Chance(1, 3) {
						tok += "a"
					}
					in := []string{"F", fmt.Sprintf("sz:%d", pickSz(rng)), tok}
					if rng.Chance(1, 4) {
						in = append(in, "sc:40")
					}
					cfg.Count("client=" + oc)
					cfg.Count("point=" + pt)
					n++
					jobs = append(jobs, job{fmt.Sprintf("f%d", n), in})
				}
			}
		}
		for _, tok := range []string{"write.0/e", "write.1/e", "resmod.1/ex", "rt.0/oz", "reqmod.1/nq", "reqmod.0/ek"} {
			n++
			cfg.Count("client=" + tok[len(tok)-2:len(tok)-1])
			jobs = append(jobs, job{fmt.Sprintf("f%d", n), []string{"F", "sz:100", tok}})
		}
		for _, oc := range []string{"g", "q", "r", "qr", "gq"} {
			for w := 0; w <= 1; w++ {
				n++
				cfg.Count("outcome=" + oc)
				cfg.Count("point=write")
				jobs = append(jobs, job{fmt.Sprintf("f%d", n), []string{"F", "sz:100", fmt.Sprintf("write.%d/%s", w, oc)}})
			}
		}
		no := 20
		if cfg.Thorough() {
			no = 250
		}
		ocs := []string{"q", "k", "x", "y", "z", "r", "qx", "yr", "kr", "xr", "qy", "u", "v", "u", "v", "n", "o", "e", "e", "oa", "ea"}
		for i := 0; i < no; i++ {
			k := rng.Range(2, 3)
			in := []string{"F", fmt.Sprintf("sz:%d", pickSz(rng))}
			np := 0
			for j := 0; j < k; j++ {
				p := points[rng.Intn(len(points))]
				tok := fmt.Sprintf("%s.%d", p, rng.Intn(2))
				if isParked(p) {
					np++
					if p == "write" {
						if rng.Chance(1, 3) {
							tok += "/g"
						}
					} else if rng.Chance(3, 4) {
						tok += "/" + ocs[rng.Intn(len(ocs))]
					}
				}
				in = append(in, tok)
			}
			if ps := perms(np); len(ps) > 1 {
				in = append(in, orderTok(ps[rng.Intn(len(ps))]))
			}
			if rng.Chance(1, 3) {
				in = append(in, "async")
			}
			if rng.Chance(1, 3) {
				in = append(in, "sc:40")
			}
			cfg.Count("outcome-mix")
			n++
			jobs = append(jobs, job{fmt.Sprintf("f%d", n), in})
		}
		// unforced stress
		ns := 40
		if cfg.Thorough() {
			ns = 400
		}
		if v := os.Getenv("VERIF_C07_STRESS"); v != "" {
			ns, _ = strconv.Atoi(v)
		}
		for i := 0; i < ns; i++ {
			in := []string{"S", fmt.Sprintf("n:%d", rng.Range(1, 5)), fmt.Sprintf("sd:%d", rng.Uint64()%1000000)}
			if i%2 == 1 {
				in = append(in, "slow")
			}
			if i%3 == 0 {
				in = append(in, "sc:25")
			}
			if i%4 == 2 {
				in = append(in, "org")
			}
			if i%5 == 3 {
				// a burst on two listeners served by the same proxy
				in[1] = "n:8"
				in = append(in, "ls:2")
			}
			cfg.Count("kind=stress")
			jobs = append(jobs, job{fmt.Sprintf("s%d", i+1), in})
		}
	}

	if !replayOnly {
		// WaitGroup-misuse search in child processes (Close racing accepts on in-memory listeners)
		rngw := hx.NewRNG(cfg.Seed ^ 0x5757)
		nw, ms := 3, 1500
		if cfg.Thorough() {
			nw, ms = 8, 4000
		}
		for i := 0; i < nw; i++ {
			nl := []int{8, 4, 12}[i%3]
			jobs = append(jobs, job{fmt.Sprintf("w%d", i+1),
				[]string{"W", fmt.Sprintf("sd:%d", rngw.Uint64()%1000000), fmt.Sprintf("ms:%d", ms), fmt.Sprintf("nl:%d", nl)}})
			cfg.Count("kind=wgstress")
		}
	}

	// run in parallel, emit in order
	outs := make([][]string, len(jobs))
	workers := 12
	if v := os.Getenv("VERIF_C07_WORKERS"); v != "" {
		workers, _ = strconv.Atoi(v)
	}
	var next int64 = -1
	var wg sync.WaitGroup
	for w := 0; w < workers; w++ {
		wg.Add(1)
		go func() {
			defer wg.Done()
			for {
				i := int(atomic.AddInt64(&next, 1))
				if i >= len(jobs) {
					return
				}
				t0 := time.Now()
				o := runCase(jobs[i].in)
				if d := time.Since(t0); d > 2*time.Second && os.Getenv("VERIF_C07_TIMING") != "" {
					fmt.Fprintf(os.Stderr, "slow case %s %v: %v\n", jobs[i].name, d, jobs[i].in)
				}
				// an environmental failure (port exhaustion, ...) is retried once
				if len(o) > 0 && o[0] == "ENVFAIL" {
					time.Sleep(50 * time.Millisecond)
					o = runCase(jobs[i].in)
				}
				outs[i] = o
			}
		}()
	}
	wg.Wait()
	for i, j := range jobs {
		cfg.Emit(hx.Case{Name: j.name, In: j.in, Out: outs[i]})
	}
}
