package main

import (
	"fmt"
	"strings"

	"verifharness/hx"
)

// Session states (script prefixes).  n = number of DATA frames held behind a
// zero stream window.
func stateScript(st string, n int) []string {
	switch st {
	case "idle":
		return []string{"hs:65535:65535"}
	case "mid":
		return []string{"hs:65535:65535", "ch:1", "cd:1:2:100", "sh:1", "sd:1:1:50"}
	case "blkC", "fullC": // client->server DATA blocked: the server advertised a zero initial window
		return []string{"hs:65535:0", "ch:1", fmt.Sprintf("cd:1:%d:1", n)}
	case "blkS", "fullS": // server->client DATA blocked: the client advertised a zero initial window
		return []string{"hs:0:65535", "ch:1", "sh:1", fmt.Sprintf("sd:1:%d:1", n)}
	case "pre": // before the preface
		return nil
	}
	return nil
}

// Ways to end the session; each is a list of script ops.
var events = map[string][]string{
	"CC":   {"CC"},
	"SC":   {"SC"},
	"SR":   {"SR"},
	"CE1":  {"CE1"},
	"CE2":  {"CE2"},
	"CE3":  {"CE3"},
	"SE1":  {"SE1"},
	"SE2":  {"SE2"},
	"SE3":  {"SE3"},
	"CL":   {"CL"},
	"WFCd": {"WFC", "sp"},   // a direct write (PING) toward the client fails
	"WFCw": {"WFC", "sh:5"}, // a queued frame's write toward the client fails (writer goroutine -> writerErr)
	"SRw":  {"SR", "cp"},    // reset upstream, then a write toward it
	"WFCc":  {"WFC", "cd:1:1:100"}, // the FIRST failing write is the credit WINDOW_UPDATE answering a client DATA frame
	"WFCwd": {"WFC", "sd:1:1:10"},  // ... a queued DATA frame written by the writer goroutine
	"WFCst": {"WFC", "sst"},        // ... a forwarded SETTINGS
	"WFCga": {"WFC", "sga"},        // ... a forwarded GOAWAY
	"RFC":   {"RFC"},               // reads from the client fail, writes toward it keep working
	"CCSC": {"CC", "SC"},
	"SCCC": {"SC", "CC"},
}

var eventOrder = []string{"CC", "SC", "SR", "CE1", "CE2", "CE3", "SE1", "SE2", "SE3", "CL", "WFCd", "WFCw", "WFCc", "WFCwd", "WFCst", "WFCga", "RFC", "SRw", "CCSC", "SCCC"}

func mk(name string, parts ...[]string) hx.Case {
	var in []string
	for _, p := range parts {
		in = append(in, p...)
	}
	return hx.Case{Name: name, In: in}
}

func generate(cfg *hx.Config) []hx.Case {
	rng := hx.NewRNG(cfg.Seed)
	var out []hx.Case
	add := func(c hx.Case, st, ev string) {
		out = append(out, c)
		cfg.Count("state=" + st)
		cfg.Count("event=" + ev)
	}
	// 1. every event in every session state
	for _, st := range []string{"idle", "mid", "blkC", "blkS", "fullC", "fullS"} {
		n := 5
		if strings.HasPrefix(st, "full") {
			n = 20
		}
		for _, ev := range eventOrder {
			if !cfg.Thorough() && (ev == "CE2" || ev == "SE2" || ev == "SCCC" || ev == "WFCst" || ev == "WFCga" || ev == "RFC") && st != "idle" && st != "mid" {
				continue // quick: the ReadFrame-error variants only in the idle state
			}
			add(mk("e-"+st+"-"+ev, stateScript(st, n), events[ev]), st, ev)
		}
	}
	// 2. before / at the preface
	add(mk("p-badpre", []string{"badpre"}), "pre", "badpre")
	add(mk("p-CC", []string{"CC"}), "pre", "CC")
	add(mk("p-CL", []string{"hs:65535:65535", "CL"}), "pre", "CL")
	// 3. one side ends, then the other side releases the frames queued toward the side that ended
	//    (the peer's reader pushes into an output channel that nobody drains any more)
	for _, n := range []int{15, 16, 17, 40} {
		add(mk(fmt.Sprintf("q-fullC%d-CC-sw", n), stateScript("fullC", n), []string{"CC", "sw:1:100000"}), "fullC", "CC,sw")
		add(mk(fmt.Sprintf("q-fullC%d-CE1-sw-SC", n), stateScript("fullC", n), []string{"CE1", "sw:1:100000", "SC", "CC"}), "fullC", "CE1,sw,SC,CC")
		add(mk(fmt.Sprintf("q-fullS%d-SC-cw", n), stateScript("fullS", n), []string{"SC", "cw:1:100000"}), "fullS", "SC,cw")
		add(mk(fmt.Sprintf("q-fullS%d-SE1-cw-CC", n), stateScript("fullS", n), []string{"SE1", "cw:1:100000", "CC", "SC"}), "fullS", "SE1,cw,CC,SC")
	}
	// 4. races: the release is in progress while the other side ends / the proxy shuts down
	bigs := []int{600, 1500, 3000}
	if cfg.Thorough() {
		bigs = []int{300, 600, 1000, 1500, 2200, 3000, 4500, 6000}
	}
	for _, big := range bigs {
		add(mk(fmt.Sprintf("x-fullC%d-sw+CC", big), stateScript("fullC", big), []string{"sw:1:100000+CC"}), "fullC", "sw+CC")
		add(mk(fmt.Sprintf("x-fullS%d-cw+SC", big), stateScript("fullS", big), []string{"cw:1:100000+SC"}), "fullS", "cw+SC")
		add(mk(fmt.Sprintf("x-fullC%d-sw+CL", big), stateScript("fullC", big), []string{"sw:1:100000+CL"}), "fullC", "sw+CL")
		add(mk(fmt.Sprintf("x-fullC%d-sw+CE1", big), stateScript("fullC", big), []string{"sw:1:100000+CE1"}), "fullC", "sw+CE1")
		add(mk(fmt.Sprintf("x-fullS%d-cw+SE1", big), stateScript("fullS", big), []string{"cw:1:100000+SE1"}), "fullS", "cw+SE1")
	}
	// 4b. a write toward a peer that has stopped reading is blocked inside the writer goroutine;
	//     the session ends by another route; only then does the blocked write fail
	stalledC := []string{"hs:65535:65535", "ch:1", "sh:1", "STC", "sh:3"} // server HEADERS stuck in Write toward the client
	for _, ev := range []string{"HC", "CC", "CE1", "SC", "SE1", "CL", "SR"} {
		add(mk("b-stallC-"+ev+"-WFC", stalledC, []string{ev, "WFC"}), "stalledC", ev+",WFC")
	}
	add(mk("b-stallC-WFC", stalledC, []string{"WFC"}), "stalledC", "WFC")
	// upstream stalled: bulk DATA until the proxy's socket buffer is full
	stalledS := []string{"hs:65535:2147483647", "sw:0:2147418112", "ch:1", "STS", "cd:1:700:16384"}
	sevs := []string{"FH", "CC", "CL"}
	if cfg.Thorough() {
		sevs = []string{"FH", "SC", "CC", "CE1", "CL"}
	}
	for _, ev := range sevs {
		add(mk("b-stallS-"+ev+"-FR", stalledS, []string{ev, "FR"}), "stalledS", ev+",FR")
	}
	add(mk("b-stallS-FR", stalledS, []string{"FR"}), "stalledS", "FR")
	// 4c. the reader's own writes under destMu (credit WINDOW_UPDATEs, forwarded PING/SETTINGS) block or
	//     fail while the opposite direction has something to write to the same destination
	up := []string{"hs:65535:65535", "ch:1", "sh:1"}
	for _, need := range []string{"sh:3", "sp", "sd:1:2:10", "sr:1:3"} { // what the server->client direction writes to the client afterwards
		n := strings.ReplaceAll(need, ":", "_")
		// credit for a client DATA frame is stuck in Write toward the client, then fails
		add(mk("d-creditC-"+n+"-WFC", up, []string{"STC", "cd:1:1:100", need, "WFC"}), "creditC-stalled", need+",WFC")
		// ... and the session is shut down / the client goes away on top
		add(mk("d-creditC-"+n+"-WFC-CL-CC", up, []string{"STC", "cd:1:1:100", need, "WFC", "CL", "CC"}), "creditC-stalled", need+",WFC,CL,CC")
		// the credit write fails at once while the server's frame is in flight
		add(mk("d-creditC-fail-"+n, up, []string{"WFC", "cd:1:1:100+" + need}), "creditC-failing", need)
	}
	// a forwarded PING is stuck toward the client while a credit write and a queued frame wait behind it
	add(mk("d-pingC-stuck", up, []string{"STC", "sp", "cd:1:1:100", "sh:3", "WFC"}), "pingC-stalled", "cd,sh,WFC")
	add(mk("d-pingC-stuck-CC", up, []string{"STC", "sp", "sh:3", "CC", "WFC"}), "pingC-stalled", "sh,CC,WFC")
	// upstream as destination: the credit for a server DATA frame fails on a reset connection while the
	// client->server direction still has frames / a PING to write upstream
	for _, need := range []string{"cr:1:40", "cp", "cd:1:5:10"} {
		n := strings.ReplaceAll(need, ":", "_")
		add(mk("d-creditS-reset-"+n, up, []string{"sd:1:1:100+SR+" + need}), "creditS-reset", need)
	}
	stalledUp := []string{"hs:65535:2147483647", "sw:0:2147418112", "ch:1", "sh:1", "STS", "cd:1:700:16384"}
	add(mk("d-creditS-stalled-FR", stalledUp, []string{"sd:1:1:100", "FR"}), "creditS-stalled", "sd,FR")
	add(mk("d-creditS-stalled-FH-FR", stalledUp, []string{"sd:1:1:100", "FH", "FR"}), "creditS-stalled", "sd,FH,FR")
	// 4d. protocol errors raised by a stream processor: a scripted factory failing the n-th
	//     Header / Data / RSTStream / PushPromise call of one direction, and the real gRPC adapter
	//     given a message flagged compressed that is not gzip
	type pf struct{ name, conf string; traffic []string }
	pfs := []pf{
		{"cH1", "PF:c:H:1", []string{"ch:1"}},
		{"cH2", "PF:c:H:2", []string{"ch:1", "sh:1", "ch:3"}},
		{"cD1", "PF:c:D:1", []string{"ch:1", "cd:1:1:100"}},
		{"cD3", "PF:c:D:3", []string{"ch:1", "sh:1", "cd:1:2:50", "sd:1:1:20", "cd:1:1:50"}},
		{"cD1empty", "PF:c:D:1", []string{"ch:1", "cd:1:1:0"}}, // empty DATA: no credit write precedes the processor
		{"cR1", "PF:c:R:1", []string{"ch:1", "cr:1:1"}},
		{"sH1", "PF:s:H:1", []string{"ch:1", "sh:1"}},
		{"sD1", "PF:s:D:1", []string{"ch:1", "sh:1", "sd:1:1:100"}},
		{"sD2", "PF:s:D:2", []string{"ch:1", "sh:1", "sd:1:1:100", "cd:1:1:10", "sd:1:1:100"}},
		{"sR1", "PF:s:R:1", []string{"ch:1", "sh:1", "sr:1:1"}},
		{"sP1", "PF:s:P:1", []string{"ch:1", "sh:1", "spp:1:2"}},
	}
	for _, p := range pfs {
		add(mk("f-"+p.name, []string{p.conf, "hs:65535:65535"}, p.traffic), "processor", p.conf)
	}
	// the processor error while DATA is blocked behind a zero window / with the other side stalled
	add(mk("f-cD1-blkC", []string{"PF:c:D:6", "hs:65535:0", "ch:1", "cd:1:5:1", "cd:1:1:9"}), "processor", "PF:c:D:6,blkC")
	add(mk("f-sD1-stallC", []string{"PF:s:D:1", "hs:65535:65535", "ch:1", "sh:1", "STC", "sh:3", "sd:1:1:100", "WFC"}), "processor", "PF:s:D:1,stalledC")
	// a factory that never fails must change nothing (control with an ending event)
	add(mk("f-none-CC", []string{"PF:c:D:99", "hs:65535:65535", "ch:1", "cd:1:2:10", "sh:1", "sd:1:1:10", "CC"}), "processor", "never")
	add(mk("f-grpc-c-bad", []string{"GRPC", "hs:65535:65535", "chg:1", "cdok:1", "cdbad:1"}), "grpc", "cdbad")
	add(mk("f-grpc-s-bad", []string{"GRPC", "hs:65535:65535", "chg:1", "cdok:1", "shg:1", "sdok:1", "sdbad:1"}), "grpc", "sdbad")
	add(mk("f-grpc-ok-SC", []string{"GRPC", "hs:65535:65535", "chg:1", "cdok:1", "shg:1", "sdok:1", "SC"}), "grpc", "SC")
	// 4e. protocol errors x the carrier / position of the offending bytes, from each side, endpoints idle afterwards
	for _, sd := range []string{"c", "s"} {
		pre := []string{"hs:65535:65535"}
		if sd == "s" {
			pre = append(pre, "ch:1")
		}
		for mode := 1; mode <= 5; mode++ {
			add(mk(fmt.Sprintf("h-%shb-m%d", sd, mode), pre, []string{fmt.Sprintf("%shb:1:%d", sd, mode)}), "idle", "bad-hpack-headers")
			// as trailers, mid-stream
			add(mk(fmt.Sprintf("h-%shb-trailers-m%d", sd, mode), stateScript("mid", 0), []string{fmt.Sprintf("%shb:1:%d:t", sd, mode)}), "mid", "bad-hpack-trailers")
		}
		for mode := 1; mode <= 3; mode++ {
			add(mk(fmt.Sprintf("h-%spb-m%d", sd, mode), stateScript("mid", 0), []string{fmt.Sprintf("%spb:1:2:%d", sd, mode)}), "mid", "bad-hpack-push-promise")
		}
		// a continued block with DATA queued behind a zero window in the same direction
		st := map[string]string{"c": "blkC", "s": "blkS"}[sd]
		add(mk(fmt.Sprintf("h-%shb-m3-%s", sd, st), stateScript(st, 5), []string{fmt.Sprintf("%shb:1:3:t", sd)}), st, "bad-hpack-trailers")
		up := strings.ToUpper(sd)
		for i := 1; i <= 3; i++ {
			add(mk(fmt.Sprintf("h-%sQ%d", up, i), stateScript("mid", 0), []string{fmt.Sprintf("%sQ%d", up, i)}), "mid", "bad-frame-sequence")
		}
		for i := 1; i <= 5; i++ {
			add(mk(fmt.Sprintf("h-%sW%d", up, i), stateScript("mid", 0), []string{fmt.Sprintf("%sW%d", up, i)}), "mid", "wrong-stream-or-size")
		}
	}
	// 4e'. SETTINGS_MAX_FRAME_SIZE outside [16384, 2^24-1] (RFC 7540 6.5.2: connection error). Value 0 used to
	//      make relay.data() split for ever; 1..4 wrapped the header fragment length.
	for _, sd := range []string{"c", "s"} {
		for _, v := range []string{"0", "1", "16383", "16777216", "4294967295"} {
			for _, pos := range []string{"a", "l"} {
				add(mk(fmt.Sprintf("h-%smf%s%s", sd, v, pos), stateScript("mid", 0), []string{fmt.Sprintf("%smf:%s:%s", sd, v, pos)}), "mid", "bad-max-frame-size")
			}
		}
		st := map[string]string{"c": "blkC", "s": "blkS"}[sd]
		ot := map[string]string{"c": "blkS", "s": "blkC"}[sd]
		for _, v := range []string{"0", "16383"} {
			add(mk(fmt.Sprintf("h-%smf%s-%s", sd, v, st), stateScript(st, 5), []string{fmt.Sprintf("%smf:%s:a", sd, v)}), st, "bad-max-frame-size")
			add(mk(fmt.Sprintf("h-%smf%s-%s", sd, v, ot), stateScript(ot, 5), []string{fmt.Sprintf("%smf:%s:l", sd, v)}), ot, "bad-max-frame-size")
		}
		// legal boundary values are forwarded and change nothing for termination
		add(mk(fmt.Sprintf("h-%smf-legal", sd), stateScript("mid", 0), []string{fmt.Sprintf("%smf:16384:a", sd), fmt.Sprintf("%smf:16777215:l", sd), "cd:1:1:10", "sd:1:1:10", "SC"}), "mid", "legal-max-frame-size,SC")
	}
	// 4f. a write toward the client fails while ONE processFrame call of the server->client reader is emitting more
	//     frames than its output channel holds (a DATA frame larger than 16 x 16384 is split by relay.data): the
	//     writer must keep draining or the reader stays in emitEligibleFrames with nobody to release it
	wide := []string{"hs:2147483647:65535", "cw:0:2147418112", "ch:1", "sh:1"}
	for _, sz := range []int{262144, 278529, 300000, 1000000} { // 16 frames (fits), 18, 19, 62
		add(mk(fmt.Sprintf("g-burst%d-WFC", sz), wide, []string{"WFC", fmt.Sprintf("sd:1:1:%d", sz)}), "burst", "WFC,big-sd")
		add(mk(fmt.Sprintf("g-burst%d-STC-WFC", sz), wide, []string{"STC", fmt.Sprintf("sd:1:1:%d", sz), "WFC"}), "burst", "STC,big-sd,WFC")
	}
	add(mk("g-burst-ok-SC", wide, []string{"sd:1:1:300000", "SC"}), "burst", "big-sd,SC")
	add(mk("g-burstC-SR", []string{"hs:65535:2147483647", "sw:0:2147418112", "ch:1"}, []string{"cd:1:1:300000+SR"}), "burst", "big-cd+SR")
	// 4g. both directions end at the same instant (proxy shutdown of an idle session), many times
	nst := 6000
	if cfg.Thorough() {
		nst = 40000
	}
	add(hx.Case{Name: "s-shutdown-stress", In: []string{fmt.Sprintf("STRESS:%d:4", nst)}}, "idle", "shutdown x many")
	// 5. controls: nothing that ends the session has happened, the relay must stay up
	add(mk("c-idle", stateScript("idle", 0), []string{"cp", "sp"}), "idle", "none")
	add(mk("c-mid-armed", stateScript("mid", 0), []string{"WFC", "cp"}), "mid", "none(WFC armed, no write toward the client)")
	add(mk("c-fullC-release", stateScript("fullC", 20), []string{"sw:1:100000", "cp"}), "fullC", "none")

	// 6. random: state size, optional extra traffic, event, optional follow-up from the surviving side
	nrand := 24
	if cfg.Thorough() {
		nrand = 400
	}
	for i := 0; i < nrand; i++ {
		r := rng.Fork()
		sts := []string{"idle", "mid", "blkC", "blkS", "fullC", "fullS"}
		st := sts[r.Intn(len(sts))]
		n := r.Range(1, 14)
		if strings.HasPrefix(st, "full") {
			n = r.Range(15, 60)
		}
		script := stateScript(st, n)
		extra := []string{"cp", "sp", "cr:1:3", "sr:1:3", "ch:3", "sh:3", "cd:1:2:7", "sd:1:2:7", "cw:0:5", "sw:0:5"}
		for k := r.Intn(3); k > 0; k-- {
			script = append(script, extra[r.Intn(len(extra))])
		}
		ev := eventOrder[r.Intn(len(eventOrder))]
		script = append(script, events[ev]...)
		follow := [][]string{nil, {"sw:1:100000"}, {"cw:1:100000"}, {"sp"}, {"cp"}, {"CL"}, {"sw:1:100000", "SC"}, {"cw:1:100000", "CC"}}
		fu := follow[r.Intn(len(follow))]
		script = append(script, fu...)
		add(hx.Case{Name: fmt.Sprintf("r%d", i), In: script}, st, ev)
	}
	return out
}
