// c10 runs the real h2.Config.Proxy end to end and records how relay sessions end.
//
// One scenario = one child process (so that the goroutine dump is unambiguous
// and a wedged session cannot wedge the run).  The parent fans scenarios out
// over a worker pool and re-runs any scenario whose observation is not the
// "good" one with a longer timeout (filters environmental slowness only: a
// deterministic failure fails again).
//
// IN tokens (a script, executed left to right, the harness settles after each):
//
//	hs:<cwin>:<swin>   client preface+SETTINGS(INITIAL_WINDOW_SIZE=cwin), server SETTINGS(swin), acks
//	badpre             client sends 24 wrong bytes instead of the preface
//	ch:<sid> sh:<sid>  HEADERS (no END_STREAM) from client / server
//	cd:<sid>:<n>:<len> sd:...   n DATA frames of len bytes from client / server
//	cw:<sid>:<inc> sw:...       WINDOW_UPDATE from client / server
//	cp sp              PING from client / server (written directly by the reader goroutine)
//	cr:<sid>:<n> sr:<sid>:<n>   n RST_STREAM frames (zero flow-control size, go through the queue)
//	CC                 client closes its connection
//	SC                 server half-closes (TLS close_notify + FIN) and keeps reading
//	SR                 server resets the TCP connection (SO_LINGER 0)
//	WFC                writes toward the client start failing (reads still block); a blocked write fails
//	STC                the client stops reading: writes toward it block (until WFC / the caller's close)
//	HC                 the proxy's reads from the client report EOF (client FIN), nothing else changes
//	STS                the upstream stops reading (a TCP forwarder in front of the TLS server stops
//	                   forwarding): writes toward it block once the socket buffers are full
//	FH                 the forwarder half-closes toward the proxy (the proxy reads EOF from upstream)
//	FR                 the forwarder resets the proxy's connection (a blocked write fails)
//	chb/shb:<sid>:<mode>[:t]   HEADERS (t: trailers) carrying an invalid HPACK block; mode = carrier/position:
//	                   1 single frame, 2 bad first fragment + CONTINUATION, 3 good fragment + bad CONTINUATION,
//	                   4 invalid only once complete (truncated literal across the fragments), 5 three fragments
//	cpb/spb:<sid>:<pid>:<mode> the same carried by PUSH_PROMISE (+CONTINUATION)
//	CQ1-3 SQ1-3        bad frame sequences: CONTINUATION alone; DATA / another HEADERS inside a header block
//	CW1-5 SW1-5        frames on the wrong stream / malformed: DATA on 0, WINDOW_UPDATE +0, RST_STREAM on 0,
//	                   SETTINGS length 4, HEADERS on 0
//	cmf/smf:<val>:<a|l>  SETTINGS with MAX_FRAME_SIZE <val>, alone or after legal entries; a value outside
//	                   [16384, 2^24-1] is a connection error (RFC 7540 6.5.2), a legal one is forwarded
//	RFC                the proxy's reads from the client fail (not EOF); writes toward the client keep working
//	PF:<c|s>:<H|D|R|P>:<n>  (configuration) a StreamProcessorFactory whose processor for that direction returns
//	                   an error from the n-th Header / Data / RSTStream / PushPromise call
//	GRPC               (configuration) the real h2/grpc adapter with a pass-through gRPC processor
//	chg:<sid> shg:<sid>    HEADERS of a gRPC stream (content-type application/grpc, grpc-encoding gzip)
//	cdbad:<sid> sdbad:<sid> DATA: a gRPC message flagged compressed whose payload is not gzip; cdok/sdok: a good one
//	spp:<sid>:<pid>    PUSH_PROMISE from the server; sst cst SETTINGS; sga cga GOAWAY
//	CE1 SE1            unknown frame type (processFrame error) from client / server
//	CE2 SE2            malformed PING (ReadFrame error)
//	CE3 SE3            HEADERS with an undecodable HPACK block
//	CL                 proxy shutdown: close(closing)
//	STRESS:<n>:<w>     (whole script) n idle sessions each ended by proxy shutdown, on w workers in one process;
//	                   a Go panic of the code under test is reported as err=PANIC
//	cw+CC:... etc.     "a+b": both ops issued back to back without settling (race scenarios)
//
// OUT tokens:
//
//	ret=<0|1 per op>   had Proxy returned after the op settled
//	fin=<0|1>          Proxy returned within T after the script
//	eof=<0|1|->        harness TLS server saw its accepted connection end ('-': server reset it itself)
//	g=<multiset>       goroutines with martian/v3/h2 frames still alive after return (+ caller closing cc)
//	                   + settle, or at T if it never returned: MAIN RSEL REMIT RLOCK RDONE W RF OTHER, e.g. RF2,W1; '-' none
//	err=<class>        Proxy's return value class: nil | preface | other | -
package main

import (
	"bufio"
	"bytes"
	"crypto/ecdsa"
	"crypto/elliptic"
	"crypto/rand"
	"crypto/tls"
	"crypto/x509"
	"crypto/x509/pkix"
	"errors"
	"fmt"
	"io"
	"math/big"
	"net"
	"net/url"
	"os"
	"os/exec"
	"regexp"
	"runtime"
	"sort"
	"strconv"
	"strings"
	"sync"
	"sync/atomic"
	"time"

	"github.com/google/martian/v3/h2"
	mgrpc "github.com/google/martian/v3/h2/grpc"
	mlog "github.com/google/martian/v3/log"
	"golang.org/x/net/http2"
	"golang.org/x/net/http2/hpack"
	"verifharness/hx"
)

// ---------------------------------------------------------------- endpoints

// failConn is the proxy's end of the in-memory client connection with fault
// injection: writes can be made to fail (WFC), to block as toward a peer that
// has stopped reading (STC; a blocked write fails when WFC arrives or when the
// proxy's caller closes the connection), and reads can report EOF while the
// connection stays otherwise untouched (HC, and CC while stalled).
type failConn struct {
	net.Conn
	failWrites atomic.Bool
	stalled    atomic.Bool
	readEOF    atomic.Bool
	readErr    atomic.Bool
	closed     atomic.Bool
}

var errInjectedRead = errors.New("injected read failure")

var errInjected = errors.New("injected write failure")

func (c *failConn) Write(b []byte) (int, error) {
	for c.stalled.Load() && !c.failWrites.Load() && !c.closed.Load() {
		time.Sleep(2 * time.Millisecond)
	}
	if c.failWrites.Load() {
		return 0, errInjected
	}
	if c.closed.Load() {
		return 0, io.ErrClosedPipe
	}
	return c.Conn.Write(b)
}

func (c *failConn) Read(b []byte) (int, error) {
	if c.readErr.Load() {
		return 0, errInjectedRead
	}
	if c.readEOF.Load() {
		return 0, io.EOF
	}
	n, err := c.Conn.Read(b)
	if err != nil && c.readErr.Load() {
		return n, errInjectedRead
	}
	if err != nil && c.readEOF.Load() {
		return n, io.EOF
	}
	return n, err
}

// failReads makes the proxy's (possibly pending) read from the client fail with an error that is
// not EOF, while writes toward the client keep working.
func (c *failConn) failReads() {
	c.readErr.Store(true)
	c.Conn.SetReadDeadline(time.Now())
}

// ---------------------------------------------------------------- stream processors

// pfSpec: the processor of direction dir fails the n-th call of one method (counted over all streams).
type pfSpec struct {
	dir    h2.Direction
	method byte // H D R P
	n      int
	mu     sync.Mutex
	count  int
}

var errScripted = errors.New("scripted stream processor error")

type scriptedProc struct {
	sink h2.Processor
	dir  h2.Direction
	spec *pfSpec
}

func (p *scriptedProc) hit(m byte) error {
	if p.spec.dir != p.dir || p.spec.method != m {
		return nil
	}
	p.spec.mu.Lock()
	defer p.spec.mu.Unlock()
	p.spec.count++
	if p.spec.count == p.spec.n {
		return errScripted
	}
	return nil
}

func (p *scriptedProc) Data(d []byte, es bool) error {
	if err := p.hit('D'); err != nil {
		return err
	}
	return p.sink.Data(d, es)
}
func (p *scriptedProc) Header(h []hpack.HeaderField, es bool, pr http2.PriorityParam) error {
	if err := p.hit('H'); err != nil {
		return err
	}
	return p.sink.Header(h, es, pr)
}
func (p *scriptedProc) Priority(pr http2.PriorityParam) error { return p.sink.Priority(pr) }
func (p *scriptedProc) RSTStream(c http2.ErrCode) error {
	if err := p.hit('R'); err != nil {
		return err
	}
	return p.sink.RSTStream(c)
}
func (p *scriptedProc) PushPromise(id uint32, h []hpack.HeaderField) error {
	if err := p.hit('P'); err != nil {
		return err
	}
	return p.sink.PushPromise(id, h)
}

type passGRPC struct{ sink mgrpc.Processor }

func (p passGRPC) Header(h []hpack.HeaderField, es bool, pr http2.PriorityParam) error {
	return p.sink.Header(h, es, pr)
}
func (p passGRPC) Message(d []byte, es bool) error { return p.sink.Message(d, es) }

// factories builds the StreamProcessorFactories the script asks for: PF:<c|s>:<H|D|R|P>:<n> and GRPC.
func factories(in []string) []h2.StreamProcessorFactory {
	var fs []h2.StreamProcessorFactory
	for _, op := range in {
		f := strings.Split(op, ":")
		switch {
		case f[0] == "PF" && len(f) == 4:
			spec := &pfSpec{dir: h2.ClientToServer, method: f[2][0], n: atoi(f[3])}
			if f[1] == "s" {
				spec.dir = h2.ServerToClient
			}
			fs = append(fs, func(_ *url.URL, sinks *h2.Processors) (h2.Processor, h2.Processor) {
				return &scriptedProc{sink: sinks.ForDirection(h2.ClientToServer), dir: h2.ClientToServer, spec: spec},
					&scriptedProc{sink: sinks.ForDirection(h2.ServerToClient), dir: h2.ServerToClient, spec: spec}
			})
		case f[0] == "GRPC":
			fs = append(fs, mgrpc.AsStreamProcessorFactory(func(_ *url.URL, server, client mgrpc.Processor) (mgrpc.Processor, mgrpc.Processor) {
				return passGRPC{server}, passGRPC{client}
			}))
		}
	}
	return fs
}

// halfClose makes the proxy's (possibly pending) read from the client report EOF.
func (c *failConn) halfClose() {
	c.readEOF.Store(true)
	c.Conn.SetReadDeadline(time.Now())
}

func (c *failConn) Close() error {
	c.closed.Store(true)
	return c.Conn.Close()
}

// forwarder sits between the proxy and the TLS server in the scenarios that
// need an upstream that stops reading (STS): plain TCP both ways, so TLS goes
// through untouched.  Stalled: it stops reading from the proxy; the proxy's
// writes block once the socket buffers are full.
type forwarder struct {
	lis     net.Listener
	stalled atomic.Bool
	pconn   atomic.Value // *net.TCPConn: the proxy's connection
}

func newForwarder(target string) (*forwarder, error) {
	l, err := net.Listen("tcp", "127.0.0.1:0")
	if err != nil {
		return nil, err
	}
	f := &forwarder{lis: l}
	go func() {
		pc, err := l.Accept()
		if err != nil {
			return
		}
		p := pc.(*net.TCPConn)
		p.SetReadBuffer(4096)
		f.pconn.Store(p)
		sc, err := net.Dial("tcp", target)
		if err != nil {
			p.Close()
			return
		}
		srv := sc.(*net.TCPConn)
		go func() { // server -> proxy
			io.Copy(p, srv)
			p.CloseWrite()
		}()
		buf := make([]byte, 32<<10)
		for { // proxy -> server, gated
			for f.stalled.Load() {
				time.Sleep(2 * time.Millisecond)
			}
			n, err := p.Read(buf)
			if n > 0 {
				if _, werr := srv.Write(buf[:n]); werr != nil {
					return
				}
			}
			if err != nil {
				srv.CloseWrite()
				return
			}
		}
	}()
	return f, nil
}

type endpoint struct {
	mu       sync.Mutex // guards fr writes
	conn     net.Conn
	fr       *http2.Framer
	activity *int64
	ended    atomic.Bool // read loop finished (EOF or error)
}

func (e *endpoint) readLoop() {
	for {
		_, err := e.fr.ReadFrame()
		atomic.AddInt64(e.activity, 1)
		if err != nil {
			e.ended.Store(true)
			return
		}
	}
}

func (e *endpoint) do(f func(fr *http2.Framer) error) {
	if e == nil || e.fr == nil {
		return
	}
	e.mu.Lock()
	defer e.mu.Unlock()
	e.conn.SetWriteDeadline(time.Now().Add(2500 * time.Millisecond))
	_ = f(e.fr) // errors are expected once the session is ending
}

func selfSigned() (tls.Certificate, *x509.CertPool, error) {
	key, err := ecdsa.GenerateKey(elliptic.P256(), rand.Reader)
	if err != nil {
		return tls.Certificate{}, nil, err
	}
	tmpl := &x509.Certificate{
		SerialNumber:          big.NewInt(1),
		Subject:               pkix.Name{CommonName: "c10-harness"},
		NotBefore:             time.Now().Add(-time.Hour),
		NotAfter:              time.Now().Add(24 * time.Hour),
		KeyUsage:              x509.KeyUsageDigitalSignature | x509.KeyUsageCertSign,
		ExtKeyUsage:           []x509.ExtKeyUsage{x509.ExtKeyUsageServerAuth},
		BasicConstraintsValid: true,
		IsCA:                  true,
		IPAddresses:           []net.IP{net.IPv4(127, 0, 0, 1)},
		DNSNames:              []string{"localhost"},
	}
	der, err := x509.CreateCertificate(rand.Reader, tmpl, tmpl, &key.PublicKey, key)
	if err != nil {
		return tls.Certificate{}, nil, err
	}
	leaf, err := x509.ParseCertificate(der)
	if err != nil {
		return tls.Certificate{}, nil, err
	}
	pool := x509.NewCertPool()
	pool.AddCert(leaf)
	return tls.Certificate{Certificate: [][]byte{der}, PrivateKey: key, Leaf: leaf}, pool, nil
}

// ---------------------------------------------------------------- session

type session struct {
	T        time.Duration
	quiet    time.Duration
	activity int64

	lis     net.Listener
	fwd     *forwarder   // only in scripts with STS
	tcp     atomic.Value // *net.TCPConn accepted by the server
	srv     *endpoint
	srvUp   chan struct{}
	srvSelf bool // the server ended its own connection abruptly (SR): its EOF observation is void

	cli      *endpoint
	cliRaw   net.Conn // harness end of the pipe
	proxyEnd *failConn

	closing  chan bool
	closed   bool
	returned chan struct{}
	retErr   error
	panicked atomic.Bool
}

func newSession(T time.Duration, withForwarder bool, spf []h2.StreamProcessorFactory) (*session, error) {
	s := &session{T: T, quiet: 40 * time.Millisecond, closing: make(chan bool), returned: make(chan struct{}), srvUp: make(chan struct{})}
	cert, pool, err := selfSigned()
	if err != nil {
		return nil, err
	}
	inner, err := net.Listen("tcp", "127.0.0.1:0")
	if err != nil {
		return nil, err
	}
	s.lis = inner
	tcfg := &tls.Config{Certificates: []tls.Certificate{cert}, NextProtos: []string{"h2"}}
	go func() {
		c, err := inner.Accept()
		if err != nil {
			return
		}
		s.tcp.Store(c.(*net.TCPConn))
		tc := tls.Server(c, tcfg)
		c.SetDeadline(time.Now().Add(20 * time.Second))
		if err := tc.Handshake(); err != nil {
			return
		}
		c.SetDeadline(time.Time{})
		ep := &endpoint{conn: tc, activity: &s.activity}
		s.srv = ep
		// the preface is forwarded by the proxy before any frame
		pre := make([]byte, 24)
		if _, err := io.ReadFull(tc, pre); err != nil {
			ep.ended.Store(true)
			close(s.srvUp)
			return
		}
		ep.fr = http2.NewFramer(tc, tc)
		close(s.srvUp)
		ep.readLoop()
	}()

	a, b := net.Pipe()
	s.cliRaw = a
	s.proxyEnd = &failConn{Conn: b}
	s.cli = &endpoint{conn: a, activity: &s.activity}

	cfg := &h2.Config{RootCAs: pool, AllowedHostsFilter: func(string) bool { return true }, StreamProcessorFactories: spf}
	target := inner.Addr().String()
	if withForwarder {
		f, err := newForwarder(target)
		if err != nil {
			return nil, err
		}
		s.fwd = f
		target = f.lis.Addr().String()
	}
	u, _ := url.Parse("https://" + target)
	go func() {
		defer close(s.returned)
		defer func() {
			if r := recover(); r != nil {
				s.panicked.Store(true)
			}
		}()
		s.retErr = cfg.Proxy(s.closing, s.proxyEnd, u)
	}()
	return s, nil
}

func (s *session) hasReturned() bool {
	select {
	case <-s.returned:
		return true
	default:
		return false
	}
}

// settle waits until neither endpoint has received anything for a quiet period.
func (s *session) settle() {
	deadline := time.Now().Add(1200 * time.Millisecond)
	last := atomic.LoadInt64(&s.activity)
	lastChange := time.Now()
	for time.Now().Before(deadline) {
		time.Sleep(4 * time.Millisecond)
		cur := atomic.LoadInt64(&s.activity)
		if cur != last {
			last, lastChange = cur, time.Now()
		} else if time.Since(lastChange) >= s.quiet {
			return
		}
	}
}

func (s *session) waitReturn(d time.Duration) bool {
	select {
	case <-s.returned:
		return true
	case <-time.After(d):
		return false
	}
}

func (s *session) waitServer() bool {
	select {
	case <-s.srvUp:
		return s.srv != nil && s.srv.fr != nil
	case <-time.After(3 * time.Second):
		return false
	}
}

var hpackOK = func() []byte {
	var b bytes.Buffer
	e := hpack.NewEncoder(&b)
	e.WriteField(hpack.HeaderField{Name: ":method", Value: "POST"})
	e.WriteField(hpack.HeaderField{Name: ":scheme", Value: "https"})
	e.WriteField(hpack.HeaderField{Name: ":path", Value: "/x"})
	e.WriteField(hpack.HeaderField{Name: ":authority", Value: "h"})
	return b.Bytes()
}()

var hpackResp = func() []byte {
	var b bytes.Buffer
	e := hpack.NewEncoder(&b)
	e.WriteField(hpack.HeaderField{Name: ":status", Value: "200"})
	return b.Bytes()
}()

func atoi(s string) int { n, _ := strconv.Atoi(s); return n }

// terminating reports whether op is one of the session-ending events (the
// harness then waits for the return instead of a quiet period).
func terminating(op string) bool {
	for _, p := range strings.Split(op, "+") {
		if len(p) > 3 && (p[1:3] == "hb" || p[1:3] == "pb") && p[3] == ':' {
			return true
		}
		if len(p) > 4 && p[1:4] == "mf:" {
			if v, err := strconv.ParseUint(strings.Split(p, ":")[1], 10, 64); err != nil || v < 16384 || v > 1<<24-1 {
				return true
			}
		}
		switch p {
		case "CQ1", "CQ2", "CQ3", "SQ1", "SQ2", "SQ3", "CW1", "CW2", "CW3", "CW4", "CW5", "SW1", "SW2", "SW3", "SW4", "SW5":
			return true
		case "CC", "SC", "SR", "CE1", "CE2", "CE3", "SE1", "SE2", "SE3", "CL", "badpre", "HC", "FH", "FR", "RFC", "cdbad", "sdbad":
			return true
		}
	}
	return false
}

func (s *session) side(c byte) *endpoint {
	if c == 'c' || c == 'C' {
		return s.cli
	}
	if !s.waitServer() {
		return nil
	}
	return s.srv
}

func (s *session) issue(op string) {
	f := strings.Split(op, ":")
	arg := func(i int) int {
		if i < len(f) {
			return atoi(f[i])
		}
		return 0
	}
	switch f[0] {
	case "hs":
		s.cliRaw.SetWriteDeadline(time.Now().Add(2 * time.Second))
		if _, err := s.cliRaw.Write([]byte(http2.ClientPreface)); err != nil {
			return
		}
		s.cli.fr = http2.NewFramer(s.cliRaw, s.cliRaw)
		go s.cli.readLoop()
		s.cli.do(func(fr *http2.Framer) error {
			return fr.WriteSettings(http2.Setting{ID: http2.SettingInitialWindowSize, Val: uint32(arg(1))})
		})
		if srv := s.side('s'); srv != nil {
			srv.do(func(fr *http2.Framer) error {
				if err := fr.WriteSettings(http2.Setting{ID: http2.SettingInitialWindowSize, Val: uint32(arg(2))}); err != nil {
					return err
				}
				return fr.WriteSettingsAck()
			})
		}
		s.cli.do(func(fr *http2.Framer) error { return fr.WriteSettingsAck() })
	case "badpre":
		s.cliRaw.SetWriteDeadline(time.Now().Add(2 * time.Second))
		s.cliRaw.Write([]byte("GET / HTTP/1.1\r\nHost: x\r\n\r\n"))
	case "ch", "sh":
		blk := hpackOK
		if f[0] == "sh" {
			blk = hpackResp
		}
		s.side(f[0][0]).do(func(fr *http2.Framer) error {
			return fr.WriteHeaders(http2.HeadersFrameParam{StreamID: uint32(arg(1)), BlockFragment: blk, EndHeaders: true})
		})
	case "cd", "sd":
		payload := bytes.Repeat([]byte{'d'}, arg(3))
		s.side(f[0][0]).do(func(fr *http2.Framer) error {
			for i := 0; i < arg(2); i++ {
				if err := fr.WriteData(uint32(arg(1)), false, payload); err != nil {
					return err
				}
			}
			return nil
		})
	case "cr", "sr":
		s.side(f[0][0]).do(func(fr *http2.Framer) error {
			for i := 0; i < arg(2); i++ {
				if err := fr.WriteRSTStream(uint32(arg(1)), http2.ErrCodeCancel); err != nil {
					return err
				}
			}
			return nil
		})
	case "cw", "sw":
		s.side(f[0][0]).do(func(fr *http2.Framer) error { return fr.WriteWindowUpdate(uint32(arg(1)), uint32(arg(2))) })
	case "chg", "shg": // gRPC stream: content-type application/grpc, grpc-encoding gzip
		var b bytes.Buffer
		e := hpack.NewEncoder(&b)
		if f[0] == "chg" {
			e.WriteField(hpack.HeaderField{Name: ":method", Value: "POST"})
			e.WriteField(hpack.HeaderField{Name: ":scheme", Value: "https"})
			e.WriteField(hpack.HeaderField{Name: ":path", Value: "/svc/m"})
			e.WriteField(hpack.HeaderField{Name: ":authority", Value: "h"})
		} else {
			e.WriteField(hpack.HeaderField{Name: ":status", Value: "200"})
		}
		e.WriteField(hpack.HeaderField{Name: "content-type", Value: "application/grpc"})
		e.WriteField(hpack.HeaderField{Name: "grpc-encoding", Value: "gzip"})
		blk := b.Bytes()
		s.side(f[0][0]).do(func(fr *http2.Framer) error {
			return fr.WriteHeaders(http2.HeadersFrameParam{StreamID: uint32(arg(1)), BlockFragment: blk, EndHeaders: true})
		})
	case "cdbad", "sdbad": // a gRPC message flagged compressed whose payload is not gzip
		s.side(f[0][0]).do(func(fr *http2.Framer) error {
			return fr.WriteData(uint32(arg(1)), false, []byte{1, 0, 0, 0, 5, 'x', 'x', 'x', 'x', 'x'})
		})
	case "cdok", "sdok": // a well-formed uncompressed gRPC message
		s.side(f[0][0]).do(func(fr *http2.Framer) error {
			return fr.WriteData(uint32(arg(1)), false, []byte{0, 0, 0, 0, 3, 'a', 'b', 'c'})
		})
	case "spp":
		s.side('s').do(func(fr *http2.Framer) error {
			return fr.WritePushPromise(http2.PushPromiseParam{StreamID: uint32(arg(1)), PromiseID: uint32(arg(2)), BlockFragment: hpackOK, EndHeaders: true})
		})
	case "sst", "cst": // SETTINGS (not an ack): forwarded by the reader under destMu
		s.side(f[0][0]).do(func(fr *http2.Framer) error {
			return fr.WriteSettings(http2.Setting{ID: http2.SettingMaxConcurrentStreams, Val: 77})
		})
	case "sga", "cga": // GOAWAY
		s.side(f[0][0]).do(func(fr *http2.Framer) error { return fr.WriteGoAway(0, http2.ErrCodeNo, []byte("bye")) })
	case "chb", "shb", "cpb", "spb":
		// a header block that is not valid HPACK, by carrier: HEADERS (chb/shb:<sid>:<mode>[:t], t = trailers,
		// END_STREAM set) or PUSH_PROMISE (cpb/spb:<sid>:<promised>:<mode>).  mode 1: one frame with END_HEADERS;
		// 2: first fragment bad, CONTINUATION good; 3: first fragment good, CONTINUATION bad; 4: both fragments
		// plausible, the block is only invalid once complete (truncated string literal); 5: three fragments, the
		// middle one bad.
		pp := f[0][1] == 'p'
		mode := arg(2)
		if pp {
			mode = arg(3)
		}
		bad := []byte{0x80} // indexed header field with index 0 (RFC 7541 6.1)
		var frags [][]byte
		switch mode {
		case 1:
			frags = [][]byte{bad}
		case 2:
			frags = [][]byte{bad, hpackOK}
		case 3:
			frags = [][]byte{hpackOK, bad}
		case 4:
			frags = [][]byte{append(append([]byte{}, hpackOK...), 0x40, 0x05, 'h', 'e'), {'l', 'l', 'o', 0x7f}}
		default:
			frags = [][]byte{hpackOK[:3], bad, hpackOK[3:]}
		}
		sid := uint32(arg(1))
		s.side(f[0][0]).do(func(fr *http2.Framer) error {
			for i, fg := range frags {
				var flags http2.Flags
				if i == len(frags)-1 {
					flags |= http2.FlagHeadersEndHeaders // same bit (0x4) for HEADERS, PUSH_PROMISE and CONTINUATION
				}
				var err error
				switch {
				case i > 0:
					err = fr.WriteRawFrame(http2.FrameContinuation, flags, sid, fg)
				case pp:
					pid := uint32(arg(2))
					payload := append([]byte{byte(pid >> 24), byte(pid >> 16), byte(pid >> 8), byte(pid)}, fg...)
					err = fr.WriteRawFrame(http2.FramePushPromise, flags, sid, payload)
				default:
					if len(f) > 3 && f[3] == "t" {
						flags |= http2.FlagHeadersEndStream
					}
					err = fr.WriteRawFrame(http2.FrameHeaders, flags, sid, fg)
				}
				if err != nil {
					return err
				}
			}
			return nil
		})
	case "CQ1", "SQ1": // CONTINUATION with no header block open
		s.side(f[0][0]).do(func(fr *http2.Framer) error {
			return fr.WriteRawFrame(http2.FrameContinuation, http2.FlagContinuationEndHeaders, 1, hpackOK)
		})
	case "CQ2", "SQ2": // DATA in the middle of a header block
		s.side(f[0][0]).do(func(fr *http2.Framer) error {
			if err := fr.WriteRawFrame(http2.FrameHeaders, 0, 7, hpackOK[:3]); err != nil {
				return err
			}
			return fr.WriteRawFrame(http2.FrameData, 0, 7, []byte("x"))
		})
	case "CQ3", "SQ3": // another stream's HEADERS in the middle of a header block
		s.side(f[0][0]).do(func(fr *http2.Framer) error {
			if err := fr.WriteRawFrame(http2.FrameHeaders, 0, 7, hpackOK[:3]); err != nil {
				return err
			}
			return fr.WriteRawFrame(http2.FrameHeaders, http2.FlagHeadersEndHeaders, 9, hpackOK)
		})
	case "CW1", "SW1": // DATA on stream 0
		s.side(f[0][0]).do(func(fr *http2.Framer) error { return fr.WriteRawFrame(http2.FrameData, 0, 0, []byte("x")) })
	case "CW2", "SW2": // WINDOW_UPDATE with a zero increment on a stream
		s.side(f[0][0]).do(func(fr *http2.Framer) error {
			return fr.WriteRawFrame(http2.FrameWindowUpdate, 0, 1, []byte{0, 0, 0, 0})
		})
	case "CW3", "SW3": // RST_STREAM on stream 0
		s.side(f[0][0]).do(func(fr *http2.Framer) error {
			return fr.WriteRawFrame(http2.FrameRSTStream, 0, 0, []byte{0, 0, 0, 8})
		})
	case "CW4", "SW4": // SETTINGS whose length is not a multiple of 6
		s.side(f[0][0]).do(func(fr *http2.Framer) error {
			return fr.WriteRawFrame(http2.FrameSettings, 0, 0, []byte{0, 3, 0, 0})
		})
	case "CW5", "SW5": // HEADERS on stream 0
		s.side(f[0][0]).do(func(fr *http2.Framer) error {
			return fr.WriteRawFrame(http2.FrameHeaders, http2.FlagHeadersEndHeaders, 0, hpackOK)
		})
	case "cmf", "smf": // SETTINGS announcing MAX_FRAME_SIZE <val>, alone (a) or after legal entries (l)
		val := uint32(arg(1))
		if v, err := strconv.ParseUint(f[1], 10, 32); err == nil {
			val = uint32(v)
		}
		set := []http2.Setting{{ID: http2.SettingMaxFrameSize, Val: val}}
		if len(f) > 2 && f[2] == "l" {
			set = []http2.Setting{{ID: http2.SettingMaxConcurrentStreams, Val: 10}, {ID: http2.SettingHeaderTableSize, Val: 4096},
				{ID: http2.SettingMaxFrameSize, Val: val}}
		}
		s.side(f[0][0]).do(func(fr *http2.Framer) error { return fr.WriteSettings(set...) })
	case "RFC":
		s.proxyEnd.failReads()
	case "PF", "GRPC": // configuration, consumed before the session starts
	case "cp", "sp":
		s.side(f[0][0]).do(func(fr *http2.Framer) error { return fr.WritePing(false, [8]byte{1, 2, 3, 4, 5, 6, 7, 8}) })
	case "CE1", "SE1":
		s.side(f[0][0]).do(func(fr *http2.Framer) error { return fr.WriteRawFrame(http2.FrameType(0x4f), 0, 1, []byte("zz")) })
	case "CE2", "SE2":
		s.side(f[0][0]).do(func(fr *http2.Framer) error { return fr.WriteRawFrame(http2.FramePing, 0, 0, []byte("short")) })
	case "CE3", "SE3":
		s.side(f[0][0]).do(func(fr *http2.Framer) error {
			// an index far beyond both HPACK tables
			return fr.WriteHeaders(http2.HeadersFrameParam{StreamID: 9, BlockFragment: []byte{0xff, 0xff, 0xff, 0x7f}, EndHeaders: true})
		})
	case "CC":
		if s.proxyEnd.stalled.Load() {
			// the proxy's pending write toward the client must stay blocked: it would otherwise fail at once
			// on the closed pipe.  The proxy sees the client's close as EOF on its reads.
			s.proxyEnd.halfClose()
		} else {
			s.cliRaw.Close()
		}
	case "HC":
		s.proxyEnd.halfClose()
	case "STC":
		s.proxyEnd.stalled.Store(true)
	case "STS":
		if s.fwd != nil {
			s.waitServer()
			s.fwd.stalled.Store(true)
		}
	case "FH":
		if s.fwd != nil {
			if p, ok := s.fwd.pconn.Load().(*net.TCPConn); ok {
				p.CloseWrite()
			}
		}
	case "FR":
		if s.fwd != nil {
			if p, ok := s.fwd.pconn.Load().(*net.TCPConn); ok {
				s.srvSelf = true
				p.SetLinger(0)
				p.Close()
			}
		}
	case "SC":
		if srv := s.side('s'); srv != nil {
			srv.mu.Lock()
			if tc, ok := srv.conn.(*tls.Conn); ok {
				tc.SetWriteDeadline(time.Now().Add(time.Second))
				tc.CloseWrite()
			}
			srv.mu.Unlock()
		} else if c, ok := s.tcp.Load().(*net.TCPConn); ok {
			c.CloseWrite()
		}
	case "SR":
		s.waitServer()
		if c, ok := s.tcp.Load().(*net.TCPConn); ok {
			s.srvSelf = true
			c.SetLinger(0)
			c.Close()
		}
	case "WFC":
		s.proxyEnd.failWrites.Store(true)
	case "CL":
		if !s.closed {
			s.closed = true
			close(s.closing)
		}
	}
}

// ---------------------------------------------------------------- goroutine dump

var goHdr = regexp.MustCompile(`^goroutine \d+ \[([^\]]*)\]:`)

func classify(block string) string {
	lines := strings.Split(block, "\n")
	m := goHdr.FindStringSubmatch(lines[0])
	state := ""
	if m != nil {
		state = m[1]
	}
	has := func(sub string) bool { return strings.Contains(block, sub) }
	const pk = "github.com/google/martian/v3/h2."
	switch {
	case has("http2.(*Framer).ReadFrame") && has(pk+"(*relay).relayFrames.func"):
		return "RF"
	case has(pk + "(*outputBuffer).emitEligibleFrames"):
		return "REMIT"
	case has(pk+"(*relay).relayFrames.func1") && has(pk+"(*relay).relayFrames(") || (strings.HasPrefix(state, "chan send") && has(pk+"(*relay).relayFrames.func1")):
		return "RDONE"
	case has(pk+"(*relay).relayFrames(") && strings.HasPrefix(state, "select"):
		return "RSEL"
	case has(pk+"(*relay).relayFrames(") && (strings.Contains(state, "Mutex") || strings.HasPrefix(state, "semacquire")) &&
		(has(pk+"(*relay).updateWindow(") || has(pk+"(*relay).data(") || has(pk+"(*relay).enqueueFrame(") ||
			has(pk+"(*relay).updateInitialWindowSize(") || has(pk+"(*relay).sendQueuedFramesUnderWindowSize(")):
		return "RLOCK" // waiting for flowMu; a reader waiting for destMu or inside a direct Write is ROTHER
	case has(pk + "(*relay).relayFrames("):
		return "ROTHER"
	case has(pk + "(*relay).relayFrames.func"):
		return "W"
	case has(pk + "(*Config).Proxy("):
		return "MAIN"
	case has(pk + "forwardPreface"):
		return "MAIN"
	}
	return "OTHER"
}

func h2Goroutines() (string, string) {
	buf := make([]byte, 1<<20)
	n := runtime.Stack(buf, true)
	blocks := strings.Split(string(buf[:n]), "\n\n")
	cnt := map[string]int{}
	var raw []string
	for _, b := range blocks {
		if !strings.Contains(b, "github.com/google/martian/v3/h2.") {
			continue
		}
		cnt[classify(b)]++
		raw = append(raw, b)
	}
	if len(cnt) == 0 {
		return "-", ""
	}
	var ks []string
	for k := range cnt {
		ks = append(ks, k)
	}
	sort.Strings(ks)
	var parts []string
	for _, k := range ks {
		parts = append(parts, k+strconv.Itoa(cnt[k]))
	}
	return strings.Join(parts, ","), strings.Join(raw, "\n\n")
}

// ---------------------------------------------------------------- one scenario (child)

func runScenario(in []string, T time.Duration) []string {
	withFwd := false
	for _, op := range in {
		if strings.Contains(op, "STS") {
			withFwd = true
		}
	}
	s, err := newSession(T, withFwd, factories(in))
	if err != nil {
		return []string{"setup-failed"}
	}
	defer s.lis.Close()
	if s.fwd != nil {
		defer s.fwd.lis.Close()
	}
	var ret strings.Builder
	armed := false
	for _, op := range in {
		for _, p := range strings.Split(op, "+") {
			s.issue(p)
		}
		if terminating(op) || strings.Contains(op, "WFC") || strings.Contains(op, "ST") || strings.HasPrefix(op, "PF:") {
			armed = true
		}
		if armed {
			// a return, if it comes, comes promptly; the full T is spent only after the script
			s.waitReturn(T / 4)
			s.settle()
		} else {
			s.settle()
		}
		if s.hasReturned() {
			ret.WriteByte('1')
		} else {
			ret.WriteByte('0')
		}
	}
	fin := s.waitReturn(T)
	g := ""
	if fin {
		// like martian.Proxy's connection loop: the caller closes the client connection after Proxy returns
		s.proxyEnd.Close()
		deadline := time.Now().Add(T / 2)
		for {
			g, _ = h2Goroutines()
			if g == "-" || time.Now().After(deadline) {
				break
			}
			time.Sleep(10 * time.Millisecond)
		}
	} else {
		g, _ = h2Goroutines()
		if os.Getenv("C10_DUMP") != "" {
			_, raw := h2Goroutines()
			fmt.Fprintln(os.Stderr, raw)
		}
	}
	eof := "0"
	if s.srvSelf {
		eof = "-"
	} else {
		deadline := time.Now().Add(T / 2)
		for time.Now().Before(deadline) {
			select {
			case <-s.srvUp:
			default:
				time.Sleep(5 * time.Millisecond)
				continue
			}
			if s.srv != nil && s.srv.ended.Load() {
				eof = "1"
				break
			}
			if !fin {
				break // sc cannot have been closed by a call that has not returned; do not wait
			}
			time.Sleep(5 * time.Millisecond)
		}
	}
	ec := "-"
	if fin {
		switch {
		case s.panicked.Load():
			ec = "PANIC"
		case s.retErr == nil:
			ec = "nil"
		case strings.Contains(s.retErr.Error(), "preface"):
			ec = "preface"
		default:
			ec = "other"
		}
	}
	finTok := "0"
	if fin {
		finTok = "1"
	}
	return []string{"ret=" + ret.String(), "fin=" + finTok, "eof=" + eof, "g=" + g, "err=" + ec}
}

// stress runs n idle sessions, each ended by proxy shutdown (close(closing) wakes both relay loops at the same
// instant), on w workers against one TLS listener.  Anything that is only wrong when both directions end together
// shows up here; a Go panic kills the child, which the parent reports as err=PANIC.
func stress(n, w int, T time.Duration) []string {
	cert, pool, err := selfSigned()
	if err != nil {
		return []string{"setup-failed"}
	}
	ln, err := tls.Listen("tcp", "127.0.0.1:0", &tls.Config{Certificates: []tls.Certificate{cert}, NextProtos: []string{"h2"}})
	if err != nil {
		return []string{"setup-failed"}
	}
	defer ln.Close()
	var eofs int64
	go func() {
		for {
			c, err := ln.Accept()
			if err != nil {
				return
			}
			go func(c net.Conn) {
				defer c.Close()
				c.SetDeadline(time.Now().Add(30 * time.Second))
				pre := make([]byte, 24)
				if _, err := io.ReadFull(c, pre); err != nil {
					return
				}
				fr := http2.NewFramer(c, c)
				fr.WriteSettings()
				for {
					if _, err := fr.ReadFrame(); err != nil {
						atomic.AddInt64(&eofs, 1)
						return
					}
				}
			}(c)
		}
	}()
	cfg := &h2.Config{RootCAs: pool, AllowedHostsFilter: func(string) bool { return true }}
	u, _ := url.Parse("https://" + ln.Addr().String())
	var returned, started int64
	one := func() {
		a, b := net.Pipe()
		defer a.Close()
		closing := make(chan bool)
		ret := make(chan struct{})
		go func() { defer close(ret); cfg.Proxy(closing, b, u) }()
		a.SetDeadline(time.Now().Add(20 * time.Second))
		if _, err := a.Write([]byte(http2.ClientPreface)); err != nil {
			return
		}
		cf := http2.NewFramer(a, a)
		got := make(chan struct{})
		go func() {
			first := true
			for {
				if _, err := cf.ReadFrame(); err != nil {
					return
				}
				if first {
					first = false
					close(got) // the server's SETTINGS came through: both directions are up
				}
			}
		}()
		cf.WriteSettings()
		select {
		case <-got:
		case <-time.After(10 * time.Second):
			return
		}
		atomic.AddInt64(&started, 1)
		close(closing)
		select {
		case <-ret:
			atomic.AddInt64(&returned, 1)
		case <-time.After(T):
		}
		b.Close()
	}
	var wg sync.WaitGroup
	for i := 0; i < w; i++ {
		wg.Add(1)
		go func(k int) {
			defer wg.Done()
			for j := k; j < n; j += w {
				one()
			}
		}(i)
	}
	wg.Wait()
	g := "-"
	deadline := time.Now().Add(T)
	for {
		g, _ = h2Goroutines()
		if (g == "-" && atomic.LoadInt64(&eofs) >= atomic.LoadInt64(&started)) || time.Now().After(deadline) {
			break
		}
		time.Sleep(10 * time.Millisecond)
	}
	fin, eof := "1", "1"
	if atomic.LoadInt64(&returned) < int64(n) {
		fin = "0"
	}
	if atomic.LoadInt64(&eofs) < atomic.LoadInt64(&started) {
		eof = "0"
	}
	return []string{"ret=" + fin, "fin=" + fin, "eof=" + eof, "g=" + g, "err=nil"}
}

func childMain() {
	mlog.SetLevel(mlog.Silent)
	T := time.Duration(atoi(os.Getenv("C10_T_MS"))) * time.Millisecond
	if T <= 0 {
		T = 3 * time.Second
	}
	sc := bufio.NewScanner(os.Stdin)
	sc.Buffer(make([]byte, 1<<16), 1<<22)
	for sc.Scan() {
		cs, ok := hx.ParseCaseLine(sc.Text())
		if !ok {
			continue
		}
		if len(cs.In) == 1 && strings.HasPrefix(cs.In[0], "STRESS:") {
			f := strings.Split(cs.In[0], ":")
			cs.Out = stress(atoi(f[1]), atoi(f[2]), T)
		} else {
			cs.Out = runScenario(cs.In, T)
		}
		fmt.Println(cs.Line())
	}
}

// ---------------------------------------------------------------- parent

func good(out []string) bool {
	// the observation the property demands after a terminating event
	ok := 0
	for _, t := range out {
		switch {
		case t == "fin=1", t == "eof=1", t == "eof=-", t == "g=-":
			ok++
		}
	}
	return ok == 3
}

func runChild(cs hx.Case, T time.Duration) hx.Case {
	exe, _ := os.Executable()
	cmd := exec.Command(exe)
	cmd.Env = append(os.Environ(), "C10_CHILD=1", "C10_T_MS="+strconv.Itoa(int(T/time.Millisecond)))
	cmd.Stdin = strings.NewReader("CASE " + cs.Name + " IN " + strings.Join(cs.In, " ") + "\n")
	var out, errb bytes.Buffer
	cmd.Stdout = &out
	cmd.Stderr = &errb
	done := make(chan error, 1)
	if err := cmd.Start(); err != nil {
		cs.Out = []string{"child-failed"}
		return cs
	}
	go func() { done <- cmd.Wait() }()
	select {
	case <-done:
	case <-time.After(6*T + 20*time.Second):
		cmd.Process.Kill()
		<-done
	}
	for _, l := range strings.Split(out.String(), "\n") {
		if r, ok := hx.ParseCaseLine(l); ok {
			return r
		}
	}
	if strings.Contains(errb.String(), "panic:") || strings.Contains(errb.String(), "fatal error:") {
		// the code under test brought the process down (children recover panics of the Proxy goroutine itself,
		// but not those of goroutines it starts)
		m := regexp.MustCompile(`(?m)^(panic|fatal error): (.*)$`).FindStringSubmatch(errb.String())
		fmt.Fprintln(os.Stderr, "c10: child for", cs.Name, "died:", m[0])
		cs.Out = []string{"ret=0", "fin=0", "eof=0", "g=-", "err=PANIC"}
		return cs
	}
	os.Stderr.Write(errb.Bytes())
	cs.Out = []string{"child-failed"}
	return cs
}

func hasEvent(in []string) bool {
	for _, op := range in {
		if terminating(op) {
			return true
		}
	}
	return false
}

func main() {
	if os.Getenv("C10_CHILD") != "" {
		childMain()
		return
	}
	cfg := hx.ParseFlags()
	defer cfg.Close()
	T := 3 * time.Second
	workers := 32
	if cfg.Thorough() {
		T = 10 * time.Second
		workers = 12
	}
	cases, replayOnly := cfg.Inputs()
	if !replayOnly {
		cases = append(cases, generate(cfg)...)
	}
	res := make([]hx.Case, len(cases))
	var wg sync.WaitGroup
	sem := make(chan struct{}, workers)
	for i := range cases {
		wg.Add(1)
		sem <- struct{}{}
		go func(i int) {
			defer wg.Done()
			defer func() { <-sem }()
			r := runChild(cases[i], T)
			if hasEvent(cases[i].In) && !good(r.Out) && !strings.HasPrefix(cases[i].In[0], "STRESS:") {
				// environmental slowness must not become an alarm: confirm with twice the time
				r2 := runChild(cases[i], 2*T)
				if good(r2.Out) || len(r2.Out) > 1 {
					r = r2
				}
			}
			res[i] = r
		}(i)
	}
	wg.Wait()
	for _, r := range res {
		cfg.Emit(r)
	}
}
