// c14 runs the REAL httpspec.NewStack on generated header maps, (i) directly
// (ModifyRequest / ModifyResponse under martian.TestContext) and (ii) through
// a real martian.Proxy with a raw TCP origin and a raw TCP client, and writes
// what happened as case lines for the OCaml driver.
//
// IN tokens
//
//	DIR|PRX  V<maj>.<min>  A<hex RemoteAddr>  L<hex raw URL>  O<hex req.Host>
//	q:<hex name>:<hex value>*   request header lines, in order
//	st<status>  s:<hex name>:<hex value>*   response status and header lines
//
//	CON V.. A.. L.. O.. (M q:..* st.. s:..*)+   a batch of messages (>= 8 when generated) sent CONCURRENTLY, each by
//	     its own goroutine and for several rounds, through ONE httpspec.NewStack instance (requests and responses),
//	     as connections of one proxy share the stack.  OUT: the table, then per message `M <DIR-style tokens>` and,
//	     for every round whose result differed from an earlier one, `ALT <tokens>`: every alternative is judged with
//	     the sequential oracle (the modifiers are pure per message: theorem C14_output_independent_of_other_messages).
//
//	CHN V.. A.. L.. O.. hops=<i>.<j>... q:..*   one request handed through DISTINCT stack instances, all created with
//	     the same name by httpspec.NewStack("martian") (no SetBoundary): hop k applies instance hops[k] to what hop k-1
//	     produced.  "martian-INST<i>" in values stands for instance i's pseudonym.  OUT: table, IDOK|IDBAD (all
//	     pseudonyms well formed - martian- + 20 lower-case hex digits - and pairwise distinct), then per hop
//	     `HOP <DIR-style tokens>`; the chain ends at the first hop returning an error.
//	IDS n<k>   k instances (half httpspec.NewStack, half header.NewViaModifier, none with SetBoundary): OUT n<k> wf<k'> distinct<k''>
//
// The literal text "martian-SELF" inside header values stands for
// "<requestedBy>-<boundary>" of the ViaModifier inside the stack under test
// (the boundary is random per stack); "origin.test" inside L stands for the
// address of the raw origin in PRX mode.  Both are substituted on the way in
// and substituted back on the way out, so cases replay.
//
// OUT tokens
//
//	tc:<hex> ts:<hex> th:<hex> tu:<hex>   table computed with Go's stdlib, NOT with martian:
//	     client = host of net.SplitHostPort(RemoteAddr) (or RemoteAddr), URL scheme, req.Host, URL.String()
//	E<n|f|l|o> K<0|1> I<0|1>  error class of ModifyRequest (none, framing, loop, other),
//	     ctx.SkippingRoundTrip(), inner group reached
//	N<k>                      PRX only: number of requests the origin received
//	h:<hex key>:<hex value>*  request headers after the stack (DIR: the map; PRX: the lines the origin read,
//	     minus names the transport owns), sorted by key, values in order
//	RS<status> RE<0|1> RI<0|1>  response status, ModifyResponse error (PRX: Warning header seen), inner reached
//	r:<hex key>:<hex value>*  response headers after the stack (PRX: lines the client read)
//	PANIC / BADURL / IOERR:<what>
package main

import (
	"bufio"
	"bytes"
	"fmt"
	"io"
	"net"
	"net/http"
	"net/url"
	"sort"
	"strconv"
	"strings"
	"sync"
	"time"

	"github.com/google/martian/v3"
	"github.com/google/martian/v3/header"
	"github.com/google/martian/v3/httpspec"
	mlog "github.com/google/martian/v3/log"
	"github.com/google/martian/v3/proxyutil"
	"verifharness/hx"
)

const selfPlaceholder = "martian-SELF"
const originPlaceholder = "origin.test"

type line struct{ k, v string }

type input struct {
	kind     string
	maj, min int
	remote   string
	rawurl   string
	host     string
	req      []line
	status   int
	res      []line
	batch    []msg // CON only
	hops     []int // CHN only
	nids     int   // IDS only
}

type msg struct {
	req    []line
	status int
	res    []line
}

func parseIn(in []string) (*input, error) {
	if len(in) == 2 && in[0] == "IDS" && strings.HasPrefix(in[1], "n") {
		n, err := strconv.Atoi(in[1][1:])
		if err != nil || n < 2 || n > 4096 {
			return nil, fmt.Errorf("bad IDS")
		}
		return &input{kind: "IDS", nids: n}, nil
	}
	if len(in) < 5 {
		return nil, fmt.Errorf("short")
	}
	c := &input{kind: in[0], status: 200}
	for _, t := range in[1:] {
		switch {
		case strings.HasPrefix(t, "hops="):
			for _, p := range strings.Split(t[5:], ".") {
				v, err := strconv.Atoi(p)
				if err != nil || v < 0 || v > 8 {
					return nil, fmt.Errorf("bad hops")
				}
				c.hops = append(c.hops, v)
			}
		case t == "M":
			if len(c.batch) > 0 {
				c.batch[len(c.batch)-1] = msg{c.req, c.status, c.res}
			}
			c.batch = append(c.batch, msg{})
			c.req, c.res, c.status = nil, nil, 200
		case strings.HasPrefix(t, "V"):
			p := strings.SplitN(t[1:], ".", 2)
			if len(p) != 2 {
				return nil, fmt.Errorf("bad V")
			}
			c.maj, _ = strconv.Atoi(p[0])
			c.min, _ = strconv.Atoi(p[1])
		case strings.HasPrefix(t, "A"):
			c.remote = string(hx.MustUnHex(t[1:]))
		case strings.HasPrefix(t, "L"):
			c.rawurl = string(hx.MustUnHex(t[1:]))
		case strings.HasPrefix(t, "O"):
			c.host = string(hx.MustUnHex(t[1:]))
		case strings.HasPrefix(t, "st"):
			c.status, _ = strconv.Atoi(t[2:])
		case strings.HasPrefix(t, "q:"), strings.HasPrefix(t, "s:"):
			p := strings.Split(t, ":")
			if len(p) != 3 {
				return nil, fmt.Errorf("bad line token")
			}
			l := line{string(hx.MustUnHex(p[1])), string(hx.MustUnHex(p[2]))}
			if t[0] == 'q' {
				c.req = append(c.req, l)
			} else {
				c.res = append(c.res, l)
			}
		default:
			return nil, fmt.Errorf("bad token %q", t)
		}
	}
	if len(c.batch) > 0 {
		c.batch[len(c.batch)-1] = msg{c.req, c.status, c.res}
		c.req, c.res = nil, nil
	}
	if c.kind == "CON" && len(c.batch) == 0 {
		return nil, fmt.Errorf("CON without messages")
	}
	return c, nil
}

func (c *input) tokens() []string {
	t := []string{c.kind, fmt.Sprintf("V%d.%d", c.maj, c.min), "A" + hx.HexS(c.remote), "L" + hx.HexS(c.rawurl), "O" + hx.HexS(c.host)}
	one := func(req []line, status int, res []line) {
		for _, l := range req {
			t = append(t, "q:"+hx.HexS(l.k)+":"+hx.HexS(l.v))
		}
		t = append(t, fmt.Sprintf("st%d", status))
		for _, l := range res {
			t = append(t, "s:"+hx.HexS(l.k)+":"+hx.HexS(l.v))
		}
	}
	if c.kind == "CHN" {
		hs := make([]string, len(c.hops))
		for i, h := range c.hops {
			hs[i] = strconv.Itoa(h)
		}
		t = append(t, "hops="+strings.Join(hs, "."))
		for _, l := range c.req {
			t = append(t, "q:"+hx.HexS(l.k)+":"+hx.HexS(l.v))
		}
		return t
	}
	if c.kind == "CON" {
		for _, m := range c.batch {
			t = append(t, "M")
			one(m.req, m.status, m.res)
		}
		return t
	}
	one(c.req, c.status, c.res)
	return t
}

func errClass(err error) string {
	switch {
	case err == nil:
		return "n"
	case strings.HasPrefix(err.Error(), "bad request framing"):
		return "f"
	case strings.HasPrefix(err.Error(), "via: detected request loop"):
		return "l"
	}
	return "o"
}

func b01(b bool) string {
	if b {
		return "1"
	}
	return "0"
}

// hdrTokens renders a header map (or ordered lines) sorted by key, values in order.
func hdrTokens(prefix string, h map[string][]string, sub func(string) string) []string {
	ks := make([]string, 0, len(h))
	for k := range h {
		ks = append(ks, k)
	}
	sort.Strings(ks)
	var out []string
	for _, k := range ks {
		for _, v := range h[k] {
			out = append(out, prefix+hx.HexS(k)+":"+hx.HexS(sub(v)))
		}
	}
	return out
}

// stdlib-only table: what the request fields are, independent of martian.
func table(remote string, u *url.URL, host string) []string {
	client, _, err := net.SplitHostPort(remote)
	if err != nil {
		client = remote
	}
	return []string{"tc:" + hx.HexS(client), "ts:" + hx.HexS(u.Scheme), "th:" + hx.HexS(host), "tu:" + hx.HexS(u.String())}
}

type stackUnderTest struct {
	outer            martian.RequestResponseModifier
	tag              string
	mu               sync.Mutex
	innerReq, innerR int
	sawReq, sawRes   map[*http.Request]bool
	direct           bool // attribute inner-group calls to requests (direct calls only)
	inF, outF        func(string) string // CHN: substitutions over several instances
}

func newStack() (*stackUnderTest, error) {
	s := &stackUnderTest{sawReq: map[*http.Request]bool{}, sawRes: map[*http.Request]bool{}}
	outer, inner := httpspec.NewStack("martian")
	s.outer = outer
	// learn "<requestedBy>-<boundary>" from a probe request (inner hooks added afterwards)
	req, _ := http.NewRequest("GET", "http://probe.test/", nil)
	req.RemoteAddr = "192.0.2.1:1"
	_, remove, err := martian.TestContext(req, nil, nil)
	if err != nil {
		return nil, err
	}
	defer remove()
	if err := outer.ModifyRequest(req); err != nil {
		return nil, err
	}
	// the last list element of the last Via line is this proxy's entry: "<proto> <tag>"
	s.tag = "martian-UNKNOWN"
	if vs := req.Header["Via"]; len(vs) > 0 {
		es := strings.Split(vs[len(vs)-1], ",")
		if p := strings.Fields(es[len(es)-1]); len(p) == 2 && strings.HasPrefix(p[1], "martian-") {
			s.tag = p[1]
		}
	}
	inner.AddRequestModifier(martian.RequestModifierFunc(func(r *http.Request) error {
		s.mu.Lock()
		s.innerReq++
		if s.direct {
			s.sawReq[r] = true
		}
		s.mu.Unlock()
		return nil
	}))
	inner.AddResponseModifier(martian.ResponseModifierFunc(func(r *http.Response) error {
		s.mu.Lock()
		s.innerR++
		if s.direct {
			s.sawRes[r.Request] = true
		}
		s.mu.Unlock()
		return nil
	}))
	return s, nil
}

// saw reports (and forgets) whether the inner group saw this request / its response.
func (s *stackUnderTest) saw(r *http.Request) (bool, bool) {
	s.mu.Lock()
	defer s.mu.Unlock()
	a, b := s.sawReq[r], s.sawRes[r]
	delete(s.sawReq, r)
	delete(s.sawRes, r)
	return a, b
}

func (s *stackUnderTest) counts() (int, int) {
	s.mu.Lock()
	defer s.mu.Unlock()
	return s.innerReq, s.innerR
}

func (s *stackUnderTest) in(v string) string {
	if s.inF != nil {
		return s.inF(v)
	}
	return strings.ReplaceAll(v, selfPlaceholder, s.tag)
}
func (s *stackUnderTest) out(v string) string {
	if s.outF != nil {
		return s.outF(v)
	}
	return strings.ReplaceAll(v, s.tag, selfPlaceholder)
}

func tagWellFormed(tag string) bool {
	if !strings.HasPrefix(tag, "martian-") || len(tag) != len("martian-")+20 {
		return false
	}
	for _, c := range tag[len("martian-"):] {
		if !(c >= '0' && c <= '9' || c >= 'a' && c <= 'f') {
			return false
		}
	}
	return true
}

// viaTag learns the pseudonym of a bare header.NewViaModifier (no SetBoundary).
func viaTag() string {
	vm := header.NewViaModifier("martian")
	req, _ := http.NewRequest("GET", "http://probe.test/", nil)
	_, remove, err := martian.TestContext(req, nil, nil)
	if err != nil {
		return ""
	}
	defer remove()
	if err := vm.ModifyRequest(req); err != nil {
		return ""
	}
	p := strings.Fields(req.Header.Get("Via"))
	if len(p) != 2 {
		return ""
	}
	return p[1]
}

func runIDS(n int) []string {
	seen := map[string]bool{}
	wf := 0
	for i := 0; i < n; i++ {
		tag := ""
		if i%2 == 0 {
			if s, err := newStack(); err == nil {
				tag = s.tag
			}
		} else {
			tag = viaTag()
		}
		if tagWellFormed(tag) {
			wf++
		}
		seen[tag] = true
	}
	return []string{fmt.Sprintf("n%d", n), fmt.Sprintf("wf%d", wf), fmt.Sprintf("distinct%d", len(seen))}
}

// runChain hands one request through distinct same-name instances.
func runChain(c *input) []string {
	u, err := url.Parse(c.rawurl)
	if err != nil {
		return []string{"BADURL"}
	}
	ni := 0
	for _, h := range c.hops {
		if h+1 > ni {
			ni = h + 1
		}
	}
	if ni == 0 {
		return []string{"BADCASE"}
	}
	inst := make([]*stackUnderTest, ni)
	idok := true
	seen := map[string]bool{}
	for i := range inst {
		s, err := newStack()
		if err != nil {
			return []string{"IOERR:probe"}
		}
		s.direct = true
		inst[i] = s
		if !tagWellFormed(s.tag) || seen[s.tag] {
			idok = false
		}
		seen[s.tag] = true
	}
	inF := func(v string) string {
		for i, s := range inst {
			v = strings.ReplaceAll(v, fmt.Sprintf("martian-INST%d", i), s.tag)
		}
		return v
	}
	outF := func(v string) string {
		done := map[string]bool{}
		// single pass over distinct pseudonyms (equal pseudonyms all show as the first instance)
		var pairs []string
		for i, s := range inst {
			if !done[s.tag] {
				done[s.tag] = true
				pairs = append(pairs, s.tag, fmt.Sprintf("martian-INST%d", i))
			}
		}
		return strings.NewReplacer(pairs...).Replace(v)
	}
	for _, s := range inst {
		s.inF, s.outF = inF, outF
	}
	out := table(c.remote, u, c.host)
	if idok {
		out = append(out, "IDOK")
	} else {
		out = append(out, "IDBAD")
	}
	m := *c
	for _, h := range c.hops {
		o := oneDirect(inst[h], &m, u)
		out = append(out, "HOP")
		out = append(out, o...)
		if len(o) == 0 || o[0] != "En" {
			break
		}
		// what this hop sends on is what the next hop receives
		var next []line
		for _, t := range o {
			if strings.HasPrefix(t, "h:") {
				p := strings.Split(t, ":")
				next = append(next, line{string(hx.MustUnHex(p[1])), string(hx.MustUnHex(p[2]))})
			}
		}
		m.req = next
	}
	return out
}

// oneDirect sends one message (request, then response) through the stack by direct calls.
func oneDirect(s *stackUnderTest, c *input, u *url.URL) (out []string) {
	defer func() {
		if r := recover(); r != nil {
			out = []string{"PANIC"}
		}
	}()
	req := &http.Request{Method: "GET", URL: u, Host: c.host, Header: http.Header{},
		Proto: fmt.Sprintf("HTTP/%d.%d", c.maj, c.min), ProtoMajor: c.maj, ProtoMinor: c.min,
		RemoteAddr: c.remote, Body: http.NoBody}
	for _, l := range c.req {
		req.Header.Add(l.k, s.in(l.v))
	}
	ctx, remove, err := martian.TestContext(req, nil, nil)
	if err != nil {
		return []string{"IOERR:ctx"}
	}
	defer remove()
	merr := s.outer.ModifyRequest(req)
	skip := ctx.SkippingRoundTrip()
	reqTokens := hdrTokens("h:", req.Header, s.out)

	res := proxyutil.NewResponse(c.status, nil, req)
	for _, l := range c.res {
		res.Header.Add(l.k, s.in(l.v))
	}
	rerr := s.outer.ModifyResponse(res)
	ir, irs := s.saw(req)
	out = append(out, "E"+errClass(merr), "K"+b01(skip), "I"+b01(ir))
	out = append(out, reqTokens...)
	out = append(out, fmt.Sprintf("RS%d", res.StatusCode), "RE"+b01(rerr != nil), "RI"+b01(irs))
	out = append(out, hdrTokens("r:", res.Header, s.out)...)
	return out
}

func runDirect(c *input) []string {
	u, err := url.Parse(c.rawurl)
	if err != nil {
		return []string{"BADURL"}
	}
	s, err := newStack()
	if err != nil {
		return []string{"IOERR:probe"}
	}
	s.direct = true
	return append(table(c.remote, u, c.host), oneDirect(s, c, u)...)
}

// barrier is a reusable n-party barrier.
type barrier struct {
	mu    sync.Mutex
	n, in int
	ch    chan struct{}
}

func (b *barrier) wait() {
	b.mu.Lock()
	b.in++
	if b.in == b.n {
		b.in = 0
		close(b.ch)
		b.ch = make(chan struct{})
		b.mu.Unlock()
		return
	}
	ch := b.ch
	b.mu.Unlock()
	<-ch
}

// runConcurrent sends every message of the batch through ONE stack at the same
// time (one goroutine per message, a barrier before every round).
func runConcurrent(c *input, rounds int) []string {
	u, err := url.Parse(c.rawurl)
	if err != nil {
		return []string{"BADURL"}
	}
	s, err := newStack()
	if err != nil {
		return []string{"IOERR:probe"}
	}
	s.direct = true
	n := len(c.batch)
	alts := make([][][]string, n)
	var wg sync.WaitGroup
	bar := &barrier{n: n, ch: make(chan struct{})}
	for i := 0; i < n; i++ {
		wg.Add(1)
		go func(i int) {
			defer wg.Done()
			m := *c
			m.req, m.res, m.status = c.batch[i].req, c.batch[i].res, c.batch[i].status
			for r := 0; r < rounds; r++ {
				bar.wait()
				o := oneDirect(s, &m, u)
				key := strings.Join(o, " ")
				dup := false
				for _, a := range alts[i] {
					if strings.Join(a, " ") == key {
						dup = true
						break
					}
				}
				if !dup && len(alts[i]) < 4 {
					alts[i] = append(alts[i], o)
				}
			}
		}(i)
	}
	wg.Wait()
	out := table(c.remote, u, c.host)
	for i := 0; i < n; i++ {
		for j, a := range alts[i] {
			if j == 0 {
				out = append(out, "M")
			} else {
				out = append(out, "ALT")
			}
			out = append(out, a...)
		}
	}
	return out
}

// ---------------------------------------------------------------- proxy mode

type rawOrigin struct {
	l     net.Listener
	mu    sync.Mutex
	seen  [][]line // header lines of every request received since reset
	reply func() (int, []line)
}

func readHead(br *bufio.Reader) (first string, ls []line, err error) {
	first, err = br.ReadString('\n')
	if err != nil {
		return
	}
	first = strings.TrimRight(first, "\r\n")
	for {
		var l string
		l, err = br.ReadString('\n')
		if err != nil {
			return
		}
		l = strings.TrimRight(l, "\r\n")
		if l == "" {
			return
		}
		i := strings.IndexByte(l, ':')
		if i < 0 {
			ls = append(ls, line{l, ""})
			continue
		}
		ls = append(ls, line{l[:i], strings.Trim(l[i+1:], " \t")})
	}
}

func (o *rawOrigin) serve() {
	for {
		c, err := o.l.Accept()
		if err != nil {
			return
		}
		go func(c net.Conn) {
			defer c.Close()
			br := bufio.NewReader(c)
			for {
				c.SetDeadline(time.Now().Add(10 * time.Second))
				_, ls, err := readHead(br)
				if err != nil {
					return
				}
				o.mu.Lock()
				o.seen = append(o.seen, ls)
				st, rl := o.reply()
				o.mu.Unlock()
				var b bytes.Buffer
				fmt.Fprintf(&b, "HTTP/1.1 %d %s\r\n", st, http.StatusText(st))
				for _, l := range rl {
					fmt.Fprintf(&b, "%s: %s\r\n", l.k, l.v)
				}
				b.WriteString("Content-Length: 2\r\n\r\nok")
				if _, err := c.Write(b.Bytes()); err != nil {
					return
				}
			}
		}(c)
	}
}

type proxyRig struct {
	s      *stackUnderTest
	p      *martian.Proxy
	pl     net.Listener
	origin *rawOrigin
}

func newRig() (*proxyRig, error) {
	s, err := newStack()
	if err != nil {
		return nil, err
	}
	ol, err := net.Listen("tcp", "127.0.0.1:0")
	if err != nil {
		return nil, err
	}
	o := &rawOrigin{l: ol, reply: func() (int, []line) { return 200, nil }}
	go o.serve()
	pl, err := net.Listen("tcp", "127.0.0.1:0")
	if err != nil {
		return nil, err
	}
	p := martian.NewProxy()
	p.SetRequestModifier(s.outer)
	p.SetResponseModifier(s.outer)
	p.SetTimeout(10 * time.Second)
	go p.Serve(pl)
	return &proxyRig{s: s, p: p, pl: pl, origin: o}, nil
}

func (r *proxyRig) close() {
	r.p.Close()
	r.pl.Close()
	r.origin.l.Close()
}

// names the client-side parser / transport / response writer own: not compared
var reqOwned = map[string]bool{"Host": true, "User-Agent": true, "Accept-Encoding": true,
	"Content-Length": true, "Transfer-Encoding": true, "Connection": true, "Warning": true}
var resOwned = map[string]bool{"Content-Length": true, "Transfer-Encoding": true, "Connection": true,
	"Warning": true, "Date": true}

func group(ls []line, owned map[string]bool) (map[string][]string, bool) {
	m := map[string][]string{}
	warn := false
	for _, l := range ls {
		if l.k == "Warning" {
			warn = true
		}
		if owned[l.k] {
			continue
		}
		m[l.k] = append(m[l.k], l.v)
	}
	return m, warn
}

func (r *proxyRig) run(c *input) (out []string) {
	oaddr := r.origin.l.Addr().String()
	rawurl := strings.ReplaceAll(c.rawurl, originPlaceholder, oaddr)
	u, err := url.Parse(c.rawurl)
	if err != nil || u.Host == "" {
		return []string{"BADURL"}
	}
	// stdlib table: the proxy's client is 127.0.0.1, absolute-form target decides req.Host
	out = table("127.0.0.1:1", u, u.Host)

	r.origin.mu.Lock()
	r.origin.seen = nil
	st, rl := c.status, make([]line, len(c.res))
	for i, l := range c.res {
		rl[i] = line{l.k, r.s.in(l.v)}
	}
	r.origin.reply = func() (int, []line) { return st, rl }
	r.origin.mu.Unlock()
	ir0, is0 := r.s.counts()

	conn, err := net.DialTimeout("tcp", r.pl.Addr().String(), 5*time.Second)
	if err != nil {
		return []string{"IOERR:dial"}
	}
	defer conn.Close()
	conn.SetDeadline(time.Now().Add(15 * time.Second))
	var b bytes.Buffer
	fmt.Fprintf(&b, "GET %s HTTP/%d.%d\r\nHost: %s\r\n", rawurl, c.maj, c.min, c.host)
	for _, l := range c.req {
		fmt.Fprintf(&b, "%s: %s\r\n", l.k, r.s.in(l.v))
	}
	b.WriteString("\r\n")
	if _, err := conn.Write(b.Bytes()); err != nil {
		return []string{"IOERR:write"}
	}
	br := bufio.NewReader(conn)
	first, rls, err := readHead(br)
	if err != nil {
		return []string{"IOERR:readhead"}
	}
	// drain the body so the proxy finishes the exchange before we look at the origin log
	n := 0
	for _, l := range rls {
		if l.k == "Content-Length" {
			n, _ = strconv.Atoi(l.v)
		}
	}
	io.CopyN(io.Discard, br, int64(n))
	sp := strings.SplitN(first, " ", 3)
	status := 0
	if len(sp) >= 2 {
		status, _ = strconv.Atoi(sp[1])
	}

	r.origin.mu.Lock()
	seen := r.origin.seen
	r.origin.mu.Unlock()
	ir1, is1 := r.s.counts()

	unO := func(v string) string { return strings.ReplaceAll(r.s.out(v), oaddr, originPlaceholder) }
	var hm map[string][]string
	warn := false
	if len(seen) > 0 {
		hm, warn = group(seen[0], reqOwned)
	}
	e := "n"
	if len(seen) == 0 {
		e = "l" // never sent upstream
	} else if warn {
		e = "f"
	}
	out = append(out, "E"+e, "K"+b01(len(seen) == 0), "I"+b01(ir1 > ir0), fmt.Sprintf("N%d", len(seen)))
	out = append(out, hdrTokens("h:", hm, unO)...)
	rm, rwarn := group(rls, resOwned)
	out = append(out, fmt.Sprintf("RS%d", status), "RE"+b01(rwarn), "RI"+b01(is1 > is0))
	out = append(out, hdrTokens("r:", rm, unO)...)
	return out
}

// ---------------------------------------------------------------- generators

var ordinary = []string{"Accept", "X-Custom", "Cookie", "Cache-Control", "X-Foo", "Foo-Bar", "Authorization",
	"Accept-Language", "X-Request-Id", "If-None-Match", "Etag", "X-A", "X-B-C", "Content-Type", "Server", "Set-Cookie", "Vary"}
var fixedHop = []string{"Connection", "Keep-Alive", "Proxy-Authenticate", "Proxy-Authorization", "Proxy-Connection",
	"Te", "Trailer", "Transfer-Encoding", "Upgrade"}

func oddCase(r *hx.RNG, s string) string {
	switch r.Intn(5) {
	case 0:
		return s
	case 1:
		return strings.ToLower(s)
	case 2:
		return strings.ToUpper(s)
	}
	b := []byte(s)
	for i := range b {
		if r.Bool() {
			if b[i] >= 'a' && b[i] <= 'z' {
				b[i] -= 32
			} else if b[i] >= 'A' && b[i] <= 'Z' {
				b[i] += 32
			}
		}
	}
	return string(b)
}

func ws(r *hx.RNG, tabs bool) string {
	n := r.Intn(3)
	if r.Chance(1, 3) {
		n = 0
	}
	var b strings.Builder
	for i := 0; i < n; i++ {
		if tabs && r.Chance(1, 4) {
			b.WriteByte('\t')
		} else {
			b.WriteByte(' ')
		}
	}
	return b.String()
}

func randToken(r *hx.RNG) string {
	const al = "abcdefghijklmnopqrstuvwxyzABCDEFGHIJKLMNOPQRSTUVWXYZ0123456789-_.!#$%&'*+^`|~"
	n := r.Range(1, 10)
	b := make([]byte, n)
	for i := range b {
		if r.Chance(3, 4) {
			b[i] = al[r.Intn(52)]
		} else {
			b[i] = al[r.Intn(len(al))]
		}
	}
	return string(b)
}

func randValue(r *hx.RNG, high bool) string {
	const al = "abcxyzABC0189 ;=/\"()<>@?[]{}:\\_-.*"
	n := r.Intn(14)
	b := make([]byte, 0, n)
	for i := 0; i < n; i++ {
		c := al[r.Intn(len(al))]
		if r.Chance(1, 12) {
			c = ','
		}
		if high && r.Chance(1, 20) {
			c = byte(0xe0 + r.Intn(16))
		}
		b = append(b, c)
	}
	return strings.Trim(string(b), " ")
}

// joinList renders elements as one or several header lines with odd list spacing.
func spread(r *hx.RNG, name string, elems []string, tabs bool) []line {
	if len(elems) == 0 {
		return nil
	}
	var ls []line
	cur := ""
	started := false
	for i, e := range elems {
		piece := ws(r, tabs) + e + ws(r, tabs)
		if !started {
			cur, started = piece, true
		} else if r.Chance(1, 3) {
			ls = append(ls, line{name, strings.Trim(cur, " \t")})
			cur = piece
		} else {
			cur += "," + piece
		}
		_ = i
	}
	ls = append(ls, line{name, strings.Trim(cur, " \t")})
	return ls
}

// spreadRaw renders list elements as one or several header values with odd OWS around
// the elements; values are NOT trimmed as a whole (direct mode only), so "chunked " survives.
func spreadRaw(r *hx.RNG, elems []string) []string {
	var vals []string
	cur, started := "", false
	for _, e := range elems {
		piece := ws(r, true) + e + ws(r, true)
		if !started {
			cur, started = piece, true
		} else if r.Chance(1, 3) {
			vals = append(vals, cur)
			cur = piece
		} else {
			cur += "," + piece
		}
	}
	if started {
		vals = append(vals, cur)
	}
	return vals
}

type genOpts struct {
	proxy bool // valid wire syntax only, no framing headers, no self-owned names
	resp  bool
}

func genLines(r *hx.RNG, cfg *hx.Config, o genOpts) []line {
	var ls []line
	used := map[string]bool{}
	nameOf := func(s string) string { return oddCase(r, s) }

	// ordinary headers
	no := r.Intn(7)
	if r.Chance(1, 10) {
		no = r.Range(10, 25)
	}
	var ordNames []string
	for i := 0; i < no; i++ {
		n := ordinary[r.Intn(len(ordinary))]
		if r.Chance(1, 4) {
			n = "X-" + randToken(r)
		}
		if o.proxy && (strings.EqualFold(n, "Host") || strings.EqualFold(n, "User-Agent") || strings.EqualFold(n, "Accept-Encoding") ||
			strings.EqualFold(n, "Warning") || strings.EqualFold(n, "Date") || strings.EqualFold(n, "Pragma") ||
			strings.EqualFold(n, "Expect") || strings.EqualFold(n, "Content-Encoding") || strings.EqualFold(n, "Content-Length")) {
			continue
		}
		ordNames = append(ordNames, n)
		used[http.CanonicalHeaderKey(n)] = true
		ls = append(ls, line{nameOf(n), randValue(r, true)})
	}

	// fixed hop-by-hop headers present in the message
	for _, n := range fixedHop {
		if n == "Connection" || !r.Chance(1, 5) {
			continue
		}
		if n == "Transfer-Encoding" {
			continue // framing generator below
		}
		ls = append(ls, line{nameOf(n), randValue(r, false)})
		cfg.Count("fixedhop=present")
	}

	// Connection: lists naming ordinary headers that are present / absent, keep-alive, close, specials
	if r.Chance(3, 5) {
		var toks []string
		nt := r.Range(1, 4)
		for i := 0; i < nt; i++ {
			switch k := r.Intn(12); {
			case k < 5 && len(ordNames) > 0:
				toks = append(toks, oddCase(r, ordNames[r.Intn(len(ordNames))]))
				cfg.Count("conn=names-present-header")
			case k < 6:
				toks = append(toks, oddCase(r, "keep-alive"))
			case k < 7:
				toks = append(toks, oddCase(r, "close"))
			case k < 8:
				toks = append(toks, oddCase(r, ordinary[r.Intn(len(ordinary))]))
			case k < 9:
				toks = append(toks, "")
			case k < 10:
				sp := []string{"Via", "X-Forwarded-For", "X-Forwarded-Proto", "X-Forwarded-Host", "X-Forwarded-Url", "Content-Length", "Connection", "Te"}
				toks = append(toks, oddCase(r, sp[r.Intn(len(sp))]))
				cfg.Count("conn=names-special")
			case k < 11 && !o.proxy:
				toks = append(toks, "x y") // not a token: CanonicalHeaderKey leaves it alone
			default:
				toks = append(toks, randToken(r))
			}
		}
		ls = append(ls, spread(r, nameOf("Connection"), toks, true)...)
		cfg.Count("conn=present")
	}
	if o.resp {
		return shuffle(r, ls)
	}

	// Via chains
	if r.Chance(3, 5) {
		var es []string
		ne := r.Range(1, 4)
		selfAt := -1
		if r.Chance(2, 5) {
			selfAt = r.Intn(ne)
		}
		for i := 0; i < ne; i++ {
			if i == selfAt {
				switch r.Intn(8) {
				case 0:
					es = append(es, "1.1 martian-SELF")
				case 1:
					es = append(es, "1.1  \t martian-SELF")
				case 2:
					es = append(es, "HTTP/1.0\tmartian-SELF (cmt)")
				case 3:
					es = append(es, "2.0 martian-SELF   x y z")
				case 4:
					es = append(es, "1.1 martian-SELFx") // near miss
				case 5:
					es = append(es, "martian-SELF") // one field only
				case 6:
					es = append(es, "1.1 x martian-SELF") // third field
				default:
					es = append(es, "1.1 Martian-SELF") // case differs
				}
				cfg.Count("via=self-or-nearmiss")
				continue
			}
			switch r.Intn(6) {
			case 0:
				es = append(es, "")
			case 1:
				es = append(es, "1.0 "+randToken(r))
			case 2:
				es = append(es, "1.1 "+randToken(r)+" (c)")
			case 3:
				es = append(es, randToken(r))
			default:
				es = append(es, "1.1 proxy"+strconv.Itoa(r.Intn(9)))
			}
		}
		vl := spread(r, nameOf("Via"), es, true)
		ls = append(ls, vl...)
		cfg.Count(fmt.Sprintf("via=lines%d", len(vl)))
	}

	// X-Forwarded-For / -Proto / -Host / -Url
	if r.Chance(2, 5) {
		var es []string
		for i, n := 0, r.Range(1, 3); i < n; i++ {
			if r.Chance(1, 8) {
				es = append(es, "")
			} else {
				es = append(es, fmt.Sprintf("10.%d.%d.%d", r.Intn(3), r.Intn(3), r.Intn(250)))
			}
		}
		xl := spread(r, nameOf("X-Forwarded-For"), es, false)
		ls = append(ls, xl...)
		cfg.Count(fmt.Sprintf("xff=lines%d", len(xl)))
	}
	for _, n := range []string{"X-Forwarded-Proto", "X-Forwarded-Host", "X-Forwarded-Url"} {
		if !r.Chance(1, 3) {
			continue
		}
		vals := []string{"https", "orig.example", "https://orig.example/p?q=1"}
		switch r.Intn(5) {
		case 0:
			ls = append(ls, line{nameOf(n), ""})
		case 1:
			ls = append(ls, line{nameOf(n), ""}, line{nameOf(n), vals[r.Intn(3)]})
			cfg.Count("xfwd=first-empty-multi")
		case 2:
			ls = append(ls, line{nameOf(n), vals[r.Intn(3)]}, line{nameOf(n), vals[r.Intn(3)]})
		default:
			ls = append(ls, line{nameOf(n), vals[r.Intn(3)]})
		}
	}

	// Content-Length / Transfer-Encoding combinations (direct mode only: net/http
	// rejects or rewrites these before a proxied request reaches the modifiers)
	if !o.proxy {
		cls := [][]string{nil, nil, nil, {"5"}, {"5, 5"}, {"5", "5"}, {"5", "6"}, {"5,6"}, {",5"}, {"5,"}, {" 5 "}, {""},
			{"42", "42, 42"}, {"42", "32, 42"}, {"0"}, {"7", "7", "8"}, {"", "5"}, {"5", ""}, {"05", "5"}, {"5 ,\t5"}}
		tes := [][]string{nil, nil, nil, nil, {"chunked"}, {"gzip, chunked"}, {"gzip"}, {"chunked, gzip"}, {"gzip", "chunked"},
			{"chunked", "gzip"}, {"Chunked"}, {" chunked "}, {""}, {"chunked,"}, {"identity"}, {"gzip,chunked"}, {"chunked", ""}}
		cl := cls[r.Intn(len(cls))]
		te := tes[r.Intn(len(tes))]
		if r.Chance(1, 3) {
			// the final transfer-coding as a TOKEN: near misses that contain / end with / start with
			// "chunked", in single-line, comma-list and multi-line forms, with odd list spacing
			near := []string{"x-chunked", "unchunked", "notchunked", "chunkedx", "chunked;q=1", "gzip;q=chunked", "CHUNKED",
				"Chunked", "chunke", "hunked", "chunked chunked", "chunked-", "-chunked", "\"chunked\"", "", "chunkedchunked", "x chunked", "chunked x"}
			codings := []string{"gzip", "deflate", "identity", "chunked", "compress", "x-chunked", ""}
			var es []string
			for i, n := 0, r.Intn(3); i < n; i++ {
				es = append(es, codings[r.Intn(len(codings))])
			}
			switch r.Intn(5) {
			case 0, 1:
				es = append(es, near[r.Intn(len(near))])
				cfg.Count("te-last=near-miss")
			case 2:
				es = append(es, "chunked")
				cfg.Count("te-last=chunked")
			case 3:
				es = append(es, "chunked", "") // trailing comma: empty last element
				cfg.Count("te-last=empty")
			default:
				es = append(es, codings[r.Intn(len(codings))])
			}
			te = nil
			for _, l := range spreadRaw(r, es) {
				te = append(te, l)
			}
		}
		for _, v := range cl {
			ls = append(ls, line{nameOf("Content-Length"), v})
		}
		for _, v := range te {
			ls = append(ls, line{nameOf("Transfer-Encoding"), v})
		}
		cfg.Count(fmt.Sprintf("framing=cl%d-te%d", len(cl), len(te)))
	}
	return shuffle(r, ls)
}

// shuffle permutes lines but keeps the relative order of lines with the same
// (case-insensitive) name, so multi-line headers keep their value order.
func shuffle(r *hx.RNG, ls []line) []line {
	out := make([]line, 0, len(ls))
	rest := append([]line(nil), ls...)
	for len(rest) > 0 {
		i := r.Intn(len(rest))
		// first remaining line with the same name as rest[i]
		j := 0
		for ; j < i; j++ {
			if strings.EqualFold(rest[j].k, rest[i].k) {
				break
			}
		}
		out = append(out, rest[j])
		rest = append(rest[:j], rest[j+1:]...)
	}
	return out
}

func genMalformed(r *hx.RNG, cfg *hx.Config) []line {
	// direct mode only: names that are not tokens, empty names, control bytes in values
	var ls []line
	for i, n := 0, r.Range(1, 6); i < n; i++ {
		nb := r.Bytes(r.Intn(6))
		for j := range nb {
			nb[j] &= 0x7f
		}
		vb := r.Bytes(r.Intn(8))
		for j := range vb {
			vb[j] &= 0x7f
		}
		ls = append(ls, line{string(nb), string(vb)})
	}
	if r.Bool() {
		conn := []string{}
		for _, l := range ls {
			conn = append(conn, strings.ReplaceAll(l.k, ",", ""))
		}
		ls = append(ls, line{"connection", strings.Join(conn, " , ")})
	}
	cfg.Count("stream=malformed")
	return ls
}

func genCase(r *hx.RNG, cfg *hx.Config, kind string) *input {
	c := &input{kind: kind, maj: 1, min: 1, status: 200}
	if r.Chance(1, 4) {
		c.min = 0
	}
	proxy := kind == "PRX"
	if proxy {
		c.remote = "127.0.0.1:1"
		paths := []string{"/", "/a/b?x=1&y=2", "/p%20q", "/x?u=http://z/", "/deep/er/path.html"}
		c.rawurl = "http://" + originPlaceholder + paths[r.Intn(len(paths))]
		c.host = []string{originPlaceholder, "other.example", "h:81"}[r.Intn(3)]
		c.status = []int{200, 201, 404, 500, 302}[r.Intn(5)]
	} else {
		if r.Chance(1, 6) {
			c.maj, c.min = 2, 0
		}
		remotes := []string{"10.0.0.1:5000", "[::1]:80", "10.0.0.1", "", "h:1:2", "[fe80::1%eth0]:443", "192.0.2.7:65535", "client.example:99"}
		c.remote = remotes[r.Intn(len(remotes))]
		urls := []string{"http://example.com/", "https://example.com/a?b=c", "http://example.com", "/relative/only?q", "http://u:p@h.example:8080/x y", "https://example.com/%7Euser#frag"}
		c.rawurl = urls[r.Intn(len(urls))]
		c.host = []string{"example.com", "other.example:8080", "", "EXAMPLE.com"}[r.Intn(4)]
		c.status = []int{200, 204, 301, 404, 500, 101, 400}[r.Intn(7)]
	}
	if !proxy && r.Chance(1, 12) {
		c.req = genMalformed(r, cfg)
		c.res = genMalformed(r, cfg)
		return c
	}
	c.req = genLines(r, cfg, genOpts{proxy: proxy})
	c.res = genLines(r, cfg, genOpts{proxy: proxy, resp: true})
	cfg.Count("stream=structured")
	return c
}

// genBatch: n messages for one stack.  Message i names its own header
// X-Hop-<i> (and a few others) in Connection and carries the names the OTHER
// messages list as plain end-to-end headers, so that tokens leaking between
// concurrently processed messages show as a surviving hop-by-hop header or a
// deleted end-to-end one.
func genBatch(r *hx.RNG, cfg *hx.Config) *input {
	c := genCase(r, cfg, "DIR")
	c.kind = "CON"
	n := r.Range(8, 12)
	for i := 0; i < n; i++ {
		m := msg{status: []int{200, 404, 500}[r.Intn(3)]}
		both := func(ls []line) []line {
			own := fmt.Sprintf("X-Hop-%d", i)
			toks := []string{oddCase(r, own)}
			ls = append(ls, line{oddCase(r, own), "hop"})
			for j, k := 0, r.Intn(4); j < k; j++ {
				t := fmt.Sprintf("X-Hop-%d-%d", i, j)
				toks = append(toks, oddCase(r, t))
				if r.Bool() {
					ls = append(ls, line{t, "hop"})
				}
			}
			ls = append(ls, spread(r, oddCase(r, "Connection"), toks, true)...)
			for j := 0; j < n; j++ {
				if j != i && r.Chance(2, 3) {
					ls = append(ls, line{fmt.Sprintf("X-Hop-%d", j), "end-to-end"})
				}
			}
			return shuffle(r, ls)
		}
		if r.Chance(1, 3) {
			m.req = both(genLines(r, cfg, genOpts{}))
		} else {
			m.req = both([]line{{"Accept", "*/*"}, {"Via", fmt.Sprintf("1.1 hop%d", i)}})
		}
		m.res = both([]line{{"Etag", fmt.Sprintf("e%d", i)}})
		c.batch = append(c.batch, m)
	}
	c.req, c.res = nil, nil
	cfg.Count("kind=CON")
	cfg.Count(fmt.Sprintf("con-messages=%d", n))
	return c
}

func main() {
	mlog.SetLevel(mlog.Silent)
	cfg := hx.ParseFlags()
	defer cfg.Close()

	var rig *proxyRig
	getRig := func() *proxyRig {
		if rig == nil {
			var err error
			rig, err = newRig()
			if err != nil {
				panic(err)
			}
		}
		return rig
	}
	defer func() {
		if rig != nil {
			rig.close()
		}
	}()

	runIn := func(in []string) []string {
		c, err := parseIn(in)
		if err != nil {
			return []string{"BADCASE"}
		}
		switch c.kind {
		case "DIR":
			return runDirect(c)
		case "IDS":
			return runIDS(c.nids)
		case "CHN":
			return runChain(c)
		case "CON":
			rounds := 60
			if cfg.Thorough() {
				rounds = 300
			}
			return runConcurrent(c, rounds)
		case "PRX":
			out := getRig().run(c)
			if len(out) > 0 && strings.HasPrefix(out[0], "IOERR") {
				// environmental (port exhaustion, scheduling): one retry on a fresh rig
				rig.close()
				rig = nil
				out = getRig().run(c)
			}
			return out
		}
		return []string{"BADCASE"}
	}

	// -extra conconly: the side run under the Go race detector (meta race_quick_extra):
	// only the concurrent batches, no corpus
	concOnly := cfg.Extra == "conconly"
	pre, replayOnly := cfg.Inputs()
	for _, c := range pre {
		if concOnly && !replayOnly {
			break
		}
		cfg.Emit(hx.Case{Name: c.Name, In: c.In, Out: runIn(c.In)})
	}
	if replayOnly {
		return
	}
	rng := hx.NewRNG(cfg.Seed)
	if !concOnly {
		// instance identity: pseudonyms of fresh instances are well formed and pairwise distinct
		for i, n := range []int{64, 256} {
			in := []string{"IDS", fmt.Sprintf("n%d", n)}
			cfg.Emit(hx.Case{Name: fmt.Sprintf("ids%d", i), In: in, Out: runIn(in)})
			cfg.Count("kind=IDS")
		}
		// chains of distinct same-name instances: forward chains, true loops, pre-existing entries
		patterns := [][]int{{0, 1}, {0, 1, 2}, {0, 1, 0}, {0, 0}, {0, 1, 2, 1}, {0, 1, 2, 0}, {1, 0}, {0, 1, 2, 3}}
		nch := 120
		if cfg.Thorough() {
			nch = 3000
		}
		for i := 0; i < nch; i++ {
			r := rng.Fork()
			c := genCase(r, cfg, "DIR")
			c.kind = "CHN"
			c.hops = patterns[r.Intn(len(patterns))]
			if r.Chance(5, 6) {
				c.req = genLines(r, cfg, genOpts{proxy: true})
			}
			inst := fmt.Sprintf("martian-INST%d", r.Intn(4))
			for j := range c.req {
				c.req[j].v = strings.ReplaceAll(c.req[j].v, selfPlaceholder, inst)
			}
			c.res = nil
			in := c.tokens()
			cfg.Emit(hx.Case{Name: fmt.Sprintf("chn%d", i), In: in, Out: runIn(in)})
			cfg.Count("kind=CHN")
			cfg.Count(fmt.Sprintf("chain-hops=%d", len(c.hops)))
		}
	}
	nc := 40
	if cfg.Thorough() {
		nc = 400
	}
	if concOnly {
		rng = hx.NewRNG(cfg.Seed ^ 0x5eed)
		nc = 12
		if cfg.Thorough() {
			nc = 60
		}
	}
	for i := 0; i < nc; i++ {
		r := rng.Fork()
		in := genBatch(r, cfg).tokens()
		name := fmt.Sprintf("con%d", i)
		if concOnly {
			name = fmt.Sprintf("racecon%d", i)
		}
		cfg.Emit(hx.Case{Name: name, In: in, Out: runIn(in)})
	}
	if concOnly {
		return
	}
	nd, np := 4000, 250
	if cfg.Thorough() {
		nd, np = 120000, 6000
	}
	for i := 0; i < nd; i++ {
		r := rng.Fork()
		c := genCase(r, cfg, "DIR")
		in := c.tokens()
		cfg.Emit(hx.Case{Name: fmt.Sprintf("dir%d", i), In: in, Out: runIn(in)})
		cfg.Count("kind=DIR")
	}
	for i := 0; i < np; i++ {
		r := rng.Fork()
		c := genCase(r, cfg, "PRX")
		in := c.tokens()
		cfg.Emit(hx.Case{Name: fmt.Sprintf("prx%d", i), In: in, Out: runIn(in)})
		cfg.Count("kind=PRX")
	}
}
