// c16 runs the real har.Logger (ModifyRequest / ModifyResponse under
// martian.TestContext) on one request or one response, exports the log both as
// Go structs and through the export handler's JSON (parsed back with
// encoding/json into har.HAR), and writes the entry's fields next to Go
// standard-library values of the external functions the Coq model is
// parametrised by.
//
// IN (struct level: the message exactly as martian gets it from net/http)
//
//	REQ o=<opt> M=<method> U=<url> P=<proto> H=<host> CL=<int> TE=<v>,<v> K=<name>:<v>,<v> ... B=<body>
//	RES o=<opt> S=<status> P=<proto> CL=<int> TE=<v>,<v> K=<name>:<v>,<v> ... B=<body> RM=<request method>
//
// every value is hx.Hex; o = all | none | in:<ct>,<ct> | out:<ct>,<ct>.
// Missing tokens take defaults (GET, http://example.com/, HTTP/1.1, CL = body
// length without TE and -1 with), so token-dropping shrinks stay well formed.
//
// OUT: key=value tokens; byte strings are inline hex or @n references to the
// D=<hex> definitions at the start.  See ocaml/C16/driver.ml for the reader.
package main

import (
	"bufio"
	"bytes"
	"compress/flate"
	"compress/gzip"
	"compress/zlib"
	"encoding/base64"
	"encoding/json"
	"fmt"
	"io"
	"io/ioutil"
	"mime"
	"mime/multipart"
	"net/http"
	"net/http/httptest"
	"net/http/httputil"
	"net/url"
	"os"
	"sort"
	"strconv"
	"strings"
	"time"
	"unicode/utf8"

	"github.com/google/martian/v3"
	"github.com/google/martian/v3/har"
	mlog "github.com/google/martian/v3/log"
	"verifharness/hx"
)

// ---------------------------------------------------------------- tokens

type toks struct {
	out  []string
	defs []string
	idx  map[string]int
	seen map[string]bool // every byte string mentioned, for the nu= table
	ord  []string
}

func newToks() *toks { return &toks{idx: map[string]int{}, seen: map[string]bool{}} }

func (t *toks) b(s string) string {
	if !t.seen[s] {
		t.seen[s] = true
		t.ord = append(t.ord, s)
	}
	if len(s) <= 40 {
		return hx.HexS(s)
	}
	i, ok := t.idx[s]
	if !ok {
		i = len(t.defs)
		t.idx[s] = i
		t.defs = append(t.defs, "D="+hx.HexS(s))
	}
	return "@" + strconv.Itoa(i)
}

func (t *toks) add(key string, parts ...string) {
	t.out = append(t.out, key+"="+strings.Join(parts, ":"))
}

func b01(b bool) string {
	if b {
		return "1"
	}
	return "0"
}

// sanitized is what encoding/json makes of a Go string.
func sanitized(s string) string {
	j, err := json.Marshal(s)
	if err != nil {
		return s
	}
	var r string
	if json.Unmarshal(j, &r) != nil {
		return s
	}
	return r
}

func (t *toks) finish() []string {
	for i := 0; i < len(t.ord); i++ { // t.ord may grow with (valid) sanitized strings
		s := t.ord[i]
		if !utf8.ValidString(s) {
			t.add("nu", t.b(s), t.b(sanitized(s)))
		}
	}
	return append(append([]string{}, t.defs...), t.out...)
}

// ----------------------------------------------------------------- input

type msgIn struct {
	kind   string
	opt    string
	method string
	url    string
	proto  string
	host   string
	cl     int64
	clSet  bool
	te     []string
	hdr    http.Header
	body   []byte
	status int
	rm     string
}

func unhexList(v string) ([]string, error) {
	if v == "" {
		return nil, nil
	}
	var r []string
	for _, p := range strings.Split(v, ",") {
		b, err := hx.UnHex(p)
		if err != nil {
			return nil, err
		}
		r = append(r, string(b))
	}
	return r, nil
}

func parseIn(in []string) (*msgIn, error) {
	if len(in) == 0 {
		return nil, fmt.Errorf("empty")
	}
	m := &msgIn{kind: in[0], opt: "all", method: "GET", url: "http://example.com/", proto: "HTTP/1.1",
		hdr: http.Header{}, status: 200, rm: "GET"}
	if m.kind != "REQ" && m.kind != "RES" {
		return nil, fmt.Errorf("kind")
	}
	for _, t := range in[1:] {
		i := strings.IndexByte(t, '=')
		if i < 0 {
			return nil, fmt.Errorf("token %q", t)
		}
		k, v := t[:i], t[i+1:]
		hexv := func() (string, error) { b, err := hx.UnHex(v); return string(b), err }
		var err error
		switch k {
		case "o":
			m.opt = v
		case "M":
			m.method, err = hexv()
		case "U":
			m.url, err = hexv()
		case "P":
			m.proto, err = hexv()
		case "H":
			m.host, err = hexv()
		case "RM":
			m.rm, err = hexv()
		case "CL":
			m.cl, err = strconv.ParseInt(v, 10, 64)
			m.clSet = true
		case "S":
			m.status, err = strconv.Atoi(v)
		case "TE":
			m.te, err = unhexList(v)
		case "B":
			var b []byte
			b, err = hx.UnHex(v)
			m.body = b
		case "K":
			j := strings.IndexByte(v, ':')
			if j < 0 {
				return nil, fmt.Errorf("K token")
			}
			var nb []byte
			nb, err = hx.UnHex(v[:j])
			if err == nil {
				var vs []string
				vs, err = unhexList(v[j+1:])
				m.hdr[string(nb)] = append(m.hdr[string(nb)], vs...)
			}
		default:
			err = fmt.Errorf("unknown key %q", k)
		}
		if err != nil {
			return nil, err
		}
	}
	if !m.clSet {
		if len(m.te) == 0 {
			m.cl = int64(len(m.body))
		} else {
			m.cl = -1
		}
	}
	return m, nil
}

func (m *msgIn) tokens() []string {
	o := []string{m.kind, "o=" + m.opt}
	hl := func(vs []string) string {
		var p []string
		for _, v := range vs {
			p = append(p, hx.HexS(v))
		}
		return strings.Join(p, ",")
	}
	if m.kind == "REQ" {
		o = append(o, "M="+hx.HexS(m.method), "U="+hx.HexS(m.url), "P="+hx.HexS(m.proto), "H="+hx.HexS(m.host))
	} else {
		o = append(o, "S="+strconv.Itoa(m.status), "P="+hx.HexS(m.proto), "RM="+hx.HexS(m.rm))
	}
	o = append(o, "CL="+strconv.FormatInt(m.cl, 10))
	if len(m.te) > 0 {
		o = append(o, "TE="+hl(m.te))
	}
	keys := make([]string, 0, len(m.hdr))
	for k := range m.hdr {
		keys = append(keys, k)
	}
	sort.Strings(keys)
	for _, k := range keys {
		o = append(o, "K="+hx.HexS(k)+":"+hl(m.hdr[k]))
	}
	o = append(o, "B="+hx.Hex(m.body))
	return o
}

func cloneHeader(h http.Header) http.Header {
	c := http.Header{}
	for k, vs := range h {
		c[k] = append([]string(nil), vs...)
	}
	return c
}

func body(b []byte) io.ReadCloser {
	if len(b) == 0 {
		return http.NoBody
	}
	return ioutil.NopCloser(bytes.NewReader(b))
}

func (m *msgIn) request() (*http.Request, error) {
	u, err := url.Parse(m.url)
	if err != nil {
		return nil, err
	}
	maj, min, ok := http.ParseHTTPVersion(m.proto)
	if !ok {
		return nil, fmt.Errorf("proto")
	}
	return &http.Request{Method: m.method, URL: u, Proto: m.proto, ProtoMajor: maj, ProtoMinor: min,
		Header: cloneHeader(m.hdr), Host: m.host, ContentLength: m.cl,
		TransferEncoding: append([]string(nil), m.te...), Body: body(m.body)}, nil
}

func (m *msgIn) response(req *http.Request) (*http.Response, error) {
	maj, min, ok := http.ParseHTTPVersion(m.proto)
	if !ok {
		return nil, fmt.Errorf("proto")
	}
	return &http.Response{Status: fmt.Sprintf("%d %s", m.status, http.StatusText(m.status)), StatusCode: m.status,
		Proto: m.proto, ProtoMajor: maj, ProtoMinor: min, Header: cloneHeader(m.hdr), ContentLength: m.cl,
		TransferEncoding: append([]string(nil), m.te...), Body: body(m.body), Request: req}, nil
}

func parseOpt(o string, post bool) ([]har.Option, error) {
	switch {
	case o == "all":
		if post {
			return []har.Option{har.PostDataLogging(true)}, nil
		}
		return []har.Option{har.BodyLogging(true)}, nil
	case o == "none":
		if post {
			return []har.Option{har.PostDataLogging(false)}, nil
		}
		return []har.Option{har.BodyLogging(false)}, nil
	case o == "default":
		return nil, nil
	case strings.HasPrefix(o, "in:"), strings.HasPrefix(o, "out:"):
		i := strings.IndexByte(o, ':')
		cts, err := unhexList(o[i+1:])
		if err != nil {
			return nil, err
		}
		in := o[:i] == "in"
		switch {
		case post && in:
			return []har.Option{har.PostDataLoggingForContentTypes(cts...)}, nil
		case post:
			return []har.Option{har.SkipPostDataLoggingForContentTypes(cts...)}, nil
		case in:
			return []har.Option{har.BodyLoggingForContentTypes(cts...)}, nil
		default:
			return []har.Option{har.SkipBodyLoggingForContentTypes(cts...)}, nil
		}
	}
	return nil, fmt.Errorf("option %q", o)
}

// ------------------------------------------------- Go stdlib as the externals

func chunkWrite(b []byte) []byte {
	var buf bytes.Buffer
	cw := httputil.NewChunkedWriter(&buf)
	cw.Write(b)
	cw.Close()
	return buf.Bytes()
}

func chunkRead(b []byte) ([]byte, bool) {
	d, err := ioutil.ReadAll(httputil.NewChunkedReader(bytes.NewReader(b)))
	return d, err == nil
}

func gunzip(b []byte) ([]byte, bool) {
	r, err := gzip.NewReader(bytes.NewReader(b))
	if err != nil {
		return nil, false
	}
	d, err := ioutil.ReadAll(r)
	return d, err == nil
}

func inflateRaw(b []byte) ([]byte, bool) {
	d, err := ioutil.ReadAll(flate.NewReader(bytes.NewReader(b)))
	return d, err == nil
}

// HTTP "deflate": zlib format (RFC 1950); raw deflate tolerated.
func inflateHTTP(b []byte) ([]byte, bool) {
	if r, err := zlib.NewReader(bytes.NewReader(b)); err == nil {
		if d, err := ioutil.ReadAll(r); err == nil {
			return d, true
		}
	}
	return inflateRaw(b)
}

type mparam struct{ name, value, file, ctype string }

func multipartParse(boundary string, b []byte) (ps []mparam, ok bool) {
	defer func() {
		if recover() != nil {
			ps, ok = nil, false
		}
	}()
	mpr := multipart.NewReader(bytes.NewReader(b), boundary)
	for {
		p, err := mpr.NextPart()
		if err == io.EOF {
			return ps, true
		}
		if err != nil {
			return nil, false
		}
		v, err := ioutil.ReadAll(p)
		if err != nil {
			return nil, false
		}
		ps = append(ps, mparam{p.FormName(), string(v), p.FileName(), p.Header.Get("Content-Type")})
	}
}

func sortedKV(vs url.Values) [][2]string {
	keys := make([]string, 0, len(vs))
	for k := range vs {
		keys = append(keys, k)
	}
	sort.Strings(keys)
	var r [][2]string
	for _, k := range keys {
		for _, v := range vs[k] {
			r = append(r, [2]string{k, v})
		}
	}
	return r
}

func (t *toks) cookies(key string, cs []*http.Cookie) {
	for _, c := range cs {
		exp := ""
		if !c.Expires.IsZero() {
			exp = c.Expires.Format(time.RFC3339)
		}
		t.add(key, t.b(c.Name), t.b(c.Value), t.b(c.Path), t.b(c.Domain), t.b(exp), b01(c.HttpOnly), b01(c.Secure))
	}
}

func (t *toks) harCookies(key string, cs []har.Cookie) {
	for _, c := range cs {
		t.add(key, t.b(c.Name), t.b(c.Value), t.b(c.Path), t.b(c.Domain), t.b(c.Expires8601), b01(c.HTTPOnly), b01(c.Secure))
	}
}

// headerOrder canonicalises a header / query list (Go map iteration order) by
// sorting on (name, value).  The permutation computed on the logged entry is
// applied to the entry parsed back from JSON as well (JSON keeps list order),
// so that position i of both lists is the same header.
func headerOrder(hs []har.Header) []int {
	idx := make([]int, len(hs))
	for i := range idx {
		idx[i] = i
	}
	sort.SliceStable(idx, func(a, b int) bool {
		x, y := hs[idx[a]], hs[idx[b]]
		return x.Name < y.Name || (x.Name == y.Name && x.Value < y.Value)
	})
	return idx
}

func (t *toks) harHeaders(key string, hs []har.Header, order []int) {
	if len(order) != len(hs) {
		order = headerOrder(hs)
	}
	for _, k := range order {
		t.add(key, t.b(hs[k].Name), t.b(hs[k].Value))
	}
}

type orders struct{ h, q, p []int }

func queryHeaders(qs []har.QueryString) []har.Header {
	r := make([]har.Header, len(qs))
	for i, q := range qs {
		r[i] = har.Header{Name: q.Name, Value: q.Value}
	}
	return r
}

func (t *toks) b64(s string) {
	t.add("b64", t.b(s), t.b(base64.StdEncoding.EncodeToString([]byte(s))))
}

// tables about the chunk coding of this body
func (t *toks) chunkTables(te []string, b []byte) {
	if n := len(te); n > 0 && te[n-1] == "chunked" {
		cw := chunkWrite(b)
		t.add("cw", t.b(string(b)), t.b(string(cw)))
		d, ok := chunkRead(cw)
		t.add("dc", t.b(string(cw)), b01(ok), t.b(string(d)))
	}
}

// ------------------------------------------------------------ the real code

func exportJSON(l *har.Logger) []byte {
	rec := httptest.NewRecorder()
	har.NewExportHandler(l).ServeHTTP(rec, httptest.NewRequest("GET", "/logs", nil))
	return rec.Body.Bytes()
}

// raw JSON members of log.entries[0].<side>.<member>
func jsonMember(js []byte, side, member string) map[string]interface{} {
	var g map[string]interface{}
	if json.Unmarshal(js, &g) != nil {
		return nil
	}
	lg, _ := g["log"].(map[string]interface{})
	es, _ := lg["entries"].([]interface{})
	if len(es) == 0 {
		return nil
	}
	e, _ := es[0].(map[string]interface{})
	s, _ := e[side].(map[string]interface{})
	m, _ := s[member].(map[string]interface{})
	return m
}

func jstr(m map[string]interface{}, k string) string {
	s, _ := m[k].(string)
	return s
}

// formOrder canonicalises the parameter order of an urlencoded form (url.Values
// is a map: the keys come in Go's map iteration order).  The same permutation
// is applied to the entry parsed back from JSON, whose list order is the entry's.
func formOrder(r *har.Request) []int {
	if r.PostData == nil || r.PostData.MimeType != "application/x-www-form-urlencoded" {
		return nil
	}
	ps := r.PostData.Params
	idx := make([]int, len(ps))
	for i := range idx {
		idx[i] = i
	}
	sort.SliceStable(idx, func(i, j int) bool { return ps[idx[i]].Name < ps[idx[j]].Name })
	return idx
}

func (t *toks) harRequest(p string, r *har.Request, o orders) {
	order := o.p
	t.add(p+"m", t.b(r.Method))
	t.add(p+"u", t.b(r.URL))
	t.add(p+"p", t.b(r.HTTPVersion))
	t.add(p+"bs", strconv.FormatInt(r.BodySize, 10))
	t.harCookies(p+"ck", r.Cookies)
	t.harHeaders(p+"h", r.Headers, o.h)
	t.harHeaders(p+"q", queryHeaders(r.QueryString), o.q)
	if r.PostData == nil {
		t.add(p+"pd", "none")
	} else {
		t.add(p+"pd", t.b(r.PostData.MimeType), t.b(r.PostData.Text))
		ps := r.PostData.Params
		if len(order) == len(ps) {
			ps = make([]har.Param, len(order))
			for i, k := range order {
				ps[i] = r.PostData.Params[k]
			}
		}
		for _, q := range ps {
			t.add(p+"pp", t.b(q.Name), t.b(q.Value), t.b(q.Filename), t.b(q.ContentType))
		}
	}
}

func (t *toks) harResponse(p string, r *har.Response, order []int) {
	t.add(p+"s", strconv.Itoa(r.Status))
	t.add(p+"p", t.b(r.HTTPVersion))
	t.add(p+"bs", strconv.FormatInt(r.BodySize, 10))
	t.add(p+"rd", t.b(r.RedirectURL))
	t.harCookies(p+"ck", r.Cookies)
	t.harHeaders(p+"h", r.Headers, order)
	if r.Content == nil {
		t.add(p+"ct", "none")
	} else {
		t.add(p+"ct", strconv.FormatInt(r.Content.Size, 10), t.b(r.Content.MimeType), t.b(string(r.Content.Text)), t.b(r.Content.Encoding))
	}
}

func runReq(m *msgIn) (out []string) {
	t := newToks()
	twin, err := m.request()
	if err != nil {
		return []string{"BADIN"}
	}
	req, _ := m.request()
	opts, err := parseOpt(m.opt, true)
	if err != nil {
		return []string{"BADIN"}
	}
	// net/http's view of the message
	t.add("us", t.b(twin.URL.String()))
	for _, q := range sortedKV(twin.URL.Query()) {
		t.add("q", t.b(q[0]), t.b(q[1]))
	}
	t.cookies("ck", twin.Cookies())
	// externals
	ct := twin.Header.Get("Content-Type")
	mt, ps, err := mime.ParseMediaType(ct)
	t.add("mt", t.b(ct), b01(err == nil), t.b(mt), t.b(ps["boundary"]))
	if err != nil {
		mt = ct
	}
	t.chunkTables(m.te, m.body)
	switch mt {
	case "multipart/form-data":
		mps, ok := multipartParse(ps["boundary"], m.body)
		t.add("mp", t.b(ps["boundary"]), t.b(string(m.body)), b01(ok))
		for _, p := range mps {
			t.add("mpe", t.b(p.name), t.b(p.value), t.b(p.file), t.b(p.ctype))
		}
	case "application/x-www-form-urlencoded":
		vs, err := url.ParseQuery(string(m.body))
		t.add("fp", t.b(string(m.body)), b01(err == nil))
		if err == nil {
			for _, q := range sortedKV(vs) {
				t.add("fpe", t.b(q[0]), t.b(q[1]))
			}
		}
	}
	t.b(string(m.body))
	// what the origin receives: the body Request.Write puts on the wire, read back by net/http
	if w, ok := wireRequestBody(m); ok {
		t.add("wb", "1", t.b(string(w)))
	} else {
		t.add("wb", "0", "x")
	}

	defer func() {
		if r := recover(); r != nil {
			out = append(t.finish(), "obs=panic")
		}
	}()
	l := har.NewLogger()
	l.SetOption(opts...)
	_, remove, err := martian.TestContext(req, nil, nil)
	if err != nil {
		return []string{"BADIN"}
	}
	defer remove()
	lerr := l.ModifyRequest(req)
	es := l.Export().Log.Entries
	if lerr != nil || len(es) != 1 || es[0].Request == nil {
		t.add("obs", "err")
		if len(es) != 0 {
			t.add("obs2", "entry-despite-error")
		}
		return t.finish()
	}
	t.add("obs", "ok")
	e := es[0].Request
	order := orders{h: headerOrder(e.Headers), q: headerOrder(queryHeaders(e.QueryString)), p: formOrder(e)}
	t.harRequest("e", e, order)
	if e.PostData != nil && !utf8.ValidString(e.PostData.Text) {
		t.b64(e.PostData.Text)
	}
	// the forwarded body must still be what the origin is to receive
	fwd, _ := ioutil.ReadAll(req.Body)
	t.add("fwd", b01(bytes.Equal(fwd, m.body)))

	js := exportJSON(l)
	if jp := jsonMember(js, "request", "postData"); jp != nil {
		t.add("jpd", t.b(jstr(jp, "mimeType")), t.b(jstr(jp, "text")), t.b(jstr(jp, "encoding")))
	} else {
		t.add("jpd", "none")
	}
	var back har.HAR
	if err := json.Unmarshal(js, &back); err != nil || back.Log == nil || len(back.Log.Entries) != 1 || back.Log.Entries[0].Request == nil {
		t.add("rt", "err")
		return t.finish()
	}
	t.add("rt", "ok")
	t.harRequest("r", back.Log.Entries[0].Request, order)
	// re-marshal the parsed log, parse again: must be a fixed point
	js2, err := json.Marshal(&back)
	var back2 har.HAR
	same := err == nil && json.Unmarshal(js2, &back2) == nil && back2.Log != nil && len(back2.Log.Entries) == 1
	if same {
		a, _ := json.Marshal(back.Log.Entries[0].Request)
		b, _ := json.Marshal(back2.Log.Entries[0].Request)
		same = bytes.Equal(a, b)
	}
	t.add("j2", b01(same))
	return t.finish()
}

func runRes(m *msgIn) (out []string) {
	t := newToks()
	rq, _ := http.NewRequest(m.rm, "http://example.com/r", nil)
	if rq == nil {
		return []string{"BADIN"}
	}
	twin, err := m.response(rq)
	if err != nil {
		return []string{"BADIN"}
	}
	res, _ := m.response(rq)
	opts, err := parseOpt(m.opt, false)
	if err != nil {
		return []string{"BADIN"}
	}
	t.cookies("ck", twin.Cookies())
	t.chunkTables(m.te, m.body)
	bs := string(m.body)
	if d, ok := gunzip(m.body); true {
		t.add("gz", t.b(bs), b01(ok), t.b(string(d)))
	}
	if d, ok := inflateRaw(m.body); true {
		t.add("fl", t.b(bs), b01(ok), t.b(string(d)))
	}
	if d, ok := inflateHTTP(m.body); true {
		t.add("zl", t.b(bs), b01(ok), t.b(string(d)))
	}
	// what the client receives: the body Response.Write puts on the wire, read back by net/http
	if w, ok := wireResponseBody(m, rq); ok {
		t.add("wb", "1", t.b(string(w)))
	} else {
		t.add("wb", "0", "x")
	}

	defer func() {
		if r := recover(); r != nil {
			out = append(t.finish(), "obs=panic")
		}
	}()
	l := har.NewLogger()
	l.SetOption(opts...)
	_, remove, err := martian.TestContext(rq, nil, nil)
	if err != nil {
		return []string{"BADIN"}
	}
	defer remove()
	if err := l.ModifyRequest(rq); err != nil {
		return []string{"BADIN"}
	}
	lerr := l.ModifyResponse(res)
	es := l.Export().Log.Entries
	if len(es) != 1 {
		return []string{"BADIN"}
	}
	if lerr != nil || es[0].Response == nil {
		t.add("obs", "err")
		if es[0].Response != nil {
			t.add("obs2", "response-despite-error")
		}
		return t.finish()
	}
	t.add("obs", "ok")
	e := es[0].Response
	horder := headerOrder(e.Headers)
	t.harResponse("e", e, horder)
	if e.Content != nil {
		t.b64(string(e.Content.Text))
	}
	fwd, _ := ioutil.ReadAll(res.Body)
	t.add("fwd", b01(bytes.Equal(fwd, m.body)))

	js := exportJSON(l)
	if jc := jsonMember(js, "response", "content"); jc != nil {
		sz, _ := jc["size"].(float64)
		t.add("jct", strconv.FormatInt(int64(sz), 10), t.b(jstr(jc, "mimeType")), t.b(jstr(jc, "text")), t.b(jstr(jc, "encoding")))
	} else {
		t.add("jct", "none")
	}
	var back har.HAR
	if err := json.Unmarshal(js, &back); err != nil || back.Log == nil || len(back.Log.Entries) != 1 || back.Log.Entries[0].Response == nil {
		t.add("rt", "err")
		return t.finish()
	}
	t.add("rt", "ok")
	t.harResponse("r", back.Log.Entries[0].Response, horder)
	js2, err := json.Marshal(&back)
	var back2 har.HAR
	same := err == nil && json.Unmarshal(js2, &back2) == nil && back2.Log != nil && len(back2.Log.Entries) == 1
	if same {
		a, _ := json.Marshal(back.Log.Entries[0].Response)
		b, _ := json.Marshal(back2.Log.Entries[0].Response)
		same = bytes.Equal(a, b)
	}
	t.add("j2", b01(same))
	return t.finish()
}

// wireRequestBody: serialise a twin with Request.Write and parse it back.
func wireRequestBody(m *msgIn) (b []byte, ok bool) {
	defer func() {
		if recover() != nil {
			b, ok = nil, false
		}
	}()
	r, err := m.request()
	if err != nil {
		return nil, false
	}
	var buf bytes.Buffer
	if r.Write(&buf) != nil {
		return nil, false
	}
	r2, err := http.ReadRequest(bufio.NewReader(&buf))
	if err != nil {
		return nil, false
	}
	b, err = ioutil.ReadAll(r2.Body)
	return b, err == nil
}

func wireResponseBody(m *msgIn, rq *http.Request) (b []byte, ok bool) {
	defer func() {
		if recover() != nil {
			b, ok = nil, false
		}
	}()
	r, err := m.response(rq)
	if err != nil {
		return nil, false
	}
	var buf bytes.Buffer
	if r.Write(&buf) != nil {
		return nil, false
	}
	r2, err := http.ReadResponse(bufio.NewReader(&buf), rq)
	if err != nil {
		return nil, false
	}
	b, err = ioutil.ReadAll(r2.Body)
	return b, err == nil
}

func runCase(in []string) []string {
	if len(in) > 0 && (in[0] == "PD" || in[0] == "CT" || in[0] == "PJ" || in[0] == "CJ") {
		return runDirect(in)
	}
	m, err := parseIn(in)
	if err != nil {
		return []string{"BADIN"}
	}
	if m.kind == "REQ" {
		return runReq(m)
	}
	return runRes(m)
}

func main() {
	mlog.SetLevel(mlog.Silent)
	cfg := hx.ParseFlags()
	defer cfg.Close()
	pre, replayOnly := cfg.Inputs()
	for _, c := range pre {
		cfg.Emit(hx.Case{Name: c.Name, In: c.In, Out: runCase(c.In)})
	}
	if replayOnly {
		// bin/vcheck loads the statistics of every harness run into the evidence,
		// including the shrinker's replays: keep the main run's histogram there.
		if cfg.Stats != "" {
			os.Remove(cfg.Stats)
			cfg.Stats = ""
		}
		return
	}
	generate(cfg)
}
