package main

// Direct cases for the JSON codecs, on values the logger itself never builds
// (binary text together with parameters, Content with other encodings, JSON
// objects with undecodable base64):
//
//	PD MT=<mime> T=<text> PP=<name>:<value>:<file>:<ctype> ...   json.Marshal(&har.PostData) -> Unmarshal
//	CT SZ=<int> MT=<mime> T=<text> EN=<encoding>                 json.Marshal(har.Content)   -> Unmarshal
//	PJ MT= T= EN= PP=...                                         json.Unmarshal of that JSON object into har.PostData
//	CJ SZ= MT= T= EN=                                            json.Unmarshal of that JSON object into har.Content

import (
	"encoding/base64"
	"encoding/json"
	"strconv"
	"strings"

	"github.com/google/martian/v3/har"
	"verifharness/hx"
)

type directIn struct {
	kind          string
	mt, text, enc string
	size          int64
	params        []har.Param
}

func parseDirect(in []string) (*directIn, bool) {
	d := &directIn{kind: in[0]}
	for _, t := range in[1:] {
		i := strings.IndexByte(t, '=')
		if i < 0 {
			return nil, false
		}
		k, v := t[:i], t[i+1:]
		switch k {
		case "MT", "T", "EN":
			b, err := hx.UnHex(v)
			if err != nil {
				return nil, false
			}
			switch k {
			case "MT":
				d.mt = string(b)
			case "T":
				d.text = string(b)
			default:
				d.enc = string(b)
			}
		case "SZ":
			n, err := strconv.ParseInt(v, 10, 64)
			if err != nil {
				return nil, false
			}
			d.size = n
		case "PP":
			p := strings.Split(v, ":")
			if len(p) != 4 {
				return nil, false
			}
			var f [4]string
			for j := range p {
				b, err := hx.UnHex(p[j])
				if err != nil {
					return nil, false
				}
				f[j] = string(b)
			}
			d.params = append(d.params, har.Param{Name: f[0], Value: f[1], Filename: f[2], ContentType: f[3]})
		default:
			return nil, false
		}
	}
	return d, true
}

func (t *toks) params(key string, ps []har.Param) {
	for _, q := range ps {
		t.add(key, t.b(q.Name), t.b(q.Value), t.b(q.Filename), t.b(q.ContentType))
	}
}

func (t *toks) jsonPost(js []byte) {
	var g map[string]interface{}
	if json.Unmarshal(js, &g) != nil {
		t.add("jpd", "none")
		return
	}
	t.add("jpd", t.b(jstr(g, "mimeType")), t.b(jstr(g, "text")), t.b(jstr(g, "encoding")))
	ps, _ := g["params"].([]interface{})
	for _, p := range ps {
		m, _ := p.(map[string]interface{})
		t.add("jpp", t.b(jstr(m, "name")), t.b(jstr(m, "value")), t.b(jstr(m, "fileName")), t.b(jstr(m, "contentType")))
	}
}

func (t *toks) b64both(text string) {
	t.b64(text) // encode table
	if d, err := base64.StdEncoding.DecodeString(text); err == nil {
		t.add("b64", t.b(string(d)), t.b(text)) // decode table for JSON-level texts
	}
}

func runDirect(in []string) (out []string) {
	d, ok := parseDirect(in)
	if !ok {
		return []string{"BADIN"}
	}
	t := newToks()
	defer func() {
		if r := recover(); r != nil {
			out = append(t.finish(), "obs=panic")
		}
	}()
	t.b(d.mt)
	t.b(d.enc)
	t.b64both(d.text)
	for _, p := range d.params {
		t.b(p.Name)
		t.b(p.Value)
		t.b(p.Filename)
		t.b(p.ContentType)
	}
	switch d.kind {
	case "PD":
		pd := &har.PostData{MimeType: d.mt, Params: d.params, Text: d.text}
		js, err := json.Marshal(pd)
		if err != nil {
			t.add("obs", "err")
			return t.finish()
		}
		t.add("obs", "ok")
		t.jsonPost(js)
		var back har.PostData
		if json.Unmarshal(js, &back) != nil {
			t.add("rt", "err")
			return t.finish()
		}
		t.add("rt", "ok")
		t.add("rpd", t.b(back.MimeType), t.b(back.Text))
		t.params("rpp", back.Params)
	case "CT":
		c := har.Content{Size: d.size, MimeType: d.mt, Text: []byte(d.text), Encoding: d.enc}
		js, err := json.Marshal(c)
		if err != nil {
			t.add("obs", "err")
			return t.finish()
		}
		t.add("obs", "ok")
		var g map[string]interface{}
		json.Unmarshal(js, &g)
		sz, _ := g["size"].(float64)
		t.add("jct", strconv.FormatInt(int64(sz), 10), t.b(jstr(g, "mimeType")), t.b(jstr(g, "text")), t.b(jstr(g, "encoding")))
		t.b64both(jstr(g, "text"))
		var back har.Content
		if json.Unmarshal(js, &back) != nil {
			t.add("rt", "err")
			return t.finish()
		}
		t.add("rt", "ok")
		t.add("rct", strconv.FormatInt(back.Size, 10), t.b(back.MimeType), t.b(string(back.Text)), t.b(back.Encoding))
	case "PJ":
		obj := map[string]interface{}{"mimeType": d.mt, "text": d.text, "params": d.params}
		if d.enc != "" {
			obj["encoding"] = d.enc
		}
		js, _ := json.Marshal(obj)
		var back har.PostData
		if json.Unmarshal(js, &back) != nil {
			t.add("obs", "err")
			return t.finish()
		}
		t.add("obs", "ok")
		t.add("rpd", t.b(back.MimeType), t.b(back.Text))
		t.params("rpp", back.Params)
	case "CJ":
		obj := map[string]interface{}{"size": d.size, "mimeType": d.mt}
		if d.text != "" {
			obj["text"] = d.text
		}
		if d.enc != "" {
			obj["encoding"] = d.enc
		}
		js, _ := json.Marshal(obj)
		var back har.Content
		if json.Unmarshal(js, &back) != nil {
			t.add("obs", "err")
			return t.finish()
		}
		t.add("obs", "ok")
		t.add("rct", strconv.FormatInt(back.Size, 10), t.b(back.MimeType), t.b(string(back.Text)), t.b(back.Encoding))
	default:
		return []string{"BADIN"}
	}
	return t.finish()
}

func genDirect(r *hx.RNG, kind string) []string {
	in := []string{kind}
	text := genBytes(r, genSize(r, false), r.Intn(4))
	if r.Chance(1, 8) {
		text = nil
	}
	mt := pick(r, "text/plain", "application/octet-stream", "", "multipart/form-data", "application/x-www-form-urlencoded")
	if r.Chance(1, 15) {
		mt = "bin/\xfe"
	}
	in = append(in, "MT="+hx.HexS(mt))
	pp := func() {
		for i, n := 0, r.Intn(4); i < n; i++ {
			v := string(genBytes(r, r.Range(0, 12), r.Intn(2)))
			if r.Chance(1, 10) {
				v = "\xff\x00bin"
			}
			in = append(in, "PP="+hx.HexS(pick(r, "a", "file", ""))+":"+hx.HexS(v)+":"+hx.HexS(pick(r, "", "a.png"))+":"+hx.HexS(pick(r, "", "image/png")))
		}
	}
	switch kind {
	case "PD":
		in = append(in, "T="+hx.Hex(text))
		pp()
	case "CT":
		in = append(in, "T="+hx.Hex(text), "SZ="+strconv.Itoa(r.Range(0, 100000)), "EN="+hx.HexS(pick(r, "base64", "base64", "base64", "", "gzip", "Base64")))
	case "PJ":
		t := string(text)
		switch r.Intn(3) {
		case 0:
			t = base64.StdEncoding.EncodeToString(text)
		case 1:
			t = string(genBytes(r, r.Range(0, 40), r.Intn(2))) // valid UTF-8, mostly not base64
		default:
			t = base64.StdEncoding.EncodeToString(text) + "!"
		}
		in = append(in, "T="+hx.HexS(t), "EN="+hx.HexS(pick(r, "base64", "base64", "", "gzip", "BASE64")))
		pp()
	case "CJ":
		t := base64.StdEncoding.EncodeToString(text)
		if r.Chance(1, 3) {
			t = string(genBytes(r, r.Range(0, 40), r.Intn(2)))
		}
		in = append(in, "T="+hx.HexS(t), "SZ="+strconv.Itoa(r.Range(0, 100000)), "EN="+hx.HexS(pick(r, "base64", "base64", "", "gzip")))
	}
	return in
}
