package main

// Compressed bodies as producers may legally emit them: gzip with 1..3
// concatenated members (RFC 1952 2.2), empty members, the optional header
// fields FEXTRA / FNAME / FCOMMENT / FHCRC, every compression level incl.
// stored blocks and Huffman-only; raw deflate at every level.  The decoded
// reference is Go's own full decode (gzip.Reader, multistream by default),
// computed by the harness independently of martian.

import (
	"bytes"
	"compress/flate"
	"compress/gzip"
	"hash/crc32"
	"net/http"
	"strconv"

	"verifharness/hx"
)

var gzLevels = []int{gzip.NoCompression, gzip.BestSpeed, gzip.DefaultCompression, gzip.BestCompression, gzip.HuffmanOnly}

func gzMember(r *hx.RNG, p []byte) []byte {
	var b bytes.Buffer
	w, _ := gzip.NewWriterLevel(&b, gzLevels[r.Intn(len(gzLevels))])
	hl := 10
	if r.Chance(1, 3) {
		w.Extra = []byte(pick(r, "ab", "\x01\x02\x03\x04", ""))
		if len(w.Extra) > 0 {
			hl += 2 + len(w.Extra)
		}
	}
	if r.Chance(1, 3) {
		w.Name = pick(r, "file.txt", "a", "index.html")
		hl += len(w.Name) + 1
	}
	if r.Chance(1, 3) {
		w.Comment = pick(r, "made by c16", "x")
		hl += len(w.Comment) + 1
	}
	w.Write(p)
	w.Close()
	m := b.Bytes()
	if r.Chance(1, 3) && len(m) >= hl { // FHCRC: CRC16 of the header, flag bit 1
		h := append([]byte(nil), m[:hl]...)
		h[3] |= 0x02
		c := crc32.ChecksumIEEE(h) & 0xffff
		out := append(h, byte(c), byte(c>>8))
		out = append(out, m[hl:]...)
		if d, ok := gunzip(out); ok && bytes.Equal(d, p) {
			return out
		}
	}
	return m
}

func rawDeflateLevel(r *hx.RNG, p []byte) []byte {
	var b bytes.Buffer
	w, _ := flate.NewWriter(&b, []int{flate.NoCompression, flate.BestSpeed, flate.DefaultCompression, flate.BestCompression, flate.HuffmanOnly}[r.Intn(5)])
	w.Write(p)
	w.Close()
	return b.Bytes()
}

func genCompressed(r *hx.RNG, i int) *msgIn {
	m := &msgIn{kind: "RES", opt: "all", status: 200, proto: "HTTP/1.1", rm: "GET", hdr: http.Header{"Content-Type": {"text/plain"}}, clSet: true}
	if i%4 == 3 {
		m.hdr["Content-Encoding"] = []string{"deflate"}
		m.body = rawDeflateLevel(r, genBytes(r, genSize(r, false), r.Intn(4)))
	} else {
		m.hdr["Content-Encoding"] = []string{"gzip"}
		n := 1 + r.Intn(3)
		for k := 0; k < n; k++ {
			sz := genSize(r, false)
			if r.Chance(1, 5) {
				sz = 0 // an empty member
			}
			m.body = append(m.body, gzMember(r, genBytes(r, sz, r.Intn(4)))...)
		}
	}
	switch r.Intn(3) {
	case 0:
		m.cl = int64(len(m.body))
		m.hdr["Content-Length"] = []string{strconv.Itoa(len(m.body))}
	case 1:
		m.cl, m.te = -1, []string{"chunked"}
	default:
		m.cl = -1
	}
	return m
}
