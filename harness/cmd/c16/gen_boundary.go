package main

// Boundary values for every entry field the property names: cookies with each
// attribute the HAR cookie carries, statuses, versions, header and query
// values.  The reference the oracle compares with is net/http's own parsing of
// the same message (twin object), never martian's.

import (
	"fmt"
	"net/http"
	"strconv"
	"strings"

	"verifharness/hx"
)

var cookieExpiries = []string{
	"Thu, 01 Jan 1970 00:00:00 GMT", // the epoch: the classic way to delete a cookie
	"Thu, 01 Jan 1970 00:00:01 GMT",
	"Wed, 31 Dec 1969 23:59:59 GMT",
	"Mon, 01 Jan 1601 00:00:00 GMT",
	"Sat, 01 Jan 0001 00:00:00 GMT", // Go's zero time: indistinguishable from "no expiry"
	"Sat, 01 Jan 0001 00:00:01 GMT",
	"Fri, 31 Dec 9999 23:59:59 GMT",
	"Tue, 19 Jan 2038 03:14:07 GMT",
	"Tue, 19 Jan 2038 03:14:08 GMT",
	"Wed, 21 Oct 2065 07:28:00 GMT",
	"Thu, 01-Jan-1970 00:00:00 GMT", // the other date layout net/http accepts
	"Wed, 21-Oct-2065 07:28:00 GMT",
	"Wed, 21 Oct 2065 07:28:00 UTC",
	"Wed, 21 Oct 2065 09:28:00 +0200",
	"not a date",
	"",
}

func genSetCookie(r *hx.RNG) string {
	name := pick(r, "sid", "a", "theme", "__Host-x", "k.v", "A")
	val := pick(r, "abc123", "", "\"quoted\"", "v=with=equals", "0", "a b", "x,y")
	var sb strings.Builder
	sb.WriteString(name + "=" + val)
	attrs := []string{}
	if r.Chance(2, 3) {
		attrs = append(attrs, "Expires="+cookieExpiries[r.Intn(len(cookieExpiries))])
	}
	if r.Chance(1, 3) {
		attrs = append(attrs, "Max-Age="+pick(r, "0", "-1", "1", "3600", "2147483648", "x"))
	}
	if r.Chance(1, 2) {
		attrs = append(attrs, "Path="+pick(r, "/", "/a/b", "", "/with space"))
	}
	if r.Chance(1, 2) {
		attrs = append(attrs, "Domain="+pick(r, "example.com", ".example.com", "EXAMPLE.com", "", "127.0.0.1"))
	}
	if r.Chance(1, 2) {
		attrs = append(attrs, pick(r, "HttpOnly", "httponly", "HTTPONLY"))
	}
	if r.Chance(1, 2) {
		attrs = append(attrs, pick(r, "Secure", "secure"))
	}
	if r.Chance(1, 4) {
		attrs = append(attrs, pick(r, "SameSite=Lax", "SameSite=None", "Partitioned", "Unknown=attr", "Priority=High"))
	}
	// attribute order is free
	for i := len(attrs) - 1; i > 0; i-- {
		j := r.Intn(i + 1)
		attrs[i], attrs[j] = attrs[j], attrs[i]
	}
	for _, a := range attrs {
		sb.WriteString(pick(r, "; ", ";", "; ") + a)
	}
	return sb.String()
}

func genCookieHeader(r *hx.RNG) string {
	var ps []string
	for i, n := 0, r.Range(1, 5); i < n; i++ {
		ps = append(ps, pick(r, "a", "a", "sid", "b", "")+"="+pick(r, "1", "", "\"q\"", "x=y", "sp ace", "2"))
	}
	if r.Chance(1, 6) {
		ps = append(ps, pick(r, "novalue", "bad name=1", ";;"))
	}
	return strings.Join(ps, pick(r, "; ", ";", "; "))
}

var boundaryQueries = []string{
	"?=v", "?=", "?&&", "?a", "?a=", "?+=+", "?%2B=%2b", "?a=%00", "?a=1&a=1&a=1", "?a=b=c", "?%3D=%26",
	"?k=v%20w+x", "?%e2%82%ac=%E2%82%AC", "?", "?a=1;b=2", "?x=%zz",
}

var boundaryHeaderValues = []string{"", " ", " lead", "trail ", " both ", "tab\there", "a,b", "a, b", "\"q\"", "v", "0", "UPPER", "ünï"}

var boundaryStatuses = []int{0, 1, 99, 100, 101, 102, 199, 200, 203, 226, 299, 300, 301, 305, 306, 308, 310, 399, 400, 418, 451, 499, 500, 599, 600, 999}

// genBoundary builds a message whose interest lies in its entry fields, not its body.
func genBoundary(r *hx.RNG, kind string) *msgIn {
	m := &msgIn{kind: kind, hdr: http.Header{}, opt: pick(r, "all", "none", "default"), rm: "GET"}
	m.proto = pick(r, "HTTP/1.1", "HTTP/1.0", "HTTP/2.0", "HTTP/0.9", "HTTP/1.1")
	for i, n := 0, r.Intn(4); i < n; i++ {
		k := pick(r, "X-A", "X-B", "Accept", "Via", "X-Forwarded-For", "Warning")
		m.hdr[k] = append(m.hdr[k], boundaryHeaderValues[r.Intn(len(boundaryHeaderValues))])
	}
	if kind == "REQ" {
		m.method = pick(r, "GET", "HEAD", "POST", "M-SEARCH", "get", "CONNECT", "PROPFIND", "DELETE")
		m.url = pick(r, "http://example.com/", "http://example.com/p", "https://example.com:443/a/b", "/origin", "http://EXAMPLE.com/") +
			boundaryQueries[r.Intn(len(boundaryQueries))]
		m.host = pick(r, "example.com", "example.com:8080", "[::1]:80", "", "EXAMPLE.COM", "xn--bcher-kva.example")
		for i, n := 0, r.Intn(4); i < n; i++ {
			m.hdr["Cookie"] = append(m.hdr["Cookie"], genCookieHeader(r))
		}
		if r.Chance(1, 3) {
			m.body = []byte(pick(r, "x", "body", "{}"))
			m.hdr["Content-Type"] = []string{pick(r, "text/plain", "application/json")}
			if r.Chance(1, 2) {
				m.te = []string{"chunked"}
				m.cl = -1
			} else {
				m.cl = int64(len(m.body))
				m.hdr["Content-Length"] = []string{strconv.Itoa(len(m.body))}
			}
		}
		return m
	}
	m.status = boundaryStatuses[r.Intn(len(boundaryStatuses))]
	for i, n := 0, r.Intn(5); i < n; i++ {
		m.hdr["Set-Cookie"] = append(m.hdr["Set-Cookie"], genSetCookie(r))
	}
	if r.Chance(1, 2) {
		m.hdr["Location"] = []string{pick(r, "/next", "", " /padded ", "http://example.com/?a=b#f", "//other.example/x")}
	}
	if r.Chance(1, 2) {
		m.hdr["Content-Type"] = []string{pick(r, "text/plain", " text/html", "", "a/b; p=\"q\"")}
	}
	switch r.Intn(4) {
	case 0: // answer to HEAD: any Content-Length, no body
		m.rm = "HEAD"
		m.cl = []int64{1, 25, 2147483647, 2147483648, 4294967296, 9223372036854775807}[r.Intn(6)]
		m.hdr["Content-Length"] = []string{strconv.FormatInt(m.cl, 10)}
	case 1:
		m.body = []byte(fmt.Sprintf("status %d", m.status))
		m.cl = int64(len(m.body))
		m.hdr["Content-Length"] = []string{strconv.Itoa(len(m.body))}
	case 2:
		m.body = []byte("chunked body")
		m.cl = -1
		m.te = []string{"chunked"}
	default:
		m.cl = -1
	}
	if (m.status >= 100 && m.status <= 199) || m.status == 204 || m.status == 304 {
		// no body is sent with these statuses whatever the Body field holds
		if len(m.body) > 0 {
			m.body = nil
			if len(m.te) == 0 && m.cl > 0 {
				m.cl = 0
				m.hdr["Content-Length"] = []string{"0"}
			}
		}
	}
	return m
}
