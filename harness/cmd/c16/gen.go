package main

import (
	"bufio"
	"bytes"
	"compress/flate"
	"compress/gzip"
	"compress/zlib"
	"fmt"
	"io/ioutil"
	"mime/multipart"
	"net/http"
	"net/textproto"
	"net/url"
	"strconv"
	"strings"

	"verifharness/hx"
)

func pick(r *hx.RNG, xs ...string) string { return xs[r.Intn(len(xs))] }

var sizesQuick = []int{0, 1, 2, 15, 16, 17, 255, 256, 4095, 4096, 4097, 65535, 65536}

func genSize(r *hx.RNG, big bool) int {
	switch k := r.Intn(20); {
	case k < 10:
		return r.Range(0, 64)
	case k < 15:
		return r.Range(65, 700)
	case k < 18:
		return sizesQuick[r.Intn(len(sizesQuick)-4)]
	default:
		if big {
			return sizesQuick[len(sizesQuick)-4+r.Intn(4)]
		}
		return r.Range(700, 5000)
	}
}

// body content kinds
func genBytes(r *hx.RNG, n int, kind int) []byte {
	b := make([]byte, n)
	switch kind {
	case 0: // ascii text
		const al = "abcdefghijklmnopqrstuvwxyz ABC,.\r\n0123456789{}\":<>&"
		for i := range b {
			b[i] = al[r.Intn(len(al))]
		}
	case 1: // valid UTF-8 with multibyte runes
		var sb strings.Builder
		rs := []rune("aé漢😀z <\x00\x7f�")
		for sb.Len() < n {
			sb.WriteRune(rs[r.Intn(len(rs))])
		}
		b = []byte(sb.String())
	case 2: // random binary
		b = r.Bytes(n)
	default: // text with a few invalid bytes
		for i := range b {
			b[i] = byte('a' + r.Intn(26))
		}
		for k := 0; k < 1+n/50 && n > 0; k++ {
			b[r.Intn(n)] = byte(0x80 + r.Intn(0x80))
		}
	}
	return b
}

func gz(p []byte) []byte {
	var b bytes.Buffer
	w := gzip.NewWriter(&b)
	w.Write(p)
	w.Close()
	return b.Bytes()
}
func rawDeflate(p []byte) []byte {
	var b bytes.Buffer
	w, _ := flate.NewWriter(&b, 6)
	w.Write(p)
	w.Close()
	return b.Bytes()
}
func zlibDeflate(p []byte) []byte {
	var b bytes.Buffer
	w := zlib.NewWriter(&b)
	w.Write(p)
	w.Close()
	return b.Bytes()
}

func genOpt(r *hx.RNG, ct string) string {
	hl := func(vs ...string) string {
		var p []string
		for _, v := range vs {
			p = append(p, hx.HexS(v))
		}
		return strings.Join(p, ",")
	}
	mtype := ct
	if i := strings.IndexByte(ct, ';'); i >= 0 {
		mtype = ct[:i]
	}
	switch k := r.Intn(12); {
	case k < 4:
		return "all"
	case k < 5:
		return "none"
	case k < 6:
		return "default"
	default:
		var cts []string
		n := r.Intn(3)
		for i := 0; i < n; i++ {
			cts = append(cts, pick(r, "text/", "application/json", "image/", "TEXT/PLAIN", "multipart/", "application/x-www", "", "text/plainx", "application/octet-stream"))
		}
		if r.Chance(1, 2) && mtype != "" {
			switch r.Intn(4) {
			case 0:
				cts = append(cts, mtype)
			case 1:
				cts = append(cts, strings.ToUpper(mtype))
			case 2:
				cts = append(cts, mtype[:len(mtype)/2])
			default:
				cts = append(cts, mtype+"z")
			}
		}
		if k < 9 {
			return "in:" + hl(cts...)
		}
		return "out:" + hl(cts...)
	}
}

func genFormBody(r *hx.RNG, bad bool) []byte {
	var parts []string
	n := r.Range(0, 6)
	for i := 0; i < n; i++ {
		k := pick(r, "a", "b", "key", "k%20x", "a", "%e6%bc%a2", "")
		v := pick(r, "1", "", "hello+world", "%26%3D", "x%0D%0Ay", "%e2%82%ac", "1")
		if r.Chance(1, 6) {
			parts = append(parts, k)
		} else {
			parts = append(parts, k+"="+v)
		}
	}
	if bad {
		parts = append(parts, pick(r, "a=%zz", "a=1;b=2", "%", "x=%f"))
	}
	return []byte(strings.Join(parts, "&"))
}

// multipart boundaries: RFC 2046 bchars in every spelling (case, digits,
// punctuation, inner space), as browsers and libraries write them
var boundarySpellings = []string{
	"B", "b", "xyzBOUNDARY123", "----WebKitFormBoundary7MA4YWxkTrZu0gW", "---------------------------9051914041544843365972754266",
	"------------------------d74496d66958873e", "MixedCaseBoundary", "ALLUPPERCASE", "alllowercase", "0123456789",
	"gc0p4Jq0M2Yt08jU534c0p", "a'b(c)d+e_f,g-h.i/j:k=l?m", "with space inside", "Boundary_With=Equals", "----=_Part_0_123.456",
	"(parens)", "q?q", "A.b-C_d",
}

// contentTypeFor writes the header value the way different clients do:
// media type and parameter name in any case, boundary quoted or not, other
// parameters before or after it.
func contentTypeFor(r *hx.RNG, boundary string) string {
	mt := pick(r, "multipart/form-data", "multipart/form-data", "Multipart/Form-Data", "MULTIPART/FORM-DATA", "multipart/Form-data")
	pn := pick(r, "boundary", "boundary", "Boundary", "BOUNDARY")
	val := boundary
	if strings.ContainsAny(boundary, " ()<>@,;:\\\"/[]?=") || r.Chance(1, 3) {
		val = "\"" + boundary + "\""
	}
	bp := pn + "=" + val
	sep := pick(r, "; ", ";", ";  ")
	switch r.Intn(4) {
	case 0:
		return mt + sep + "charset=utf-8" + sep + bp
	case 1:
		return mt + sep + bp + sep + "charset=UTF-8"
	default:
		return mt + sep + bp
	}
}

func genMultipart(r *hx.RNG, binary bool, bad bool) (ct string, body []byte) {
	var b bytes.Buffer
	w := multipart.NewWriter(&b)
	// never the writer's own (crypto/rand) boundary: all randomness derives from the seed
	bnd := boundarySpellings[r.Intn(len(boundarySpellings))]
	if r.Chance(1, 4) {
		bnd = fmt.Sprintf("%016x%016X", r.Uint64(), r.Uint64())
	}
	if err := w.SetBoundary(bnd); err != nil {
		w.SetBoundary("fallbackBoundary")
	}
	n := r.Range(0, 4)
	for i := 0; i < n; i++ {
		if r.Chance(1, 2) {
			w.WriteField(pick(r, "field", "a", "name with space"), string(genBytes(r, r.Range(0, 40), r.Intn(2))))
		} else {
			h := textproto.MIMEHeader{}
			h.Set("Content-Disposition", fmt.Sprintf(`form-data; name="%s"; filename="%s"`, pick(r, "file", "up"), pick(r, "a.txt", "b.png", "")))
			h.Set("Content-Type", pick(r, "text/plain", "image/png", "application/octet-stream"))
			p, _ := w.CreatePart(h)
			kind := r.Intn(2)
			if binary {
				kind = 2
			}
			p.Write(genBytes(r, r.Range(0, 300), kind))
		}
	}
	w.Close()
	body = b.Bytes()
	if bad && len(body) > 8 {
		body = body[:len(body)-r.Range(3, 8)]
	}
	return contentTypeFor(r, w.Boundary()), body
}

var reqURLs = []string{
	"http://example.com/", "http://example.com/path/to?x=1", "https://h.example:8443/a%20b?q=a+b&q=c%26d&q=&r",
	"http://example.com/?a=1&a=2&b=%e6%bc%a2&a=1", "http://example.com/p?k=%3D%26&empty=&novalue",
	"http://[::1]:8080/x?y=z", "http://example.com/a;b?c=d#frag", "http://example.com/%7Euser/?%20=%20",
	"/relative/only?x=y", "http://example.com/?a=b&&c", "http://user:pw@example.com/x",
}

type flavour struct {
	nonUTF8Strings bool // K1 stream: header / query / form / multipart values that are not UTF-8
	malformed      bool
	big            bool
}

func genReq(r *hx.RNG, f flavour) *msgIn {
	m := &msgIn{kind: "REQ", hdr: http.Header{}, proto: pick(r, "HTTP/1.1", "HTTP/1.1", "HTTP/1.0")}
	m.method = pick(r, "POST", "POST", "PUT", "PATCH", "GET", "DELETE", "OPTIONS")
	m.url = reqURLs[r.Intn(len(reqURLs))]
	if f.nonUTF8Strings && r.Chance(1, 3) {
		m.url = "http://example.com/?bin=%ff%fe&ok=1"
	}
	if u, err := url.Parse(m.url); err == nil {
		m.host = u.Host
	}
	if r.Chance(1, 8) {
		m.host = pick(r, "other.example", "", "example.com:80")
	}
	// ordinary headers
	for i, n := 0, r.Intn(5); i < n; i++ {
		k := pick(r, "Accept", "User-Agent", "X-Test", "X-Multi", "Accept-Language", "Cookie", "X-Empty")
		v := pick(r, "*/*", "a, b", "", "v1", "text/html;q=0.9", "martian-test/1.0")
		if k == "Cookie" {
			v = pick(r, "a=b", "sid=abc123; theme=dark", "x=\"quoted\"", "k=v; k=v2", "bad cookie", genCookieHeader(r))
		}
		m.hdr[k] = append(m.hdr[k], v)
	}
	if f.nonUTF8Strings && r.Chance(1, 3) {
		m.hdr["X-Bin"] = []string{"caf\xe9"}
	}
	// body and content type
	size := genSize(r, f.big)
	var ct string
	switch k := r.Intn(16); {
	case k < 3:
		ct = pick(r, "application/x-www-form-urlencoded", "application/x-www-form-urlencoded; charset=UTF-8", "Application/X-WWW-Form-URLEncoded")
		m.body = genFormBody(r, f.malformed)
		if f.nonUTF8Strings && r.Chance(1, 2) {
			m.body = append(m.body, []byte("&bin=%ff%00%80")...)
		}
	case k < 6:
		ct, m.body = genMultipart(r, f.nonUTF8Strings, f.malformed)
	case k < 8:
		ct = pick(r, "application/json", "application/json; charset=utf-8")
		m.body = genBytes(r, size, r.Intn(2))
	case k < 11:
		ct = pick(r, "application/octet-stream", "image/png", "application/grpc")
		m.body = genBytes(r, size, 2+r.Intn(2))
	case k < 13:
		ct = pick(r, "text/plain", "text/plain; charset=utf-8", "TEXT/HTML", "text/plain; charset", ";;bad", "")
		m.body = genBytes(r, size, r.Intn(4))
	case k < 14: // compressed upload: stays compressed in the post data
		ct = "text/plain"
		m.body = gz(genBytes(r, size, 0))
		m.hdr["Content-Encoding"] = []string{"gzip"}
	default:
		ct = pick(r, "text/plain", "application/xml")
		m.body = genBytes(r, size, 0)
	}
	if ct != "" || r.Chance(1, 2) {
		if ct != "" {
			m.hdr["Content-Type"] = []string{ct}
		}
	}
	// framing, as net/http's ReadRequest presents it
	switch k := r.Intn(10); {
	case k < 5 || m.proto == "HTTP/1.0":
		m.cl = int64(len(m.body))
		if len(m.body) > 0 || r.Chance(1, 2) {
			m.hdr["Content-Length"] = []string{strconv.Itoa(len(m.body))}
		}
	default:
		m.cl = -1
		m.te = []string{"chunked"}
	}
	if m.method == "GET" || m.method == "OPTIONS" {
		if r.Chance(2, 3) {
			m.body, m.cl, m.te = nil, 0, nil
			delete(m.hdr, "Content-Length")
		}
	}
	oddities(r, m)
	m.opt = genOpt(r, ct)
	return m
}

// oddities: shapes net/http's parser does not produce but the struct allows
// (a modifier may have built them): header map entries shadowed by the
// Host / ContentLength / TransferEncoding fields, longer coding lists.
func oddities(r *hx.RNG, m *msgIn) {
	if !r.Chance(1, 12) {
		return
	}
	switch r.Intn(5) {
	case 0:
		if m.kind == "REQ" {
			m.hdr["Host"] = []string{"shadowed.example"}
		}
	case 1:
		m.hdr["Transfer-Encoding"] = []string{"shadowed"}
	case 2:
		if m.cl > 0 {
			m.hdr["Content-Length"] = []string{"999", "998"}
		}
	case 3:
		if len(m.te) > 0 {
			m.te = []string{"gzip", "chunked"}
		}
	default:
		if len(m.te) > 0 {
			m.te = []string{pick(r, "identity", "chunked, gzip", "Chunked")} // last coding is not "chunked": body kept as is
		}
	}
}

func genRes(r *hx.RNG, f flavour) *msgIn {
	m := &msgIn{kind: "RES", hdr: http.Header{}, proto: pick(r, "HTTP/1.1", "HTTP/1.1", "HTTP/1.0"), rm: "GET"}
	sts := []int{200, 200, 200, 201, 204, 206, 301, 302, 303, 304, 307, 308, 400, 404, 500, 299, 300, 399}
	m.status = sts[r.Intn(len(sts))]
	for i, n := 0, r.Intn(5); i < n; i++ {
		k := pick(r, "Server", "X-Test", "Cache-Control", "Set-Cookie", "Vary", "Etag", "Set-Cookie")
		v := pick(r, "martian", "no-cache", "a, b", "", "\"abc\"", "Accept-Encoding")
		if k == "Set-Cookie" {
			v = pick(r, "a=b", "sid=abc; Path=/; HttpOnly", "s=1; Domain=example.com; Secure; Path=/x",
				"e=1; Expires=Wed, 21 Oct 2065 07:28:00 GMT", "m=2; Max-Age=60", "broken", "q=\"v\"; SameSite=Lax",
				"del=; Expires=Thu, 01 Jan 1970 00:00:00 GMT; Path=/", genSetCookie(r), genSetCookie(r))
		}
		m.hdr[k] = append(m.hdr[k], v)
	}
	if (m.status >= 300 && m.status < 400 && r.Chance(4, 5)) || r.Chance(1, 10) {
		m.hdr["Location"] = []string{pick(r, "/next", "http://example.com/a?b=c", "https://other.example/%20x", "")}
		if r.Chance(1, 6) {
			m.hdr["Location"] = append(m.hdr["Location"], "/second")
		}
	}
	if f.nonUTF8Strings {
		m.hdr["X-Bin"] = []string{"\xff\xfeZ"}
	}
	ct := pick(r, "text/html; charset=utf-8", "application/json", "image/png", "text/plain", "", "application/octet-stream", "TEXT/CSS")
	if ct != "" {
		m.hdr["Content-Type"] = []string{ct}
	}
	size := genSize(r, f.big)
	plain := genBytes(r, size, r.Intn(4))
	m.body = plain
	switch k := r.Intn(20); {
	case k < 6:
		m.hdr["Content-Encoding"] = []string{"gzip"}
		m.body = gz(plain)
	case k < 10:
		m.hdr["Content-Encoding"] = []string{"deflate"}
		m.body = rawDeflate(plain)
	case k < 11:
		m.hdr["Content-Encoding"] = []string{pick(r, "identity", "br", "zstd", "gzip, br")}
	case k < 12 && f.malformed:
		m.hdr["Content-Encoding"] = []string{pick(r, "gzip", "deflate")}
		m.body = genBytes(r, size, 2) // not a valid stream
	}
	if m.status == 204 || m.status == 304 || r.Chance(1, 12) {
		m.body = nil // 204/304 and HEAD-like: headers of the entity, no body
		if r.Chance(1, 3) {
			m.rm = "HEAD"
		}
	}
	switch k := r.Intn(10); {
	case k < 5:
		m.cl = int64(len(m.body))
		m.hdr["Content-Length"] = []string{strconv.Itoa(len(m.body))}
	case k < 8 && m.proto == "HTTP/1.1":
		m.cl = -1
		m.te = []string{"chunked"}
	default:
		m.cl = -1 // close delimited
	}
	oddities(r, m)
	m.opt = genOpt(r, ct)
	return m
}

// wireReq sends a request through net/http's parser and derives the struct
// level description from what the parser hands to martian.
func wireReq(r *hx.RNG) *msgIn {
	bodyb := genBytes(r, r.Range(0, 200), r.Intn(4))
	var w bytes.Buffer
	target := pick(r, "http://example.com/w?a=1&a=2", "http://example.com/", "/origin-form?x=%41")
	fmt.Fprintf(&w, "%s %s HTTP/1.1\r\nHost: %s\r\n", pick(r, "POST", "PUT"), target, pick(r, "example.com", "example.com:8080"))
	fmt.Fprintf(&w, "%s: %s\r\n", pick(r, "content-type", "Content-Type"), pick(r, "text/plain", "application/octet-stream", "application/x-www-form-urlencoded"))
	if r.Chance(1, 2) {
		fmt.Fprintf(&w, "Cookie: a=1; b=2\r\nx-lower: v\r\nX-Multi: 1\r\nX-Multi: 2\r\n")
	}
	if r.Chance(1, 2) {
		fmt.Fprintf(&w, "Content-Length: %d\r\n\r\n", len(bodyb))
		w.Write(bodyb)
	} else {
		fmt.Fprintf(&w, "Transfer-Encoding: chunked\r\n\r\n")
		for i := 0; i < len(bodyb); {
			n := r.Range(1, 50)
			if i+n > len(bodyb) {
				n = len(bodyb) - i
			}
			fmt.Fprintf(&w, "%x\r\n%s\r\n", n, bodyb[i:i+n])
			i += n
		}
		fmt.Fprintf(&w, "0\r\n\r\n")
	}
	req, err := http.ReadRequest(bufio.NewReader(&w))
	if err != nil {
		return nil
	}
	got, err := ioutil.ReadAll(req.Body)
	if err != nil {
		return nil
	}
	return &msgIn{kind: "REQ", opt: "all", method: req.Method, url: req.URL.String(), proto: req.Proto, host: req.Host,
		cl: req.ContentLength, clSet: true, te: req.TransferEncoding, hdr: req.Header, body: got}
}

func wireRes(r *hx.RNG) *msgIn {
	plain := genBytes(r, r.Range(0, 300), r.Intn(4))
	bodyb := plain
	var w bytes.Buffer
	st := []int{200, 302, 404, 301}[r.Intn(4)]
	fmt.Fprintf(&w, "HTTP/1.1 %d %s\r\nContent-Type: text/plain\r\n", st, http.StatusText(st))
	if st/100 == 3 {
		fmt.Fprintf(&w, "Location: /there\r\n")
	}
	if r.Chance(1, 2) {
		bodyb = gz(plain)
		fmt.Fprintf(&w, "Content-Encoding: gzip\r\n")
	}
	if r.Chance(1, 2) {
		fmt.Fprintf(&w, "set-cookie: a=b; Path=/\r\n")
	}
	switch r.Intn(3) {
	case 0:
		fmt.Fprintf(&w, "Content-Length: %d\r\n\r\n", len(bodyb))
		w.Write(bodyb)
	case 1:
		fmt.Fprintf(&w, "Transfer-Encoding: chunked\r\n\r\n")
		for i := 0; i < len(bodyb); {
			n := r.Range(1, 64)
			if i+n > len(bodyb) {
				n = len(bodyb) - i
			}
			fmt.Fprintf(&w, "%X\r\n%s\r\n", n, bodyb[i:i+n])
			i += n
		}
		fmt.Fprintf(&w, "0\r\n\r\n")
	default:
		fmt.Fprintf(&w, "Connection: close\r\n\r\n")
		w.Write(bodyb)
	}
	rq, _ := http.NewRequest("GET", "http://example.com/", nil)
	res, err := http.ReadResponse(bufio.NewReader(&w), rq)
	if err != nil {
		return nil
	}
	got, err := ioutil.ReadAll(res.Body)
	if err != nil {
		return nil
	}
	return &msgIn{kind: "RES", opt: "all", status: res.StatusCode, proto: res.Proto, cl: res.ContentLength, clSet: true,
		te: res.TransferEncoding, hdr: res.Header, body: got, rm: "GET"}
}

func generate(cfg *hx.Config) {
	rng := hx.NewRNG(cfg.Seed)
	n := 0
	emit := func(tag string, m *msgIn) {
		if m == nil {
			return
		}
		n++
		in := m.tokens()
		cfg.Emit(hx.Case{Name: fmt.Sprintf("%s%d", tag, n), In: in, Out: runCase(in)})
		cfg.Count("kind=" + m.kind)
		cfg.Count("stream=" + tag)
		o := m.opt
		if i := strings.IndexByte(o, ':'); i >= 0 {
			o = o[:i]
		}
		cfg.Count("opt=" + o)
		fr := "cl"
		if len(m.te) > 0 {
			fr = "chunked"
		} else if m.cl < 0 {
			fr = "close"
		}
		cfg.Count("framing=" + fr)
		sz := len(m.body)
		switch {
		case sz == 0:
			cfg.Count("size=0")
		case sz <= 64:
			cfg.Count("size=1..64")
		case sz <= 4096:
			cfg.Count("size=65..4096")
		case sz <= 65536:
			cfg.Count("size=4097..65536")
		default:
			cfg.Count("size=>65536")
		}
		if ce := m.hdr.Get("Content-Encoding"); ce != "" {
			cfg.Count("content-encoding=" + ce)
		}
		if m.kind == "RES" {
			cfg.Count(fmt.Sprintf("status=%dxx", m.status/100))
		} else if ct := m.hdr.Get("Content-Type"); ct != "" {
			if i := strings.IndexAny(ct, ";"); i >= 0 {
				ct = ct[:i]
			}
			cfg.Count("req-content-type=" + strings.ToLower(ct))
		}
	}
	mult := 1
	if cfg.Thorough() {
		mult = 15
	}
	// 1. main stream: well-formed messages, all options
	for i := 0; i < 700*mult; i++ {
		r := rng.Fork()
		if i%2 == 0 {
			emit("req", genReq(r, flavour{big: i%50 == 0}))
		} else {
			emit("res", genRes(r, flavour{big: i%50 == 1}))
		}
	}
	// 2. through net/http's parser
	for i := 0; i < 120*mult; i++ {
		r := rng.Fork()
		if i%2 == 0 {
			emit("wreq", wireReq(r))
		} else {
			emit("wres", wireRes(r))
		}
	}
	// 3. malformed bodies (bad forms, truncated multipart, corrupt compressed streams)
	for i := 0; i < 120*mult; i++ {
		r := rng.Fork()
		if i%2 == 0 {
			emit("badreq", genReq(r, flavour{malformed: true}))
		} else {
			emit("badres", genRes(r, flavour{malformed: true}))
		}
	}
	// 4. defect neighbourhoods: strings that are not UTF-8 outside the body text,
	//    content-coding spellings, zlib-wrapped deflate
	for i := 0; i < 40*mult; i++ {
		r := rng.Fork()
		if i%2 == 0 {
			emit("nureq", genReq(r, flavour{nonUTF8Strings: true}))
		} else {
			emit("nures", genRes(r, flavour{nonUTF8Strings: true}))
		}
	}
	for i := 0; i < 24*mult; i++ {
		r := rng.Fork()
		m := genRes(r, flavour{})
		plain := genBytes(r, r.Range(1, 300), r.Intn(4))
		m.status, m.te, m.opt = 200, nil, "all"
		delete(m.hdr, "Content-Length")
		if i%2 == 0 {
			m.hdr["Content-Encoding"] = []string{pick(r, "GZIP", "Gzip", "Deflate", "DEFLATE")}
			if strings.ToLower(m.hdr["Content-Encoding"][0]) == "gzip" {
				m.body = gz(plain)
			} else {
				m.body = rawDeflate(plain)
			}
		} else {
			m.hdr["Content-Encoding"] = []string{"deflate"}
			m.body = zlibDeflate(plain)
		}
		m.cl = int64(len(m.body))
		emit("coding", m)
	}
	// 3b. multipart uploads in every boundary / Content-Type spelling, each framing
	for i := 0; i < 90*mult; i++ {
		r := rng.Fork()
		m := &msgIn{kind: "REQ", opt: pick(r, "all", "default", "in:"+hx.HexS("MULTIPART/"), "out:"+hx.HexS("text/")),
			method: "POST", url: "http://example.com/upload", proto: "HTTP/1.1", host: "example.com", hdr: http.Header{}}
		ct, b := genMultipart(r, false, false)
		m.hdr["Content-Type"] = []string{ct}
		m.body = b
		if r.Chance(1, 2) {
			m.cl, m.te = -1, []string{"chunked"}
		} else {
			m.cl = int64(len(b))
			m.hdr["Content-Length"] = []string{strconv.Itoa(len(b))}
		}
		emit("mp", m)
	}
	// 3c. messages as MODIFIERS can leave them: the ContentLength field, the
	//     TransferEncoding field and the Body as independent dimensions
	for i := 0; i < 160*mult; i++ {
		emit("tri", genTriple(rng.Fork(), i))
	}
	// 3d. compressed bodies as producers may legally emit them (multi-member gzip, optional
	//     header fields, every level, stored blocks; raw deflate at every level)
	for i := 0; i < 120*mult; i++ {
		emit("gz", genCompressed(rng.Fork(), i))
	}
	// 4a. boundary values of the entry fields (cookies with every attribute, statuses,
	//     versions, header / query values)
	for i := 0; i < 300*mult; i++ {
		r := rng.Fork()
		if i%3 == 0 {
			emit("breq", genBoundary(r, "REQ"))
		} else {
			emit("bres", genBoundary(r, "RES"))
		}
	}
	// 4b. the JSON codecs directly, on values the logger never builds
	for i := 0; i < 160*mult; i++ {
		r := rng.Fork()
		kind := []string{"PD", "CT", "PJ", "CJ"}[i%4]
		in := genDirect(r, kind)
		n++
		cfg.Emit(hx.Case{Name: fmt.Sprintf("json%d", n), In: in, Out: runCase(in)})
		cfg.Count("kind=" + kind)
		cfg.Count("stream=json")
	}
	// 5. sizes up to 1 MiB (3 MiB thorough), binary, each framing
	bigs := []int{262144, 1048576}
	if cfg.Thorough() {
		bigs = []int{262144, 1048575, 1048576, 1048577, 3145728}
	}
	for i, sz := range bigs {
		r := rng.Fork()
		q := &msgIn{kind: "REQ", opt: "all", method: "POST", url: "http://example.com/big", proto: "HTTP/1.1", host: "example.com",
			hdr: http.Header{"Content-Type": {"application/octet-stream"}}, body: genBytes(r, sz, 2), cl: -1, te: []string{"chunked"}}
		emit("bigreq", q)
		p := &msgIn{kind: "RES", opt: "all", status: 200, proto: "HTTP/1.1", rm: "GET",
			hdr: http.Header{"Content-Type": {"application/octet-stream"}, "Content-Encoding": {"gzip"}}, cl: -1}
		p.body = gz(genBytes(r, sz, 3))
		if i%2 == 0 {
			p.te = []string{"chunked"}
		}
		emit("bigres", p)
	}
}

// genTriple: ContentLength in {-1, 0, n, n-1, n+1, 1} x TransferEncoding in
// {none, chunked} x Body of 0 / n bytes; statuses and methods that allow a body.
func genTriple(r *hx.RNG, i int) *msgIn {
	n := []int{0, 0, 1, 3, 64, 700}[r.Intn(6)]
	plain := genBytes(r, n, r.Intn(4))
	m := &msgIn{hdr: http.Header{}, proto: pick(r, "HTTP/1.1", "HTTP/1.1", "HTTP/1.0"), opt: pick(r, "all", "all", "default", "none"), rm: "GET", clSet: true}
	m.body = plain
	ct := pick(r, "text/plain", "application/octet-stream", "application/json", "")
	if ct != "" {
		m.hdr["Content-Type"] = []string{ct}
	}
	if i%2 == 0 {
		m.kind = "REQ"
		m.method = pick(r, "POST", "PUT", "GET", "DELETE")
		m.url = "http://example.com/built-by-a-modifier"
		m.host = "example.com"
		if r.Chance(1, 5) && n > 0 {
			m.hdr["Content-Type"] = []string{"application/x-www-form-urlencoded"}
			m.body = []byte("a=1&b=2")
		}
	} else {
		m.kind = "RES"
		m.status = []int{200, 200, 201, 302, 404, 500, 206}[r.Intn(7)]
		if r.Chance(1, 4) && n > 0 {
			m.hdr["Content-Encoding"] = []string{"gzip"}
			m.body = gz(plain)
		}
	}
	l := int64(len(m.body))
	m.cl = []int64{-1, 0, 0, l, l, l - 1, l + 1, 1}[r.Intn(8)]
	if m.cl < -1 {
		m.cl = -1
	}
	if r.Chance(1, 3) {
		m.te = []string{"chunked"}
	}
	// a stale Content-Length header line in the map, or none, independently of the field
	switch r.Intn(3) {
	case 0:
		m.hdr["Content-Length"] = []string{strconv.FormatInt(l, 10)}
	case 1:
		if m.cl >= 0 {
			m.hdr["Content-Length"] = []string{strconv.FormatInt(m.cl, 10)}
		}
	}
	return m
}
