// gen_c04 reads, with go/ast, what becomes of the client connection once a
// blind CONNECT tunnel has ended, and writes it as Coq definitions
// (coq/C04/Gen_Ret.v):
//
//   - the last statement of (*Proxy).handleConnectRequest: `return errClose`
//     (tunnel_returns_errClose) as opposed to `return nil` / anything else;
//   - isCloseable lists errClose in its switch (errClose_is_closeable);
//   - handleLoop's for loop leaves with `return` when isCloseable(err) holds for
//     the result of p.handle (loop_returns_on_closeable);
//   - handleLoop defers conn.Close() (loop_defers_conn_close);
//   - handleConnectRequest defers cconn.Close() (connect_defers_cconn_close);
//   - handle(): a statement that replaces the traffic shaping context of the
//     client connection (`x.Context = &trafficshape.Context{}` under a type
//     assertion to *trafficshape.Conn) stands BEFORE the dispatch
//     `if req.Method == "CONNECT"` (shaping_reset_before_connect);
//   - proxy.go calls SetLinger nowhere (dial_sets_linger = false): the proxy's
//     Close of a connection it dialled is graceful, queued bytes are still sent;
//   - trafficshape/conn.go: (*Conn).WriteTo and (*Conn).ReadFrom — the two halves
//     of a tunnel on a shaped listener — take their tokens with FillThrottle, not
//     FillThrottleLocked (shaped_copy_unlocked): no lock of the listener-wide
//     bucket is held across a blocking read of one tunnel's connection;
//   - connect() and handleConnectRequest leave no deadline armed on a connection:
//     in source order per receiver, every SetDeadline / SetReadDeadline /
//     SetWriteDeadline with a non-zero time is followed by calls with time.Time{}
//     that clear both the read and the write side it armed
//     (tunnel_conns_no_armed_deadline).  handleLoop's idle deadline on the client
//     connection is not in these functions: it is the stated assumption;
//   - connect(): which answers of the downstream proxy are taken as "tunnel
//     established, no body": `res.StatusCode/100 == 2` (downstream_any_2xx) as
//     opposed to a comparison with 200 / http.StatusOK.
//
// Deliberately dumb: if a function or the expected shape is gone it fails
// loudly (broken tie).
package main

import (
	"flag"
	"fmt"
	"go/ast"
	"go/parser"
	"go/token"
	"os"
	"path/filepath"
)

func fail(f string, a ...interface{}) {
	fmt.Fprintf(os.Stderr, "gen_c04: "+f+"\n", a...)
	os.Exit(1)
}

func isIdent(e ast.Expr, name string) bool {
	id, ok := e.(*ast.Ident)
	return ok && id.Name == name
}

func callTo(e ast.Expr, name string) bool {
	c, ok := e.(*ast.CallExpr)
	return ok && isIdent(c.Fun, name)
}

func main() {
	repo := flag.String("repo", "/repo", "")
	out := flag.String("out", ".", "")
	flag.Parse()
	fset := token.NewFileSet()
	f, err := parser.ParseFile(fset, filepath.Join(*repo, "proxy.go"), nil, 0)
	if err != nil {
		fail("%v", err)
	}
	funcs := map[string]*ast.FuncDecl{}
	for _, d := range f.Decls {
		if fd, ok := d.(*ast.FuncDecl); ok && fd.Body != nil {
			funcs[fd.Name.Name] = fd
		}
	}
	hc, hl, ic, cn, hd := funcs["handleConnectRequest"], funcs["handleLoop"], funcs["isCloseable"], funcs["connect"], funcs["handle"]
	if hc == nil || hl == nil || ic == nil || cn == nil || hd == nil {
		fail("handleConnectRequest / handleLoop / isCloseable / connect / handle not found in proxy.go")
	}

	// handleConnectRequest: defer cconn.Close()
	defersCconn := false
	for _, st := range hc.Body.List {
		if d, ok := st.(*ast.DeferStmt); ok {
			if sel, ok := d.Call.Fun.(*ast.SelectorExpr); ok && isIdent(sel.X, "cconn") && sel.Sel.Name == "Close" {
				defersCconn = true
			}
		}
	}

	// handle(): shaping context reset before the CONNECT dispatch (top-level statements only)
	resetBefore, sawDispatch := false, false
	for _, st := range hd.Body.List {
		is, ok := st.(*ast.IfStmt)
		if !ok {
			continue
		}
		if be, ok := is.Cond.(*ast.BinaryExpr); ok && be.Op == token.EQL {
			if sel, ok := be.X.(*ast.SelectorExpr); ok && sel.Sel.Name == "Method" {
				if lit, ok := be.Y.(*ast.BasicLit); ok && lit.Value == `"CONNECT"` {
					sawDispatch = true
					break
				}
			}
		}
		// if ptsconn, ok := conn.(*trafficshape.Conn); ok { ptsconn.Context = &trafficshape.Context{} }
		as, ok := is.Init.(*ast.AssignStmt)
		if !ok || len(as.Rhs) != 1 {
			continue
		}
		ta, ok := as.Rhs[0].(*ast.TypeAssertExpr)
		if !ok {
			continue
		}
		star, ok := ta.Type.(*ast.StarExpr)
		if !ok {
			continue
		}
		if sel, ok := star.X.(*ast.SelectorExpr); !ok || !isIdent(sel.X, "trafficshape") || sel.Sel.Name != "Conn" {
			continue
		}
		for _, b := range is.Body.List {
			if a2, ok := b.(*ast.AssignStmt); ok && len(a2.Lhs) == 1 {
				if sel, ok := a2.Lhs[0].(*ast.SelectorExpr); ok && sel.Sel.Name == "Context" {
					resetBefore = true
				}
			}
		}
	}
	if !sawDispatch {
		fail("handle(): the dispatch `if req.Method == \"CONNECT\"` was not found")
	}

	// 0. connect(): the test on the downstream proxy's status
	isStatus := func(e ast.Expr) bool {
		sel, ok := e.(*ast.SelectorExpr)
		return ok && sel.Sel.Name == "StatusCode"
	}
	any2xx, found2xx := false, 0
	ast.Inspect(cn.Body, func(n ast.Node) bool {
		is, ok := n.(*ast.IfStmt)
		if !ok {
			return true
		}
		be, ok := is.Cond.(*ast.BinaryExpr)
		if !ok || be.Op != token.EQL {
			return true
		}
		if div, ok := be.X.(*ast.BinaryExpr); ok && div.Op == token.QUO && isStatus(div.X) {
			d, ok1 := div.Y.(*ast.BasicLit)
			v, ok2 := be.Y.(*ast.BasicLit)
			if ok1 && ok2 && d.Value == "100" && v.Value == "2" {
				any2xx = true
				found2xx++
			}
			return true
		}
		if isStatus(be.X) {
			found2xx++ // compared with one particular status
		}
		return true
	})
	if found2xx != 1 {
		fail("connect(): expected exactly one test of the downstream response's StatusCode, found %d", found2xx)
	}

	// 1. the tunnel branch is the end of handleConnectRequest
	if len(hc.Body.List) == 0 {
		fail("handleConnectRequest is empty")
	}
	last, ok := hc.Body.List[len(hc.Body.List)-1].(*ast.ReturnStmt)
	if !ok || len(last.Results) != 1 {
		fail("handleConnectRequest does not end with a single-value return")
	}
	retErrClose := isIdent(last.Results[0], "errClose")
	if !retErrClose && !isIdent(last.Results[0], "nil") {
		// some other expression: cannot tell, treat as "not a closing result" but say so
		fmt.Fprintf(os.Stderr, "gen_c04: note: tunnel returns neither errClose nor nil\n")
	}

	// 2. isCloseable: a case clause listing errClose whose body returns true
	closeable := false
	ast.Inspect(ic.Body, func(n ast.Node) bool {
		cc, ok := n.(*ast.CaseClause)
		if !ok {
			return true
		}
		has := false
		for _, e := range cc.List {
			if isIdent(e, "errClose") {
				has = true
			}
		}
		if has {
			for _, st := range cc.Body {
				if r, ok := st.(*ast.ReturnStmt); ok && len(r.Results) == 1 && isIdent(r.Results[0], "true") {
					closeable = true
				}
			}
		}
		return true
	})

	// 3. handleLoop: for { if err := p.handle(...); isCloseable(err) { ...; return } }
	loopRet := false
	deferClose := false
	for _, st := range hl.Body.List {
		if d, ok := st.(*ast.DeferStmt); ok {
			if sel, ok := d.Call.Fun.(*ast.SelectorExpr); ok && isIdent(sel.X, "conn") && sel.Sel.Name == "Close" {
				deferClose = true
			}
		}
		fs, ok := st.(*ast.ForStmt)
		if !ok {
			continue
		}
		for _, b := range fs.Body.List {
			is, ok := b.(*ast.IfStmt)
			if !ok || !callTo(is.Cond, "isCloseable") || is.Init == nil {
				continue
			}
			as, ok := is.Init.(*ast.AssignStmt)
			if !ok || len(as.Rhs) != 1 {
				continue
			}
			call, ok := as.Rhs[0].(*ast.CallExpr)
			if !ok {
				continue
			}
			if sel, ok := call.Fun.(*ast.SelectorExpr); !ok || sel.Sel.Name != "handle" {
				continue
			}
			for _, s2 := range is.Body.List {
				if _, ok := s2.(*ast.ReturnStmt); ok {
					loopRet = true
				}
			}
		}
	}

	// SetLinger anywhere in proxy.go
	setsLinger := false
	ast.Inspect(f, func(n ast.Node) bool {
		if c, ok := n.(*ast.CallExpr); ok {
			if sel, ok := c.Fun.(*ast.SelectorExpr); ok && sel.Sel.Name == "SetLinger" {
				setsLinger = true
			}
		}
		return true
	})

	// trafficshape.Conn.WriteTo / ReadFrom
	tf, err := parser.ParseFile(fset, filepath.Join(*repo, "trafficshape", "conn.go"), nil, 0)
	if err != nil {
		fail("%v", err)
	}
	unlocked, seen := true, 0
	for _, d := range tf.Decls {
		fd, ok := d.(*ast.FuncDecl)
		if !ok || fd.Recv == nil || fd.Body == nil || (fd.Name.Name != "WriteTo" && fd.Name.Name != "ReadFrom") {
			continue
		}
		plain := false
		ast.Inspect(fd.Body, func(n ast.Node) bool {
			if c, ok := n.(*ast.CallExpr); ok {
				if sel, ok := c.Fun.(*ast.SelectorExpr); ok {
					switch sel.Sel.Name {
					case "FillThrottle":
						plain = true
					case "FillThrottleLocked":
						unlocked = false
					}
				}
			}
			return true
		})
		if plain {
			seen++
		}
	}
	if seen != 2 && unlocked {
		fail("trafficshape/conn.go: WriteTo and ReadFrom calling FillThrottle not found (%d)", seen)
	}

	// deadlines armed and not cleared inside connect / handleConnectRequest
	noArmed := true
	for _, fd := range []*ast.FuncDecl{cn, hc} {
		armedR, armedW := map[string]bool{}, map[string]bool{}
		ast.Inspect(fd.Body, func(n ast.Node) bool {
			c, ok := n.(*ast.CallExpr)
			if !ok {
				return true
			}
			sel, ok := c.Fun.(*ast.SelectorExpr)
			if !ok || len(c.Args) != 1 {
				return true
			}
			name := sel.Sel.Name
			if name != "SetDeadline" && name != "SetReadDeadline" && name != "SetWriteDeadline" {
				return true
			}
			recv := "?"
			if id, ok := sel.X.(*ast.Ident); ok {
				recv = id.Name
			}
			zero := false
			if cl, ok := c.Args[0].(*ast.CompositeLit); ok && len(cl.Elts) == 0 {
				if ts, ok := cl.Type.(*ast.SelectorExpr); ok && isIdent(ts.X, "time") && ts.Sel.Name == "Time" {
					zero = true
				}
			}
			if name != "SetWriteDeadline" {
				armedR[recv] = !zero
			}
			if name != "SetReadDeadline" {
				armedW[recv] = !zero
			}
			return true
		})
		for _, m := range []map[string]bool{armedR, armedW} {
			for _, v := range m {
				if v {
					noArmed = false
				}
			}
		}
	}

	b := func(v bool) string {
		if v {
			return "true"
		}
		return "false"
	}
	src := "(* generated by harness/cmd/gen_c04 from proxy.go (go/ast); do not edit *)\n" +
		"Definition tunnel_returns_errClose : bool := " + b(retErrClose) + ".\n" +
		"Definition errClose_is_closeable : bool := " + b(closeable) + ".\n" +
		"Definition loop_returns_on_closeable : bool := " + b(loopRet) + ".\n" +
		"Definition loop_defers_conn_close : bool := " + b(deferClose) + ".\n" +
		"Definition downstream_any_2xx : bool := " + b(any2xx) + ".\n" +
		"Definition connect_defers_cconn_close : bool := " + b(defersCconn) + ".\n" +
		"Definition shaping_reset_before_connect : bool := " + b(resetBefore) + ".\n" +
		"Definition dial_sets_linger : bool := " + b(setsLinger) + ".\n" +
		"Definition shaped_copy_unlocked : bool := " + b(unlocked) + ".\n" +
		"Definition tunnel_conns_no_armed_deadline : bool := " + b(noArmed) + ".\n"
	if err := os.WriteFile(filepath.Join(*out, "Gen_Ret.v"), []byte(src), 0o644); err != nil {
		fail("%v", err)
	}
}
