// c19 drives the real marbl.Stream / marbl.Modifier / marbl.Reader.
//
// Two kinds of case.
//
// RD x<hex>     the byte string is fed to marbl.NewReader(...).ReadFrame in a
//
//	loop until it fails.  Runs in a child process (this binary with
//	-extra rdchild) so that a fatal error or a multi-GiB allocation
//	provoked by hostile length fields cannot take the harness down;
//	the child is replaced after any case that allocated > 256 MiB.
//	OUT: frame tokens then E:eof | E:unexp | E:unknown | E:other |
//	PANIC | CRASH | TIMEOUT, then A:<bytes allocated, bucketed>.
//
// MS <case tokens> (M <message tokens>)+
//
//	messages are logged to one real marbl.Stream (V=s, default) or through
//	one marbl.Modifier (V=m) writing into a buffer, by T=<n> goroutines
//	(message j runs on goroutine j mod n: log, then read the body through
//	the logging wrapper).  Message tokens (any may be omitted):
//	 k=Q|S  id=x..  me= sc= au= pa= qu= pr= ra= re= (hex strings)  st=<int>
//	 api=1  ho=x..  cl=<n>  te=x.. (repeatable)  te0 (empty non-nil)
//	 h=xNAME:xVALUE (repeatable)
//	 bd=<len>:<seed> (pattern body)  bx=x.. (explicit body)
//	 ck=<n> (repeatable: max bytes the body returns per call, cycled)
//	 rb=<n> (repeatable: consumer buffer sizes, cycled; default 4096)
//	 eof=d  (EOF/error returned together with the last bytes; default: alone)
//	 err=<off> (body fails with a non-EOF error at this offset)
//	 zr=<k> (repeatable: the k-th body call returns 0,nil)
//	 stop=<k> (consumer closes after k reads)  more=<k> (k reads after the first error)
//	OUT: per message  m<j> cid=x.. ep=x.. t0= t1= U=<n>:<e>,.. W=<n>:<e>,.. WB=x.. [P=PANIC]
//	     then per sink section (see sinks.go)  SINK=<name> NW=<writes> RAW=x.. and the
//	     frames marbl.Reader decodes from it, as for RD.
package main

import (
	"bufio"
	"bytes"
	"errors"
	"fmt"
	"io"
	"net/http"
	"net/url"
	"os"
	"os/exec"
	"regexp"
	"runtime/metrics"
	"strconv"
	"strings"
	"sync"
	"time"

	"github.com/google/martian/v3"
	mlog "github.com/google/martian/v3/log"
	"github.com/google/martian/v3/marbl"
	"verifharness/hx"
)

// ---------------------------------------------------------------- reader

func frameTok(f marbl.Frame) string {
	switch v := f.(type) {
	case marbl.Header:
		return fmt.Sprintf("H:%s:%d:%s:%s", hx.HexS(v.ID), uint8(v.MessageType), hx.HexS(v.Name), hx.HexS(v.Value))
	case marbl.Data:
		t := 0
		if v.Terminal {
			t = 1
		}
		return fmt.Sprintf("D:%s:%d:%d:%d:%s", hx.HexS(v.ID), uint8(v.MessageType), v.Index, t, hx.Hex(v.Data))
	}
	return "F:?"
}

func errTok(err error) string {
	switch {
	case err == io.EOF:
		return "E:eof"
	case err == io.ErrUnexpectedEOF:
		return "E:unexp"
	case strings.Contains(err.Error(), "unknown type of frame"):
		return "E:unknown"
	}
	return "E:other"
}

func heapAllocs() uint64 {
	s := []metrics.Sample{{Name: "/gc/heap/allocs:bytes"}}
	metrics.Read(s)
	return s[0].Value.Uint64()
}

func allocBucket(n uint64, in int) string {
	switch {
	case n <= uint64(64<<10+16*in):
		return "A:small"
	case n <= 256<<20:
		return "A:mid"
	}
	return "A:huge"
}

// rdChild: one hex token per line on stdin, one line of OUT tokens per case.
func rdChild() {
	in := bufio.NewReaderSize(os.Stdin, 1<<20)
	out := bufio.NewWriter(os.Stdout)
	for {
		line, err := in.ReadString('\n')
		line = strings.TrimSpace(line)
		if line != "" {
			b, e := hx.UnHex(line)
			if e != nil {
				fmt.Fprintln(out, "badcase")
			} else {
				a0 := heapAllocs()
				toks := readAll(b)
				d := heapAllocs() - a0
				toks = append(toks, allocBucket(d, len(b)))
				fmt.Fprintln(out, strings.Join(toks, " "))
				out.Flush()
				if d > 256<<20 {
					return // a fresh process for the next case
				}
			}
			out.Flush()
		}
		if err != nil {
			return
		}
	}
}

type rdPool struct {
	n   int
	cmd *exec.Cmd
	in  io.WriteCloser
	out *bufio.Reader
}

func (p *rdPool) start() error {
	p.cmd = exec.Command(os.Args[0], "-extra", "rdchild")
	p.cmd.Stderr = io.Discard
	in, err := p.cmd.StdinPipe()
	if err != nil {
		return err
	}
	o, err := p.cmd.StdoutPipe()
	if err != nil {
		return err
	}
	p.in, p.out = in, bufio.NewReaderSize(o, 1<<20)
	return p.cmd.Start()
}

func (p *rdPool) stop() {
	if p.cmd != nil {
		p.in.Close()
		p.cmd.Process.Kill()
		p.cmd.Wait()
		p.cmd = nil
	}
}

func (p *rdPool) run(tok string) []string {
	// a young child: a multi-GiB allocation in a process that has already
	// run a few thousand cases was measured to cost ~0.5 s, in a fresh one ~5 ms
	if p.n++; p.n%rdChildCases == 0 {
		p.stop()
	}
	if p.cmd == nil {
		if err := p.start(); err != nil {
			return []string{"harness-error:" + strings.ReplaceAll(err.Error(), " ", "_")}
		}
	}
	type res struct {
		line string
		err  error
	}
	ch := make(chan res, 1)
	go func() {
		if _, err := io.WriteString(p.in, tok+"\n"); err != nil {
			ch <- res{"", err}
			return
		}
		l, err := p.out.ReadString('\n')
		ch <- res{l, err}
	}()
	select {
	case r := <-ch:
		if r.err != nil || !strings.HasSuffix(r.line, "\n") {
			p.stop()
			return []string{"CRASH"}
		}
		toks := strings.Fields(r.line)
		if len(toks) > 0 && toks[len(toks)-1] == "A:huge" {
			p.stop()
		}
		return toks
	case <-time.After(120 * time.Second):
		p.stop()
		return []string{"TIMEOUT"}
	}
}

// ---------------------------------------------------------------- bodies

func patByte(seed uint64, i int) byte {
	return byte(uint64(i)*131 + uint64(i>>8)*31 + uint64(i>>16)*17 + seed)
}

var errInjected = errors.New("injected body error")

type readRes struct {
	n int
	e byte // 'n' nil, 'e' io.EOF, 'o' other
}

func kindOf(err error) byte {
	switch {
	case err == nil:
		return 'n'
	case err == io.EOF:
		return 'e'
	}
	return 'o'
}

type scriptBody struct {
	data    []byte
	off     int
	end     int
	termErr error
	chunks  []int
	withEnd bool
	zero    map[int]bool
	calls   int
	done    bool
	log     []readRes
	closed  int
}

func (b *scriptBody) Read(p []byte) (n int, err error) {
	k := b.calls
	b.calls++
	defer func() { b.log = append(b.log, readRes{n, kindOf(err)}) }()
	if b.done {
		return 0, b.termErr
	}
	if b.zero[k] || len(p) == 0 {
		return 0, nil
	}
	lim := len(p)
	if len(b.chunks) > 0 {
		if c := b.chunks[k%len(b.chunks)]; c > 0 && c < lim {
			lim = c
		}
	}
	n = b.end - b.off
	if n > lim {
		n = lim
	}
	copy(p, b.data[b.off:b.off+n])
	b.off += n
	if b.off == b.end && (b.withEnd || n == 0) {
		b.done = true
		return n, b.termErr
	}
	return n, nil
}

func (b *scriptBody) Close() error { b.closed++; return nil }

// ---------------------------------------------------------------- messages

type message struct {
	kind                               string
	id                                 string
	me, sc, au, pa, qu, pr, ra, re, ho string
	st                                 int
	api                                bool
	cl                                 int64
	te                                 []string
	hdr                                [][2]string
	body                               []byte
	ck, rb                             []int
	eofData                            bool
	errAt                              int
	zr                                 map[int]bool
	stop, more                         int
	br                                 string // representation of the body: "" scripted, nil nobody bytes strings nop newreq readreq
	hold                               int    // pause after this many reads until the second phase
	park                               func() // set by runMS
}

type caseSpec struct {
	via       string
	thr       int
	fast, lag int    // V=h: websocket subscribers
	failK     int    // V=f, F=<k>:<mode>: the sink fails on its k-th Write
	failMode  string // once ever short slow
	ns        int    // NS=n: the same messages are logged to n independent streams (or Modifiers)
	phase     int    // PH=k: messages k.. are logged in a second phase, after lagging subscribers were released
	join      int    // J=n: subscribers joining between the phases
	msgs      []*message
}

func unhexS(v string) (string, bool) {
	b, err := hx.UnHex(v)
	return string(b), err == nil
}

func parseMS(in []string) (*caseSpec, bool) {
	cs := &caseSpec{via: "s", thr: 1, fast: 1, lag: 1, ns: 1}
	var m *message
	for _, t := range in {
		if t == "M" {
			m = &message{kind: "Q", id: "00000000", me: "GET", sc: "http", au: "example.com", pa: "/", pr: "HTTP/1.1",
				st: 200, re: "200 OK", errAt: -1, zr: map[int]bool{}}
			cs.msgs = append(cs.msgs, m)
			continue
		}
		if t == "te0" && m != nil {
			if m.te == nil {
				m.te = []string{}
			}
			continue
		}
		kv := strings.SplitN(t, "=", 2)
		if len(kv) != 2 {
			return nil, false
		}
		k, v := kv[0], kv[1]
		if m == nil {
			switch k {
			case "V":
				cs.via = v
			case "T":
				n, err := strconv.Atoi(v)
				if err != nil || n < 1 || n > 64 {
					return nil, false
				}
				cs.thr = n
			case "PH", "J", "CAP", "NS":
				n, err := strconv.Atoi(v)
				if err != nil || n < 0 || n > 1<<20 {
					return nil, false
				}
				if k == "NS" {
					if n < 1 || n > 4 {
						return nil, false
					}
					cs.ns = n
				} else if k == "PH" {
					cs.phase = n
				} else if k == "J" {
					cs.join = n
				}
			case "F":
				p := strings.SplitN(v, ":", 2)
				n, err := strconv.Atoi(p[0])
				if err != nil || n < 0 || len(p) != 2 || !strings.Contains(" once ever short slow ", " "+p[1]+" ") {
					return nil, false
				}
				cs.failK, cs.failMode = n, p[1]
			case "S":
				var f, l int
				if _, err := fmt.Sscanf(v, "%d:%d", &f, &l); err != nil || f < 0 || l < 0 || f+l < 1 || f+l > 8 {
					return nil, false
				}
				cs.fast, cs.lag = f, l
			default:
				return nil, false
			}
			continue
		}
		str := func(dst *string) bool {
			s, ok := unhexS(v)
			*dst = s
			return ok
		}
		num := func() (int, bool) {
			n, err := strconv.Atoi(v)
			return n, err == nil && n >= 0 && n <= 1<<26
		}
		ok := true
		switch k {
		case "k":
			m.kind = v
			ok = v == "Q" || v == "S"
		case "id":
			ok = str(&m.id)
		case "me":
			ok = str(&m.me)
		case "sc":
			ok = str(&m.sc)
		case "au":
			ok = str(&m.au)
		case "pa":
			ok = str(&m.pa)
		case "qu":
			ok = str(&m.qu)
		case "pr":
			ok = str(&m.pr)
		case "ra":
			ok = str(&m.ra)
		case "re":
			ok = str(&m.re)
		case "ho":
			ok = str(&m.ho)
		case "st":
			m.st, ok = num()
		case "api":
			m.api = v == "1"
		case "cl":
			var n int
			n, ok = num()
			m.cl = int64(n)
		case "te":
			var s string
			ok = str(&s)
			m.te = append(m.te, s)
		case "h":
			p := strings.SplitN(v, ":", 2)
			if len(p) != 2 {
				return nil, false
			}
			a, ok1 := unhexS(p[0])
			b, ok2 := unhexS(p[1])
			ok = ok1 && ok2
			m.hdr = append(m.hdr, [2]string{a, b})
		case "bd":
			p := strings.SplitN(v, ":", 2)
			if len(p) != 2 {
				return nil, false
			}
			n, e1 := strconv.Atoi(p[0])
			sd, e2 := strconv.ParseUint(p[1], 10, 31)
			if e1 != nil || e2 != nil || n < 0 || n > 1<<24 {
				return nil, false
			}
			m.body = make([]byte, n)
			for i := range m.body {
				m.body[i] = patByte(sd, i)
			}
		case "bx":
			b, err := hx.UnHex(v)
			ok = err == nil
			m.body = b
		case "ck":
			var n int
			n, ok = num()
			m.ck = append(m.ck, n)
		case "rb":
			var n int
			n, ok = num()
			ok = ok && n >= 1
			m.rb = append(m.rb, n)
		case "eof":
			m.eofData = v == "d"
		case "err":
			m.errAt, ok = num()
		case "zr":
			var n int
			n, ok = num()
			m.zr[n] = true
		case "stop":
			m.stop, ok = num()
		case "hold":
			m.hold, ok = num()
		case "br":
			m.br = v
			ok = strings.Contains(" nil nobody bytes strings nop newreq readreq ", " "+v+" ")
		case "more":
			m.more, ok = num()
			ok = ok && m.more <= 64
		default:
			ok = false
		}
		if !ok {
			return nil, false
		}
	}
	if len(cs.msgs) == 0 || !strings.Contains("s m r h f", cs.via) || len(cs.via) != 1 {
		return nil, false
	}
	return cs, true
}

// lockedBuf is the stream's writer.
type lockedBuf struct {
	mu     sync.Mutex
	b      bytes.Buffer
	writes int
	cutID  string // V=m only: drop everything from the first chunk carrying this wire id
	cut    bool
}

func (l *lockedBuf) Write(p []byte) (int, error) {
	l.mu.Lock()
	defer l.mu.Unlock()
	if l.cutID != "" && len(p) >= 10 && string(p[2:10]) == l.cutID {
		l.cut = true
	}
	if !l.cut {
		l.b.Write(p)
		l.writes++
	}
	return len(p), nil
}

type msgOut struct {
	toks []string
}

func fmtReads(rs []readRes) string {
	if len(rs) == 0 {
		return "-"
	}
	var sb strings.Builder
	for i, r := range rs {
		if i > 0 {
			sb.WriteByte(',')
		}
		sb.WriteString(strconv.Itoa(r.n))
		sb.WriteByte(':')
		sb.WriteByte(r.e)
	}
	return sb.String()
}

func nowMs() int64 { return time.Now().UnixNano() / 1000 / 1000 }

// stdBody builds a body that is NOT the harness's scripted body: the
// representations net/http itself produces or that callers commonly pass.
func stdBody(kind string, data []byte) io.ReadCloser {
	switch kind {
	case "nil":
		return nil
	case "nobody":
		return http.NoBody
	case "bytes":
		return io.NopCloser(bytes.NewReader(data))
	case "strings":
		return io.NopCloser(strings.NewReader(string(data)))
	case "nop":
		return io.NopCloser(bytes.NewBuffer(append([]byte(nil), data...)))
	case "newreq": // http.NewRequest: http.NoBody for an empty reader, a NopCloser otherwise
		r, err := http.NewRequest("POST", "http://example.com/", bytes.NewReader(data))
		if err != nil {
			return nil
		}
		return r.Body
	case "readreq": // http.ReadRequest of a bodiless request: http.NoBody
		r, err := http.ReadRequest(bufio.NewReader(strings.NewReader("GET / HTTP/1.1\r\nHost: example.com\r\n\r\n")))
		if err != nil {
			return nil
		}
		return r.Body
	}
	return nil
}

// runMessage logs one message to every stream (or through every Modifier), in
// order, then reads the body through the outermost wrapper.
func runMessage(m *message, ss []*marbl.Stream, mods []*marbl.Modifier) (out []string) {
	end := len(m.body)
	var termErr error = io.EOF
	if m.errAt >= 0 && m.errAt <= len(m.body) {
		end = m.errAt
		termErr = errInjected
	}
	var sb *scriptBody
	var body io.ReadCloser
	if m.br == "" {
		sb = &scriptBody{data: m.body, end: end, termErr: termErr, chunks: m.ck, withEnd: m.eofData, zero: m.zr}
		body = sb
	} else if b := stdBody(m.br, m.body); b != nil {
		body = b // (a nil *interface value* must stay nil)
	}

	hdr := http.Header{}
	for _, h := range m.hdr {
		hdr[h[0]] = append(hdr[h[0]], h[1])
	}
	req := &http.Request{Method: m.me, URL: &url.URL{Scheme: m.sc, Host: m.au, Path: m.pa, RawQuery: m.qu},
		Proto: m.pr, Header: http.Header{}, Host: m.ho, RemoteAddr: m.ra, Body: http.NoBody}
	var res *http.Response
	if m.kind == "Q" {
		req.Header = hdr
		req.ContentLength = m.cl
		req.TransferEncoding = m.te
		req.Body = body
	} else {
		res = &http.Response{Proto: m.pr, StatusCode: m.st, Status: m.re, Header: hdr, ContentLength: m.cl,
			TransferEncoding: m.te, Body: body, Request: req}
	}
	ctx, remove, err := martian.TestContext(req, nil, nil)
	if err != nil {
		return []string{"harness-error:testcontext"}
	}
	defer remove()
	if m.api {
		ctx.APIRequest()
	}
	id := m.id
	if len(mods) > 0 {
		id = ctx.ID()
	}
	out = append(out, "cid="+hx.HexS(id), "ep="+hx.HexS(req.URL.EscapedPath()))

	var wrapped io.ReadCloser
	panicked := false
	t0 := nowMs()
	func() {
		defer func() {
			if p := recover(); p != nil {
				panicked = true
			}
		}()
		for _, mod := range mods {
			if m.kind == "Q" {
				mod.ModifyRequest(req)
			} else {
				mod.ModifyResponse(res)
			}
		}
		for _, s := range ss {
			if m.kind == "Q" {
				s.LogRequest(id, req)
			} else {
				s.LogResponse(id, res)
			}
		}
	}()
	t1 := nowMs()
	out = append(out, fmt.Sprintf("t0=%d", t0), fmt.Sprintf("t1=%d", t1))
	if panicked {
		return append(out, "P=PANIC")
	}
	if m.kind == "Q" {
		wrapped = req.Body
	} else {
		wrapped = res.Body
	}
	if wrapped == nil {
		// the body was nil and logging left it nil: nothing to read
		return append(out, "U=-", "W=-", "WB=x", "BODY=nil")
	}

	// the consumer
	var got bytes.Buffer
	var w []readRes
	var sizes []int
	rb := m.rb
	if len(rb) == 0 {
		rb = []int{4096}
	}
	more := m.more
	func() {
		defer func() {
			if p := recover(); p != nil {
				panicked = true
			}
		}()
		// a consumer gives up eventually (a wrapper that hid the error would
		// otherwise be read forever)
		for k := 0; k < 6000+2*len(m.body); k++ {
			if m.stop > 0 && k >= m.stop {
				break
			}
			if m.hold > 0 && k == m.hold && m.park != nil {
				m.park()
			}
			buf := make([]byte, rb[k%len(rb)])
			n, err := wrapped.Read(buf)
			sizes = append(sizes, len(buf))
			if n < 0 || n > len(buf) {
				w = append(w, readRes{n, '!'})
				break
			}
			w = append(w, readRes{n, kindOf(err)})
			got.Write(buf[:n])
			if err != nil {
				if more > 0 {
					more--
					continue
				}
				break
			}
		}
		wrapped.Close()
	}()
	var u []readRes
	if sb != nil {
		u = sb.log
		out = append(out, fmt.Sprintf("CL=%d", sb.closed))
	} else if twin := stdBody(m.br, m.body); twin != nil && !panicked {
		// what the underlying body returns: the same Read calls on a twin
		for _, sz := range sizes {
			n, err := twin.Read(make([]byte, sz))
			u = append(u, readRes{n, kindOf(err)})
		}
	}
	out = append(out, "U="+fmtReads(u), "W="+fmtReads(w), "WB="+hx.Hex(got.Bytes()))
	if panicked {
		out = append(out, "RP=PANIC")
	}
	return out
}

// watchdog: how long logging calls, body reads and Stream.Close may take
// before the case is reported as hanging.  Short for failing-sink cases (tiny
// messages), so that a stream that stops serving its senders is reported
// within the quick budget.
func watchdog(cs *caseSpec) time.Duration {
	if cs.via == "f" {
		return 8 * time.Second
	}
	return 90 * time.Second
}

func runMS(in []string) []string {
	cs, ok := parseMS(in)
	if !ok {
		return []string{"badcase"}
	}
	// sinks[k] receives stream k; stream 0 uses the sink chosen by V=, further
	// streams (NS=n) write into plain buffers
	lb := &lockedBuf{}
	sinks := []sink{lb}
	switch cs.via {
	case "r":
		sinks[0] = &retainSink{}
	case "h":
		sinks[0] = newHandlerSink(cs.fast, cs.lag)
	case "f":
		mode := cs.failMode
		if mode == "" {
			mode = "once"
		}
		fs := &failSink{k: cs.failK, mode: mode, phase: cs.phase}
		if cs.phase == 0 {
			// no phase-1 messages (only a shrunk case looks like this): every
			// message is judged in full, so a single failure must not happen
			fs.disarm()
		}
		sinks[0] = fs
	}
	sk := sinks[0]
	lbs := []*lockedBuf{lb}
	for k := 1; k < cs.ns; k++ {
		b := &lockedBuf{}
		sinks = append(sinks, b)
		lbs = append(lbs, b)
	}
	var ss []*marbl.Stream
	var mods []*marbl.Modifier
	for k := 0; k < cs.ns; k++ {
		if cs.via == "m" {
			mods = append(mods, marbl.NewModifier(sinks[k]))
		} else {
			ss = append(ss, marbl.NewStream(sinks[k]))
		}
	}
	outs := make([][]string, len(cs.msgs))
	done := make(chan struct{})
	go func() {
		var wg sync.WaitGroup
		if cs.phase > 0 && cs.phase <= len(cs.msgs) {
			// two phases, one goroutine per message: phase 1 = messages
			// [0,PH) up to completion or their hold point; then lagging
			// subscribers are released and drained, J subscribers join; then
			// held messages continue and messages [PH,..) are logged
			var p1 sync.WaitGroup
			gate := make(chan struct{})
			for j := range cs.msgs {
				j := j
				m := cs.msgs[j]
				wg.Add(1)
				if j < cs.phase {
					p1.Add(1)
					var once sync.Once
					m.park = func() { once.Do(p1.Done); <-gate }
					go func() {
						defer wg.Done()
						outs[j] = runMessage(m, ss, mods)
						once.Do(p1.Done)
					}()
				} else {
					go func() {
						defer wg.Done()
						<-gate
						outs[j] = runMessage(m, ss, mods)
					}()
				}
			}
			p1.Wait()
			if fs, ok := sinks[0].(*failSink); ok {
				// let the frame in flight (if any) reach the writer first
				time.Sleep(20 * time.Millisecond)
				fs.disarm()
			}
			if hs, ok := sk.(*handlerSink); ok {
				hs.resume()
				hs.join(cs.join)
			}
			close(gate)
			wg.Wait()
		} else {
			start := make(chan struct{})
			for g := 0; g < cs.thr; g++ {
				wg.Add(1)
				go func(g int) {
					defer wg.Done()
					<-start
					for j := g; j < len(cs.msgs); j += cs.thr {
						outs[j] = runMessage(cs.msgs[j], ss, mods)
					}
				}(g)
			}
			close(start)
			wg.Wait()
		}
		for _, st := range ss {
			st.Close()
		}
		for k, mod := range mods {
			// The Modifier's stream cannot be closed or flushed from outside.
			// Its writer goroutine handles frames strictly in order, so once a
			// later frame has been accepted every earlier one has been
			// written: log a sentinel request and cut the capture at its
			// first frame.
			sreq, _ := http.NewRequest("GET", "http://sentinel.invalid/", nil)
			sctx, remove, err := martian.TestContext(sreq, nil, nil)
			if err == nil {
				lbs[k].mu.Lock()
				lbs[k].cutID = sctx.ID()[:8]
				lbs[k].mu.Unlock()
				mod.ModifyRequest(sreq)
				remove()
			}
		}
		close(done)
	}()
	select {
	case <-done:
	case <-time.After(watchdog(cs)):
		return []string{"HANG"}
	}
	var out []string
	for j, o := range outs {
		out = append(out, fmt.Sprintf("m%d", j))
		out = append(out, o...)
	}
	for k, sn := range sinks {
		secs := sn.finish()
		if k > 0 {
			// an independent stream: its own group of sections ("s<k>:")
			for i := range secs {
				secs[i].name = fmt.Sprintf("s%d:%s", k, secs[i].name)
			}
		}
		out = append(out, sectionTokens(secs)...)
	}
	return out
}

// ---------------------------------------------------------------- cases

var pool rdPool

func runCase(in []string) []string {
	if len(in) == 0 {
		return []string{"badcase"}
	}
	switch in[0] {
	case "RD":
		if len(in) != 2 {
			return []string{"badcase"}
		}
		if _, err := hx.UnHex(in[1]); err != nil {
			return []string{"badcase"}
		}
		t := time.Now()
		o := pool.run(in[1])
		if d := time.Since(t); d > 50*time.Millisecond && os.Getenv("VERIF_C19_SLOW") != "" {
			fmt.Fprintln(os.Stderr, "slow", d, in[1], o[len(o)-1])
		}
		return o
	case "MS":
		return runMS(in[1:])
	}
	return []string{"badcase"}
}

func be32(n uint32) []byte { return []byte{byte(n >> 24), byte(n >> 16), byte(n >> 8), byte(n)} }

// rawHeader / rawData build frames whose length fields may lie.
func rawHeader(ft, mt byte, id string, nl, vl uint32, payload []byte) []byte {
	b := []byte{ft, mt}
	b = append(b, id...)
	b = append(b, be32(nl)...)
	b = append(b, be32(vl)...)
	return append(b, payload...)
}

func rawData(ft, mt byte, id string, idx uint32, term byte, dl uint32, payload []byte) []byte {
	b := []byte{ft, mt}
	b = append(b, id...)
	b = append(b, be32(idx)...)
	b = append(b, term)
	b = append(b, be32(dl)...)
	return append(b, payload...)
}

var bigLens = []uint32{0x7fffffff, 0x80000000, 0xfffffffe, 0xffffffff}
var smallLens = []uint32{0, 1, 2, 3, 7, 255, 256}

func randLen(r *hx.RNG, avail int) uint32 {
	switch r.Intn(10) {
	case 0:
		return bigLens[r.Intn(len(bigLens))]
	case 1:
		return uint32(r.Uint64()) | 0x80000000
	case 2:
		return uint32(0x100000000 - uint64(r.Range(1, 40)))
	case 3:
		return uint32(r.Range(0, 70000))
	case 4, 5:
		return uint32(avail)
	}
	return uint32(r.Intn(avail + 3))
}

func hexTok(s string) string { return hx.HexS(s) }

var hdrNames = []string{"Accept", "X-A", "x-lower", "Cookie", "Set-Cookie", "Content-Type", "Via", "X-Forwarded-For", "", "Weird Name", "Host", "Content-Length", "Transfer-Encoding", "X-\x00bin"}

func randStr(r *hx.RNG, max int) string {
	n := r.Intn(max + 1)
	if r.Chance(1, 8) {
		return string(r.Bytes(n))
	}
	b := make([]byte, n)
	for i := range b {
		b[i] = "abcdefghijklmnopqrstuvwxyz0123456789-_/ %:;=,"[r.Intn(45)]
	}
	return string(b)
}

func randID(r *hx.RNG) string {
	b := make([]byte, 8)
	for i := range b {
		b[i] = "0123456789abcdef"[r.Intn(16)]
	}
	return string(b)
}

// randMessage returns the tokens of one message (without the leading M).
func randMessage(r *hx.RNG, id string, maxBody int, maxBuf int) []string {
	var t []string
	isReq := r.Chance(3, 5)
	if isReq {
		t = append(t, "k=Q")
	} else {
		t = append(t, "k=S")
	}
	t = append(t, "id="+hexTok(id))
	if isReq {
		t = append(t, "me="+hexTok([]string{"GET", "POST", "PUT", "CONNECT", "", "PATCH"}[r.Intn(6)]))
		t = append(t, "sc="+hexTok([]string{"http", "https", ""}[r.Intn(3)]))
		t = append(t, "au="+hexTok([]string{"example.com", "example.com:8080", "[::1]:443", ""}[r.Intn(4)]))
		t = append(t, "pa="+hexTok([]string{"/", "/a/b c", "", "/%zz", "/ü/x", "/a;b?c", "/" + randStr(r, 20)}[r.Intn(7)]))
		t = append(t, "qu="+hexTok([]string{"", "a=1&b=2", "x=%20 y", randStr(r, 12)}[r.Intn(4)]))
		t = append(t, "ra="+hexTok([]string{"", "10.0.0.1:1234", "[fe80::1]:80"}[r.Intn(3)]))
		if r.Chance(1, 2) {
			t = append(t, "ho="+hexTok([]string{"example.com", "other.example:81", "h"}[r.Intn(3)]))
		}
	} else {
		st := []int{200, 204, 301, 404, 500, 0, 99999}[r.Intn(7)]
		t = append(t, fmt.Sprintf("st=%d", st), "re="+hexTok([]string{"200 OK", "404 Not Found", "", "weird"}[r.Intn(4)]))
	}
	t = append(t, "pr="+hexTok([]string{"HTTP/1.1", "HTTP/1.0", "HTTP/2.0", ""}[r.Intn(4)]))
	if r.Chance(1, 5) {
		t = append(t, "api=1")
	}
	nh := r.Intn(9)
	if r.Chance(1, 10) {
		nh = r.Range(20, 60)
	}
	for i := 0; i < nh; i++ {
		name := hdrNames[r.Intn(len(hdrNames))]
		if r.Chance(1, 4) {
			name = "X-" + randStr(r, 10)
		}
		val := randStr(r, 30)
		if r.Chance(1, 30) {
			val = string(r.Bytes(r.Range(200, 5000)))
		}
		t = append(t, "h="+hexTok(name)+":"+hexTok(val))
	}
	bl := 0
	switch r.Intn(6) {
	case 0:
	case 1:
		bl = r.Intn(4)
	default:
		bl = r.Intn(maxBody + 1)
	}
	if r.Chance(1, 3) {
		t = append(t, fmt.Sprintf("cl=%d", []int{0, bl, bl + 1, 12345678901 % (1 << 26)}[r.Intn(4)]))
	}
	switch r.Intn(8) {
	case 0:
		t = append(t, "te="+hexTok("chunked"))
	case 1:
		t = append(t, "te="+hexTok("gzip"), "te="+hexTok("chunked"))
	case 2:
		t = append(t, "te0")
	}
	if bl <= 64 && r.Chance(1, 2) {
		t = append(t, "bx="+hx.Hex(r.Bytes(bl)))
	} else {
		t = append(t, fmt.Sprintf("bd=%d:%d", bl, r.Intn(1<<30)))
	}
	bufs := []int{1, 2, 3, 7, 64, 511, 512, 513, 4095, 4096, 4097, 32768, 65536}
	pick := func() int {
		for {
			b := bufs[r.Intn(len(bufs))]
			if r.Chance(1, 3) {
				b = r.Range(1, maxBuf)
			}
			if b <= maxBuf {
				// avoid millions of tiny reads on big bodies
				if bl/b <= 3000 {
					return b
				}
			}
		}
	}
	for i, n := 0, r.Range(0, 4); i < n; i++ {
		t = append(t, fmt.Sprintf("rb=%d", pick()))
	}
	if bl <= 3000*1 && r.Chance(1, 10) {
		t = append(t, "rb=1")
	}
	for i, n := 0, r.Intn(4); i < n && r.Chance(1, 2); i++ {
		c := pick()
		if bl/c > 3000 {
			continue
		}
		t = append(t, fmt.Sprintf("ck=%d", c))
	}
	if r.Chance(1, 3) {
		t = append(t, "eof=d")
	}
	if r.Chance(1, 8) {
		t = append(t, fmt.Sprintf("err=%d", r.Intn(bl+1)))
	}
	if r.Chance(1, 8) {
		t = append(t, fmt.Sprintf("zr=%d", r.Intn(4)))
	}
	if r.Chance(1, 6) {
		t = append(t, fmt.Sprintf("stop=%d", r.Range(1, 5)))
	}
	if r.Chance(1, 8) {
		t = append(t, fmt.Sprintf("more=%d", r.Range(1, 3)))
	}
	return t
}

func main() {
	mlog.SetLevel(mlog.Silent)
	cfg := hx.ParseFlags()
	if cfg.Extra == "rdchild" {
		rdChild()
		return
	}
	defer cfg.Close()
	defer pool.stop()
	n := 0
	emit := func(kind string, in []string) {
		n++
		cfg.Emit(hx.Case{Name: fmt.Sprintf("%s%d", kind, n), In: in, Out: runCase(in)})
		cfg.Count("kind=" + kind)
	}
	pre, replayOnly := cfg.Inputs()
	for _, c := range pre {
		cfg.Emit(hx.Case{Name: c.Name, In: c.In, Out: runCase(c.In)})
		cfg.Count("kind=corpus")
	}
	if replayOnly {
		return
	}
	rng := hx.NewRNG(cfg.Seed)
	th := cfg.Thorough()
	scale := 1
	if th {
		scale = 12
	}

	// ---- 1. messages: sequential, small
	for k := 0; k < 70*scale; k++ {
		r := rng.Fork()
		in := []string{"MS"}
		nm := r.Range(1, 3)
		for j := 0; j < nm; j++ {
			id := randID(r)
			in = append(in, "M")
			in = append(in, randMessage(r, id, 600, 700)...)
		}
		cfg.Count(fmt.Sprintf("ms_msgs=%d", nm))
		emit("seq", in)
	}
	// ---- 2. request+response pairs sharing an id, and edge bodies
	edge := [][]string{
		{"bd=0:1"}, {"bd=0:1", "eof=d"}, {"bd=1:1", "rb=1"}, {"bd=1:1", "rb=1", "eof=d"},
		{"bd=10:3", "rb=4", "more=2"}, {"bd=10:3", "err=0"}, {"bd=10:3", "err=5", "eof=d"}, {"bd=10:3", "err=10"},
		{"bd=100:3", "stop=1", "rb=10"}, {"bd=100:3", "zr=0", "zr=1", "rb=64"}, {"bd=4096:9", "rb=4096"},
		{"bd=4097:9", "rb=4096", "eof=d"}, {"bd=4095:9", "rb=4096", "ck=1000"}, {"bd=65536:2", "rb=65536"},
		{"bd=65537:2", "rb=65536", "ck=65535"},
	}
	for _, e := range edge {
		id := randID(rng)
		in := []string{"MS", "M", "k=Q", "id=" + hexTok(id), "me=" + hexTok("POST"), "h=" + hexTok("A") + ":" + hexTok("1")}
		in = append(in, e...)
		in = append(in, "M", "k=S", "id="+hexTok(id), "h="+hexTok("A")+":"+hexTok("1"), "h="+hexTok("A")+":"+hexTok("2"))
		in = append(in, e...)
		emit("edge", in)
	}
	// ---- 3. concurrent loggers
	for k := 0; k < 45*scale; k++ {
		r := rng.Fork()
		thr := r.Range(2, 16)
		nm := r.Range(thr, 2*thr)
		in := []string{"MS", fmt.Sprintf("T=%d", thr)}
		used := map[string]bool{}
		for j := 0; j < nm; j++ {
			id := randID(r)
			for used[id] {
				id = randID(r)
			}
			used[id] = true
			in = append(in, "M")
			in = append(in, randMessage(r, id, 3000, 2000)...)
		}
		cfg.Count(fmt.Sprintf("conc_threads=%d", thr))
		emit("conc", in)
	}
	// ---- 4. large bodies (64 KiB .. 1 MiB), buffers up to 64 KiB
	nl := 4
	if th {
		nl = 40
	}
	for k := 0; k < nl; k++ {
		r := rng.Fork()
		thr := r.Range(1, 4)
		in := []string{"MS", fmt.Sprintf("T=%d", thr)}
		for j := 0; j < thr; j++ {
			sz := []int{65536, 1 << 20, 1<<20 - 1, 300000, 1<<17 + 1}[r.Intn(5)]
			if k == 0 {
				sz = 1 << 20
			}
			in = append(in, "M", "id="+hexTok(fmt.Sprintf("big%05d", j)), fmt.Sprintf("bd=%d:%d", sz, r.Intn(1<<30)))
			for i, n := 0, r.Range(1, 3); i < n; i++ {
				in = append(in, fmt.Sprintf("rb=%d", []int{4096, 32768, 65536, 65537, 8191, r.Range(400, 65537)}[r.Intn(6)]))
			}
			if r.Chance(1, 2) {
				in = append(in, fmt.Sprintf("ck=%d", r.Range(500, 70000)))
			}
			if r.Chance(1, 3) {
				in = append(in, "eof=d")
			}
		}
		cfg.Count("ms_large")
		emit("large", in)
	}
	// ---- 5. through marbl.Modifier (ids = context ids)
	for k := 0; k < 25*scale; k++ {
		r := rng.Fork()
		thr := r.Range(1, 4)
		in := []string{"MS", "V=m", fmt.Sprintf("T=%d", thr)}
		nm := r.Range(1, 5)
		for j := 0; j < nm; j++ {
			in = append(in, "M")
			in = append(in, randMessage(r, "unused00", 800, 900)...)
		}
		emit("mod", in)
	}

	// ---- 5b. message IDs that differ only after the 8th byte (marbl.Modifier
	// logs under 16-character context IDs; newFrame keeps id[:8])
	for k := 0; k < 2*scale; k++ {
		r := rng.Fork()
		pre := randID(r)
		in := []string{"MS", "T=2"}
		for j := 0; j < 2; j++ {
			in = append(in, "M", "k=Q", "id="+hexTok(pre+fmt.Sprintf("%08d", j+1)), fmt.Sprintf("bd=%d:%d", r.Range(1, 50), r.Intn(1<<30)))
		}
		emit("idtrunc", in)
	}

	// ---- 5c. concurrent messages whose body chunks are >= 4 KiB, on every kind
	// of sink: plain buffer, retaining writer, and the real marbl.Handler with
	// fast and lagging websocket subscribers
	bigBufs := []int{4096, 4097, 8192, 16384, 32768, 5000}
	bigMsgs := func(r *hx.RNG, nm int, maxBody int) []string {
		var in []string
		for j := 0; j < nm; j++ {
			sz := r.Range(4096, maxBody)
			in = append(in, "M", "id="+hexTok(fmt.Sprintf("c%07d", j)))
			if r.Chance(1, 3) {
				in = append(in, "k=S")
			}
			if r.Chance(1, 2) {
				in = append(in, "h="+hexTok("X-N")+":"+hexTok(strconv.Itoa(j)))
			}
			in = append(in, fmt.Sprintf("bd=%d:%d", sz, r.Intn(1<<30)))
			for i, n := 0, r.Range(1, 2); i < n; i++ {
				in = append(in, fmt.Sprintf("rb=%d", bigBufs[r.Intn(len(bigBufs))]))
			}
			if r.Chance(1, 4) {
				in = append(in, "eof=d")
			}
			if r.Chance(1, 6) {
				in = append(in, fmt.Sprintf("ck=%d", r.Range(4096, 9000)))
			}
		}
		return in
	}
	for k := 0; k < 8*scale; k++ {
		r := rng.Fork()
		thr := r.Range(2, 16)
		in := append([]string{"MS", fmt.Sprintf("T=%d", thr)}, bigMsgs(r, r.Range(thr, thr+4), 40000)...)
		emit("concbig", in)
	}
	for k := 0; k < 8*scale; k++ {
		r := rng.Fork()
		thr := r.Range(1, 8)
		in := append([]string{"MS", "V=r", fmt.Sprintf("T=%d", thr)}, bigMsgs(r, r.Range(thr, thr+3), 40000)...)
		emit("retain", in)
	}
	for k := 0; k < 4*scale; k++ {
		r := rng.Fork()
		in := []string{"MS", "V=r", fmt.Sprintf("T=%d", r.Range(1, 3))}
		for j, nm := 0, r.Range(1, 3); j < nm; j++ {
			in = append(in, "M")
			in = append(in, randMessage(r, randID(r), 600, 700)...)
		}
		emit("retain", in)
	}
	for k := 0; k < 8*scale; k++ {
		r := rng.Fork()
		thr := r.Range(1, 8)
		subs := []string{"S=1:1", "S=1:1", "S=0:2", "S=2:1", "S=1:0", "S=3:2"}[r.Intn(6)]
		// the lagging subscriber must fall behind: more bytes than its 4 KiB
		// receive buffer plus the server's send buffer can hold
		nm := thr
		if nm < 5 {
			nm = 5
		}
		in := append([]string{"MS", "V=h", subs, fmt.Sprintf("T=%d", thr)}, bigMsgs(r, r.Range(nm, nm+3), 60000)...)
		cfg.Count("handler_subs=" + subs)
		emit("handler", in)
	}
	for k := 0; k < 6*scale; k++ {
		r := rng.Fork()
		in := []string{"MS", "V=h", []string{"S=1:1", "S=2:0", "S=0:1"}[r.Intn(3)], fmt.Sprintf("T=%d", r.Range(1, 4))}
		for j, nm := 0, r.Range(1, 4); j < nm; j++ {
			in = append(in, "M")
			in = append(in, randMessage(r, randID(r), 3000, 2000)...)
		}
		emit("handler", in)
	}

	// ---- 5d. many small data frames followed by far more than 4096 further
	// bytes (a bufio-sized window): frames a consumer still holds must not change
	for k := 0; k < 10*scale; k++ {
		r := rng.Fork()
		thr := r.Range(1, 3)
		in := []string{"MS", fmt.Sprintf("T=%d", thr)}
		for j, nm := 0, r.Range(1, 4); j < nm; j++ {
			in = append(in, "M", "id="+hexTok(fmt.Sprintf("s%07d", j)), fmt.Sprintf("bd=%d:%d", r.Range(3000, 20000), r.Intn(1<<30)))
			for i, n := 0, r.Range(1, 3); i < n; i++ {
				in = append(in, fmt.Sprintf("rb=%d", r.Range(100, 900)))
			}
			if r.Chance(1, 3) {
				in = append(in, "k=S")
			}
		}
		emit("smallframes", in)
	}

	// ---- 5f. the REPRESENTATION of the body as a dimension: nil, the
	// http.NoBody sentinel (what http.ReadRequest / http.NewRequest produce for
	// a bodiless message), empty and non-empty stdlib readers, scripted bodies
	// that end at once or after a (0,nil) read — requests and responses, read to
	// EOF (and once more).  Exhaustive over the small table.
	for _, br := range []string{"nil", "nobody", "bytes", "strings", "nop", "newreq", "readreq", "script", "script0"} {
		for _, kind := range []string{"Q", "S"} {
			for _, extra := range [][]string{{}, {"more=1"}, {"rb=1"}} {
				in := []string{"MS", "M", "k=" + kind, "id=" + hexTok(randID(rng)), "h=" + hexTok("A") + ":" + hexTok("1")}
				switch br {
				case "script":
					in = append(in, "bd=0:1")
				case "script0":
					in = append(in, "bd=0:1", "zr=0")
				default:
					in = append(in, "br="+br, "bd=0:1")
				}
				emit("bodyrep", append(in, extra...))
			}
		}
	}
	for k := 0; k < 6*scale; k++ { // the same representations with content
		r := rng.Fork()
		br := []string{"bytes", "strings", "nop", "newreq"}[r.Intn(4)]
		in := []string{"MS", "M", "k=" + []string{"Q", "S"}[r.Intn(2)], "id=" + hexTok(randID(r)), "br=" + br,
			fmt.Sprintf("bd=%d:%d", r.Range(1, 9000), r.Intn(1<<30)), fmt.Sprintf("rb=%d", r.Range(1, 5000))}
		emit("bodyrep", in)
	}

	// ---- 5g. several independent streams attached to the same messages
	// (two Modifiers in one group, or LogRequest/LogResponse called for a file
	// stream and a websocket stream): every stream must decode to the whole
	// message
	for k := 0; k < 10*scale; k++ {
		r := rng.Fork()
		via := []string{"s", "s", "m", "h", "r"}[r.Intn(5)]
		in := []string{"MS", "V=" + via, fmt.Sprintf("NS=%d", r.Range(2, 3)), fmt.Sprintf("T=%d", r.Range(1, 4))}
		for j, nm := 0, r.Range(1, 4); j < nm; j++ {
			in = append(in, "M")
			in = append(in, randMessage(r, randID(r), 2000, 900)...)
		}
		emit("multi", in)
	}

	// ---- 5h. failing and slow sinks: the writer given to NewStream fails on
	// its k-th Write (once / from then on / with a short write) while the
	// messages of phase 1 are logged; messages of phase 2 are logged afterwards
	for k := 0; k < 10*scale; k++ {
		r := rng.Fork()
		mode := []string{"once", "once", "once", "ever", "short", "slow"}[r.Intn(6)]
		n1 := r.Range(1, 2)
		in := []string{"MS", "V=f", fmt.Sprintf("F=%d:%s", r.Intn(14), mode), fmt.Sprintf("PH=%d", n1)}
		for j, nm := 0, n1+r.Range(1, 2); j < nm; j++ {
			in = append(in, "M", "id="+hexTok(fmt.Sprintf("f%07d", j)), "k="+[]string{"Q", "S"}[r.Intn(2)],
				"h="+hexTok("A")+":"+hexTok("1"), fmt.Sprintf("bd=%d:%d", r.Range(0, 300), r.Intn(1<<30)), fmt.Sprintf("rb=%d", r.Range(20, 200)))
		}
		cfg.Count("failsink=" + mode)
		emit("failsink", in)
	}

	// ---- 5e. delivery to subscribers of different speeds: a subscriber that
	// stalls past the capacity of the handler's per-subscriber queue and then
	// resumes while the stream continues, subscribers joining in mid-stream.
	// Tiny frames (1-byte reads): it is the frame COUNT that matters.
	hcap := handlerCapacity()
	cfg.Count(fmt.Sprintf("handler_queue_capacity=%d", hcap))
	ovf := func(kind int, r *hx.RNG) []string {
		big := hcap + r.Range(900, 1500)
		switch kind {
		case 0: // the same body continues after the stalled subscriber resumed; one joins in mid-body
			return []string{"MS", "V=h", "S=1:1", "PH=1", "J=1", fmt.Sprintf("CAP=%d", hcap),
				"M", "id=" + hexTok("ovfl0000"), fmt.Sprintf("bd=%d:%d", big, r.Intn(1<<30)), "rb=1", fmt.Sprintf("hold=%d", hcap+r.Range(300, 800)),
				"M", "k=S", "id=" + hexTok("ovfl0000"), fmt.Sprintf("bd=%d:%d", r.Range(50, 400), r.Intn(1<<30)), "rb=1"}
		case 1: // overflow completed in phase 1, other messages afterwards
			return []string{"MS", "V=h", "S=1:1", "PH=1", fmt.Sprintf("CAP=%d", hcap),
				"M", "id=" + hexTok("ovfl0001"), fmt.Sprintf("bd=%d:%d", big, r.Intn(1<<30)), "rb=1",
				"M", "id=" + hexTok("ovfl0002"), fmt.Sprintf("bd=%d:%d", r.Range(50, 400), r.Intn(1<<30)), "rb=7"}
		default: // two stalled subscribers, two fast ones, two bodies in flight, two joiners
			return []string{"MS", "V=h", "S=2:2", "PH=2", "J=2", fmt.Sprintf("CAP=%d", hcap),
				"M", "id=" + hexTok("ovfl0003"), fmt.Sprintf("bd=%d:%d", big/2, r.Intn(1<<30)), "rb=1", fmt.Sprintf("hold=%d", big/2-200),
				"M", "id=" + hexTok("ovfl0004"), fmt.Sprintf("bd=%d:%d", big/2+600, r.Intn(1<<30)), "rb=1", fmt.Sprintf("hold=%d", big/2+100),
				"M", "k=S", "id=" + hexTok("ovfl0004"), fmt.Sprintf("bd=%d:%d", r.Range(50, 400), r.Intn(1<<30)), "rb=3"}
		}
	}
	novf := 2
	if th {
		novf = 9
	}
	for k := 0; k < novf; k++ {
		emit("overflow", ovf(k%3, rng.Fork()))
	}
	// joiners and stalled subscribers without overflow: cheap, many
	for k := 0; k < 8*scale; k++ {
		r := rng.Fork()
		nm := r.Range(2, 5)
		ph := r.Range(1, nm)
		in := []string{"MS", "V=h", []string{"S=1:1", "S=1:2", "S=2:0", "S=1:0"}[r.Intn(4)], fmt.Sprintf("PH=%d", ph), fmt.Sprintf("J=%d", r.Range(1, 2))}
		for j := 0; j < nm; j++ {
			sz := r.Range(200, 6000)
			rb := r.Range(20, 700)
			in = append(in, "M", "id="+hexTok(fmt.Sprintf("j%07d", j)), fmt.Sprintf("bd=%d:%d", sz, r.Intn(1<<30)), fmt.Sprintf("rb=%d", rb))
			if j < ph && r.Chance(2, 3) {
				in = append(in, fmt.Sprintf("hold=%d", r.Range(1, sz/rb+1)))
			}
		}
		emit("join", in)
	}

	// ---- 6. reader robustness
	rd := func(kind string, b []byte) { emit(kind, []string{"RD", hx.Hex(b)}) }
	id := "ABCDEFGH"
	// 6a. boundary lengths, exhaustive over a small table
	lens := append(append([]uint32{}, smallLens...), bigLens...)
	nbig := 0
	for _, nlv := range lens {
		for _, vlv := range lens {
			// un-wrapped multi-GiB sums cost a fresh process each on a reader
			// that allocates the declared size: keep a sample of them in quick
			big := nlv+vlv >= 1<<22 // what a reader sizing its buffer by the uint32 sum allocates
			if big {
				nbig++
				if !th && nbig%8 != 1 {
					continue
				}
			}
			for _, pl := range []int{0, 1, 2, 5} {
				if big && pl != 1 {
					continue
				}
				rd("rdlen", rawHeader(1, 1, id, nlv, vlv, bytes.Repeat([]byte{'x'}, pl)))
			}
		}
	}
	for _, dl := range lens {
		for _, pl := range []int{0, 1, 2, 5} {
			if dl >= 1<<22 && pl != 1 {
				continue
			}
			rd("rdlen", rawData(2, 2, id, 7, 1, dl, bytes.Repeat([]byte{'y'}, pl)))
		}
	}
	// 6b. every prefix of a valid two-frame stream (truncation at each offset)
	valid := append(rawHeader(1, 1, id, 4, 5, []byte("namevalue")), rawData(2, 1, id, 0, 1, 3, []byte("abc"))...)
	for i := 0; i <= len(valid); i++ {
		rd("rdtrunc", valid[:i])
	}
	// 6b'. long valid streams of small frames (several bufio refills)
	for k := 0; k < 12*scale; k++ {
		r := rng.Fork()
		var b []byte
		for j, nf := 0, r.Range(20, 60); j < nf; j++ {
			pl := r.Range(0, 600)
			if r.Chance(1, 4) {
				nlv := r.Intn(pl + 1)
				b = append(b, rawHeader(1, byte(1+r.Intn(2)), id, uint32(nlv), uint32(pl-nlv), r.Bytes(pl))...)
			} else {
				b = append(b, rawData(2, byte(1+r.Intn(2)), id, uint32(j), byte(r.Intn(2)), uint32(pl), r.Bytes(pl))...)
			}
		}
		if r.Chance(1, 3) {
			b = b[:len(b)-r.Range(1, 30)]
		}
		rd("rdlong", b)
	}
	// 6c. frame type / message type / terminal bytes
	for _, ft := range []byte{0, 1, 2, 3, 0x81, 0xff} {
		for _, mt := range []byte{0, 1, 2, 3, 0xff} {
			rd("rdtype", append(rawHeader(ft, mt, id, 1, 1, []byte("nv")), rawData(2, mt, id, 0xffffffff, ft, 2, []byte("dd"))...))
		}
	}
	// 6d. random: structured frames with lying lengths, mutations, noise
	nr := 900 * scale
	for k := 0; k < nr; k++ {
		r := rng.Fork()
		var b []byte
		nf := r.Range(1, 4)
		for j := 0; j < nf; j++ {
			pl := r.Intn(40)
			payload := r.Bytes(pl)
			ft := byte(1 + r.Intn(2))
			if r.Chance(1, 12) {
				ft = byte(r.Uint64())
			}
			if ft == 1 || (ft != 2 && r.Bool()) {
				nlv := randLen(r, pl)
				vlv := randLen(r, pl)
				switch r.Intn(4) {
				case 0:
					if uint32(pl) >= nlv {
						vlv = uint32(pl) - nlv // consistent
					}
				case 1:
					vlv = uint32((1 << 32) - uint64(nlv) + uint64(r.Intn(pl+1))) // wraps to <= pl
				}
				if !th && nlv+vlv >= 1<<22 && !r.Chance(1, 100) {
					nlv &= 0xffff
					vlv &= 0xffff
				}
				b = append(b, rawHeader(ft, byte(r.Intn(4)), id, nlv, vlv, payload)...)
			} else {
				dl := randLen(r, pl)
				if r.Chance(1, 2) {
					dl = uint32(pl)
				}
				if !th && dl >= 1<<22 && !r.Chance(1, 100) {
					dl &= 0xffff
				}
				b = append(b, rawData(ft, byte(r.Intn(4)), id, uint32(r.Uint64()), byte(r.Intn(3)), dl, payload)...)
			}
		}
		switch r.Intn(5) {
		case 0:
			b = b[:r.Intn(len(b)+1)]
		case 1:
			for i, n := 0, r.Range(1, 3); i < n && len(b) > 0; i++ {
				b[r.Intn(len(b))] ^= byte(1 << r.Intn(8))
			}
		case 2:
			b = append(b, r.Bytes(r.Intn(30))...)
		}
		cfg.Count("rd_random")
		rd("rdrnd", b)
	}
	for k := 0; k < 150*scale; k++ {
		r := rng.Fork()
		b := r.Bytes(r.Intn(64))
		if len(b) > 0 && r.Chance(3, 4) {
			b[0] = byte(1 + r.Intn(2))
		}
		// keep declared sizes of pure noise below 2^22 in quick (see 6a)
		if !th && len(b) >= 19 && !r.Chance(1, 50) {
			for _, off := range []int{10, 14, 15} {
				b[off] = 0
				b[off+1] &= 0x1f
			}
		}
		rd("rdnoise", b)
	}
}

// rdChildCases: cases per reader child process.  1 = a fresh process per
// case: a multi-GiB allocation provoked by a hostile length costs ~5 ms in a
// fresh process but was measured at up to 4 s in one that has run other cases.
const rdChildCases = 1

// handlerCapacity reads the capacity of the per-subscriber frame queue from
// the source under test (marbl/handler.go: make(chan []byte, N)), so that the
// overflow cases scale with it.
func handlerCapacity() int {
	repo := os.Getenv("VERIF_REPO")
	if repo == "" {
		repo = "/repo"
	}
	b, err := os.ReadFile(repo + "/marbl/handler.go")
	if err == nil {
		if m := regexp.MustCompile(`make\(chan \[\]byte, *(\d+)\)`).FindSubmatch(b); m != nil {
			if n, err := strconv.Atoi(string(m[1])); err == nil && n > 0 && n <= 1<<20 {
				return n
			}
		}
	}
	return 16384
}
