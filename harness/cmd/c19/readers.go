package main

// Reader side: how the real marbl.Reader is consumed and fed.
//
// Primary observation ("held/plain"): every frame ReadFrame returns is KEPT,
// untouched and uncopied, until the whole stream has been read; only then are
// the frames rendered.  This is how a consumer that parses a whole log and
// groups frames per ID afterwards sees them, and it is what exposes a reader
// that hands out slices of a buffer it reuses.
//
// Variants, each compared with the primary here and reported in full
// (READER=<name> frame* final) only when it differs:
//
//	immediate/plain   each frame rendered right after ReadFrame returned
//	held/dribble1     source returns one byte per Read
//	held/eofdata      source returns its last bytes together with io.EOF
//	held/chunk<n>     source returns at most n bytes per Read (7, 4095, 4096, 4097)
//	held/split@k      source returns b[:k], then the rest: every k for inputs
//	                  of <= 160 bytes, a sample (incl. 4095..4097) otherwise
//
// The driver compares every reported reader with the extracted dec_stream and
// runs the property oracle on it.

import (
	"bytes"
	"fmt"
	"io"
	"testing/iotest"

	"github.com/google/martian/v3/marbl"
)

// cutReader returns the bytes up to the next cut point per Read call.
type cutReader struct {
	b    []byte
	off  int
	cuts []int // ascending absolute offsets; nil + step > 0: every step bytes
	step int
}

func (c *cutReader) Read(p []byte) (int, error) {
	if c.off >= len(c.b) {
		return 0, io.EOF
	}
	end := len(c.b)
	if c.step > 0 {
		if e := c.off + c.step; e < end {
			end = e
		}
	}
	for _, k := range c.cuts {
		if k > c.off && k < end {
			end = k
			break
		}
	}
	if end-c.off > len(p) {
		end = c.off + len(p)
	}
	n := copy(p, c.b[c.off:end])
	c.off += n
	return n, nil
}

// readWith loops ReadFrame until it fails.  hold: keep the frames as returned
// and render them only at the end.
func readWith(src io.Reader, limit int, hold bool) (out []string) {
	r := marbl.NewReader(src)
	var held []marbl.Frame
	flush := func() {
		for _, f := range held {
			out = append(out, frameTok(f))
		}
		held = nil
	}
	defer func() {
		if p := recover(); p != nil {
			flush()
			out = append(out, "PANIC")
		}
	}()
	for i := 0; i <= limit; i++ {
		f, err := r.ReadFrame()
		if err != nil {
			flush()
			if f != nil {
				out = append(out, "E:frame-with-error")
			}
			return append(out, errTok(err))
		}
		if f == nil {
			flush()
			return append(out, "E:nil-frame-nil-error")
		}
		if hold {
			held = append(held, f)
		} else {
			out = append(out, frameTok(f))
		}
	}
	flush()
	return append(out, "E:no-progress")
}

func sameToks(a, b []string) bool {
	if len(a) != len(b) {
		return false
	}
	for i := range a {
		if a[i] != b[i] {
			return false
		}
	}
	return true
}

// readAll: primary observation followed by every differing variant.
func readAll(b []byte) []string {
	n := len(b)
	a0 := heapAllocs()
	out := readWith(bytes.NewReader(b), n, true)
	primary := out
	// a reader that panics, or allocates by a hostile declared length, is
	// reported as is; running it a few dozen times more only costs GiBs
	if heapAllocs()-a0 > uint64(64<<20+16*n) || (len(out) > 0 && out[len(out)-1] == "PANIC") {
		return out
	}
	try := func(name string, src io.Reader, hold bool) {
		v := readWith(src, n, hold)
		if !sameToks(v, primary) {
			out = append(out, "READER="+name)
			out = append(out, v...)
		}
	}
	try("immediate/plain", bytes.NewReader(b), false)
	if n == 0 {
		return out
	}
	try("held/dribble1", iotest.OneByteReader(bytes.NewReader(b)), true)
	try("held/eofdata", iotest.DataErrReader(&cutReader{b: b, step: 1000}), true)
	for _, st := range []int{7, 4095, 4096, 4097} {
		if st < n {
			try(fmt.Sprintf("held/chunk%d", st), &cutReader{b: b, step: st}, true)
		}
	}
	var ks []int
	if n <= 160 {
		for k := 1; k < n; k++ {
			ks = append(ks, k)
		}
	} else {
		ks = []int{1, 9, 10, 11, 18, 19, n / 7, n / 3, n / 2, n - 1, 4095, 4096, 4097}
	}
	for _, k := range ks {
		if k > 0 && k < n {
			try(fmt.Sprintf("held/split@%d", k), &cutReader{b: b, cuts: []int{k}}, true)
		}
	}
	return out
}
