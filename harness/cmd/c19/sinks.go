package main

// Sinks: what the stream writes to, and what a consumer of that sink ends up
// holding.  The property is about what consumers receive, so besides a plain
// buffer (V=s, V=m) there are
//
//	V=r  a retaining writer: keeps the very slices it was handed (as
//	     marbl.Handler.Write does, by queueing them for its subscribers) and
//	     reports them as they are at the end, next to copies taken at Write
//	     time;
//	V=h  the real marbl.NewHandler() served by net/http over in-memory
//	     connections, with
//	     S=<fast>:<lagging> websocket subscribers (golang.org/x/net/websocket
//	     clients).  A lagging subscriber reads nothing until the stream has
//	     been closed; the connection is unbuffered, so the server's send
//	     blocks and the handler's per-subscriber queue fills up.
//
// Every sink yields sections (name, number of writes/messages, bytes); the
// first is always reported in full, a later one only if it differs from the
// first (else SAME=<name>).

import (
	"bytes"
	"errors"
	"fmt"
	"io"
	"net"
	"net/http"
	"os"
	"sync"
	"sync/atomic"
	"time"

	"golang.org/x/net/websocket"

	"github.com/google/martian/v3/marbl"
	"verifharness/hx"
)

type section struct {
	name string
	nw   int
	raw  []byte
	note string // e.g. DROPPED
}

type sink interface {
	Write(p []byte) (int, error)
	// finish is called after the stream has been closed (or, for the
	// Modifier, after the sentinel).
	finish() []section
}

func (l *lockedBuf) finish() []section {
	l.mu.Lock()
	defer l.mu.Unlock()
	return []section{{name: "buffer", nw: l.writes, raw: append([]byte(nil), l.b.Bytes()...)}}
}

// ---- failing / slow writer (V=f, F=<k>:<mode>)
//
// once: the k-th Write (0-based) returns (0, error) and stores nothing;
// ever: every Write from the k-th on does; short: the k-th Write stores half
// of the frame and returns (n/2, io.ErrShortWrite) — the captured stream is
// torn from there on (the format has no resynchronisation); slow: every Write
// sleeps 200 microseconds.  (A short write with a nil error is not a legal
// io.Writer; the stream ignores the byte count either way.)
type failSink struct {
	lockedBuf
	k     int
	mode  string
	phase int
	calls int
	// set once the phase-1 messages have been logged: a single failure
	// ("once") that has not happened by then does not happen at all, so the
	// lost frame always belongs to a phase-1 message (whose frames the
	// oracle sets aside) and never to a message judged in full
	disarmed int32
}

func (f *failSink) disarm() { atomic.StoreInt32(&f.disarmed, 1) }

var errSink = errors.New("injected sink error")

func (f *failSink) Write(p []byte) (int, error) {
	f.mu.Lock()
	i := f.calls
	f.calls++
	f.mu.Unlock()
	switch {
	case f.mode == "once" && i == f.k && atomic.LoadInt32(&f.disarmed) == 0, f.mode == "ever" && i >= f.k:
		return 0, errSink
	case f.mode == "short" && i == f.k:
		f.lockedBuf.Write(p[:len(p)/2])
		return len(p) / 2, io.ErrShortWrite
	case f.mode == "slow":
		time.Sleep(200 * time.Microsecond)
	}
	return f.lockedBuf.Write(p)
}

func (f *failSink) finish() []section {
	secs := f.lockedBuf.finish()
	secs[0].name = "failing-writer"
	if f.mode != "slow" {
		secs[0].note = fmt.Sprintf("failsink:%s:%d", f.mode, f.phase)
	}
	return secs
}

// ---- retaining writer

type retainSink struct {
	mu     sync.Mutex
	kept   [][]byte
	copies [][]byte
}

func (r *retainSink) Write(p []byte) (int, error) {
	r.mu.Lock()
	defer r.mu.Unlock()
	r.kept = append(r.kept, p)
	r.copies = append(r.copies, append([]byte(nil), p...))
	return len(p), nil
}

func (r *retainSink) finish() []section {
	r.mu.Lock()
	defer r.mu.Unlock()
	return []section{
		{name: "copied-at-write", nw: len(r.copies), raw: bytes.Join(r.copies, nil)},
		{name: "retained-slices", nw: len(r.kept), raw: bytes.Join(r.kept, nil)},
	}
}

// ---- marbl.Handler with websocket subscribers

var (
	probeMsg = []byte{0xff, 'p', 'r', 'o', 'b', 'e'}
	endMsg   = []byte{0xff, 'e', 'n', 'd'}
	syncMsg  = []byte{0xff, 's', 'y', 'n', 'c'}
)

type pipeAddr struct{}

func (pipeAddr) Network() string { return "pipe" }
func (pipeAddr) String() string  { return "marbl.pipe" }

type pipeListener struct {
	ch     chan net.Conn
	closed chan struct{}
	once   sync.Once
}

func (l *pipeListener) Accept() (net.Conn, error) {
	select {
	case c := <-l.ch:
		return c, nil
	case <-l.closed:
		return nil, errors.New("listener closed")
	}
}
func (l *pipeListener) Close() error   { l.once.Do(func() { close(l.closed) }); return nil }
func (l *pipeListener) Addr() net.Addr { return pipeAddr{} }
func (l *pipeListener) dial() (net.Conn, error) {
	c, s := net.Pipe()
	select {
	case l.ch <- s:
		return c, nil
	case <-time.After(10 * time.Second):
		return nil, errors.New("accept timeout")
	}
}

type subscriber struct {
	name      string
	lag       bool
	ws        *websocket.Conn
	conn      net.Conn
	probeSeen chan struct{}
	start     chan struct{}
	startOnce sync.Once
	drained   chan struct{} // closed when a sync marker arrives (everything queued before it was received)
	drainOnce sync.Once
	done      chan struct{}
	msgs      [][]byte
	note      string
}

func (sb *subscriber) release() { sb.startOnce.Do(func() { close(sb.start) }) }

func (sb *subscriber) run() {
	defer close(sb.done)
	seen := false
	for {
		var m []byte
		if err := websocket.Message.Receive(sb.ws, &m); err != nil {
			// closed before the end marker: the handler cut us off (its queue
			// for this subscriber overflowed), or a timeout
			if sb.note == "" {
				sb.note = "DROPPED"
			} else {
				sb.note += "+DROPPED"
			}
			if !seen {
				close(sb.probeSeen)
			}
			return
		}
		switch {
		case bytes.Equal(m, probeMsg):
			if !seen {
				seen = true
				close(sb.probeSeen)
				if sb.lag {
					<-sb.start
				}
			}
		case bytes.Equal(m, endMsg):
			return
		case bytes.Equal(m, syncMsg):
			sb.drainOnce.Do(func() { close(sb.drained) })
		default:
			sb.msgs = append(sb.msgs, m)
		}
	}
}

type handlerSink struct {
	h    *marbl.Handler
	srv  *http.Server
	ln   *pipeListener
	subs []*subscriber
	err  string
	t0   time.Time
}

func dbg(t0 time.Time, what string) {
	if os.Getenv("VERIF_C19_SLOW") != "" {
		fmt.Fprintln(os.Stderr, what, time.Since(t0))
	}
}

func newHandlerSink(fast, lag int) *handlerSink {
	defer dbg(time.Now(), "subscribe")
	hs := &handlerSink{h: marbl.NewHandler(), t0: time.Now()}
	hs.ln = &pipeListener{ch: make(chan net.Conn), closed: make(chan struct{})}
	hs.srv = &http.Server{Handler: hs.h}
	go hs.srv.Serve(hs.ln)
	for i := 0; i < fast+lag && hs.err == ""; i++ {
		if i >= fast {
			hs.addSub(fmt.Sprintf("lagging-subscriber-%d", i), true, "")
		} else {
			hs.addSub(fmt.Sprintf("subscriber-%d", i), false, "")
		}
	}
	return hs
}

// addSub connects one websocket subscriber and waits until the handler has
// registered it.  An in-memory, unbuffered connection (net.Pipe): the server's
// send to a subscriber that is not reading blocks at once, so every further
// frame stays in the handler's per-subscriber queue until the subscriber
// starts reading.  (TCP with small socket buffers gave the same effect but
// drained at 40 ms per window.)
func (hs *handlerSink) addSub(name string, lag bool, note string) {
	sb := &subscriber{name: name, lag: lag, note: note, probeSeen: make(chan struct{}), start: make(chan struct{}),
		drained: make(chan struct{}), done: make(chan struct{})}
	tc, err := hs.ln.dial()
	if err != nil {
		hs.err = "dial"
		return
	}
	tc.SetDeadline(time.Now().Add(80 * time.Second))
	cfg, _ := websocket.NewConfig("ws://marbl.pipe/", "http://localhost/")
	ws, err := websocket.NewClient(cfg, tc)
	if err != nil {
		hs.err = "handshake"
		return
	}
	ws.MaxPayloadBytes = 64 << 20
	sb.ws, sb.conn = ws, tc
	hs.subs = append(hs.subs, sb)
	go sb.run()
	// The handler registers a subscriber some time after the handshake and
	// offers no way to observe it: send probe messages until the subscriber
	// has seen one (subscribers ignore probes afterwards).
	deadline := time.Now().Add(30 * time.Second)
	for {
		hs.h.Write(probeMsg)
		select {
		case <-sb.probeSeen:
			return
		case <-time.After(2 * time.Millisecond):
			if time.Now().After(deadline) {
				hs.err = "subscribe-timeout"
				return
			}
		}
	}
}

// resume lets the lagging subscribers read, and returns when each of them has
// either been cut off or received everything that was queued for it (a sync
// marker written after the release has come through).
func (hs *handlerSink) resume() {
	if hs.err != "" {
		return
	}
	for _, sb := range hs.subs {
		sb.release()
	}
	deadline := time.Now().Add(60 * time.Second)
	for _, sb := range hs.subs {
		if !sb.lag {
			continue
		}
		for waiting := true; waiting && time.Now().Before(deadline); {
			hs.h.Write(syncMsg)
			select {
			case <-sb.drained:
				waiting = false
			case <-sb.done:
				waiting = false
			case <-time.After(2 * time.Millisecond):
			}
		}
	}
}

// join adds subscribers in mid-stream.
func (hs *handlerSink) join(n int) {
	for i := 0; i < n && hs.err == ""; i++ {
		hs.addSub(fmt.Sprintf("joiner-%d", i), false, "JOINED")
	}
}

func (hs *handlerSink) Write(p []byte) (int, error) { return hs.h.Write(p) }

func (hs *handlerSink) finish() []section {
	dbg(hs.t0, "logged")
	defer dbg(time.Now(), "drain+close")
	defer hs.srv.Close()
	if hs.err != "" {
		return []section{{name: "handler", note: "harness-error:" + hs.err}}
	}
	var out []section
	for _, sb := range hs.subs {
		sb.release()
	}
	deadline := time.Now().Add(85 * time.Second)
	for _, sb := range hs.subs {
		// the end marker is queued like a frame: when a subscriber's queue is
		// full it is dropped, so repeat it until the subscriber has finished
		for waiting := true; waiting; {
			hs.h.Write(endMsg)
			select {
			case <-sb.done:
				waiting = false
			case <-time.After(2 * time.Millisecond):
				if time.Now().After(deadline) {
					sb.note += "+TIMEOUT"
					waiting = false
				}
			}
		}
		sb.conn.Close() // not ws.Close(): its close frame would block, the server side never reads
		out = append(out, section{name: sb.name, nw: len(sb.msgs), raw: bytes.Join(sb.msgs, nil), note: sb.note})
	}
	return out
}

// sectionTokens renders the sections; later sections equal to the first are
// abbreviated.
func sectionTokens(secs []section) []string {
	var out []string
	for i, sc := range secs {
		if i > 0 && sc.note == "" && secs[0].note == "" && sc.nw == secs[0].nw && bytes.Equal(sc.raw, secs[0].raw) {
			out = append(out, "SAME="+sc.name)
		}
	}
	for i, sc := range secs {
		if i > 0 && sc.note == "" && secs[0].note == "" && sc.nw == secs[0].nw && bytes.Equal(sc.raw, secs[0].raw) {
			continue
		}
		out = append(out, "SINK="+sc.name)
		if sc.note != "" {
			out = append(out, "NOTE="+sc.note)
		}
		out = append(out, fmt.Sprintf("NW=%d", sc.nw), "RAW="+hx.Hex(sc.raw))
		out = append(out, readAll(sc.raw)...)
	}
	return out
}
