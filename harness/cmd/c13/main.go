// Command c13 is the correspondence harness of property C13 ("verification
// reports exactly the unmet expectations since the last reset").
//
// It builds real JSON configurations over all seven verifier types under
// fifo groups and filters (both branches, every scope), installs them through
// martianhttp.Modifier's POST handler (or wires the parse result directly),
// drives traffic through ModifyRequest/ModifyResponse with martian.TestContext
// (API flag via ctx.APIRequest()), queries verify.Handler / verify.ResetHandler
// through httptest and writes, per case, the canonicalised answers together
// with the per-message tables the Coq model takes as inputs (filter condition
// bits from the real matchers, unmet-expectation bits from the harness's own
// reading of each verifier's contract).
//
// Case kinds (IN tokens):
//
//	SEQ  <tree> <op>*      root = martianhttp.Modifier
//	DIR  <tree> <op>*      handlers wired to the parse.Result directly
//	CONC <tree> P <traffic>* (T <traffic>*)+ (K|KS) <Q|R>*    concurrent batch (KS: progress snapshots)
//
// <tree> is one token, see parseTree.  Ops: T<k><a>:m<i>:p<i>:s<i>:h<l>:g<l>:q<l>:r<l>
// (traffic, k = q|s, a = 0|1 API flag), Q Qq Qs (query handler / direct),
// R Rq Rs (reset handler / direct).
package main

import (
	"bufio"
	"bytes"
	"encoding/json"
	"fmt"
	"io"
	"net/http"
	"net/http/httptest"
	"net/url"
	"os"
	"os/exec"
	"path"
	"path/filepath"
	"regexp"
	"sort"
	"strconv"
	"strings"
	"sync"
	"sync/atomic"
	"time"

	"github.com/google/martian/v3"
	"github.com/google/martian/v3/api"
	_ "github.com/google/martian/v3/failure"
	"github.com/google/martian/v3/fifo"
	"github.com/google/martian/v3/header"
	mlog "github.com/google/martian/v3/log"
	"github.com/google/martian/v3/martianhttp"
	"github.com/google/martian/v3/martianurl"
	"github.com/google/martian/v3/method"
	"github.com/google/martian/v3/parse"
	_ "github.com/google/martian/v3/pingback"
	"github.com/google/martian/v3/querystring"
	"github.com/google/martian/v3/servemux"
	_ "github.com/google/martian/v3/status"
	"github.com/google/martian/v3/verify"

	"verifharness/hx"
)

// ---------------------------------------------------------------- trees

type node struct {
	kind  byte // 'L' leaf, 'O' other, 'G' fifo, 'F' filter
	id    int
	typ   byte // leaf: s h m u q f p ; filter: h m u q
	scope byte // q s b n
	kids  []*node
	tb    *node
	eb    *node
}

type parser struct {
	s string
	i int
}

func (p *parser) peek() byte {
	if p.i < len(p.s) {
		return p.s[p.i]
	}
	return 0
}

func (p *parser) num() (int, error) {
	j := p.i
	for p.i < len(p.s) && p.s[p.i] >= '0' && p.s[p.i] <= '9' {
		p.i++
	}
	if j == p.i {
		return 0, fmt.Errorf("number expected at %d", j)
	}
	return strconv.Atoi(p.s[j:p.i])
}

func (p *parser) one(set string) (byte, error) {
	c := p.peek()
	if c == 0 || !strings.ContainsRune(set, rune(c)) {
		return 0, fmt.Errorf("one of %q expected at %d", set, p.i)
	}
	p.i++
	return c, nil
}

// node := L<id><t><s> | O<s> | G<s>( node,* ) | F<id><ft><s>( node [; node] )
func (p *parser) node(depth int) (*node, error) {
	if depth > 64 {
		return nil, fmt.Errorf("too deep")
	}
	c, err := p.one("LOGFW")
	if err != nil {
		return nil, err
	}
	n := &node{kind: c}
	switch c {
	case 'L':
		if n.id, err = p.num(); err != nil {
			return nil, err
		}
		if n.typ, err = p.one("shmuqfp"); err != nil {
			return nil, err
		}
		if n.scope, err = p.one("qsbn"); err != nil {
			return nil, err
		}
		ok := n.scope == 'n' || (n.typ == 'h') || (n.typ == 's' && n.scope == 's') || (n.typ != 's' && n.typ != 'h' && n.scope == 'q')
		if !ok {
			return nil, fmt.Errorf("scope %c not supported by verifier %c", n.scope, n.typ)
		}
	case 'O':
		if n.scope, err = p.one("qsbn"); err != nil {
			return nil, err
		}
	case 'G':
		if n.scope, err = p.one("qsbn"); err != nil {
			return nil, err
		}
		if _, err = p.one("("); err != nil {
			return nil, err
		}
		for p.peek() != ')' {
			k, err := p.node(depth + 1)
			if err != nil {
				return nil, err
			}
			n.kids = append(n.kids, k)
			if p.peek() == ',' {
				p.i++
			}
		}
		p.i++
	case 'F':
		if n.id, err = p.num(); err != nil {
			return nil, err
		}
		if n.typ, err = p.one("hmuq"); err != nil {
			return nil, err
		}
		if n.scope, err = p.one("qsbn"); err != nil {
			return nil, err
		}
		if _, err = p.one("("); err != nil {
			return nil, err
		}
		if n.tb, err = p.node(depth + 1); err != nil {
			return nil, err
		}
		if p.peek() == ';' {
			p.i++
			if n.eb, err = p.node(depth + 1); err != nil {
				return nil, err
			}
		}
		if _, err = p.one(")"); err != nil {
			return nil, err
		}
	}
	return n, nil
}

func parseTree(tok string) (*node, error) {
	p := &parser{s: tok}
	n, err := p.node(0)
	if err != nil {
		return nil, err
	}
	if p.i != len(tok) {
		return nil, fmt.Errorf("trailing input at %d", p.i)
	}
	ids := map[int]bool{}
	var dup error
	n.walk(func(x *node) {
		if x.kind == 'L' || x.kind == 'F' {
			if ids[x.id] {
				dup = fmt.Errorf("duplicate id %d", x.id)
			}
			ids[x.id] = true
		}
	})
	return n, dup
}

func (n *node) walk(f func(*node)) {
	if n == nil {
		return
	}
	f(n)
	for _, k := range n.kids {
		k.walk(f)
	}
	n.tb.walk(f)
	n.eb.walk(f)
}

func (n *node) String() string {
	switch n.kind {
	case 'L':
		return fmt.Sprintf("L%d%c%c", n.id, n.typ, n.scope)
	case 'O':
		return fmt.Sprintf("O%c", n.scope)
	case 'W':
		return "W"
	case 'G':
		var ks []string
		for _, k := range n.kids {
			ks = append(ks, k.String())
		}
		return fmt.Sprintf("G%c(%s)", n.scope, strings.Join(ks, ","))
	default:
		s := fmt.Sprintf("F%d%c%c(%s", n.id, n.typ, n.scope, n.tb.String())
		if n.eb != nil {
			s += ";" + n.eb.String()
		}
		return s + ")"
	}
}

func scopeJSON(m map[string]interface{}, s byte) {
	switch s {
	case 'q':
		m["scope"] = []string{"request"}
	case 's':
		m["scope"] = []string{"response"}
	case 'b':
		m["scope"] = []string{"request", "response"}
	}
}

func (n *node) wantValue() string {
	if n.id%2 == 1 {
		return "1"
	}
	return ""
}

// toJSON renders the real martian configuration message of the tree.
func (n *node) toJSON() interface{} {
	m := map[string]interface{}{}
	scopeJSON(m, n.scope)
	var name string
	switch n.kind {
	case 'W':
		name = "verif.Gate"
		m["gate"] = n.id
	case 'L':
		switch n.typ {
		case 's':
			name = "status.Verifier"
			m["statusCode"] = 200 + n.id
		case 'h':
			name = "header.Verifier"
			m["name"] = fmt.Sprintf("X-H%d", n.id)
			m["value"] = n.wantValue()
		case 'm':
			name = "method.Verifier"
			m["method"] = fmt.Sprintf("M%d", n.id)
		case 'u':
			name = "url.Verifier"
			m["path"] = fmt.Sprintf("/p%d", n.id)
			switch n.id % 3 {
			case 2: // a second part that never matches: every request fails, one error with one or two lines
				m["scheme"] = "https"
			case 0: // a second part that always matches
				m["host"] = "h.example"
			}
		case 'q':
			name = "querystring.Verifier"
			m["name"] = fmt.Sprintf("k%d", n.id)
			m["value"] = n.wantValue()
		case 'f':
			name = "failure.Verifier"
			m["message"] = fmt.Sprintf("L%d", n.id)
		case 'p':
			name = "pingback.Verifier"
			m["path"] = fmt.Sprintf("/p%d", n.id)
			switch n.id % 3 {
			case 2: // a part no request has: the pingback stays pending whatever arrives
				m["scheme"] = "https"
			case 0: // a second part every request has
				m["host"] = "h.example"
			}
		}
	case 'O':
		name = "header.Modifier"
		m["name"] = "X-Other"
		m["value"] = "1"
	case 'G':
		name = "fifo.Group"
		ms := []interface{}{}
		for _, k := range n.kids {
			ms = append(ms, k.toJSON())
		}
		m["modifiers"] = ms
		if len(n.kids)%2 == 1 {
			m["aggregateErrors"] = true
		}
	case 'F':
		switch n.typ {
		case 'h':
			name = "header.Filter"
			m["name"] = fmt.Sprintf("X-H%d", n.id)
			m["value"] = "1"
		case 'm':
			name = "method.Filter"
			m["method"] = fmt.Sprintf("M%d", n.id)
		case 'u':
			name = "url.Filter"
			m["path"] = fmt.Sprintf("/p%d", n.id)
		case 'q':
			name = "querystring.Filter"
			m["name"] = fmt.Sprintf("k%d", n.id)
			m["value"] = "1"
		}
		m["modifier"] = n.tb.toJSON()
		if n.eb != nil {
			m["else"] = n.eb.toJSON()
		}
	}
	return map[string]interface{}{name: m}
}

// ----------------------------------------------------------------- gate

// gate is a probe modifier (registered through the public parse.Register as
// "verif.Gate"): not a verifier; when armed, the first message through it
// parks inside ModifyRequest/ModifyResponse until released.
type gate struct {
	armed   int32
	arrived chan struct{}
	release chan struct{}
}

var (
	gates      sync.Map // id -> *gate
	nextGateID int64
)

func (g *gate) pass() {
	if atomic.CompareAndSwapInt32(&g.armed, 1, 0) {
		g.arrived <- struct{}{}
		<-g.release
	}
}

func (g *gate) ModifyRequest(*http.Request) error   { g.pass(); return nil }
func (g *gate) ModifyResponse(*http.Response) error { g.pass(); return nil }

func init() {
	parse.Register("verif.Gate", func(b []byte) (*parse.Result, error) {
		var msg struct {
			Gate  int                  `json:"gate"`
			Scope []parse.ModifierType `json:"scope"`
		}
		if err := json.Unmarshal(b, &msg); err != nil {
			return nil, err
		}
		g, ok := gates.Load(msg.Gate)
		if !ok {
			return nil, fmt.Errorf("unknown gate %d", msg.Gate)
		}
		return parse.NewResult(g.(*gate), msg.Scope)
	})
}

// ------------------------------------------------------------- messages

type message struct {
	mid    int
	kind   byte // q | s
	api    bool
	method int
	path   int
	status int
	h, g   []int // headers X-H<i>: 1 / X-H<i>: 2
	q, r   []int // query k<i>=1 / k<i>=2
	bad    int   // 0: well-formed query; 1..3: a query string req.ParseForm rejects (then q, r are not sent)
	raw    *rawMsg
}

// rawMsg describes a message that is not built from the small domains: a
// request to the proxy's own API (and its answer).
type rawMsg struct {
	method, host, path string
	code               int
}

func (m *message) pathString() string {
	if m.raw != nil {
		return m.raw.path
	}
	return fmt.Sprintf("/p%d", m.path)
}

func (m *message) statusCode() int {
	if m.raw != nil {
		return m.raw.code
	}
	return 200 + m.status
}

// query strings net/url refuses: bad escape, trailing '%', ';' separator
var badQueries = []string{"", "bad=%zz", "nocache=100%", "a=1;b=2"}

func parseList(s string) ([]int, error) {
	if s == "" {
		return nil, nil
	}
	var l []int
	for _, f := range strings.Split(s, ".") {
		v, err := strconv.Atoi(f)
		if err != nil || v < 0 {
			return nil, fmt.Errorf("bad list %q", s)
		}
		l = append(l, v)
	}
	return l, nil
}

func fmtList(l []int) string {
	s := make([]string, len(l))
	for i, v := range l {
		s[i] = strconv.Itoa(v)
	}
	return strings.Join(s, ".")
}

func parseMessage(tok string, mid int) (*message, error) {
	f := strings.Split(tok, ":")
	if (len(f) != 8 && len(f) != 9) || len(f[0]) != 3 || f[0][0] != 'T' {
		return nil, fmt.Errorf("bad traffic token %q", tok)
	}
	m := &message{mid: mid, kind: f[0][1], api: f[0][2] == '1'}
	if (m.kind != 'q' && m.kind != 's') || (f[0][2] != '0' && f[0][2] != '1') {
		return nil, fmt.Errorf("bad traffic token %q", tok)
	}
	num := func(s string, p byte) (int, error) {
		if len(s) < 2 || s[0] != p {
			return 0, fmt.Errorf("bad field %q", s)
		}
		v, err := strconv.Atoi(s[1:])
		if err != nil || v < 0 || v > 100000 {
			return 0, fmt.Errorf("bad field %q", s)
		}
		return v, nil
	}
	lst := func(s string, p byte) ([]int, error) {
		if len(s) < 1 || s[0] != p {
			return nil, fmt.Errorf("bad field %q", s)
		}
		return parseList(s[1:])
	}
	var err error
	if m.method, err = num(f[1], 'm'); err != nil {
		return nil, err
	}
	if m.path, err = num(f[2], 'p'); err != nil {
		return nil, err
	}
	if m.status, err = num(f[3], 's'); err != nil {
		return nil, err
	}
	if m.h, err = lst(f[4], 'h'); err != nil {
		return nil, err
	}
	if m.g, err = lst(f[5], 'g'); err != nil {
		return nil, err
	}
	if m.q, err = lst(f[6], 'q'); err != nil {
		return nil, err
	}
	if m.r, err = lst(f[7], 'r'); err != nil {
		return nil, err
	}
	if len(f) == 9 {
		if m.bad, err = num(f[8], 'x'); err != nil || m.bad >= len(badQueries) {
			return nil, fmt.Errorf("bad field %q", f[8])
		}
	}
	return m, nil
}

func (m *message) token() string {
	a := '0'
	if m.api {
		a = '1'
	}
	t := fmt.Sprintf("T%c%c:m%d:p%d:s%d:h%s:g%s:q%s:r%s", m.kind, a, m.method, m.path, m.status,
		fmtList(m.h), fmtList(m.g), fmtList(m.q), fmtList(m.r))
	if m.bad != 0 {
		t += fmt.Sprintf(":x%d", m.bad)
	}
	return t
}

func (m *message) methodName() string {
	if m.raw != nil {
		return m.raw.method
	}
	if m.method == 0 {
		return "GET"
	}
	return fmt.Sprintf("M%d", m.method)
}

func (m *message) urlString() string {
	if m.raw != nil {
		return fmt.Sprintf("http://%s%s?n=%d", m.raw.host, m.raw.path, m.mid)
	}
	var qs []string
	if m.bad != 0 {
		qs = append(qs, badQueries[m.bad])
	} else {
		for _, i := range m.q {
			qs = append(qs, fmt.Sprintf("k%d=1", i))
		}
		for _, i := range m.r {
			qs = append(qs, fmt.Sprintf("k%d=2", i))
		}
	}
	qs = append(qs, fmt.Sprintf("n=%d", m.mid))
	return fmt.Sprintf("http://h.example/p%d?%s", m.path, strings.Join(qs, "&"))
}

func (m *message) headerValues(i int) []string {
	var vs []string
	for _, x := range m.h {
		if x == i {
			vs = append(vs, "1")
		}
	}
	for _, x := range m.g {
		if x == i {
			vs = append(vs, "2")
		}
	}
	return vs
}

func (m *message) queryValues(i int) []string {
	var vs []string
	if m.bad != 0 {
		return nil
	}
	for _, x := range m.q {
		if x == i {
			vs = append(vs, "1")
		}
	}
	for _, x := range m.r {
		if x == i {
			vs = append(vs, "2")
		}
	}
	return vs
}

// build makes the real *http.Request (and *http.Response for kind s).
func (m *message) build() (*http.Request, *http.Response, error) {
	u, err := url.Parse(m.urlString())
	if err != nil {
		return nil, nil, err
	}
	req := &http.Request{Method: m.methodName(), URL: u, Host: u.Host, Header: http.Header{},
		Proto: "HTTP/1.1", ProtoMajor: 1, ProtoMinor: 1}
	hd := http.Header{}
	for _, i := range m.h {
		hd.Add(fmt.Sprintf("X-H%d", i), "1")
	}
	for _, i := range m.g {
		hd.Add(fmt.Sprintf("X-H%d", i), "2")
	}
	if m.kind == 'q' {
		req.Header = hd
		return req, nil, nil
	}
	res := &http.Response{StatusCode: 200 + m.status, Status: fmt.Sprintf("%d X", 200+m.status),
		Proto: "HTTP/1.1", ProtoMajor: 1, ProtoMinor: 1, Header: hd, Request: req,
		Body: io.NopCloser(strings.NewReader(""))}
	return req, res, nil
}

func has(vs []string, v string) bool {
	for _, x := range vs {
		if x == v {
			return true
		}
	}
	return false
}

// hit is the harness's own reading of each verifier's contract: for a
// counting verifier "the expectation is NOT met by this message", for a
// pingback verifier "the URL matches".
func hit(leaf *node, m *message) bool {
	switch leaf.typ {
	case 's':
		return m.status != leaf.id
	case 'h':
		vs := m.headerValues(leaf.id)
		if len(vs) == 0 {
			return true
		}
		return leaf.wantValue() != "" && !has(vs, leaf.wantValue())
	case 'm':
		return m.method != leaf.id
	case 'u':
		return m.path != leaf.id || leaf.id%3 == 2
	case 'q':
		// an unparseable query string is a failure of its own ("parsing failed")
		// for the first querystring verifier that parses the request, and leaves
		// the others without their key: unmet either way
		vs := m.queryValues(leaf.id)
		if len(vs) == 0 {
			return true
		}
		return leaf.wantValue() != "" && !has(vs, leaf.wantValue())
	case 'f':
		return true
	case 'p':
		return m.path == leaf.id && leaf.id%3 != 2
	}
	return false
}

// errorTexts renders every error text a leaf can produce for a message: the
// format strings of the seven verifiers (method.Verifier's swapped got/want
// is accepted in both orders).
func errorTexts(leaf *node, m *message, u string, firstQ int) []string {
	kind := "request"
	if m.kind == 's' {
		kind = "response"
	}
	switch leaf.typ {
	case 's':
		return []string{fmt.Sprintf("response(%s) status code verify failure: got %d, want %d", u, m.statusCode(), 200+leaf.id)}
	case 'h':
		name := fmt.Sprintf("X-H%d", leaf.id)
		vs := m.headerValues(leaf.id)
		if len(vs) == 0 {
			return []string{fmt.Sprintf("%s(%s) header verify failure: got no header, want %s header", kind, u, name)}
		}
		return []string{fmt.Sprintf("%s(%s) header verify failure: got %s with value %s, want value %s", kind, u, name, strings.Join(vs, ", "), leaf.wantValue())}
	case 'm':
		want := fmt.Sprintf("M%d", leaf.id)
		return []string{
			fmt.Sprintf("request(%v) method verification error: got %v, want %v", u, want, m.methodName()),
			fmt.Sprintf("request(%v) method verification error: got %v, want %v", u, m.methodName(), want)}
	case 'u':
		var parts []string
		if leaf.id%3 == 2 {
			parts = append(parts, fmt.Sprintf("\t%s: got %q, want %q", "Scheme", "http", "https"))
		}
		if m.raw != nil && leaf.id%3 == 0 {
			// an API request's host is not the one the host variant of the verifier expects
			if pu, err := url.Parse(u); err == nil && pu.Host != "h.example" {
				parts = append(parts, fmt.Sprintf("\t%s: got %q, want %q", "Host", pu.Host, "h.example"))
			}
		}
		if m.raw != nil || m.path != leaf.id || len(parts) == 0 {
			parts = append(parts, fmt.Sprintf("\t%s: got %q, want %q", "Path", m.pathString(), fmt.Sprintf("/p%d", leaf.id)))
		}
		return []string{fmt.Sprintf("request(%s) url verify failure:\n%s", u, strings.Join(parts, "\n"))}
	case 'q':
		key := fmt.Sprintf("k%d", leaf.id)
		vs := m.queryValues(leaf.id)
		if len(vs) == 0 {
			ts := []string{fmt.Sprintf("request(%v) param verification error: key %v not found", u, key)}
			if m.bad != 0 && leaf.id == firstQ {
				// the text does not name the verifier: req.ParseForm reports the
				// error only to its first caller, the first querystring verifier
				// the request reaches
				ts = append(ts, fmt.Sprintf("request(%v) parsing failed; could not parse query parameters", u))
			}
			return ts
		}
		return []string{fmt.Sprintf("request(%v) param verification error: got %v for key %v, want %v", u, strings.Join(vs, ", "), key, leaf.wantValue())}
	case 'f':
		return []string{fmt.Sprintf("request(%v) verification error: %s", u, fmt.Sprintf("L%d", leaf.id))}
	}
	return nil
}

// ------------------------------------------------------------ the system

type system struct {
	tree     *node
	leaves   []*node
	filters  []*node
	m        *martianhttp.Modifier
	reqmod   martian.RequestModifier
	resmod   martian.ResponseModifier
	vh       *verify.Handler
	rh       *verify.ResetHandler
	reqv     verify.RequestVerifier
	resv     verify.ResponseVerifier
	mu       sync.Mutex
	texts    map[string]string // error text -> "v:mid" / "v:-"
	gate     *gate
	gateID   int
	oldTrees []*node // configurations replaced since (only to name the verifier of a stale "parsing failed")
	front    byte    // 0: none; c, m, n: the proxy's API front (servemux filter + api.Forwarder) ahead of the tree
	apiHost  string  // host:port the forwarder rewrites to
}

func (s *system) close() {
	if s != nil && s.gate != nil {
		gates.Delete(s.gateID)
	}
}

// adopt makes tree the configured one: its leaves and filters join the sets
// the per-message tables and the error-text table are computed over (the
// sets only grow, so that an error of a verifier that should be gone is still
// recognised), s.tree is what the request walk (firstQueryLeaf) follows.
func (s *system) adopt(tree *node) {
	if s.tree != nil && s.tree != tree {
		s.oldTrees = append(s.oldTrees, s.tree)
	}
	s.tree = tree
	tree.walk(func(n *node) {
		switch n.kind {
		case 'L':
			for _, l := range s.leaves {
				if l.id == n.id && l.typ == n.typ {
					return
				}
			}
			s.leaves = append(s.leaves, n)
			if n.typ == 'p' {
				pu := &url.URL{Path: fmt.Sprintf("/p%d", n.id)}
				switch n.id % 3 {
				case 2:
					pu.Scheme = "https"
				case 0:
					pu.Host = "h.example"
				}
				s.mu.Lock()
				s.texts[fmt.Sprintf("request(%s): pingback never occurred", pu.String())] = fmt.Sprintf("%d:-", n.id)
				s.mu.Unlock()
			}
		case 'F':
			for _, f := range s.filters {
				if f.id == n.id && f.typ == n.typ {
					return
				}
			}
			s.filters = append(s.filters, n)
		}
	})
}

func hasGate(tree *node) bool {
	g := false
	tree.walk(func(n *node) {
		if n.kind == 'W' {
			g = true
		}
	})
	return g
}

// reconfigure POSTs a new configuration to martianhttp.Modifier (directly, or
// as body of an exchange through the proxy when via != nil).
func (s *system) reconfigure(tree *node, post func(body []byte) int) int {
	body, err := json.Marshal(tree.toJSON())
	if err != nil {
		return -1
	}
	code := post(body)
	if code == 200 {
		s.adopt(tree)
	}
	return code
}

func newSystem(tree *node, direct bool) (*system, string) {
	s := &system{tree: tree, texts: map[string]string{}}
	tree.walk(func(n *node) {
		switch n.kind {
		case 'L':
			s.leaves = append(s.leaves, n)
			if n.typ == 'p' {
				pu := &url.URL{Path: fmt.Sprintf("/p%d", n.id)}
				switch n.id % 3 {
				case 2:
					pu.Scheme = "https"
				case 0:
					pu.Host = "h.example"
				}
				s.texts[fmt.Sprintf("request(%s): pingback never occurred", pu.String())] = fmt.Sprintf("%d:-", n.id)
			}
		case 'F':
			s.filters = append(s.filters, n)
		case 'W':
			if s.gate == nil {
				s.gate = &gate{arrived: make(chan struct{}, 1), release: make(chan struct{})}
				s.gateID = int(atomic.AddInt64(&nextGateID, 1))
				gates.Store(s.gateID, s.gate)
			}
			n.id = s.gateID
		}
	})
	body, err := json.Marshal(tree.toJSON())
	if err != nil {
		return nil, "err:marshal"
	}
	s.vh = verify.NewHandler()
	s.rh = verify.NewResetHandler()
	if direct {
		r, err := parse.FromJSON(body)
		if err != nil {
			return nil, "err:parse:" + hx.HexS(err.Error())
		}
		s.reqmod, s.resmod = r.RequestModifier(), r.ResponseModifier()
		if v, ok := s.reqmod.(verify.RequestVerifier); ok {
			s.reqv = v
			s.vh.SetRequestVerifier(v)
			s.rh.SetRequestVerifier(v)
		}
		if v, ok := s.resmod.(verify.ResponseVerifier); ok {
			s.resv = v
			s.vh.SetResponseVerifier(v)
			s.rh.SetResponseVerifier(v)
		}
		return s, "ok"
	}
	s.m = martianhttp.NewModifier()
	rec := httptest.NewRecorder()
	s.m.ServeHTTP(rec, httptest.NewRequest("POST", "http://martian.proxy/configure", bytes.NewReader(body)))
	if rec.Code != 200 {
		return nil, fmt.Sprintf("err:%d:%s", rec.Code, hx.HexS(strings.TrimSpace(rec.Body.String())))
	}
	s.reqmod, s.resmod = s.m, s.m
	s.reqv, s.resv = s.m, s.m
	s.vh.SetRequestVerifier(s.m)
	s.vh.SetResponseVerifier(s.m)
	s.rh.SetRequestVerifier(s.m)
	s.rh.SetResponseVerifier(s.m)
	return s, "ok"
}

const apiPort = 8181

// installFront puts, ahead of the configured tree, what cmd/proxy and
// mobile/proxy.go put there: a fifo.Group whose first request modifier is a
// servemux.Filter over the API mux running api.Forwarder (the only code that
// marks a request as an API request).
//
//	c: cmd/proxy   - patterns martian.proxy/<p> and localhost:8181/<p>, NewForwarder("", 8181)
//	m: mobile      - host-less patterns /<p> and localhost:8181/<p>,    NewForwarder("", 8181)
//	n: as m with a named API host                                       NewForwarder("api.local", 8181)
func (s *system) installFront(style byte) {
	mux := http.NewServeMux()
	host := "localhost"
	if style == 'n' {
		host = "api.local"
	}
	s.apiHost = fmt.Sprintf("%s:%d", host, apiPort)
	handle := func(pattern string, h http.Handler) {
		if style == 'c' {
			mux.Handle(path.Join("martian.proxy", pattern), h)
		} else {
			mux.Handle(pattern, h)
		}
		mux.Handle(path.Join(s.apiHost, pattern), h)
	}
	handle("/configure", s.m)
	handle("/verify", s.vh)
	handle("/verify/reset", s.rh)
	apif := servemux.NewFilter(mux)
	fhost := ""
	if style == 'n' {
		fhost = host
	}
	apif.SetRequestModifier(api.NewForwarder(fhost, apiPort))
	top := fifo.NewGroup()
	top.AddRequestModifier(apif)
	top.AddRequestModifier(s.m)
	top.AddResponseModifier(s.m)
	s.reqmod, s.resmod = top, top
	s.front = style
}

func decodeVerify(rec *httptest.ResponseRecorder) ([]string, string) {
	if rec.Code != 200 {
		return nil, fmt.Sprintf("status%d", rec.Code)
	}
	var body struct {
		Errors []struct {
			Message string `json:"message"`
		} `json:"errors"`
	}
	if err := json.Unmarshal(rec.Body.Bytes(), &body); err != nil {
		return nil, "badjson"
	}
	if body.Errors == nil {
		return nil, "noerrorsfield"
	}
	ts := make([]string, len(body.Errors))
	for i, e := range body.Errors {
		ts[i] = e.Message
	}
	return ts, ""
}

// apiCall performs a whole exchange with the proxy's own API THROUGH the
// proxy: A<Q|R|C><2|3> = GET /verify, POST /verify/reset, GET /configure
// addressed by the alias host (2: http://martian.proxy/...) or by the API
// server's own host:port (3).  The request goes through the front and the
// tree, the API handler runs, the answer goes back through the tree.  Neither
// may be counted by any verifier.
func (s *system) apiCall(op string, idx int, body []byte) string {
	if s.front == 0 || len(op) != 3 || (s.front == 'c' && op[2] == '3') {
		return ""
	}
	var pth, meth string
	var h http.Handler
	switch op[1] {
	case 'P':
		pth, meth, h = "/configure", "POST", s.m
	case 'Q':
		pth, meth, h = "/verify", "GET", s.vh
	case 'R':
		pth, meth, h = "/verify/reset", "POST", s.rh
	case 'C':
		pth, meth, h = "/configure", "GET", s.m
	default:
		return ""
	}
	host := "martian.proxy"
	if op[2] == '3' {
		host = s.apiHost
	} else if op[2] != '2' {
		return ""
	}
	m := &message{mid: idx, kind: 'q', raw: &rawMsg{method: meth, host: host, path: pth}}
	u, err := url.Parse(m.urlString())
	if err != nil {
		return ""
	}
	req := &http.Request{Method: meth, URL: u, Host: u.Host, Header: http.Header{}, Proto: "HTTP/1.1", ProtoMajor: 1, ProtoMinor: 1}
	if body != nil {
		req.Body = io.NopCloser(bytes.NewReader(body))
		req.ContentLength = int64(len(body))
	}
	post := fmt.Sprintf("http://%s%s?n=%d", s.apiHost, pth, idx)
	register := func(mm *message) {
		s.mu.Lock()
		for _, l := range s.leaves {
			for _, uu := range []string{m.urlString(), post} {
				for _, t := range errorTexts(l, mm, uu, -1) {
					s.texts[t] = fmt.Sprintf("%d:%d", l.id, idx)
				}
			}
		}
		s.mu.Unlock()
	}
	register(m)
	_, remove, err := martian.TestContext(req, nil, nil)
	if err != nil {
		return fmt.Sprintf("E%d=err:ctx", idx)
	}
	defer remove()
	if err := s.reqmod.ModifyRequest(req); err != nil {
		return fmt.Sprintf("E%d=err:%s", idx, hx.HexS(err.Error()))
	}
	rec := httptest.NewRecorder()
	h.ServeHTTP(rec, req)
	ms := &message{mid: idx, kind: 's', raw: &rawMsg{method: meth, host: host, path: pth, code: rec.Code}}
	register(ms)
	res := &http.Response{StatusCode: rec.Code, Status: fmt.Sprintf("%d X", rec.Code), Proto: "HTTP/1.1", ProtoMajor: 1, ProtoMinor: 1,
		Header: rec.Header(), Request: req, Body: io.NopCloser(bytes.NewReader(rec.Body.Bytes()))}
	if err := s.resmod.ModifyResponse(res); err != nil {
		return fmt.Sprintf("E%d=err:%s", idx, hx.HexS(err.Error()))
	}
	switch op[1] {
	case 'Q':
		ts, bad := decodeVerify(rec)
		if bad != "" {
			return fmt.Sprintf("A%d=!%s", idx, bad)
		}
		return fmt.Sprintf("A%d=%s", idx, s.canon(ts))
	case 'R':
		return fmt.Sprintf("Z%d=%d", idx, rec.Code)
	}
	return fmt.Sprintf("X%d=%d", idx, rec.Code)
}

// refused performs a call the handler must refuse: XR:<METHOD> on the reset
// handler, XQ:<METHOD> on the verification handler.
func (s *system) refused(op string, idx int) string {
	f := strings.SplitN(op, ":", 2)
	if len(f) != 2 || f[1] == "" {
		return ""
	}
	for _, c := range f[1] {
		if c < 'A' || c > 'Z' {
			return ""
		}
	}
	var h http.Handler
	var target string
	switch {
	case f[0] == "XR" && f[1] != "POST":
		h, target = s.rh, "http://martian.proxy/verify/reset"
	case f[0] == "XQ" && f[1] != "GET":
		h, target = s.vh, "http://martian.proxy/verify"
	default:
		return ""
	}
	rec := httptest.NewRecorder()
	h.ServeHTTP(rec, httptest.NewRequest(f[1], target, nil))
	return fmt.Sprintf("X%d=%d", idx, rec.Code)
}

// bits computes the model's input tables for one message and registers the
// error texts it can cause.  Returns the B token.
func (s *system) bits(m *message, req *http.Request, res *http.Response) string {
	var conds, hits []int
	for _, f := range s.filters {
		var ok bool
		switch f.typ {
		case 'h':
			mt := header.NewMatcher(http.CanonicalHeaderKey(fmt.Sprintf("X-H%d", f.id)), "1")
			if res != nil {
				ok = mt.MatchResponse(res)
			} else {
				ok = mt.MatchRequest(req)
			}
		case 'm':
			ok = method.NewMatcher(fmt.Sprintf("M%d", f.id)).MatchRequest(req)
		case 'u':
			ok = martianurl.NewMatcher(&url.URL{Path: fmt.Sprintf("/p%d", f.id)}).MatchRequest(req)
		case 'q':
			ok = querystring.NewMatcher(fmt.Sprintf("k%d", f.id), "1").MatchRequest(req)
		}
		if ok {
			conds = append(conds, f.id)
		}
	}
	u := req.URL.String()
	firstQ := -1
	if m.kind == 'q' {
		firstQ = firstQueryLeaf(s.tree, conds)
		for i := len(s.oldTrees) - 1; i >= 0 && firstQ < 0; i-- {
			firstQ = firstQueryLeaf(s.oldTrees[i], conds)
		}
	}
	s.mu.Lock()
	for _, l := range s.leaves {
		if hit(l, m) {
			hits = append(hits, l.id)
		}
		for _, t := range errorTexts(l, m, u, firstQ) {
			s.texts[t] = fmt.Sprintf("%d:%d", l.id, m.mid)
		}
	}
	s.mu.Unlock()
	return fmt.Sprintf("B%d:%s:%s", m.mid, fmtList(conds), fmtList(hits))
}

// firstQueryLeaf: the first querystring verifier a request with the given
// filter conditions reaches (request walk: groups in order, filters by
// condition, nodes scoped to responses only are absent), or -1.
func firstQueryLeaf(n *node, conds []int) int {
	if n == nil || n.scope == 's' {
		return -1
	}
	switch n.kind {
	case 'L':
		if n.typ == 'q' {
			return n.id
		}
	case 'G':
		for _, k := range n.kids {
			if v := firstQueryLeaf(k, conds); v >= 0 {
				return v
			}
		}
	case 'F':
		for _, c := range conds {
			if c == n.id {
				return firstQueryLeaf(n.tb, conds)
			}
		}
		return firstQueryLeaf(n.eb, conds)
	}
	return -1
}

// send runs one message through the real modifier chain.
func (s *system) send(m *message, req *http.Request, res *http.Response) string {
	ctx, remove, err := martian.TestContext(req, nil, nil)
	if err != nil {
		return "err:ctx"
	}
	defer remove()
	if m.api {
		ctx.APIRequest()
	}
	if m.kind == 'q' {
		if s.reqmod == nil {
			return "nil"
		}
		if err := s.reqmod.ModifyRequest(req); err != nil {
			return "err:" + hx.HexS(err.Error())
		}
		return "ok"
	}
	if s.resmod == nil {
		return "nil"
	}
	if err := s.resmod.ModifyResponse(res); err != nil {
		return "err:" + hx.HexS(err.Error())
	}
	return "ok"
}

func (s *system) canon(texts []string) string {
	s.mu.Lock()
	defer s.mu.Unlock()
	out := make([]string, len(texts))
	for i, t := range texts {
		if c, ok := s.texts[t]; ok {
			out[i] = c
		} else {
			if len(t) > 160 {
				t = t[:160]
			}
			out[i] = "U" + hx.HexS(t)
		}
	}
	return strings.Join(out, ",")
}

func errTexts(err error) []string {
	// the same flattening verify.Handler applies
	if err == nil {
		return nil
	}
	if merr, ok := err.(*martian.MultiError); ok {
		var ts []string
		for _, e := range merr.Errors() {
			ts = append(ts, e.Error())
		}
		return ts
	}
	return []string{err.Error()}
}

// query performs Q / Qq / Qs and returns the raw error texts (or a marker).
func (s *system) query(op string) ([]string, string) {
	switch op {
	case "Q":
		rec := httptest.NewRecorder()
		s.vh.ServeHTTP(rec, httptest.NewRequest("GET", "http://martian.proxy/verify", nil))
		return decodeVerify(rec)
	case "Qq":
		if s.reqv == nil {
			return nil, ""
		}
		return errTexts(s.reqv.VerifyRequests()), ""
	case "Qs":
		if s.resv == nil {
			return nil, ""
		}
		return errTexts(s.resv.VerifyResponses()), ""
	}
	return nil, "badop"
}

func (s *system) reset(op string) string {
	switch op {
	case "R":
		rec := httptest.NewRecorder()
		s.rh.ServeHTTP(rec, httptest.NewRequest("POST", "http://martian.proxy/verify/reset", nil))
		return strconv.Itoa(rec.Code)
	case "Rq":
		if s.reqv != nil {
			s.reqv.ResetRequestVerifications()
		}
		return "204"
	case "Rs":
		if s.resv != nil {
			s.resv.ResetResponseVerifications()
		}
		return "204"
	}
	return "badop"
}

// ------------------------------------------------------------ case runs

func runSeq(in []string) (out []string) {
	defer func() {
		if r := recover(); r != nil {
			out = append(out, "PANIC")
		}
	}()
	if len(in) < 2 {
		return []string{"BADCASE"}
	}
	tree, err := parseTree(in[1])
	if err != nil {
		return []string{"BADCASE"}
	}
	s, st := newSystem(tree, in[0] == "DIR")
	defer s.close()
	out = append(out, "CFG="+st)
	if s == nil {
		return out
	}
	switch in[0] {
	case "SEQ":
		s.installFront('c')
	case "SEQM":
		s.installFront('m')
	case "SEQN":
		s.installFront('n')
	}
	for i := 2; i < len(in); i++ {
		op := in[i]
		switch {
		case len(op) == 3 && op[0] == 'A':
			t := s.apiCall(op, i, nil)
			if t == "" {
				return []string{"BADCASE"}
			}
			out = append(out, t)
		case op == "PX":
			// a configuration martianhttp must reject: nothing may change
			if s.m == nil {
				return []string{"BADCASE"}
			}
			rec := httptest.NewRecorder()
			s.m.ServeHTTP(rec, httptest.NewRequest("POST", "http://martian.proxy/configure", strings.NewReader(`{"nosuch.Modifier":{}}`)))
			out = append(out, fmt.Sprintf("X%d=%d", i, rec.Code))
		case len(op) > 3 && op[:2] == "AP" && (op[2] == '2' || op[2] == '3'):
			// reconfiguration through the proxy
			nt, err := parseTree(op[3:])
			if err != nil || hasGate(nt) || s.m == nil {
				return []string{"BADCASE"}
			}
			var tok string
			code := s.reconfigure(nt, func(body []byte) int {
				tok = s.apiCall(op[:3], i, body)
				if !strings.HasPrefix(tok, "X") {
					return -1
				}
				c, _ := strconv.Atoi(tok[strings.Index(tok, "=")+1:])
				return c
			})
			_ = code
			if tok == "" {
				return []string{"BADCASE"}
			}
			out = append(out, tok)
		case len(op) > 1 && op[0] == 'P':
			// reconfiguration: POST straight to martianhttp.Modifier
			nt, err := parseTree(op[1:])
			if err != nil || hasGate(nt) || s.m == nil {
				return []string{"BADCASE"}
			}
			code := s.reconfigure(nt, func(body []byte) int {
				rec := httptest.NewRecorder()
				s.m.ServeHTTP(rec, httptest.NewRequest("POST", "http://martian.proxy/configure", bytes.NewReader(body)))
				return rec.Code
			})
			out = append(out, fmt.Sprintf("X%d=%d", i, code))
		case strings.HasPrefix(op, "XR:") || strings.HasPrefix(op, "XQ:"):
			t := s.refused(op, i)
			if t == "" {
				return []string{"BADCASE"}
			}
			out = append(out, t)
		case strings.HasPrefix(op, "T"):
			m, err := parseMessage(op, i)
			if err != nil {
				return []string{"BADCASE"}
			}
			req, res, err := m.build()
			if err != nil {
				return []string{"BADCASE"}
			}
			out = append(out, s.bits(m, req, res))
			if r := s.send(m, req, res); r != "ok" && r != "nil" {
				out = append(out, fmt.Sprintf("E%d=%s", i, r))
			}
		case op == "Q" || op == "Qq" || op == "Qs":
			ts, bad := s.query(op)
			if bad != "" {
				out = append(out, fmt.Sprintf("A%d=!%s", i, bad))
			} else {
				out = append(out, fmt.Sprintf("A%d=%s", i, s.canon(ts)))
			}
		case op == "R" || op == "Rq" || op == "Rs":
			out = append(out, fmt.Sprintf("Z%d=%s", i, s.reset(op)))
		default:
			return []string{"BADCASE"}
		}
	}
	return out
}

type built struct {
	m   *message
	req *http.Request
	res *http.Response
}

// runConc: P pre-phase (sequential traffic), T... traffic threads, K control
// thread (queries/resets) all racing; then, sequentially, Q R Q.
func runConc(in []string) (out []string) {
	defer func() {
		if r := recover(); r != nil {
			out = append(out, "PANIC")
		}
	}()
	if len(in) < 3 {
		return []string{"BADCASE"}
	}
	tree, err := parseTree(in[1])
	if err != nil {
		return []string{"BADCASE"}
	}
	s, st := newSystem(tree, in[0] == "CONCB")
	defer s.close()
	out = append(out, "CFG="+st)
	if s == nil {
		return out
	}
	var pre []built
	var threads [][]built
	var ctl []string
	var ctlIdx []int
	var ctlStart []int // index into ctl where each control goroutine's ops begin
	snap := false      // KS: the control thread notes, before each query, how far every traffic thread has got
	sect := byte(0)
	for i := 2; i < len(in); i++ {
		t := in[i]
		switch {
		case t == "P" && sect == 0:
			sect = 'P'
		case t == "T" && (sect == 'P' || sect == 'T'):
			sect = 'T'
			threads = append(threads, nil)
		case (t == "K" || t == "KS") && (sect == 'T' || sect == 'K'):
			// every K starts one more control goroutine
			sect = 'K'
			snap = snap || t == "KS"
			ctlStart = append(ctlStart, len(ctl))
		case sect == 'K':
			if t != "Q" && t != "R" && t != "Qq" && t != "Qs" && t != "Rq" && t != "Rs" {
				return []string{"BADCASE"}
			}
			ctl = append(ctl, t)
			ctlIdx = append(ctlIdx, i)
		case sect == 'P' || sect == 'T':
			m, err := parseMessage(t, i)
			if err != nil {
				return []string{"BADCASE"}
			}
			req, res, err := m.build()
			if err != nil {
				return []string{"BADCASE"}
			}
			out = append(out, s.bits(m, req, res))
			b := built{m, req, res}
			if sect == 'P' {
				pre = append(pre, b)
			} else {
				threads[len(threads)-1] = append(threads[len(threads)-1], b)
			}
		default:
			return []string{"BADCASE"}
		}
	}
	if len(threads) == 0 {
		return []string{"BADCASE"}
	}
	for _, b := range pre {
		if r := s.send(b.m, b.req, b.res); r != "ok" && r != "nil" {
			out = append(out, fmt.Sprintf("E%d=%s", b.m.mid, r))
		}
	}
	var wg sync.WaitGroup
	start := make(chan struct{})
	errs := make([][]string, len(threads))
	done := make([]int32, len(threads))
	for ti := range threads {
		wg.Add(1)
		go func(ti int) {
			defer wg.Done()
			defer func() {
				if r := recover(); r != nil {
					errs[ti] = append(errs[ti], "PANIC")
				}
			}()
			<-start
			for j, b := range threads[ti] {
				if r := s.send(b.m, b.req, b.res); r != "ok" && r != "nil" {
					errs[ti] = append(errs[ti], fmt.Sprintf("E%d=%s", b.m.mid, r))
				}
				if snap {
					atomic.StoreInt32(&done[ti], int32(j+1))
				}
			}
		}(ti)
	}
	ctlOut := make([]string, len(ctl))
	snapOut := make([]string, len(ctl))
	var panicked int32
	for ci := range ctlStart {
		lo, hi := ctlStart[ci], len(ctl)
		if ci+1 < len(ctlStart) {
			hi = ctlStart[ci+1]
		}
		wg.Add(1)
		go func(lo, hi int) {
			defer wg.Done()
			defer func() {
				if r := recover(); r != nil {
					atomic.StoreInt32(&panicked, 1)
				}
			}()
			<-start
			for i := lo; i < hi; i++ {
				op := ctl[i]
				if op[0] == 'Q' {
					if snap {
						d := make([]int, len(done))
						for ti := range done {
							d[ti] = int(atomic.LoadInt32(&done[ti]))
						}
						snapOut[i] = fmt.Sprintf("S%d=%s", ctlIdx[i], fmtList(d))
					}
					ts, bad := s.query(op)
					if bad != "" {
						ctlOut[i] = fmt.Sprintf("A%d=!%s", ctlIdx[i], bad)
					} else {
						ctlOut[i] = fmt.Sprintf("A%d=%s", ctlIdx[i], s.canon(ts))
					}
				} else {
					ctlOut[i] = fmt.Sprintf("Z%d=%s", ctlIdx[i], s.reset(op))
				}
			}
		}(lo, hi)
	}
	close(start)
	wg.Wait()
	if atomic.LoadInt32(&panicked) == 1 {
		out = append(out, "PANIC")
	}
	for _, e := range errs {
		out = append(out, e...)
	}
	out = append(out, ctlOut...)
	for _, t := range snapOut {
		if t != "" {
			out = append(out, t)
		}
	}
	fin := func(tag, op string) {
		if op[0] == 'Q' {
			ts, bad := s.query(op)
			if bad != "" {
				out = append(out, tag+"=!"+bad)
			} else {
				out = append(out, tag+"="+s.canon(ts))
			}
		} else {
			out = append(out, tag+"="+s.reset(op))
		}
	}
	fin("FQ", "Q")
	fin("FR", "R")
	fin("FQ2", "Q")
	return out
}

// runGate: GATEM|GATEB <tree with a W node> <traffic>* <parked traffic> <Q|R|Qq|Qs|Rq|Rs>
// The last message parks inside the gate (between the verifiers around W);
// the operation is then started against it.  Correct locking makes the
// operation wait for the message; the answers must be those of "message then
// operation" or "operation then message".  No timing decides the verdict: the
// grace period only gives a wrongly-unblocked operation time to run.
func runGate(in []string) (out []string) {
	defer func() {
		if r := recover(); r != nil {
			out = append(out, "PANIC")
		}
	}()
	if len(in) < 4 {
		return []string{"BADCASE"}
	}
	tree, err := parseTree(in[1])
	if err != nil {
		return []string{"BADCASE"}
	}
	op := in[len(in)-1]
	switch op {
	case "Q", "Qq", "Qs", "R", "Rq", "Rs":
	default:
		return []string{"BADCASE"}
	}
	var msgs []built
	for i := 2; i < len(in)-1; i++ {
		m, err := parseMessage(in[i], i)
		if err != nil {
			return []string{"BADCASE"}
		}
		req, res, err := m.build()
		if err != nil {
			return []string{"BADCASE"}
		}
		msgs = append(msgs, built{m, req, res})
	}
	if len(msgs) == 0 {
		return []string{"BADCASE"}
	}
	s, st := newSystem(tree, in[0] == "GATEB")
	defer s.close()
	out = append(out, "CFG="+st)
	if s == nil {
		return out
	}
	if s.gate == nil {
		return []string{"BADCASE"}
	}
	for _, b := range msgs {
		out = append(out, s.bits(b.m, b.req, b.res))
	}
	for _, b := range msgs[:len(msgs)-1] {
		if r := s.send(b.m, b.req, b.res); r != "ok" && r != "nil" {
			out = append(out, fmt.Sprintf("E%d=%s", b.m.mid, r))
		}
	}
	last := msgs[len(msgs)-1]
	atomic.StoreInt32(&s.gate.armed, 1)
	msgDone := make(chan string, 1)
	go func() {
		defer func() {
			if r := recover(); r != nil {
				msgDone <- "PANIC"
			}
		}()
		msgDone <- s.send(last.m, last.req, last.res)
	}()
	parked := false
	var early string
	select {
	case <-s.gate.arrived:
		parked = true
	case early = <-msgDone: // the message never reaches the gate (scoped out / other branch)
	}
	opIdx := len(in) - 1
	opDone := make(chan string, 1)
	go func() {
		defer func() {
			if r := recover(); r != nil {
				opDone <- "PANIC"
			}
		}()
		if op[0] == 'Q' {
			ts, bad := s.query(op)
			if bad != "" {
				opDone <- fmt.Sprintf("A%d=!%s", opIdx, bad)
			} else {
				opDone <- fmt.Sprintf("A%d=%s", opIdx, s.canon(ts))
			}
		} else {
			opDone <- fmt.Sprintf("Z%d=%s", opIdx, s.reset(op))
		}
	}()
	var opOut string
	ranEarly := false
	if parked {
		select {
		case opOut = <-opDone:
			ranEarly = true
		case <-time.After(gateGrace):
		}
		close(s.gate.release)
		early = <-msgDone
	}
	if opOut == "" {
		opOut = <-opDone
	}
	if early != "ok" && early != "nil" {
		out = append(out, fmt.Sprintf("E%d=%s", last.m.mid, early))
	}
	if opOut == "PANIC" {
		return append(out, "PANIC")
	}
	out = append(out, opOut)
	if parked {
		out = append(out, "PARKED=1")
	} else {
		out = append(out, "PARKED=0")
	}
	if ranEarly {
		out = append(out, "EARLY=1")
	} else {
		out = append(out, "EARLY=0")
	}
	ts, bad := s.query("Q")
	if bad != "" {
		out = append(out, "FQ=!"+bad)
	} else {
		out = append(out, "FQ="+s.canon(ts))
	}
	return out
}

const gateGrace = 25 * time.Millisecond

// runLoad: LOADB|LOADM <tree> <traffic> <T>x<N>
// T goroutines each send the failing message N times, nothing else runs;
// after the join the verifiers must hold EXACTLY T*N errors per verifier the
// message fails (none lost to a concurrent append, none twice).
func runLoad(in []string) (out []string) {
	defer func() {
		if r := recover(); r != nil {
			out = append(out, "PANIC")
		}
	}()
	if len(in) != 4 {
		return []string{"BADCASE"}
	}
	tree, err := parseTree(in[1])
	if err != nil {
		return []string{"BADCASE"}
	}
	m, err := parseMessage(in[2], 2)
	if err != nil {
		return []string{"BADCASE"}
	}
	var nt, ni int
	if _, err := fmt.Sscanf(in[3], "%dx%d", &nt, &ni); err != nil || nt < 1 || nt > 64 || ni < 1 || ni > 100000 {
		return []string{"BADCASE"}
	}
	s, st := newSystem(tree, in[0] == "LOADB")
	defer s.close()
	out = append(out, "CFG="+st)
	if s == nil {
		return out
	}
	req0, res0, err := m.build()
	if err != nil {
		return []string{"BADCASE"}
	}
	out = append(out, s.bits(m, req0, res0))
	var wg sync.WaitGroup
	var panicked int32
	start := make(chan struct{})
	for t := 0; t < nt; t++ {
		wg.Add(1)
		go func() {
			defer wg.Done()
			defer func() {
				if r := recover(); r != nil {
					atomic.StoreInt32(&panicked, 1)
				}
			}()
			req, res, _ := m.build()
			<-start
			for i := 0; i < ni; i++ {
				s.send(m, req, res)
			}
		}()
	}
	close(start)
	wg.Wait()
	if atomic.LoadInt32(&panicked) == 1 {
		return append(out, "PANIC")
	}
	var texts []string
	if s.reqv != nil {
		texts = append(texts, errTexts(s.reqv.VerifyRequests())...)
	}
	if s.resv != nil {
		texts = append(texts, errTexts(s.resv.VerifyResponses())...)
	}
	seen := map[string]bool{}
	var distinct []string
	for _, t := range texts {
		if !seen[t] {
			seen[t] = true
			distinct = append(distinct, t)
		}
	}
	out = append(out, fmt.Sprintf("COUNT=%d", len(texts)), "FQ="+s.canon(distinct))
	return out
}

// stressStall is the watchdog of one STRESS case: when neither a message nor a
// query has completed for this long the case is a lock-up (observation LOCKUP
// instead of a hanging harness).  Progress, not total time, is watched, so a
// slow (race-instrumented, loaded) run is not mistaken for one.
const stressStall = 6 * time.Second

// runStress: STRESSB|STRESSM <tree> <traffic> <T>x<N>
// T goroutines each send the (typically failing) message N times while one
// goroutine keeps querying (direct calls, every 31st through the handler) and
// every 97th round resets.  All of it must return; afterwards reset, one more
// send and a query must give the sequential answer.
func runStress(in []string) (out []string) {
	defer func() {
		if r := recover(); r != nil {
			out = append(out, "PANIC")
		}
	}()
	if len(in) != 4 {
		return []string{"BADCASE"}
	}
	tree, err := parseTree(in[1])
	if err != nil {
		return []string{"BADCASE"}
	}
	m, err := parseMessage(in[2], 2)
	if err != nil {
		return []string{"BADCASE"}
	}
	var nt, ni int
	if _, err := fmt.Sscanf(in[3], "%dx%d", &nt, &ni); err != nil || nt < 1 || nt > 64 || ni < 1 || ni > 1000000 {
		return []string{"BADCASE"}
	}
	if atomic.LoadInt32(&lockups) >= maxLockups {
		return []string{"BADCASE", "SKIPPED=after-lockups"}
	}
	s, st := newSystem(tree, in[0] == "STRESSB")
	defer s.close()
	out = append(out, "CFG="+st)
	if s == nil {
		return out
	}
	req0, res0, err := m.build()
	if err != nil {
		return []string{"BADCASE"}
	}
	out = append(out, s.bits(m, req0, res0))
	var wg sync.WaitGroup
	var stop, panicked int32
	var sent, queries int64
	for t := 0; t < nt; t++ {
		wg.Add(1)
		go func() {
			defer wg.Done()
			defer func() {
				if r := recover(); r != nil {
					atomic.StoreInt32(&panicked, 1)
				}
			}()
			req, res, _ := m.build()
			for i := 0; i < ni; i++ {
				s.send(m, req, res)
				atomic.AddInt64(&sent, 1)
			}
		}()
	}
	var cwg sync.WaitGroup
	cwg.Add(1)
	go func() {
		defer cwg.Done()
		defer func() {
			if r := recover(); r != nil {
				atomic.StoreInt32(&panicked, 1)
			}
		}()
		for k := 1; atomic.LoadInt32(&stop) == 0; k++ {
			if s.reqv != nil {
				s.reqv.VerifyRequests()
			}
			if s.resv != nil {
				s.resv.VerifyResponses()
			}
			if k%31 == 0 {
				s.query("Q")
			}
			if k%97 == 0 {
				s.reset("R")
			}
			atomic.AddInt64(&queries, 1)
		}
	}()
	finished := make(chan struct{})
	go func() {
		wg.Wait()
		atomic.StoreInt32(&stop, 1)
		cwg.Wait()
		close(finished)
	}()
	last, lastChange := int64(-1), time.Now()
watch:
	for {
		select {
		case <-finished:
			break watch
		case <-time.After(200 * time.Millisecond):
		}
		if cur := atomic.LoadInt64(&sent) + atomic.LoadInt64(&queries); cur != last {
			last, lastChange = cur, time.Now()
		} else if time.Since(lastChange) > stressStall {
			// goroutines stay blocked; the case is over
			atomic.AddInt32(&lockups, 1)
			return append(out, fmt.Sprintf("LOCKUP=sent%d.of%d.queries%d", atomic.LoadInt64(&sent), nt*ni, atomic.LoadInt64(&queries)))
		}
	}
	if atomic.LoadInt32(&panicked) == 1 {
		return append(out, "PANIC")
	}
	out = append(out, "Z0="+s.reset("R"))
	req1, res1, _ := m.build()
	if r := s.send(m, req1, res1); r != "ok" && r != "nil" {
		out = append(out, fmt.Sprintf("E%d=%s", m.mid, r))
	}
	ts, bad := s.query("Q")
	if bad != "" {
		out = append(out, "FQ=!"+bad)
	} else {
		out = append(out, "FQ="+s.canon(ts))
	}
	return out
}

func runCase(in []string) []string {
	if len(in) == 0 {
		return []string{"BADCASE"}
	}
	switch in[0] {
	case "SEQ", "SEQM", "SEQN", "DIR":
		return runSeq(in)
	case "CONC", "CONCB":
		return runConc(in)
	case "GATEM", "GATEB":
		return runGate(in)
	case "STRESSM", "STRESSB":
		return runStress(in)
	case "LOADM", "LOADB":
		return runLoad(in)
	}
	return []string{"BADCASE"}
}

// caseTimeout bounds any single concurrent case (a lock-up in the code under
// test must be a verdict, not a hanging harness).
const caseTimeout = 30 * time.Second

// after this many lock-ups in one process the remaining concurrent cases are
// skipped (each would cost a full watchdog period)
const maxLockups = 3

var lockups int32

func runCaseWatchdog(in []string, d time.Duration) []string {
	if atomic.LoadInt32(&lockups) >= maxLockups {
		return []string{"BADCASE", "SKIPPED=after-lockups"}
	}
	res := make(chan []string, 1)
	go func() { res <- runCase(in) }()
	select {
	case out := <-res:
		return out
	case <-time.After(d):
		atomic.AddInt32(&lockups, 1)
		return []string{"CFG=ok", "LOCKUP=case-did-not-finish"}
	}
}

// ------------------------------------------------- race-detecting child

var raceFuncRE = regexp.MustCompile(`(?m)^  ([A-Za-z0-9_./()*\-]+)\(\)\n`)

// summarizeRace keeps the martian functions of a race report (sorted, unique).
func summarizeRace(rep string) string {
	seen := map[string]bool{}
	var fs []string
	for _, m := range raceFuncRE.FindAllStringSubmatch(rep, -1) {
		f := m[1]
		if !strings.Contains(f, "google/martian/v3") {
			continue
		}
		f = strings.TrimPrefix(f, "github.com/google/martian/v3")
		f = strings.TrimPrefix(f, "/")
		f = strings.TrimPrefix(f, ".")
		if !seen[f] {
			seen[f] = true
			fs = append(fs, f)
		}
	}
	sort.Strings(fs)
	if len(fs) > 8 {
		fs = fs[:8]
	}
	return strings.Join(fs, "|")
}

// childMain: reads "CASE name IN ..." lines on stdin, writes full case lines
// on stdout.  With the race detector compiled in, GORACE=log_path=<prefix>
// makes reports go to <prefix>.<pid>; growth of that file during a case is
// attributed to the case.
func childMain() {
	logp := os.Getenv("C13_RACE_LOG")
	if logp != "" {
		logp = fmt.Sprintf("%s.%d", logp, os.Getpid())
	}
	size := func() int64 {
		if logp == "" {
			return 0
		}
		st, err := os.Stat(logp)
		if err != nil {
			return 0
		}
		return st.Size()
	}
	sc := bufio.NewScanner(os.Stdin)
	sc.Buffer(make([]byte, 1<<20), 1<<28)
	w := bufio.NewWriter(os.Stdout)
	defer w.Flush()
	for sc.Scan() {
		cs, ok := hx.ParseCaseLine(sc.Text())
		if !ok {
			continue
		}
		before := size()
		limit := caseTimeout
		if len(cs.In) > 0 && isLoad(cs.In[0]) {
			limit = 10 * caseTimeout // volume, possibly race-instrumented: STRESS has its own progress watchdog
		}
		out := runCaseWatchdog(cs.In, limit)
		if raceEnabled {
			out = append(out, "RACEDET=on")
		} else {
			out = append(out, "RACEDET=off")
		}
		if after := size(); after > before {
			b, _ := os.ReadFile(logp)
			if int64(len(b)) >= after {
				out = append(out, "RACE="+summarizeRace(string(b[before:after])))
			} else {
				out = append(out, "RACE=unreadable")
			}
		}
		cs.Out = out
		w.WriteString(cs.Line())
		w.WriteByte('\n')
		w.Flush() // a later case may take the whole process down
	}
}

// raceBinary returns a race-enabled build of this command: this binary if it
// already is one (thorough tier), else a cached `go build -race` next to the
// work directory (quick tier; skipped when it cannot be built in time).
func raceBinary() string {
	self, _ := os.Executable()
	if raceEnabled {
		return self
	}
	if os.Getenv("C13_NO_RACE_BUILD") != "" {
		return ""
	}
	work, vdir := os.Getenv("VERIF_WORK"), os.Getenv("VERIF_DIR")
	if work == "" || vdir == "" {
		return ""
	}
	mod := filepath.Join(work, "go.mod")
	if _, err := os.Stat(mod); err != nil {
		return ""
	}
	outb := filepath.Join(work, "c13.race.bin")
	cmd := exec.Command("timeout", "240", "go", "build", "-modfile="+mod, "-tags", "verif", "-race", "-o", outb, "./cmd/c13")
	cmd.Dir = filepath.Join(vdir, "harness")
	cmd.Env = append(os.Environ(), "GOFLAGS=-mod=mod", "GOPROXY=off", "GOSUMDB=off", "GOTOOLCHAIN=local")
	if b, err := cmd.CombinedOutput(); err != nil {
		fmt.Fprintf(os.Stderr, "c13: race build unavailable: %v %s\n", err, b)
		return ""
	}
	return outb
}

// runChild runs the CONC cases in a child process and returns their outputs.
func runChild(bin string, cases []hx.Case, race bool) (map[string][]string, error) {
	tmp, err := os.MkdirTemp("", "c13race")
	if err != nil {
		return nil, err
	}
	defer os.RemoveAll(tmp)
	var inbuf bytes.Buffer
	for _, c := range cases {
		inbuf.WriteString("CASE " + c.Name + " IN " + strings.Join(c.In, " ") + "\n")
	}
	cmd := exec.Command(bin, "-extra", "child")
	logp := filepath.Join(tmp, "race")
	cmd.Env = os.Environ()
	if race {
		cmd.Env = append(cmd.Env, "C13_RACE_LOG="+logp,
			"GORACE=halt_on_error=0 exitcode=0 atexit_sleep_ms=0 log_path="+logp)
	} else {
		cmd.Env = append(cmd.Env, "GORACE=halt_on_error=0 exitcode=0 atexit_sleep_ms=0 log_path="+filepath.Join(tmp, "ignored"))
	}
	cmd.Stdin = &inbuf
	var outbuf, errbuf bytes.Buffer
	cmd.Stdout = &outbuf
	cmd.Stderr = &errbuf
	if err := cmd.Start(); err != nil {
		return nil, err
	}
	done := make(chan error, 1)
	go func() { done <- cmd.Wait() }()
	crashed := ""
	select {
	case err := <-done:
		if err != nil {
			// the code under test took the process down (Go runtime fatal error: not recoverable)
			crashed = "exit"
			for _, l := range strings.Split(errbuf.String(), "\n") {
				if strings.HasPrefix(l, "fatal error:") || strings.HasPrefix(l, "panic:") || strings.Contains(l, "unexpected signal") {
					crashed = l
					break
				}
			}
		}
	case <-time.After(30 * time.Minute):
		cmd.Process.Kill()
		return nil, fmt.Errorf("child timed out")
	}
	res := map[string][]string{}
	defer func() {
		if crashed != "" {
			res["\x00crashed"] = []string{crashed}
		}
	}()
	sc := bufio.NewScanner(&outbuf)
	sc.Buffer(make([]byte, 1<<20), 1<<28)
	for sc.Scan() {
		if cs, ok := hx.ParseCaseLine(sc.Text()); ok {
			res[cs.Name] = cs.Out
		}
	}
	return res, nil
}

// runChildren runs cases in child processes of bin; when the code under test
// takes a child down, the case in flight gets the observation CRASH and a new
// child continues with the rest.
func runChildren(bin string, cases []hx.Case, race bool) (map[string][]string, error) {
	all := map[string][]string{}
	rest := cases
	for launches := 0; len(rest) > 0; launches++ {
		if launches >= 6 {
			for _, c := range rest {
				all[c.Name] = []string{"BADCASE", "SKIPPED=after-crashes"}
			}
			break
		}
		res, err := runChild(bin, rest, race)
		if err != nil {
			return nil, err
		}
		crash, crashed := res["\x00crashed"]
		i := 0
		for ; i < len(rest); i++ {
			out, ok := res[rest[i].Name]
			if !ok {
				break
			}
			all[rest[i].Name] = out
		}
		if i < len(rest) {
			why := "child-ended-early"
			if crashed {
				why = crash[0]
			}
			all[rest[i].Name] = []string{"CFG=ok", "CRASH=" + hx.HexS(why)}
			i++
		}
		rest = rest[i:]
	}
	return all, nil
}

func isConcurrent(kind string) bool {
	switch kind {
	case "CONC", "CONCB", "GATEM", "GATEB":
		return true
	}
	return false
}

// load cases run in a plain (not race-instrumented unless the whole harness is) child
func isLoad(kind string) bool {
	switch kind {
	case "STRESSM", "STRESSB", "LOADM", "LOADB":
		return true
	}
	return false
}

func main() {
	mlog.SetLevel(mlog.Silent)
	for i, a := range os.Args {
		if a == "-extra" && i+1 < len(os.Args) && os.Args[i+1] == "child" {
			childMain()
			return
		}
	}
	cfg := hx.ParseFlags()
	defer cfg.Close()

	var all []hx.Case
	pre, replayOnly := cfg.Inputs()
	all = append(all, pre...)
	if !replayOnly {
		all = append(all, generate(cfg)...)
	}

	// concurrent cases go to a (race-enabled when possible) child process
	var conc []hx.Case
	for _, c := range all {
		if len(c.In) > 0 && isConcurrent(c.In[0]) {
			conc = append(conc, c)
		}
	}
	concOut := map[string][]string{}
	if len(conc) > 0 {
		bin := raceBinary()
		if bin == "" {
			bin, _ = os.Executable()
			cfg.Count("race_detector=unavailable")
		} else {
			cfg.Count("race_detector=on")
		}
		res, err := runChildren(bin, conc, true)
		if err != nil {
			fmt.Fprintln(os.Stderr, "c13:", err)
			os.Exit(3)
		}
		concOut = res
	}
	var load []hx.Case
	for _, c := range all {
		if len(c.In) > 0 && isLoad(c.In[0]) {
			load = append(load, c)
		}
	}
	if len(load) > 0 {
		self, _ := os.Executable()
		res, err := runChildren(self, load, false)
		if err != nil {
			fmt.Fprintln(os.Stderr, "c13:", err)
			os.Exit(3)
		}
		for k, v := range res {
			concOut[k] = v
		}
	}
	for _, c := range all {
		var out []string
		if len(c.In) > 0 && (isConcurrent(c.In[0]) || isLoad(c.In[0])) {
			out = concOut[c.Name]
			if out == nil {
				out = []string{"CHILDLOST"}
			}
		} else {
			out = runCase(c.In)
		}
		cfg.Emit(hx.Case{Name: c.Name, In: c.In, Out: out})
		if len(c.In) > 0 {
			cfg.Count("kind=" + c.In[0])
		}
	}
}
