package main

import (
	"fmt"
	"os"
	"strconv"
	"strings"

	"verifharness/hx"
)

// ids of the nodes a message attribute can refer to
type domain struct {
	methods, paths, statuses, headers, queries []int
}

func domainOf(t *node) domain {
	var d domain
	t.walk(func(n *node) {
		switch {
		case n.kind == 'L' && n.typ == 's':
			d.statuses = append(d.statuses, n.id)
		case n.kind == 'L' && n.typ == 'h', n.kind == 'F' && n.typ == 'h':
			d.headers = append(d.headers, n.id)
		case n.kind == 'L' && n.typ == 'm', n.kind == 'F' && n.typ == 'm':
			d.methods = append(d.methods, n.id)
		case n.kind == 'L' && (n.typ == 'u' || n.typ == 'p'), n.kind == 'F' && n.typ == 'u':
			d.paths = append(d.paths, n.id)
		case n.kind == 'L' && n.typ == 'q', n.kind == 'F' && n.typ == 'q':
			d.queries = append(d.queries, n.id)
		}
	})
	return d
}

func pick(r *hx.RNG, l []int) int {
	if len(l) == 0 || r.Chance(1, 3) {
		return 0
	}
	return l[r.Intn(len(l))]
}

func subset(r *hx.RNG, l []int) (a, b []int) {
	for _, x := range l {
		switch r.Intn(8) {
		case 0, 1, 2:
			a = append(a, x)
		case 3, 4:
			b = append(b, x)
		case 5:
			a = append(a, x)
			b = append(b, x)
		case 6:
			if r.Bool() { // the same header line / parameter twice, both with the other value
				b = append(b, x, x)
			}
		}
	}
	return
}

func randMessage(r *hx.RNG, d domain, kind byte, apiNum int) *message {
	m := &message{kind: kind, api: r.Chance(apiNum, 8)}
	m.method = pick(r, d.methods)
	m.path = pick(r, d.paths)
	m.status = pick(r, d.statuses)
	m.h, m.g = subset(r, d.headers)
	m.q, m.r = subset(r, d.queries)
	if r.Chance(1, 7) {
		m.bad = r.Range(1, len(badQueries)-1)
	}
	return m
}

func randKind(r *hx.RNG) byte {
	if r.Bool() {
		return 'q'
	}
	return 's'
}

type treeGen struct {
	r      *hx.RNG
	nextID int
}

func (g *treeGen) id() int { g.nextID++; return g.nextID }

var leafTypes = []byte("shmuqfp")
var filterTypes = []byte("hmuq")

func (g *treeGen) scope(valid string) byte { return valid[g.r.Intn(len(valid))] }

func leafScopes(t byte) string {
	switch t {
	case 's':
		return "snn"
	case 'h':
		return "qsbnn"
	default:
		return "qnn"
	}
}

func (g *treeGen) leaf(t byte) *node {
	return &node{kind: 'L', id: g.id(), typ: t, scope: g.scope(leafScopes(t))}
}

func (g *treeGen) top(depth int) *node {
	// mostly a group or a filter at the root, sometimes a bare leaf
	if g.r.Chance(1, 10) {
		return g.tree(0)
	}
	for {
		if n := g.tree(depth); n.kind == 'G' || n.kind == 'F' {
			return n
		}
	}
}

func (g *treeGen) tree(depth int) *node {
	k := g.r.Intn(10)
	switch {
	case depth <= 0 || k < 3:
		if g.r.Chance(1, 8) {
			return &node{kind: 'O', scope: g.scope("qsbn")}
		}
		return g.leaf(leafTypes[g.r.Intn(len(leafTypes))])
	case k < 6:
		n := &node{kind: 'G', scope: g.scope("nnnnbqs")}
		w := g.r.Range(1, 4)
		if g.r.Chance(1, 12) {
			w = 0
		}
		for i := 0; i < w; i++ {
			n.kids = append(n.kids, g.tree(depth-1))
		}
		return n
	default:
		n := &node{kind: 'F', id: g.id(), typ: filterTypes[g.r.Intn(len(filterTypes))], scope: g.scope("nnnnbqs")}
		n.tb = g.tree(depth - 1)
		if g.r.Chance(3, 4) {
			n.eb = g.tree(depth - 1)
		}
		return n
	}
}

var wrongResetMethods = []string{"GET", "HEAD", "DELETE", "PUT", "PATCH", "OPTIONS"}
var wrongVerifyMethods = []string{"POST", "HEAD", "DELETE", "PUT", "PATCH", "OPTIONS"}

// apiOp: an exchange with the proxy's own API through the proxy, by a route
// the front of this case kind recognises.
func apiOp(r *hx.RNG, kind string) string {
	routes := "2"
	if kind == "SEQM" || kind == "SEQN" {
		routes = "23"
	}
	return "A" + string("QRC"[r.Intn(3)]) + string(routes[r.Intn(len(routes))])
}

func refusedOp(r *hx.RNG) string {
	if r.Bool() {
		return "XR:" + wrongResetMethods[r.Intn(len(wrongResetMethods))]
	}
	return "XQ:" + wrongVerifyMethods[r.Intn(len(wrongVerifyMethods))]
}

func mergeDomains(ds ...domain) domain {
	var d domain
	for _, x := range ds {
		d.methods = append(d.methods, x.methods...)
		d.paths = append(d.paths, x.paths...)
		d.statuses = append(d.statuses, x.statuses...)
		d.headers = append(d.headers, x.headers...)
		d.queries = append(d.queries, x.queries...)
	}
	return d
}

// reconfOp: POST of a further configuration, straight or through the proxy
func reconfOp(r *hx.RNG, kind string, tree *node) string {
	if kind != "DIR" && r.Chance(1, 3) {
		route := "2"
		if kind != "SEQ" && r.Bool() {
			route = "3"
		}
		return "AP" + route + tree.String()
	}
	return "P" + tree.String()
}

func randOps(r *hx.RNG, d domain, n int, kind string, later []*node) []string {
	var ops []string
	for i := 0; i < n; i++ {
		if kind != "DIR" && len(later) > 0 && r.Chance(1, 9) {
			ops = append(ops, reconfOp(r, kind, later[0]))
			later = later[1:]
			continue
		}
		if kind != "DIR" && r.Chance(1, 40) {
			ops = append(ops, "PX")
			continue
		}
		if r.Chance(1, 12) {
			ops = append(ops, refusedOp(r))
			continue
		}
		if kind != "DIR" && r.Chance(1, 10) {
			ops = append(ops, apiOp(r, kind))
			continue
		}
		switch k := r.Intn(20); {
		case k < 12:
			ops = append(ops, randMessage(r, d, randKind(r), 2).token())
		case k < 15:
			ops = append(ops, "Q")
		case k == 15:
			ops = append(ops, []string{"Qq", "Qs"}[r.Intn(2)])
		case k < 18:
			ops = append(ops, "R")
		default:
			ops = append(ops, []string{"Rq", "Rs"}[r.Intn(2)])
		}
	}
	return append(ops, "Q")
}

// contexts in which every verifier type is placed systematically; %s = the leaf
var contexts = []string{
	"%s",
	"Gn(%s)",
	"Gn(On,%s,Gn(%s2))",
	"F90%cn(%s;On)",
	"F90%cn(On;%s)",
	"F90%cn(%s;%s2)",
	"F90%cn(%s)",
	"Gn(F90%cn(Gn(%s);Gn(%s2)))",
	"F90%cn(F91%cn(%s;%s2);F92%cn(%s3;%s4))",
	"Gb(F90%cb(Gb(%s,%s2);Gn(%s3,F91%cn(On;%s4))))",
}

func instantiate(ctx string, lt, ft byte) string {
	s := strings.ReplaceAll(ctx, "%c", string(ft))
	for i := 4; i >= 2; i-- {
		s = strings.ReplaceAll(s, fmt.Sprintf("%%s%d", i), fmt.Sprintf("L%d%cn", i, lt))
	}
	return strings.ReplaceAll(s, "%s", fmt.Sprintf("L1%cn", lt))
}

func generate(cfg *hx.Config) []hx.Case {
	var cases []hx.Case
	n := 0
	add := func(prefix string, in []string) {
		n++
		cases = append(cases, hx.Case{Name: fmt.Sprintf("%s%d", prefix, n), In: in})
	}
	rng := hx.NewRNG(cfg.Seed)
	sysReps, nRandom, nConc := 3, 3000, 300
	if cfg.Thorough() {
		sysReps, nRandom, nConc = 20, 50000, 5000
	}
	if v := os.Getenv("VERIF_C13_SCALE"); v != "" {
		k, _ := strconv.Atoi(v)
		sysReps, nRandom, nConc = k, 350*k, 60*k
	}

	// 1. systematic: every verifier type in every context, every filter type
	for _, ctx := range contexts {
		for _, lt := range leafTypes {
			fts := filterTypes
			if !strings.Contains(ctx, "%c") {
				fts = []byte("h")
			}
			for _, ft := range fts {
				tok := instantiate(ctx, lt, ft)
				tree, err := parseTree(tok)
				if err != nil {
					panic(tok + ": " + err.Error())
				}
				d := domainOf(tree)
				for rep := 0; rep < sysReps; rep++ {
					r := rng.Fork()
					kind := "SEQ"
					if rep%3 == 1 {
						kind = "DIR"
					}
					in := []string{kind, tok, "Q"}
					for i := 0; i < 6; i++ {
						in = append(in, randMessage(r, d, randKind(r), 2).token())
					}
					in = append(in, "Q", "R", "Q")
					for i := 0; i < 3; i++ {
						in = append(in, randMessage(r, d, randKind(r), 1).token())
					}
					in = append(in, "Q")
					add("sys", in)
					cfg.Count("gen=systematic")
					cfg.Count("leaf=" + string(lt))
				}
			}
		}
	}

	// 1b. every failure path of every verifier type (expectation unmet in each
	// of its ways, input unparseable, met), as API and as non-API traffic, as
	// request and as response, with one and with two verifiers of the type
	for _, ctx := range []string{"%s", "Gn(%s,%s2)", "F90%cn(%s;%s2)", "F90%cn(Gn(%s3,%s);%s2)"} {
		for _, lt := range leafTypes {
			for _, ft := range []byte("hq") {
				if !strings.Contains(ctx, "%c") && ft != 'h' {
					continue
				}
				tok := instantiate(ctx, lt, ft)
				if _, err := parseTree(tok); err != nil {
					panic(tok + ": " + err.Error())
				}
				var msgs []string
				for _, api := range []bool{false, true} {
					for _, kind := range []byte("qs") {
						for _, v := range pathVariants(lt) {
							m := v
							m.kind, m.api = kind, api
							for _, cond := range []bool{false, true} {
								mm := m
								if cond { // make filter 90 match
									mm.h = append(append([]int{}, mm.h...), 90)
									if mm.bad == 0 {
										mm.q = append(append([]int{}, mm.q...), 90)
									}
								}
								msgs = append(msgs, mm.token())
								if !strings.Contains(ctx, "%c") {
									break
								}
							}
						}
					}
				}
				for rep := 0; rep < 2; rep++ {
					r := rng.Fork()
					// shuffled so that each verifier meets the paths in a different order
					sh := append([]string{}, msgs...)
					for i := len(sh) - 1; i > 0; i-- {
						j := r.Intn(i + 1)
						sh[i], sh[j] = sh[j], sh[i]
					}
					kind := "SEQ"
					if rep == 1 {
						kind = "DIR"
					}
					in := append([]string{kind, tok, "Q"}, sh...)
					in = append(in, "Q", "R", "Q")
					in = append(in, sh[:len(sh)/3]...)
					in = append(in, "Q")
					add("path", in)
					cfg.Count("gen=failure_paths")
				}
			}
		}
	}
	// 1c. API traffic by every route the proxy recognises (alias host, the API
	// server's own host:port with a default and with a named host) x query /
	// reset / configure exchanges, and calls the handlers refuse; nothing of it
	// may be counted, a reset by any route must leave every verifier initial,
	// a refused call must leave everything as it was
	for _, kind := range []string{"SEQ", "SEQM", "SEQN"} {
		for _, lt := range leafTypes {
			for _, shape := range []string{"%s", "Gn(%s,F90%cn(%s2;%s3))"} {
				r := rng.Fork()
				tok := instantiate(shape, lt, 'h')
				tree, err := parseTree(tok)
				if err != nil {
					panic(tok + ": " + err.Error())
				}
				d := domainOf(tree)
				routes := []string{"2"}
				if kind != "SEQ" {
					routes = []string{"2", "3"}
				}
				for _, route := range routes {
					in := []string{kind, tok, "Q"}
					for i := 0; i < 4; i++ {
						in = append(in, randMessage(r, d, randKind(r), 0).token())
					}
					in = append(in, "AQ"+route, "AC"+route, refusedOp(r), "XR:GET", "XQ:POST", "Q", "AR"+route, "Q")
					for i := 0; i < 3; i++ {
						in = append(in, randMessage(r, d, randKind(r), 0).token())
					}
					in = append(in, "XR:DELETE", "AQ"+route, "AR"+route, "AQ"+route, "Q")
					add("api", in)
					cfg.Count("gen=api_routes")
				}
			}
		}
	}

	// 1d. reconfiguration: sequences of configurations whose effective scopes
	// differ (request-only, response-only, both, none; by group scope and by
	// verifier type), widening and narrowing, with traffic / query / reset in
	// between.  After a POST the tree is the new configuration's on BOTH sides.
	scopedCfg := func(j int, sc byte) string {
		b := 10 * j
		return fmt.Sprintf("G%c(L%dhn,L%dfn,L%dsn,F%dhn(L%dhn;L%dun))", sc, b+1, b+2, b+3, b+4, b+5, b+6)
	}
	typedCfg := func(j int, which int) string {
		b := 10 * j
		switch which {
		case 0: // request-only by verifier type
			return fmt.Sprintf("Gn(L%dfn,L%dmn,L%dpn)", b+1, b+2, b+3)
		case 1: // response-only by verifier type
			return fmt.Sprintf("L%dsn", b+1)
		case 2: // both
			return fmt.Sprintf("L%dhb", b+1)
		default: // nothing
			return "Gn()"
		}
	}
	var cfgSeqs [][]string
	for _, a := range []byte("qsbn") {
		for _, b := range []byte("qsbn") {
			cfgSeqs = append(cfgSeqs, []string{scopedCfg(1, a), scopedCfg(2, b), scopedCfg(3, 'n')})
		}
	}
	for a := 0; a < 4; a++ {
		for b := 0; b < 4; b++ {
			cfgSeqs = append(cfgSeqs, []string{typedCfg(1, a), typedCfg(2, b), typedCfg(3, (a+b+1)%4)})
		}
	}
	for si, seq := range cfgSeqs {
		r := rng.Fork()
		kind := []string{"SEQ", "SEQM", "SEQN"}[si%3]
		var ds []domain
		for _, tok := range seq {
			t, err := parseTree(tok)
			if err != nil {
				panic(tok + ": " + err.Error())
			}
			ds = append(ds, domainOf(t))
		}
		d := mergeDomains(ds...)
		in := []string{kind, seq[0], "Q"}
		traffic := func(n int) {
			for i := 0; i < n; i++ {
				in = append(in, randMessage(r, d, randKind(r), 0).token())
			}
		}
		traffic(4)
		in = append(in, "Q")
		for j, tok := range seq[1:] {
			if j == 1 {
				in = append(in, "PX")
			}
			in = append(in, reconfOp(r, kind, mustTree(tok)), "Q")
			traffic(4)
			in = append(in, "Q", "R", "Q")
			traffic(2)
			in = append(in, "Q")
		}
		add("reconf", in)
		cfg.Count("gen=reconfiguration")
	}

	// 2. random trees and histories
	for k := 0; k < nRandom; k++ {
		r := rng.Fork()
		g := &treeGen{r: r}
		maxDepth, maxOps := 4, 30
		if cfg.Thorough() {
			maxDepth, maxOps = 5, 60
		}
		tree := g.top(r.Range(1, maxDepth))
		d := domainOf(tree)
		kind := []string{"SEQ", "SEQM", "SEQN", "DIR"}[k%4]
		var later []*node
		if kind != "DIR" && k%3 == 0 {
			// further configurations of the same case (ids continue, so every verifier stays identifiable)
			for j := r.Range(1, 3); j > 0; j-- {
				g.nextID += 3
				var t *node
				if r.Chance(1, 6) {
					t, _ = parseTree("G" + string("qsbn"[r.Intn(4)]) + "()")
				} else {
					t = g.top(r.Range(1, 3))
				}
				later = append(later, t)
				d = mergeDomains(d, domainOf(t))
			}
			cfg.Count("gen=random_with_reconfiguration")
		}
		in := append([]string{kind, tree.String()}, randOps(r, d, r.Range(4, maxOps), kind, later)...)
		add("rnd", in)
		cfg.Count("gen=random")
		cfg.Count(fmt.Sprintf("tree_nodes=%d", bucket(countNodes(tree))))
		cfg.Count(fmt.Sprintf("ops=%d", bucket(len(in)-2)))
	}

	// 3. concurrent batches
	for k := 0; k < nConc; k++ {
		r := rng.Fork()
		g := &treeGen{r: r}
		tree := g.top(r.Range(1, 3))
		switch k % 6 {
		case 0:
			// every type below filters only: no fifo.Group lock orders the query against traffic
			tree, _ = parseTree("F1hn(F2qn(L3pn;L4fn);F5un(F6mn(L7hn;L8sn);F9hn(L10un;F11qn(L12qn;L13mn))))")
		case 1:
			tree, _ = parseTree("Gn(L1pn,L2fn,F3hn(L4hn;Gn(L5sn,L6un)),L7qn,L8mn)")
		case 2:
			tree = g.leaf(leafTypes[(k/6)%len(leafTypes)])
		}
		d := domainOf(tree)
		ckind := "CONC" // root = martianhttp.Modifier
		if (k/6)%2 == 1 {
			ckind = "CONCB" // bare root: handlers and traffic wired to the group / filter / verifier itself
		}
		cfg.Count("concurrent_root=" + ckind)
		in := []string{ckind, tree.String(), "P"}
		for i := r.Range(0, 6); i > 0; i-- {
			in = append(in, randMessage(r, d, randKind(r), 1).token())
		}
		nt := r.Range(1, 3)
		per := r.Range(5, 40)
		for t := 0; t < nt; t++ {
			in = append(in, "T")
			for i := 0; i < per; i++ {
				in = append(in, randMessage(r, d, randKind(r), 1).token())
			}
		}
		withReset := k%3 == 2
		if !withReset && k%2 == 0 {
			in = append(in, "KS")
			cfg.Count("concurrent=progress_snapshots")
		} else {
			in = append(in, "K")
		}
		for i := r.Range(2, 12); i > 0; i-- {
			if withReset && r.Chance(1, 3) {
				in = append(in, "R")
			} else {
				in = append(in, "Q")
			}
		}
		if withReset && k%2 == 0 {
			// a second control goroutine: resets racing with queries as well as with traffic
			in = append(in, "K")
			for i := r.Range(2, 10); i > 0; i-- {
				if r.Bool() {
					in = append(in, "R")
				} else {
					in = append(in, "Q")
				}
			}
			cfg.Count("concurrent=two_control_goroutines")
		}
		add("conc", in)
		cfg.Count("gen=concurrent")
		if withReset {
			cfg.Count("concurrent=with_reset")
		} else {
			cfg.Count("concurrent=query_only")
		}
	}
	// 4. an operation racing with one message parked between the verifiers of a group
	gateShapes := []string{
		"Gn(%s,W,%s2)",
		"Gn(%s,Gn(W),%s2,%s3)",
		"F90%cn(Gn(%s,W,%s2);Gn(%s3,W,%s4))",
		"Gn(F90%cn(%s;%s2),W,F91%cn(%s3;%s4))",
		"Gn(Gn(%s,%s2),F90%cn(W;W),Gn(%s3),%s4)",
	}
	nGateReps := 1
	if cfg.Thorough() {
		nGateReps = 6
	}
	for _, shape := range gateShapes {
		for _, lt := range leafTypes {
			for oi, op := range []string{"R", "Q"} {
				for _, root := range []string{"GATEB", "GATEM"} {
					for rep := 0; rep < nGateReps; rep++ {
						r := rng.Fork()
						tok := instantiate(shape, lt, filterTypes[r.Intn(len(filterTypes))])
						tree, err := parseTree(tok)
						if err != nil {
							panic(tok + ": " + err.Error())
						}
						d := domainOf(tree)
						kind := byte('q')
						if lt == 's' || (lt == 'h' && r.Bool()) {
							kind = 's'
						}
						o := op
						if r.Chance(1, 3) { // direct call of the same kind instead of the handler
							o = op + string(kind)
						}
						in := []string{root, tok}
						for i := r.Range(0, 3); i > 0; i-- {
							in = append(in, randMessage(r, d, kind, 1).token())
						}
						m := randMessage(r, d, kind, 0)
						in = append(in, m.token(), o)
						add("gate", in)
						cfg.Count("gen=gate")
						_ = oi
					}
				}
			}
		}
	}
	// 5. lock-ups: queries and resets against heavy failing traffic, on roots that
	// are not a group (nothing but the verifiers' own locks in play) and, as a
	// control, below a group; a watchdog turns a lock-up into an observation
	stressShapes := []string{"%s", "F90%cn(%s;%s2)", "F90%cn(F91%cn(%s;%s2);%s3)", "Gn(%s,%s2)"}
	stressLoad := "8x1000"
	if cfg.Thorough() {
		stressLoad = "8x6000"
	}
	for si, shape := range stressShapes {
		for _, lt := range leafTypes {
			for _, root := range []string{"STRESSB", "STRESSM"} {
				if si == 3 && root == "STRESSM" {
					continue
				}
				r := rng.Fork()
				tok := instantiate(shape, lt, filterTypes[r.Intn(len(filterTypes))])
				tree, err := parseTree(tok)
				if err != nil {
					panic(tok + ": " + err.Error())
				}
				kind := byte('q')
				if lt == 's' || (lt == 'h' && r.Bool()) {
					kind = 's'
				}
				// a message that fails every verifier of the tree (writers are what a query can lock up against)
				m := &message{kind: kind}
				_ = tree
				add("stress", []string{root, tok, m.token(), stressLoad})
				cfg.Count("gen=stress")
			}
		}
	}
	// 6. none lost under load: many goroutines failing ONE verifier at the same
	// moment, nothing else running; afterwards exactly T*N errors
	loadSize := "16x2000"
	if cfg.Thorough() {
		loadSize = "16x5000"
	}
	for _, lt := range []byte("shmuqf") {
		for _, sh := range []struct{ root, shape string }{
			{"LOADB", "%s"}, {"LOADB", "F90hn(On;%s)"}, {"LOADM", "%s"}, {"LOADB", "Gn(%s,%s2)"},
		} {
			if sh.shape != "%s" && lt != 's' && lt != 'f' && lt != 'h' {
				continue
			}
			tok := instantiate(sh.shape, lt, 'h')
			kind := byte('q')
			if lt == 's' {
				kind = 's'
			}
			m := &message{kind: kind}
			add("load", []string{sh.root, tok, m.token(), loadSize})
			cfg.Count("gen=load")
		}
	}
	return cases
}

func countNodes(t *node) int {
	c := 0
	t.walk(func(*node) { c++ })
	return c
}

func bucket(n int) int {
	switch {
	case n < 4:
		return n
	case n < 8:
		return 4
	case n < 16:
		return 8
	case n < 32:
		return 16
	default:
		return 32
	}
}

// pathVariants lists, for one verifier type placed as leaves 1, 2 and 3, the
// messages that drive it down each of its code paths.
func pathVariants(lt byte) []message {
	var vs []message
	switch lt {
	case 's':
		for _, st := range []int{0, 1, 2, 3} {
			vs = append(vs, message{status: st})
		}
	case 'h':
		// absent / wanted value / other value / both values, for leaf 1 (wants "1") and leaf 2 (wants presence)
		for _, hv := range [][2][]int{{nil, nil}, {{1}, nil}, {nil, {1}}, {{1}, {1}}, {{2}, nil}, {nil, {2}}, {{1, 2}, {3}}, {{3}, {1, 2}}, {nil, {1, 1}}, {nil, {1, 1, 2}}} {
			vs = append(vs, message{h: hv[0], g: hv[1]})
		}
	case 'm':
		for _, me := range []int{0, 1, 2, 3} {
			vs = append(vs, message{method: me})
		}
	case 'u', 'p':
		for _, pa := range []int{0, 1, 2, 3} {
			vs = append(vs, message{path: pa})
		}
	case 'q':
		for _, qv := range [][2][]int{{nil, nil}, {{1}, nil}, {nil, {1}}, {{1}, {1}}, {{2}, nil}, {nil, {2}}, {{1, 2}, {3}}, {{3}, {1, 2}}, {nil, {1, 1}}, {nil, {1, 1, 2}}} {
			vs = append(vs, message{q: qv[0], r: qv[1]})
		}
		for b := 1; b < len(badQueries); b++ {
			vs = append(vs, message{bad: b}, message{bad: b, path: 1})
		}
	case 'f':
		vs = append(vs, message{}, message{bad: 1})
	}
	return vs
}

func mustTree(tok string) *node {
	t, err := parseTree(tok)
	if err != nil {
		panic(tok + ": " + err.Error())
	}
	return t
}
