// c11 drives the real h2/grpc adapter+emitter (grpc.AsStreamProcessorFactory)
// with scripts of HEADERS and DATA frames and records what a pass-through
// gRPC processor is shown and what reaches the sinks.
//
// IN tokens (a script; everything needed to re-run the case):
//
//	k=<label>                     generator label (ignored by the model)
//	f=CS|C|S|-                    factory configuration: directions for which the ProcessorFactory returns a processor (default CS)
//	@<k>                          the following H/D/W tokens belong to stream k of the session (default 0);
//	                              all streams of a case are created by ONE StreamProcessorFactory value
//	H<d><es>:<n>:<v>:<n>:<v>...   HEADERS on direction d (C = client-to-server, S = server-to-client), hex name/value pairs
//	D<d><es>:<hex>                DATA frame on direction d
//	W<d>:<flag>:<payloadhex>      intended gRPC message list of direction d (the spec side of the oracle)
//	T<e>:<payloadhex>:<plain|!>   decompression table for the input payloads (e: g gzip, f deflate, s snappy), checked here
//
// OUT tokens: for every executed op a "|" (stream 0) or "|<k>" followed by the calls it caused, in order
// (a call observed on another stream j than the op's is prefixed "!<j>~"):
//
//	p<d>h<es>:ok|diff   processor d was shown Header (fields equal / not equal to the ones fed)
//	s<d>h<es>:ok|diff   sink d received Header
//	p<d>m<es>:<hex>|N   processor d was shown Message(data, es); N = nil data
//	s<d>d<es>:<hex>     sink d received Data
//	s<d>o:<what>        sink d received Priority/RSTStream/PushPromise
//	e:enc|dec|other     the op returned an error (the script stops there)
//	PANIC               the op panicked (the script stops there)
//
// then "#" and t<e>:<payloadhex>:<plain|!> for every compressed payload found by
// an independent parser in the bytes that reached each sink, decoded with
// stdlib / snappy stream decoders under the direction's grpc-encoding, and
// BADTABLE if a T token of the input is wrong.
package main

import (
	"bytes"
	"compress/flate"
	"compress/gzip"
	"encoding/binary"
	"fmt"
	"io"
	"net/url"
	"os"
	"strconv"
	"strings"

	"github.com/golang/snappy"
	"github.com/google/martian/v3/h2"
	mgrpc "github.com/google/martian/v3/h2/grpc"
	mlog "github.com/google/martian/v3/log"
	"golang.org/x/net/http2"
	"golang.org/x/net/http2/hpack"
	"verifharness/hx"
)

// ---------------------------------------------------------------- recording

// rec is the one event log of a case; cur is the stream whose op is being executed.
type rec struct {
	evs []string
	cur int
}

// stream is everything that belongs to one HTTP/2 stream of the session.
type stream struct {
	id      int
	r       *rec
	procs   map[byte]h2.Processor
	fed     map[byte][]hpack.HeaderField   // last header list fed per direction
	hdrs    map[byte][][]hpack.HeaderField // all header lists fed per direction
	sunk    map[byte][]byte                // bytes that reached each sink, for the independent re-parse
	stopped bool
}

func b2i(b bool) int {
	if b {
		return 1
	}
	return 0
}

// add logs a call seen at a recorder of stream st; a call that shows up while another
// stream's op is executing is marked (cross-stream interference).
func (st *stream) add(tok string) {
	if st.id != st.r.cur {
		tok = fmt.Sprintf("!%d~%s", st.id, tok)
	}
	st.r.evs = append(st.r.evs, tok)
}

func (st *stream) sameHeaders(d byte, hs []hpack.HeaderField) string {
	want := st.fed[d]
	if len(want) != len(hs) {
		return "diff"
	}
	for i := range hs {
		if hs[i].Name != want[i].Name || hs[i].Value != want[i].Value {
			return "diff"
		}
	}
	return "ok"
}

type sink struct {
	st *stream
	d  byte
}

func (s *sink) Data(data []byte, es bool) error {
	s.st.add(fmt.Sprintf("s%cd%d:%s", s.d, b2i(es), hx.Hex(data)))
	s.st.sunk[s.d] = append(s.st.sunk[s.d], data...)
	return nil
}
func (s *sink) Header(hs []hpack.HeaderField, es bool, _ http2.PriorityParam) error {
	s.st.add(fmt.Sprintf("s%ch%d:%s", s.d, b2i(es), s.st.sameHeaders(s.d, hs)))
	return nil
}
func (s *sink) Priority(http2.PriorityParam) error {
	s.st.add(fmt.Sprintf("s%co:prio", s.d))
	return nil
}
func (s *sink) RSTStream(http2.ErrCode) error {
	s.st.add(fmt.Sprintf("s%co:rst", s.d))
	return nil
}
func (s *sink) PushPromise(uint32, []hpack.HeaderField) error {
	s.st.add(fmt.Sprintf("s%co:push", s.d))
	return nil
}

// proc is the pass-through gRPC processor: records what it is shown and
// forwards it unchanged to the emitter it was given.
type proc struct {
	st   *stream
	d    byte
	dest mgrpc.Processor
}

func (p *proc) Header(hs []hpack.HeaderField, es bool, prio http2.PriorityParam) error {
	p.st.add(fmt.Sprintf("p%ch%d:%s", p.d, b2i(es), p.st.sameHeaders(p.d, hs)))
	return p.dest.Header(hs, es, prio)
}

func (p *proc) Message(data []byte, es bool) error {
	tok := "N"
	if data != nil {
		tok = hx.Hex(data)
	}
	p.st.add(fmt.Sprintf("p%cm%d:%s", p.d, b2i(es), tok))
	return p.dest.Message(data, es)
}

// ------------------------------------------------- independent codecs/parser

func decodeWith(e byte, b []byte) ([]byte, bool) {
	var rd io.Reader
	switch e {
	case 'g':
		zr, err := gzip.NewReader(bytes.NewReader(b))
		if err != nil {
			return nil, false
		}
		rd = zr
	case 'f':
		rd = flate.NewReader(bytes.NewReader(b))
	case 's':
		rd = snappy.NewReader(bytes.NewReader(b))
	default:
		return b, true
	}
	out, err := io.ReadAll(rd)
	if err != nil {
		return nil, false
	}
	return out, true
}

func encodeWith(e byte, variant int, b []byte) []byte {
	var buf bytes.Buffer
	switch e {
	case 'g':
		lv := []int{gzip.DefaultCompression, gzip.BestSpeed, gzip.NoCompression, gzip.HuffmanOnly}[variant%4]
		w, _ := gzip.NewWriterLevel(&buf, lv)
		w.Write(b)
		w.Close()
	case 'f':
		lv := []int{flate.DefaultCompression, flate.BestSpeed, flate.NoCompression, flate.HuffmanOnly}[variant%4]
		w, _ := flate.NewWriter(&buf, lv)
		w.Write(b)
		w.Close()
	case 's':
		if variant%2 == 0 {
			w := snappy.NewBufferedWriter(&buf)
			w.Write(b)
			w.Close()
		} else {
			w := snappy.NewWriter(&buf) // unbuffered: one chunk per Write
			half := len(b) / 2
			w.Write(b[:half])
			w.Write(b[half:])
		}
	default:
		return b
	}
	return buf.Bytes()
}

// encOf is the harness' own reading of which grpc-encoding a direction ends up with.
func encOf(hs [][]hpack.HeaderField) byte {
	e := byte('i')
	for _, l := range hs {
		for _, h := range l {
			if h.Name == "grpc-encoding" {
				switch h.Value {
				case "identity":
					e = 'i'
				case "gzip":
					e = 'g'
				case "deflate":
					e = 'f'
				case "snappy":
					e = 's'
				}
			}
		}
	}
	return e
}

// flaggedPayloads: independent gRPC frame parser over a byte stream.
func flaggedPayloads(b []byte) [][]byte {
	var res [][]byte
	for len(b) >= 5 {
		n := int(binary.BigEndian.Uint32(b[1:5]))
		if n > len(b)-5 {
			break
		}
		if b[0] != 0 {
			res = append(res, b[5:5+n])
		}
		b = b[5+n:]
	}
	return res
}

// ------------------------------------------------------------------ running

func parseHeaderTok(t string) (d byte, es bool, hs []hpack.HeaderField, ok bool) {
	if len(t) < 3 {
		return
	}
	d, es = t[1], t[2] == '1'
	parts := strings.Split(t, ":")[1:]
	if len(parts)%2 != 0 {
		return
	}
	for i := 0; i < len(parts); i += 2 {
		n, e1 := hx.UnHex(parts[i])
		v, e2 := hx.UnHex(parts[i+1])
		if e1 != nil || e2 != nil {
			return
		}
		hs = append(hs, hpack.HeaderField{Name: string(n), Value: string(v)})
	}
	return d, es, hs, true
}

func errKind(err error) string {
	s := err.Error()
	switch {
	case strings.HasPrefix(s, "unrecognized grpc-encoding"):
		return "enc"
	case strings.HasPrefix(s, "gunzipping data"), strings.HasPrefix(s, "deflating data"), strings.HasPrefix(s, "uncompressing snappy"):
		return "dec"
	}
	return "other"
}

func runCase(in []string) (out []string) {
	r := &rec{}
	// ONE factory value for the whole case; every stream of the session is created by it,
	// as h2 does for every stream of a connection (h2.go: streamProcessors.create).
	var creating *stream
	// factory configuration (token f=CS|C|S|-): for which directions the ProcessorFactory returns a
	// processor; nil for the others, which the documentation allows
	hasC, hasS := true, true
	for _, t := range in {
		if strings.HasPrefix(t, "f=") {
			hasC, hasS = strings.Contains(t[2:], "C"), strings.Contains(t[2:], "S")
		}
	}
	f := mgrpc.AsStreamProcessorFactory(func(_ *url.URL, server, client mgrpc.Processor) (mgrpc.Processor, mgrpc.Processor) {
		var c, s mgrpc.Processor
		if hasC {
			c = &proc{creating, 'C', server}
		}
		if hasS {
			s = &proc{creating, 'S', client}
		}
		return c, s
	})
	streams := map[int]*stream{}
	var order []int
	get := func(k int) *stream {
		if st, ok := streams[k]; ok {
			return st
		}
		st := &stream{id: k, r: r, fed: map[byte][]hpack.HeaderField{}, hdrs: map[byte][][]hpack.HeaderField{}, sunk: map[byte][]byte{}}
		u, _ := url.Parse(fmt.Sprintf("https://example.com/svc/Method%d", k))
		creating = st
		sinks := h2.VerifNewProcessorsC11(&sink{st, 'C'}, &sink{st, 'S'})
		cToS, sToC := f(u, sinks)
		// h2.go: "Bypasses any nil processors"
		if cToS == nil {
			cToS = sinks.ForDirection(h2.ClientToServer)
		}
		if sToC == nil {
			sToC = sinks.ForDirection(h2.ServerToClient)
		}
		st.procs = map[byte]h2.Processor{'C': cToS, 'S': sToC}
		streams[k] = st
		order = append(order, k)
		return st
	}
	badTable := false
	cur := 0

	step := func(st *stream, fn func() error) {
		defer func() {
			if x := recover(); x != nil {
				r.evs = append(r.evs, "PANIC")
				st.stopped = true
			}
		}()
		if err := fn(); err != nil {
			r.evs = append(r.evs, "e:"+errKind(err))
			st.stopped = true
		}
	}
	mark := func(k int) {
		r.cur = k
		if k == 0 {
			r.evs = append(r.evs, "|")
		} else {
			r.evs = append(r.evs, fmt.Sprintf("|%d", k))
		}
	}

	for _, t := range in {
		if t == "" {
			continue
		}
		switch t[0] {
		case '@':
			k, err := strconv.Atoi(t[1:])
			if err != nil || k < 0 || k > 1000 {
				return []string{"BADCASE"}
			}
			cur = k
		case 'H':
			d, es, hs, ok := parseHeaderTok(t)
			if !ok || (d != 'C' && d != 'S') {
				return []string{"BADCASE"}
			}
			st := get(cur)
			if st.stopped {
				continue
			}
			st.fed[d] = hs
			st.hdrs[d] = append(st.hdrs[d], hs)
			mark(cur)
			step(st, func() error { return st.procs[d].Header(hs, es, http2.PriorityParam{}) })
		case 'D':
			if len(t) < 4 || (t[1] != 'C' && t[1] != 'S') {
				return []string{"BADCASE"}
			}
			b, err := hx.UnHex(t[4:])
			if err != nil {
				return []string{"BADCASE"}
			}
			st := get(cur)
			if st.stopped {
				continue
			}
			d, es := t[1], t[2] == '1'
			mark(cur)
			// the relay hands the adapter a slice of the frame it owns; give it a private copy
			step(st, func() error { return st.procs[d].Data(append([]byte(nil), b...), es) })
		case 'T':
			p := strings.Split(t, ":")
			if len(p) != 3 || len(p[0]) != 2 {
				return []string{"BADCASE"}
			}
			pl, err := hx.UnHex(p[1])
			if err != nil {
				return []string{"BADCASE"}
			}
			got, ok := decodeWith(p[0][1], pl)
			if p[2] == "!" {
				if ok {
					badTable = true
				}
			} else if want, err := hx.UnHex(p[2]); err != nil || !ok || !bytes.Equal(want, got) {
				badTable = true
			}
		}
	}
	out = r.evs
	out = append(out, "#")
	seen := map[string]bool{}
	for _, k := range order {
		st := streams[k]
		for _, d := range []byte{'C', 'S'} {
			e := encOf(st.hdrs[d])
			if e == 'i' {
				continue
			}
			for _, pl := range flaggedPayloads(st.sunk[d]) {
				key := string(e) + string(pl)
				if seen[key] {
					continue
				}
				seen[key] = true
				tok := "!"
				if plain, ok := decodeWith(e, pl); ok {
					tok = hx.Hex(plain)
				}
				out = append(out, fmt.Sprintf("t%c:%s:%s", e, hx.Hex(pl), tok))
			}
		}
	}
	if badTable {
		out = append(out, "BADTABLE")
	}
	return out
}

// --------------------------------------------------------------- generators

type msg struct {
	flag    bool
	payload []byte // on the wire
}

func wire(ms []msg) []byte {
	var b []byte
	for _, m := range ms {
		var p [5]byte
		if m.flag {
			p[0] = 1
		}
		binary.BigEndian.PutUint32(p[1:], uint32(len(m.payload)))
		b = append(b, p[:]...)
		b = append(b, m.payload...)
	}
	return b
}

func hdrTok(d byte, es bool, kv ...string) string {
	var sb strings.Builder
	fmt.Fprintf(&sb, "H%c%d", d, b2i(es))
	for _, s := range kv {
		sb.WriteByte(':')
		sb.WriteString(hx.HexS(s))
	}
	return sb.String()
}

var encNames = map[byte]string{'i': "identity", 'g': "gzip", 'f': "deflate", 's': "snappy"}

// startHeaders: request HEADERS on C, and response HEADERS on S when S is the direction under
// test.  encHdr '-' = no grpc-encoding header (the adapter's zero value is Identity).
func startHeaders(d byte, ct string, encHdr byte, otherEnc byte) []string {
	req := []string{":method", "POST", ":scheme", "https", ":path", "/svc/Method", ":authority", "example.com"}
	if ct != "-" {
		req = append(req, "content-type", ct)
	}
	req = append(req, "te", "trailers")
	resp := []string{":status", "200"}
	if ct != "-" {
		resp = append(resp, "content-type", ct)
	}
	ce, se := encHdr, otherEnc
	if d == 'S' {
		ce, se = otherEnc, encHdr
	}
	if ce != '-' {
		req = append(req, "grpc-encoding", encNames[ce])
	}
	if se != '-' {
		resp = append(resp, "grpc-encoding", encNames[se])
	}
	toks := []string{hdrTok('C', false, req...)}
	if d == 'S' {
		toks = append(toks, hdrTok('S', false, resp...))
	}
	return toks
}

func trailerTok(d byte) string {
	if d == 'S' {
		return hdrTok('S', true, "grpc-status", "0", "grpc-message", "")
	}
	return hdrTok('C', true, "x-trailer", "1")
}

func dataTok(d byte, es bool, b []byte) string {
	return fmt.Sprintf("D%c%d:%s", d, b2i(es), hx.Hex(b))
}

// framesFor cuts w at the given positions (strictly increasing, inside (0,len)) and applies
// the END_STREAM placement: 'L' on the last frame, 'S' on a separate empty frame, 'N' none
// (the stream ends with trailers instead).
func framesFor(d byte, w []byte, cuts []int, place byte) []string {
	var toks []string
	prev := 0
	segs := [][]byte{}
	for _, c := range cuts {
		segs = append(segs, w[prev:c])
		prev = c
	}
	segs = append(segs, w[prev:])
	for i, s := range segs {
		toks = append(toks, dataTok(d, place == 'L' && i == len(segs)-1, s))
	}
	switch place {
	case 'S':
		toks = append(toks, dataTok(d, true, nil))
	case 'N':
		toks = append(toks, trailerTok(d))
	}
	return toks
}

func specToks(d byte, e byte, ms []msg) []string {
	var toks []string
	seen := map[string]bool{}
	for _, m := range ms {
		toks = append(toks, fmt.Sprintf("W%c:%d:%s", d, b2i(m.flag), hx.Hex(m.payload)))
		if m.flag && e != 'i' && e != '-' && !seen[string(m.payload)] {
			seen[string(m.payload)] = true
			pt := "!"
			if plain, ok := decodeWith(e, m.payload); ok {
				pt = hx.Hex(plain)
			}
			toks = append(toks, fmt.Sprintf("T%c:%s:%s", e, hx.Hex(m.payload), pt))
		}
	}
	return toks
}

var payloadStyles = 4

func stylePayload(style, n, salt int) []byte {
	b := make([]byte, n)
	for i := range b {
		switch style % payloadStyles {
		case 0:
			b[i] = byte(0x41 + (i+salt)%26)
		case 1:
			b[i] = 0 // looks like prefixes of empty messages
		case 2:
			b[i] = []byte{1, 0, 0, 0, 1}[i%5] // looks like a compressed one-byte message
		default:
			b[i] = byte(0xff - i)
		}
	}
	return b
}

// compositions of total wire length n into messages (payload lengths).
func compositions(n int) [][]int {
	var res [][]int
	var rec func(rem int, cur []int)
	rec = func(rem int, cur []int) {
		if rem == 0 {
			res = append(res, append([]int(nil), cur...))
			return
		}
		for l := 0; 5+l <= rem; l++ {
			if rem-5-l != 0 && rem-5-l < 5 {
				continue
			}
			rec(rem-5-l, append(cur, l))
		}
	}
	rec(n, nil)
	return res
}

func main() {
	mlog.SetLevel(mlog.Silent)
	cfg := hx.ParseFlags()
	defer cfg.Close()
	n := 0
	emit := func(kind string, in []string) {
		n++
		in = append([]string{"k=" + kind}, in...)
		cfg.Emit(hx.Case{Name: fmt.Sprintf("%s%d", kind, n), In: in, Out: runCase(in)})
		cfg.Count("kind=" + kind)
	}
	pre, replayOnly := cfg.Inputs()
	for _, c := range pre {
		cfg.Emit(hx.Case{Name: c.Name, In: c.In, Out: runCase(c.In)})
	}
	if replayOnly {
		return
	}
	rng := hx.NewRNG(cfg.Seed)
	encs := []byte{'i', 'g', 'f', 's', '-'}
	places := []byte{'L', 'S', 'N'}
	cfgs := []string{"f=CS", "f=C", "f=S", "f=-"}
	dirs := []byte{'C', 'S'}

	// ---- 1. exhaustive: every cut set of every message list whose wire is <= L bytes,
	// x the three END_STREAM placements; direction, grpc-encoding header, flags and payload
	// bytes rotate with a counter (flag=1 only under identity: arbitrary bytes are not a valid
	// gzip/deflate/snappy payload).
	L := 14
	if cfg.Thorough() {
		L = 16
	}
	if v := os.Getenv("VERIF_C11_EXH"); v != "" {
		L, _ = strconv.Atoi(v)
	}
	ctr := 0
	exhaust := func(kind string, d byte, e byte, ms []msg, place byte) {
		w := wire(ms)
		head := startHeaders(d, "application/grpc", e, encs[(ctr+2)%5])
		spec := specToks(d, e, ms)
		nb := len(w)
		if nb == 0 {
			// no bytes: 0, 1 or 2 empty frames
			for k := 0; k <= 2; k++ {
				var toks []string
				for i := 0; i < k; i++ {
					toks = append(toks, dataTok(d, place == 'L' && i == k-1, nil))
				}
				if place == 'S' {
					toks = append(toks, dataTok(d, true, nil))
				} else if place == 'N' {
					toks = append(toks, trailerTok(d))
				}
				emit(kind, append(append(append([]string{}, head...), spec...), toks...))
			}
			return
		}
		for mask := 0; mask < 1<<(nb-1); mask++ {
			var cuts []int
			for i := 0; i < nb-1; i++ {
				if mask>>i&1 == 1 {
					cuts = append(cuts, i+1)
				}
			}
			emit(kind, append(append(append([]string{}, head...), spec...), framesFor(d, w, cuts, place)...))
		}
		cfg.Count(fmt.Sprintf("exh_wire_len=%d", nb))
	}
	for nb := 0; nb <= L; nb++ {
		for ci, lens := range compositions(nb) {
			for pi, place := range places {
				if !cfg.Thorough() && nb == 14 && pi != ci%3 {
					continue // quick: at 14 bytes one rotating placement per message list
				}
				ctr++
				d := dirs[ctr%2]
				e := encs[ctr%5]
				ms := make([]msg, len(lens))
				for i, l := range lens {
					fl := (e == 'i' || e == '-') && (ctr+i)%3 == 0
					ms[i] = msg{fl, stylePayload(ctr/2+i, l, i)}
				}
				exhaust("exh", d, e, ms, place)
			}
		}
	}
	if cfg.Thorough() && os.Getenv("VERIF_C11_EXH") == "" {
		// 17 and 18 bytes: every cut set, for a rotating subset of message lists and one
		// rotating placement each (the full product is ~10^7 cases)
		for nb := 17; nb <= 18; nb++ {
			comps := compositions(nb)
			for k := 0; k < 4; k++ {
				ctr++
				lens := comps[(ctr*7+k*5)%len(comps)]
				d := dirs[ctr%2]
				e := encs[ctr%5]
				ms := make([]msg, len(lens))
				for i, l := range lens {
					fl := (e == 'i' || e == '-') && (ctr+i)%3 == 0
					ms[i] = msg{fl, stylePayload(ctr/2+i, l, i)}
				}
				exhaust("exh", d, e, ms, places[(ctr+k)%3])
			}
		}
	}

	// tiny genuinely compressed streams, all cut sets: snappy stream of "" is 0 bytes, deflate of "" 2 bytes
	for pi, place := range places {
		exhaust("exhz", dirs[pi%2], 's', []msg{{true, nil}}, place)
		exhaust("exhz", dirs[(pi+1)%2], 's', []msg{{true, nil}, {false, []byte("a")}}, place)
		for _, d := range dirs {
			exhaust("exhz", d, 'f', []msg{{true, []byte{0x03, 0x00}}}, place)
		}
		if cfg.Thorough() {
			exhaust("exhz", dirs[pi%2], 'f', []msg{{true, []byte{0x03, 0x00}}, {true, []byte{0x03, 0x00}}}, place)
		} else {
			exhaust("exhz", dirs[pi%2], 'f', []msg{{true, []byte{0x03, 0x00}}, {true, nil}}[:1+pi%2], place)
			exhaust("exhz", dirs[pi%2], 'f', []msg{{true, []byte{0x03, 0x00}}, {false, nil}}, place)
		}
	}

	// ---- 2. every encoding x flag x placement x direction with real compressors: every single
	// cut and every pair of cuts of a short two-message stream.
	for _, e := range []byte{'i', 'g', 'f', 's'} {
		for _, d := range dirs {
			for fl := 0; fl < 4; fl++ {
				for pi, place := range places {
					plain := [][]byte{[]byte("hello, martian"), {}}
					if fl&1 == 1 {
						plain[0], plain[1] = plain[1], plain[0]
					}
					ms := make([]msg, 2)
					for i := range ms {
						flagged := (fl>>1&1 == 1) != (i == 1)
						if flagged {
							ms[i] = msg{true, encodeWith(e, fl+i+pi, plain[i])}
						} else {
							ms[i] = msg{false, plain[i]}
						}
					}
					w := wire(ms)
					head := append(startHeaders(d, "application/grpc", e, encs[(fl+1)%5]), specToks(d, e, ms)...)
					emit("enc", append(append([]string{}, head...), framesFor(d, w, nil, place)...))
					for a := 1; a < len(w); a++ {
						emit("enc", append(append([]string{}, head...), framesFor(d, w, []int{a}, place)...))
					}
					step := 1
					if !cfg.Thorough() {
						step = 3
					}
					for a := 1; a < len(w); a += step {
						for b := a + 1; b < len(w); b += step {
							emit("enc", append(append([]string{}, head...), framesFor(d, w, []int{a, b}, place)...))
						}
					}
				}
			}
		}
	}

	// ---- 3. random message lists and cuts, boundary sizes, streams up to 64 KiB (thorough 256 KiB)
	nr, maxTotal := 500, 64<<10
	if cfg.Thorough() {
		nr, maxTotal = 8000, 256<<10
	}
	sizes := []int{0, 0, 0, 1, 2, 3, 4, 5, 6, 7, 16, 100, 255, 256, 257, 1000, 4095, 4096, 4097, 16383, 16384, 16385, 65535, 65536, 65537, 200000}
	for k := 0; k < nr; k++ {
		r := rng.Fork()
		d := dirs[r.Intn(2)]
		e := encs[r.Intn(5)]
		nm := r.Range(0, 6)
		big := r.Chance(1, 12)
		var ms []msg
		total := 0
		for i := 0; i < nm; i++ {
			var sz int
			if big {
				sz = sizes[r.Intn(len(sizes))]
			} else {
				sz = sizes[r.Intn(12)]
			}
			if total+sz+5 > maxTotal {
				sz = 0
			}
			var plain []byte
			if r.Chance(1, 3) {
				plain = bytes.Repeat([]byte{byte(r.Intn(256))}, sz) // compressible
			} else {
				plain = r.Bytes(sz)
			}
			flagged := r.Chance(1, 2)
			m := msg{false, plain}
			if flagged {
				ee := e
				if ee == '-' {
					ee = 'i'
				}
				m = msg{true, encodeWith(ee, r.Intn(4), plain)}
			}
			total += 5 + len(m.payload)
			ms = append(ms, m)
		}
		w := wire(ms)
		var cuts []int
		if len(w) > 1 {
			switch r.Intn(4) {
			case 0: // every byte its own frame (short streams only)
				if len(w) <= 600 {
					for i := 1; i < len(w); i++ {
						cuts = append(cuts, i)
					}
				}
			case 1: // cuts near message boundaries
				pos := 0
				for _, m := range ms {
					for _, off := range []int{0, 1, 4, 5, 6} {
						c := pos + off + r.Intn(2) - 0
						if c > 0 && c < len(w) && (len(cuts) == 0 || c > cuts[len(cuts)-1]) && r.Chance(2, 3) {
							cuts = append(cuts, c)
						}
					}
					pos += 5 + len(m.payload)
				}
			default:
				nc := r.Range(0, 12)
				if r.Chance(1, 6) {
					nc = r.Range(12, 120)
				}
				set := map[int]bool{}
				for i := 0; i < nc; i++ {
					set[r.Range(1, len(w)-1)] = true
				}
				for c := 1; c < len(w); c++ {
					if set[c] {
						cuts = append(cuts, c)
					}
				}
			}
		}
		place := places[r.Intn(3)]
		toks := framesFor(d, w, cuts, place)
		// sprinkle empty non-final frames
		if r.Chance(1, 3) {
			var t2 []string
			for _, t := range toks {
				if t[0] == 'D' && r.Chance(1, 4) {
					t2 = append(t2, dataTok(d, false, nil))
				}
				t2 = append(t2, t)
			}
			toks = t2
		}
		head := append(startHeaders(d, "application/grpc", e, encs[r.Intn(5)]), specToks(d, e, ms)...)
		emit("rnd", append(head, toks...))
		cfg.Count("rnd_enc=" + string(e))
		cfg.Count("rnd_place=" + string(place))
		cfg.Count(fmt.Sprintf("rnd_wire_log2=%d", bitlen(len(w))))
	}

	// ---- 4. both directions interleaved in one stream, different encodings
	nb := 150
	if cfg.Thorough() {
		nb = 2000
	}
	for k := 0; k < nb; k++ {
		r := rng.Fork()
		ec, es := encs[r.Intn(4)], encs[r.Intn(4)]
		mk := func(e byte) []msg {
			var ms []msg
			for i := r.Range(0, 4); i > 0; i-- {
				plain := r.Bytes(sizes[r.Intn(12)])
				if r.Bool() {
					ms = append(ms, msg{true, encodeWith(e, r.Intn(4), plain)})
				} else {
					ms = append(ms, msg{false, plain})
				}
			}
			return ms
		}
		mc, msS := mk(ec), mk(es)
		cut := func(d byte, w []byte, place byte) []string {
			var cuts []int
			for c := 1; c < len(w); c++ {
				if r.Chance(1, 5) {
					cuts = append(cuts, c)
				}
			}
			return framesFor(d, w, cuts, place)
		}
		fc := cut('C', wire(mc), places[r.Intn(3)])
		fs := cut('S', wire(msS), places[r.Intn(3)])
		toks := []string{
			hdrTok('C', false, ":method", "POST", "content-type", "application/grpc", "grpc-encoding", encNames[ec]),
			hdrTok('S', false, ":status", "200", "content-type", "application/grpc", "grpc-encoding", encNames[es]),
		}
		toks = append(toks, specToks('C', ec, mc)...)
		toks = append(toks, specToks('S', es, msS)...)
		for len(fc) > 0 || len(fs) > 0 {
			if len(fs) == 0 || (len(fc) > 0 && r.Bool()) {
				toks = append(toks, fc[0])
				fc = fc[1:]
			} else {
				toks = append(toks, fs[0])
				fs = fs[1:]
			}
		}
		emit("bidi", toks)
	}

	// ---- 4b. sessions: 2-4 streams created by ONE factory value, gRPC and non-gRPC in every
	// order, own encodings and directions, frames of different streams interleaved.  Each stream
	// is judged by the same per-stream oracle.
	nonCT := []string{"-", "application/json", "application/grpc+proto", "text/plain", "application/grpc-web+proto"}
	type sstream struct {
		spec []string // W/T tokens
		ops  []string // H/D tokens in order
	}
	mkStream := func(r *hx.RNG, grpc bool, d byte, e byte, variant int) sstream {
		var st sstream
		if grpc {
			var ms []msg
			for i := r.Range(0, 3); i > 0; i-- {
				plain := r.Bytes(sizes[r.Intn(10)])
				if r.Bool() {
					ee := e
					if ee == '-' {
						ee = 'i'
					}
					ms = append(ms, msg{true, encodeWith(ee, r.Intn(4), plain)})
				} else {
					ms = append(ms, msg{false, plain})
				}
			}
			w := wire(ms)
			var cuts []int
			for c := 1; c < len(w); c++ {
				if r.Chance(1, 4) {
					cuts = append(cuts, c)
				}
			}
			st.spec = specToks(d, e, ms)
			st.ops = append(startHeaders(d, "application/grpc", e, encs[r.Intn(5)]), framesFor(d, w, cuts, places[r.Intn(3)])...)
			return st
		}
		ct := nonCT[variant%len(nonCT)]
		var raw []byte
		switch r.Intn(3) {
		case 0:
			raw = wire([]msg{{false, r.Bytes(r.Intn(9))}, {r.Bool(), r.Bytes(r.Intn(4))}}) // looks like gRPC
		case 1:
			raw = []byte(`{"json":"body","n":12345}`)
		default:
			raw = r.Bytes(r.Range(1, 40))
		}
		var cuts []int
		for c := 1; c < len(raw); c++ {
			if r.Chance(1, 5) {
				cuts = append(cuts, c)
			}
		}
		st.ops = append(startHeaders(d, ct, encs[r.Intn(5)], '-'), framesFor(d, raw, cuts, places[r.Intn(3)])...)
		return st
	}
	// weave: mode 0 stream after stream, 1 round-robin, 2 random
	weave := func(r *hx.RNG, sts []sstream, mode int) []string {
		var toks []string
		for k, st := range sts {
			if len(st.spec) > 0 {
				toks = append(toks, fmt.Sprintf("@%d", k))
				toks = append(toks, st.spec...)
			}
		}
		pos := make([]int, len(sts))
		last := -1
		emitOp := func(k int) {
			if k != last {
				toks = append(toks, fmt.Sprintf("@%d", k))
				last = k
			}
			toks = append(toks, sts[k].ops[pos[k]])
			pos[k]++
		}
		remaining := func() []int {
			var ks []int
			for k := range sts {
				if pos[k] < len(sts[k].ops) {
					ks = append(ks, k)
				}
			}
			return ks
		}
		switch mode {
		case 0:
			for k := range sts {
				for pos[k] < len(sts[k].ops) {
					emitOp(k)
				}
			}
		case 1:
			for len(remaining()) > 0 {
				for _, k := range remaining() {
					emitOp(k)
				}
			}
		default:
			for {
				ks := remaining()
				if len(ks) == 0 {
					break
				}
				emitOp(ks[r.Intn(len(ks))])
			}
		}
		return toks
	}
	// systematic: every kind sequence over {gRPC, non-gRPC} for 2 and 3 streams x weave mode x direction pattern
	for ns := 2; ns <= 3; ns++ {
		for kinds := 0; kinds < 1<<ns; kinds++ {
			for mode := 0; mode < 3; mode++ {
				for dp := 0; dp < 4; dp++ {
					r := rng.Fork()
					sts := make([]sstream, ns)
					for k := range sts {
						sts[k] = mkStream(r, kinds>>k&1 == 1, dirs[(dp>>(k%2))&1], encs[(kinds+k+dp)%5], k+dp+mode)
					}
					emit("sess", weave(r, sts, mode))
					cfg.Count(fmt.Sprintf("sess_streams=%d", ns))
				}
			}
		}
	}
	nsr := 500
	if cfg.Thorough() {
		nsr = 6000
	}
	for k := 0; k < nsr; k++ {
		r := rng.Fork()
		ns := r.Range(2, 4)
		sts := make([]sstream, ns)
		for i := range sts {
			sts[i] = mkStream(r, r.Chance(3, 5), dirs[r.Intn(2)], encs[r.Intn(5)], r.Intn(5))
		}
		toks := weave(r, sts, r.Intn(3))
		if r.Chance(1, 3) {
			toks = append([]string{cfgs[r.Intn(4)]}, toks...)
		}
		emit("sess", toks)
		cfg.Count(fmt.Sprintf("sess_streams=%d", ns))
	}

	// ---- 4c. factory configurations: (c2s, s2c) processors each present or nil, x direction of the
	// messages x gRPC / non-gRPC x where the content-type is announced x encoding x placement.
	// The side that has a processor must be shown the messages; the side that has none must pass
	// untouched.
	for ci, cf := range cfgs {
		for _, d := range dirs {
			for ctw := 0; ctw < 4; ctw++ { // content-type: both, request only, response only, none (non-gRPC)
				for ei, e := range []byte{'i', 'g', 'f', 's'} {
					for pi, place := range places {
						ms := []msg{{true, encodeWith(e, ei+pi, []byte("configured"))}, {false, nil}, {false, []byte("x")}}
						if (ci+ei+pi)%2 == 1 {
							ms[0], ms[1] = ms[1], ms[0]
						}
						w := wire(ms)
						req := []string{":method", "POST", ":path", "/svc/M"}
						resp := []string{":status", "200"}
						if ctw == 0 || ctw == 1 {
							req = append(req, "content-type", "application/grpc")
						}
						if ctw == 0 || ctw == 2 {
							resp = append(resp, "content-type", "application/grpc")
						}
						if d == 'C' {
							req = append(req, "grpc-encoding", encNames[e])
						} else {
							resp = append(resp, "grpc-encoding", encNames[e])
						}
						head := []string{cf, hdrTok('C', false, req...), hdrTok('S', false, resp...)}
						head = append(head, specToks(d, e, ms)...)
						var cutsets [][]int
						cutsets = append(cutsets, nil, []int{5}, []int{len(w) - 1})
						stride := 7
						if cfg.Thorough() {
							stride = 1
						}
						for a := 1 + (ci+pi)%stride; a < len(w); a += stride {
							cutsets = append(cutsets, []int{a})
						}
						for _, cuts := range cutsets {
							emit("cfg", append(append([]string{}, head...), framesFor(d, w, cuts, place)...))
						}
						cfg.Count("cfg=" + cf)
					}
				}
			}
		}
	}

	// ---- 4d. the encoding ANNOUNCEMENT as a dimension of its own: header absent, `identity`
	// explicit, each supported name, other spellings (the unchanged code accepts only the exact
	// lower-case names: everything else is an "unrecognized grpc-encoding" error), in either
	// direction, with both processors and on response-only / request-only configurations.
	anns := []string{"-", "identity", "gzip", "deflate", "snappy", "Identity", "GZIP", " gzip", "gzip ", "", "identity,gzip", "br"}
	for ai, ann := range anns {
		for _, d := range dirs {
			for ci, cf := range []string{"f=CS", "f=S", "f=C"} {
				for pi, place := range places {
					var e byte = 'i'
					switch ann {
					case "gzip":
						e = 'g'
					case "deflate":
						e = 'f'
					case "snappy":
						e = 's'
					}
					ms := []msg{{false, []byte("announced")}, {e != 'i', encodeWith(e, ai+pi, []byte("second"))}}
					w := wire(ms)
					req := []string{":method", "POST", "content-type", "application/grpc"}
					resp := []string{":status", "200", "content-type", "application/grpc"}
					if ann != "-" {
						if d == 'C' {
							req = append(req, "grpc-encoding", ann)
						} else {
							resp = append(resp, "grpc-encoding", ann)
						}
					}
					toks := []string{cf, hdrTok('C', false, req...), hdrTok('S', false, resp...)}
					toks = append(toks, specToks(d, e, ms)...)
					toks = append(toks, framesFor(d, w, []int{3 + (ai+ci+pi)%(len(w)-4)}, place)...)
					emit("ann", toks)
					cfg.Count("announce=" + ann)
				}
			}
		}
	}

	// ---- 5. streams that are not gRPC (Content-Type detection): arbitrary DATA must pass untouched
	cts := []string{"-", "application/json", "application/grpc+proto", "application/grpc-web", "Application/grpc", "application/grpc ", "text/plain", "application/grpc;charset=utf-8", "application/grpc"}
	nn := 40
	if cfg.Thorough() {
		nn = 400
	}
	for k := 0; k < nn; k++ {
		for ci, ct := range cts {
			r := rng.Fork()
			d := dirs[(k+ci)%2]
			var toks []string
			if k%5 == 4 {
				// content-type only on the response: detection is shared between the two adapters
				toks = append(toks, hdrTok('C', false, ":method", "POST"), hdrTok('S', false, ":status", "200", "content-type", ct))
				d = dirs[k/5%2]
			} else {
				toks = startHeaders(d, ct, encs[r.Intn(5)], '-')
			}
			var raw []byte
			if r.Bool() {
				// a well-formed gRPC stream
				raw = wire([]msg{{false, r.Bytes(r.Intn(9))}, {r.Bool(), r.Bytes(r.Intn(4))}})
				if ct == "application/grpc" {
					raw = wire([]msg{{false, r.Bytes(r.Intn(9))}, {false, r.Bytes(r.Intn(4))}})
				}
			} else {
				raw = r.Bytes(r.Intn(40))
			}
			var cuts []int
			for c := 1; c < len(raw); c++ {
				if r.Chance(1, 4) {
					cuts = append(cuts, c)
				}
			}
			toks = append(toks, framesFor(d, raw, cuts, places[r.Intn(3)])...)
			emit("ct", toks)
			cfg.Count("ct=" + ct)
		}
	}

	// ---- 6. malformed: garbage under gRPC, truncated streams, undecodable payloads, unknown
	// encodings, odd flag bytes, END_STREAM in the middle.  Correspondence only.
	nm := 300
	if cfg.Thorough() {
		nm = 4000
	}
	for k := 0; k < nm; k++ {
		r := rng.Fork()
		d := dirs[r.Intn(2)]
		e := encs[r.Intn(4)]
		var toks []string
		switch r.Intn(6) {
		case 0: // unknown / odd grpc-encoding values, several encoding headers
			vals := []string{"br", "GZIP", "", "gzip ", "identity", "gzip", "snappy", "deflate", "zstd"}
			hs := []string{":method", "POST", "content-type", "application/grpc"}
			for i := r.Range(1, 3); i > 0; i-- {
				hs = append(hs, "grpc-encoding", vals[r.Intn(len(vals))])
			}
			toks = append(toks, hdrTok('C', false, hs...))
			d = 'C'
		default:
			toks = startHeaders(d, "application/grpc", e, '-')
		}
		var raw []byte
		switch r.Intn(5) {
		case 0:
			raw = r.Bytes(r.Intn(30))
		case 1: // flagged garbage payloads
			raw = wire([]msg{{true, r.Bytes(r.Intn(12))}, {false, []byte("x")}})
		case 2: // truncated
			raw = wire([]msg{{false, r.Bytes(r.Intn(6))}, {false, r.Bytes(r.Intn(20))}})
			if len(raw) > 0 {
				raw = raw[:r.Intn(len(raw))]
			}
		case 3: // odd flag bytes
			raw = wire([]msg{{false, r.Bytes(r.Intn(6))}, {false, nil}})
			raw[0] = byte(r.Range(2, 255))
		default: // valid compressed then trailing junk inside the payload
			p := append(encodeWith(e, 0, []byte("abc")), r.Bytes(r.Intn(3))...)
			raw = wire([]msg{{true, p}})
		}
		var cuts []int
		for c := 1; c < len(raw); c++ {
			if r.Chance(1, 4) {
				cuts = append(cuts, c)
			}
		}
		for _, pl := range flaggedPayloads(raw) {
			for _, te := range []byte{'g', 'f', 's'} {
				pt := "!"
				if plain, ok := decodeWith(te, pl); ok {
					pt = hx.Hex(plain)
				}
				toks = append(toks, fmt.Sprintf("T%c:%s:%s", te, hx.Hex(pl), pt))
			}
		}
		fr := framesFor(d, raw, cuts, places[r.Intn(3)])
		if r.Chance(1, 4) && len(fr) > 1 {
			// END_STREAM on a middle frame (not legal HTTP/2, the adapter must still behave as modelled)
			i := r.Intn(len(fr))
			if fr[i][0] == 'D' {
				fr[i] = fr[i][:2] + "1" + fr[i][3:]
			}
		}
		emit("mal", append(toks, fr...))
	}
}

func bitlen(n int) int {
	k := 0
	for n > 0 {
		k++
		n >>= 1
	}
	return k
}
