module verifharness

go 1.18

require (
	github.com/google/martian/v3 v3.0.0
	golang.org/x/net v0.0.0-20190628185345-da137c7871d7
)

require golang.org/x/text v0.3.0 // indirect

replace github.com/google/martian/v3 => /repo
