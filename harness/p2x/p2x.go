// Package p2x holds what the C02 and C05 harnesses share: an ordered event
// recorder, a listener/connection wrapper that reports every Read / Write /
// Close the proxy performs on the client socket, first-occurrence renaming of
// random IDs, and a process-wide MITM authority.
package p2x

import (
	"crypto/tls"
	"crypto/x509"
	"io"
	"net"
	"strconv"
	"strings"
	"sync"
	"time"

	"github.com/google/martian/v3/mitm"
)

// Rec is the ordered proxy-side event log of one case.  Socket actions are
// not logged in general (their granularity is the kernel's and TLS's, not the
// proxy's); they are logged only while "armed": the first socket action after
// a hijacking modifier returned, which is what the hijack clause is about.
type Rec struct {
	mu     sync.Mutex
	toks   []string
	armed  bool
	act    chan string
	hadAct string
	ep     *epoch
	ids    map[string]map[string]int
}

// epoch is the close signal of one client connection of the case; a Conn
// keeps the epoch that was current when it was accepted.
type epoch struct {
	closed chan struct{}
	once   sync.Once
}

func NewRec() *Rec {
	return &Rec{act: make(chan string, 4), ep: &epoch{closed: make(chan struct{})}, ids: map[string]map[string]int{}}
}

// Add appends a token.
func (r *Rec) Add(tok string) {
	r.mu.Lock()
	r.toks = append(r.toks, tok)
	r.mu.Unlock()
}

// AddArm appends tok and arms the recorder: the next socket action of the
// proxy is appended as a token of its own (R read, X write, C close).
func (r *Rec) AddArm(tok string) {
	r.mu.Lock()
	r.toks = append(r.toks, tok)
	r.armed = true
	r.hadAct = ""
	r.mu.Unlock()
}

// Has reports whether a token with the given prefix has been logged.
func (r *Rec) Has(prefix string) bool {
	r.mu.Lock()
	defer r.mu.Unlock()
	for _, t := range r.toks {
		if strings.HasPrefix(t, prefix) {
			return true
		}
	}
	return false
}

// Tokens returns and clears the log.
func (r *Rec) Tokens() []string {
	r.mu.Lock()
	defer r.mu.Unlock()
	t := r.toks
	r.toks = nil
	return t
}

// Index renames a random identifier to its first-occurrence index within
// the namespace ns.
func (r *Rec) Index(ns, id string) int {
	r.mu.Lock()
	defer r.mu.Unlock()
	m := r.ids[ns]
	if m == nil {
		m = map[string]int{}
		r.ids[ns] = m
	}
	if v, ok := m[id]; ok {
		return v
	}
	v := len(m)
	m[id] = v
	return v
}

func (r *Rec) sock(kind string, ep *epoch) {
	r.mu.Lock()
	if r.armed && ep == r.ep {
		r.armed = false
		r.hadAct = kind
		r.toks = append(r.toks, kind)
		select {
		case r.act <- kind:
		default:
		}
	}
	r.mu.Unlock()
	if kind == "C" && ep != nil {
		ep.once.Do(func() { close(ep.closed) })
	}
}

// WaitAct waits for the first socket action after AddArm.
func (r *Rec) WaitAct(d time.Duration) string {
	select {
	case a := <-r.act:
		return a
	case <-time.After(d):
		r.mu.Lock()
		r.armed = false
		r.mu.Unlock()
		return ""
	}
}

// LastAct is the socket action recorded after the last AddArm ("" if none).
func (r *Rec) LastAct() string {
	r.mu.Lock()
	defer r.mu.Unlock()
	return r.hadAct
}

// WaitClosed reports whether the proxy called Close on the client socket.
func (r *Rec) WaitClosed(d time.Duration) bool {
	r.mu.Lock()
	ep := r.ep
	r.mu.Unlock()
	select {
	case <-ep.closed:
		return true
	case <-time.After(d):
		return false
	}
}

// NewConnEpoch prepares the recorder for the next connection of the case.
func (r *Rec) NewConnEpoch() {
	r.mu.Lock()
	r.ep = &epoch{closed: make(chan struct{})}
	r.armed = false
	r.hadAct = ""
	for len(r.act) > 0 {
		<-r.act
	}
	r.mu.Unlock()
}

// Conn reports the proxy's socket actions to a Rec.
type Conn struct {
	net.Conn
	rec *Rec
	ep  *epoch
}

func (c *Conn) Read(b []byte) (int, error)  { c.rec.sock("R", c.ep); return c.Conn.Read(b) }
func (c *Conn) Write(b []byte) (int, error) { c.rec.sock("X", c.ep); return c.Conn.Write(b) }
func (c *Conn) Close() error                { c.rec.sock("C", c.ep); return c.Conn.Close() }

// CloseWrite: like ReadFrom below, keep the wrapper indistinguishable from the
// *net.TCPConn it wraps for code that half-closes a tunnel when one direction
// ends (a fallback to Close() there would be reported as the proxy closing
// the client socket while the exchange is still in progress).
func (c *Conn) CloseWrite() error {
	if cw, ok := c.Conn.(interface{ CloseWrite() error }); ok {
		return cw.CloseWrite()
	}
	return c.Close()
}

// ReadFrom makes the wrapper look like a *net.TCPConn to bufio.Writer.ReadFrom
// (which otherwise parks tunnel bytes in its buffer): write-through copy.
func (c *Conn) ReadFrom(r io.Reader) (int64, error) {
	return io.Copy(struct{ io.Writer }{c}, r)
}

// Listener wraps accepted connections in Conn.  The recorder can be swapped
// per case.
type Listener struct {
	net.Listener
	mu  sync.Mutex
	rec *Rec
}

func NewListener(l net.Listener, rec *Rec) *Listener { return &Listener{Listener: l, rec: rec} }

func (l *Listener) Accept() (net.Conn, error) {
	c, err := l.Listener.Accept()
	if err != nil {
		return nil, err
	}
	l.mu.Lock()
	rec := l.rec
	l.mu.Unlock()
	rec.mu.Lock()
	ep := rec.ep
	rec.mu.Unlock()
	return &Conn{Conn: c, rec: rec, ep: ep}, nil
}

var (
	mitmOnce sync.Once
	mitmCA   *x509.Certificate
	mitmCfg  *mitm.Config
	mitmErr  error
)

// MITM returns a process-wide authority and MITM configuration (key
// generation is slow; leaf certificates are cached inside the config).
func MITM() (*mitm.Config, *x509.CertPool, error) {
	mitmOnce.Do(func() {
		ca, priv, err := mitm.NewAuthority("verif.proxy", "Verif Authority", 2*time.Hour)
		if err != nil {
			mitmErr = err
			return
		}
		mc, err := mitm.NewConfig(ca, priv)
		if err != nil {
			mitmErr = err
			return
		}
		mitmCA, mitmCfg = ca, mc
	})
	if mitmErr != nil {
		return nil, nil, mitmErr
	}
	roots := x509.NewCertPool()
	roots.AddCert(mitmCA)
	return mitmCfg, roots, nil
}

// ClientTLS is the TLS client configuration used inside MITM'd tunnels.
func ClientTLS(roots *x509.CertPool, serverName string) *tls.Config {
	return &tls.Config{ServerName: serverName, RootCAs: roots}
}

// Itoa is strconv.Itoa.
func Itoa(i int) string { return strconv.Itoa(i) }

// JoinInts renders a sorted list of request indices as "a-b-c" ("e" if empty).
func JoinInts(xs []int) string {
	if len(xs) == 0 {
		return "e"
	}
	s := ""
	for i, x := range xs {
		if i > 0 {
			s += "-"
		}
		s += strconv.Itoa(x)
	}
	return s
}
