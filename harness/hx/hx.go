// Package hx is the shared runtime of the correspondence harnesses: one
// PRNG (splitmix64) from which every random choice derives, the case-file
// format shared with the OCaml drivers, flag handling and statistics.
//
// Case file format (one case per line, tokens contain no whitespace):
//
//	CASE <name> IN <tok>* OUT <tok>*
//
// A replay/corpus file has the same lines without the OUT part; the harness
// recomputes OUT by running the real code.
package hx

import (
	"bufio"
	"encoding/hex"
	"encoding/json"
	"flag"
	"fmt"
	"os"
	"path/filepath"
	"sort"
	"strings"
)

// RNG is splitmix64.
type RNG struct{ s uint64 }

func NewRNG(seed uint64) *RNG { return &RNG{s: seed} }

func (r *RNG) Uint64() uint64 {
	r.s += 0x9e3779b97f4a7c15
	z := r.s
	z = (z ^ (z >> 30)) * 0xbf58476d1ce4e5b9
	z = (z ^ (z >> 27)) * 0x94d049bb133111eb
	return z ^ (z >> 31)
}

// Intn returns a value in [0,n).
func (r *RNG) Intn(n int) int {
	if n <= 0 {
		return 0
	}
	return int(r.Uint64() % uint64(n))
}

// Range returns a value in [lo,hi].
func (r *RNG) Range(lo, hi int) int { return lo + r.Intn(hi-lo+1) }

func (r *RNG) Bool() bool { return r.Uint64()&1 == 1 }

// Chance returns true with probability num/den.
func (r *RNG) Chance(num, den int) bool { return r.Intn(den) < num }

func (r *RNG) Bytes(n int) []byte {
	b := make([]byte, n)
	for i := range b {
		b[i] = byte(r.Uint64())
	}
	return b
}

// Fork derives an independent generator (so per-case streams replay alone).
func (r *RNG) Fork() *RNG { return NewRNG(r.Uint64()) }

// Hex encodes bytes as a token ("x" + hex; "x" alone is the empty string).
func Hex(b []byte) string { return "x" + hex.EncodeToString(b) }

func HexS(s string) string { return Hex([]byte(s)) }

func UnHex(tok string) ([]byte, error) {
	if !strings.HasPrefix(tok, "x") {
		return nil, fmt.Errorf("not a hex token: %q", tok)
	}
	return hex.DecodeString(tok[1:])
}

func MustUnHex(tok string) []byte {
	b, err := UnHex(tok)
	if err != nil {
		panic(err)
	}
	return b
}

// Case is one correspondence case.
type Case struct {
	Name string
	In   []string
	Out  []string
}

func (c Case) Line() string {
	return "CASE " + c.Name + " IN " + strings.Join(c.In, " ") + " OUT " + strings.Join(c.Out, " ")
}

func ParseCaseLine(line string) (Case, bool) {
	f := strings.Fields(line)
	if len(f) < 3 || f[0] != "CASE" || f[2] != "IN" {
		return Case{}, false
	}
	c := Case{Name: f[1]}
	i := 3
	for ; i < len(f) && f[i] != "OUT"; i++ {
		c.In = append(c.In, f[i])
	}
	if i < len(f) {
		c.Out = append(c.Out, f[i+1:]...)
	}
	return c, true
}

// Config is the common command line of every harness command.
type Config struct {
	Tier    string
	Seed    uint64
	Out     string
	Replay  string
	Corpus  string
	Stats   string
	Extra   string
	w       *bufio.Writer
	f       *os.File
	n       int
	hist    map[string]int
	samples []string
}

func ParseFlags() *Config {
	c := &Config{hist: map[string]int{}}
	flag.StringVar(&c.Tier, "tier", "quick", "quick|thorough")
	flag.Uint64Var(&c.Seed, "seed", 1, "PRNG seed")
	flag.StringVar(&c.Out, "out", "", "case file to write")
	flag.StringVar(&c.Replay, "replay", "", "replay the IN parts of this case file only")
	flag.StringVar(&c.Corpus, "corpus", "", "directory of *.case files run before generated cases")
	flag.StringVar(&c.Stats, "stats", "", "JSON statistics file to write")
	flag.StringVar(&c.Extra, "extra", "", "free-form extra argument")
	flag.Parse()
	if c.Out == "" {
		c.f = os.Stdout
	} else {
		f, err := os.Create(c.Out)
		if err != nil {
			fmt.Fprintln(os.Stderr, err)
			os.Exit(2)
		}
		c.f = f
	}
	c.w = bufio.NewWriterSize(c.f, 1<<20)
	return c
}

func (c *Config) Thorough() bool { return c.Tier == "thorough" }

// Emit writes one case.
func (c *Config) Emit(cs Case) {
	c.w.WriteString(cs.Line())
	c.w.WriteByte('\n')
	c.n++
	if len(c.samples) < 5 || (c.n%9973 == 0 && len(c.samples) < 12) {
		l := cs.Line()
		if len(l) > 600 {
			l = l[:600] + "..."
		}
		c.samples = append(c.samples, l)
	}
}

// Count adds to the input-distribution histogram written to the stats file.
func (c *Config) Count(key string)         { c.hist[key]++ }
func (c *Config) CountN(key string, n int) { c.hist[key] += n }

// Inputs returns the cases to run first: the replay file if given (then
// nothing else must be generated: second result true), else the corpus.
func (c *Config) Inputs() (cases []Case, replayOnly bool) {
	read := func(p string) {
		f, err := os.Open(p)
		if err != nil {
			fmt.Fprintln(os.Stderr, err)
			os.Exit(2)
		}
		defer f.Close()
		sc := bufio.NewScanner(f)
		sc.Buffer(make([]byte, 1<<20), 1<<28)
		for sc.Scan() {
			if cs, ok := ParseCaseLine(sc.Text()); ok {
				cs.Out = nil
				cases = append(cases, cs)
			}
		}
	}
	if c.Replay != "" {
		read(c.Replay)
		return cases, true
	}
	if c.Corpus != "" {
		files, _ := filepath.Glob(filepath.Join(c.Corpus, "*.case"))
		sort.Strings(files)
		for _, p := range files {
			read(p)
		}
	}
	return cases, false
}

// Close flushes the case file and writes the statistics.
func (c *Config) Close() {
	c.w.Flush()
	if c.f != os.Stdout {
		c.f.Close()
	}
	if c.Stats != "" {
		st := map[string]interface{}{"cases": c.n, "histogram": c.hist, "samples": c.samples}
		b, _ := json.MarshalIndent(st, "", " ")
		os.WriteFile(c.Stats, b, 0o644)
	}
}
