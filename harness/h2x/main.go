package h2x

import (
	"fmt"
	"os"
	"runtime"
	"strconv"
	"strings"
	"sync"
	"time"

	mlog "github.com/google/martian/v3/log"
	"verifharness/hx"
)

// RunCase recomputes OUT from the real code for one IN token list.
func RunCase(in []string) (out []string) {
	defer func() {
		if r := recover(); r != nil {
			out = append(out, "|", "PANIC")
		}
	}()
	if len(in) == 0 {
		return []string{"BADCASE"}
	}
	switch {
	case in[0] == "STEP":
		return RunStep(in[1:])
	case strings.HasPrefix(in[0], "E2E:"), strings.HasPrefix(in[0], "E2W:"):
		d, _ := strconv.Atoi(in[0][4:])
		grace := 3 * time.Second
		if v := os.Getenv("VERIF_H2_GRACE_MS"); v != "" {
			ms, _ := strconv.Atoi(v)
			grace = time.Duration(ms) * time.Millisecond
		}
		for try := 0; ; try++ {
			out = RunE2E(d, in[0][2] == 'W', in[1:], grace)
			if try >= 3 || len(out) < 2 || out[1] != "SETUPFAIL" {
				return out
			}
		}
	case strings.HasPrefix(in[0], "ASY:"):
		d, _ := strconv.Atoi(in[0][4:])
		for try := 0; ; try++ {
			out = RunAsync(d, in[1:], 5*time.Second)
			if try >= 3 || len(out) == 0 || out[len(out)-1] != "SETUPFAIL" {
				return out
			}
		}
	case in[0] == "PRE":
		return RunPreface(in[1:])
	}
	return []string{"BADCASE"}
}

// current case, for the runaway watchdog
var (
	curMu   sync.Mutex
	curCase *hx.Case
)

// watchdog: code under test that loops allocating without bound (e.g. relay.data() with a max
// frame size of 0) would get the harness killed and lose the failing input.  When the heap passes
// 1.5 GB the current case is written with OUT "| RUNAWAY" and the harness stops normally.
func watchdog(cfg *hx.Config) {
	var ms runtime.MemStats
	for {
		time.Sleep(50 * time.Millisecond)
		runtime.ReadMemStats(&ms)
		if ms.HeapAlloc > 1500<<20 {
			curMu.Lock()
			if curCase != nil {
				cfg.Emit(hx.Case{Name: curCase.Name, In: curCase.In, Out: []string{"|", "RUNAWAY"}})
			}
			cfg.Close()
			os.Exit(0)
		}
	}
}

func runGuarded(name string, in []string) []string {
	curMu.Lock()
	curCase = &hx.Case{Name: name, In: in}
	curMu.Unlock()
	out := RunCase(in)
	curMu.Lock()
	curCase = nil
	curMu.Unlock()
	return out
}

// Main is the body of cmd/c08 and cmd/c09 (profile selects generator weights).
func Main(profile string) {
	mlog.SetLevel(mlog.Silent)
	cfg := hx.ParseFlags()
	defer cfg.Close()
	go watchdog(cfg)
	pre, replayOnly := cfg.Inputs()
	for _, c := range pre {
		cfg.Emit(hx.Case{Name: c.Name, In: c.In, Out: runGuarded(c.Name, c.In)})
	}
	if replayOnly {
		return
	}
	rng := hx.NewRNG(cfg.Seed)
	n := 0
	emit := func(kind string, in []string) {
		n++
		name := fmt.Sprintf("%s%d", kind, n)
		cfg.Emit(hx.Case{Name: name, In: in, Out: runGuarded(name, in)})
		cfg.Count("kind=" + strings.SplitN(in[0], ":", 2)[0])
		for _, t := range in[1:] {
			if in[0] != "PRE" {
				cfg.Count("label=" + t[:1])
			}
		}
	}
	nAsy := 0
	if profile == "c08" {
		nAsy = 16
		if cfg.Thorough() {
			nAsy = 150
		}
	}
	genAsy := func() {
		// concurrent direct / queued / credit writes to a slow destination
		for i := 0; i < nAsy; i++ {
			r := rng.Fork()
			ls := GenAsync(func(xs ...int) int { return xs[r.Intn(len(xs))] }, r.Chance, func(n int) string { return hx.Hex(r.Bytes(n)) })
			emit("asy", append([]string{fmt.Sprintf("ASY:%d", []int{9, 9, 5, 64}[r.Intn(4)])}, ls...))
		}
	}
	if cfg.Extra == "asyonly" {
		// side run under the Go race detector (meta race_quick_extra): an unlocked write to the
		// shared destination Framer is a data race
		genAsy()
		return
	}
	nStep, nBig, nE2E, nPre := 900, 15, 60, 60
	if cfg.Thorough() {
		nStep, nBig, nE2E, nPre = 25000, 600, 1500, 1500
	}
	for i := 0; i < nStep; i++ {
		r := rng.Fork()
		emit("step", append([]string{"STEP"}, Gen(r, profile, r.Range(4, 28), false, false)...))
	}
	for i := 0; i < nBig; i++ {
		r := rng.Fork()
		emit("big", append([]string{"STEP"}, Gen(r, profile, r.Range(4, 12), true, false)...))
	}
	if profile == "c09" {
		nReg := 80
		if cfg.Thorough() {
			nReg = 1800
		}
		for i := 0; i < nReg; i++ {
			r := rng.Fork()
			reg := "bbbbbbbabbbbbbbc"[i%16] // the a/c regimes carry one 65535-octet frame each
			emit("reg", append([]string{"STEP"}, GenRegime(r, reg)...))
			cfg.Count("regime=" + string(reg))
		}
	}
	if profile == "c09" {
		nRM, nOS := 10, 12
		if cfg.Thorough() {
			nRM, nOS = 200, 240
		}
		for i := 0; i < nRM; i++ {
			r := rng.Fork()
			emit("rmf", append([]string{"STEP"}, GenRaisedMaxFrame(r, i)...))
		}
		for i := 0; i < nOS; i++ {
			r := rng.Fork()
			emit("oset", append([]string{"STEP"}, GenOtherSettings(r, i)...))
		}
		for i := 0; i < 1; i++ {
			r := rng.Fork()
			emit("swo", append([]string{"STEP"}, GenSweepOrder(r, i)...))
		}
		for i := 0; i < 12; i++ {
			r := rng.Fork()
			mode := "STEP"
			if i >= 9 {
				mode = "E2W:0"
			}
			emit("badmf", append([]string{mode}, GenBadMaxFrame(r, i)...))
		}
	}
	for i := 0; i < nE2E; i++ {
		r := rng.Fork()
		d := []int{0, 1, 2, 3, 5, 9, 64}[r.Intn(7)]
		mode := "E2E"
		if profile == "c09" {
			mode = "E2W" // C09 does not depend on the preface being dribbled (that is C08's finding)
		}
		emit("e2e", append([]string{fmt.Sprintf("%s:%d", mode, d)}, Gen(r, profile, r.Range(4, 24), i%10 == 9, true)...))
	}
	genAsy()
	if profile == "c08" {
		nB, nW := 58, 14
		if cfg.Thorough() {
			nB, nW = 870, 140
		}
		for i := 0; i < nB; i++ {
			r := rng.Fork()
			emit("hdrb", append([]string{"STEP"}, GenHdrBoundary(r, i)...))
		}
		for i := 0; i < nW; i++ {
			r := rng.Fork()
			emit("iniw", append([]string{"STEP"}, GenInitWindow(r, i)...))
		}
	}
	if profile == "c08" {
		for i := 0; i < nPre; i++ {
			r := rng.Fork()
			emit("pre", append([]string{"PRE"}, GenPreface(r)...))
		}
	}
}
