// Package h2x is the shared correspondence harness of properties C08 and C09:
// it drives the REAL h2 relay (step-level through the verif hook
// h2.VerifRelayPair, and end to end through h2.Config.Proxy) with frame
// scripts and records, per script label, the frames each endpoint received.
//
// IN tokens:  STEP label*  |  E2E:<dribble> label*  |  PRE x<chunk>*
// labels (y = c|s: the sending endpoint):
//
//	D<y>:<sid>:<es>:<pad|->:<x hex | z<len>.<seed>>         DATA
//	H<y>:<sid>:<es>:<eh>:<dep.excl.w|->:<pad|->:<fid>:<cut> HEADERS (cut = bytes of the encoded block in this frame when eh=0)
//	C<y>:<sid>:<eh>:<cut>                                   CONTINUATION
//	P<y>:<sid>:<dep.excl.w>   R<y>:<sid>:<code>             PRIORITY, RST_STREAM
//	S<y>:<id>=<v>,...   A<y>                                SETTINGS, SETTINGS ACK
//	U<y>:<sid>:<eh>:<promised>:<pad|->:<fid>:<cut>          PUSH_PROMISE
//	G<y>:<ack>:<x hex8>   Y<y>:<last>:<code>:<x hex>        PING, GOAWAY
//	W<y>:<sid>:<inc>                                        WINDOW_UPDATE
//
// OUT tokens: per executed label "|" then ">c" frames received by the client,
// ">s" frames received by the server, then (STEP) "=c:.." "=s:.." the relay's
// send-side windows toward that endpoint, or "ERR" when the relay stopped.
// received frames: d:<sid>:<es>:<data>  h:<sid>:<es>:<prio|->:<fid>:<len+len..>
// (h and u end with :<tab> = dynamic table size last signalled in-band by the sender's encoder)
// u:<sid>:<promised>:<fid>:<lens>  p:<sid>:<prio>  r:<sid>:<code>  s:<kv>  a
// g:<ack>:<hex>  y:<last>:<code>:<hex>  w:<sid>:<inc>  ?:<what>
// fid of a received block = index of the field list the RECEIVER's own HPACK
// decoder produced (999: decode error or unknown list).
package h2x

import (
	"bytes"
	"fmt"
	"math"
	"strconv"
	"strings"

	"golang.org/x/net/http2"
	"golang.org/x/net/http2/hpack"
	"verifharness/hx"
)

// FieldLists is the fixed table of header field lists (fid = index).
var FieldLists = func() [][]hpack.HeaderField {
	big := strings.Repeat("v", 20000)
	mid := strings.Repeat("m", 3000)
	return [][]hpack.HeaderField{
		0: {{Name: ":method", Value: "GET"}, {Name: ":scheme", Value: "https"}, {Name: ":path", Value: "/"}},
		1: {{Name: ":status", Value: "200"}, {Name: "x-a", Value: "1"}},
		2: {{Name: "x-a", Value: "1"}, {Name: "x-b", Value: "2"}},
		3: {{Name: "x-c", Value: "a-rather-long-value-that-is-indexed-0123456789"}, {Name: "x-a", Value: "1"}},
		4: {{Name: "grpc-status", Value: "0"}, {Name: "grpc-message", Value: "ok"}},
		5: {{Name: "x-big", Value: big}},
		6: {},
		7: {{Name: "x-d", Value: "4"}, {Name: "x-b", Value: "2"}, {Name: "x-e", Value: "5"}, {Name: "x-c", Value: "a-rather-long-value-that-is-indexed-0123456789"}},
		8: {{Name: ":method", Value: "POST"}, {Name: ":path", Value: "/svc/Method"}, {Name: "content-type", Value: "application/grpc"}, {Name: "x-mid", Value: mid}},
		9: {{Name: "x-e", Value: "5"}, {Name: "x-d", Value: "4"}},
		// repeated names, an empty value, a never-indexed (sensitive) field, a static-table name with a new value
		10: {{Name: ":authority", Value: "example.test"}, {Name: "cookie", Value: "a=1"}, {Name: "cookie", Value: "b=2"},
			{Name: "x-empty", Value: ""}, {Name: "authorization", Value: "secret-0123456789", Sensitive: true}, {Name: "x-a", Value: "1"}},
		// many small indexable fields: churns a small dynamic table
		// ~7 KB of indexable fields: needs a dynamic table above the 4096-octet default to be
		// sent a second time as indexed references only
		12: bigIndexable(),
		11: {{Name: "x-f1", Value: "v1"}, {Name: "x-f2", Value: "v2"}, {Name: "x-f3", Value: "v3"}, {Name: "x-f4", Value: "v4"},
			{Name: "x-f5", Value: "v5"}, {Name: "x-f6", Value: "v6"}, {Name: "x-b", Value: "2"}, {Name: "x-f1", Value: "v1"}},
	}
}()

func bigIndexable() []hpack.HeaderField {
	var l []hpack.HeaderField
	for i := 0; i < 80; i++ {
		l = append(l, hpack.HeaderField{Name: fmt.Sprintf("x-g%02d", i), Value: fmt.Sprintf("%02d-%s", i, strings.Repeat("w", 45))})
	}
	return l
}

// sizedList: fid 1000+n is the one-field list {"x-z": n times '~'}.  '~' has a 13-bit Huffman
// code, so every encoder writes the value raw, and an n-octet value is never indexed: the
// encoded block is n + a few octets whatever the table state - used to place re-encoded blocks
// around the max frame size boundary.
func sizedList(n int) []hpack.HeaderField {
	return []hpack.HeaderField{{Name: "x-z", Value: strings.Repeat("~", n)}}
}

func fieldList(fid int) ([]hpack.HeaderField, bool) {
	if fid >= 1000 && fid < 1000+200000 {
		return sizedList(fid - 1000), true
	}
	if fid < 0 || fid >= len(FieldLists) {
		return nil, false
	}
	return FieldLists[fid], true
}

func fidOf(fs []hpack.HeaderField) int {
	if len(fs) == 1 && fs[0].Name == "x-z" && strings.Trim(fs[0].Value, "~") == "" {
		return 1000 + len(fs[0].Value)
	}
	for i, l := range FieldLists {
		if len(l) != len(fs) {
			continue
		}
		ok := true
		for j := range l {
			if l[j].Name != fs[j].Name || l[j].Value != fs[j].Value {
				ok = false
				break
			}
		}
		if ok {
			return i
		}
	}
	return 999
}

func sideIdx(y byte) int {
	if y == 's' {
		return 1
	}
	return 0
}

// Endpoint is one harness endpoint: its own HPACK encoder for what it sends,
// its own HPACK decoder for what it receives, the unsent rest of an open block.
type Endpoint struct {
	enc     *hpack.Encoder
	encBuf  bytes.Buffer
	dec     *hpack.Decoder
	pending []byte
	// receive side: open block
	open      bool
	openTok   string
	openFrag  []byte
	openLens  []string
	wbuf      bytes.Buffer
	fr        *http2.Framer
	nblocksRx int
	// HPACK table size negotiation, as an RFC 7540 endpoint does it:
	// annTab: per SETTINGS frame this endpoint sent, the HEADER_TABLE_SIZE values in it;
	// acksRx: SETTINGS ACKs received.  The decoder allows the size in force (acknowledged)
	// or any size announced and not yet acknowledged.
	annTab [][]uint32
	acksRx int
	// pendRx: per SETTINGS frame received, its HEADER_TABLE_SIZE values; applied to this
	// endpoint's encoder when it sends the corresponding ACK.
	pendRx [][]uint32
	// sigTab: dynamic table size last signalled in-band by the peer's encoder.
	sigTab uint32
}

// tabBound mirrors Spec.tab_bound.
func (e *Endpoint) tabBound() uint32 {
	a := e.acksRx
	if a > len(e.annTab) {
		a = len(e.annTab)
	}
	cur := uint32(4096)
	for _, vs := range e.annTab[:a] {
		for _, v := range vs {
			cur = v
		}
	}
	for _, vs := range e.annTab[a:] {
		for _, v := range vs {
			if v > cur {
				cur = v
			}
		}
	}
	return cur
}

// sizeUpdates returns the last dynamic table size update at the start of a block (ok=false: none).
func sizeUpdates(b []byte) (last uint32, ok bool) {
	i := 0
	for i < len(b) && b[i]&0xe0 == 0x20 {
		v := uint64(b[i] & 0x1f)
		i++
		if v == 31 {
			shift := uint(0)
			for i < len(b) {
				c := b[i]
				i++
				v += uint64(c&0x7f) << shift
				shift += 7
				if c&0x80 == 0 {
					break
				}
			}
		}
		last, ok = uint32(v), true
	}
	return
}

func NewEndpoint() *Endpoint {
	e := &Endpoint{}
	e.enc = hpack.NewEncoder(&e.encBuf)
	// follow the peer's HEADER_TABLE_SIZE up as well as down (the default limit is 4096)
	e.enc.SetMaxDynamicTableSizeLimit(math.MaxUint32)
	e.dec = hpack.NewDecoder(4096, nil)
	e.fr = http2.NewFramer(&e.wbuf, nil)
	e.fr.AllowIllegalWrites = true
	e.sigTab = 4096
	return e
}

func atoi(s string) int { n, _ := strconv.Atoi(s); return n }
func atou(s string) uint32 {
	n, _ := strconv.ParseUint(s, 10, 32)
	return uint32(n)
}

func parsePrio(s string) (http2.PriorityParam, bool) {
	if s == "-" {
		return http2.PriorityParam{}, false
	}
	p := strings.Split(s, ".")
	if len(p) != 3 {
		return http2.PriorityParam{}, false
	}
	return http2.PriorityParam{StreamDep: atou(p[0]), Exclusive: p[1] == "1", Weight: uint8(atoi(p[2]))}, true
}

func fmtPrio(p http2.PriorityParam) string {
	e := 0
	if p.Exclusive {
		e = 1
	}
	return fmt.Sprintf("%d.%d.%d", p.StreamDep, e, p.Weight)
}

// DataBytes expands a data token.
func DataBytes(tok string) []byte {
	if strings.HasPrefix(tok, "z") {
		p := strings.Split(tok[1:], ".")
		n, seed := atoi(p[0]), 0
		if len(p) > 1 {
			seed = atoi(p[1])
		}
		b := make([]byte, n)
		for i := range b {
			b[i] = byte((seed + i*7) % 251)
		}
		return b
	}
	b, _ := hx.UnHex(tok)
	return b
}

func padBytes(s string) (int, bool) {
	if s == "-" {
		return 0, false
	}
	return atoi(s), true
}

func b2i(b bool) int {
	if b {
		return 1
	}
	return 0
}

// Frame serialises the label's frame as endpoint e would send it.  ok=false
// for an unparsable token.  open = a header block stays open after it.
func (e *Endpoint) Frame(tok string) (raw []byte, open bool, ok bool) {
	defer func() {
		if recover() != nil {
			raw, ok = nil, false
		}
	}()
	if len(tok) < 2 {
		return nil, false, false
	}
	f := strings.Split(tok[2:], ":")
	if len(f) > 0 && f[0] == "" {
		f = f[1:]
	}
	e.wbuf.Reset()
	fr := e.fr
	switch tok[0] {
	case 'D':
		pl, padded := padBytes(f[2])
		d := DataBytes(f[3])
		if padded {
			fr.WriteDataPadded(atou(f[0]), f[1] == "1", d, make([]byte, pl))
			// WriteDataPadded omits the PADDED flag for an empty pad: write it raw then
			if pl == 0 {
				e.wbuf.Reset()
				fl := http2.FlagDataPadded
				if f[1] == "1" {
					fl |= http2.FlagDataEndStream
				}
				fr.WriteRawFrame(http2.FrameData, fl, atou(f[0]), append([]byte{0}, d...))
			}
		} else {
			fr.WriteData(atou(f[0]), f[1] == "1", d)
		}
	case 'H', 'U':
		var sid uint32 = atou(f[0])
		var eh bool
		var fid, cut int
		var pad string
		if tok[0] == 'H' {
			eh, pad, fid, cut = f[2] == "1", f[4], atoi(f[5]), atoi(f[6])
		} else {
			eh, pad, fid, cut = f[1] == "1", f[3], atoi(f[4]), atoi(f[5])
		}
		fl, okf := fieldList(fid)
		if !okf {
			return nil, false, false
		}
		e.encBuf.Reset()
		for _, h := range fl {
			e.enc.WriteField(h)
		}
		block := append([]byte(nil), e.encBuf.Bytes()...)
		if eh || cut > len(block) {
			cut = len(block)
		}
		if cut < 0 {
			cut = 0
		}
		frag := block[:cut]
		if eh {
			e.pending = nil
		} else {
			e.pending = block[cut:]
			if e.pending == nil {
				e.pending = []byte{}
			}
		}
		pl, _ := padBytes(pad)
		if tok[0] == 'H' {
			pr, _ := parsePrio(f[3])
			fr.WriteHeaders(http2.HeadersFrameParam{StreamID: sid, BlockFragment: frag, EndStream: f[1] == "1",
				EndHeaders: eh, PadLength: uint8(pl), Priority: pr})
			if _, has := parsePrio(f[3]); has && pr.IsZero() {
				// the library cannot express "priority present, all zero": raw frame
				e.wbuf.Reset()
				var fl http2.Flags = http2.FlagHeadersPriority
				if f[1] == "1" {
					fl |= http2.FlagHeadersEndStream
				}
				if eh {
					fl |= http2.FlagHeadersEndHeaders
				}
				var pay []byte
				if pl > 0 {
					fl |= http2.FlagHeadersPadded
					pay = append(pay, byte(pl))
				}
				pay = append(pay, 0, 0, 0, 0, 0)
				pay = append(pay, frag...)
				pay = append(pay, make([]byte, pl)...)
				fr.WriteRawFrame(http2.FrameHeaders, fl, sid, pay)
			}
		} else {
			fr.WritePushPromise(http2.PushPromiseParam{StreamID: sid, PromiseID: atou(f[2]), BlockFragment: frag,
				EndHeaders: eh, PadLength: uint8(pl)})
		}
		open = !eh
	case 'C':
		eh := f[1] == "1"
		cut := atoi(f[2])
		if eh || cut > len(e.pending) {
			cut = len(e.pending)
		}
		frag := e.pending[:cut]
		e.pending = e.pending[cut:]
		fr.WriteContinuation(atou(f[0]), eh, frag)
		open = !eh
	case 'P':
		pr, _ := parsePrio(f[1])
		fr.WritePriority(atou(f[0]), pr)
	case 'R':
		fr.WriteRSTStream(atou(f[0]), http2.ErrCode(atou(f[1])))
	case 'S':
		var ss []http2.Setting
		if len(f) > 0 && f[0] != "" {
			for _, kv := range strings.Split(f[0], ",") {
				p := strings.Split(kv, "=")
				ss = append(ss, http2.Setting{ID: http2.SettingID(atou(p[0])), Val: atou(p[1])})
			}
		}
		fr.WriteSettings(ss...)
		var tv []uint32
		for _, x := range ss {
			if x.ID == http2.SettingHeaderTableSize {
				tv = append(tv, x.Val)
			}
		}
		e.annTab = append(e.annTab, tv)
		e.dec.SetAllowedMaxDynamicTableSize(e.tabBound())
	case 'A':
		fr.WriteSettingsAck()
		// the settings acknowledged take effect for this endpoint's encoder now
		if len(e.pendRx) > 0 {
			for _, v := range e.pendRx[0] {
				e.enc.SetMaxDynamicTableSize(v)
			}
			e.pendRx = e.pendRx[1:]
		}
	case 'G':
		var d [8]byte
		copy(d[:], hx.MustUnHex(f[1]))
		fr.WritePing(f[0] == "1", d)
	case 'Y':
		fr.WriteGoAway(atou(f[0]), http2.ErrCode(atou(f[1])), hx.MustUnHex(f[2]))
	case 'W':
		fr.WriteWindowUpdate(atou(f[0]), atou(f[1]))
	default:
		return nil, false, false
	}
	return append([]byte(nil), e.wbuf.Bytes()...), open, true
}

func kvTok(f *http2.SettingsFrame) string {
	var p []string
	f.ForeachSetting(func(s http2.Setting) error {
		p = append(p, fmt.Sprintf("%d=%d", s.ID, s.Val))
		return nil
	})
	return strings.Join(p, ",")
}

func (e *Endpoint) closeBlock() string {
	if v, ok := sizeUpdates(e.openFrag); ok {
		e.sigTab = v
	}
	// The pinned hpack.Decoder rejects a second dynamic table size update at the start of a block
	// when its table is not empty, although RFC 7541 4.2 allows "smallest, then final". This
	// endpoint applies the leading updates itself (same effect, same limit check) and decodes the rest.
	frag := e.openFrag
	var err error
	for len(frag) > 0 && frag[0]&0xe0 == 0x20 && err == nil {
		v, n := uint64(frag[0]&0x1f), 1
		if v == 31 {
			shift := uint(0)
			for n < len(frag) {
				c := frag[n]
				n++
				v += uint64(c&0x7f) << shift
				shift += 7
				if c&0x80 == 0 {
					break
				}
			}
		}
		if v > uint64(e.tabBound()) {
			err = fmt.Errorf("dynamic table size update too large")
		}
		e.dec.SetMaxDynamicTableSize(uint32(v))
		frag = frag[n:]
	}
	var fs []hpack.HeaderField
	if err == nil {
		fs, err = e.dec.DecodeFull(frag)
	}
	fid := 999
	if err == nil {
		fid = fidOf(fs)
	}
	e.open = false
	return fmt.Sprintf("%s:%d:%s:%d", e.openTok, fid, strings.Join(e.openLens, "+"), e.sigTab)
}

// Receive turns one frame read by this endpoint into at most one token.
func (e *Endpoint) Receive(f http2.Frame) (string, bool) {
	if e.open {
		c, isC := f.(*http2.ContinuationFrame)
		if !isC {
			e.open = false
			return "?:interleaved-in-block", true
		}
		e.openFrag = append(e.openFrag, c.HeaderBlockFragment()...)
		e.openLens = append(e.openLens, strconv.Itoa(int(c.Header().Length)))
		if c.HeadersEnded() {
			return e.closeBlock(), true
		}
		return "", false
	}
	switch f := f.(type) {
	case *http2.DataFrame:
		if f.Header().Flags.Has(http2.FlagDataPadded) {
			return fmt.Sprintf("?:padded-data-%d", f.Header().Length), true
		}
		return fmt.Sprintf("d:%d:%d:%s", f.StreamID, b2i(f.StreamEnded()), hx.Hex(f.Data())), true
	case *http2.HeadersFrame:
		pr := "-"
		if f.HasPriority() {
			pr = fmtPrio(f.Priority)
		}
		if f.Header().Flags.Has(http2.FlagHeadersPadded) {
			return "?:padded-headers", true
		}
		e.openTok = fmt.Sprintf("h:%d:%d:%s", f.StreamID, b2i(f.StreamEnded()), pr)
		e.openFrag = append([]byte(nil), f.HeaderBlockFragment()...)
		e.openLens = []string{strconv.Itoa(len(f.HeaderBlockFragment()))}
		e.open = true
		if f.HeadersEnded() {
			return e.closeBlock(), true
		}
		return "", false
	case *http2.PushPromiseFrame:
		e.openTok = fmt.Sprintf("u:%d:%d", f.StreamID, f.PromiseID)
		e.openFrag = append([]byte(nil), f.HeaderBlockFragment()...)
		e.openLens = []string{strconv.Itoa(len(f.HeaderBlockFragment()))}
		e.open = true
		if f.HeadersEnded() {
			return e.closeBlock(), true
		}
		return "", false
	case *http2.ContinuationFrame:
		return "?:stray-continuation", true
	case *http2.PriorityFrame:
		return fmt.Sprintf("p:%d:%s", f.StreamID, fmtPrio(f.PriorityParam)), true
	case *http2.RSTStreamFrame:
		return fmt.Sprintf("r:%d:%d", f.StreamID, uint32(f.ErrCode)), true
	case *http2.SettingsFrame:
		if f.IsAck() {
			e.acksRx++
			e.dec.SetAllowedMaxDynamicTableSize(e.tabBound())
			return "a", true
		}
		var tv []uint32
		f.ForeachSetting(func(x http2.Setting) error {
			if x.ID == http2.SettingHeaderTableSize {
				tv = append(tv, x.Val)
			}
			return nil
		})
		e.pendRx = append(e.pendRx, tv)
		return "s:" + kvTok(f), true
	case *http2.PingFrame:
		return fmt.Sprintf("g:%d:%s", b2i(f.IsAck()), hx.Hex(f.Data[:])), true
	case *http2.GoAwayFrame:
		return fmt.Sprintf("y:%d:%d:%s", f.LastStreamID, uint32(f.ErrCode), hx.Hex(f.DebugData())), true
	case *http2.WindowUpdateFrame:
		return fmt.Sprintf("w:%d:%d", f.StreamID, f.Increment), true
	}
	return "?:unknown-frame", true
}

// ReceiveBytes parses everything in raw (whole frames) as received by e.
func (e *Endpoint) ReceiveBytes(raw []byte) []string {
	var out []string
	fr := http2.NewFramer(nil, bytes.NewReader(raw))
	fr.AllowIllegalReads = true
	for {
		f, err := fr.ReadFrame()
		if err != nil {
			if err.Error() != "EOF" {
				out = append(out, "?:unreadable")
			}
			return out
		}
		if t, ok := e.Receive(f); ok {
			out = append(out, t)
		}
	}
}
